(* Theory/TreeMerge.v -- the three-way merge laws of the tree-merge model (C17).

   Everything is proved for arbitrary trees (any number of file ids), an arbitrary
   text merger [tm], an arbitrary is_unmodified oracle that is sound w.r.t. entry
   equality, both entry enumerations (_entries3, and _entries_lca when every LCA tree
   agrees with BASE on the file id at hand), using only the laws of the generated
   kernels proved in Theory/ThreeWay.v. *)
From Coq Require Import List Bool Arith NArith Lia.
From BV Require Import Lib.Bytes Lib.PyPrim Lib.Tree17 Gen.ThreeWay Theory.ThreeWay Model.TreeMerge.
Import ListNotations.
Local Open Scope nat_scope.

(* ---- the kernel on law-shaped arguments ---------------------------------------- *)

Section Kernel.
Variable A : Type.
Variable eqb : A -> A -> bool.
Hypothesis Hspec : is_spec eqb.

(* one side unchanged: the other side's value wins, never a conflict *)
Lemma tw_disjoint b o t :
  t = b \/ o = b -> three_way A eqb b o t = if eqb b o then W_this else W_other.
Proof.
  intros H. destruct (eqb b o) eqn:E.
  - apply Hspec in E. subst o. apply (three_way_unchanged_other A eqb Hspec).
  - destruct H as [->| ->].
    + apply (three_way_unchanged_this A eqb Hspec). intros ->. rewrite (spec_refl eqb Hspec) in E. discriminate.
    + rewrite (spec_refl eqb Hspec) in E. discriminate.
Qed.

Lemma tw_same b x : three_way A eqb b x x = W_this.
Proof. apply (three_way_tie A eqb Hspec). Qed.
End Kernel.

Section Laws.
Variable tm : bytes -> bytes -> bytes -> bytes * bool.
Variable lm : bool.
Variable unmod : nat -> bool.

(* per file id: three-way mode, or every LCA entry equals the BASE entry *)
Definition lcas_agree (b : option entry) (ls : list (option entry)) : Prop :=
  lm = false \/ (forall l, In l ls -> l = b).

Lemma res_three_way {A} (eqb : A -> A -> bool) (Hs : is_spec eqb) (v : option entry -> A) allow b ls o t :
  lcas_agree b ls ->
  res lm eqb allow (v b) (map v ls) (v o) (v t) = three_way A eqb (v b) (v o) (v t).
Proof.
  intros [H|H]; unfold res.
  - rewrite H. reflexivity.
  - destruct lm; [|reflexivity].
    apply (lca_consistent_base A eqb Hs). intros x Hx. apply in_map_iff in Hx as [l [<- Hl]].
    rewrite (H l Hl). reflexivity.
Qed.

Lemma contents_winner_three_way b ls o t :
  lcas_agree b ls ->
  contents_winner lm b ls o t = three_way _ opair_eqb (vpair b) (vpair o) (vpair t).
Proof.
  intros H. unfold contents_winner. destruct lm eqn:El.
  - destruct H as [H|H]; [congruence|].
    apply (lca_consistent_base _ opair_eqb opair_eqb_spec). intros x Hx.
    apply in_map_iff in Hx as [l [<- Hl]]. rewrite (H l Hl). reflexivity.
  - destruct (opair_eqb (vpair b) (vpair o)) eqn:E; [|reflexivity].
    apply opair_eqb_spec in E. rewrite <- E. symmetry.
    apply (three_way_unchanged_other _ opair_eqb opair_eqb_spec).
Qed.

Lemma eta_entry e : mkE (e_parent e) (e_name e) (e_body e) = e.
Proof. destruct e; reflexivity. Qed.

(* ---- law 1, one entry: OTHER = BASE ------------------------------------------- *)

Lemma merge_entry_other_eq_base f thop ohtp changed b ls t :
  lcas_agree b ls ->
  merge_entry tm lm f thop ohtp changed b ls b t = (t, []).
Proof.
  intros H. unfold merge_entry, merge_names, merge_executable, do_merge_contents.
  rewrite (res_three_way _ oname_eqb_spec vname), (res_three_way _ opar_eqb_spec vparent),
          (res_three_way _ oexec_eqb_spec vexec), contents_winner_three_way by exact H.
  rewrite !(three_way_unchanged_other _ _ oname_eqb_spec), !(three_way_unchanged_other _ _ opar_eqb_spec),
          !(three_way_unchanged_other _ _ oexec_eqb_spec), !(three_way_unchanged_other _ _ opair_eqb_spec).
  destruct t as [te|]; simpl.
  - destruct changed; simpl; rewrite eta_entry; reflexivity.
  - destruct b as [be|]; destruct changed; reflexivity.
Qed.

(* ---- law 3, one entry: THIS = OTHER -------------------------------------------- *)

Lemma merge_entry_identical f thop ohtp changed b ls x :
  lcas_agree b ls ->
  merge_entry tm lm f thop ohtp changed b ls x x = (x, []).
Proof.
  intros H. unfold merge_entry, merge_names, merge_executable, do_merge_contents.
  rewrite (res_three_way _ oname_eqb_spec vname), (res_three_way _ opar_eqb_spec vparent),
          (res_three_way _ oexec_eqb_spec vexec), contents_winner_three_way by exact H.
  rewrite !(tw_same _ _ oname_eqb_spec), !(tw_same _ _ opar_eqb_spec),
          !(tw_same _ _ oexec_eqb_spec), !(tw_same _ _ opair_eqb_spec).
  destruct x as [xe|]; simpl.
  - destruct changed; simpl; rewrite eta_entry; reflexivity.
  - destruct changed; reflexivity.
Qed.

(* ---- law 2, one entry: THIS = BASE --------------------------------------------- *)

Ltac eqb_hyps :=
  repeat match goal with
         | H : bytes_eqb _ _ = true |- _ => apply bytes_eqb_spec17 in H
         | H : Nat.eqb _ _ = true |- _ => apply Nat.eqb_eq in H
         | H : Bool.eqb _ _ = true |- _ => apply Bool.eqb_prop in H
         | H : kind_eqb _ _ = true |- _ => apply kind_eqb_spec in H
         | H : opair_eqb _ _ = true |- _ => apply opair_eqb_spec in H
         | H : opair_eqb _ _ = false |- _ => apply (spec_false _ opair_eqb_spec) in H
         | H : oexec_eqb _ _ = true |- _ => apply oexec_eqb_spec in H
         | H : oexec_eqb _ _ = false |- _ => apply (spec_false _ oexec_eqb_spec) in H
         | H : oname_eqb _ _ = true |- _ => apply oname_eqb_spec in H
         | H : oname_eqb _ _ = false |- _ => apply (spec_false _ oname_eqb_spec) in H
         | H : opar_eqb _ _ = true |- _ => apply opar_eqb_spec in H
         | H : opar_eqb _ _ = false |- _ => apply (spec_false _ opar_eqb_spec) in H
         end.

Lemma merge_entry_this_eq_base f thop ohtp changed b ls o :
  lcas_agree b ls ->
  (vpair b <> vpair o -> changed = true) ->
  merge_entry tm lm f thop ohtp changed b ls o b = (o, []).
Proof.
  intros H Hch. unfold merge_entry, merge_names, merge_executable, do_merge_contents.
  rewrite (res_three_way _ oname_eqb_spec vname), (res_three_way _ opar_eqb_spec vparent),
          (res_three_way _ oexec_eqb_spec vexec), contents_winner_three_way by exact H.
  rewrite !(tw_disjoint _ _ oname_eqb_spec _ _ _ (or_introl eq_refl)),
          !(tw_disjoint _ _ opar_eqb_spec _ _ _ (or_introl eq_refl)),
          !(tw_disjoint _ _ oexec_eqb_spec _ _ _ (or_introl eq_refl)),
          !(tw_disjoint _ _ opair_eqb_spec _ _ _ (or_introl eq_refl)).
  destruct (oname_eqb (vname b) (vname o)) eqn:En, (opar_eqb (vparent b) (vparent o)) eqn:Ep,
           (oexec_eqb (vexec b) (vexec o)) eqn:Ex, (opair_eqb (vpair b) (vpair o)) eqn:Epair;
    eqb_hyps;
    try (rewrite (Hch Epair));
    try (assert (Hr : (if changed then RUnmodified else RUnmodified) = RUnmodified)
           by (destruct changed; reflexivity); rewrite Hr; clear Hr);
    clear Hch;
    destruct b as [[pb nb bb]|], o as [[po no bo]|]; simpl in *;
    try discriminate; try congruence; try reflexivity;
    repeat match goal with H : Some _ = Some _ |- _ => injection H as H end; subst;
    try (destruct bb, bo; simpl in *; try discriminate; congruence);
    try (destruct bo; simpl in *; congruence).
Qed.

(* ---- law 4 per attribute: an entry present on all three sides, each attribute changed by
        at most one side: the result carries, attribute by attribute, the changed value ------- *)

Lemma merge_entry_attrs f thop ohtp changed be oe te ls :
  lcas_agree (Some be) ls ->
  (vpair (Some be) <> vpair (Some oe) -> changed = true) ->
  (vname (Some te) = vname (Some be) \/ vname (Some oe) = vname (Some be)) ->
  (vparent (Some te) = vparent (Some be) \/ vparent (Some oe) = vparent (Some be)) ->
  (vpair (Some te) = vpair (Some be) \/ vpair (Some oe) = vpair (Some be)) ->
  (vexec (Some te) = vexec (Some be) \/ vexec (Some oe) = vexec (Some be)) ->
  exists r,
    merge_entry tm lm f thop ohtp changed (Some be) ls (Some oe) (Some te) = (Some r, []) /\
    e_name r = (if bytes_eqb (e_name be) (e_name oe) then e_name te else e_name oe) /\
    e_parent r = (if Nat.eqb (e_parent be) (e_parent oe) then e_parent te else e_parent oe) /\
    vpair (Some r) = (if opair_eqb (vpair (Some be)) (vpair (Some oe)) then vpair (Some te) else vpair (Some oe)) /\
    (kind_of (e_body r) = KFile ->
     exec_of (e_body r) = if Bool.eqb (exec_of (e_body be)) (exec_of (e_body oe))
                          then exec_of (e_body te) else exec_of (e_body oe)).
Proof.
  intros H Hch Hn Hp Hc Hx. unfold merge_entry, merge_names, merge_executable, do_merge_contents.
  rewrite (res_three_way _ oname_eqb_spec vname), (res_three_way _ opar_eqb_spec vparent),
          (res_three_way _ oexec_eqb_spec vexec), contents_winner_three_way by exact H.
  rewrite !(tw_disjoint _ _ oname_eqb_spec _ _ _ Hn), !(tw_disjoint _ _ opar_eqb_spec _ _ _ Hp),
          !(tw_disjoint _ _ oexec_eqb_spec _ _ _ Hx), !(tw_disjoint _ _ opair_eqb_spec _ _ _ Hc).
  clear Hn Hp H.
  destruct (opair_eqb (vpair (Some be)) (vpair (Some oe))) eqn:Epair;
    eqb_hyps;
    try (rewrite (Hch Epair));
    try (assert (Hr : (if changed then RUnmodified else RUnmodified) = RUnmodified)
           by (destruct changed; reflexivity); rewrite Hr; clear Hr);
    clear Hch;
    destruct be as [pb nb bb], oe as [po no bo], te as [pt nt bt]; simpl in *;
    destruct (bytes_eqb nb no) eqn:En, (Nat.eqb pb po) eqn:Ep, (Bool.eqb (exec_of bb) (exec_of bo)) eqn:Ex;
    simpl; eexists; (split; [reflexivity|]); simpl;
    (split; [reflexivity|]); (split; [reflexivity|]);
    destruct bb, bo, bt; simpl in *; eqb_hyps;
    repeat match goal with
           | H : _ \/ _ |- _ => destruct H
           | H : Some _ = Some _ |- _ => injection H as H
           end; subst; simpl in *;
    try discriminate; try congruence; try (split; [reflexivity|]); try reflexivity; try congruence;
    try (split; congruence).
Qed.

(* ---- _entries_lca's own decisions on law-shaped entries ------------------------------ *)

Lemma lca_tw {A} (eqb : A -> A -> bool) (Hs : is_spec eqb) (v : option entry -> A) allow b ls o t :
  (forall l, In l ls -> l = b) ->
  lca_multi_way A eqb (v b, map v ls) (v o) (v t) allow = three_way A eqb (v b) (v o) (v t).
Proof.
  intros H. apply (lca_consistent_base A eqb Hs). intros x Hx.
  apply in_map_iff in Hx as [l [<- Hl]]. rewrite (H l Hl). reflexivity.
Qed.

Lemma lca_decide_this_eq_base b ls o :
  (forall l, In l ls -> l = b) ->
  match lca_decide b ls o b with
  | None => o = b
  | Some c => vpair b <> vpair o -> c = true
  end.
Proof.
  intros H. unfold lca_decide.
  rewrite (lca_tw _ okind_eqb_spec vkind), (lca_tw _ opar_eqb_spec vparent), (lca_tw _ oname_eqb_spec vname),
          (lca_tw _ obytes_eqb_spec vsha), (lca_tw _ oexec_eqb_spec vexec), (lca_tw _ obytes_eqb_spec vtarget)
    by exact H.
  rewrite (tw_disjoint _ _ okind_eqb_spec _ _ _ (or_introl eq_refl)),
          (tw_disjoint _ _ opar_eqb_spec _ _ _ (or_introl eq_refl)),
          (tw_disjoint _ _ oname_eqb_spec _ _ _ (or_introl eq_refl)),
          !(tw_disjoint _ _ obytes_eqb_spec _ _ _ (or_introl eq_refl)),
          (tw_disjoint _ _ oexec_eqb_spec _ _ _ (or_introl eq_refl)).
  destruct b as [[pb nb bb]|], o as [[po no bo]|]; simpl;
    try (destruct bb; simpl; congruence); try (destruct bo; simpl; congruence); try reflexivity.
  destruct bb, bo; simpl; try congruence;
    repeat match goal with
           | |- context [Nat.eqb ?a ?b] => let E := fresh "E" in destruct (Nat.eqb a b) eqn:E
           | |- context [bytes_eqb ?a ?b] => let E := fresh "E" in destruct (bytes_eqb a b) eqn:E
           | |- context [Bool.eqb ?a ?b] => let E := fresh "E" in destruct (Bool.eqb a b) eqn:E
           end; simpl; eqb_hyps; subst; try congruence;
    try (intros Hne; exfalso; apply Hne; reflexivity).
Qed.

(* ---- whole trees ---------------------------------------------------------------------- *)

(* three-way mode, or: there are LCA trees and each of them agrees with BASE on file id f *)
Definition lcas_agree_at (B : tree) (Ls : list tree) (f : nat) : Prop :=
  lm = false \/ (Ls <> [] /\ forall L, In L Ls -> L f = B f).

(* InventoryEntry.is_unmodified (same last-changed revision) implies the entries are equal *)
Definition unmod_sound (Ls : list tree) (O : tree) : Prop :=
  forall f, unmod f = true -> exists L, In L Ls /\ L f = O f.

Definition cs_of (U : list nat) (B : tree) (Ls : list tree) (O T : tree) (f : nat) : list conflict :=
  match visit tm lm unmod U B Ls O T f with Some (_, cs) => cs | None => [] end.

Lemma merge_tree_snd U B Ls O T :
  snd (merge_tree tm lm unmod U B Ls O T) = flat_map (cs_of U B Ls O T) U.
Proof. reflexivity. Qed.

Lemma lcas_agree_of_at B Ls f :
  lcas_agree_at B Ls f -> lcas_agree (B f) (map (fun L : tree => L f) Ls).
Proof.
  intros [H|[_ H]]; [left; exact H|right]. intros l Hl.
  apply in_map_iff in Hl as [L [<- HL]]. apply H. exact HL.
Qed.

Lemma lcas_agree_nil b : lm = false -> lcas_agree b [].
Proof. intros H. left. exact H. Qed.

(* what happens to one file id: either it is not processed, or merge_entry runs on its entries *)
Lemma visit_cases U B Ls O T f :
  visit tm lm unmod U B Ls O T f = None \/
  exists thop ohtp changed ls,
    visit tm lm unmod U B Ls O T f = Some (merge_entry tm lm f thop ohtp changed (B f) ls (O f) (T f)) /\
    (lcas_agree_at B Ls f -> lcas_agree (B f) ls).
Proof.
  unfold visit. destruct lm eqn:El.
  - unfold entry_lca.
    destruct (negb (existsb present (O f :: map (fun L : tree => L f) Ls))); [left; reflexivity|].
    destruct (unmod f); [left; reflexivity|].
    destruct (lca_decide _ _ _ _) as [c|]; [|left; reflexivity].
    right. do 4 eexists. split; [reflexivity|]. apply lcas_agree_of_at.
  - unfold entry3. destruct (oentry_eqb (B f) (O f)); [left; reflexivity|].
    right. do 4 eexists. split; [reflexivity|]. intros _. left. exact El.
Qed.

Theorem law_other_eq_base U B Ls O T f :
  lcas_agree_at B Ls f -> O f = B f ->
  fst (merge_tree tm lm unmod U B Ls O T) f = T f /\ cs_of U B Ls O T f = [].
Proof.
  intros Ha Ho. unfold cs_of. simpl.
  destruct (visit_cases U B Ls O T f) as [Hv|[thop [ohtp [ch [ls [Hv Hl]]]]]]; rewrite Hv.
  - split; [destruct (existsb _ U); reflexivity|reflexivity].
  - rewrite Ho, merge_entry_other_eq_base by (apply Hl; exact Ha).
    split; [destruct (existsb _ U); reflexivity|reflexivity].
Qed.

Theorem law_identical U B Ls O T f :
  lcas_agree_at B Ls f -> T f = O f ->
  fst (merge_tree tm lm unmod U B Ls O T) f = T f /\ cs_of U B Ls O T f = [].
Proof.
  intros Ha Ho. unfold cs_of. simpl.
  destruct (visit_cases U B Ls O T f) as [Hv|[thop [ohtp [ch [ls [Hv Hl]]]]]]; rewrite Hv.
  - split; [destruct (existsb _ U); reflexivity|reflexivity].
  - rewrite Ho, merge_entry_identical by (apply Hl; exact Ha).
    split; [destruct (existsb _ U); reflexivity|reflexivity].
Qed.

Lemma existsb_eqb_In f U : existsb (Nat.eqb f) U = true <-> In f U.
Proof.
  rewrite existsb_exists. split.
  - intros [x [Hx E]]. apply Nat.eqb_eq in E. subst. exact Hx.
  - intros H. exists f. split; [exact H|apply Nat.eqb_refl].
Qed.

(* THIS = BASE at f: the processed entry becomes OTHER's, and an unprocessed one already equals it *)
Lemma visit_this_eq_base U B Ls O T f :
  lcas_agree_at B Ls f -> unmod_sound Ls O -> T f = B f ->
  match visit tm lm unmod U B Ls O T f with
  | None => O f = B f
  | Some r => r = (O f, [])
  end.
Proof.
  intros Ha Hu Ht. unfold visit. destruct lm eqn:El.
  - destruct Ha as [Ha|[Hne Ha]]; [congruence|].
    assert (Hls : forall l, In l (map (fun L : tree => L f) Ls) -> l = B f).
    { intros l Hl. apply in_map_iff in Hl as [L [<- HL]]. apply Ha. exact HL. }
    unfold entry_lca.
    destruct (existsb present (O f :: map (fun L : tree => L f) Ls)) eqn:Ew; simpl.
    + destruct (unmod f) eqn:Eu.
      * destruct (Hu f Eu) as [L [HL E]]. rewrite <- E. apply Ha. exact HL.
      * pose proof (lca_decide_this_eq_base (B f) _ (O f) Hls) as Hd. rewrite Ht.
        destruct (lca_decide (B f) _ (O f) (B f)) as [c|]; [|exact Hd].
        rewrite <- El. apply merge_entry_this_eq_base; [right; exact Hls|exact Hd].
    + (* never walked: absent from OTHER and from every LCA, hence from BASE *)
      simpl in Ew. apply orb_false_iff in Ew as [Eo El2].
      destruct (O f); [discriminate|]. destruct Ls as [|L Ls']; [congruence|].
      simpl in El2. apply orb_false_iff in El2 as [E1 _].
      rewrite <- (Ha L (or_introl eq_refl)). destruct (L f); [discriminate|reflexivity].
  - unfold entry3. destruct (oentry_eqb (B f) (O f)) eqn:E.
    + apply oentry_eqb_spec in E. congruence.
    + rewrite Ht. rewrite <- El. apply merge_entry_this_eq_base; [left; exact El|].
      intros Hne. destruct (opair_eqb (vpair (B f)) (vpair (O f))) eqn:Ep; [|reflexivity].
      apply opair_eqb_spec in Ep. contradiction.
Qed.

Theorem law_this_eq_base U B Ls O T f :
  lcas_agree_at B Ls f -> unmod_sound Ls O -> T f = B f -> (In f U \/ O f = B f) ->
  fst (merge_tree tm lm unmod U B Ls O T) f = O f /\ cs_of U B Ls O T f = [].
Proof.
  intros Ha Hu Ht Hin. unfold cs_of. simpl.
  pose proof (visit_this_eq_base U B Ls O T f Ha Hu Ht) as Hv.
  destruct (visit tm lm unmod U B Ls O T f) as [r|].
  - subst r. split; [|reflexivity].
    destruct (existsb (Nat.eqb f) U) eqn:E; [reflexivity|].
    destruct Hin as [Hin|Hin]; [apply existsb_eqb_In in Hin; congruence|congruence].
  - split; [|reflexivity]. destruct (existsb (Nat.eqb f) U); congruence.
Qed.

Lemma flat_map_nil {X Y} (g : X -> list Y) l : (forall x, In x l -> g x = []) -> flat_map g l = [].
Proof.
  induction l as [|x l IH]; simpl; intros H; [reflexivity|].
  rewrite (H x) by auto. apply IH. intros y Hy. apply H. auto.
Qed.

Lemma In_or_eq U (O B : tree) f : (O f <> B f -> In f U) -> In f U \/ O f = B f.
Proof.
  intros H. destruct (oentry_eqb (O f) (B f)) eqn:E.
  - right. apply oentry_eqb_spec. exact E.
  - left. apply H. apply (spec_false _ oentry_eqb_spec). exact E.
Qed.

Theorem tree_other_eq_base U B Ls O T :
  (forall f, lcas_agree_at B Ls f) -> (forall f, O f = B f) ->
  (forall f, fst (merge_tree tm lm unmod U B Ls O T) f = T f) /\
  snd (merge_tree tm lm unmod U B Ls O T) = [].
Proof.
  intros Ha Ho. split.
  - intros f. apply law_other_eq_base; auto.
  - rewrite merge_tree_snd. apply flat_map_nil. intros f _. apply law_other_eq_base; auto.
Qed.

Theorem tree_this_eq_base U B Ls O T :
  (forall f, lcas_agree_at B Ls f) -> unmod_sound Ls O -> (forall f, T f = B f) ->
  (forall f, O f <> B f -> In f U) ->
  (forall f, fst (merge_tree tm lm unmod U B Ls O T) f = O f) /\
  snd (merge_tree tm lm unmod U B Ls O T) = [].
Proof.
  intros Ha Hu Ht HU. split.
  - intros f. apply law_this_eq_base; auto. apply In_or_eq, HU.
  - rewrite merge_tree_snd. apply flat_map_nil. intros f Hf. apply law_this_eq_base; auto.
Qed.

Theorem tree_identical U B Ls O T :
  (forall f, lcas_agree_at B Ls f) -> (forall f, T f = O f) ->
  (forall f, fst (merge_tree tm lm unmod U B Ls O T) f = T f) /\
  snd (merge_tree tm lm unmod U B Ls O T) = [].
Proof.
  intros Ha Ho. split.
  - intros f. apply law_identical; auto.
  - rewrite merge_tree_snd. apply flat_map_nil. intros f _. apply law_identical; auto.
Qed.

(* the union of the two sides' changes *)
Definition union_tree (B O T : tree) : tree :=
  fun f => if oentry_eqb (O f) (B f) then T f else O f.

Theorem tree_disjoint_union U B Ls O T :
  (forall f, lcas_agree_at B Ls f) -> unmod_sound Ls O ->
  (forall f, T f = B f \/ O f = B f) ->
  (forall f, O f <> B f -> In f U) ->
  (forall f, fst (merge_tree tm lm unmod U B Ls O T) f = union_tree B O T f) /\
  snd (merge_tree tm lm unmod U B Ls O T) = [].
Proof.
  intros Ha Hu Hd HU. split.
  - intros f. unfold union_tree. destruct (oentry_eqb (O f) (B f)) eqn:E.
    + apply oentry_eqb_spec in E. apply law_other_eq_base; auto.
    + destruct (Hd f) as [Ht|Ho].
      * apply law_this_eq_base; auto. apply In_or_eq, HU.
      * rewrite Ho, (spec_refl _ oentry_eqb_spec) in E. discriminate.
  - rewrite merge_tree_snd. apply flat_map_nil. intros f Hf.
    destruct (Hd f) as [Ht|Ho].
    + apply law_this_eq_base; auto.
    + apply law_other_eq_base; auto.
Qed.

End Laws.
