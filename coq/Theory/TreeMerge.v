(* Theory/TreeMerge.v -- the three-way merge laws of the tree-merge model (C17).

   Everything is proved for arbitrary trees (any number of file ids), an arbitrary
   text merger [tm], an arbitrary is_unmodified oracle that is sound w.r.t. entry
   equality, both entry enumerations (_entries3, and _entries_lca when every LCA tree
   agrees with BASE on the file id at hand), using only the laws of the generated
   kernels proved in Theory/ThreeWay.v. *)
From Coq Require Import List Bool Arith NArith Lia.
From BV Require Import Lib.Bytes Lib.PyPrim Lib.Tree17 Gen.ThreeWay Theory.ThreeWay Model.TreeMerge.
Import ListNotations.
Local Open Scope nat_scope.

(* ---- the kernel on law-shaped arguments ---------------------------------------- *)

Section Kernel.
Variable A : Type.
Variable eqb : A -> A -> bool.
Hypothesis Hspec : is_spec eqb.

(* one side unchanged: the other side's value wins, never a conflict *)
Lemma tw_disjoint b o t :
  t = b \/ o = b -> three_way A eqb b o t = if eqb b o then W_this else W_other.
Proof.
  intros H. destruct (eqb b o) eqn:E.
  - apply Hspec in E. subst o. apply (three_way_unchanged_other A eqb Hspec).
  - destruct H as [->| ->].
    + apply (three_way_unchanged_this A eqb Hspec). intros ->. rewrite (spec_refl eqb Hspec) in E. discriminate.
    + rewrite (spec_refl eqb Hspec) in E. discriminate.
Qed.

Lemma tw_same b x : three_way A eqb b x x = W_this.
Proof. apply (three_way_tie A eqb Hspec). Qed.
End Kernel.

Section Laws.
Variable tm : bytes -> bytes -> bytes -> bytes * bool.
Variable lm : bool.
Variable unmod : nat -> bool.

(* per file id: three-way mode, or every LCA entry equals the BASE entry *)
Definition lcas_agree (b : option entry) (ls : list (option entry)) : Prop :=
  lm = false \/ (forall l, In l ls -> l = b).

Lemma res_three_way {A} (eqb : A -> A -> bool) (Hs : is_spec eqb) (v : option entry -> A) allow b ls o t :
  lcas_agree b ls ->
  res lm eqb allow (v b) (map v ls) (v o) (v t) = three_way A eqb (v b) (v o) (v t).
Proof.
  intros [H|H]; unfold res.
  - rewrite H. reflexivity.
  - destruct lm; [|reflexivity].
    apply (lca_consistent_base A eqb Hs). intros x Hx. apply in_map_iff in Hx as [l [<- Hl]].
    rewrite (H l Hl). reflexivity.
Qed.

Lemma contents_winner_three_way b ls o t :
  lcas_agree b ls ->
  contents_winner lm b ls o t = three_way _ opair_eqb (vpair b) (vpair o) (vpair t).
Proof.
  intros H. unfold contents_winner. destruct lm eqn:El.
  - destruct H as [H|H]; [congruence|].
    apply (lca_consistent_base _ opair_eqb opair_eqb_spec). intros x Hx.
    apply in_map_iff in Hx as [l [<- Hl]]. rewrite (H l Hl). reflexivity.
  - destruct (opair_eqb (vpair b) (vpair o)) eqn:E; [|reflexivity].
    apply opair_eqb_spec in E. rewrite <- E. symmetry.
    apply (three_way_unchanged_other _ opair_eqb opair_eqb_spec).
Qed.

Lemma eta_entry e : mkE (e_parent e) (e_name e) (e_body e) = e.
Proof. destruct e; reflexivity. Qed.

(* ---- law 1, one entry: OTHER = BASE ------------------------------------------- *)

Lemma merge_entry_other_eq_base f thop ohtp changed b ls t :
  lcas_agree b ls ->
  merge_entry tm lm f thop ohtp changed b ls b t = (t, []).
Proof.
  intros H. unfold merge_entry, merge_names, merge_executable, do_merge_contents.
  rewrite (res_three_way _ oname_eqb_spec vname), (res_three_way _ opar_eqb_spec vparent),
          (res_three_way _ oexec_eqb_spec vexec), contents_winner_three_way by exact H.
  rewrite !(three_way_unchanged_other _ _ oname_eqb_spec), !(three_way_unchanged_other _ _ opar_eqb_spec),
          !(three_way_unchanged_other _ _ oexec_eqb_spec), !(three_way_unchanged_other _ _ opair_eqb_spec).
  destruct t as [te|]; simpl.
  - destruct changed; simpl; rewrite eta_entry; reflexivity.
  - destruct b as [be|]; destruct changed; reflexivity.
Qed.

(* ---- law 3, one entry: THIS = OTHER -------------------------------------------- *)

Lemma merge_entry_identical f thop ohtp changed b ls x :
  lcas_agree b ls ->
  merge_entry tm lm f thop ohtp changed b ls x x = (x, []).
Proof.
  intros H. unfold merge_entry, merge_names, merge_executable, do_merge_contents.
  rewrite (res_three_way _ oname_eqb_spec vname), (res_three_way _ opar_eqb_spec vparent),
          (res_three_way _ oexec_eqb_spec vexec), contents_winner_three_way by exact H.
  rewrite !(tw_same _ _ oname_eqb_spec), !(tw_same _ _ opar_eqb_spec),
          !(tw_same _ _ oexec_eqb_spec), !(tw_same _ _ opair_eqb_spec).
  destruct x as [xe|]; simpl.
  - destruct changed; simpl; rewrite eta_entry; reflexivity.
  - destruct changed; reflexivity.
Qed.

End Laws.
