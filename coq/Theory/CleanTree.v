(* Theory/CleanTree.v -- proofs about Model/CleanTree.v (C46). *)
From Coq Require Import NArith List Bool Lia.
From BV Require Import Lib.Bytes Lib.DirTree Model.CleanTree.
Import ListNotations.

(* every non-empty proper prefix of a versioned path is versioned (inventory invariant) *)
Definition parent_closed (vs : list (path * bool)) : Prop :=
  forall a b, versioned vs (a ++ b) = true -> a <> [] -> versioned vs a = true.

Lemma versioned_dir_versioned vs p : versioned_dir vs p = true -> versioned vs p = true.
Proof.
  unfold versioned_dir, versioned. rewrite existsb_exists. intros ([q d] & Hin & H).
  apply andb_true_iff in H as [H _]. apply path_eqb_eq in H. simpl in H. subst.
  apply mem_path_In. apply in_map_iff. exists (q, d); auto.
Qed.

Lemma nonempty_app_cases (q : path) : q = [] \/ exists a c, q = a ++ [c].
Proof.
  destruct q as [|x q]; [left; reflexivity|right].
  destruct (exists_last (l := x :: q)) as (a & c & E); [discriminate|]. eauto.
Qed.

(* ---- what the two extras walks emit -------------------------------- *)

Lemma bzr_visit_emits vs s q n p :
  In p (fst (bzr_visit vs s q n)) ->
  p = q /\ q <> [] /\ name_eqb (last_name q) n_bzr = false /\ versioned vs q = false.
Proof.
  unfold bzr_visit. destruct q as [|c q]; [intros []|].
  destruct (name_eqb (last_name (c :: q)) n_bzr) eqn:E1; [intros []|].
  destruct (versioned vs (c :: q)) eqn:E2; [intros []|].
  intros [<-|[]]. repeat split; auto. discriminate.
Qed.

Lemma bzr_visit_descends vs s q n s' :
  snd (bzr_visit vs s q n) = Some s' -> q <> [] -> versioned_dir vs q = true.
Proof.
  unfold bzr_visit. destruct q as [|c q]; [congruence|]. intros H _.
  destruct (name_eqb (last_name (c :: q)) n_bzr); [discriminate|].
  destruct (versioned vs (c :: q)); [|discriminate].
  destruct (versioned_dir vs (c :: q)); [reflexivity|discriminate].
Qed.

Lemma bzr_extras_sound t vs p :
  wf_node t = true -> In p (extras Bzr t vs) ->
  p <> [] /\ versioned vs p = false /\ name_eqb (last_name p) n_bzr = false /\
  (exists n, lookup p t = Some n) /\
  (forall a b, p = a ++ b -> a <> [] -> b <> [] -> versioned_dir vs a = true).
Proof.
  intros Hw Hin. unfold extras in Hin.
  apply walk_sound in Hin as (sfx & s' & n' & Hr & Hv); [|assumption].
  simpl app in Hv. apply bzr_visit_emits in Hv as (-> & Hne & Hc & Hu).
  repeat split; auto.
  - exists n'. eapply reach_lookup; eassumption.
  - intros a b -> Ha Hb.
    destruct (reach_descends _ a b tt [] t (s', n') Hr Hb) as (s1 & n1 & s2 & cs & _ & Hd & _).
    simpl app in Hd. eapply bzr_visit_descends; eassumption.
Qed.

Lemma git_visit_emits ix s q n p :
  In p (fst (git_visit ix s q n)) ->
  p = q /\ q <> [] /\ is_dir n = false /\ name_eqb (last_name q) n_git = false /\ mem_path q ix = false.
Proof.
  unfold git_visit. destruct q as [|c q]; [intros []|].
  destruct n as [| [|] | cs].
  - destruct (name_eqb (last_name (c :: q)) n_git) eqn:E1; [intros []|].
    destruct (mem_path (c :: q) ix) eqn:E2; [intros []|].
    intros [<-|[]]. repeat split; auto. discriminate.
  - intros [].
  - destruct (name_eqb (last_name (c :: q)) n_git) eqn:E1; [intros []|].
    destruct (mem_path (c :: q) ix) eqn:E2; [intros []|].
    intros [<-|[]]. repeat split; auto. discriminate.
  - destruct (name_eqb (last_name (c :: q)) n_git || has_name n_git cs); intros [].
Qed.

Lemma git_visit_descends ix s q cs s' :
  snd (git_visit ix s q (Dir cs)) = Some s' -> q <> [] -> has_name n_git cs = false.
Proof.
  unfold git_visit. destruct q as [|c q]; [congruence|]. intros H _.
  destruct (name_eqb (last_name (c :: q)) n_git); [discriminate|].
  destruct (has_name n_git cs); [discriminate|reflexivity].
Qed.

Lemma git_extras_sound t vs p :
  wf_node t = true -> In p (extras Git t vs) ->
  p <> [] /\ versioned vs p = false /\
  (exists n, lookup p t = Some n /\ is_dir n = false) /\
  (forall a b, p = a ++ b -> a <> [] -> b <> [] ->
     exists cs, lookup a t = Some (Dir cs) /\ has_name n_git cs = false).
Proof.
  intros Hw Hin. unfold extras in Hin.
  apply walk_sound in Hin as (sfx & s' & n' & Hr & Hv); [|assumption].
  simpl app in Hv. apply git_visit_emits in Hv as (-> & Hne & Hd & Hc & Hu).
  repeat split; auto.
  - exists n'. split; [eapply reach_lookup; eassumption|assumption].
  - intros a b -> Ha Hb.
    destruct (reach_descends _ a b tt [] t (s', n') Hr Hb) as (s1 & n1 & s2 & cs & Hra & Hd' & ->).
    simpl app in Hd'. exists cs. split; [eapply reach_lookup; eassumption|].
    eapply git_visit_descends; eassumption.
Qed.

(* common part *)
Lemma extras_sound fl t vs p :
  wf_node t = true -> In p (extras fl t vs) ->
  p <> [] /\ versioned vs p = false /\ exists n, lookup p t = Some n.
Proof.
  intros Hw Hin. destruct fl.
  - apply bzr_extras_sound in Hin as (H1 & H2 & _ & H3 & _); auto.
  - apply git_extras_sound in Hin as (H1 & H2 & (n & H3 & _) & _); eauto.
Qed.

Lemma deletables_extras fl o ign t vs p :
  In p (deletables fl o ign t vs) ->
  In p (extras fl t vs) /\ selected o ign p = true /\ keep_nested t p = true.
Proof.
  unfold deletables. rewrite !filter_In. tauto.
Qed.

(* commits b06b6de + edd5827: nothing with a control filename (.bzr, .git) among its path components
   is ever deletable *)
Theorem control_names_never_deletable fl o ign t vs p c :
  In p (deletables fl o ign t vs) -> In c p -> is_control_name c = false.
Proof.
  unfold deletables. rewrite !filter_In. unfold not_control. intros (((_ & H) & _) & _) Hc.
  apply negb_true_iff in H. destruct (is_control_name c) eqn:E; [|reflexivity].
  assert (existsb is_control_name p = true) as X; [|congruence].
  apply existsb_exists. eauto.
Qed.

(* ---- only what was requested --------------------------------------- *)

Theorem only_requested fl o ign t vs p :
  wf_node t = true -> In p (deletables fl o ign t vs) ->
  p <> [] /\ (exists n, lookup p t = Some n) /\ versioned vs p = false /\
  ((o_detritus o = true /\ is_detritus p = true) \/
   (o_ignored o = true /\ mem_path p ign = true) \/
   (o_unknown o = true /\ mem_path p ign = false)).
Proof.
  intros Hw Hin. apply deletables_extras in Hin as (He & Hs & _).
  apply extras_sound in He as (H1 & H2 & H3); [|assumption].
  repeat split; auto. unfold selected in Hs.
  destruct (o_detritus o && is_detritus p) eqn:E.
  - apply andb_true_iff in E. left; assumption.
  - right. destruct (mem_path p ign); [left|right]; auto.
Qed.

Theorem no_category_nothing fl o ign t vs :
  o_unknown o = false -> o_ignored o = false -> o_detritus o = false ->
  deletables fl o ign t vs = [].
Proof.
  intros H1 H2 H3. unfold deletables.
  assert (filter (selected o ign) (filter not_control (extras fl t vs)) = []) as ->; [|reflexivity].
  induction (filter not_control (extras fl t vs)) as [|p l IH]; [reflexivity|]. simpl.
  unfold selected at 1. rewrite H1, H2, H3. simpl. destruct (mem_path p ign); exact IH.
Qed.

(* the result of clean is the tree with some of the deletables removed, nothing else *)
Lemma clean_cases fl o ign t vs :
  clean fl o ign t vs = t \/ clean fl o ign t vs = remove_all (deletables fl o ign t vs) t.
Proof.
  unfold clean. destruct (deletables fl o ign t vs); [left; reflexivity|].
  destruct (o_confirm o) as [[|]|]; try (left; reflexivity);
    destruct (o_dry o); auto.
Qed.

Theorem untouched_unless_below_deletable fl o ign t vs q :
  (forall p, In p (deletables fl o ign t vs) -> is_prefix p q = false) ->
  kind_at q (clean fl o ign t vs) = kind_at q t.
Proof.
  intros H. destruct (clean_cases fl o ign t vs) as [-> | ->]; [reflexivity|].
  apply kind_at_remove_all_other; assumption.
Qed.

(* ---- versioned paths and their ancestors --------------------------- *)

Lemma is_prefix_trans a b c : is_prefix a b = true -> is_prefix b c = true -> is_prefix a c = true.
Proof.
  rewrite !is_prefix_spec. intros (s & ->) (s' & ->). exists (s ++ s'). rewrite app_assoc; reflexivity.
Qed.

Lemma prefix_false_or_true p q : is_prefix p q = false \/ is_prefix p q = true.
Proof. destruct (is_prefix p q); auto. Qed.

Theorem versioned_safe_bzr o ign t vs q0 q :
  wf_node t = true -> parent_closed vs ->
  versioned vs q0 = true -> is_prefix q q0 = true ->
  kind_at q (clean Bzr o ign t vs) = kind_at q t.
Proof.
  intros Hw Hpc Hv Hq. apply untouched_unless_below_deletable. intros p Hin.
  destruct (prefix_false_or_true p q) as [|Hp]; [assumption|exfalso].
  apply deletables_extras in Hin as (He & _). apply extras_sound in He as (Hne & Hu & _); [|assumption].
  assert (is_prefix p q0 = true) as Hp0 by (eapply is_prefix_trans; eassumption).
  apply is_prefix_spec in Hp0 as (s & ->).
  rewrite (Hpc p s Hv Hne) in Hu. discriminate.
Qed.

Theorem versioned_safe_git o ign t vs q0 q :
  wf_node t = true ->
  versioned vs q0 = true -> lookup q0 t <> None -> is_prefix q q0 = true ->
  kind_at q (clean Git o ign t vs) = kind_at q t.
Proof.
  intros Hw Hv Hex Hq. apply untouched_unless_below_deletable. intros p Hin.
  destruct (prefix_false_or_true p q) as [|Hp]; [assumption|exfalso].
  apply deletables_extras in Hin as (He & _).
  apply git_extras_sound in He as (Hne & Hu & (n & Hl & Hd) & _); [|assumption].
  assert (is_prefix p q0 = true) as Hp0 by (eapply is_prefix_trans; eassumption).
  apply is_prefix_spec in Hp0 as (s & ->).
  destruct s as [|c s]; [rewrite app_nil_r in Hv; congruence|].
  apply Hex. eapply lookup_below_nondir; eauto. discriminate.
Qed.

(* ---- inside the tree ------------------------------------------------ *)

(* every path handed to unlink/rmtree is a non-root entry of the tree, reached through
   real directories only ([lookup] does not traverse symlinks) *)
Theorem inside_tree fl o ign t vs p :
  wf_node t = true -> In p (deletables fl o ign t vs) ->
  p <> [] /\ exists n, lookup p t = Some n.
Proof.
  intros Hw Hin. apply only_requested in Hin; tauto.
Qed.

Lemma lookup_prefix_dir a : forall b t n,
  lookup (a ++ b) t = Some n -> b <> [] -> exists cs, lookup a t = Some (Dir cs).
Proof.
  intros b t n H Hb. rewrite lookup_app in H. destruct (lookup a t) as [m|]; [|discriminate].
  destruct b as [|c b]; [congruence|]. destruct m as [| |cs]; try discriminate. eauto.
Qed.

(* ---- dry run / declined prompt -------------------------------------- *)

Theorem dry_run_noop fl o ign t vs : o_dry o = true -> clean fl o ign t vs = t.
Proof.
  intros H. unfold clean. destruct (deletables fl o ign t vs); [reflexivity|].
  rewrite H. destruct (o_confirm o) as [[|]|]; reflexivity.
Qed.

Theorem declined_noop fl o ign t vs : o_confirm o = Some false -> clean fl o ign t vs = t.
Proof.
  intros H. unfold clean. destruct (deletables fl o ign t vs); [reflexivity|]. rewrite H. reflexivity.
Qed.

(* ---- nested control directories ------------------------------------- *)

Lemma strict_prefix_split p p' :
  is_prefix p p' = true -> p <> p' -> exists b, p' = p ++ b /\ b <> [].
Proof.
  intros H Hne. apply is_prefix_spec in H as (b & ->). exists b. split; [reflexivity|].
  intros ->. rewrite app_nil_r in Hne. congruence.
Qed.

Lemma contains_control_kids cs c ch :
  In (c, ch) cs -> contains_control ch = true -> contains_control (Dir cs) = true.
Proof.
  intros Hin Hc. cbn [contains_control]. apply orb_true_iff. right.
  induction cs as [|[c' ch'] r IH]; [destruct Hin|].
  destruct Hin as [E|Hin]; [injection E as -> ->; rewrite Hc; reflexivity|].
  rewrite (IH Hin). apply orb_true_r.
Qed.

(* a branch root anywhere at or below a node makes [contains_control] true *)
Lemma contains_control_lookup s : forall n cs,
  lookup s n = Some (Dir cs) -> has_control cs = true -> contains_control n = true.
Proof.
  induction s as [|c s IH]; intros n cs Hl Hc.
  - simpl in Hl. injection Hl as ->. cbn [contains_control]. rewrite Hc. reflexivity.
  - cbn [lookup] in Hl. destruct n as [| |cs0]; try discriminate.
    destruct (find_child c cs0) as [ch|] eqn:F; [|discriminate].
    eapply contains_control_kids; [apply find_child_In; exact F|]. eapply IH; eassumption.
Qed.

Lemma contains_control_is_dir n : contains_control n = true -> exists cs, n = Dir cs.
Proof. destruct n; try discriminate. eauto. Qed.

(* a deletable never is an ancestor-or-self of a branch root (07ac4fc) *)
Lemma deletable_not_above_branch fl o ign t vs p s cs :
  In p (deletables fl o ign t vs) ->
  lookup (p ++ s) t = Some (Dir cs) -> has_control cs = true -> False.
Proof.
  intros Hin Hl Hc. apply deletables_extras in Hin as (_ & _ & Hk).
  rewrite lookup_app in Hl. destruct (lookup p t) as [n|] eqn:E; [|discriminate].
  pose proof (contains_control_lookup s n cs Hl Hc) as Hcc.
  destruct (contains_control_is_dir n Hcc) as (cs0 & ->).
  unfold keep_nested in Hk. rewrite E, Hcc in Hk. discriminate.
Qed.

(* an unversioned item that holds a branch root ANYWHERE at or below it is kept with all it contains *)
Theorem nested_tree_kept fl o ign t vs p s cs q :
  wf_node t = true ->
  In p (extras fl t vs) -> lookup (p ++ s) t = Some (Dir cs) -> has_control cs = true ->
  is_prefix p q = true ->
  kind_at q (clean fl o ign t vs) = kind_at q t.
Proof.
  intros Hw Hp Hl Hc Hq. apply untouched_unless_below_deletable. intros p' Hin.
  destruct (prefix_false_or_true p' q) as [|Hp']; [assumption|exfalso].
  destruct (path_eq_dec p p') as [<-|Hne].
  { eapply deletable_not_above_branch; eassumption. }
  apply deletables_extras in Hin as (He' & _ & _).
  destruct fl.
  - pose proof (bzr_extras_sound t vs p Hw Hp) as (Hpn & Hpu & _ & _ & Hpp).
    pose proof (bzr_extras_sound t vs p' Hw He') as (Hpn' & Hpu' & _ & _ & Hpp').
    destruct (prefix_comparable p p' q Hq Hp') as [H|H].
    + destruct (strict_prefix_split p p' H Hne) as (b & -> & Hb).
      rewrite (versioned_dir_versioned _ _ (Hpp' p b eq_refl Hpn Hb)) in Hpu. discriminate.
    + destruct (strict_prefix_split p' p H (not_eq_sym Hne)) as (b & -> & Hb).
      rewrite (versioned_dir_versioned _ _ (Hpp p' b eq_refl Hpn' Hb)) in Hpu'. discriminate.
  - apply git_extras_sound in Hp as (_ & _ & (n & Hl' & Hd) & _); [|assumption].
    rewrite lookup_app, Hl' in Hl.
    pose proof (contains_control_lookup s n cs Hl Hc) as Hcc.
    destruct (contains_control_is_dir n Hcc) as (cs0 & ->). discriminate.
Qed.

(* the control directory of every branch in the tree (its own, nested at any depth, of any registered
   format) survives with everything it holds: 07ac4fc + edd5827 + b06b6de *)
Theorem control_dirs_safe fl o ign t vs a cs c q :
  lookup a t = Some (Dir cs) -> has_control cs = true ->
  is_control_name c = true -> is_prefix (a ++ [c]) q = true ->
  kind_at q (clean fl o ign t vs) = kind_at q t.
Proof.
  intros Hl Hc Hn Hq. apply untouched_unless_below_deletable. intros p Hin.
  destruct (prefix_false_or_true p q) as [|Hp]; [assumption|exfalso].
  destruct (prefix_comparable p (a ++ [c]) q Hp Hq) as [H|H].
  - apply is_prefix_spec in H as (b & E).
    destruct (nonempty_app_cases b) as [->|(b' & x & ->)].
    + rewrite app_nil_r in E. subst p.
      rewrite (control_names_never_deletable _ _ _ _ _ _ c Hin) in Hn; [discriminate|].
      apply in_or_app; right; left; reflexivity.
    + rewrite app_assoc in E. apply app_inj_tail in E as [-> _].
      eapply deletable_not_above_branch; eassumption.
  - apply is_prefix_spec in H as (b & ->).
    rewrite (control_names_never_deletable _ _ _ _ _ _ c Hin) in Hn; [discriminate|].
    apply in_or_app; left. apply in_or_app; right; left; reflexivity.
Qed.

(* git trees: nothing at or below a directory that holds a ".git" entry is deleted *)
Theorem git_nested_git_safe o ign t vs a cs q :
  wf_node t = true -> a <> [] ->
  lookup a t = Some (Dir cs) -> has_name n_git cs = true ->
  is_prefix a q = true ->
  kind_at q (clean Git o ign t vs) = kind_at q t.
Proof.
  intros Hw Ha Hl Hg Hq. apply untouched_unless_below_deletable. intros p Hin.
  destruct (prefix_false_or_true p q) as [|Hp]; [assumption|exfalso].
  apply deletables_extras in Hin as (He & _).
  apply git_extras_sound in He as (Hne & _ & (n & Hln & Hd) & Hpre); [|assumption].
  destruct (path_eq_dec a p) as [<-|Hap].
  { rewrite Hl in Hln. injection Hln as <-. discriminate. }
  destruct (prefix_comparable a p q Hq Hp) as [H|H].
  - destruct (strict_prefix_split a p H Hap) as (b & -> & Hb).
    destruct (Hpre a b eq_refl Ha Hb) as (cs' & Hl' & Hg').
    rewrite Hl in Hl'. injection Hl' as <-. congruence.
  - destruct (strict_prefix_split p a H (not_eq_sym Hap)) as (b & -> & Hb).
    rewrite (lookup_below_nondir p b t n Hln Hd Hb) in Hl. discriminate.
Qed.

(* ---- the refutations (witnesses are replayed on the real code by the harness corpus) ---- *)

Definition nm (l : list N) : name := l.
Definition only_unknown : opts := Build_opts true false false false None.

(* bzr tree: u/n/.bzr/branch-format + u/n/work, nothing versioned: the former witness of
   C46-deep-nested-branch (fixed by 07ac4fc) is now left as it is *)
Definition deep_tree : node :=
  Dir [(n_bzr, Dir []);
       (nm [117], Dir [(nm [110], Dir [(n_bzr, Dir [(n_branch_format, File)]); (nm [119], File)])])]%N.

Lemma deep_now_safe :
  wf_node deep_tree = true /\
  (exists cs, lookup [nm [117]; nm [110]]%N deep_tree = Some (Dir cs) /\ has_control cs = true) /\
  In [nm [117]]%N (extras Bzr deep_tree []) /\
  clean Bzr only_unknown [] deep_tree [] = deep_tree.
Proof.
  split; [reflexivity|]. split; [eexists; split; reflexivity|]. split; [left; reflexivity|reflexivity].
Qed.

(* ---- foreign control directories (fixed by b06b6de) ----------------- *)

Lemma last_name_snoc d c : last_name (d ++ [c]) = c.
Proof. unfold last_name. apply last_last. Qed.

(* bzr tree: an unversioned entry named .bzr/.git directly inside the root or a versioned
   directory survives with everything below it *)
Theorem foreign_control_safe_bzr o ign t vs d c q :
  wf_node t = true -> parent_closed vs ->
  (d = [] \/ versioned vs d = true) ->
  is_control_name c = true -> versioned vs (d ++ [c]) = false ->
  is_prefix (d ++ [c]) q = true ->
  kind_at q (clean Bzr o ign t vs) = kind_at q t.
Proof.
  intros Hw Hpc Hd Hc Hu Hq. apply untouched_unless_below_deletable. intros p Hin.
  destruct (prefix_false_or_true p q) as [|Hp]; [assumption|exfalso].
  pose proof (control_names_never_deletable _ _ _ _ _ _ c Hin) as Hn.
  apply deletables_extras in Hin as (He & _).
  apply bzr_extras_sound in He as (Hpn & Hpu & _ & _ & Hpp); [|assumption].
  destruct (path_eq_dec p (d ++ [c])) as [->|Hne].
  { rewrite Hn in Hc; [discriminate|]. apply in_or_app; right; left; reflexivity. }
  destruct (prefix_comparable p (d ++ [c]) q Hp Hq) as [H|H].
  - destruct (strict_prefix_split p (d ++ [c]) H Hne) as (b & E & Hb).
    (* p is a prefix of d *)
    assert (exists b', d = p ++ b') as (b' & ->).
    { destruct (nonempty_app_cases b) as [->|(b' & x & ->)]; [congruence|].
      rewrite app_assoc in E. apply app_inj_tail in E as [E _]. eauto. }
    destruct Hd as [Hd|Hd].
    + destruct p; [congruence|discriminate].
    + rewrite (Hpc p b' Hd Hpn) in Hpu. discriminate.
  - destruct (strict_prefix_split (d ++ [c]) p H (not_eq_sym Hne)) as (b & -> & Hb).
    assert (d ++ [c] <> []) as Hne' by (destruct d; discriminate).
    rewrite (versioned_dir_versioned _ _ (Hpp (d ++ [c]) b eq_refl Hne' Hb)) in Hu. discriminate.
Qed.

(* the former witness of C46-foreign-control-dir: .git/HEAD next to .bzr, f versioned *)
Definition coloc_tree : node :=
  Dir [(n_bzr, Dir []); (n_git, Dir [(nm [72;69;65;68], File)]); (nm [102], File)]%N.
Definition coloc_vs : list (path * bool) := [([nm [102]], false)]%N.

Lemma coloc_parent_closed : parent_closed coloc_vs.
Proof.
  intros a b H Ha. unfold versioned in H. apply mem_path_In in H. simpl in H.
  destruct H as [H|[]]. destruct a as [|x a]; [congruence|].
  destruct a; [|destruct a; discriminate]. simpl in H. injection H as <- <-. reflexivity.
Qed.

Lemma coloc_now_safe :
  wf_node coloc_tree = true /\
  clean Bzr only_unknown [] coloc_tree coloc_vs = coloc_tree /\
  In [n_git] (extras Bzr coloc_tree coloc_vs).
Proof. repeat split. left; reflexivity. Qed.

(* git tree with a nested bzr branch n/.bzr/branch-format + n/w: the former witness of
   C46-git-tree-nested-bzr (fixed by edd5827): the control file stays, but the working file n/w of the
   nested branch is still deleted as an unknown file of the outer tree *)
Definition gitbzr_tree : node :=
  Dir [(n_git, Dir []); (nm [110], Dir [(n_bzr, Dir [(n_branch_format, File)]); (nm [119], File)])]%N.

Lemma git_nested_bzr_now :
  wf_node gitbzr_tree = true /\
  (exists cs, lookup [nm [110]]%N gitbzr_tree = Some (Dir cs) /\ has_control cs = true) /\
  kind_at [nm [110]; n_bzr; n_branch_format]%N (clean Git only_unknown [] gitbzr_tree []) = Some KFile /\
  kind_at [nm [110]; nm [119]]%N (clean Git only_unknown [] gitbzr_tree []) = None.
Proof.
  split; [reflexivity|]. split; [eexists; split; reflexivity|]. split; reflexivity.
Qed.

(* bzr tree: v versioned, v/.git/HEAD (v is the root of a git repository), v/k unversioned *)
Definition bzrgit_tree : node :=
  Dir [(n_bzr, Dir []); (nm [118], Dir [(n_git, Dir [(nm [72;69;65;68], File)]); (nm [107], File)])]%N.
Definition bzrgit_vs : list (path * bool) := [([nm [118]], true)]%N.

Lemma bzr_versioned_git_root_now :
  wf_node bzrgit_tree = true /\
  (exists cs, lookup [nm [118]]%N bzrgit_tree = Some (Dir cs) /\ has_control cs = true) /\
  kind_at [nm [118]; n_git]%N (clean Bzr only_unknown [] bzrgit_tree bzrgit_vs) = Some KDir /\
  kind_at [nm [118]; nm [107]]%N (clean Bzr only_unknown [] bzrgit_tree bzrgit_vs) = None.
Proof.
  split; [reflexivity|]. split; [eexists; split; reflexivity|]. split; reflexivity.
Qed.
