(* Theory/CmdLine.v -- proofs about Model/CmdLine.v (C50).

   Part A  a structurally recursive specification of the splitter ([feed],
           [scan], [scan_all]): the pushed-back character is handed to the
           exit state at once, the token pieces are kept joined.
   Part B  refinement: the fuel/pushback model equals the specification on
           every input (so it never runs out of fuel).
   Part C  round trip  split (join SP (map quote args)) = args.
   Part D  no invention (output is a subsequence of the input).
   Part E  no loss (ordinary characters all survive; quote-free input is split
           at whitespace only). *)
From Coq Require Import NArith List Bool Arith Lia.
From BV Require Import Lib.Bytes Model.CmdLine.
Import ListNotations.
Open Scope N_scope.

Arguments is_ws : simpl never.
Arguments allowed : simpl never.

(* ------------------------------------------------------------------ *)
(* Part A: specification                                               *)
(* ------------------------------------------------------------------ *)

(* the joined view of context.token / context.quoted:
   a_tok = "".join(token), a_ne = len(token) > 0, a_q = quoted *)
Record acc := Acc { a_tok : str; a_ne : bool; a_q : bool }.
Definition acc0 : acc := Acc [] false false.
Definition app_a (p : str) (a : acc) : acc := Acc (a_tok a ++ p) true (a_q a).
Definition setq (a : acc) : acc := Acc (a_tok a) (a_ne a) true.

Fixpoint feed (sq : bool) (st : state) (c : N) (a : acc) : option state * acc :=
  match st with
  | WS =>
      if is_ws c then (if a_ne a then (None, a) else (Some WS, a))
      else if allowed sq c then (Some (Quotes c WS), setq a)
      else if c =? BS then (Some (Backslash 1 WS), a)
      else (Some Word, app_a [c] a)
  | Quotes q exit =>
      if c =? BS then (Some (Backslash 1 st), a)
      else if c =? q then (Some exit, app_a [] a)
      else (Some st, app_a [c] a)
  | Backslash n exit =>
      if c =? BS then (Some (Backslash (S n) exit), a)
      else if allowed sq c then
        if Nat.odd n then (Some exit, app_a [c] (app_a (repeat BS (Nat.div2 n)) a))
        else feed sq exit c (app_a (repeat BS (Nat.div2 n)) a)
      else feed sq exit c (if (0 <? n)%nat then app_a (repeat BS n) a else a)
  | Word =>
      if is_ws c then (None, a)
      else if allowed sq c then (Some (Quotes c Word), a)
      else if c =? BS then (Some (Backslash 1 Word), a)
      else (Some Word, app_a [c] a)
  end.

Definition fin (ost : option state) (a : acc) : acc :=
  match ost with
  | Some (Backslash n _) => if (0 <? n)%nat then app_a (repeat BS n) a else a
  | _ => a
  end.

Definition emit (a : acc) : option (bool * str) :=
  if negb (a_q a) && is_nil (a_tok a) then None else Some (a_q a, a_tok a).

(* one token: final state (None = token ended at a separator), accumulator, rest *)
Fixpoint scan (sq : bool) (st : state) (a : acc) (s : str) : option state * acc * str :=
  match s with
  | [] => (Some st, a, [])
  | c :: s' =>
      match feed sq st c a with
      | (None, a') => (None, a', s')
      | (Some st', a') => scan sq st' a' s'
      end
  end.

(* all tokens, one pass *)
Fixpoint scan_all (sq : bool) (st : state) (a : acc) (s : str) : list (bool * str) :=
  match s with
  | [] => match emit (fin (Some st) a) with None => [] | Some t => [t] end
  | c :: s' =>
      match feed sq st c a with
      | (None, a') =>
          match emit a' with None => [] | Some t => t :: scan_all sq WS acc0 s' end
      | (Some st', a') => scan_all sq st' a' s'
      end
  end.

Lemma scan_all_cons sq st a c s' :
  scan_all sq st a (c :: s') =
  match feed sq st c a with
  | (None, a') => match emit a' with None => [] | Some t => t :: scan_all sq WS acc0 s' end
  | (Some st', a') => scan_all sq st' a' s'
  end.
Proof. reflexivity. Qed.

(* reachable states *)
Definition nobs (st : state) : bool :=
  match st with Backslash _ _ => false | _ => true end.
Definition isbase (st : state) : bool :=
  match st with WS | Word => true | _ => false end.
Fixpoint wf (sq : bool) (st : state) : bool :=
  match st with
  | WS | Word => true
  | Quotes q e => allowed sq q && isbase e
  | Backslash _ e => nobs e && wf sq e
  end.

Lemma isbase_nobs e : isbase e = true -> nobs e = true.
Proof. destruct e; simpl; congruence. Qed.
Lemma isbase_wf sq e : isbase e = true -> wf sq e = true.
Proof. destruct e; simpl; congruence. Qed.

Lemma feed_wf sq st : forall c a st' a',
  wf sq st = true -> feed sq st c a = (Some st', a') -> wf sq st' = true.
Proof.
  induction st as [| |q e IH|n e IH]; intros c a st' a' Hwf H; cbn [feed] in H.
  - destruct (is_ws c); [destruct (a_ne a); inversion H; reflexivity|].
    destruct (allowed sq c) eqn:Ha; [inversion H; subst; cbn; rewrite Ha; reflexivity|].
    destruct (c =? BS); inversion H; reflexivity.
  - destruct (is_ws c); [discriminate|].
    destruct (allowed sq c) eqn:Ha; [inversion H; subst; cbn; rewrite Ha; reflexivity|].
    destruct (c =? BS); inversion H; reflexivity.
  - cbn [wf] in Hwf. apply andb_prop in Hwf as [Hq Hb].
    destruct (c =? BS).
    { inversion H; subst. cbn. rewrite Hq, Hb. reflexivity. }
    destruct (c =? q); inversion H; subst.
    + apply isbase_wf; assumption.
    + cbn. rewrite Hq, Hb. reflexivity.
  - cbn [wf] in Hwf. apply andb_prop in Hwf as [Hn Hw].
    destruct (c =? BS).
    { inversion H; subst. cbn. rewrite Hn, Hw. reflexivity. }
    destruct (allowed sq c).
    + destruct (Nat.odd n); [inversion H; subst; assumption|].
      eapply IH; eassumption.
    + eapply IH; eassumption.
Qed.

(* ------------------------------------------------------------------ *)
(* Part B: the fuel/pushback model refines to the specification        *)
(* ------------------------------------------------------------------ *)

Definition A (tk : list str) (qd : bool) : acc := Acc (concat tk) (negb (is_nil tk)) qd.

Lemma A_app tk qd p : A (tk ++ [p]) qd = app_a p (A tk qd).
Proof.
  unfold A, app_a; cbn. rewrite concat_app. cbn. rewrite app_nil_r.
  destruct tk; reflexivity.
Qed.

Lemma ltb_len_nil {X} (tk : list X) : (0 <? length tk)%nat = negb (is_nil tk).
Proof. destruct tk; reflexivity. Qed.

Ltac proc_left :=
  split; [reflexivity|]; left; split; [reflexivity|];
  cbn; rewrite ?A_app; reflexivity.

Lemma process_feed sq st c tk qd s ost k' :
  wf sq st = true ->
  process sq st c (Ctx tk qd [] s) = (ost, k') ->
  iter k' = s /\
  ((pushback_buffer k' = [] /\ feed sq st c (A tk qd) = (ost, A (token k') (quoted k')))
   \/ (exists n e, st = Backslash n e /\ pushback_buffer k' = [c] /\ ost = Some e /\
         feed sq st c (A tk qd) = feed sq e c (A (token k') (quoted k')))).
Proof.
  intros Hwf H. destruct st as [| |q e|n e]; cbn [process feed] in *.
  - destruct (is_ws c).
    { cbn [token] in H. rewrite ltb_len_nil in H. cbn [A a_ne].
      destruct (negb (is_nil tk)); inversion H; subst; proc_left. }
    destruct (allowed sq c); [inversion H; subst; proc_left|].
    destruct (c =? BS); inversion H; subst; proc_left.
  - destruct (is_ws c); [inversion H; subst; proc_left|].
    destruct (allowed sq c); [inversion H; subst; proc_left|].
    destruct (c =? BS); inversion H; subst; proc_left.
  - destruct (c =? BS); [inversion H; subst; proc_left|].
    destruct (c =? q); inversion H; subst; proc_left.
  - destruct (c =? BS); [inversion H; subst; proc_left|].
    destruct (allowed sq c).
    + destruct (Nat.odd n); inversion H; subst.
      * proc_left.
      * split; [reflexivity|]. right. exists n, e. repeat split.
        cbn. rewrite ?A_app. reflexivity.
    + inversion H; subst. split; [destruct (0 <? n)%nat; reflexivity|].
      right. exists n, e.
      destruct (0 <? n)%nat; repeat split; cbn; rewrite ?A_app; reflexivity.
Qed.

Lemma loop_refine sq : forall s fuel st tk qd,
  wf sq st = true -> (2 * length s + 1 <= fuel)%nat ->
  exists ost tk' qd' r,
    loop sq fuel st (Ctx tk qd [] s) = Some (ost, Ctx tk' qd' [] r) /\
    scan sq st (A tk qd) s = (ost, A tk' qd', r).
Proof.
  induction s as [|c s IH]; intros fuel st tk qd Hwf Hf.
  - destruct fuel as [|f]; [cbn in Hf; lia|].
    exists (Some st), tk, qd, []. split; reflexivity.
  - destruct fuel as [|[|f]]; [cbn in Hf; lia | cbn in Hf; lia |].
    assert (Hf' : (2 * length s + 1 <= f)%nat) by (cbn [length] in Hf; lia).
    cbn [loop seq_next pushback_buffer iter token quoted].
    destruct (process sq st c (Ctx tk qd [] s)) as [ost k2] eqn:Hp.
    destruct (process_feed _ _ _ _ _ _ _ _ Hwf Hp)
      as [Hit [[Hb Hfeed]|(n & e & Hst & Hb & Host & Hfeed)]].
    + destruct k2 as [tk2 qd2 b2 r2]; cbn in Hit, Hb, Hfeed; subst b2 r2.
      cbn [scan]. rewrite Hfeed.
      destruct ost as [st'|].
      * apply (IH (S f) st' tk2 qd2); [eapply feed_wf; eassumption | lia].
      * exists None, tk2, qd2, s. split; reflexivity.
    + destruct k2 as [tk2 qd2 b2 r2]; cbn in Hit, Hb, Hfeed; subst b2 r2 st ost.
      cbn [wf] in Hwf. apply andb_prop in Hwf as [Hn Hwe].
      cbn [loop seq_next pushback_buffer iter token quoted].
      destruct (process sq e c (Ctx tk2 qd2 [] s)) as [ost3 k3] eqn:Hp3.
      destruct (process_feed _ _ _ _ _ _ _ _ Hwe Hp3)
        as [Hit3 [[Hb3 Hfeed3]|(n3 & e3 & Hst3 & _)]];
        [|subst e; discriminate].
      destruct k3 as [tk3 qd3 b3 r3]; cbn in Hit3, Hb3, Hfeed3; subst b3 r3.
      cbn [scan]. rewrite Hfeed, Hfeed3.
      destruct ost3 as [st'|].
      * apply (IH f st' tk3 qd3); [eapply feed_wf; eassumption | lia].
      * exists None, tk3, qd3, s. split; reflexivity.
Qed.

Lemma scan_rest sq : forall s st a ost a' r,
  scan sq st a s = (ost, a', r) ->
  match ost with None => (length r < length s)%nat | Some _ => r = [] end.
Proof.
  induction s as [|c s IH]; intros st a ost a' r H; cbn [scan] in H.
  - inversion H; reflexivity.
  - destruct (feed sq st c a) as [[st'|] a1].
    + apply IH in H. destruct ost; cbn [length]; [assumption|lia].
    + inversion H; subst. cbn [length]. lia.
Qed.

Lemma scan_all_scan sq : forall s st a,
  scan_all sq st a s =
  let '(ost, a', r) := scan sq st a s in
  match emit (fin ost a') with None => [] | Some t => t :: scan_all sq WS acc0 r end.
Proof.
  induction s as [|c s IH]; intros st a; cbn [scan scan_all].
  - destruct (emit (fin (Some st) a)); reflexivity.
  - destruct (feed sq st c a) as [[st'|] a1]; [apply IH|reflexivity].
Qed.

Lemma fin_A ost k :
  A (token (finish ost k)) (quoted (finish ost k)) = fin ost (A (token k) (quoted k)).
Proof.
  destruct ost as [[| |q e|n e]|]; cbn [finish fin]; try reflexivity.
  destruct (0 <? n)%nat; [|reflexivity]. cbn. rewrite A_app. reflexivity.
Qed.

Lemma finish_shape ost t q r :
  exists t2 q2, finish ost (Ctx t q [] r) = Ctx t2 q2 [] r.
Proof.
  destruct ost as [[| |q' e|n e]|]; cbn [finish]; try (eexists; eexists; reflexivity).
  destruct (0 <? n)%nat; eexists; eexists; reflexivity.
Qed.

Lemma get_token_refine sq s tk qd :
  exists tk2 r ost a',
    scan sq WS acc0 s = (ost, a', r) /\
    get_token sq (Ctx tk qd [] s) =
    Some ((a_q (fin ost a'),
           match emit (fin ost a') with None => None | Some t => Some (snd t) end),
          Ctx tk2 (a_q (fin ost a')) [] r).
Proof.
  unfold get_token. cbn [pushback_buffer iter].
  destruct (loop_refine sq s (fuel_of (Ctx [] false [] s)) WS [] false eq_refl)
    as (ost & tk' & qd' & r & Hl & Hs).
  { unfold fuel_of. cbn [iter pushback_buffer length]. lia. }
  rewrite Hl. change (A [] false) with acc0 in Hs.
  pose proof (fin_A ost (Ctx tk' qd' [] r)) as HA. cbn [token quoted] in HA.
  destruct (finish_shape ost tk' qd' r) as (t2 & q2 & Hk).
  rewrite Hk in *. cbn [token quoted] in *.
  exists t2, r, ost, (A tk' qd').
  split; [exact Hs|].
  rewrite <- HA. unfold emit, A. cbn [a_q a_tok].
  destruct (negb q2 && is_nil (concat t2)); reflexivity.
Qed.

Lemma tokens_refine sq : forall n s fuel tk qd,
  (length s <= n)%nat -> (length s < fuel)%nat ->
  tokens sq fuel (Ctx tk qd [] s) = Some (scan_all sq WS acc0 s).
Proof.
  induction n as [|n IH]; intros s fuel tk qd Hn Hf;
    (destruct fuel as [|fuel]; [lia|]); cbn [tokens];
    destruct (get_token_refine sq s tk qd) as (tk2 & r & ost & a' & Hs & Hg);
    rewrite Hg; rewrite scan_all_scan, Hs;
    destruct (emit (fin ost a')) as [[q t]|] eqn:He; try reflexivity; cbn [snd].
  - destruct s; [|cbn in Hn; lia]. cbn in Hs. inversion Hs; subst. discriminate.
  - pose proof (scan_rest _ _ _ _ _ _ _ Hs) as Hr.
    assert (Hr' : (length r <= n)%nat /\ (length r < fuel)%nat).
    { destruct ost.
      - subst r. destruct s; [cbn in Hs; inversion Hs; subst; discriminate|].
        cbn [length] in *. lia.
      - lia. }
    assert (Hq : a_q (fin ost a') = q).
    { unfold emit in He. destruct (negb (a_q (fin ost a')) && is_nil (a_tok (fin ost a')));
        inversion He; reflexivity. }
    rewrite (IH r fuel tk2 _ (proj1 Hr') (proj2 Hr')). rewrite Hq. reflexivity.
Qed.

Theorem splitter_spec sq s : splitter sq s = Some (scan_all sq WS acc0 s).
Proof. unfold splitter. apply (tokens_refine sq (length s)); lia. Qed.

Theorem split_spec sq s : split sq s = Some (map snd (scan_all sq WS acc0 s)).
Proof. unfold split. rewrite splitter_spec. reflexivity. Qed.

(* ------------------------------------------------------------------ *)
(* Part C: round trip                                                  *)
(* ------------------------------------------------------------------ *)

Lemma repeat_snoc {X} (x : X) n : repeat x (S n) = repeat x n ++ [x].
Proof. induction n as [|n IH]; [reflexivity|]. cbn [repeat app] in *. rewrite <- IH. reflexivity. Qed.

Lemma repeat_shift {X} (x : X) n l : repeat x n ++ x :: l = repeat x (S n) ++ l.
Proof. rewrite repeat_snoc, <- app_assoc. reflexivity. Qed.

Lemma odd_double n : Nat.odd (2 * n) = false.
Proof. rewrite Nat.odd_mul. reflexivity. Qed.
Lemma odd_double1 n : Nat.odd (2 * n + 1) = true.
Proof. rewrite Nat.add_comm, Nat.odd_add_mul_2. reflexivity. Qed.
Lemma div2_double1 n : Nat.div2 (2 * n + 1) = n.
Proof. rewrite Nat.add_1_r. apply Nat.div2_succ_double. Qed.

Lemma allowed_DQ sq : allowed sq DQ = true.
Proof. destruct sq; reflexivity. Qed.

Definition Qs : state := Quotes DQ WS.
Definition enter (m : nat) : state :=
  match m with O => Qs | S _ => Backslash m Qs end.

Lemma scan_all_bs_run sq : forall m n e a rest,
  scan_all sq (Backslash n e) a (repeat BS m ++ rest) =
  scan_all sq (Backslash (n + m) e) a rest.
Proof.
  induction m as [|m IH]; intros n e a rest.
  - rewrite Nat.add_0_r. reflexivity.
  - cbn [repeat app]. rewrite scan_all_cons. cbn [feed].
    change (BS =? BS) with true. cbv iota. rewrite IH. f_equal. f_equal. lia.
Qed.

Lemma scan_all_enter sq m a rest :
  scan_all sq Qs a (repeat BS m ++ rest) = scan_all sq (enter m) a rest.
Proof.
  destruct m as [|m]; [reflexivity|].
  cbn [repeat app]. rewrite scan_all_cons. unfold Qs at 1. cbn [feed].
  change (BS =? BS) with true. cbv iota. apply (scan_all_bs_run sq m 1).
Qed.

(* the character after a run of m backslashes inside double quotes *)
Lemma feed_enter_plain sq m c a :
  (c =? BS) = false -> allowed sq c = false ->
  feed sq (enter m) c a = (Some Qs, Acc (a_tok a ++ repeat BS m ++ [c]) true (a_q a)).
Proof.
  intros Hb Ha.
  assert (Hd : (c =? DQ) = false).
  { destruct (c =? DQ) eqn:E; [|reflexivity]. apply N.eqb_eq in E. subst c.
    rewrite allowed_DQ in Ha. discriminate. }
  destruct m as [|m]; cbn [enter]; unfold Qs; cbn [feed].
  - rewrite Hb, Hd. reflexivity.
  - rewrite Hb, Ha, Hd. change (0 <? S m)%nat with true. cbv iota.
    unfold app_a. cbn [a_tok a_q]. rewrite <- app_assoc. reflexivity.
Qed.

Lemma feed_enter_DQ_even sq n a :
  feed sq (enter (2 * n)) DQ a = (Some WS, Acc (a_tok a ++ repeat BS n) true (a_q a)).
Proof.
  destruct n as [|n].
  - reflexivity.
  - replace (2 * S n)%nat with (S (2 * n + 1)) by lia. cbn [enter feed].
    replace (S (2 * n + 1)) with (2 * S n)%nat by lia.
    change (DQ =? BS) with false. cbv iota. rewrite allowed_DQ, odd_double, Nat.div2_double.
    unfold Qs. cbn [feed]. change (DQ =? BS) with false. change (DQ =? DQ) with true. cbv iota.
    unfold app_a. cbn [a_tok a_q]. rewrite app_nil_r. reflexivity.
Qed.

Lemma feed_enter_allowed_odd sq n c a :
  (c =? BS) = false -> allowed sq c = true ->
  feed sq (enter (2 * n + 1)) c a =
  (Some Qs, Acc (a_tok a ++ repeat BS n ++ [c]) true (a_q a)).
Proof.
  intros Hb Ha. replace (2 * n + 1)%nat with (S (2 * n)) by lia. cbn [enter feed].
  replace (S (2 * n)) with (2 * n + 1)%nat by lia.
  rewrite Hb, Ha, odd_double1, div2_double1.
  unfold app_a. cbn [a_tok a_q]. rewrite <- app_assoc. reflexivity.
Qed.

Lemma feed_enter_SQ_even n a :
  feed true (enter (2 * n)) SQ a =
  (Some Qs, Acc (a_tok a ++ repeat BS n ++ [SQ]) true (a_q a)).
Proof.
  destruct n as [|n].
  - reflexivity.
  - replace (2 * S n)%nat with (S (2 * n + 1)) by lia. cbn [enter feed].
    replace (S (2 * n + 1)) with (2 * S n)%nat by lia.
    change (SQ =? BS) with false. cbv iota.
    change (allowed true SQ) with true. cbv iota. rewrite odd_double, Nat.div2_double.
    unfold Qs. cbn [feed]. change (SQ =? BS) with false. change (SQ =? DQ) with false. cbv iota.
    unfold app_a. cbn [a_tok a_q]. rewrite <- app_assoc. reflexivity.
Qed.

Lemma scan_all_qbody sq : forall s n a tail,
  a_q a = true ->
  scan_all sq Qs a (qbody sq n s ++ DQ :: tail) =
  scan_all sq WS (Acc (a_tok a ++ repeat BS n ++ s) true true) tail.
Proof.
  induction s as [|c s IH]; intros n a tail Hq; cbn [qbody].
  - rewrite scan_all_enter, scan_all_cons, feed_enter_DQ_even, Hq, app_nil_r. reflexivity.
  - destruct (c =? BS) eqn:Hb.
    { apply N.eqb_eq in Hb. subst c. rewrite IH by assumption. rewrite repeat_shift. reflexivity. }
    destruct (c =? DQ) eqn:Hd.
    { apply N.eqb_eq in Hd. subst c.
      rewrite <- app_assoc. cbn [app]. rewrite scan_all_enter, scan_all_cons.
      rewrite feed_enter_allowed_odd by (reflexivity || apply allowed_DQ).
      rewrite IH by (cbn [a_q]; exact Hq). cbn [a_tok repeat app]. rewrite <- !app_assoc. reflexivity. }
    destruct (sq && (c =? SQ)) eqn:Hs.
    { apply andb_prop in Hs as [-> Hs]. apply N.eqb_eq in Hs. subst c.
      rewrite <- app_assoc. cbn [app]. rewrite scan_all_enter, scan_all_cons.
      rewrite feed_enter_SQ_even.
      rewrite IH by (cbn [a_q]; exact Hq). cbn [a_tok a_q repeat app]. rewrite <- !app_assoc. reflexivity. }
    assert (Ha : allowed sq c = false).
    { unfold allowed, allowed_quote_chars, memb. destruct sq; cbn [existsb];
        rewrite ?Hd; cbn [andb orb] in *; rewrite ?Hs; reflexivity. }
    rewrite <- app_assoc. cbn [app]. rewrite scan_all_enter, scan_all_cons.
    rewrite feed_enter_plain by assumption.
    rewrite IH by (cbn [a_q]; exact Hq). cbn [a_tok a_q repeat app]. rewrite <- !app_assoc. reflexivity.
Qed.

Lemma scan_all_quote sq x tail :
  scan_all sq WS acc0 (quote sq x ++ tail) = scan_all sq WS (Acc x true true) tail.
Proof.
  unfold quote. cbn [app]. rewrite <- app_assoc. cbn [app].
  rewrite scan_all_cons. cbn [feed]. change (is_ws DQ) with false. cbv iota.
  rewrite allowed_DQ. fold Qs. rewrite scan_all_qbody by reflexivity. reflexivity.
Qed.

Lemma scan_all_quote_join sq : forall args,
  scan_all sq WS acc0 (quote_join sq args) = map (fun x => (true, x)) args.
Proof.
  unfold quote_join.
  induction args as [|x rest IH]; [reflexivity|].
  destruct rest as [|y rest].
  - cbn [map join]. rewrite <- (app_nil_r (quote sq x)), scan_all_quote. reflexivity.
  - change (join [SP] (map (quote sq) (x :: y :: rest)))
      with (quote sq x ++ [SP] ++ join [SP] (map (quote sq) (y :: rest))).
    rewrite scan_all_quote. cbn [app]. rewrite scan_all_cons. cbn [feed].
    change (is_ws SP) with true. cbv iota. cbn [a_ne emit a_q a_tok negb andb].
    rewrite IH. reflexivity.
Qed.

Theorem split_quote_join sq args : split sq (quote_join sq args) = Some args.
Proof.
  rewrite split_spec, scan_all_quote_join, map_map. cbn [snd]. rewrite map_id. reflexivity.
Qed.

(* ------------------------------------------------------------------ *)
(* Part D: no invention                                                *)
(* ------------------------------------------------------------------ *)

Inductive subseq {X} : list X -> list X -> Prop :=
| ss_nil : subseq [] []
| ss_take x a b : subseq a b -> subseq (x :: a) (x :: b)
| ss_skip x a b : subseq a b -> subseq a (x :: b).

Lemma subseq_nil_l {X} (b : list X) : subseq [] b.
Proof. induction b; constructor; assumption. Qed.
Lemma subseq_refl {X} (a : list X) : subseq a a.
Proof. induction a; constructor; assumption. Qed.
Lemma subseq_app {X} (a b c d : list X) :
  subseq a b -> subseq c d -> subseq (a ++ c) (b ++ d).
Proof. intros H1 H2. induction H1; cbn [app]; try constructor; assumption. Qed.
Lemma subseq_trans {X} (b c : list X) :
  subseq b c -> forall a, subseq a b -> subseq a c.
Proof.
  induction 1 as [|x b c Hbc IH|x b c Hbc IH]; intros a Hab.
  - assumption.
  - inversion Hab; subst.
    + constructor. apply IH. assumption.
    + apply ss_skip. apply IH. assumption.
  - apply ss_skip. apply IH. assumption.
Qed.
Lemma subseq_repeat {X} (x : X) m n : (m <= n)%nat -> subseq (repeat x m) (repeat x n).
Proof.
  revert m. induction n as [|n IH]; intros m Hm.
  - replace m with O by lia. constructor.
  - destruct m as [|m]; [apply subseq_nil_l|]. cbn [repeat]. constructor. apply IH. lia.
Qed.

Lemma div2_le n : (Nat.div2 n <= n)%nat.
Proof. apply Nat.lt_eq_cases. destruct n; [right; reflexivity|left; apply Nat.lt_div2; lia]. Qed.

(* backslashes held in the state, not yet written to the token *)
Definition pend (st : state) : str :=
  match st with Backslash n _ => repeat BS n | _ => [] end.
Definition pend' (ost : option state) : str :=
  match ost with Some st => pend st | None => [] end.

Lemma pend_nobs e : nobs e = true -> pend e = [].
Proof. destruct e; cbn; congruence. Qed.

Lemma tok_fin st a : a_tok (fin (Some st) a) = a_tok a ++ pend st.
Proof.
  destruct st as [| |q e|n e]; cbn [fin pend]; rewrite ?app_nil_r; try reflexivity.
  destruct n; cbn; rewrite ?app_nil_r; reflexivity.
Qed.

Lemma subseq_snoc {X} (a b : list X) c : subseq a b -> subseq (a ++ [c]) (b ++ [c]).
Proof. intros H. apply subseq_app; [assumption|apply subseq_refl]. Qed.
Lemma subseq_skip_r {X} (a b : list X) c : subseq a b -> subseq a (b ++ [c]).
Proof.
  intros H. rewrite <- (app_nil_r a). apply subseq_app; [assumption|apply subseq_nil_l].
Qed.

Lemma feed_subseq sq st : forall c a ost a' pre,
  wf sq st = true ->
  feed sq st c a = (ost, a') ->
  subseq (a_tok a ++ pend st) pre ->
  subseq (a_tok a' ++ pend' ost) (pre ++ [c]).
Proof.
  induction st as [| |q e IH|n e IH]; intros c a ost a' pre Hwf H Hs; cbn [feed] in H;
    cbn [pend] in Hs.
  - rewrite app_nil_r in Hs.
    destruct (is_ws c).
    { destruct (a_ne a); inversion H; subst; cbn [pend' pend]; rewrite app_nil_r;
        apply subseq_skip_r; assumption. }
    destruct (allowed sq c).
    { inversion H; subst. cbn [pend' pend setq a_tok]. rewrite app_nil_r.
      apply subseq_skip_r; assumption. }
    destruct (c =? BS) eqn:Hb; inversion H; subst; cbn [pend' pend app_a a_tok].
    + apply N.eqb_eq in Hb. subst c. apply subseq_snoc. assumption.
    + rewrite app_nil_r. apply subseq_snoc. assumption.
  - rewrite app_nil_r in Hs.
    destruct (is_ws c).
    { inversion H; subst; cbn [pend' pend]; rewrite app_nil_r; apply subseq_skip_r; assumption. }
    destruct (allowed sq c).
    { inversion H; subst. cbn [pend' pend a_tok]. rewrite app_nil_r.
      apply subseq_skip_r; assumption. }
    destruct (c =? BS) eqn:Hb; inversion H; subst; cbn [pend' pend app_a a_tok].
    + apply N.eqb_eq in Hb. subst c. apply subseq_snoc. assumption.
    + rewrite app_nil_r. apply subseq_snoc. assumption.
  - rewrite app_nil_r in Hs. cbn [wf] in Hwf. apply andb_prop in Hwf as [Hq Hbse].
    destruct (c =? BS) eqn:Hb.
    { inversion H; subst. cbn [pend' pend]. apply N.eqb_eq in Hb. subst c.
      apply subseq_snoc. assumption. }
    destruct (c =? q); inversion H; subst; cbn [pend' app_a a_tok].
    + rewrite (pend_nobs e) by (apply isbase_nobs; assumption). rewrite !app_nil_r.
      apply subseq_skip_r; assumption.
    + cbn [pend]. rewrite app_nil_r. apply subseq_snoc. assumption.
  - cbn [wf] in Hwf. apply andb_prop in Hwf as [Hn Hwe].
    destruct (c =? BS) eqn:Hb.
    { inversion H; subst. cbn [pend' pend]. apply N.eqb_eq in Hb. subst c.
      rewrite repeat_snoc, app_assoc. apply subseq_snoc. assumption. }
    assert (Hhalf : subseq (a_tok a ++ repeat BS (Nat.div2 n)) pre).
    { eapply subseq_trans; [exact Hs|].
      apply subseq_app; [apply subseq_refl|apply subseq_repeat, div2_le]. }
    destruct (allowed sq c).
    + destruct (Nat.odd n).
      * inversion H; subst. cbn [pend' app_a a_tok]. rewrite (pend_nobs e Hn), app_nil_r.
        apply subseq_snoc. assumption.
      * eapply IH; [exact Hwe|exact H|].
        cbn [app_a a_tok]. rewrite (pend_nobs e Hn), app_nil_r. assumption.
    + eapply IH; [exact Hwe|exact H|].
      rewrite (pend_nobs e Hn), app_nil_r.
      destruct n; cbn [Nat.ltb Nat.leb app_a a_tok]; [|assumption].
      cbn [repeat] in Hs. rewrite app_nil_r in Hs. assumption.
Qed.

Lemma scan_all_subseq sq : forall s st a pre,
  wf sq st = true ->
  subseq (a_tok a ++ pend st) pre ->
  subseq (concat (map snd (scan_all sq st a s))) (pre ++ s).
Proof.
  induction s as [|c s IH]; intros st a pre Hwf Hs.
  - cbn [scan_all]. rewrite app_nil_r. unfold emit. rewrite tok_fin.
    destruct (negb (a_q (fin (Some st) a)) && is_nil (a_tok a ++ pend st)).
    + apply subseq_nil_l.
    + cbn [map snd concat]. rewrite app_nil_r. assumption.
  - rewrite scan_all_cons.
    destruct (feed sq st c a) as [[st'|] a'] eqn:Hf;
      pose proof (feed_subseq sq st c a _ a' pre Hwf Hf Hs) as Hs'; cbn [pend'] in Hs'.
    + replace (pre ++ c :: s) with ((pre ++ [c]) ++ s) by (rewrite <- app_assoc; reflexivity).
      apply IH; [eapply feed_wf; eassumption|assumption].
    + rewrite app_nil_r in Hs'. unfold emit.
      destruct (negb (a_q a') && is_nil (a_tok a')); [apply subseq_nil_l|].
      cbn [map snd concat].
      replace (pre ++ c :: s) with ((pre ++ [c]) ++ s) by (rewrite <- app_assoc; reflexivity).
      apply subseq_app; [assumption|].
      apply (IH WS acc0 []); [reflexivity|constructor].
Qed.

Theorem split_no_invention sq s toks :
  split sq s = Some toks -> subseq (concat toks) s.
Proof.
  rewrite split_spec. intros H. inversion H; subst.
  apply (scan_all_subseq sq s WS acc0 []); [reflexivity|constructor].
Qed.

(* ------------------------------------------------------------------ *)
(* Part E: no loss                                                     *)
(* ------------------------------------------------------------------ *)

Definition ordc (sq : bool) (c : N) : str := if ordinary sq c then [c] else [].

Lemma is_nil_true {X} (l : list X) : is_nil l = true -> l = [].
Proof. destruct l; [reflexivity|discriminate]. Qed.
Lemma snoc_nonnil {X} (l : list X) c : l ++ [c] <> [].
Proof. intros H. apply app_eq_nil in H as [_ H]. discriminate. Qed.

Lemma ordc_ws sq c : is_ws c = true -> ordc sq c = [].
Proof. intros H. unfold ordc, ordinary. rewrite H. reflexivity. Qed.
Lemma ordc_allowed sq c : allowed sq c = true -> ordc sq c = [].
Proof. intros H. unfold ordc, ordinary. rewrite H, andb_false_r. reflexivity. Qed.
Lemma ordc_BS sq : ordc sq BS = [].
Proof. unfold ordc, ordinary. rewrite andb_false_r. reflexivity. Qed.
Lemma filter_snoc sq l c :
  filter (ordinary sq) (l ++ [c]) = filter (ordinary sq) l ++ ordc sq c.
Proof. rewrite filter_app. cbn [filter]. unfold ordc. destruct (ordinary sq c); reflexivity. Qed.
Lemma filter_BS sq n : filter (ordinary sq) (repeat BS n) = [].
Proof.
  induction n as [|n IH]; [reflexivity|]. cbn [repeat filter]. rewrite IH.
  pose proof (ordc_BS sq) as H. unfold ordc in H. destruct (ordinary sq BS); [discriminate|reflexivity].
Qed.
Lemma filter_pend sq st : filter (ordinary sq) (pend st) = [].
Proof. destruct st; cbn [pend]; try reflexivity. apply filter_BS. Qed.

Lemma feed_filter sq st : forall c a ost a',
  wf sq st = true ->
  feed sq st c a = (ost, a') ->
  filter (ordinary sq) (a_tok a') = filter (ordinary sq) (a_tok a) ++ ordc sq c.
Proof.
  induction st as [| |q e IH|n e IH]; intros c a ost a' Hwf H; cbn [feed] in H.
  - destruct (is_ws c) eqn:Hw.
    { rewrite ordc_ws, app_nil_r by assumption. destruct (a_ne a); inversion H; reflexivity. }
    destruct (allowed sq c) eqn:Ha.
    { rewrite ordc_allowed, app_nil_r by assumption. inversion H; reflexivity. }
    destruct (c =? BS) eqn:Hb; inversion H; subst.
    + apply N.eqb_eq in Hb. subst c. rewrite ordc_BS, app_nil_r. reflexivity.
    + apply filter_snoc.
  - destruct (is_ws c) eqn:Hw.
    { rewrite ordc_ws, app_nil_r by assumption. inversion H; reflexivity. }
    destruct (allowed sq c) eqn:Ha.
    { rewrite ordc_allowed, app_nil_r by assumption. inversion H; reflexivity. }
    destruct (c =? BS) eqn:Hb; inversion H; subst.
    + apply N.eqb_eq in Hb. subst c. rewrite ordc_BS, app_nil_r. reflexivity.
    + apply filter_snoc.
  - cbn [wf] in Hwf. apply andb_prop in Hwf as [Hq Hbse].
    destruct (c =? BS) eqn:Hb.
    { apply N.eqb_eq in Hb. subst c. rewrite ordc_BS, app_nil_r. inversion H; reflexivity. }
    destruct (c =? q) eqn:Hc; inversion H; subst.
    + apply N.eqb_eq in Hc. subst c. rewrite ordc_allowed by assumption.
      cbn [app_a a_tok]. rewrite !app_nil_r. reflexivity.
    + apply filter_snoc.
  - cbn [wf] in Hwf. apply andb_prop in Hwf as [Hn Hwe].
    destruct (c =? BS) eqn:Hb.
    { apply N.eqb_eq in Hb. subst c. rewrite ordc_BS, app_nil_r. inversion H; reflexivity. }
    destruct (allowed sq c) eqn:Ha.
    + destruct (Nat.odd n).
      * inversion H; subst. cbn [app_a a_tok]. rewrite filter_snoc, filter_app, filter_BS, app_nil_r.
        reflexivity.
      * rewrite (IH _ _ _ _ Hwe H). cbn [app_a a_tok].
        rewrite filter_app, filter_BS, app_nil_r. reflexivity.
    + rewrite (IH _ _ _ _ Hwe H).
      destruct (0 <? n)%nat; [|reflexivity].
      cbn [app_a a_tok]. rewrite filter_app, filter_BS, app_nil_r. reflexivity.
Qed.

(* a token that has started cannot come out as None *)
Definition live (a : acc) : Prop := a_q a = true \/ a_tok a <> [].

Fixpoint good (st : state) (a : acc) : Prop :=
  match st with
  | WS => a_ne a = true -> live a
  | Word => a_tok a <> []
  | Quotes _ e => match e with WS => a_q a = true | _ => a_tok a <> [] end
  | Backslash n e => (1 <= n)%nat /\ good e a
  end.

Lemma good_grow sq e a a' :
  nobs e = true -> wf sq e = true -> good e a ->
  a_tok a' <> [] -> (a_q a = true -> a_q a' = true) -> good e a'.
Proof.
  intros Hn Hw Hg Ht Hq. destruct e as [| |q e0|n e0]; cbn [good] in *.
  - intros _. right. assumption.
  - assumption.
  - destruct e0; try assumption. apply Hq. assumption.
  - discriminate.
Qed.

Lemma feed_good sq st : forall c a ost a',
  wf sq st = true -> good st a ->
  feed sq st c a = (ost, a') ->
  match ost with None => live a' | Some st' => good st' a' end.
Proof.
  induction st as [| |q e IH|n e IH]; intros c a ost a' Hwf Hg H; cbn [feed] in H;
    cbn [good] in Hg.
  - destruct (is_ws c).
    { destruct (a_ne a) eqn:Hne; inversion H; subst.
      - apply Hg. reflexivity.
      - cbn [good]. rewrite Hne. discriminate. }
    destruct (allowed sq c); [inversion H; subst; reflexivity|].
    destruct (c =? BS); inversion H; subst; cbn [good].
    + split; [lia|assumption].
    + apply snoc_nonnil.
  - destruct (is_ws c); [inversion H; subst; right; assumption|].
    destruct (allowed sq c); [inversion H; subst; assumption|].
    destruct (c =? BS); inversion H; subst; cbn [good].
    + split; [lia|assumption].
    + apply snoc_nonnil.
  - cbn [wf] in Hwf. apply andb_prop in Hwf as [Hq Hbse].
    destruct (c =? BS); [inversion H; subst; cbn [good]; split; [lia|assumption]|].
    destruct (c =? q); inversion H; subst.
    + destruct e; try discriminate; cbn [good app_a a_tok a_q].
      * intros _. left. assumption.
      * rewrite app_nil_r. assumption.
    + cbn [good]. destruct e; cbn [app_a a_tok a_q]; try apply snoc_nonnil. assumption.
  - cbn [wf] in Hwf. apply andb_prop in Hwf as [Hn Hwe]. destruct Hg as [Hn1 Hge].
    destruct (c =? BS); [inversion H; subst; cbn [good]; split; [lia|assumption]|].
    destruct (allowed sq c).
    + destruct (Nat.odd n) eqn:Hodd.
      * inversion H; subst.
        apply (good_grow sq e a); try assumption; [apply snoc_nonnil|auto].
      * apply (IH _ _ _ _ Hwe) in H; [assumption|].
        apply (good_grow sq e a); try assumption; [|auto].
        cbn [app_a a_tok]. destruct n as [|[|n]]; [lia|discriminate|].
        cbn [Nat.div2 repeat]. intros E. apply app_eq_nil in E as [_ E]. discriminate.
    + apply (IH _ _ _ _ Hwe) in H; [assumption|].
      apply (good_grow sq e a); try assumption; [|destruct (0 <? n)%nat; auto].
      destruct n as [|n]; [lia|]. cbn [Nat.ltb Nat.leb app_a a_tok repeat].
      intros E. apply app_eq_nil in E as [_ E]. discriminate.
Qed.

Lemma emit_live a : live a -> emit a = Some (a_q a, a_tok a).
Proof.
  intros Hl. unfold emit. destruct (a_q a) eqn:Hq; [reflexivity|]. cbn [negb andb].
  destruct Hl as [Hl|Hl]; [congruence|].
  destruct (a_tok a); [contradiction|reflexivity].
Qed.

Lemma scan_all_filter sq : forall s st a pre,
  wf sq st = true -> good st a ->
  filter (ordinary sq) (a_tok a) = filter (ordinary sq) pre ->
  filter (ordinary sq) (concat (map snd (scan_all sq st a s))) = filter (ordinary sq) (pre ++ s).
Proof.
  induction s as [|c s IH]; intros st a pre Hwf Hg Hf.
  - cbn [scan_all]. rewrite app_nil_r. unfold emit. rewrite tok_fin.
    destruct (negb (a_q (fin (Some st) a)) && is_nil (a_tok a ++ pend st)) eqn:E.
    + apply andb_prop in E as [_ E]. apply is_nil_true in E. apply app_eq_nil in E as [E _].
      rewrite <- Hf, E. reflexivity.
    + cbn [map snd concat]. rewrite app_nil_r, filter_app, filter_pend, app_nil_r. assumption.
  - rewrite scan_all_cons.
    replace (pre ++ c :: s) with ((pre ++ [c]) ++ s) by (rewrite <- app_assoc; reflexivity).
    destruct (feed sq st c a) as [[st'|] a'] eqn:Hfd;
      pose proof (feed_filter sq st c a _ a' Hwf Hfd) as Hff;
      pose proof (feed_good sq st c a _ a' Hwf Hg Hfd) as Hgd; cbn beta iota in Hgd.
    + apply IH; [eapply feed_wf; eassumption|assumption|].
      rewrite Hff, Hf, filter_snoc. reflexivity.
    + rewrite (emit_live a' Hgd). cbn [map snd concat].
      rewrite filter_app, (IH WS acc0 []); [|reflexivity|cbn; discriminate|reflexivity].
      rewrite Hff, Hf, (filter_app _ (pre ++ [c])), filter_snoc. reflexivity.
Qed.

Theorem split_no_loss sq s toks :
  split sq s = Some toks ->
  filter (ordinary sq) (concat toks) = filter (ordinary sq) s.
Proof.
  rewrite split_spec. intros H. inversion H; subst.
  apply (scan_all_filter sq s WS acc0 []); [reflexivity|cbn; discriminate|reflexivity].
Qed.

(* ---- quote-free input is split at whitespace only ---- *)

Definition cur (st : state) (a : acc) : str := a_tok a ++ pend st.

Definition Iw (st : state) (a : acc) : Prop :=
  a_q a = false /\ a_ne a = negb (is_nil (a_tok a)) /\
  match st with
  | WS => True
  | Word => a_tok a <> []
  | Backslash _ WS => True
  | Backslash _ Word => a_tok a <> []
  | _ => False
  end.

Definition step_ok (sq : bool) (st : state) (c : N) (a : acc) (r : option state * acc) : Prop :=
  match r with
  | (None, a') => is_ws c = true /\ cur st a <> [] /\ a_tok a' = cur st a /\ a_q a' = false
  | (Some st', a') =>
      Iw st' a' /\
      (if is_ws c then cur st a = [] /\ cur st' a' = [] else cur st' a' = cur st a ++ [c])
  end.

Lemma is_nil_snoc {X} (l : list X) c : is_nil (l ++ [c]) = false.
Proof. destruct l; reflexivity. Qed.

Lemma step_base sq st c a :
  isbase st = true -> Iw st a -> allowed sq c = false ->
  step_ok sq st c a (feed sq st c a).
Proof.
  intros Hb (Hq & Hne & Hst) Ha.
  destruct st as [| |q e|n e]; try discriminate; cbn [feed]; unfold step_ok, cur; cbn [pend].
  - destruct (is_ws c) eqn:Hw.
    + destruct (a_ne a) eqn:Hn.
      * rewrite app_nil_r. repeat split; try assumption.
        intros E. rewrite E in Hne. discriminate.
      * cbn [pend]. rewrite !app_nil_r.
        assert (Et : a_tok a = []) by (destruct (a_tok a); [reflexivity|discriminate]).
        repeat split; try assumption; congruence.
    + rewrite Ha. destruct (c =? BS) eqn:Hc.
      * apply N.eqb_eq in Hc. subst c. cbn [pend repeat]. rewrite app_nil_r.
        repeat split; assumption.
      * unfold Iw. cbn [pend app_a a_tok a_q a_ne]. rewrite !app_nil_r, is_nil_snoc.
        repeat split; try assumption; try reflexivity. apply snoc_nonnil.
  - destruct (is_ws c) eqn:Hw.
    + rewrite app_nil_r. repeat split; assumption.
    + rewrite Ha. destruct (c =? BS) eqn:Hc.
      * apply N.eqb_eq in Hc. subst c. cbn [pend repeat]. rewrite app_nil_r.
        repeat split; assumption.
      * unfold Iw. cbn [pend app_a a_tok a_q a_ne]. rewrite !app_nil_r, is_nil_snoc.
        repeat split; try assumption; try reflexivity. apply snoc_nonnil.
Qed.

Lemma step_words sq st c a :
  Iw st a -> allowed sq c = false -> step_ok sq st c a (feed sq st c a).
Proof.
  intros HI Ha. destruct (isbase st) eqn:Hb; [apply step_base; assumption|].
  destruct HI as (Hq & Hne & Hst).
  destruct st as [| |q e|n e]; try discriminate; try contradiction.
  cbn [feed]. destruct (c =? BS) eqn:Hc.
  { apply N.eqb_eq in Hc. subst c. unfold step_ok, cur. cbn [pend].
    change (is_ws BS) with false. cbv iota. rewrite repeat_snoc, app_assoc.
    repeat split; try assumption; destruct e; assumption. }
  rewrite Ha.
  set (a1 := if (0 <? n)%nat then app_a (repeat BS n) a else a).
  assert (Htok : a_tok a1 = a_tok a ++ repeat BS n).
  { subst a1. destruct n; cbn; [rewrite app_nil_r|]; reflexivity. }
  assert (Hbe : isbase e = true) by (destruct e; try contradiction; reflexivity).
  assert (HI1 : Iw e a1).
  { subst a1. destruct n as [|n]; cbn [Nat.ltb Nat.leb].
    - repeat split; try assumption. destruct e; try contradiction; assumption.
    - unfold Iw, app_a. cbn [repeat a_q a_ne a_tok]. repeat split; try assumption.
      + destruct (a_tok a); reflexivity.
      + destruct e; try contradiction; try exact I.
        intros E. apply app_eq_nil in E as [_ E]. discriminate. }
  pose proof (step_base sq e c a1 Hbe HI1 Ha) as Hs.
  unfold step_ok, cur in *. cbn [pend].
  rewrite (pend_nobs e (isbase_nobs e Hbe)), app_nil_r, Htok in Hs. exact Hs.
Qed.

Lemma q_fin st a : a_q (fin (Some st) a) = a_q a.
Proof. destruct st as [| |q e|n e]; try reflexivity. cbn [fin]. destruct (0 <? n)%nat; reflexivity. Qed.

Lemma scan_all_words sq : forall s st a,
  (forall c, In c s -> allowed sq c = false) -> Iw st a ->
  map snd (scan_all sq st a s) = words (cur st a) s.
Proof.
  induction s as [|c s IH]; intros st a Hnq HI.
  - cbn [scan_all words]. unfold emit. rewrite tok_fin, q_fin.
    destruct HI as (Hq & _). rewrite Hq. cbn [negb andb]. fold (cur st a).
    destruct (is_nil (cur st a)); reflexivity.
  - rewrite scan_all_cons. cbn [words].
    assert (Ha : allowed sq c = false) by (apply Hnq; left; reflexivity).
    assert (Hnq' : forall x, In x s -> allowed sq x = false) by (intros x Hx; apply Hnq; right; assumption).
    pose proof (step_words sq st c a HI Ha) as Hs.
    destruct (feed sq st c a) as [[st'|] a']; unfold step_ok in Hs.
    + destruct Hs as (HI' & Hc). rewrite (IH st' a' Hnq' HI').
      destruct (is_ws c).
      * destruct Hc as [E1 E2]. rewrite E1, E2. reflexivity.
      * rewrite Hc. reflexivity.
    + destruct Hs as (Hw & Hne & Ht & Hq). rewrite Hw.
      unfold emit. rewrite Hq, Ht. cbn [negb andb].
      destruct (cur st a) eqn:E; [contradiction|]. cbn [is_nil map snd].
      rewrite (IH WS acc0 Hnq'); [reflexivity|].
      repeat split.
Qed.

Theorem split_no_quotes sq s :
  (forall c, In c s -> allowed sq c = false) -> split sq s = Some (words [] s).
Proof.
  intros H. rewrite split_spec. f_equal.
  apply (scan_all_words sq s WS acc0 H). repeat split.
Qed.

Theorem split_total sq s : exists toks, split sq s = Some toks.
Proof. eexists. apply split_spec. Qed.
