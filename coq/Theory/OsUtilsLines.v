(* Theory/OsUtilsLines.v -- lemmas about the line part of Model/OsUtils.v (C47):
   split_lines, the pyo3 iterator (py_next / chunks_to_lines) and the core
   iterator (core_next / core_chunks_to_lines). *)
From Coq Require Import String Ascii ZArith NArith List Bool Lia.
From BV Require Import Lib.Bytes Lib.Obs Model.OsUtils.
Import ListNotations.
Open Scope N_scope.

(* ---------- memchr ---------- *)
Lemma memchr_none c s : memchr c s = None -> memb c s = false.
Proof.
  unfold memb. induction s as [|x s IH]; simpl; [reflexivity|].
  destruct (x =? c) eqn:E; [discriminate|].
  destruct (memchr c s); [discriminate|]. intros _.
  rewrite N.eqb_sym, E. simpl. apply IH. reflexivity.
Qed.

Lemma memchr_some c s i :
  memchr c s = Some i ->
  exists pre post, s = pre ++ c :: post /\ length pre = i /\ memb c pre = false.
Proof.
  revert i; induction s as [|x s IH]; simpl; intros i H; [discriminate|].
  destruct (x =? c) eqn:E.
  - injection H as <-. apply N.eqb_eq in E. subst. exists [], s. auto.
  - destruct (memchr c s) as [j|]; [|discriminate]. injection H as <-.
    destruct (IH j eq_refl) as [pre [post [-> [Hl Hm]]]].
    exists (x :: pre), post. repeat split; [simpl; congruence|].
    unfold memb in *. cbn [existsb]. rewrite N.eqb_sym, E. exact Hm.
Qed.

Lemma memchr_found c pre post :
  memb c pre = false -> memchr c (pre ++ c :: post) = Some (length pre).
Proof.
  unfold memb. induction pre as [|x pre IH]; cbn [existsb app memchr length]; intros H.
  - rewrite N.eqb_refl. reflexivity.
  - apply orb_false_iff in H as [H1 H2]. rewrite N.eqb_sym, H1, IH by exact H2. reflexivity.
Qed.

Lemma memchr_absent c s : memb c s = false -> memchr c s = None.
Proof.
  unfold memb. induction s as [|x s IH]; cbn [existsb memchr]; intros H; [reflexivity|].
  apply orb_false_iff in H as [H1 H2]. rewrite N.eqb_sym, H1, IH by exact H2. reflexivity.
Qed.

Lemma firstn_skipn_at {A} (pre : list A) c post :
  firstn (S (length pre)) (pre ++ c :: post) = pre ++ [c] /\
  skipn (S (length pre)) (pre ++ c :: post) = post.
Proof.
  induction pre as [|x pre [IH1 IH2]]; [split; reflexivity|].
  split.
  - change (firstn (S (length (x :: pre))) ((x :: pre) ++ c :: post))
      with (x :: firstn (S (length pre)) (pre ++ c :: post)).
    rewrite IH1. reflexivity.
  - change (skipn (S (length (x :: pre))) ((x :: pre) ++ c :: post))
      with (skipn (S (length pre)) (pre ++ c :: post)).
    exact IH2.
Qed.

(* ---------- cut_line ---------- *)
Definition terminated (l : bytes) : Prop := exists body, l = body ++ [LF] /\ memb LF body = false.
Definition unterminated (l : bytes) : Prop := l <> [] /\ memb LF l = false.

Lemma cut_line_terminated body rest :
  memb LF body = false -> cut_line ((body ++ [LF]) ++ rest) = Some (body ++ [LF], rest).
Proof.
  intros H. rewrite <- app_assoc. cbn [app]. unfold cut_line.
  destruct (body ++ LF :: rest) eqn:E; [destruct body; discriminate|]. rewrite <- E.
  rewrite memchr_found by exact H.
  destruct (firstn_skipn_at body LF rest) as [-> ->]. reflexivity.
Qed.

Lemma cut_line_unterminated l : unterminated l -> cut_line l = Some (l, []).
Proof.
  intros [Hne H]. unfold cut_line. destruct l; [congruence|].
  rewrite memchr_absent by exact H. reflexivity.
Qed.

Lemma cut_line_nil_iff t : cut_line t = None <-> t = [].
Proof.
  unfold cut_line. destruct t; [split; reflexivity|].
  destruct (memchr LF (n :: t)); split; discriminate.
Qed.

Lemma cut_line_spec t l r :
  cut_line t = Some (l, r) ->
  t = l ++ r /\ (terminated l \/ (unterminated l /\ r = [])).
Proof.
  intros H. unfold cut_line in H. destruct t as [|x t]; [discriminate|].
  remember (x :: t) as s eqn:Es.
  destruct (memchr LF s) as [i|] eqn:E.
  - destruct (memchr_some _ _ _ E) as [pre [post [Hs [<- Hm]]]]. rewrite Hs in H |- *.
    destruct (firstn_skipn_at pre LF post) as [E1 E2]. rewrite E1, E2 in H.
    injection H as <- <-.
    split; [rewrite <- app_assoc; reflexivity|]. left. exists pre. auto.
  - injection H as <- <-.
    split; [rewrite app_nil_r; reflexivity|]. right. split; [|reflexivity].
    split; [subst s; discriminate|]. apply memchr_none. exact E.
Qed.

Lemma cut_line_shorter t l r : cut_line t = Some (l, r) -> (length r < length t)%nat.
Proof.
  intros H. destruct (cut_line_spec _ _ _ H) as [-> [[body [-> _]]|[[Hne _] _]]];
    rewrite ?app_length; [simpl; lia|].
  destruct l; [congruence|simpl; lia].
Qed.

(* ---------- split_lines ---------- *)
Lemma split_lines_fuel_irrelevant f1 : forall f2 t,
  (length t <= f1)%nat -> (length t <= f2)%nat ->
  split_lines_fuel f1 t = split_lines_fuel f2 t.
Proof.
  induction f1 as [|f1 IH]; intros f2 t H1 H2.
  - destruct t; [|simpl in H1; lia]. destruct f2; reflexivity.
  - destruct f2 as [|f2].
    + destruct t; [reflexivity|simpl in H2; lia].
    + simpl. destruct (cut_line t) as [[l r]|] eqn:E; [|reflexivity].
      pose proof (cut_line_shorter _ _ _ E). f_equal. apply IH; lia.
Qed.

Lemma split_lines_unfold t :
  split_lines t = match cut_line t with
                  | None => []
                  | Some (l, r) => l :: split_lines r
                  end.
Proof.
  unfold split_lines. destruct t as [|x t]; [reflexivity|].
  cbn [length split_lines_fuel].
  destruct (cut_line (x :: t)) as [[l r]|] eqn:E; [|reflexivity].
  pose proof (cut_line_shorter _ _ _ E) as Hl. simpl in Hl.
  f_equal. apply split_lines_fuel_irrelevant; lia.
Qed.

Lemma split_lines_ind (P : bytes -> Prop) :
  (forall t, (forall l r, cut_line t = Some (l, r) -> P r) -> P t) -> forall t, P t.
Proof.
  intros Hstep t. remember (length t) as n eqn:Hn.
  assert (Hle : (length t <= n)%nat) by lia. clear Hn.
  revert t Hle; induction n as [|n IH]; intros t Hle; apply Hstep; intros l r E;
    pose proof (cut_line_shorter _ _ _ E); [lia|apply IH; lia].
Qed.

(* concatenating the lines gives the text back *)
Lemma split_lines_concat t : concat (split_lines t) = t.
Proof.
  induction t as [t IH] using split_lines_ind.
  rewrite split_lines_unfold. destruct (cut_line t) as [[l r]|] eqn:E.
  - simpl. rewrite (IH _ _ eq_refl). destruct (cut_line_spec _ _ _ E) as [-> _]. reflexivity.
  - apply cut_line_nil_iff in E. subst. reflexivity.
Qed.

(* the shape of a list of lines: every line but the last is a LF-free body followed
   by exactly one LF; the last may also be a non-empty LF-free remainder *)
Inductive lines_wf : list bytes -> Prop :=
| wf_nil : lines_wf []
| wf_last l : unterminated l -> lines_wf [l]
| wf_cons l ls : terminated l -> lines_wf ls -> lines_wf (l :: ls).

Lemma split_lines_wf t : lines_wf (split_lines t).
Proof.
  induction t as [t IH] using split_lines_ind.
  rewrite split_lines_unfold. destruct (cut_line t) as [[l r]|] eqn:E; [|constructor].
  destruct (cut_line_spec _ _ _ E) as [_ [Ht|[Hu ->]]].
  - apply wf_cons; [exact Ht|]. apply (IH _ _ eq_refl).
  - rewrite split_lines_unfold. simpl. apply wf_last. exact Hu.
Qed.

(* ... and split_lines is the only such decomposition *)
Lemma split_lines_unique ls : lines_wf ls -> split_lines (concat ls) = ls.
Proof.
  induction 1 as [|l Hu|l ls [body [-> Hb]] Hw IH].
  - reflexivity.
  - simpl. rewrite app_nil_r. rewrite split_lines_unfold, (cut_line_unterminated _ Hu).
    reflexivity.
  - cbn [concat]. rewrite split_lines_unfold, cut_line_terminated by exact Hb.
    rewrite IH. reflexivity.
Qed.

Lemma lines_wf_nonempty ls : lines_wf ls -> Forall (fun l => l <> []) ls.
Proof.
  induction 1 as [|l [Hne _]|l ls [body [-> _]] Hw IH]; constructor; auto.
  destruct body; discriminate.
Qed.

(* ---------- the pyo3 iterator ---------- *)
Definition tail_bytes (tail : option bytes) : bytes := match tail with Some c => c | None => [] end.
Definition st_text (tail : option bytes) (chunks : list bytes) : bytes :=
  tail_bytes tail ++ concat chunks.
Definition tail_inv (tail : option bytes) : Prop := tail <> Some [].

Lemma last_index_case (pre post : bytes) :
  Nat.eqb (length pre) (length (pre ++ LF :: post) - 1) = true -> post = [].
Proof.
  rewrite app_length. simpl. intros H. apply Nat.eqb_eq in H.
  destruct post; [reflexivity|simpl in H; lia].
Qed.

Lemma last_index_case_false (pre post : bytes) :
  Nat.eqb (length pre) (length (pre ++ LF :: post) - 1) = false -> post <> [].
Proof.
  rewrite app_length. simpl. intros H ->. apply Nat.eqb_neq in H. simpl in H. lia.
Qed.

Lemma py_next_spec chunks : forall tail,
  tail_inv tail ->
  match py_next chunks tail with
  | None => st_text tail chunks = []
  | Some (l, tail', chunks') =>
      tail_inv tail' /\ cut_line (st_text tail chunks) = Some (l, st_text tail' chunks')
  end.
Proof.
  induction chunks as [|c rest IH]; intros [chunk|] Hinv; cbn [py_next].
  - (* no chunks left, tail *)
    destruct (memchr LF chunk) as [nl|] eqn:E.
    + destruct (memchr_some _ _ _ E) as [pre [post [-> [<- Hm]]]].
      destruct (Nat.eqb _ _) eqn:En.
      * apply last_index_case in En. subst post. split; [discriminate|].
        unfold st_text. cbn [tail_bytes concat]. apply (cut_line_terminated pre []). exact Hm.
      * apply last_index_case_false in En.
        destruct (firstn_skipn_at pre LF post) as [-> ->].
        split; [intros H; injection H as H; contradiction|].
        unfold st_text. cbn [tail_bytes concat]. rewrite !app_nil_r.
        replace (pre ++ LF :: post) with ((pre ++ [LF]) ++ post) by (rewrite <- app_assoc; reflexivity).
        apply cut_line_terminated. exact Hm.
    + split; [discriminate|]. unfold st_text. cbn [tail_bytes concat]. rewrite app_nil_r.
      apply cut_line_unterminated. split; [intros ->; apply Hinv; reflexivity|].
      apply memchr_none. exact E.
  - reflexivity.
  - (* a tail and more chunks *)
    destruct (memchr LF chunk) as [nl|] eqn:E.
    + destruct (memchr_some _ _ _ E) as [pre [post [-> [<- Hm]]]].
      destruct (Nat.eqb _ _) eqn:En.
      * apply last_index_case in En. subst post. split; [discriminate|].
        unfold st_text. cbn [tail_bytes]. apply (cut_line_terminated pre). exact Hm.
      * apply last_index_case_false in En.
        destruct (firstn_skipn_at pre LF post) as [-> ->].
        split; [intros H; injection H as H; contradiction|].
        unfold st_text. cbn [tail_bytes].
        replace ((pre ++ LF :: post) ++ concat (c :: rest))
          with ((pre ++ [LF]) ++ post ++ concat (c :: rest))
          by (rewrite <- !app_assoc; reflexivity).
        apply cut_line_terminated. exact Hm.
    + assert (Hne : chunk <> []) by (intros ->; apply Hinv; reflexivity).
      destruct (chunk ++ c) as [|x y] eqn:Ec.
      * apply app_eq_nil in Ec as [-> _]. congruence.
      * rewrite <- Ec. specialize (IH (Some (chunk ++ c))).
        assert (Hi : tail_inv (Some (chunk ++ c))) by (rewrite Ec; discriminate).
        specialize (IH Hi).
        replace (st_text (Some chunk) (c :: rest)) with (st_text (Some (chunk ++ c)) rest)
          by (unfold st_text; cbn [tail_bytes concat]; rewrite app_assoc; reflexivity).
        exact IH.
  - (* no tail *)
    destruct (match memchr LF c with Some nl => Nat.eqb nl (length c - 1) | None => false end) eqn:Ew.
    + destruct (memchr LF c) as [nl|] eqn:E; [|discriminate].
      destruct (memchr_some _ _ _ E) as [pre [post [-> [<- Hm]]]].
      apply last_index_case in Ew. subst post. split; [discriminate|].
      unfold st_text. cbn [tail_bytes concat app]. apply cut_line_terminated. exact Hm.
    + replace (st_text None (c :: rest))
        with (st_text (match c with [] => None | _ :: _ => Some c end) rest)
        by (destruct c; reflexivity).
      apply IH. destruct c; discriminate.
Qed.

Lemma py_collect_spec fuel : forall chunks tail,
  tail_inv tail -> (length (st_text tail chunks) < fuel)%nat ->
  py_collect fuel chunks tail = split_lines (st_text tail chunks).
Proof.
  induction fuel as [|fuel IH]; intros chunks tail Hinv Hlen; [lia|].
  cbn [py_collect]. pose proof (py_next_spec chunks tail Hinv) as Hs.
  rewrite (split_lines_unfold (st_text tail chunks)).
  destruct (py_next chunks tail) as [[[l tail'] chunks']|].
  - destruct Hs as [Hinv' Hc]. rewrite Hc. f_equal.
    apply IH; [exact Hinv'|]. pose proof (cut_line_shorter _ _ _ Hc). lia.
  - rewrite Hs. reflexivity.
Qed.

(* chunking independence, Python entry points *)
Lemma chunks_to_lines_spec cs : chunks_to_lines cs = split_lines (concat cs).
Proof.
  unfold chunks_to_lines. rewrite py_collect_spec; [reflexivity|discriminate|].
  unfold st_text, total_len. simpl. lia.
Qed.

Lemma py_split_lines_spec t : py_split_lines t = split_lines t.
Proof.
  unfold py_split_lines. rewrite chunks_to_lines_spec. simpl. rewrite app_nil_r. reflexivity.
Qed.

(* ---------- the core iterator (crates/osutils/src/lib.rs) ---------- *)
Lemma well_formed_line_spec c :
  well_formed_line c = true -> exists pre, c = pre ++ [LF] /\ memb LF pre = false.
Proof.
  unfold well_formed_line. destruct c as [|x c]; [discriminate|].
  destruct (memchr LF (x :: c)) as [i|] eqn:E; [|discriminate].
  destruct (memchr_some _ _ _ E) as [pre [post [-> [<- Hm]]]].
  intros H. apply last_index_case in H. subst. exists pre. auto.
Qed.

Lemma core_next_spec chunks : forall tail,
  match core_next chunks tail with
  | None => tail ++ concat chunks = []
  | Some (l, tail', chunks') =>
      cut_line (tail ++ concat chunks) = Some (l, tail' ++ concat chunks')
  end.
Proof.
  induction chunks as [|c rest IH]; intros tail; cbn [core_next].
  - destruct (memchr LF tail) as [i|] eqn:E.
    + destruct (memchr_some _ _ _ E) as [pre [post [-> [<- Hm]]]].
      destruct (firstn_skipn_at pre LF post) as [-> ->]. cbn [concat]. rewrite !app_nil_r.
      replace (pre ++ LF :: post) with ((pre ++ [LF]) ++ post) by (rewrite <- app_assoc; reflexivity).
      apply cut_line_terminated. exact Hm.
    + destruct tail as [|x tail]; [reflexivity|].
      cbn [concat]. rewrite !app_nil_r. apply cut_line_unterminated.
      split; [discriminate|]. apply memchr_none. exact E.
  - destruct (memchr LF tail) as [i|] eqn:E.
    + destruct (memchr_some _ _ _ E) as [pre [post [-> [<- Hm]]]].
      destruct (firstn_skipn_at pre LF post) as [-> ->].
      replace ((pre ++ LF :: post) ++ concat (c :: rest))
        with ((pre ++ [LF]) ++ post ++ concat (c :: rest))
        by (rewrite <- !app_assoc; reflexivity).
      apply cut_line_terminated. exact Hm.
    + destruct (match tail with [] => true | _ :: _ => false end && well_formed_line c) eqn:Ew.
      * apply andb_true_iff in Ew as [Et Ew]. destruct tail; [|discriminate].
        destruct (well_formed_line_spec _ Ew) as [pre [-> Hm]].
        cbn [concat app]. apply cut_line_terminated. exact Hm.
      * specialize (IH (tail ++ c)). cbn [concat]. rewrite app_assoc. exact IH.
Qed.

Lemma core_collect_spec fuel : forall chunks tail,
  (length (tail ++ concat chunks) < fuel)%nat ->
  core_collect fuel chunks tail = split_lines (tail ++ concat chunks).
Proof.
  induction fuel as [|fuel IH]; intros chunks tail Hlen; [lia|].
  cbn [core_collect]. pose proof (core_next_spec chunks tail) as Hs.
  rewrite (split_lines_unfold (tail ++ concat chunks)).
  destruct (core_next chunks tail) as [[[l tail'] chunks']|].
  - rewrite Hs. f_equal. apply IH. pose proof (cut_line_shorter _ _ _ Hs). lia.
  - rewrite Hs. reflexivity.
Qed.

Lemma core_chunks_to_lines_spec cs : core_chunks_to_lines cs = split_lines (concat cs).
Proof.
  unfold core_chunks_to_lines. rewrite core_collect_spec; [reflexivity|].
  unfold total_len. simpl. lia.
Qed.
