(* Theory/PackNames.v -- lemmas and the invariant proof for Model/PackNames.v (C05). *)
From Coq Require Import List Bool Arith PeanoNat Lia.
From BV Require Import Lib.Obs Lib.SchedPN Model.PackNames.
Import ListNotations.
Open Scope nat_scope.

(* ------------------------------------------------------------------ *)
(* finite sets as lists                                                 *)
(* ------------------------------------------------------------------ *)
Lemma list_eqb_nat_eq : forall a b, list_eqb Nat.eqb a b = true <-> a = b.
Proof.
  induction a as [|x a IH]; destruct b as [|y b]; simpl; split; intro H; try reflexivity; try discriminate.
  - apply andb_true_iff in H as [H1 H2]. apply Nat.eqb_eq in H1. apply IH in H2. subst; reflexivity.
  - inversion H; subst. rewrite Nat.eqb_refl. simpl. apply IH. reflexivity.
Qed.

Lemma pname_eqb_eq : forall a b, pname_eqb a b = true <-> a = b.
Proof.
  intros [ra oa] [rb ob]; unfold pname_eqb; simpl; split; intro H.
  - apply andb_true_iff in H as [H1 H2]. apply list_eqb_nat_eq in H1. apply eqb_prop in H2. subst; reflexivity.
  - inversion H; subst. apply andb_true_iff; split; [apply list_eqb_nat_eq; reflexivity | apply eqb_reflx].
Qed.

Lemma inb_In : forall n l, inb n l = true <-> In n l.
Proof.
  intros n l; unfold inb; rewrite existsb_exists; split.
  - intros [x [Hx He]]. apply pname_eqb_eq in He. subst; exact Hx.
  - intros H. exists n; split; [exact H | apply pname_eqb_eq; reflexivity].
Qed.

Lemma inb_false : forall n l, inb n l = false <-> ~ In n l.
Proof.
  intros n l; split; intro H.
  - intro Hi. apply inb_In in Hi. congruence.
  - destruct (inb n l) eqn:E; [apply inb_In in E; contradiction | reflexivity].
Qed.

Lemma In_dec_pn : forall (n : pname) l, In n l \/ ~ In n l.
Proof. intros n l. destruct (inb n l) eqn:E; [left; apply inb_In; exact E | right; apply inb_false; exact E]. Qed.

Lemma diff_In : forall n a b, In n (diff a b) <-> In n a /\ ~ In n b.
Proof.
  intros n a b; unfold diff; rewrite filter_In, negb_true_iff, inb_false. reflexivity.
Qed.

Lemma union_In : forall n a b, In n (union a b) <-> In n a \/ In n b.
Proof.
  intros n a b; unfold union; rewrite in_app_iff, diff_In. split.
  - intros [H|[H _]]; auto.
  - intros [H|H]; auto. destruct (In_dec_pn n a); auto.
Qed.

Lemma merge3_In : forall n al cur d,
  In n (merge3 al cur d) <->
  (In n d /\ ~ (In n al /\ ~ In n cur)) \/ (In n cur /\ ~ In n al).
Proof.
  intros n al cur d; unfold merge3, deleted_nodes, new_nodes.
  rewrite union_In, !diff_In. reflexivity.
Qed.

Lemma subset_incl : forall a b, subset a b = true <-> incl a b.
Proof.
  intros a b; unfold subset; rewrite forallb_forall; unfold incl; split; intros H x Hx.
  - apply inb_In; apply H; exact Hx.
  - apply inb_In; apply H; exact Hx.
Qed.

Lemma remove1_In : forall m n l, In m (remove1 n l) <-> In m l /\ m <> n.
Proof.
  intros m n l; unfold remove1; rewrite filter_In, negb_true_iff. split; intros [H1 H2]; split; auto.
  - intro E; subst. assert (pname_eqb n n = true) by (apply pname_eqb_eq; reflexivity). congruence.
  - destruct (pname_eqb n m) eqn:E; [apply pname_eqb_eq in E; subst; contradiction | reflexivity].
Qed.

Lemma ins_In : forall x y l, In y (ins x l) <-> y = x \/ In y l.
Proof.
  intros x y l; induction l as [|z t IH]; simpl.
  - split; intros [H|H]; auto; contradiction.
  - destruct (x <? z) eqn:E1; [simpl; split; intros [H|H]; auto|].
    destruct (x =? z) eqn:E2.
    + apply Nat.eqb_eq in E2; subst. simpl; split; [intros [H|H]; auto | intros [H|[H|H]]; auto].
    + simpl; rewrite IH. split; [intros [H|[H|H]]; auto | intros [H|[H|H]]; auto].
Qed.

Lemma norm_In : forall y l, In y (norm l) <-> In y l.
Proof.
  intros y l; induction l as [|x t IH]; simpl; [reflexivity|].
  rewrite ins_In, IH. split; intros [H|H]; auto.
Qed.

Definition covered (l : list pname) (r : nat) : Prop := exists n, In n l /\ In r (revs n).

Lemma all_revs_In : forall r l, In r (all_revs l) <-> covered l r.
Proof.
  intros r l; unfold all_revs, covered; rewrite norm_In, in_flat_map. reflexivity.
Qed.

Lemma auto_plan_incl : forall l, incl (auto_plan l) l.
Proof.
  intros l; unfold auto_plan. destruct (_ <=? _); [intros x [] | apply incl_refl].
Qed.

(* ------------------------------------------------------------------ *)
(* 1. the saved list is the three-way merge                             *)
(* ------------------------------------------------------------------ *)
Lemma save_is_three_way_merge :
  forall p st st', pc (procs st p) = PSave -> step p st = Some st' ->
    let pr := procs st p in
    disk (sh st') = merge3 (at_load pr) (names pr) (disk (sh st)) /\
    at_load (procs st' p) = disk (sh st') /\ names (procs st' p) = disk (sh st') /\
    (forall n, In n (disk (sh st')) <->
       (In n (disk (sh st)) /\ ~ (In n (at_load pr) /\ ~ In n (names pr)))   (* kept: on disk, not deleted by p *)
       \/ (In n (names pr) /\ ~ In n (at_load pr))).                         (* added by p *)
Proof.
  intros p st st' Hpc Hst. unfold step, step_proc in Hst. rewrite Hpc in Hst.
  inversion Hst; subst; clear Hst. cbn [sh procs disk]. unfold upd. rewrite Nat.eqb_refl. cbn.
  repeat split; try reflexivity; apply merge3_In.
Qed.

(* pack-names changes only in a PSave step, and only the lock holder gets there *)
Lemma disk_changes_only_at_save :
  forall p st st', step p st = Some st' -> pc (procs st p) <> PSave -> disk (sh st') = disk (sh st).
Proof.
  intros p st st' Hst Hpc. unfold step in Hst.
  destruct (step_proc p (sh st) (procs st p)) as [[s' pr']|] eqn:E; [|discriminate].
  inversion Hst; subst; clear Hst. cbn [sh].
  unfold step_proc in E. destruct (sh st) as [d pk ob lk cm cr co] eqn:Es.
  destruct (pc (procs st p)) eqn:Ek; try congruence;
    repeat match type of E with
           | context [match ?x with _ => _ end] => destruct x eqn:?
           | context [if ?x then _ else _] => destruct x eqn:?
           end; inversion E; subst; cbn; try reflexivity;
    unfold create_pack; cbn; reflexivity.
Qed.

(* ------------------------------------------------------------------ *)
(* 2. the invariant                                                     *)
(* ------------------------------------------------------------------ *)
Definition presave (k : pcT) : bool :=
  match k with PClear | PUnlock | PObs | PObsMore | PDone | PFail => false | _ => true end.
Definition postsave (k : pcT) : bool :=
  match k with PClear | PUnlock | PObs | PObsMore => true | _ => false end.
Definition lockphase (k : pcT) : bool :=
  match k with PLock | PSave => true | _ => false end.

(* names a process has ever been told about *)
Definition knownP (pr : proc) (n : pname) : Prop :=
  In n (at_load pr) \/ In n (names pr) \/ In n (plan pr).
(* names only this process knows: produced by it and not yet listed *)
Definition privP (pr : proc) (n : pname) : Prop :=
  presave (pc pr) = true /\ (In n (names pr) \/ In n (plan pr)) /\ ~ In n (at_load pr).

Record GoodP (s : shared) (pr : proc) : Prop := {
  gp_created : forall n, knownP pr n -> In n (created s);
  gp_todo : incl (todo pr) (plan pr);
  gp_priv : forall n, privP pr n -> ~ In n (disk s);
  gp_fresh : presave (pc pr) = true ->
             forall n, In n (names pr) -> ~ In n (at_load pr) -> In n (packs s);
  gp_del : presave (pc pr) = true ->
           forall n, In n (at_load pr) -> ~ In n (names pr) ->
           forall r, In r (revs n) -> exists y, In y (names pr) /\ ~ In y (at_load pr) /\ In r (revs y);
  gp_pend : presave (pc pr) = true ->
            forall r, In r (pend pr) -> exists y, In y (names pr) /\ ~ In y (at_load pr) /\ In r (revs y);
  gp_post : postsave (pc pr) = true -> forall n, In n (plan pr) -> ~ In n (disk s);
  gp_plan_names : lockphase (pc pr) = true -> forall n, In n (plan pr) -> ~ In n (names pr)
}.

Record GoodS (s : shared) : Prop := {
  gs_present : incl (disk s) (packs s);
  gs_cov : forall r, In r (committed s) -> covered (disk s) r;
  gs_dcreated : incl (disk s) (created s);
  gs_pcreated : incl (packs s) (created s)
}.

Record Good (st : sys) : Prop := {
  g_shared : GoodS (sh st);
  g_proc : forall p, GoodP (sh st) (procs st p);
  g_excl : forall p q n, p <> q -> privP (procs st p) n -> ~ knownP (procs st q) n
}.

Definition Inv (st : sys) : Prop := collided (sh st) = false -> Good st.

Lemma good_assemble :
  forall st p s' pr',
    Good st -> GoodS s' -> GoodP s' pr' ->
    (forall q, q <> p -> GoodP s' (procs st q)) ->
    (forall q n, q <> p -> privP pr' n -> ~ knownP (procs st q) n) ->
    (forall q n, q <> p -> privP (procs st q) n -> ~ knownP pr' n) ->
    Good (Sys s' (upd (procs st) p pr')).
Proof.
  intros st p s' pr' HG HS HP HQ H1 H2. constructor; cbn [sh procs].
  - exact HS.
  - intro q. unfold upd. destruct (Nat.eqb_spec q p); [exact HP | apply HQ; assumption].
  - intros a b n Hab. unfold upd.
    destruct (Nat.eqb_spec a p), (Nat.eqb_spec b p); subst.
    + congruence.
    + apply H1; auto.
    + apply H2; auto.
    + apply (g_excl _ HG); assumption.
Qed.

(* other processes are unaffected by a step that only adds to created/packs and does not touch disk *)
Lemma goodP_frame :
  forall s s' pr, GoodP s pr ->
    incl (created s) (created s') -> incl (disk s') (disk s) -> incl (packs s) (packs s') ->
    GoodP s' pr.
Proof.
  intros s s' pr [A B C D E F G H] Hc Hd Hp. constructor; auto.
  - intros n Hn Hi. apply (C n Hn). apply Hd; exact Hi.
  - intros Hk n Hn Hi. apply (G Hk n Hn). apply Hd; exact Hi.
Qed.

Lemma goodP_set_pc :
  forall s pr k, GoodP s pr ->
    (presave k = true -> presave (pc pr) = true) ->
    (postsave k = true -> postsave (pc pr) = true) ->
    (lockphase k = true -> lockphase (pc pr) = true \/ plan pr = []) ->
    GoodP s (set_pc pr k).
Proof.
  intros s pr k [A B C D E F G H] H1 H2 H3. constructor; cbn.
  - exact A.
  - exact B.
  - intros n [Hk Hn]. cbn in *. apply C. split; auto.
  - intros Hk. apply D; auto.
  - intros Hk. apply E; auto.
  - intros Hk. apply F; auto.
  - intros Hk. apply G; auto.
  - intros Hk n Hn. destruct (H3 Hk) as [Hl|Hl]; [apply H; auto | rewrite Hl in Hn; destruct Hn].
Qed.

Lemma privP_set_pc : forall pr k n,
  (presave k = true -> presave (pc pr) = true) -> privP (set_pc pr k) n -> privP pr n.
Proof. intros pr k n H [A B]. cbn in *. split; auto. Qed.

Lemma knownP_set_pc : forall pr k n, knownP (set_pc pr k) n <-> knownP pr n.
Proof. intros; unfold knownP; cbn; reflexivity. Qed.

Lemma create_pack_created : forall s n, incl (created s) (created (create_pack s n)).
Proof. intros s n x Hx; unfold create_pack; cbn. destruct (inb n (created s)); [exact Hx | right; exact Hx]. Qed.
Lemma create_pack_packs : forall s n, incl (packs s) (packs (create_pack s n)).
Proof. intros s n x Hx; unfold create_pack; cbn. destruct (inb n (packs s)); [exact Hx | right; exact Hx]. Qed.
Lemma create_pack_in_packs : forall s n, In n (packs (create_pack s n)).
Proof. intros s n; unfold create_pack; cbn. destruct (inb n (packs s)) eqn:E; [apply inb_In; exact E | left; reflexivity]. Qed.
Lemma create_pack_in_created : forall s n, In n (created (create_pack s n)).
Proof. intros s n; unfold create_pack; cbn. destruct (inb n (created s)) eqn:E; [apply inb_In; exact E | left; reflexivity]. Qed.
Lemma create_pack_created_inv : forall s n x, In x (created (create_pack s n)) -> x = n \/ In x (created s).
Proof. intros s n x; unfold create_pack; cbn. destruct (inb n (created s)); [auto | intros [H|H]; auto]. Qed.

Lemma goodS_create : forall s n, GoodS s -> GoodS (create_pack s n).
Proof.
  intros s n [A B C D]. constructor.
  - intros x Hx. apply create_pack_packs. apply A. exact Hx.
  - exact B.
  - intros x Hx. apply create_pack_created. apply C. exact Hx.
  - intros x Hx. unfold create_pack in *; cbn in *.
    destruct (inb n (packs s)) eqn:E1; destruct (inb n (created s)) eqn:E2; cbn in *.
    + auto.
    + right; auto.
    + destruct Hx as [Hx|Hx]; [subst; apply inb_In; exact E2 | auto].
    + destruct Hx as [Hx|Hx]; [left; exact Hx | right; auto].
Qed.

Lemma privP_known : forall pr n, privP pr n -> knownP pr n.
Proof. intros pr n [_ [[H|H] _]]; unfold knownP; auto. Qed.

Ltac inv_some E := inversion E; subst; clear E.

Section StepGood.
  Variable st : sys.
  Variable p : nat.
  Hypothesis HG : Good st.
  Let s := sh st.
  Let pr := procs st p.
  Let HS : GoodS s := g_shared _ HG.
  Let HP : GoodP s pr := g_proc _ HG p.

  Lemma others_frame : forall s',
    incl (created s) (created s') -> incl (disk s') (disk s) -> incl (packs s) (packs s') ->
    forall q, q <> p -> GoodP s' (procs st q).
  Proof. intros s' H1 H2 H3 q _. eapply goodP_frame; eauto. apply (g_proc _ HG q). Qed.

  Lemma others_same : forall q, q <> p -> GoodP s (procs st q).
  Proof. intros q _. apply (g_proc _ HG q). Qed.

  (* ---- PStart ---- *)
  Lemma good_start : forall k, presave k = true -> postsave k = false ->
    Good (Sys s (upd (procs st) p (Proc (prole pr) k (disk s) (disk s) [] [] false [] [] (reloads pr)))).
  Proof.
    intros k Hk Hk2. apply good_assemble; auto using others_same.
    - constructor; cbn.
      + intros n [H|[H|[]]]; apply (gs_dcreated _ HS); exact H.
      + apply incl_refl.
      + intros n [_ [[H|[]] Hn]]; contradiction.
      + intros _ n H Hn; contradiction.
      + intros _ n H Hn; contradiction.
      + intros _ r [].
      + rewrite Hk2; discriminate.
      + intros _ n [].
    - intros q n Hq [_ [[H|[]] Hn]]; cbn in *; contradiction.
    - intros q n Hq Hpq [H|[H|[]]]; cbn in H; apply (gp_priv _ _ (g_proc _ HG q) n Hpq H).
  Qed.

  (* ---- steps that change only local fields (pc, plan drawn from names, todo, ...)
          and possibly the lock / the obsolete directory ---- *)
  Lemma goodS_lock_obsd : forall ob lk,
    GoodS (Shared (disk s) (packs s) ob lk (committed s) (created s) (collided s)).
  Proof. destruct HS as [A B C D]. intros; constructor; cbn; auto. Qed.

  Lemma goodP_lock_obsd : forall ob lk pr0, GoodP s pr0 ->
    GoodP (Shared (disk s) (packs s) ob lk (committed s) (created s) (collided s)) pr0.
  Proof. intros ob lk pr0 [A B C D E F G H]; constructor; cbn; auto. Qed.

  Lemma good_local : forall ob lk k pl td c pe se rl,
    incl td pl ->
    (forall n, In n pl -> In n (names pr) \/ In n (plan pr)) ->
    (presave k = true -> presave (pc pr) = true /\ incl pe (pend pr)) ->
    (postsave k = true -> postsave (pc pr) = true /\ incl pl (plan pr)) ->
    (lockphase k = true -> (lockphase (pc pr) = true /\ incl pl (plan pr)) \/ pl = []) ->
    Good (Sys (Shared (disk s) (packs s) ob lk (committed s) (created s) (collided s))
              (upd (procs st) p (Proc (prole pr) k (at_load pr) (names pr) pl td c pe se rl))).
  Proof.
    intros ob lk k pl td c pe se rl Htd Hpl H1 H2 H3.
    assert (Hkn : forall n, knownP (Proc (prole pr) k (at_load pr) (names pr) pl td c pe se rl) n -> knownP pr n).
    { intros n [H|[H|H]]; cbn in H; unfold knownP; auto; try (destruct (Hpl n H); auto). }
    assert (Hpv : forall n, privP (Proc (prole pr) k (at_load pr) (names pr) pl td c pe se rl) n -> privP pr n).
    { intros n [Hk [Hn Ha]]; cbn in *. destruct (H1 Hk) as [Hk' _]. split; [exact Hk'|]. split; [|exact Ha].
      destruct Hn as [Hn|Hn]; auto. }
    destruct HP as [A B C D E F G H].
    apply good_assemble; auto.
    - apply goodS_lock_obsd.
    - apply goodP_lock_obsd. constructor; cbn.
      + intros n Hn. apply A. apply Hkn. exact Hn.
      + exact Htd.
      + intros n Hn. apply C. apply Hpv. exact Hn.
      + intros Hk. apply D. apply H1; exact Hk.
      + intros Hk. apply E. apply H1; exact Hk.
      + intros Hk r Hr. destruct (H1 Hk) as [Hk' Hi]. apply F; auto.
      + intros Hk n Hn. destruct (H2 Hk) as [Hk' Hi]. apply G; auto.
      + intros Hk n Hn. destruct (H3 Hk) as [[Hk' Hi]|Hl]; [apply H; auto | subst pl; destruct Hn].
    - intros q Hq. apply goodP_lock_obsd. apply (g_proc _ HG q).
    - intros q n Hq Hpn. apply (g_excl _ HG p q n); auto.
    - intros q n Hq Hpn Hk. apply (g_excl _ HG q p n); auto.
  Qed.

  (* ---- PReload ---- *)
  Lemma good_reload : forall k, presave (pc pr) = true ->
    let m := merge3 (at_load pr) (names pr) (disk s) in
    Good (Sys s (upd (procs st) p (Proc (prole pr) k (disk s) m [] [] false (pend pr) (seen pr) (S (reloads pr))))).
  Proof.
    intros k Hk m. destruct HP as [A B C D E F G H].
    assert (Hm : forall n, In n m -> In n (disk s) \/ (In n (names pr) /\ ~ In n (at_load pr))).
    { intros n Hn. apply merge3_In in Hn. destruct Hn as [[Hn _]|Hn]; auto. }
    assert (Hnew : forall y, In y (names pr) -> ~ In y (at_load pr) -> In y m /\ ~ In y (disk s)).
    { intros y Hy Ha. split; [apply merge3_In; right; auto|]. apply C. split; auto. }
    apply good_assemble; auto using others_same.
    - constructor; cbn.
      + intros n [Hn|[Hn|[]]]; [apply (gs_dcreated _ HS); exact Hn|].
        destruct (Hm n Hn) as [Hd|[Hd _]]; [apply (gs_dcreated _ HS); exact Hd | apply A; unfold knownP; auto].
      + apply incl_refl.
      + intros n [_ [_ Hn]]; exact Hn.
      + intros _ n Hn Hd. destruct (Hm n Hn) as [Hd'|[Hn' Ha]]; [contradiction | apply D; auto].
      + intros _ n Hd Hn r Hr.
        assert (Hdel : In n (at_load pr) /\ ~ In n (names pr)).
        { destruct (In_dec_pn n (at_load pr)) as [Ha|Ha]; destruct (In_dec_pn n (names pr)) as [Hc|Hc]; auto;
            exfalso; apply Hn; apply merge3_In; left; split; auto; intros [X Y]; auto. }
        destruct Hdel as [Ha Hc]. destruct (E Hk n Ha Hc r Hr) as [y [Hy [Hya Hyr]]].
        exists y. destruct (Hnew y Hy Hya). auto.
      + intros _ r Hr. destruct (F Hk r Hr) as [y [Hy [Hya Hyr]]].
        exists y. destruct (Hnew y Hy Hya). auto.
      + intros _ n [].
      + intros _ n [].
    - intros q n Hq [_ [[Hn|[]] Hd]]; cbn in *. destruct (Hm n Hn) as [Hd'|[Hn' Ha]]; [contradiction|].
      apply (g_excl _ HG p q n); auto. split; auto.
    - intros q n Hq Hpn [Hn|[Hn|[]]]; cbn in Hn.
      + apply (gp_priv _ _ (g_proc _ HG q) n Hpn Hn).
      + destruct (Hm n Hn) as [Hd'|[Hn' Ha]].
        * apply (gp_priv _ _ (g_proc _ HG q) n Hpn Hd').
        * apply (g_excl _ HG q p n); auto. unfold knownP; auto.
  Qed.

  (* ---- PAdd : the commit's new pack x appears in packs/ ---- *)
  Lemma good_add : forall rs, presave (pc pr) = true ->
    let x := PN (norm rs) false in
    inb x (created s) = false ->
    Good (Sys (create_pack s x)
              (upd (procs st) p (Proc (prole pr) PMkPlan (at_load pr) (names pr ++ [x]) [] [] false rs (seen pr) (reloads pr)))).
  Proof.
    intros rs Hk x Hx. apply inb_false in Hx. destruct HP as [A B C D E F G H].
    assert (Hxa : ~ In x (at_load pr)) by (intro Hi; apply Hx; apply A; unfold knownP; auto).
    apply good_assemble; auto.
    - apply goodS_create; exact HS.
    - constructor; cbn.
      + intros n [Hn|[Hn|[]]].
        * apply create_pack_created. apply A. unfold knownP; auto.
        * apply in_app_iff in Hn. destruct Hn as [Hn|[Hn|[]]].
          -- apply create_pack_created. apply A. unfold knownP; auto.
          -- subst n. apply create_pack_in_created.
      + apply incl_refl.
      + intros n [_ [[Hn|[]] Ha]]. apply in_app_iff in Hn. destruct Hn as [Hn|[Hn|[]]].
        * apply C. split; auto.
        * subst n. intro Hd. apply Hx. apply (gs_dcreated _ HS). exact Hd.
      + intros _ n Hn Ha. apply in_app_iff in Hn. destruct Hn as [Hn|[Hn|[]]].
        * apply create_pack_packs. apply D; auto.
        * subst n. apply create_pack_in_packs.
      + intros _ n Ha Hn r Hr.
        assert (Hn' : ~ In n (names pr)) by (intro Hi; apply Hn; apply in_app_iff; auto).
        destruct (E Hk n Ha Hn' r Hr) as [y [Hy [Hya Hyr]]]. exists y. split; [apply in_app_iff; auto | auto].
      + intros _ r Hr. exists x. split; [apply in_app_iff; right; left; reflexivity|]. split; [exact Hxa|].
        cbn. apply norm_In. exact Hr.
      + discriminate.
      + intros _ n [].
    - intros q Hq. apply others_frame; auto.
      + apply create_pack_created.
      + apply incl_refl.
      + apply create_pack_packs.
    - intros q n Hq [_ [[Hn|[]] Ha]] Hkq; cbn in *. apply in_app_iff in Hn. destruct Hn as [Hn|[Hn|[]]].
      + apply (g_excl _ HG p q n); auto. split; auto.
      + subst n. apply Hx. apply (gp_created _ _ (g_proc _ HG q)). exact Hkq.
    - intros q n Hq Hpn [Hn|[Hn|[]]]; cbn in Hn.
      + apply (g_excl _ HG q p n); auto. unfold knownP; auto.
      + apply in_app_iff in Hn. destruct Hn as [Hn|[Hn|[]]].
        * apply (g_excl _ HG q p n); auto. unfold knownP; auto.
        * subst n. apply Hx. apply (gp_created _ _ (g_proc _ HG q)). apply privP_known. exact Hpn.
  Qed.

  (* ---- PCreate : the packer's combined pack y appears in packs/ ---- *)
  Lemma good_create : presave (pc pr) = true ->
    let y := repacked (plan pr) in
    inb y (created s) = false ->
    Good (Sys (create_pack s y)
              (upd (procs st) p (Proc (prole pr) PLock (at_load pr) (diff (names pr) (plan pr) ++ [y]) (plan pr) (plan pr)
                                      (clr pr) (pend pr) (seen pr) (reloads pr)))).
  Proof.
    intros Hk y Hy. apply inb_false in Hy. destruct HP as [A B C D E F G H].
    assert (Hya : ~ In y (at_load pr)) by (intro Hi; apply Hy; apply A; unfold knownP; auto).
    assert (Hyp : ~ In y (plan pr)) by (intro Hi; apply Hy; apply A; unfold knownP; auto).
    assert (Hcov : forall y0 r, In y0 (names pr) -> ~ In y0 (at_load pr) -> In r (revs y0) ->
                   exists z, In z (diff (names pr) (plan pr) ++ [y]) /\ ~ In z (at_load pr) /\ In r (revs z)).
    { intros y0 r H0 H0a H0r. destruct (In_dec_pn y0 (plan pr)) as [Hpl|Hpl].
      - exists y. split; [apply in_app_iff; right; left; reflexivity|]. split; [exact Hya|].
        cbn. apply all_revs_In. exists y0; auto.
      - exists y0. split; [apply in_app_iff; left; apply diff_In; auto | auto]. }
    apply good_assemble; auto.
    - apply goodS_create; exact HS.
    - constructor; cbn.
      + intros n [Hn|[Hn|Hn]].
        * apply create_pack_created. apply A. unfold knownP; auto.
        * apply in_app_iff in Hn. destruct Hn as [Hn|[Hn|[]]].
          -- apply diff_In in Hn. apply create_pack_created. apply A. unfold knownP; tauto.
          -- subst n. apply create_pack_in_created.
        * apply create_pack_created. apply A. unfold knownP; auto.
      + apply incl_refl.
      + intros n [_ [Hn Ha]]. destruct Hn as [Hn|Hn].
        * apply in_app_iff in Hn. destruct Hn as [Hn|[Hn|[]]].
          -- apply diff_In in Hn. apply C. split; auto. split; tauto.
          -- subst n. intro Hd. apply Hy. apply (gs_dcreated _ HS). exact Hd.
        * apply C. split; auto.
      + intros _ n Hn Ha. apply in_app_iff in Hn. destruct Hn as [Hn|[Hn|[]]].
        * apply diff_In in Hn. apply create_pack_packs. apply D; tauto.
        * subst n. apply create_pack_in_packs.
      + intros _ n Ha Hn r Hr. destruct (In_dec_pn n (names pr)) as [Hnn|Hnn].
        * (* n was dropped because it is in the plan: y covers it *)
          assert (Hpl : In n (plan pr)).
          { destruct (In_dec_pn n (plan pr)) as [X|X]; auto. exfalso. apply Hn. apply in_app_iff; left. apply diff_In; auto. }
          exists y. split; [apply in_app_iff; right; left; reflexivity|]. split; [exact Hya|].
          cbn. apply all_revs_In. exists n; auto.
        * destruct (E Hk n Ha Hnn r Hr) as [y0 [H0 [H0a H0r]]]. apply (Hcov y0 r); auto.
      + intros _ r Hr. destruct (F Hk r Hr) as [y0 [H0 [H0a H0r]]]. apply (Hcov y0 r); auto.
      + discriminate.
      + intros _ n Hn Hi. apply in_app_iff in Hi. destruct Hi as [Hi|[Hi|[]]].
        * apply diff_In in Hi. tauto.
        * subst n. contradiction.
    - intros q Hq. apply others_frame; auto.
      + apply create_pack_created.
      + apply incl_refl.
      + apply create_pack_packs.
    - intros q n Hq [_ [Hn Ha]] Hkq; cbn in *.
      assert (Hc : In n (names pr) \/ In n (plan pr) \/ n = y).
      { destruct Hn as [Hn|Hn]; auto. apply in_app_iff in Hn. destruct Hn as [Hn|[Hn|[]]]; auto.
        apply diff_In in Hn; tauto. }
      destruct Hc as [Hc|[Hc|Hc]].
      + apply (g_excl _ HG p q n); auto. split; auto.
      + apply (g_excl _ HG p q n); auto. split; auto.
      + subst n. apply Hy. apply (gp_created _ _ (g_proc _ HG q)). exact Hkq.
    - intros q n Hq Hpn [Hn|[Hn|Hn]]; cbn in Hn.
      + apply (g_excl _ HG q p n); auto. unfold knownP; auto.
      + apply in_app_iff in Hn. destruct Hn as [Hn|[Hn|[]]].
        * apply diff_In in Hn. apply (g_excl _ HG q p n); auto. unfold knownP; tauto.
        * subst n. apply Hy. apply (gp_created _ _ (g_proc _ HG q)). apply privP_known. exact Hpn.
      + apply (g_excl _ HG q p n); auto. unfold knownP; auto.
  Qed.

  (* ---- PSave : pack-names := three-way merge ---- *)
  Lemma good_save : pc pr = PSave -> forall k, presave k = false ->
    let m := merge3 (at_load pr) (names pr) (disk s) in
    Good (Sys (Shared m (packs s) (obsd s) (lock s) (committed s ++ pend pr) (created s) (collided s))
              (upd (procs st) p (Proc (prole pr) k m m (plan pr) (todo pr) (clr pr) [] (seen pr) (reloads pr)))).
  Proof.
    intros Hpc k Hk m. destruct HP as [A B C D E F G H].
    assert (Hps : presave (pc pr) = true) by (rewrite Hpc; reflexivity).
    assert (Hlp : lockphase (pc pr) = true) by (rewrite Hpc; reflexivity).
    assert (Hm : forall n, In n m -> In n (disk s) \/ privP pr n).
    { intros n Hn. apply merge3_In in Hn. destruct Hn as [[Hn _]|[Hn Ha]]; auto. right. split; auto. }
    assert (Hnew : forall y, In y (names pr) -> ~ In y (at_load pr) -> In y m).
    { intros y Hy Ha. apply merge3_In; right; auto. }
    assert (Hkeep : forall n r, In n (disk s) -> In r (revs n) -> covered m r).
    { intros n r Hn Hr.
      destruct (In_dec_pn n (at_load pr)) as [Ha|Ha]; destruct (In_dec_pn n (names pr)) as [Hc|Hc];
        try solve [exists n; split; [apply merge3_In; left; split; [exact Hn | intros [X Y]; auto] | exact Hr]].
      destruct (E Hps n Ha Hc r Hr) as [y [Hy [Hya Hyr]]]. exists y. split; auto. }
    assert (Hplan : forall n, In n (plan pr) -> ~ In n m).
    { intros n Hn Hi. apply merge3_In in Hi. assert (Hnn : ~ In n (names pr)) by (apply H; auto).
      destruct Hi as [[Hd Hx]|[Hc _]]; [|contradiction].
      assert (Ha : ~ In n (at_load pr)) by (intro Ha; apply Hx; auto).
      apply (C n); [split; auto | exact Hd]. }
    apply good_assemble; auto.
    - constructor; cbn.
      + intros n Hn. destruct (Hm n Hn) as [Hd|[_ [[Hc|Hc] Ha]]].
        * apply (gs_present _ HS); exact Hd.
        * apply D; auto.
        * exfalso. apply (Hplan n Hc Hn).
      + intros r Hr. apply in_app_iff in Hr. destruct Hr as [Hr|Hr].
        * destruct (gs_cov _ HS r Hr) as [n [Hn Hnr]]. apply (Hkeep n r); auto.
        * destruct (F Hps r Hr) as [y [Hy [Hya Hyr]]]. exists y; split; auto.
      + intros n Hn. destruct (Hm n Hn) as [Hd|Hp]; [apply (gs_dcreated _ HS); exact Hd | apply A; apply privP_known; exact Hp].
      + apply (gs_pcreated _ HS).
    - constructor; cbn.
      + intros n [Hn|[Hn|Hn]]; try (apply A; unfold knownP; auto; fail);
          (destruct (Hm n Hn) as [Hd|Hp]; [apply (gs_dcreated _ HS); exact Hd | apply A; apply privP_known; exact Hp]).
      + exact B.
      + intros n [Hk' _]. cbn in Hk'. congruence.
      + intros Hk'. congruence.
      + intros Hk'. congruence.
      + intros Hk'. congruence.
      + intros _. exact Hplan.
      + intros Hk'. destruct k; cbn in *; congruence.
    - intros q Hq. pose proof (g_proc _ HG q) as [A' B' C' D' E' F' G' H']. constructor; cbn; auto.
      + intros n Hpn Hi. destruct (Hm n Hi) as [Hd|Hp].
        * apply (C' n Hpn Hd).
        * apply (g_excl _ HG p q n); auto. apply privP_known; exact Hpn.
      + intros Hk' n Hn Hi. destruct (Hm n Hi) as [Hd|Hp].
        * apply (G' Hk' n Hn Hd).
        * apply (g_excl _ HG p q n); auto. unfold knownP; auto.
    - intros q n Hq [Hk' _]. cbn in Hk'. congruence.
    - intros q n Hq Hpn [Hn|[Hn|Hn]]; cbn in Hn;
        try (apply (g_excl _ HG q p n); auto; unfold knownP; auto; fail);
        (destruct (Hm n Hn) as [Hd|Hp];
         [apply (gp_priv _ _ (g_proc _ HG q) n Hpn Hd)
         | apply (g_excl _ HG q p n); auto; apply privP_known; exact Hp]).
  Qed.

  (* ---- PObs / PObsMore : one pack moved from packs/ to obsolete_packs/ ---- *)
  Lemma good_obs : postsave (pc pr) = true -> forall n rest k ob, todo pr = n :: rest -> presave k = false ->
    Good (Sys (Shared (disk s) (remove1 n (packs s)) ob (lock s) (committed s) (created s) (collided s))
              (upd (procs st) p (Proc (prole pr) k (at_load pr) (names pr) (plan pr) rest (clr pr) (pend pr) (seen pr) (reloads pr)))).
  Proof.
    intros Hk n rest k ob Htd Hk'. destruct HP as [A B C D E F G H].
    assert (Hnp : In n (plan pr)) by (apply B; rewrite Htd; left; reflexivity).
    assert (Hnd : ~ In n (disk s)) by (apply G; auto).
    apply good_assemble; auto.
    - constructor; cbn.
      + intros x Hx. apply remove1_In. split; [apply (gs_present _ HS); exact Hx | intro; subst; contradiction].
      + apply (gs_cov _ HS).
      + apply (gs_dcreated _ HS).
      + intros x Hx. apply remove1_In in Hx. apply (gs_pcreated _ HS). tauto.
    - constructor; cbn.
      + exact A.
      + intros x Hx. apply B. rewrite Htd. right; exact Hx.
      + intros x [Hk2 _]. cbn in Hk2. congruence.
      + intros Hk2; congruence.
      + intros Hk2; congruence.
      + intros Hk2; congruence.
      + intros _. apply G; exact Hk.
      + intros Hk2. destruct k; cbn in *; congruence.
    - intros q Hq. pose proof (g_proc _ HG q) as [A' B' C' D' E' F' G' H']. constructor; cbn; auto.
      intros Hk2 x Hx Ha. apply remove1_In. split; [apply D'; auto|].
      intro; subst x. apply (g_excl _ HG q p n); auto; [split; auto | unfold knownP; auto].
    - intros q x Hq [Hk2 _]. cbn in Hk2. congruence.
    - intros q x Hq Hpx Hkx. apply (g_excl _ HG q p x); auto.
  Qed.
End StepGood.

Lemma shared_eta : forall s, Shared (disk s) (packs s) (obsd s) (lock s) (committed s) (created s) (collided s) = s.
Proof. destruct s; reflexivity. Qed.

Lemma good_local_same : forall st p, Good st -> forall k pl td c pe se rl,
    let pr := procs st p in
    incl td pl ->
    (forall n, In n pl -> In n (names pr) \/ In n (plan pr)) ->
    (presave k = true -> presave (pc pr) = true /\ incl pe (pend pr)) ->
    (postsave k = true -> postsave (pc pr) = true /\ incl pl (plan pr)) ->
    (lockphase k = true -> (lockphase (pc pr) = true /\ incl pl (plan pr)) \/ pl = []) ->
    Good (Sys (sh st) (upd (procs st) p (Proc (prole pr) k (at_load pr) (names pr) pl td c pe se rl))).
Proof.
  intros st p HG k pl td c pe se rl pr H1 H2 H3 H4 H5.
  pose proof (good_local st p HG (obsd (sh st)) (lock (sh st)) k pl td c pe se rl H1 H2 H3 H4 H5) as X.
  rewrite shared_eta in X. exact X.
Qed.

Ltac side Ek :=
  repeat match goal with
         | |- _ /\ _ => split
         | |- forall _, _ => intro
         end;
  try rewrite Ek; cbn in *; try discriminate; try reflexivity; try tauto; auto using incl_refl.

Lemma step_good : forall p st st', Good st -> step p st = Some st' -> collided (sh st') = false -> Good st'.
Proof.
  intros p st st' HG Hst Hc. unfold step in Hst.
  destruct (step_proc p (sh st) (procs st p)) as [[s' pr']|] eqn:E; [|discriminate].
  inv_some Hst. cbn [sh] in Hc. unfold step_proc in E.
  pose proof (g_proc _ HG p) as HP.
  destruct (pc (procs st p)) eqn:Ek.
  - (* PStart *) inv_some E. apply good_start; auto; destruct (prole (procs st p)); reflexivity.
  - (* PCheck *) inv_some E. unfold set_pc. apply good_local_same; auto; try apply (gp_todo _ _ HP);
      destruct (subset _ _); side Ek.
  - (* PAdd *) destruct (prole (procs st p)) eqn:Er; try discriminate. inv_some E.
    unfold create_pack in Hc; cbn in Hc. apply orb_false_iff in Hc as [_ Hc].
    rewrite <- Er. apply good_add; auto. rewrite Ek; reflexivity.
  - (* PMkPlan *) destruct (prole (procs st p)) eqn:Er; try discriminate; inv_some E; rewrite <- Er.
    + apply good_local_same; auto.
      * intros x [].
      * intros n Hn. left. apply auto_plan_incl in Hn. exact Hn.
      * destruct (auto_plan _); side Ek.
      * destruct (auto_plan _); side Ek.
      * destruct (auto_plan _); side Ek.
    + apply good_local_same; auto.
      * intros x [].
      * destruct (names _); side Ek.
      * destruct (names _); side Ek.
      * destruct (names _); side Ek.
  - (* PPlanRead *)
    destruct (subset _ _).
    + destruct (plan (procs st p)) as [|n [|n2 l]] eqn:Epl.
      * inv_some E. unfold set_pc. apply good_local_same; auto; try apply (gp_todo _ _ HP); side Ek.
      * destruct (pname_eqb _ _).
        -- destruct (prole (procs st p)) eqn:Er; inv_some E; rewrite <- ?Er.
           ++ apply good_local_same; auto; try (intros x []); side Ek.
           ++ unfold set_pc. apply good_local_same; auto; try apply (gp_todo _ _ HP); side Ek.
           ++ unfold set_pc. apply good_local_same; auto; try apply (gp_todo _ _ HP); side Ek.
        -- inv_some E. unfold set_pc. apply good_local_same; auto; try apply (gp_todo _ _ HP); side Ek.
      * inv_some E. unfold set_pc. apply good_local_same; auto; try apply (gp_todo _ _ HP); side Ek.
    + inv_some E. unfold set_pc. apply good_local_same; auto; try apply (gp_todo _ _ HP); side Ek.
  - (* PCreate *)
    destruct (inb (repacked (plan (procs st p))) (names (procs st p))) eqn:Ey; inv_some E;
      unfold create_pack in Hc; cbn in Hc; apply orb_false_iff in Hc as [_ Hc].
    + exfalso. apply inb_false in Hc. apply Hc. apply (gp_created _ _ HP). apply inb_In in Ey. unfold knownP; auto.
    + apply good_create; auto. rewrite Ek; reflexivity.
  - (* PLock *) destruct (lock (sh st)); [discriminate|]. inv_some E. unfold set_pc.
    apply good_local; auto; try apply (gp_todo _ _ HP); side Ek.
  - (* PSave *) inv_some E. apply good_save; auto. destruct (clr _); reflexivity.
  - (* PClear *) inv_some E. apply good_local; auto; side Ek.
    intros x Hx. apply diff_In in Hx. tauto.
  - (* PUnlock *) inv_some E. unfold set_pc. apply good_local; auto; try apply (gp_todo _ _ HP);
      destruct (todo _); side Ek.
  - (* PObs *) destruct (todo (procs st p)) as [|n rest] eqn:Etd.
    + inv_some E. unfold set_pc. rewrite Etd. apply good_local_same; auto; try (intros x []); side Ek.
    + inv_some E. destruct (inb n (packs (sh st))).
      * apply good_obs; auto; [rewrite Ek; reflexivity | destruct rest; reflexivity].
      * apply good_local_same; auto.
        -- intros x Hx. apply (gp_todo _ _ HP). rewrite Etd. right; exact Hx.
        -- destruct rest; side Ek.
        -- destruct rest; side Ek.
        -- destruct rest; side Ek.
  - (* PObsMore *) destruct (todo (procs st p)) as [|n rest] eqn:Etd.
    + inv_some E. unfold set_pc. rewrite Etd. apply good_local_same; auto; try (intros x []); side Ek.
    + inv_some E. destruct (inb n (packs (sh st))).
      * apply good_obs; auto; [rewrite Ek; reflexivity | destruct rest; reflexivity].
      * apply good_local_same; auto.
        -- intros x Hx. apply (gp_todo _ _ HP). rewrite Etd. right; exact Hx.
        -- destruct rest; side Ek.
        -- destruct rest; side Ek.
        -- destruct rest; side Ek.
  - (* PCount *) inv_some E. unfold set_pc. apply good_local_same; auto; try apply (gp_todo _ _ HP);
      destruct (subset _ _); side Ek.
  - (* PRead *) destruct (subset _ _); inv_some E.
    + apply good_local_same; auto; try (intros x []); side Ek; try apply incl_nil_l.
    + unfold set_pc. apply good_local_same; auto; try apply (gp_todo _ _ HP); side Ek.
  - (* PRead2 *) inv_some E. unfold set_pc. apply good_local_same; auto; try apply (gp_todo _ _ HP);
      destruct (subset _ _); side Ek.
  - (* PRead3 *) inv_some E. unfold set_pc. apply good_local_same; auto; try apply (gp_todo _ _ HP);
      destruct (subset _ _); side Ek.
  - (* PReload *) inv_some E. apply good_reload; auto. rewrite Ek; reflexivity.
  - discriminate.
  - discriminate.
Qed.

(* ------------------------------------------------------------------ *)
(* 3. main theorems                                                     *)
(* ------------------------------------------------------------------ *)
Lemma collided_mono : forall p st st', step p st = Some st' ->
  collided (sh st') = false -> collided (sh st) = false.
Proof.
  intros p st st' Hst Hc. unfold step in Hst.
  destruct (step_proc p (sh st) (procs st p)) as [[s' pr']|] eqn:E; [|discriminate].
  inv_some Hst. cbn [sh] in Hc. unfold step_proc in E.
  destruct (pc (procs st p));
    repeat match type of E with
           | context [match ?x with _ => _ end] => destruct x eqn:?
           | context [if ?x then _ else _] => destruct x eqn:?
           end; try discriminate; inv_some E; cbn in Hc; try exact Hc;
    try (apply orb_false_iff in Hc as [Hc _]; exact Hc).
Qed.

Lemma inv_step : forall p st st', Inv st -> step p st = Some st' -> Inv st'.
Proof.
  intros p st st' HI Hst Hc. eapply step_good; eauto. apply HI. eapply collided_mono; eauto.
Qed.

(* initial states: any repository whose listed packs are present, any number of fresh processes *)
Definition init_ok (st : sys) : Prop :=
  incl (disk (sh st)) (packs (sh st)) /\
  (forall r, In r (committed (sh st)) -> covered (disk (sh st)) r) /\
  incl (disk (sh st)) (created (sh st)) /\ incl (packs (sh st)) (created (sh st)) /\
  (forall p, (exists r, procs st p = fresh_proc r) \/ procs st p = idle).

Lemma goodP_empty : forall s pr,
  at_load pr = [] -> names pr = [] -> plan pr = [] -> todo pr = [] -> pend pr = [] -> GoodP s pr.
Proof.
  intros s pr Ha Hn Hp Ht He. constructor; unfold knownP, privP; rewrite ?Ha, ?Hn, ?Hp, ?Ht, ?He; cbn;
    try tauto; try (intros; contradiction); try apply incl_refl.
Qed.

Lemma init_good : forall st, init_ok st -> Good st.
Proof.
  intros st [H1 [H2 [H3 [H4 H5]]]]. constructor.
  - constructor; auto.
  - intro p. destruct (H5 p) as [[r Hr]|Hr]; rewrite Hr; apply goodP_empty; reflexivity.
  - intros p q n _ [_ [Hn _]]. exfalso. destruct (H5 p) as [[r Hp]|Hp]; rewrite Hp in Hn; cbn in Hn; tauto.
Qed.

Lemma init_sys_ok : forall base rs, init_ok (init_sys base rs).
Proof.
  intros base rs. unfold init_ok, init_sys; cbn. repeat split; try apply incl_refl.
  - intros r Hr. apply in_flat_map in Hr. exact Hr.
  - intro p. unfold mk_procs. destruct (nth_error rs p); [left; eexists; reflexivity | right; reflexivity].
Qed.

Theorem invariant_any_schedule : forall st0 sched, init_ok st0 -> Inv (run step sched st0).
Proof.
  intros st0 sched H0. apply run_invariant with (Inv := Inv).
  - intros p s s'. apply inv_step.
  - intros _. apply init_good. exact H0.
Qed.

(* every committed revision is contained in a pack that is listed in pack-names and present in packs/,
   in every state reachable by any schedule of any number of processes -- provided no operation
   produced a pack file whose name already existed *)
Theorem committed_never_lost_guarded :
  forall st0 sched, init_ok st0 ->
    let st := run step sched st0 in
    collided (sh st) = false ->
    incl (disk (sh st)) (packs (sh st)) /\
    (forall r, In r (committed (sh st)) ->
       exists n, In n (disk (sh st)) /\ In n (packs (sh st)) /\ In r (revs n)).
Proof.
  intros st0 sched H0 st Hc. pose proof (invariant_any_schedule st0 sched H0 Hc) as HG.
  destruct (g_shared _ HG) as [A B C D]. split; [exact A|].
  intros r Hr. destruct (B r Hr) as [n [Hn Hnr]]. exists n. auto.
Qed.

(* a process whose pack vanished reloads: its new view is entirely present and covers every
   committed revision (so the retried read finds the data) *)
Theorem reload_recovers_guarded :
  forall st0 sched p k, init_ok st0 ->
    let st := run step sched st0 in
    collided (sh st) = false -> pc (procs st p) = PReload k ->
    exists st', step p st = Some st' /\ sh st' = sh st /\
      names (procs st' p) = merge3 (at_load (procs st p)) (names (procs st p)) (disk (sh st)) /\
      at_load (procs st' p) = disk (sh st) /\
      incl (names (procs st' p)) (packs (sh st')) /\
      (forall r, In r (committed (sh st')) -> covered (names (procs st' p)) r).
Proof.
  intros st0 sched p k H0 st Hc Hpc. pose proof (invariant_any_schedule st0 sched H0 Hc) as HG.
  fold st in HG. destruct (g_shared _ HG) as [A B C D]. destruct (g_proc _ HG p) as [A' B' C' D' E' F' G' H'].
  assert (Hps : presave (pc (procs st p)) = true) by (rewrite Hpc; reflexivity).
  unfold step, step_proc. rewrite Hpc. eexists. split; [reflexivity|]. cbn [sh procs]. unfold upd. rewrite Nat.eqb_refl. cbn.
  repeat split.
  - intros n Hn. apply merge3_In in Hn. destruct Hn as [[Hn _]|[Hn Ha]]; [apply A; exact Hn | apply D'; auto].
  - intros r Hr. destruct (B r Hr) as [n [Hn Hnr]].
    destruct (In_dec_pn n (at_load (procs st p))) as [Ha|Ha]; destruct (In_dec_pn n (names (procs st p))) as [Hc'|Hc'];
      try solve [exists n; split; [apply merge3_In; left; split; [exact Hn | intros [X Y]; auto] | exact Hnr]].
    destruct (E' Hps n Ha Hc' r Hnr) as [y [Hy [Hya Hyr]]]. exists y. split; [apply merge3_In; right; auto | exact Hyr].
Qed.

(* ------------------------------------------------------------------ *)
(* 4. the unguarded statement is false: two packers produce the identical pack Y,
      a third operation repacks Y away in between, the slow packer re-lists Y and
      then deletes it from obsolete_packs/                                        *)
(* ------------------------------------------------------------------ *)
Definition is_done (k : pcT) : bool := match k with PDone => true | _ => false end.
Definition witness_base : list (list nat) := [[0;1;2;3;4;5;6;7]; [8]].
Definition witness_roles : list role := [RPack; RPack; RCommit [10]].
Definition witness_sched : list nat :=
  [1;1;1;1;1] ++ repeat 0 14 ++ repeat 2 20 ++ repeat 1 10.
Definition witness_final : sys := run step witness_sched (init_sys witness_base witness_roles).
Definition witness_pack : pname := PN [0;1;2;3;4;5;6;7;8] true.

Definition covb (l : list pname) (r : nat) : bool := existsb (fun n => existsb (Nat.eqb r) (revs n)) l.
Lemma covb_covered : forall l r, covb l r = true -> covered l r.
Proof.
  intros l r H. unfold covb in H. apply existsb_exists in H. destruct H as [n [Hn H]].
  apply existsb_exists in H. destruct H as [x [Hx He]]. apply Nat.eqb_eq in He. subst x. exists n; auto.
Qed.

Lemma witness_facts :
    (forall p, p < 3 -> pc (procs witness_final p) = PDone) /\
    (exists n, In n (disk (sh witness_final)) /\ ~ In n (packs (sh witness_final)) /\ ~ In n (obsd (sh witness_final))) /\
    (forall r, In r (committed (sh witness_final)) -> covered (disk (sh witness_final)) r).
Proof.
  split; [|split].
  - intros p Hp.
    assert (Hb : forallb (fun q => is_done (pc (procs witness_final q))) [0;1;2] = true) by (vm_compute; reflexivity).
    rewrite forallb_forall in Hb.
    assert (Hin : In p [0;1;2]) by (destruct p as [|[|[|p]]]; [left|right; left|right; right; left|lia]; reflexivity).
    specialize (Hb p Hin). destruct (pc (procs witness_final p)); try discriminate. reflexivity.
  - exists witness_pack. split; [|split].
    + apply (proj1 (inb_In witness_pack (disk (sh witness_final)))). vm_compute. reflexivity.
    + apply (proj1 (inb_false witness_pack (packs (sh witness_final)))). vm_compute. reflexivity.
    + apply (proj1 (inb_false witness_pack (obsd (sh witness_final)))). vm_compute. reflexivity.
  - intros r Hr.
    assert (Hb : forallb (covb (disk (sh witness_final))) (committed (sh witness_final)) = true) by (vm_compute; reflexivity).
    exact (covb_covered (disk (sh witness_final)) r
             (proj1 (forallb_forall (covb (disk (sh witness_final))) (committed (sh witness_final))) Hb r Hr)).
Qed.

Theorem listed_present_refuted :
  exists base roles sched st,
    st = run step sched (init_sys base roles) /\
    (forall p, p < List.length roles -> pc (procs st p) = PDone) /\     (* every operation reported success *)
    (exists n, In n (disk (sh st)) /\ ~ In n (packs (sh st)) /\ ~ In n (obsd (sh st))) /\
    (forall r, In r (committed (sh st)) -> covered (disk (sh st)) r).   (* ... although no revision is unlisted *)
Proof.
  exists witness_base, witness_roles, witness_sched, witness_final.
  split; [unfold witness_final; reflexivity | exact witness_facts].
Qed.

Example witness_collided : collided (sh witness_final) = true.
Proof. vm_compute. reflexivity. Qed.

(* the hypotheses of the guarded theorem are satisfiable by a non-trivial run *)
Example guarded_nontrivial :
  let st := run step ([0;0;0;0] ++ repeat 1 14 ++ repeat 0 14) (init_sys witness_base [RCommit [10]; RPack]) in
  collided (sh st) = false /\ pc (procs st 0) = PDone /\ pc (procs st 1) = PDone /\
  reloads (procs st 0) = 1 /\ committed (sh st) = [0;1;2;3;4;5;6;7;8;10] /\
  map revs (disk (sh st)) = [[0;1;2;3;4;5;6;7;8;10]].
Proof. vm_compute. repeat split; reflexivity. Qed.

(* ------------------------------------------------------------------ *)
(* 5. the ghost [committed] is what the committers did: a committer that has
      written pack-names (in particular one that finished) has all its revisions in it *)
(* ------------------------------------------------------------------ *)
Fixpoint afteradd (k : pcT) : bool :=
  match k with PMkPlan | PPlanRead | PCreate | PLock | PSave => true | PReload k' => afteradd k' | _ => false end.
Fixpoint saved (k : pcT) : bool :=
  match k with PClear | PUnlock | PObs | PObsMore | PDone => true | PReload k' => saved k' | _ => false end.
Fixpoint noread (k : pcT) : bool :=
  match k with PCount | PRead | PRead2 | PRead3 => false | PReload k' => noread k' | _ => true end.

Definition Link (st : sys) : Prop :=
  forall q rs, prole (procs st q) = RCommit rs ->
    noread (pc (procs st q)) = true /\
    (afteradd (pc (procs st q)) = true -> pend (procs st q) = rs) /\
    (saved (pc (procs st q)) = true -> incl rs (committed (sh st))).

Ltac destruct_step E :=
  repeat match type of E with
         | context [match ?x with _ => _ end] => destruct x eqn:?
         | context [if ?x then _ else _] => destruct x eqn:?
         end.

Lemma committed_mono_step : forall p st st', step p st = Some st' ->
  incl (committed (sh st)) (committed (sh st')).
Proof.
  intros p st st' Hst. unfold step in Hst.
  destruct (step_proc p (sh st) (procs st p)) as [[s' pr']|] eqn:E; [|discriminate].
  inv_some Hst. cbn [sh]. unfold step_proc in E.
  destruct (pc (procs st p)); destruct_step E; try discriminate; inv_some E; cbn;
    try apply incl_refl; try apply incl_appl, incl_refl.
Qed.

Lemma step_proc_role : forall p s pr s' pr', step_proc p s pr = Some (s', pr') -> prole pr' = prole pr.
Proof.
  intros p s pr s' pr' E. unfold step_proc in E.
  destruct (pc pr); destruct_step E; try discriminate; inv_some E; cbn; congruence.
Qed.

Lemma link_step : forall p st st', Link st -> step p st = Some st' -> Link st'.
Proof.
  intros p st st' HL Hst q rs Hr. pose proof (committed_mono_step _ _ _ Hst) as Hmono.
  unfold step in Hst.
  destruct (step_proc p (sh st) (procs st p)) as [[s' pr']|] eqn:E; [|discriminate].
  inv_some Hst. cbn [sh procs] in *. unfold upd in *.
  destruct (Nat.eqb_spec q p) as [->|Hq].
  - rewrite (step_proc_role _ _ _ _ _ E) in Hr. destruct (HL p rs Hr) as [H0 [H1 H2]]. clear HL.
    destruct (procs st p) as [ro k al nm pl td c pe se rl]. cbn in *. subst ro.
    unfold step_proc in E; cbn in E.
    destruct k; destruct_step E; try discriminate; inv_some E; cbn in *;
      repeat split; intros; try discriminate; try reflexivity; auto;
      try (rewrite (H1 eq_refl); apply incl_appr, incl_refl).
  - destruct (HL q rs Hr) as [H0 [H1 H2]]. repeat split; auto. intros Hs. eapply incl_tran; [apply H2; exact Hs | exact Hmono].
Qed.

Lemma link_init : forall st, (forall p, (exists r, procs st p = fresh_proc r) \/ procs st p = idle) -> Link st.
Proof.
  intros st H q rs Hr. destruct (H q) as [[r Hp]|Hp]; rewrite Hp in *; cbn in *; [|discriminate].
  repeat split; intros; discriminate.
Qed.

Theorem finished_commit_is_committed :
  forall st0 sched q rs, init_ok st0 ->
    let st := run step sched st0 in
    prole (procs st q) = RCommit rs -> pc (procs st q) = PDone ->
    incl rs (committed (sh st)).
Proof.
  intros st0 sched q rs H0 st Hr Hpc.
  assert (HL : Link st).
  { apply run_invariant with (Inv := Link).
    - intros p s s'. apply link_step.
    - apply link_init. apply H0. }
  destruct (HL q rs Hr) as [_ [_ H2]]. apply H2. rewrite Hpc. reflexivity.
Qed.
