(* Theory/RepoFetch.v -- facts about Model/RepoFetch.v (C03, C08).

   Main results, for every well-formed universe (unbounded history, ghosts,
   merges), every target / fallback content and both search modes:
   - [missing_full_spec], [missing_walk_spec]: what the two searches request;
     [walk_eq_full_closed]: they coincide on a target closed under parents;
   - [fetch_complete], [fetch_preserves], [fetch_idempotent], [fetch_keeps_full]
     (C03) and the refutations of completeness / fullness for find_ghosts=False
     into a target that has a ghost the source can fill;
   - [fetch_keeps_complete], [commit_keeps_complete], [complete_readable] (C08). *)
From Coq Require Import List Arith Bool Lia.
From BV Require Import Lib.Dag Theory.DagFacts Model.RepoFetch.
Import ListNotations.

(* ---- list-sets of text keys ------------------------------------------------ *)

Lemma tk_eqb_eq a b : tk_eqb a b = true <-> a = b.
Proof.
  unfold tk_eqb. destruct a as [a1 a2], b as [b1 b2]. cbn [fst snd].
  rewrite andb_true_iff, !Nat.eqb_eq. split.
  - intros [-> ->]. reflexivity.
  - intros E. inversion E. auto.
Qed.

Lemma tmemb_In t l : tmemb t l = true <-> In t l.
Proof.
  unfold tmemb. rewrite existsb_exists. split.
  - intros [y [Hy E]]. apply tk_eqb_eq in E. subst. exact Hy.
  - intros H. exists t. split; [exact H | apply tk_eqb_eq; reflexivity].
Qed.

Lemma tmemb_false t l : tmemb t l = false <-> ~ In t l.
Proof. rewrite <- tmemb_In. destruct (tmemb t l); split; congruence. Qed.

Lemma In_tadd x y l : In x (tadd y l) <-> x = y \/ In x l.
Proof.
  unfold tadd. destruct (tmemb y l) eqn:E.
  - apply tmemb_In in E. split; [auto|]. intros [->|H]; assumption.
  - cbn [In]. split; intros [H|H]; auto.
Qed.

Lemma In_tunion x a b : In x (tunion a b) <-> In x a \/ In x b.
Proof.
  unfold tunion. induction a as [|y a IH]; cbn [fold_right In].
  - tauto.
  - rewrite In_tadd, IH. intuition.
Qed.

Lemma In_inv_texts U R t : In t (inv_texts U R) <-> exists r, In r R /\ In t (inv_of U r).
Proof. unfold inv_texts. apply in_flat_map. Qed.

Lemma filter_nil {A} (f : A -> bool) l : (forall x, In x l -> f x = false) -> filter f l = [].
Proof.
  induction l as [|y l IH]; intros H; [reflexivity|]. cbn [filter].
  rewrite (H y (or_introl eq_refl)). apply IH. intros x Hx. apply H. right. exact Hx.
Qed.

(* ---- the universe ------------------------------------------------------------ *)

Lemma srcp_lt U r : srcp U r = true <-> r < length (ug U).
Proof. unfold srcp, present. apply Nat.ltb_lt. Qed.

Lemma srcp_ge U r : srcp U r = false <-> length (ug U) <= r.
Proof. unfold srcp, present. apply Nat.ltb_ge. Qed.

Lemma wf_univ_dag U : wf_univ U = true -> wf_dag (ug U) = true.
Proof. unfold wf_univ. rewrite !andb_true_iff. tauto. Qed.

Lemma inv_of_srcp U r t : wf_univ U = true -> In t (inv_of U r) -> srcp U r = true.
Proof.
  unfold wf_univ. rewrite !andb_true_iff. intros [[_ L] _] H.
  apply Nat.eqb_eq in L. apply srcp_lt. rewrite <- L.
  destruct (Nat.lt_ge_cases r (length (uinv U))) as [Hl|Hl]; [exact Hl|].
  unfold inv_of in H. rewrite nth_overflow in H by exact Hl. contradiction.
Qed.

(* every entry of an inventory is new in that revision or inherited from a parent *)
Lemma wf_univ_entry U r t : wf_univ U = true -> In t (inv_of U r) ->
  snd t = r \/ exists p, In p (parents (ug U) r) /\ srcp U p = true /\ In t (inv_of U p).
Proof.
  intros W H. pose proof (inv_of_srcp U r t W H) as Hr. apply srcp_lt in Hr.
  unfold wf_univ in W. rewrite !andb_true_iff in W. destruct W as [_ W].
  rewrite forallb_forall in W. specialize (W r). rewrite in_seq in W.
  assert (Hin : 0 <= r < 0 + length (ug U)) by lia. specialize (W Hin).
  rewrite forallb_forall in W. specialize (W t H). apply orb_true_iff in W.
  destruct W as [E|E].
  - left. apply Nat.eqb_eq. exact E.
  - right. apply existsb_exists in E. destruct E as [p [Hp E]].
    apply andb_true_iff in E. destruct E as [E1 E2]. exists p.
    split; [exact Hp|]. split; [exact E1 | apply tmemb_In; exact E2].
Qed.

(* a text key only occurs in descendants of the revision that introduced it *)
Lemma text_origin U : wf_univ U = true -> forall r t, In t (inv_of U r) -> reach (ug U) (snd t) r.
Proof.
  intros W r. induction r as [r IH] using lt_wf_ind. intros t H.
  destruct (wf_univ_entry U r t W H) as [E|[p [Hp [Sp Ht]]]].
  - rewrite E. apply reach_refl.
  - apply reach_step with p; [exact Hp|]. apply IH; [|exact Ht].
    destruct (wf_parents (ug U) r p (wf_univ_dag U W) Hp) as [L|L]; [exact L|].
    apply srcp_lt in Sp. lia.
Qed.

Lemma closedb_spec U vis : closedb U vis = true <->
  (forall r p, In r vis -> srcp U r = true -> In p (parents (ug U) r) -> srcp U p = true -> In p vis).
Proof.
  unfold closedb. rewrite forallb_forall. split.
  - intros H r p Hr Sr Hp Sp. specialize (H r Hr). rewrite Sr in H. cbn [negb orb] in H.
    rewrite forallb_forall in H. specialize (H p Hp). rewrite Sp in H. cbn [negb orb] in H.
    apply memb_In. exact H.
  - intros H r Hr. destruct (srcp U r) eqn:Sr; [|reflexivity]. cbn [negb orb].
    apply forallb_forall. intros p Hp. destruct (srcp U p) eqn:Sp; [|reflexivity]. cbn [negb orb].
    apply memb_In. apply (H r p); assumption.
Qed.

(* a closed set contains every existing ancestor of its members *)
Lemma closed_reach U vis : closedb U vis = true ->
  forall a b, reach (ug U) a b -> In b vis -> srcp U a = true -> In a vis.
Proof.
  intros C a b R. induction R as [r | a p r Hp Rap IH]; intros Hb Sa; [exact Hb|].
  apply IH; [|exact Sa].
  destruct (srcp U p) eqn:Sp.
  - rewrite closedb_spec in C. apply (C r p); try assumption.
    apply srcp_lt. apply (parents_present _ _ _ Hp).
  - apply srcp_ge in Sp. pose proof (reach_ghost _ _ _ Sp Rap) as E. subst a. apply srcp_ge in Sp. congruence.
Qed.

Lemma In_anc U r a : wf_dag (ug U) = true -> (In a (anc U r) <-> reach (ug U) a r).
Proof.
  intros W. unfold anc. rewrite (ancestors_spec _ [r] a W). split.
  - intros [s [[<-|[]] R]]. exact R.
  - intros R. exists r. split; [left; reflexivity | exact R].
Qed.

(* ---- what the searches request --------------------------------------------- *)

Lemma missing_full_spec U vis r a : wf_dag (ug U) = true ->
  (In a (missing_full U vis r) <-> reach (ug U) a r /\ srcp U a = true /\ ~ In a vis).
Proof.
  intros W. unfold missing_full. rewrite filter_In, (In_anc U r a W), andb_true_iff, negb_true_iff, memb_false. tauto.
Qed.

Lemma In_haves U vis r h : wf_dag (ug U) = true ->
  (In h (haves U vis r) <-> reach (ug U) h r /\ srcp U h = true /\ In h vis).
Proof.
  intros W. unfold haves. rewrite filter_In, (In_anc U r h W), andb_true_iff, memb_In. tauto.
Qed.

Lemma missing_walk_eq U vis r : missing_walk U vis r = missing_full U vis r.
Proof. reflexivity. Qed.

Lemma missing_walk_spec U vis r a : wf_dag (ug U) = true ->
  (In a (missing_walk U vis r) <-> reach (ug U) a r /\ srcp U a = true /\ ~ In a vis).
Proof. rewrite missing_walk_eq. apply missing_full_spec. Qed.

Theorem walk_eq_full U vis r a :
  (In a (missing_walk U vis r) <-> In a (missing_full U vis r)).
Proof. rewrite missing_walk_eq. tauto. Qed.

Lemma In_boundary U M b :
  In b (boundary U M) <-> (exists m, In m M /\ In b (parents (ug U) m)) /\ srcp U b = true /\ ~ In b M.
Proof.
  unfold boundary. rewrite filter_In, In_dedup, in_flat_map, andb_true_iff, negb_true_iff, memb_false. tauto.
Qed.

Lemma no_elements_nil {A} (l : list A) : (forall x, ~ In x l) -> l = [].
Proof. destruct l as [|y l]; [reflexivity|]. intros H. exfalso. apply (H y). left. reflexivity. Qed.

(* ---- the walk for ANY batching ----------------------------------------------------------- *)
(* [ravoid U vis r a]: a is reached from r in the source without passing through a revision the
   target sees -- what a walk that checks the target after every single step requests. *)
Inductive ravoid (U : univ) (vis : list revid) (r : revid) : revid -> Prop :=
| ra_tip : srcp U r = true -> ~ In r vis -> ravoid U vis r r
| ra_step c p : ravoid U vis r c -> In p (parents (ug U) c) -> srcp U p = true -> ~ In p vis ->
    ravoid U vis r p.

(* What the repaired walk guarantees whatever the batch size and the shape of the history: it
   requests only ancestors of r the target does not see, at least the [ravoid] ones, and it stops
   only at revisions the target sees (every parent of a requested revision is requested or seen). *)
Definition walk_ok (U : univ) (vis : list revid) (r : revid) (M : list revid) : Prop :=
  (forall a, In a M -> reach (ug U) a r /\ srcp U a = true /\ ~ In a vis) /\
  (forall a, ravoid U vis r a -> In a M) /\
  (forall b, In b (boundary U M) -> In b vis).

Lemma ravoid_missing U vis r a : ravoid U vis r a -> reach (ug U) a r /\ srcp U a = true /\ ~ In a vis.
Proof.
  intros H. induction H as [S N | c p Hc [Rc _] Hp Sp Np].
  - split; [apply reach_refl | tauto].
  - split; [|tauto]. apply reach_trans with c; [|exact Rc]. apply reach_step with p; [exact Hp | apply reach_refl].
Qed.

(* on a target without fillable ghosts every admissible walk requests exactly the missing ancestors *)
Lemma closed_ravoid U vis r : closedb U vis = true -> forall a x, reach (ug U) a x ->
  ravoid U vis r x -> srcp U a = true -> ~ In a vis -> ravoid U vis r a.
Proof.
  intros C a x R. induction R as [x | a p x Hp Rap IH]; intros Hx Sa Na; [exact Hx|].
  apply IH; [|exact Sa|exact Na].
  assert (Sp : srcp U p = true).
  { destruct (srcp U p) eqn:Sp; [reflexivity|]. apply srcp_ge in Sp.
    pose proof (reach_ghost _ _ _ Sp Rap) as E. subst a. apply srcp_ge in Sp. congruence. }
  apply ra_step with x; [exact Hx | exact Hp | exact Sp|].
  intros Hv. apply Na. apply (closed_reach U vis C a p Rap Hv Sa).
Qed.

Theorem walk_ok_closed U vis r M a : wf_dag (ug U) = true -> closedb U vis = true ->
  srcp U r = true -> walk_ok U vis r M -> (In a M <-> In a (missing_full U vis r)).
Proof.
  intros W C Sr [H1 [H2 _]]. rewrite (missing_full_spec U vis r a W). split; [apply H1|].
  intros [R [Sa Na]]. apply H2.
  apply (closed_ravoid U vis r C a r R); [|exact Sa|exact Na].
  apply ra_tip; [exact Sr|]. intros Hv. apply Na. apply (closed_reach U vis C a r R Hv Sa).
Qed.


(* ---- the recipe replay (smart source, find_ghosts=False) ------------------------------- *)

Lemma sweep_incl g vis : forall n s x, In x s -> In x (sweep_avoid g vis n s).
Proof.
  induction n as [|n IH]; simpl; intros s x H; [exact H|].
  apply IH. destruct (memb n s && negb (memb n vis)); [apply In_union; right|]; exact H.
Qed.

Lemma sweep_sound g vis : forall n s x, In x (sweep_avoid g vis n s) ->
  exists y, In y s /\ reach g x y.
Proof.
  induction n as [|n IH]; simpl; intros s x H.
  - exists x. split; [exact H | apply reach_refl].
  - apply IH in H as [y [Hy R]]. destruct (memb n s && negb (memb n vis)) eqn:E.
    + apply In_union in Hy as [Hy|Hy].
      * exists n. apply andb_true_iff in E. destruct E as [E _]. split; [apply memb_In; exact E|].
        eapply reach_trans; [exact R|]. eapply reach_step; [exact Hy | apply reach_refl].
      * exists y. split; assumption.
    + exists y. split; assumption.
Qed.

Lemma sweep_new g vis : wf_dag g = true -> forall n s x,
  In x (sweep_avoid g vis n s) -> In x s \/ S x < n \/ length g <= x.
Proof.
  intros W. induction n as [|n IH]; simpl; intros s x H; [left; exact H|].
  apply IH in H as [H|[H|H]]; [| right; left; lia | right; right; exact H].
  destruct (memb n s && negb (memb n vis)) eqn:E; [|left; exact H].
  apply In_union in H as [H|H]; [|left; exact H].
  destruct (wf_parents g n x W H) as [L|G]; [right; left; lia | right; right; exact G].
Qed.

Lemma sweep_closed g vis : wf_dag g = true -> forall n s x,
  In x (sweep_avoid g vis n s) -> x < n -> ~ In x vis ->
  forall p, In p (parents g x) -> In p (sweep_avoid g vis n s).
Proof.
  intros W. induction n as [|n IH]; intros s x Hx Hlt Nv p Hp; [lia|].
  simpl in *. destruct (Nat.eq_dec x n) as [->|Hne].
  - destruct (memb n s) eqn:E.
    + apply memb_false in Nv. rewrite Nv. cbn [negb andb].
      apply sweep_incl. apply In_union. left. exact Hp.
    + cbn [andb] in Hx. apply (sweep_new g vis W) in Hx as [Hx|[Hx|Hx]].
      * apply memb_false in E. contradiction.
      * lia.
      * rewrite (parents_ghost g n Hx) in Hp. contradiction.
  - apply IH with x; [exact Hx | lia | exact Nv | exact Hp].
Qed.

Lemma sweep_stuck g vis : forall n s, (forall x, In x s -> In x vis) -> sweep_avoid g vis n s = s.
Proof.
  induction n as [|n IH]; intros s H; [reflexivity|]. simpl.
  destruct (memb n s) eqn:E; [|apply IH; exact H].
  apply memb_In in E. apply H in E. apply memb_In in E. rewrite E. cbn [negb andb]. apply IH. exact H.
Qed.

Lemma walk_ok_full U vis r : wf_dag (ug U) = true -> walk_ok U vis r (missing_full U vis r).
Proof.
  intros W. split; [|split].
  - intros a Ha. apply (missing_full_spec U vis r a W). exact Ha.
  - intros a Ha. apply (missing_full_spec U vis r a W). apply ravoid_missing. exact Ha.
  - intros b Hb. apply In_boundary in Hb. destruct Hb as [[m [Hm Hp]] [S N]].
    apply (missing_full_spec U vis r m W) in Hm. destruct Hm as [Rm _].
    destruct (memb b vis) eqn:E; [apply memb_In; exact E|]. exfalso. apply N.
    apply (missing_full_spec U vis r b W). split; [|split; [exact S | apply memb_false; exact E]].
    apply reach_trans with m; [apply reach_step with b; [exact Hp | apply reach_refl] | exact Rm].
Qed.

Lemma In_replay U vis r a :
  In a (missing_replay U vis r) <->
  In a (sweep_avoid (ug U) vis (length (ug U)) [r]) /\ srcp U a = true /\ ~ In a vis.
Proof. unfold missing_replay. rewrite filter_In, andb_true_iff, negb_true_iff, memb_false. tauto. Qed.

Lemma walk_ok_replay U vis r : wf_dag (ug U) = true -> walk_ok U vis r (missing_replay U vis r).
Proof.
  intros W. split; [|split].
  - intros a Ha. apply In_replay in Ha. destruct Ha as [Hs [S N]]. split; [|tauto].
    apply sweep_sound in Hs. destruct Hs as [y [[<-|[]] R]]. exact R.
  - intros a Ha. induction Ha as [S N | c p Hc IH Hp Sp Np].
    + apply In_replay. split; [apply sweep_incl; left; reflexivity | tauto].
    + apply In_replay in IH. destruct IH as [Hs [Sc Nc]]. apply In_replay. split; [|tauto].
      apply (sweep_closed _ _ W _ _ c Hs); [apply srcp_lt; exact Sc | exact Nc | exact Hp].
  - intros b Hb. apply In_boundary in Hb. destruct Hb as [[m [Hm Hp]] [S N]].
    apply In_replay in Hm. destruct Hm as [Hs [Sm Nm]].
    destruct (memb b vis) eqn:E; [apply memb_In; exact E|]. exfalso. apply N.
    apply In_replay. split; [|split; [exact S | apply memb_false; exact E]].
    apply (sweep_closed _ _ W _ _ m Hs); [apply srcp_lt; exact Sm | exact Nm | exact Hp].
Qed.

(* every search the model performs is an admissible walk *)
Theorem missing_ok U c fg vis r : wf_dag (ug U) = true -> walk_ok U vis r (missing U c fg vis r).
Proof.
  intros W. unfold missing. destruct fg; [apply walk_ok_full; exact W|].
  destruct (remote_src c); [apply walk_ok_replay; exact W|].
  rewrite missing_walk_eq. apply walk_ok_full. exact W.
Qed.

Lemma missing_not_vis U c fg vis r a : wf_dag (ug U) = true ->
  In a (missing U c fg vis r) -> reach (ug U) a r /\ srcp U a = true /\ ~ In a vis.
Proof. intros W H. destruct (missing_ok U c fg vis r W) as [H1 _]. apply H1. exact H. Qed.

Lemma boundary_in_vis U c fg vis r b : wf_dag (ug U) = true ->
  In b (boundary U (missing U c fg vis r)) -> In b vis.
Proof. intros W H. destruct (missing_ok U c fg vis r W) as [_ [_ H3]]. apply H3. exact H. Qed.

Lemma client_keys_eq U fg vis r : client_keys U fg vis r = missing_full U vis r.
Proof. unfold client_keys. destruct fg; reflexivity. Qed.

Lemma client_nil_missing_nil U c fg vis r : wf_dag (ug U) = true ->
  client_keys U fg vis r = [] -> missing U c fg vis r = [].
Proof.
  intros W E. rewrite client_keys_eq in E. apply no_elements_nil. intros x Hx.
  apply (missing_not_vis U c fg vis r x W) in Hx. apply (missing_full_spec U vis r x W) in Hx.
  rewrite E in Hx. contradiction.
Qed.

Lemma missing_ghost_nil U c fg vis r : wf_dag (ug U) = true -> srcp U r = false ->
  missing U c fg vis r = [].
Proof.
  intros W S. apply no_elements_nil. intros x Hx. apply (missing_not_vis U c fg vis r x W) in Hx.
  destruct Hx as [R [Sx _]]. apply srcp_ge in S. pose proof (reach_ghost _ _ _ S R) as E. subst x.
  apply srcp_ge in S. congruence.
Qed.

(* when does the search request EVERY ancestor the target lacks: find_ghosts, or a local source
   (single batch), or a target without fillable ghosts *)
Definition fills_all (U : univ) (c : cfg) (fg : bool) (vis : list revid) : Prop :=
  fg = true \/ remote_src c = false \/ closedb U vis = true.

Lemma missing_is_full U c fg vis r a : wf_dag (ug U) = true -> fills_all U c fg vis -> srcp U r = true ->
  (In a (missing U c fg vis r) <-> In a (missing_full U vis r)).
Proof.
  intros W G Sr. unfold missing. destruct fg; [tauto|]. destruct (remote_src c) eqn:Rm; [|rewrite missing_walk_eq; tauto].
  unfold fills_all in G. destruct G as [G|[G|C]]; [discriminate|congruence|].
  apply (walk_ok_closed U vis r _ a W C Sr). apply walk_ok_replay. exact W.
Qed.

(* then an existing ancestor of r that is not requested is already visible *)
Lemma not_missing_vis U c fg vis r a : wf_dag (ug U) = true -> fills_all U c fg vis ->
  reach (ug U) a r -> srcp U a = true -> ~ In a (missing U c fg vis r) -> In a vis.
Proof.
  intros W G R S N.
  assert (Sr : srcp U r = true).
  { destruct (srcp U r) eqn:Sr; [reflexivity|]. apply srcp_ge in Sr.
    pose proof (reach_ghost _ _ _ Sr R) as E. subst a. apply srcp_ge in Sr. congruence. }
  destruct (memb a vis) eqn:E; [apply memb_In; exact E|]. exfalso. apply N.
  apply (missing_is_full U c fg vis r a W G Sr).
  apply (missing_full_spec U vis r a W). split; [exact R|]. split; [exact S|]. apply memb_false. exact E.
Qed.

(* ---- fetch: shape ------------------------------------------------------------- *)

Lemma fetch_cases U c F T fg r out n T' : wf_dag (ug U) = true -> fetch U c F T fg r = (out, n, T') ->
  (out <> FOk /\ T' = T) \/
  (out = FOk /\ T' = T /\ n = 0 /\ missing U c fg (vis_of F T) r = [] /\
     (srcp U r = false /\ fg = false /\ In r (vis_of F T) \/ srcp U r = true)) \/
  (out = FOk /\ srcp U r = true /\ incompat c = false /\
     T' = insert U c T (missing U c fg (vis_of F T) r) /\ n = length (missing U c fg (vis_of F T) r)).
Proof.
  unfold fetch, transfer2. intros W H.
  destruct (negb (srcp U r) && (fg || negb (memb r (vis_of F T)))) eqn:E.
  - inversion H; subst. left. split; [discriminate | reflexivity].
  - assert (Hr : srcp U r = false /\ fg = false /\ In r (vis_of F T) \/ srcp U r = true).
    { destruct (srcp U r) eqn:S; [right; reflexivity|left]. cbn [negb andb] in E.
      apply orb_false_iff in E. destruct E as [E1 E2]. apply negb_false_iff in E2. apply memb_In in E2.
      repeat split; assumption. }
    destruct (client_keys U fg (vis_of F T) r) as [|k K] eqn:EK.
    + inversion H; subst. right. left. repeat split; try reflexivity; [|exact Hr].
      apply (client_nil_missing_nil U c fg _ r W EK).
    + destruct (incompat c) eqn:I.
      * inversion H; subst. left. split; [discriminate | reflexivity].
      * destruct (missing U c fg (vis_of F T) r) as [|m M] eqn:EM.
        -- inversion H; subst. right. left. repeat split; try reflexivity. exact Hr.
        -- inversion H; subst. right. right. repeat split; try reflexivity.
           destruct (srcp U r) eqn:S; [reflexivity|].
           rewrite (missing_ghost_nil U c fg _ r W S) in EM. discriminate.
Qed.

Lemma revs_insert U c T M : revs (insert U c T M) = union M (revs T).
Proof. reflexivity. Qed.

Lemma In_invs_insert U c T M x :
  In x (invs (insert U c T M)) <-> In x (refill U c T M) \/ In x M \/ In x (invs T).
Proof. unfold insert. cbn [invs]. rewrite !In_union. tauto. Qed.

Lemma In_texts_insert U c T M t :
  In t (texts (insert U c T M)) <-> In t (sent_texts U c M) \/ In t (texts T).
Proof. unfold insert. cbn [texts]. apply In_tunion. Qed.

Lemma In_vis_insert U c F T M x :
  In x (vis_of F (insert U c T M)) <-> In x M \/ In x (vis_of F T).
Proof. unfold vis_of. rewrite revs_insert, !in_app_iff, In_union. tauto. Qed.

(* ---- C03 ---------------------------------------------------------------------- *)

Theorem fetch_preserves U c F T fg r out n T' : fetch U c F T fg r = (out, n, T') ->
  incl (revs T) (revs T') /\ incl (invs T) (invs T') /\ incl (texts T) (texts T') /\
  (out <> FOk -> T' = T).
Proof.
  unfold fetch, transfer2. intros H.
  assert (Ins : forall M, incl (revs T) (revs (insert U c T M)) /\ incl (invs T) (invs (insert U c T M)) /\
                          incl (texts T) (texts (insert U c T M))).
  { intros M. repeat split.
    - intros x Hx. rewrite revs_insert. apply In_union. right. exact Hx.
    - intros x Hx. apply In_invs_insert. right. right. exact Hx.
    - intros x Hx. apply In_texts_insert. right. exact Hx. }
  destruct (negb (srcp U r) && (fg || negb (memb r (vis_of F T)))).
  - inversion H; subst. repeat split; try apply incl_refl.
  - destruct (client_keys U fg (vis_of F T) r) as [|k K].
    + inversion H; subst. repeat split; try apply incl_refl.
    + destruct (incompat c).
      * inversion H; subst. repeat split; try apply incl_refl.
      * destruct (missing U c fg (vis_of F T) r) as [|m M] eqn:EM.
        -- inversion H; subst. repeat split; try apply incl_refl.
        -- inversion H; subst. destruct (Ins (m :: M)) as [I1 [I2 I3]]. repeat split; try assumption. congruence.
Qed.

(* completeness.  Always: every revision reached from r without passing through a revision the
   target saw is visible afterwards.  When the search fills everything (find_ghosts, a local
   source, or a target without fillable ghosts): every ancestor of r the source has.  A closed
   target is closed again. *)
Theorem fetch_complete U c F T fg r n T' : wf_dag (ug U) = true ->
  fetch U c F T fg r = (FOk, n, T') ->
  (forall a, ravoid U (vis_of F T) r a -> In a (vis_of F T')) /\
  (fills_all U c fg (vis_of F T) ->
     forall a, reach (ug U) a r -> srcp U a = true -> In a (vis_of F T')) /\
  (closedb U (vis_of F T) = true -> closedb U (vis_of F T') = true).
Proof.
  intros W H. destruct (missing_ok U c fg (vis_of F T) r W) as [H1 [H2 H3]].
  destruct (fetch_cases U c F T fg r FOk n T' W H) as [[N _]|[[_ [E [_ [EM D]]]]|[_ [S [_ [E _]]]]]]; [congruence| |]; subst T'.
  - split; [|split; [|tauto]].
    + intros a Ha. apply H2 in Ha. rewrite EM in Ha. contradiction.
    + intros G a R Sa. apply (not_missing_vis U c fg _ r a W G R Sa). rewrite EM. intros [].
  - set (M := missing U c fg (vis_of F T) r) in *. split; [|split].
    + intros a Ha. apply In_vis_insert. left. apply H2. exact Ha.
    + intros G a R Sa. apply In_vis_insert. destruct (memb a M) eqn:E.
      * left. apply memb_In. exact E.
      * right. apply (not_missing_vis U c fg _ r a W G R Sa). apply memb_false. exact E.
    + intros C. apply closedb_spec. intros x p Hx Sx Hp Sp. apply In_vis_insert.
      apply In_vis_insert in Hx. destruct Hx as [Hx|Hx].
      * destruct (memb p M) eqn:E; [left; apply memb_In; exact E|]. right.
        apply H3. apply In_boundary. split; [exists x; tauto|]. split; [exact Sp | apply memb_false; exact E].
      * right. rewrite closedb_spec in C. apply (C x p); assumption.
Qed.

Lemma union_nil l : union [] l = l.
Proof. reflexivity. Qed.

Theorem fetch_idempotent U c F T fg r n T' : wf_dag (ug U) = true ->
  fetch U c F T fg r = (FOk, n, T') ->
  missing U c fg (vis_of F T') r = [] /\ fetch U c F T' fg r = (FOk, 0, T').
Proof.
  intros W H.
  assert (EM : missing U c fg (vis_of F T') r = []).
  { destruct (srcp U r) eqn:S; [|apply (missing_ghost_nil U c fg _ r W S)].
    destruct (fetch_complete U c F T fg r n T' W H) as [Hav [Hall _]].
    assert (Hr : In r (vis_of F T')).
    { destruct (memb r (vis_of F T)) eqn:E.
      - apply memb_In in E. destruct (fetch_preserves U c F T fg r FOk n T' H) as [I _].
        unfold vis_of in *. apply in_app_or in E. apply in_or_app. destruct E as [E|E]; [left; apply I; exact E | right; exact E].
      - apply Hav. apply ra_tip; [exact S | apply memb_false; exact E]. }
    assert (Full : fg = true \/ remote_src c = false -> missing U c fg (vis_of F T') r = []).
    { intros G. apply no_elements_nil. intros x Hx.
      assert (G' : fills_all U c fg (vis_of F T')) by (unfold fills_all; tauto).
      apply (missing_is_full U c fg _ r x W G' S) in Hx. apply (missing_full_spec U _ r x W) in Hx.
      destruct Hx as [R [Sx Nx]]. apply Nx. apply Hall; [unfold fills_all; tauto | exact R | exact Sx]. }
    destruct fg; [apply Full; left; reflexivity|].
    destruct (remote_src c) eqn:Rm; [|apply Full; right; reflexivity].
    unfold missing. rewrite Rm. unfold missing_replay.
    rewrite sweep_stuck; [|intros x [<-|[]]; exact Hr].
    cbn [filter]. rewrite S. cbn [andb]. apply memb_In in Hr. rewrite Hr. reflexivity. }
  split; [exact EM|].
  assert (I : client_keys U fg (vis_of F T') r <> [] -> incompat c = false).
  { intros NK.
    destruct (fetch_cases U c F T fg r FOk n T' W H) as [[N _]|[[_ [E _]]|[_ [_ [I _]]]]]; [congruence| |exact I]; subst T'.
    revert H. unfold fetch, transfer2.
    destruct (negb (srcp U r) && (fg || negb (memb r (vis_of F T)))); [discriminate|].
    destruct (client_keys U fg (vis_of F T) r); [congruence|].
    destruct (incompat c); [discriminate | reflexivity]. }
  assert (Fin : transfer2 U c T' (client_keys U fg (vis_of F T') r) (missing U c fg (vis_of F T') r) = (FOk, 0, T')).
  { unfold transfer2. rewrite EM. destruct (client_keys U fg (vis_of F T') r) eqn:EK; [reflexivity|].
    rewrite I; [reflexivity | discriminate]. }
  destruct (srcp U r) eqn:S.
  - unfold fetch. rewrite S. cbn [negb andb]. exact Fin.
  - destruct (fetch_cases U c F T fg r FOk n T' W H) as [[N _]|[[_ [E [_ [_ D]]]]|[_ [S' _]]]]; [congruence| |congruence]; subst T'.
    destruct D as [[_ [Ef Hv]]|S']; [|congruence]. subst fg.
    unfold fetch. rewrite S. cbn [negb andb orb].
    apply memb_In in Hv. rewrite Hv. cbn [negb]. exact Fin.
Qed.

Lemma full_b_spec U R : full_b U R = true <-> full U R.
Proof.
  unfold full_b, full. rewrite forallb_forall. split.
  - intros H r Hr S. specialize (H r Hr). rewrite S in H. cbn [negb orb] in H.
    apply andb_true_iff in H. destruct H as [H1 H2]. split; [apply memb_In; exact H1|].
    intros t Ht. rewrite forallb_forall in H2. apply tmemb_In. apply H2. exact Ht.
  - intros H r Hr. destruct (srcp U r) eqn:S; [|reflexivity]. cbn [negb orb].
    destruct (H r Hr S) as [H1 H2]. apply andb_true_iff. split; [apply memb_In; exact H1|].
    apply forallb_forall. intros t Ht. apply tmemb_In. apply H2. exact Ht.
Qed.

(* a text referenced by a sent revision is sent with it or is referenced by a boundary parent *)
Lemma sent_or_boundary U c M r t : In r M -> In t (inv_of U r) ->
  In t (sent_texts U c M) \/ exists b, In b (boundary U M) /\ In t (inv_of U b).
Proof.
  intros Hr Ht. unfold sent_texts.
  destruct (tmemb t (inv_texts U (boundary U M))) eqn:E.
  - right. apply tmemb_In in E. apply In_inv_texts in E. exact E.
  - left. unfold texts_diff. apply filter_In. split; [apply In_inv_texts; exists r; tauto|]. rewrite E. reflexivity.
Qed.

(* the core of C03_payload_equal: inserting the stream for M into a complete repository that
   holds the boundary parents of M gives a complete repository *)
Lemma insert_keeps_full U c T M :
  (forall b, In b (boundary U M) -> In b (revs T)) ->
  full U T -> full U (insert U c T M).
Proof.
  intros HB HF x Hx Sx. rewrite revs_insert in Hx. apply In_union in Hx. destruct Hx as [Hx|Hx].
  - split; [apply In_invs_insert; tauto|]. intros t Ht. apply In_texts_insert.
    destruct (sent_or_boundary U c M x t Hx Ht) as [Hs|[b [Hb Htb]]]; [left; exact Hs|right].
    apply (HF b (HB b Hb)); [|exact Htb]. apply In_boundary in Hb. tauto.
  - destruct (HF x Hx Sx) as [H1 H2]. split; [apply In_invs_insert; tauto|].
    intros t Ht. apply In_texts_insert. right. apply H2. exact Ht.
Qed.

(* C03_payload_equal: into an unstacked, complete target every copied revision arrives with
   its inventory and every text it references *)
Theorem fetch_keeps_full U c F T fg r out n T' : wf_dag (ug U) = true ->
  fetch U c F T fg r = (out, n, T') -> revs F = [] ->
  full U T -> full U T'.
Proof.
  intros W H EF HF.
  assert (Ev : vis_of F T = revs T) by (unfold vis_of; rewrite EF; apply app_nil_r).
  destruct (fetch_cases U c F T fg r out n T' W H) as [[_ E]|[[_ [E _]]|[_ [_ [_ [E _]]]]]]; subst T'; try exact HF.
  rewrite Ev. apply insert_keeps_full; [|exact HF].
  intros b Hb. apply (boundary_in_vis U c fg (revs T) r b W Hb).
Qed.

(* ---- C08 ---------------------------------------------------------------------- *)

(* the core of C08_fetch_keeps_complete: M are existing revisions the stack does not see, the
   boundary parents of M are seen, the stack is closed *)
Lemma insert_keeps_complete U c T M vis : wf_univ U = true -> ext c = true ->
  closedb U vis = true ->
  (forall m, In m M -> ~ In m vis) ->
  (forall b, In b (boundary U M) -> In b vis) ->
  local_complete U T -> local_complete U (insert U c T M).
Proof.
  intros W X C HM HB HL.
  intros x Hx Sx. rewrite revs_insert in Hx. apply In_union in Hx. destruct Hx as [Hx|Hx].
  - split; [apply In_invs_insert; tauto|]. split.
    + intros p Hp Sp. apply In_invs_insert. destruct (memb p M) eqn:Ep; [right; left; apply memb_In; exact Ep|].
      destruct (memb p (invs T)) eqn:Ei; [right; right; apply memb_In; exact Ei|]. left.
      unfold refill. rewrite X. apply filter_In. split; [|rewrite Ei; reflexivity].
      apply In_boundary. split; [exists x; tauto|]. split; [exact Sp | apply memb_false; exact Ep].
    + intros t Ht Hd. apply In_texts_insert. left.
      assert (Et : snd t = x).
      { destruct (wf_univ_entry U x t W Ht) as [E|[p [Hp [_ Htp]]]]; [exact E|]. exfalso. apply (Hd p Hp Htp). }
      destruct (sent_or_boundary U c M x t Hx Ht) as [Hs|[b [Hb Htb]]]; [exact Hs|exfalso].
      pose proof (text_origin U W b t Htb) as R. rewrite Et in R.
      apply (HM x Hx). apply (closed_reach U vis C x b R (HB b Hb) Sx).
  - destruct (HL x Hx Sx) as [H1 [H2 H3]]. split; [apply In_invs_insert; tauto|]. split.
    + intros p Hp Sp. apply In_invs_insert. right. right. apply H2; assumption.
    + intros t Ht Hd. apply In_texts_insert. right. apply H3; assumption.
Qed.

Theorem fetch_keeps_complete U c F T fg r out n T' : wf_univ U = true ->
  fetch U c F T fg r = (out, n, T') -> ext c = true -> closedb U (vis_of F T) = true ->
  local_complete U T -> local_complete U T'.
Proof.
  intros W H X C HL. pose proof (wf_univ_dag U W) as Wd.
  destruct (fetch_cases U c F T fg r out n T' Wd H) as [[_ E]|[[_ [E _]]|[_ [_ [_ [E _]]]]]]; subst T'; try exact HL.
  apply (insert_keeps_complete U c T _ (vis_of F T) W X C); [| |exact HL].
  - intros m Hm. apply (missing_not_vis U c fg _ r m Wd Hm).
  - intros b Hb. apply (boundary_in_vis U c fg _ r b Wd Hb).
Qed.

Lemma commit_unfillable_nil F T ps : commit_unfillable F T ps = [] ->
  forall p, In p ps -> In p (invs T) \/ In p (invs F).
Proof.
  intros E p Hp. destruct (memb p (invs T)) eqn:E1; [left; apply memb_In; exact E1|].
  destruct (memb p (invs F)) eqn:E2; [right; apply memb_In; exact E2|]. exfalso.
  assert (In p (commit_unfillable F T ps)).
  { unfold commit_unfillable. apply filter_In. split; [exact Hp|]. rewrite E1, E2. reflexivity. }
  rewrite E in H. contradiction.
Qed.

Theorem commit_keeps_complete U c F T r out n T' : wf_univ U = true ->
  commit U c F T r = (out, n, T') ->
  (stacked c = false -> forall p, In p (parents (ug U) r) -> srcp U p = true -> In p (revs T)) ->
  local_complete U T -> local_complete U T' /\ (out <> FOk -> T' = T).
Proof.
  intros W H Leg HL. unfold commit in H.
  set (own := filter (fun t => snd t =? r) (inv_of U r)) in *.
  assert (Hown : forall t, In t (inv_of U r) -> (forall p, In p (parents (ug U) r) -> ~ In t (inv_of U p)) -> In t own).
  { intros t Ht Hd. unfold own. apply filter_In. split; [exact Ht|]. apply Nat.eqb_eq.
    destruct (wf_univ_entry U r t W Ht) as [E|[p [Hp [_ Htp]]]]; [exact E|]. exfalso. apply (Hd p Hp Htp). }
  assert (Old : forall R' , incl (invs T) (invs R') -> incl (texts T) (texts R') ->
                forall x, In x (revs T) -> srcp U x = true ->
                  In x (invs R') /\
                  (forall p, In p (parents (ug U) x) -> srcp U p = true -> In p (invs R')) /\
                  (forall t, In t (inv_of U x) -> (forall p, In p (parents (ug U) x) -> ~ In t (inv_of U p)) -> In t (texts R'))).
  { intros R' I1 I2 x Hx Sx. destruct (HL x Hx Sx) as [H1 [H2 H3]]. split; [apply I1; exact H1|]. split.
    - intros p Hp Sp. apply I1. apply H2; assumption.
    - intros t Ht Hd. apply I2. apply H3; assumption. }
  destruct (stacked c) eqn:St.
  - destruct (commit_unfillable F T (parents (ug U) r)) eqn:EU.
    + inversion H; subst. split; [|congruence].
      intros x Hx Sx. cbn [revs] in Hx. apply In_add in Hx. destruct Hx as [->|Hx].
      * cbn [invs texts]. split; [apply In_add; left; reflexivity|]. split.
        -- intros p Hp Sp. apply In_add. right. apply In_union.
           destruct (commit_unfillable_nil F T _ EU p Hp) as [Hi|Hi]; [right; exact Hi|].
           destruct (memb p (invs T)) eqn:E1; [right; apply memb_In; exact E1|]. left.
           unfold commit_fill. apply filter_In. split; [exact Hp|]. rewrite E1. cbn [negb andb]. apply memb_In. exact Hi.
        -- intros t Ht Hd. apply In_tunion. left. apply Hown; assumption.
      * apply Old; try assumption.
        -- cbn [invs]. intros y Hy. apply In_add. right. apply In_union. right. exact Hy.
        -- cbn [texts]. intros y Hy. apply In_tunion. right. exact Hy.
    + inversion H; subst. split; [exact HL | reflexivity].
  - inversion H; subst. split; [|congruence].
    intros x Hx Sx. cbn [revs] in Hx. apply In_add in Hx. destruct Hx as [->|Hx].
    + cbn [invs texts]. split; [apply In_add; left; reflexivity|]. split.
      * intros p Hp Sp. apply In_add. right. pose proof (Leg eq_refl p Hp Sp) as Hpr.
        destruct (HL p Hpr Sp) as [Hi _]. exact Hi.
      * intros t Ht Hd. apply In_tunion. left. apply Hown; assumption.
    + apply Old; try assumption.
      * cbn [invs]. intros y Hy. apply In_add. right. exact Hy.
      * cbn [texts]. intros y Hy. apply In_tunion. right. exact Hy.
Qed.

Theorem complete_readable U F T : wf_univ U = true ->
  local_complete U T -> full U F -> closedb U (vis_of F T) = true ->
  forall r, In r (revs T) -> srcp U r = true -> readable U F T r.
Proof.
  intros W HL HF C r. induction r as [r IH] using lt_wf_ind. intros Hr Sr.
  destruct (HL r Hr Sr) as [H1 [H2 H3]]. split; [apply in_or_app; left; exact H1|].
  intros t Ht.
  destruct (existsb (fun p => tmemb t (inv_of U p)) (parents (ug U) r)) eqn:E.
  - apply existsb_exists in E. destruct E as [p [Hp Htp]]. apply tmemb_In in Htp.
    pose proof (inv_of_srcp U p t W Htp) as Sp.
    assert (Hv : In p (vis_of F T)).
    { rewrite closedb_spec in C. apply (C r p); try assumption. unfold vis_of. apply in_or_app. left. exact Hr. }
    unfold vis_of in Hv. apply in_app_or in Hv. destruct Hv as [Hv|Hv].
    + assert (L : p < r).
      { destruct (wf_parents (ug U) r p (wf_univ_dag U W) Hp) as [L|L]; [exact L|]. apply srcp_lt in Sp. lia. }
      destruct (IH p L Hv Sp) as [_ Hrd]. apply Hrd. exact Htp.
    + apply in_or_app. right. destruct (HF p Hv Sp) as [_ Hf]. apply Hf. exact Htp.
  - apply in_or_app. left. apply H3; [exact Ht|]. intros p Hp Htp.
    assert (existsb (fun p => tmemb t (inv_of U p)) (parents (ug U) r) = true).
    { apply existsb_exists. exists p. split; [exact Hp | apply tmemb_In; exact Htp]. }
    congruence.
Qed.

(* after a successful fetch / push into a complete stacked repository every local
   revision, and the requested tip, can be read *)
Theorem fetch_tip_readable U c F T fg r n T' : wf_univ U = true ->
  fetch U c F T fg r = (FOk, n, T') -> ext c = true -> closedb U (vis_of F T) = true ->
  local_complete U T -> full U F -> srcp U r = true ->
  readable U F T' r /\ forall x, In x (revs T') -> srcp U x = true -> readable U F T' x.
Proof.
  intros W H X C HL HF Sr. pose proof (wf_univ_dag U W) as Wd.
  pose proof (fetch_keeps_complete U c F T fg r FOk n T' W H X C HL) as HL'.
  destruct (fetch_complete U c F T fg r n T' Wd H) as [_ [Hall HC]]. specialize (HC C).
  specialize (Hall (or_intror (or_intror C))).
  assert (All : forall x, In x (revs T') -> srcp U x = true -> readable U F T' x)
    by (apply complete_readable; assumption).
  split; [|exact All].
  pose proof (Hall r (reach_refl _ r) Sr) as Hv. unfold vis_of in Hv. apply in_app_or in Hv.
  destruct Hv as [Hv|Hv]; [apply All; assumption|].
  destruct (HF r Hv Sr) as [H1 H2]. split; [apply in_or_app; right; exact H1|].
  intros t Ht. apply in_or_app. right. apply H2. exact Ht.
Qed.

Lemma local_complete_empty U : local_complete U empty_repo.
Proof. intros r []. Qed.

Lemma full_seed U Z : full U (seed U Z).
Proof.
  intros r Hr _. split; [exact Hr|]. intros t Ht. cbn [seed texts]. apply In_inv_texts. exists r. tauto.
Qed.

(* ---- regression witness: find_ghosts=False into a target holding a ghost the source can fill ---- *)
(* r2 (in the target) has the parent r1 the target lacks; the source has r1 and r4 = child of r1;
   fetching r5 = merge(r3, r4).  BEFORE /repo be5f5d4 the walk excluded r1 (an ancestor of r2, which
   the target has), r4 arrived without the texts it shares with r1 [old_walk_unclosed_refuted];
   the repaired search requests r1 and the result is complete [walk_unclosed_now_complete].
   (inventories as read from the real repositories of harness/props/c03.py corpus case 0) *)
Definition wit_U : univ := Univ
  [[]; []; [0; 1]; [2]; [1]; [3; 4]]
  [[(0,0); (1,0); (2,0); (3,0); (4,0)];
   [(0,1); (1,1); (2,1); (3,1); (4,1)];
   [(0,0); (1,2); (2,0); (3,0); (4,0)];
   [(0,0); (1,2); (2,0); (3,3); (4,0)];
   [(0,1); (1,1); (2,1); (3,1); (4,4)];
   [(0,5); (1,5); (2,5); (3,5); (4,5)]].
Definition wit_T : repo := seed wit_U [0; 2].
Definition wit_c : cfg := Cfg true false false false.

Theorem old_walk_unclosed_refuted :
  let T' := insert wit_U wit_c wit_T (missing_walk_old wit_U (revs wit_T) 5) in
  wf_univ wit_U = true /\ full wit_U wit_T /\
  (reach (ug wit_U) 1 5 /\ srcp wit_U 1 = true /\ ~ In 1 (revs T')) /\
  ~ full wit_U T'.
Proof.
  cbv zeta. split; [vm_compute; reflexivity|]. split; [apply full_seed|]. split.
  - split; [|split; [reflexivity|]].
    + apply (In_anc wit_U 5 1); vm_compute; [reflexivity|]. tauto.
    + vm_compute. intuition discriminate.
  - intros Hf. apply full_b_spec in Hf. vm_compute in Hf. discriminate.
Qed.

Theorem walk_unclosed_now_complete :
  exists T', fetch wit_U wit_c empty_repo wit_T false 5 = (FOk, 4, T') /\
             In 1 (revs T') /\ full wit_U T'.
Proof.
  eexists. split; [vm_compute; reflexivity|]. split.
  - vm_compute. tauto.
  - apply full_b_spec. vm_compute. reflexivity.
Qed.

(* the modelled local walk is an admissible walk *)
Theorem walk_ok_model U vis r : wf_dag (ug U) = true -> walk_ok U vis r (missing_walk U vis r).
Proof. intros W. rewrite missing_walk_eq. apply walk_ok_full. exact W. Qed.

(* whatever the batching, the copied revisions arrive whole and the stacking invariant is kept *)
Theorem walk_ok_keeps_full U c T r M :
  walk_ok U (revs T) r M -> full U T -> full U (insert U c T M).
Proof. intros [_ [_ H3]] HF. apply insert_keeps_full; assumption. Qed.

Theorem walk_ok_keeps_complete U c F T r M : wf_univ U = true -> ext c = true ->
  closedb U (vis_of F T) = true -> walk_ok U (vis_of F T) r M ->
  local_complete U T -> local_complete U (insert U c T M).
Proof.
  intros W X C [H1 [_ H3]] HL. apply (insert_keeps_complete U c T M (vis_of F T) W X C); [|exact H3|exact HL].
  intros m Hm. apply (H1 m Hm).
Qed.

(* ---- fetch of everything (no revision given) ----------------------------------------- *)

Lemma In_missing_all U vis a : In a (missing_all U vis) <-> srcp U a = true /\ ~ In a vis.
Proof.
  unfold missing_all. rewrite filter_In, in_seq, negb_true_iff, memb_false, srcp_lt. split.
  - intros [[_ L] N]. split; [exact L | exact N].
  - intros [L N]. split; [split; [apply Nat.le_0_l | exact L] | exact N].
Qed.

Lemma fetch_all_cases U c F T out n T' : fetch_all U c F T = (out, n, T') ->
  (out <> FOk /\ T' = T) \/
  (out = FOk /\ T' = T /\ missing_all U (vis_of F T) = []) \/
  (out = FOk /\ T' = insert U c T (missing_all U (vis_of F T))).
Proof.
  unfold fetch_all, transfer. intros H.
  destruct (missing_all U (vis_of F T)) as [|m M] eqn:EM.
  - inversion H; subst. right. left. repeat split.
  - destruct (incompat c).
    + inversion H; subst. left. split; [discriminate | reflexivity].
    + inversion H; subst. right. right. split; reflexivity.
Qed.

Lemma boundary_all_in_vis U vis b : In b (boundary U (missing_all U vis)) -> In b vis.
Proof.
  intros H. apply In_boundary in H. destruct H as [_ [S N]].
  destruct (memb b vis) eqn:E; [apply memb_In; exact E|]. exfalso. apply N.
  apply In_missing_all. split; [exact S | apply memb_false; exact E].
Qed.

(* after a successful fetch of everything the target sees every revision the source has, has lost
   nothing, stays complete (unstacked) resp. keeps the stacking invariant *)
Theorem fetch_all_complete U c F T n T' : fetch_all U c F T = (FOk, n, T') ->
  (forall a, srcp U a = true -> In a (vis_of F T')) /\
  incl (revs T) (revs T') /\ incl (invs T) (invs T') /\ incl (texts T) (texts T') /\
  fetch_all U c F T' = (FOk, 0, T').
Proof.
  intros H.
  assert (Hall : forall a, srcp U a = true -> In a (vis_of F T')).
  { intros a Sa.
    destruct (fetch_all_cases U c F T FOk n T' H) as [[N _]|[[_ [E EM]]|[_ E]]]; [congruence| |]; subst T'.
    - destruct (memb a (vis_of F T)) eqn:Ea; [apply memb_In; exact Ea|]. exfalso.
      assert (Hin : In a (missing_all U (vis_of F T))) by (apply In_missing_all; split; [exact Sa | apply memb_false; exact Ea]).
      rewrite EM in Hin. contradiction.
    - apply In_vis_insert. destruct (memb a (vis_of F T)) eqn:Ea; [right; apply memb_In; exact Ea|left].
      apply In_missing_all. split; [exact Sa | apply memb_false; exact Ea]. }
  split; [exact Hall|].
  assert (E0 : missing_all U (vis_of F T') = []).
  { unfold missing_all. apply filter_nil. intros x Hx. apply in_seq in Hx. apply negb_false_iff. apply memb_In.
    apply Hall. apply srcp_lt. destruct Hx as [_ Hx]. exact Hx. }
  destruct (fetch_all_cases U c F T FOk n T' H) as [[N _]|[[_ [E _]]|[_ E]]]; [congruence| |]; subst T'.
  - repeat split; try apply incl_refl. unfold fetch_all, transfer. rewrite E0. reflexivity.
  - repeat split.
    + intros x Hx. rewrite revs_insert. apply In_union. right. exact Hx.
    + intros x Hx. apply In_invs_insert. right. right. exact Hx.
    + intros x Hx. apply In_texts_insert. right. exact Hx.
    + unfold fetch_all, transfer. rewrite E0. reflexivity.
Qed.

Theorem fetch_all_keeps_full U c F T out n T' :
  fetch_all U c F T = (out, n, T') -> revs F = [] -> full U T -> full U T'.
Proof.
  intros H EF HF.
  assert (Ev : vis_of F T = revs T) by (unfold vis_of; rewrite EF; apply app_nil_r).
  destruct (fetch_all_cases U c F T out n T' H) as [[_ E]|[[_ [E _]]|[_ E]]]; subst T'; try exact HF.
  apply insert_keeps_full; [|exact HF]. rewrite Ev. apply boundary_all_in_vis.
Qed.

Theorem fetch_all_keeps_complete U c F T out n T' : wf_univ U = true ->
  fetch_all U c F T = (out, n, T') -> ext c = true -> closedb U (vis_of F T) = true ->
  local_complete U T -> local_complete U T'.
Proof.
  intros W H X C HL.
  destruct (fetch_all_cases U c F T out n T' H) as [[_ E]|[[_ [E _]]|[_ E]]]; subst T'; try exact HL.
  apply (insert_keeps_complete U c T _ (vis_of F T) W X C); [| |exact HL].
  - intros m Hm. apply In_missing_all in Hm. tauto.
  - apply boundary_all_in_vis.
Qed.

(* ---- a sender that cannot supply the requested parent inventories ------------------------- *)

Theorem fetch_nr_refused_unchanged U c F T fg r out n T' :
  fetch_nr U c F T fg r = (out, n, T') -> out <> FOk -> T' = T.
Proof.
  unfold fetch_nr. intros H N.
  destruct (refill U c T (missing U c fg (vis_of F T) r)).
  - destruct (fetch_preserves U c F T fg r out n T' H) as [_ [_ [_ E]]]. apply E. exact N.
  - destruct (negb (srcp U r) && (fg || negb (memb r (vis_of F T)))); [inversion H; reflexivity|].
    destruct (check_ok U (insert U (no_ext c) T (missing U c fg (vis_of F T) r)) (missing U c fg (vis_of F T) r));
      inversion H; subst; [congruence | reflexivity].
Qed.

Theorem fetch_nr_supplied U c F T fg r :
  refill U c T (missing U c fg (vis_of F T) r) = [] -> fetch_nr U c F T fg r = fetch U c F T fg r.
Proof. unfold fetch_nr. intros E. rewrite E. reflexivity. Qed.

(* the stacking invariant survives such a fetch whenever it is refused or needed no parent inventory *)
Theorem fetch_nr_keeps_complete U c F T fg r out n T' : wf_univ U = true ->
  fetch_nr U c F T fg r = (out, n, T') -> ext c = true -> closedb U (vis_of F T) = true ->
  local_complete U T ->
  out <> FOk \/ refill U c T (missing U c fg (vis_of F T) r) = [] ->
  local_complete U T'.
Proof.
  intros W H X C HL [N|E].
  - rewrite (fetch_nr_refused_unchanged U c F T fg r out n T' H N). exact HL.
  - rewrite (fetch_nr_supplied U c F T fg r E) in H.
    apply (fetch_keeps_complete U c F T fg r out n T' W H X C HL).
Qed.
