(* Theory/Reconf52.v -- C52: what a completed Reconfigure.apply() does to the location
   (Model/Reconf52.v), for EVERY world: arbitrary revision graph, revision sets, tags, other
   branches.  The case analysis is over the finite layout only (plan flags, kind of branch). *)
From Coq Require Import List Bool Arith String Lia.
Import ListNotations.
From BV Require Import Lib.Obs Lib.Dag Theory.DagFacts Model.Reconf52 Theory.Reconf52Base Theory.Reconf52Wf.
Open Scope string_scope.
Open Scope nat_scope.
Open Scope list_scope.

(* ---------------------------------------------------------------------------------------------- *)
Section Chain.
Variables (p : plan) (w0 : world) (nb : option loc).

Definition l8 : loc := match select_bind w0 nb with Some l => l | None => 0 end.
Definition B5 : branch_st := if p_destroy_reference p then BNone else w_branch w0.
Definition B6 : branch_st := if p_destroy_branch p then BNone else B5.
Definition new_branch : branch_st :=
  BLocal (mkLB (match lri_of p w0 with Some t => t | None => None end)
               (if p_destroy_reference p
                then match refd_of w0 with Some (_, o) => merge_tags (o_tags o) [] | None => [] end
                else [])
               None None None).
Definition B7 : branch_st := if p_create_branch p then new_branch else B6.
Definition B8 : branch_st := if p_create_reference p then BRef l8 else B7.
Definition unbind_b (b : branch_st) : branch_st :=
  match b with
  | BLocal x => BLocal (mkLB (b_tip x) (b_tags x)
                             (match b_bloc x with Some (_, l) => Some (false, l) | None => None end)
                             (b_push x) (b_parent x))
  | _ => b
  end.
Definition bind_b (b : branch_st) : branch_st :=
  match b with
  | BLocal x => BLocal (mkLB (b_tip x) (b_tags x) (Some (true, l8)) (b_push x) (b_parent x))
  | _ => b
  end.
Definition B10 : branch_st := if p_unbind p then unbind_b B8 else B8.
Definition B11 : branch_st := if p_bind p then bind_b B10 else B10.

Definition branch_at (j : nat) : branch_st :=
  match j with
  | 0 | 1 | 2 | 3 | 4 => w_branch w0
  | 5 => B5 | 6 => B6 | 7 => B7 | 8 | 9 => B8 | 10 => B10 | _ => B11
  end.

Definition efft (b : branch_st) (tips : loc -> option (option revid)) : option (option revid) :=
  match b with BLocal x => Some (b_tip x) | BRef l => tips l | BNone => None end.
Lemma eff_tip_efft w : eff_tip w = efft (w_branch w) (fun l => otip (get_other w l)).
Proof. unfold eff_tip, efft, otip. destruct (w_branch w) as [|b|l]; auto. Qed.

Definition tips0 : loc -> option (option revid) := fun l => otip (get_other w0 l).
Definition T9 : option tree :=
  if p_create_tree p
  then Some (mkTree (tip_list (match efft B8 tips0 with Some t => t | None => None end)) [])
  else if p_destroy_tree p then None else w_tree w0.
Definition tree_at (j : nat) : option tree := if j <=? 8 then w_tree w0 else T9.

(* the tags of the other branches: only destroy_branch touches them (merge into the reference) *)
Definition tags_at (after : bool) (l : loc) : option tagd :=
  if after && p_destroy_branch p && p_create_reference p then
    match select_bind w0 nb, local_of w0 with
    | Some l', Some b =>
        if l =? l' then option_map (fun t => merge_tags (b_tags b) t) (otags (get_other w0 l))
        else otags (get_other w0 l)
    | _, _ => otags (get_other w0 l)
    end
  else otags (get_other w0 l).

Definition Inv (j : nat) (w : world) : Prop :=
  w_branch w = branch_at j
  /\ (forall l, otip (get_other w l) = tips0 l)
  /\ w_tree w = tree_at j
  /\ (forall l, otags (get_other w l) = tags_at (6 <=? j) l).

Lemma others_same w w' :
  w_inner w' = w_inner w -> w_sib w' = w_sib w -> w_far w' = w_far w ->
  (forall l, otip (get_other w' l) = otip (get_other w l)) /\
  (forall l, otags (get_other w' l) = otags (get_other w l)).
Proof. intros A B C. split; intros l; rewrite (get_other_ext _ _ A B C l); reflexivity. Qed.

Lemma Inv_step j s w1 w2 :
  nth_error (steps nb p w0) j = Some s -> Inv j w1 -> s w1 = Ok w2 -> Inv (S j) w2.
Proof.
  intros Hn (Hb & Ht & Htr & Htg) Hs.
  apply steps_cases in Hn.
  destruct Hn as [[-> ->]|[[-> ->]|[[-> ->]|[[-> ->]|[[-> ->]|[[-> ->]|[[-> ->]|[[-> ->]|[[-> ->]|[[-> ->]|[[-> ->]|[[-> ->]|[-> ->]]]]]]]]]]]]].
  - (* create_repository *)
    pose proof (s1_frame p w0 w1) as F. rewrite (ok_world _ _ _ Hs) in F. cbn in F.
    destruct F as (_ & _ & Fb & Ftr & Fi & Fs & Ff). destruct (others_same w1 w2 Fi Fs Ff) as [O1 O2].
    split; [|split; [|split]]; [rewrite Fb; exact Hb | intros l; rewrite O1; auto | rewrite Ftr; exact Htr
                               | intros l; rewrite O2; apply Htg].
  - (* fetch_referenced *)
    pose proof (s2_frame p w0 w1) as F. rewrite (ok_world _ _ _ Hs) in F. cbn in F.
    destruct F as (_ & Fb & Ftr & Fi & Fs & Ff). destruct (others_same w1 w2 Fi Fs Ff) as [O1 O2].
    split; [|split; [|split]]; [rewrite Fb; exact Hb | intros l; rewrite O1; auto | rewrite Ftr; exact Htr
                               | intros l; rewrite O2; apply Htg].
  - (* open_reference *)
    pose proof (s3_frame p w0 nb w1) as F. rewrite (ok_world _ _ _ Hs) in F. subst w2.
    split; [|split; [|split]]; auto.
  - (* destroy_repository_fetch *)
    pose proof (s4_frame p w0 nb w1) as F. rewrite (ok_world _ _ _ Hs) in F. cbn in F.
    destruct F as (_ & Fb & Ftr & O1 & O2).
    split; [|split; [|split]]; [rewrite Fb; exact Hb | intros l; rewrite O1; auto | rewrite Ftr; exact Htr
                               | intros l; rewrite O2; apply Htg].
  - (* destroy_reference *)
    pose proof (s5a_frame p w1) as F. rewrite (ok_world _ _ _ Hs) in F. cbn in F.
    destruct F as (_ & _ & _ & Ftr & Fi & Fs & Ff). destruct (others_same w1 w2 Fi Fs Ff) as [O1 O2].
    split; [|split; [|split]]; [ | intros l; rewrite O1; auto | rewrite Ftr; exact Htr
                               | intros l; rewrite O2; apply Htg].
    unfold step_destroy_reference in Hs. cbn [branch_at] in *. unfold B5.
    destruct (p_destroy_reference p); injection Hs as <-; cbn; auto.
  - (* destroy_branch *)
    pose proof (s5b_frame p w0 nb w1) as F. rewrite (ok_world _ _ _ Hs) in F. cbn in F.
    destruct F as (_ & _ & _ & Ftr & O1 & _).
    split; [|split; [|split]]; [ | intros l; rewrite O1; auto | rewrite Ftr; exact Htr | ].
    + unfold step_destroy_branch in Hs. cbn [branch_at] in *. unfold B6.
      destruct (p_destroy_branch p); injection Hs as <-; cbn; auto.
    + intros l. unfold step_destroy_branch in Hs. unfold tags_at in *. cbn [Nat.leb andb] in *.
      destruct (p_destroy_branch p); cbn [andb] in *; [|injection Hs as <-; apply Htg].
      destruct (p_create_reference p); cbn [andb] in *.
      2:{ injection Hs as <-. rewrite <- Htg. destruct l as [|[|[|l]]]; reflexivity. }
      destruct (select_bind w0 nb) as [l'|]; [destruct (local_of w0) as [b|]|];
        try (injection Hs as <-; rewrite <- Htg; destruct l as [|[|[|l]]]; reflexivity).
      destruct (get_other w1 l') as [o|] eqn:Eo; injection Hs as <-.
      * replace (get_other (set_branch (set_other w1 l' (mkOB (o_tip o) (merge_tags (b_tags b) (o_tags o)) (o_own o))) BNone) l)
          with (get_other (set_other w1 l' (mkOB (o_tip o) (merge_tags (b_tags b) (o_tags o)) (o_own o))) l)
          by (destruct l as [|[|[|l]]]; reflexivity).
        rewrite get_set_other. pose proof (get_other_lt _ _ _ Eo) as Hl.
        rewrite (Nat.eqb_sym l l'). destruct (l' =? l) eqn:E.
        -- apply Nat.eqb_eq in E. subst l'. apply Nat.ltb_lt in Hl. rewrite Hl. cbn.
           rewrite <- Htg, Eo. reflexivity.
        -- cbn. apply Htg.
      * replace (get_other (set_branch w1 BNone) l) with (get_other w1 l) by (destruct l as [|[|[|l]]]; reflexivity).
        destruct (l =? l') eqn:E; [|apply Htg].
        apply Nat.eqb_eq in E. subst l'. rewrite <- Htg, Eo. reflexivity.
  - (* create_branch *)
    pose proof (s5c_frame p w0 w1) as F. rewrite (ok_world _ _ _ Hs) in F. cbn in F.
    destruct F as (_ & _ & _ & Ftr & Fi & Fs & Ff). destruct (others_same w1 w2 Fi Fs Ff) as [O1 O2].
    split; [|split; [|split]]; [ | intros l; rewrite O1; auto | rewrite Ftr; exact Htr
                               | intros l; rewrite O2; apply Htg].
    unfold step_create_branch in Hs. cbn [branch_at] in *. unfold B7, new_branch.
    destruct (p_create_branch p); [|injection Hs as <-; auto].
    destruct (find_repo w1); [|discriminate Hs]. injection Hs as <-. reflexivity.
  - (* create_reference *)
    pose proof (s5d_frame p w0 nb w1) as F. rewrite (ok_world _ _ _ Hs) in F. cbn in F.
    destruct F as (_ & _ & _ & Ftr & Fi & Fs & Ff). destruct (others_same w1 w2 Fi Fs Ff) as [O1 O2].
    split; [|split; [|split]]; [ | intros l; rewrite O1; auto | rewrite Ftr; exact Htr
                               | intros l; rewrite O2; apply Htg].
    unfold step_create_reference in Hs. cbn [branch_at] in *. unfold B8, l8.
    destruct (p_create_reference p); [|injection Hs as <-; auto].
    destruct (select_bind w0 nb); [|discriminate Hs]. injection Hs as <-. reflexivity.
  - (* trees *)
    pose proof (s6_frame p w1) as F. rewrite (ok_world _ _ _ Hs) in F. cbn in F.
    destruct F as (_ & _ & _ & Fb & Fi & Fs & Ff). destruct (others_same w1 w2 Fi Fs Ff) as [O1 O2].
    split; [|split; [|split]]; [rewrite Fb; exact Hb | intros l; rewrite O1; auto |
                               | intros l; rewrite O2; apply Htg].
    unfold step_trees in Hs. unfold tree_at in *. cbn [Nat.leb] in *. unfold T9.
    assert (E : forall t, eff_tip (set_tree w1 t) = efft B8 tips0).
    { intros t. rewrite eff_tip_efft. cbn [set_tree w_branch]. rewrite Hb. cbn [branch_at].
      destruct B8; cbn; auto.
      replace (get_other (set_tree w1 t) l) with (get_other w1 l) by (destruct l as [|[|[|l]]]; reflexivity).
      apply Ht. }
    assert (E' : eff_tip w1 = efft B8 tips0).
    { rewrite eff_tip_efft, Hb. cbn [branch_at]. destruct B8; cbn; auto. }
    destruct (p_create_tree p); injection Hs as <-.
    + destruct (p_destroy_tree p); cbn [set_tree w_tree]; rewrite ?E, ?E'; reflexivity.
    + destruct (p_destroy_tree p); cbn; auto.
  - (* unbind *)
    pose proof (s7_frame p w1) as F. rewrite (ok_world _ _ _ Hs) in F. cbn in F.
    destruct F as (_ & _ & _ & Ftr & Fi & Fs & Ff). destruct (others_same w1 w2 Fi Fs Ff) as [O1 O2].
    split; [|split; [|split]]; [ | intros l; rewrite O1; auto | rewrite Ftr; exact Htr
                               | intros l; rewrite O2; apply Htg].
    unfold step_unbind in Hs. cbn [branch_at] in *. unfold B10.
    destruct (p_unbind p); [|injection Hs as <-; auto].
    rewrite Hb in Hs. destruct B8; injection Hs as <-; cbn; auto.
  - (* bind *)
    pose proof (s8_frame p w0 nb w1) as F. rewrite (ok_world _ _ _ Hs) in F. cbn in F.
    destruct F as (_ & _ & _ & Ftr & Fi & Fs & Ff). destruct (others_same w1 w2 Fi Fs Ff) as [O1 O2].
    split; [|split; [|split]]; [ | intros l; rewrite O1; auto | rewrite Ftr; exact Htr
                               | intros l; rewrite O2; apply Htg].
    unfold step_bind in Hs. cbn [branch_at] in *. unfold B11, bind_b, l8.
    destruct (p_bind p); [|injection Hs as <-; auto].
    destruct (select_bind w0 nb) as [l|]; [|discriminate Hs].
    rewrite Hb in Hs. destruct B10; try discriminate Hs. injection Hs as <-. cbn; auto.
  - (* destroy_repository *)
    pose proof (s9_frame p w1) as F. rewrite (ok_world _ _ _ Hs) in F. cbn in F.
    destruct F as (_ & _ & Fb & Ftr & Fi & Fs & Ff). destruct (others_same w1 w2 Fi Fs Ff) as [O1 O2].
    split; [|split; [|split]]; [rewrite Fb; exact Hb | intros l; rewrite O1; auto | rewrite Ftr; exact Htr
                               | intros l; rewrite O2; apply Htg].
  - (* repository_trees *)
    pose proof (s10_frame p w1) as F. rewrite (ok_world _ _ _ Hs) in F. cbn in F.
    destruct F as (_ & Fb & Ftr & Fi & Fs & Ff & _). destruct (others_same w1 w2 Fi Fs Ff) as [O1 O2].
    split; [|split; [|split]]; [rewrite Fb; exact Hb | intros l; rewrite O1; auto | rewrite Ftr; exact Htr
                               | intros l; rewrite O2; apply Htg].
Qed.

Lemma Inv_0 : Inv 0 w0.
Proof.
  split; [|split; [|split]]; auto.
Qed.

(* what a completed apply() leaves: the branch, the other branches' tips and tags, the tree *)
Lemma apply_final force w' : apply force nb p w0 = Ok w' -> Inv 13 w'.
Proof. intros H. exact (apply_ok_inv Inv force nb p w0 w' Inv_0 Inv_step H). Qed.

End Chain.

(* ---- a created reference points to an existing branch ------------------------------------------ *)
Section Chain2.
Variables (p : plan) (w0 : world) (nb : option loc).

Definition RefOk (j : nat) : Prop :=
  3 <= j -> p_create_reference p = true ->
  select_bind w0 nb <> None /\ is_some (tips0 w0 (l8 w0 nb)) = true.

Definition Inv2 (j : nat) (w : world) : Prop := Inv p w0 nb j w /\ RefOk j.

Lemma Inv2_step j s w1 w2 :
  nth_error (steps nb p w0) j = Some s -> Inv2 j w1 -> s w1 = Ok w2 -> Inv2 (S j) w2.
Proof.
  intros Hn [HI HR] Hs. split; [exact (Inv_step p w0 nb j s w1 w2 Hn HI Hs)|].
  intros Hj Hcr. destruct (Nat.eq_dec j 2) as [->|Hne]; [|apply HR; [lia|exact Hcr]].
  apply steps_cases in Hn.
  destruct Hn as [[E _]|[[E _]|[[_ ->]|[[E _]|[[E _]|[[E _]|[[E _]|[[E _]|[[E _]|[[E _]|[[E _]|[[E _]|[E _]]]]]]]]]]]]];
    try discriminate E.
  unfold step_open_reference in Hs. rewrite Hcr in Hs. unfold l8.
  destruct (select_bind w0 nb) as [l|]; [|discriminate Hs].
  destruct (get_other w1 l) as [o|] eqn:Eo; [|discriminate Hs].
  destruct HI as (_ & Ht & _). split; [discriminate|]. rewrite <- Ht, Eo. reflexivity.
Qed.

Lemma apply_final2 force w' : apply force nb p w0 = Ok w' -> Inv2 13 w'.
Proof.
  intros H. apply (apply_ok_inv Inv2 force nb p w0 w'); [|exact Inv2_step|exact H].
  split; [apply Inv_0|]. intros Hj. lia.
Qed.
End Chain2.

Lemma is_some_otip (o : option obranch) : is_some (otip o) = is_some o.
Proof. destruct o; reflexivity. Qed.

Lemma is_some_ref (o : option obranch) (l : loc) :
  is_some (match o with Some x => Some (l, x) | None => None end) = is_some o.
Proof. destruct o; reflexivity. Qed.

(* ---- C52_plan_reaches_target ------------------------------------------------------------------- *)

Definition facts_reached (f : facts) (wn : bool * bool * bool * bool) : bool :=
  let '(wt, wb, wbd, wr) := wn in
  Bool.eqb (f_tree f) wt && Bool.eqb (is_some (f_lb f)) wb
  && Bool.eqb (match f_lb f with Some b => b | None => false end) wbd && Bool.eqb (f_ref f) wr.

Lemma factory_plan w t p wt wb wbd wr :
  wants t = Some (wt, wb, wbd, wr) -> factory w t = inl p ->
  plan_changes (facts_of w) wt wb wbd wr = Some p.
Proof.
  destruct t; cbn [wants]; intros Hw Hf; try discriminate Hw; injection Hw as <- <- <- <-;
    unfold factory in Hf; cbn [wants] in Hf;
    (destruct (plan_changes (facts_of w) _ _ _ _) as [p0|]; [|discriminate Hf]);
    (destruct (changes_planned p0); [|discriminate Hf]); congruence.
Qed.

Theorem reaches_target t force nb w w' wn :
  wants t = Some wn -> reconfigure t force nb w = Ok w' -> facts_reached (facts_of w') wn = true.
Proof.
  intros Hw H. unfold reconfigure in H. destruct (factory w t) as [p|e] eqn:Hf; [|discriminate H].
  destruct wn as [[[wt wb] wbd] wr].
  pose proof (factory_plan _ _ _ _ _ _ _ Hw Hf) as Hp.
  destruct (apply_final2 p w nb force w' H) as [(Hb & Ht & Htr & _) H5].
  assert (Hex : forall l, is_some (get_other w' l) = is_some (get_other w l)).
  { intros l. rewrite <- !is_some_otip. rewrite Ht. reflexivity. }
  assert (H5' : p_create_reference p = true -> is_some (get_other w (l8 w nb)) = true).
  { intros Hcr. destruct (H5 ltac:(lia) Hcr) as [_ H6]. unfold tips0 in H6. rewrite is_some_otip in H6. exact H6. }
  clear H5. rename H5' into H5.
  unfold facts_reached, facts_of, local_of, refd_of. rewrite Hb, Htr. cbn [branch_at tree_at Nat.leb].
  unfold plan_changes in Hp.
  destruct t; cbn [wants] in Hw; try discriminate Hw; injection Hw as <- <- <- <-; cbn in Hp;
    injection Hp as <-; revert H5;
    unfold B11, B10, B8, B7, B6, B5, T9, new_branch, bind_b, unbind_b, facts_of, local_of, refd_of, is_bound;
    cbn [p_unbind p_bind p_destroy_reference p_create_reference p_destroy_branch p_create_branch
         p_destroy_tree p_create_tree p_create_repository p_destroy_repository f_ref f_lb f_tree f_repo];
    destruct (w_tree w); (destruct (w_branch w) as [|[tip tags [[[] bl]|] push parent]|l]; cbn;
    [..|destruct (get_other w l) eqn:Eo; cbn]);
    intros H5; rewrite ?is_some_ref, ?Hex, ?Eo; cbn; try reflexivity; try (rewrite (H5 eq_refl); reflexivity).
Qed.
