(* Theory/Reconf52.v -- C52: what a completed Reconfigure.apply() does to the location
   (Model/Reconf52.v), for EVERY world: arbitrary revision graph, revision sets, tags, other
   branches.  The case analysis is over the finite layout only (plan flags, kind of branch). *)
From Coq Require Import List Bool Arith String Lia.
Import ListNotations.
From BV Require Import Lib.Obs Lib.Dag Theory.DagFacts Model.Reconf52 Theory.Reconf52Base.
Open Scope string_scope.
Open Scope nat_scope.
Open Scope list_scope.

Definition has_local (w : world) : bool := is_some (local_of w).
Definition has_ref (w : world) : bool := is_some (refd_of w).

(* what the factories guarantee about the plans they hand to apply() *)
Definition plan_wf (p : plan) (w : world) : bool :=
  implb (p_destroy_branch p) (p_create_reference p && has_local w)
  && implb (p_destroy_reference p) (p_create_branch p && has_ref w)
  && implb (p_create_branch p) (negb (has_local w) && negb (p_create_reference p)
                                && (p_destroy_reference p || negb (has_ref w))
                                && (is_some (find_repo w) || p_create_repository p))
  && implb (p_create_reference p) (negb (has_ref w) && negb (p_create_repository p)
                                   && (p_destroy_branch p || negb (has_local w)))
  && implb (p_create_repository p) (negb (is_some (w_repo w)) && negb (p_destroy_repository p))
  && implb (p_destroy_repository p) (is_some (w_repo w))
  && implb (p_destroy_repository p && p_create_reference p)
           (match w_repo w with Some r => negb (r_shared r) | None => false end)
  && implb (p_destroy_tree p) (is_some (w_tree w) && negb (p_create_tree p))
  && implb (p_create_tree p) (negb (is_some (w_tree w)))
  && implb (p_unbind p) (has_local w && negb (p_bind p))
  && implb (p_bind p) (p_create_branch p || (has_local w && negb (p_destroy_branch p)))
  && implb (has_ref w && negb (p_destroy_reference p)) (negb (p_create_branch p) && negb (p_create_reference p)).

Lemma factory_wf w t p : factory w t = inl p -> plan_wf p w = true.
Proof.
  destruct w as [g rp ou br tr inn sib far].
  unfold factory, plan_wf, has_local, has_ref, facts_of, find_repo, local_of, refd_of, wants,
         set_use_shared, plan_changes, changes_planned.
  cbn [w_repo w_outer w_branch w_tree w_inner w_sib w_far].
  destruct t as [| | | | | |[]]; destruct rp as [[[] [] ?]|]; destruct ou as [[? [] ?]|];
    destruct tr; (destruct br as [|[? ? [[[] ?]|] ? ?]|[|[|[|l]]]]; cbn;
    [..|destruct inn|destruct sib|destruct far|]); cbn;
    intros H; try discriminate H; injection H as <-; reflexivity.
Qed.

(* ---------------------------------------------------------------------------------------------- *)
Section Chain.
Variables (p : plan) (w0 : world) (nb : option loc).

Definition l8 : loc := match select_bind w0 nb with Some l => l | None => 0 end.
Definition B5 : branch_st := if p_destroy_reference p then BNone else w_branch w0.
Definition B6 : branch_st := if p_destroy_branch p then BNone else B5.
Definition new_branch : branch_st :=
  BLocal (mkLB (match lri_of p w0 with Some t => t | None => None end)
               (if p_destroy_reference p
                then match refd_of w0 with Some (_, o) => merge_tags (o_tags o) [] | None => [] end
                else [])
               None None None).
Definition B7 : branch_st := if p_create_branch p then new_branch else B6.
Definition B8 : branch_st := if p_create_reference p then BRef l8 else B7.
Definition unbind_b (b : branch_st) : branch_st :=
  match b with
  | BLocal x => BLocal (mkLB (b_tip x) (b_tags x)
                             (match b_bloc x with Some (_, l) => Some (false, l) | None => None end)
                             (b_push x) (b_parent x))
  | _ => b
  end.
Definition bind_b (b : branch_st) : branch_st :=
  match b with
  | BLocal x => BLocal (mkLB (b_tip x) (b_tags x) (Some (true, l8)) (b_push x) (b_parent x))
  | _ => b
  end.
Definition B10 : branch_st := if p_unbind p then unbind_b B8 else B8.
Definition B11 : branch_st := if p_bind p then bind_b B10 else B10.

Definition branch_at (j : nat) : branch_st :=
  match j with
  | 0 | 1 | 2 | 3 | 4 => w_branch w0
  | 5 => B5 | 6 => B6 | 7 => B7 | 8 | 9 => B8 | 10 => B10 | _ => B11
  end.

Definition efft (b : branch_st) (tips : loc -> option (option revid)) : option (option revid) :=
  match b with BLocal x => Some (b_tip x) | BRef l => tips l | BNone => None end.
Lemma eff_tip_efft w : eff_tip w = efft (w_branch w) (fun l => otip (get_other w l)).
Proof. unfold eff_tip, efft, otip. destruct (w_branch w); auto. destruct (get_other w l); auto. Qed.

Definition tips0 : loc -> option (option revid) := fun l => otip (get_other w0 l).
Definition T9 : option tree :=
  if p_create_tree p
  then Some (mkTree (tip_list (match efft B8 tips0 with Some t => t | None => None end)) [])
  else if p_destroy_tree p then None else w_tree w0.
Definition tree_at (j : nat) : option tree := if j <=? 8 then w_tree w0 else T9.

(* the tags of the other branches: only destroy_branch touches them (merge into the reference) *)
Definition tags_at (after : bool) (l : loc) : option tagd :=
  if after && p_destroy_branch p && p_create_reference p then
    match select_bind w0 nb, local_of w0 with
    | Some l', Some b =>
        if l =? l' then option_map (fun t => merge_tags (b_tags b) t) (otags (get_other w0 l))
        else otags (get_other w0 l)
    | _, _ => otags (get_other w0 l)
    end
  else otags (get_other w0 l).

Definition Inv (j : nat) (w : world) : Prop :=
  w_branch w = branch_at j
  /\ (forall l, otip (get_other w l) = tips0 l)
  /\ w_tree w = tree_at j
  /\ (forall l, otags (get_other w l) = tags_at (6 <=? j) l).

Lemma others_same w w' :
  w_inner w' = w_inner w -> w_sib w' = w_sib w -> w_far w' = w_far w ->
  (forall l, otip (get_other w' l) = otip (get_other w l)) /\
  (forall l, otags (get_other w' l) = otags (get_other w l)).
Proof. intros A B C. split; intros l; rewrite (get_other_ext _ _ A B C l); reflexivity. Qed.

Lemma Inv_step j s w1 w2 :
  nth_error (steps nb p w0) j = Some s -> Inv j w1 -> s w1 = Ok w2 -> Inv (S j) w2.
Proof.
  intros Hn (Hb & Ht & Htr & Htg) Hs.
  step_cases j Hn.
  - (* create_repository *)
    pose proof (s1_frame p w0 w1) as F. rewrite (ok_world _ _ _ Hs) in F. cbn in F.
    destruct F as (_ & _ & Fb & Ftr & Fi & Fs & Ff). destruct (others_same w1 w2 Fi Fs Ff) as [O1 O2].
    split; [|split; [|split]]; [rewrite Fb; exact Hb | intros l; rewrite O1; auto | rewrite Ftr; exact Htr
                               | intros l; rewrite O2; apply Htg].
  - (* fetch_referenced *)
    pose proof (s2_frame p w0 w1) as F. rewrite (ok_world _ _ _ Hs) in F. cbn in F.
    destruct F as (_ & Fb & Ftr & Fi & Fs & Ff). destruct (others_same w1 w2 Fi Fs Ff) as [O1 O2].
    split; [|split; [|split]]; [rewrite Fb; exact Hb | intros l; rewrite O1; auto | rewrite Ftr; exact Htr
                               | intros l; rewrite O2; apply Htg].
  - (* open_reference *)
    pose proof (s3_frame p w0 nb w1) as F. rewrite (ok_world _ _ _ Hs) in F. subst w2.
    split; [|split; [|split]]; auto.
  - (* destroy_repository_fetch *)
    pose proof (s4_frame p w0 nb w1) as F. rewrite (ok_world _ _ _ Hs) in F. cbn in F.
    destruct F as (_ & Fb & Ftr & O1 & O2).
    split; [|split; [|split]]; [rewrite Fb; exact Hb | intros l; rewrite O1; auto | rewrite Ftr; exact Htr
                               | intros l; rewrite O2; apply Htg].
  - (* destroy_reference *)
    pose proof (s5a_frame p w1) as F. rewrite (ok_world _ _ _ Hs) in F. cbn in F.
    destruct F as (_ & _ & _ & Ftr & Fi & Fs & Ff). destruct (others_same w1 w2 Fi Fs Ff) as [O1 O2].
    split; [|split; [|split]]; [ | intros l; rewrite O1; auto | rewrite Ftr; exact Htr
                               | intros l; rewrite O2; apply Htg].
    unfold step_destroy_reference in Hs. cbn [branch_at] in *. unfold B5.
    destruct (p_destroy_reference p); injection Hs as <-; cbn; auto.
  - (* destroy_branch *)
    pose proof (s5b_frame p w0 nb w1) as F. rewrite (ok_world _ _ _ Hs) in F. cbn in F.
    destruct F as (_ & _ & _ & Ftr & O1 & _).
    split; [|split; [|split]]; [ | intros l; rewrite O1; auto | rewrite Ftr; exact Htr | ].
    + unfold step_destroy_branch in Hs. cbn [branch_at] in *. unfold B6.
      destruct (p_destroy_branch p); injection Hs as <-; cbn; auto.
    + intros l. unfold step_destroy_branch in Hs. unfold tags_at in *. cbn [Nat.leb andb] in *.
      destruct (p_destroy_branch p); cbn [andb] in *; [|injection Hs as <-; apply Htg].
      destruct (p_create_reference p); cbn [andb] in *.
      2:{ injection Hs as <-. rewrite <- Htg. destruct l as [|[|[|l]]]; reflexivity. }
      destruct (select_bind w0 nb) as [l'|]; [destruct (local_of w0) as [b|]|];
        try (injection Hs as <-; rewrite <- Htg; destruct l as [|[|[|l]]]; reflexivity).
      destruct (get_other w1 l') as [o|] eqn:Eo; injection Hs as <-.
      * replace (get_other (set_branch (set_other w1 l' (mkOB (o_tip o) (merge_tags (b_tags b) (o_tags o)) (o_own o))) BNone) l)
          with (get_other (set_other w1 l' (mkOB (o_tip o) (merge_tags (b_tags b) (o_tags o)) (o_own o))) l)
          by (destruct l as [|[|[|l]]]; reflexivity).
        rewrite get_set_other. pose proof (get_other_lt _ _ _ Eo) as Hl.
        rewrite (Nat.eqb_sym l l'). destruct (l' =? l) eqn:E.
        -- apply Nat.eqb_eq in E. subst l'. apply Nat.ltb_lt in Hl. rewrite Hl. cbn.
           rewrite <- Htg, Eo. reflexivity.
        -- cbn. apply Htg.
      * replace (get_other (set_branch w1 BNone) l) with (get_other w1 l) by (destruct l as [|[|[|l]]]; reflexivity).
        destruct (l =? l') eqn:E; [|apply Htg].
        apply Nat.eqb_eq in E. subst l'. rewrite <- Htg, Eo. reflexivity.
  - (* create_branch *)
    pose proof (s5c_frame p w0 w1) as F. rewrite (ok_world _ _ _ Hs) in F. cbn in F.
    destruct F as (_ & _ & _ & Ftr & Fi & Fs & Ff). destruct (others_same w1 w2 Fi Fs Ff) as [O1 O2].
    split; [|split; [|split]]; [ | intros l; rewrite O1; auto | rewrite Ftr; exact Htr
                               | intros l; rewrite O2; apply Htg].
    unfold step_create_branch in Hs. cbn [branch_at] in *. unfold B7, new_branch.
    destruct (p_create_branch p); [|injection Hs as <-; auto].
    destruct (find_repo w1); [|discriminate Hs]. injection Hs as <-. reflexivity.
  - (* create_reference *)
    pose proof (s5d_frame p w0 nb w1) as F. rewrite (ok_world _ _ _ Hs) in F. cbn in F.
    destruct F as (_ & _ & _ & Ftr & Fi & Fs & Ff). destruct (others_same w1 w2 Fi Fs Ff) as [O1 O2].
    split; [|split; [|split]]; [ | intros l; rewrite O1; auto | rewrite Ftr; exact Htr
                               | intros l; rewrite O2; apply Htg].
    unfold step_create_reference in Hs. cbn [branch_at] in *. unfold B8, l8.
    destruct (p_create_reference p); [|injection Hs as <-; auto].
    destruct (select_bind w0 nb); [|discriminate Hs]. injection Hs as <-. reflexivity.
  - (* trees *)
    pose proof (s6_frame p w1) as F. rewrite (ok_world _ _ _ Hs) in F. cbn in F.
    destruct F as (_ & _ & _ & Fb & Fi & Fs & Ff). destruct (others_same w1 w2 Fi Fs Ff) as [O1 O2].
    split; [|split; [|split]]; [rewrite Fb; exact Hb | intros l; rewrite O1; auto |
                               | intros l; rewrite O2; apply Htg].
    unfold step_trees in Hs. unfold tree_at in *. cbn [Nat.leb] in *. unfold T9.
    assert (E : forall t, eff_tip (set_tree w1 t) = efft B8 tips0).
    { intros t. rewrite eff_tip_efft. cbn [set_tree w_branch]. rewrite Hb. cbn [branch_at].
      destruct B8; cbn; auto.
      replace (get_other (set_tree w1 t) l) with (get_other w1 l) by (destruct l as [|[|[|l]]]; reflexivity).
      apply Ht. }
    assert (E' : eff_tip w1 = efft B8 tips0).
    { rewrite eff_tip_efft, Hb. cbn [branch_at]. destruct B8; cbn; auto. }
    destruct (p_create_tree p); injection Hs as <-.
    + destruct (p_destroy_tree p); cbn [set_tree w_tree]; rewrite ?E, ?E'; reflexivity.
    + destruct (p_destroy_tree p); cbn; auto.
  - (* unbind *)
    pose proof (s7_frame p w1) as F. rewrite (ok_world _ _ _ Hs) in F. cbn in F.
    destruct F as (_ & _ & _ & Ftr & Fi & Fs & Ff). destruct (others_same w1 w2 Fi Fs Ff) as [O1 O2].
    split; [|split; [|split]]; [ | intros l; rewrite O1; auto | rewrite Ftr; exact Htr
                               | intros l; rewrite O2; apply Htg].
    unfold step_unbind in Hs. cbn [branch_at] in *. unfold B10.
    destruct (p_unbind p); [|injection Hs as <-; auto].
    rewrite Hb in Hs. destruct B8; injection Hs as <-; reflexivity.
  - (* bind *)
    pose proof (s8_frame p w0 nb w1) as F. rewrite (ok_world _ _ _ Hs) in F. cbn in F.
    destruct F as (_ & _ & _ & Ftr & Fi & Fs & Ff). destruct (others_same w1 w2 Fi Fs Ff) as [O1 O2].
    split; [|split; [|split]]; [ | intros l; rewrite O1; auto | rewrite Ftr; exact Htr
                               | intros l; rewrite O2; apply Htg].
    unfold step_bind in Hs. cbn [branch_at] in *. unfold B11, bind_b, l8.
    destruct (p_bind p); [|injection Hs as <-; auto].
    destruct (select_bind w0 nb) as [l|]; [|discriminate Hs].
    destruct (get_other w1 l); [|discriminate Hs].
    rewrite Hb in Hs. destruct B10; try discriminate Hs. injection Hs as <-. reflexivity.
  - (* destroy_repository *)
    pose proof (s9_frame p w1) as F. rewrite (ok_world _ _ _ Hs) in F. cbn in F.
    destruct F as (_ & _ & Fb & Ftr & Fi & Fs & Ff). destruct (others_same w1 w2 Fi Fs Ff) as [O1 O2].
    split; [|split; [|split]]; [rewrite Fb; exact Hb | intros l; rewrite O1; auto | rewrite Ftr; exact Htr
                               | intros l; rewrite O2; apply Htg].
  - (* repository_trees *)
    pose proof (s10_frame p w1) as F. rewrite (ok_world _ _ _ Hs) in F. cbn in F.
    destruct F as (_ & Fb & Ftr & Fi & Fs & Ff & _). destruct (others_same w1 w2 Fi Fs Ff) as [O1 O2].
    split; [|split; [|split]]; [rewrite Fb; exact Hb | intros l; rewrite O1; auto | rewrite Ftr; exact Htr
                               | intros l; rewrite O2; apply Htg].
Qed.

Lemma Inv_0 : Inv 0 w0.
Proof.
  split; [|split; [|split]]; auto. intros l. unfold tags_at. reflexivity.
Qed.

(* what a completed apply() leaves: the branch, the other branches' tips and tags, the tree *)
Lemma apply_final force w' : apply force nb p w0 = Ok w' -> Inv 13 w'.
Proof. intros H. exact (apply_ok_inv Inv force nb p w0 w' Inv_0 Inv_step H). Qed.

End Chain.
