(* Theory/FileGraph.v -- facts about Model/FileGraph.v (C02). *)
From Coq Require Import List Arith Bool Lia.
From BV Require Import Lib.Dag Theory.DagFacts Model.FileGraph.
Import ListNotations.

(* ---- the decision table (finite domain: 2^10 * 3 rows) ----------------------- *)

Lemma all_bools_complete b : In b all_bools.
Proof. destruct b; cbn; auto. Qed.

Lemma all_decs_complete d : In d all_decs.
Proof.
  destruct d as [b0 b1 b2 b3 b4 b5 b6 b7 b8 b9 k]. unfold all_decs.
  repeat (apply in_flat_map; eexists; split; [apply all_bools_complete|]).
  apply in_map_iff. exists k. split; [reflexivity|]. destruct k; cbn; auto.
Qed.

Lemma forall_decs (P : dec -> bool) : forallb P all_decs = true -> forall d, P d = true.
Proof. intros H d. rewrite forallb_forall in H. apply H, all_decs_complete. Qed.

(* exhaustive facts about [decide] *)
Definition dec_carry_sound (d : dec) : bool :=
  match decide d with
  | Carry => d_one_head d && d_found d && d_kind_same d && d_parent_same d && d_name_same d
             && match d_kind d with
                | KFile => d_exec_same d && d_content_same d
                | KLink => d_content_same d
                | KDir => true
                end
             && (d_changed d || d_has_merged d)
  | _ => true
  end.
Definition dec_skip_iff (d : dec) : bool :=
  Bool.eqb (match decide d with Skip => true | _ => false end) (negb (d_changed d) && negb (d_has_merged d)).
Definition dec_new_iff (d : dec) : bool :=
  Bool.eqb (match decide d with New => true | _ => false end)
           ((d_changed d || d_has_merged d)
            && negb (d_one_head d && d_found d && d_kind_same d && d_parent_same d && d_name_same d
                     && match d_kind d with
                        | KFile => d_exec_same d && d_content_same d
                        | KLink => d_content_same d
                        | KDir => true
                        end)).
(* a new version is forced whenever there is not exactly one head, or the head's entry is not at hand *)
Definition dec_merge_forces_new (d : dec) : bool :=
  if (d_changed d || d_has_merged d) && (negb (d_one_head d) || negb (d_found d))
  then match decide d with New => true | _ => false end else true.
(* inputs the outcome must not depend on *)
Definition dec_irrelevant (d : dec) : bool :=
  let same d' := match decide d, decide d' with Skip, Skip | Carry, Carry | New, New => true | _, _ => false end in
  same (mkDec (negb (d_in_basis d)) (d_changed d) (d_has_merged d) (d_one_head d) (d_found d) (d_kind_same d)
              (d_parent_same d) (d_name_same d) (d_exec_same d) (d_content_same d) (d_kind d))
  && match d_kind d with
     | KFile => true
     | _ => same (mkDec (d_in_basis d) (d_changed d) (d_has_merged d) (d_one_head d) (d_found d) (d_kind_same d)
                        (d_parent_same d) (d_name_same d) (negb (d_exec_same d)) (d_content_same d) (d_kind d))
     end
  && match d_kind d with
     | KDir => same (mkDec (d_in_basis d) (d_changed d) (d_has_merged d) (d_one_head d) (d_found d) (d_kind_same d)
                           (d_parent_same d) (d_name_same d) (d_exec_same d) (negb (d_content_same d)) (d_kind d))
     | _ => true
     end.

Lemma decision_table :
  forall d, dec_carry_sound d = true /\ dec_skip_iff d = true /\ dec_new_iff d = true
            /\ dec_merge_forces_new d = true /\ dec_irrelevant d = true.
Proof.
  intros d.
  pose (P := fun d => dec_carry_sound d && dec_skip_iff d && dec_new_iff d
                      && dec_merge_forces_new d && dec_irrelevant d).
  assert (H : P d = true).
  { apply (forall_decs P). vm_compute. reflexivity. }
  unfold P in H. repeat (apply andb_true_iff in H as [H ?]). auto.
Qed.

(* ---- equality tests are equalities ------------------------------------------------ *)

Lemma opt_fid_eqb_spec a b : opt_fid_eqb a b = true <-> a = b.
Proof.
  destruct a as [x|], b as [y|]; cbn; try (split; congruence).
  rewrite Nat.eqb_eq. split; congruence.
Qed.

Lemma payload_eqb_spec p q : payload_eqb p q = true <-> p = q.
Proof.
  destruct p as [x c|s|], q as [y d|t|]; cbn; try (split; congruence).
  - rewrite andb_true_iff, Bool.eqb_true_iff, Nat.eqb_eq. split; [intros [-> ->]; reflexivity | intros H; inversion H; auto].
  - rewrite Nat.eqb_eq. split; congruence.
Qed.

Lemma attrs_eqb_spec a b : attrs_eqb a b = true <-> a = b.
Proof.
  unfold attrs_eqb. rewrite !andb_true_iff, Nat.eqb_eq, opt_fid_eqb_spec, payload_eqb_spec.
  destruct a, b; cbn. split; [intros [[-> ->] ->]; reflexivity | intros H; inversion H; auto].
Qed.

Lemma entry_eqb_spec a b : entry_eqb a b = true <-> a = b.
Proof.
  unfold entry_eqb. rewrite andb_true_iff, attrs_eqb_spec, Nat.eqb_eq.
  destruct a, b; cbn. split; [intros [-> ->]; reflexivity | intros H; inversion H; auto].
Qed.

(* the per-kind comparison of record_iter_changes is equality of the attributes *)
Lemma carry_checks_eq (p a : attrs) :
  kind_eqb (pay_kind (a_pay p)) (pay_kind (a_pay a)) && opt_fid_eqb (a_parent p) (a_parent a)
  && (a_name p =? a_name a)
  && match pay_kind (a_pay a) with
     | KFile => Bool.eqb (pay_exec (a_pay p)) (pay_exec (a_pay a)) && (pay_content (a_pay p) =? pay_content (a_pay a))
     | KLink => pay_content (a_pay p) =? pay_content (a_pay a)
     | KDir => true
     end
  = attrs_eqb p a.
Proof.
  unfold attrs_eqb. destruct p as [n1 p1 [x c|s|]], a as [n2 p2 [y d|t|]]; cbn;
    destruct (n1 =? n2), (opt_fid_eqb p1 p2); cbn; try reflexivity;
    rewrite ?andb_true_r, ?andb_false_r; reflexivity.
Qed.
