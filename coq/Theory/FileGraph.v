(* Theory/FileGraph.v -- facts about Model/FileGraph.v (C02). *)
From Coq Require Import List Arith Bool Lia.
From BV Require Import Lib.Obs Lib.Dag Theory.DagFacts Model.FileGraph.
Import ListNotations.

(* ---- the decision table (finite domain: 2^10 * 3 rows) ----------------------- *)

Lemma all_bools_complete b : In b all_bools.
Proof. destruct b; cbn; auto. Qed.

Lemma all_decs_complete d : In d all_decs.
Proof.
  destruct d as [b0 b1 b2 b3 b4 b5 b6 b7 b8 b9 k]. unfold all_decs.
  repeat (apply in_flat_map; eexists; split; [apply all_bools_complete|]).
  apply in_map_iff. exists k. split; [reflexivity|]. destruct k; cbn; auto.
Qed.

Lemma forall_decs (P : dec -> bool) : forallb P all_decs = true -> forall d, P d = true.
Proof. intros H d. rewrite forallb_forall in H. apply H, all_decs_complete. Qed.

(* exhaustive facts about [decide] *)
Definition dec_carry_sound (d : dec) : bool :=
  match decide d with
  | Carry => d_one_head d && d_found d && d_kind_same d && d_parent_same d && d_name_same d
             && match d_kind d with
                | KFile => d_exec_same d && d_content_same d
                | KLink => d_content_same d
                | KDir => true
                end
             && (d_changed d || d_has_merged d)
  | _ => true
  end.
Definition dec_skip_iff (d : dec) : bool :=
  Bool.eqb (match decide d with Skip => true | _ => false end) (negb (d_changed d) && negb (d_has_merged d)).
Definition dec_new_iff (d : dec) : bool :=
  Bool.eqb (match decide d with New => true | _ => false end)
           ((d_changed d || d_has_merged d)
            && negb (d_one_head d && d_found d && d_kind_same d && d_parent_same d && d_name_same d
                     && match d_kind d with
                        | KFile => d_exec_same d && d_content_same d
                        | KLink => d_content_same d
                        | KDir => true
                        end)).
(* a new version is forced whenever there is not exactly one head, or the head's entry is not at hand *)
Definition dec_merge_forces_new (d : dec) : bool :=
  if (d_changed d || d_has_merged d) && (negb (d_one_head d) || negb (d_found d))
  then match decide d with New => true | _ => false end else true.
(* inputs the outcome must not depend on *)
Definition dec_irrelevant (d : dec) : bool :=
  let same d' := match decide d, decide d' with Skip, Skip | Carry, Carry | New, New => true | _, _ => false end in
  same (mkDec (negb (d_in_basis d)) (d_changed d) (d_has_merged d) (d_one_head d) (d_found d) (d_kind_same d)
              (d_parent_same d) (d_name_same d) (d_exec_same d) (d_content_same d) (d_kind d))
  && match d_kind d with
     | KFile => true
     | _ => same (mkDec (d_in_basis d) (d_changed d) (d_has_merged d) (d_one_head d) (d_found d) (d_kind_same d)
                        (d_parent_same d) (d_name_same d) (negb (d_exec_same d)) (d_content_same d) (d_kind d))
     end
  && match d_kind d with
     | KDir => same (mkDec (d_in_basis d) (d_changed d) (d_has_merged d) (d_one_head d) (d_found d) (d_kind_same d)
                           (d_parent_same d) (d_name_same d) (d_exec_same d) (negb (d_content_same d)) (d_kind d))
     | _ => true
     end.

Lemma decision_table :
  forall d, dec_carry_sound d = true /\ dec_skip_iff d = true /\ dec_new_iff d = true
            /\ dec_merge_forces_new d = true /\ dec_irrelevant d = true.
Proof.
  intros d.
  pose (P := fun d => dec_carry_sound d && dec_skip_iff d && dec_new_iff d
                      && dec_merge_forces_new d && dec_irrelevant d).
  assert (H : P d = true).
  { apply (forall_decs P). vm_compute. reflexivity. }
  unfold P in H. repeat (apply andb_true_iff in H as [H ?]). auto.
Qed.

(* ---- equality tests are equalities ------------------------------------------------ *)

Lemma opt_fid_eqb_spec a b : opt_fid_eqb a b = true <-> a = b.
Proof.
  destruct a as [x|], b as [y|]; cbn; try (split; congruence).
  rewrite Nat.eqb_eq. split; congruence.
Qed.

Lemma payload_eqb_spec p q : payload_eqb p q = true <-> p = q.
Proof.
  destruct p as [x c|s|], q as [y d|t|]; cbn; try (split; congruence).
  - rewrite andb_true_iff, Bool.eqb_true_iff, Nat.eqb_eq. split; [intros [-> ->]; reflexivity | intros H; inversion H; auto].
  - rewrite Nat.eqb_eq. split; congruence.
Qed.

Lemma attrs_eqb_spec a b : attrs_eqb a b = true <-> a = b.
Proof.
  unfold attrs_eqb. rewrite !andb_true_iff, Nat.eqb_eq, opt_fid_eqb_spec, payload_eqb_spec.
  destruct a, b; cbn. split; [intros [[-> ->] ->]; reflexivity | intros H; inversion H; auto].
Qed.

Lemma entry_eqb_spec a b : entry_eqb a b = true <-> a = b.
Proof.
  unfold entry_eqb. rewrite andb_true_iff, attrs_eqb_spec, Nat.eqb_eq.
  destruct a, b; cbn. split; [intros [-> ->]; reflexivity | intros H; inversion H; auto].
Qed.

(* the per-kind comparison of record_iter_changes is equality of the attributes *)
Lemma carry_checks_eq (p a : attrs) :
  kind_eqb (pay_kind (a_pay p)) (pay_kind (a_pay a)) && opt_fid_eqb (a_parent p) (a_parent a)
  && (a_name p =? a_name a)
  && match pay_kind (a_pay a) with
     | KFile => Bool.eqb (pay_exec (a_pay p)) (pay_exec (a_pay a)) && (pay_content (a_pay p) =? pay_content (a_pay a))
     | KLink => pay_content (a_pay p) =? pay_content (a_pay a)
     | KDir => true
     end
  = attrs_eqb p a.
Proof.
  unfold attrs_eqb. destruct p as [n1 p1 [x c|s|]], a as [n2 p2 [y d|t|]]; cbn;
    destruct (n1 =? n2), (opt_fid_eqb p1 p2); cbn; try reflexivity;
    rewrite ?andb_true_r, ?andb_false_r; reflexivity.
Qed.

(* ---- lists ------------------------------------------------------------------------------ *)

Lemma lookup_Some_In {A} f (l : list (fid * A)) x : lookup f l = Some x -> In (f, x) l.
Proof.
  unfold lookup. destruct (find (fun x0 => fst x0 =? f) l) as [p|] eqn:E; [|discriminate].
  intros [= <-]. apply find_some in E as [Hin Hf]. apply Nat.eqb_eq in Hf.
  destruct p as [f0 y]; cbn in *; subst; exact Hin.
Qed.

Lemma lookup_map {A B} (F : fid -> A -> B) f (l : list (fid * A)) :
  lookup f (map (fun x => (fst x, F (fst x) (snd x))) l) = option_map (F f) (lookup f l).
Proof.
  unfold lookup, fid in *. induction l as [|x l IH]; [reflexivity|]. cbn [map find fst snd].
  destruct (fst x =? f) eqn:E; [|exact IH].
  apply Nat.eqb_eq in E. subst. reflexivity.
Qed.

Lemma lookup_nil {A} f : @lookup A f [] = None.
Proof. reflexivity. Qed.

Lemma In_entries_of f ts e : In e (entries_of f ts) <-> exists t, In t ts /\ lookup f t = Some e.
Proof.
  unfold entries_of. rewrite in_flat_map. split; intros [t [Ht H]]; exists t; split; try exact Ht.
  - destruct (lookup f t) as [e'|]; [|contradiction]. destruct H as [->|[]]. reflexivity.
  - rewrite H. left. reflexivity.
Qed.

Lemma entries_of_cons f t ts :
  entries_of f (t :: ts) = (match lookup f t with Some e => [e] | None => [] end) ++ entries_of f ts.
Proof. reflexivity. Qed.

Lemma filter_all_true {A} (p : A -> bool) l : (forall x, In x l -> p x = true) -> filter p l = l.
Proof.
  induction l as [|x l IH]; intros H; [reflexivity|]. cbn.
  rewrite (H x (or_introl eq_refl)), IH; [reflexivity|]. intros y Hy. apply H. right. exact Hy.
Qed.

Lemma filter_nil_all_false {A} (p : A -> bool) l : filter p l = [] -> forall x, In x l -> p x = false.
Proof.
  induction l as [|y l IH]; intros H x Hx; [contradiction|]. cbn in H.
  destruct (p y) eqn:E; [discriminate|]. destruct Hx as [->|Hx]; [exact E | apply IH; assumption].
Qed.

Lemma find_In_Some {A} (p : A -> bool) l x : In x l -> p x = true -> exists y, find p l = Some y.
Proof.
  induction l as [|z l IH]; intros Hin Hp; [contradiction|]. cbn.
  destruct (p z) eqn:E; [eexists; reflexivity|].
  destruct Hin as [->|Hin]; [congruence | apply IH; assumption].
Qed.

(* ---- heads in candidate order -------------------------------------------------------------- *)

Lemma In_dedup_first seen l x : In x (dedup_first seen l) <-> In x l /\ ~ In x seen.
Proof.
  revert seen. induction l as [|y l IH]; intros seen; cbn [dedup_first]; [cbn; tauto|].
  destruct (memb y seen) eqn:E.
  - apply memb_In in E. rewrite IH. cbn. split; [tauto|]. intros [[->|H] N]; [contradiction | tauto].
  - apply memb_false in E. cbn [In]. rewrite IH. cbn [In].
    destruct (Nat.eq_dec y x) as [->|Ne]; [tauto|]. tauto.
Qed.

Lemma In_oheads G c k :
  In k (oheads G c) <-> In k c /\ (forall k', In k' c -> k' <> k -> is_ancestor G k k' = false).
Proof. unfold oheads. rewrite filter_In, In_dedup_first, negb_true_iff, dominated_false. cbn. tauto. Qed.

Lemma In_oheads_heads G c k : In k (oheads G c) <-> In k (heads G c).
Proof. rewrite In_oheads, heads_spec. tauto. Qed.

Lemma dominated_ext G c1 c2 k : (forall x, In x c1 <-> In x c2) -> dominated G c1 k = dominated G c2 k.
Proof.
  intros H. unfold dominated.
  destruct (existsb (fun k' => negb (k' =? k) && is_ancestor G k k') c2) eqn:E2.
  - apply existsb_exists in E2 as [x [Hx Hp]]. apply existsb_exists. exists x. split; [apply H; exact Hx | exact Hp].
  - apply not_true_is_false. intros E1. apply existsb_exists in E1 as [x [Hx Hp]].
    assert (X : existsb (fun k' => negb (k' =? k) && is_ancestor G k k') c2 = true).
    { apply existsb_exists. exists x. split; [apply H; exact Hx | exact Hp]. }
    congruence.
Qed.

Lemma oheads_nil G : oheads G [] = [].
Proof. reflexivity. Qed.

Lemma oheads_single G x : oheads G [x] = [x].
Proof. unfold oheads, dominated. cbn. rewrite Nat.eqb_refl. reflexivity. Qed.

Lemma dedup_first_filter_seen (keep : entry -> bool) (l : list entry) : forall seen,
  (forall e, In e l -> keep e = false -> In (e_rev e) seen) ->
  dedup_first seen (map e_rev (filter keep l)) = dedup_first seen (map e_rev l).
Proof.
  induction l as [|e l IH]; intros seen H; [reflexivity|]. cbn [filter map].
  destruct (keep e) eqn:K.
  - cbn [map dedup_first]. destruct (memb (e_rev e) seen).
    + apply IH. intros e' He' K'. apply (H e' (or_intror He') K').
    + f_equal. apply IH. intros e' He' K'. right. apply (H e' (or_intror He') K').
  - cbn [dedup_first]. assert (M : memb (e_rev e) seen = true) by (apply memb_In, (H e (or_introl eq_refl) K)).
    rewrite M. apply IH. intros e' He' K'. apply (H e' (or_intror He') K').
Qed.

(* dropping candidates equal to the first one changes nothing *)
Lemma oheads_merged G (b : entry) (os : list entry) (keep : entry -> bool) :
  (forall e, In e os -> keep e = false -> e_rev e = e_rev b) ->
  oheads G (map e_rev (b :: filter keep os)) = oheads G (map e_rev (b :: os)).
Proof.
  intros H. unfold oheads. cbn [map dedup_first memb existsb].
  rewrite (dedup_first_filter_seen keep os [e_rev b]).
  - apply filter_ext. intros k. f_equal. apply dominated_ext. intros x. cbn [In].
    rewrite !in_map_iff. split.
    + intros [E|[e [E He]]]; [left; exact E|]. apply filter_In in He as [He _]. right. exists e. auto.
    + intros [E|[e [E He]]]; [left; exact E|]. destruct (keep e) eqn:K.
      * right. exists e. split; [exact E|]. apply filter_In. auto.
      * left. rewrite <- E. symmetry. apply H; assumption.
  - intros e He K. left. symmetry. apply H; assumption.
Qed.

(* ---- what record_iter_changes computes for one entry ------------------------------------------ *)

(* The specification: P = the entries of the file in the parents (in parent
   order).  If the versions named there have exactly one head and the entry
   holding it has the same attributes, that entry is kept; otherwise a new
   version is recorded whose parents are the heads. *)
Definition spec_entry (G : dag) (new : revid) (P : list entry) (a : attrs) : entry * option (list revid) :=
  let hs := oheads G (map e_rev P) in
  match hs with
  | [h] => match find (fun e => e_rev e =? h) P with
           | Some pe => if attrs_eqb (e_attrs pe) a then (pe, None) else (mkE a new, Some hs)
           | None => (mkE a new, Some hs)
           end
  | _ => (mkE a new, Some hs)
  end.

Lemma decide_eq d :
  decide d =
  if negb (d_changed d) && negb (d_has_merged d) then Skip
  else if d_one_head d && d_found d
          && (d_kind_same d && d_parent_same d && d_name_same d
              && match d_kind d with
                 | KFile => d_exec_same d && d_content_same d
                 | KLink => d_content_same d
                 | KDir => true
                 end)
       then Carry else New.
Proof.
  destruct d as [b0 b1 b2 b3 b4 b5 b6 b7 b8 b9 k]. unfold decide. cbn.
  destruct b1, b2; cbn; try reflexivity; destruct b3, b4, b5, b6, b7, k; cbn; try reflexivity;
    destruct b8; cbn; try reflexivity; destruct b9; reflexivity.
Qed.

(* commit_entry without the decision record *)
Definition commit_entry_flat (c : cfg) (g : dag) (texts : list textrow) (new : revid)
           (ptrees : list tree) (f : fid) (a : attrs) : entry * option (list revid) :=
  let be := lookup f (hd [] ptrees) in
  let bl := match be with Some b => [b] | None => [] end in
  let merged := filter (fun e => negb (opt_entry_eqb be (Some e))) (entries_of f (tl ptrees)) in
  let changed := match be with Some b => negb (attrs_eqb (e_attrs b) a) | None => true end in
  let hs := oheads (heads_graph c g texts f) (map e_rev (bl ++ merged)) in
  let pe := match hs with
            | [h] => if negb (is_nil merged) then find_last (fun e => e_rev e =? h) (bl ++ merged) else None
            | _ => None
            end in
  if negb changed && is_nil merged then (match be with Some b => b | None => mkE a new end, None)
  else match pe with
       | Some p => if attrs_eqb (e_attrs p) a then (mkE a (e_rev p), None) else (mkE a new, Some hs)
       | None => (mkE a new, Some hs)
       end.

Lemma commit_entry_unfold c g texts new ptrees f a :
  rich_root c || negb (is_root a) = true ->
  commit_entry c g texts new ptrees f a = commit_entry_flat c g texts new ptrees f a.
Proof.
  intros R. unfold commit_entry, commit_entry_flat.
  assert (R' : negb (rich_root c) && is_root a = false) by (destruct (rich_root c), (is_root a); cbn in *; congruence).
  rewrite R'. cbv zeta. rewrite decide_eq. cbn [d_changed d_has_merged d_one_head d_found d_kind_same d_parent_same
    d_name_same d_exec_same d_content_same d_kind]. rewrite negb_involutive.
  set (be := lookup f (hd [] ptrees)).
  set (bl := match be with Some b => [b] | None => [] end).
  set (merged := filter (fun e => negb (opt_entry_eqb be (Some e))) (entries_of f (tl ptrees))).
  set (hs := oheads (heads_graph c g texts f) (map e_rev (bl ++ merged))).
  destruct (negb match be with Some b => negb (attrs_eqb (e_attrs b) a) | None => true end && is_nil merged);
    [reflexivity|].
  destruct hs as [|h [|h2 t]]; cbn; try reflexivity.
  destruct (if negb (is_nil merged) then find_last (fun e => e_rev e =? h) (bl ++ merged) else None) as [p|];
    cbn; [|reflexivity].
  rewrite carry_checks_eq. destruct (attrs_eqb (e_attrs p) a); reflexivity.
Qed.

Lemma find_last_some {A} (p : A -> bool) l x : find_last p l = Some x -> In x l /\ p x = true.
Proof. unfold find_last. intros H. apply find_some in H as [H1 H2]. split; [apply in_rev; exact H1 | exact H2]. Qed.

Lemma find_last_In_Some {A} (p : A -> bool) l x : In x l -> p x = true -> exists y, find_last p l = Some y.
Proof. intros H1 H2. unfold find_last. apply (find_In_Some p (rev l) x); [apply in_rev in H1; exact H1 | exact H2]. Qed.

Definition same_rev_same_entry (P : list entry) : Prop :=
  forall e1 e2, In e1 P -> In e2 P -> e_rev e1 = e_rev e2 -> e1 = e2.

Lemma pick_same (L1 L2 : list entry) h a new (hs : list revid) :
  (forall x, In x L1 -> In x L2) -> In h (map e_rev L1) -> same_rev_same_entry L2 ->
  match find_last (fun e => e_rev e =? h) L1 with
  | Some p => if attrs_eqb (e_attrs p) a then (mkE a (e_rev p), None) else (mkE a new, Some hs)
  | None => (mkE a new, Some hs)
  end =
  match find (fun e => e_rev e =? h) L2 with
  | Some pe => if attrs_eqb (e_attrs pe) a then (pe, None) else (mkE a new, Some hs)
  | None => (mkE a new, Some hs)
  end.
Proof.
  intros Sub Hin ID. apply in_map_iff in Hin as [x [Hx Hin]].
  assert (Px : (fun e => e_rev e =? h) x = true) by (cbn; apply Nat.eqb_eq; exact Hx).
  destruct (find_last_In_Some _ L1 x Hin Px) as [p1 E1].
  destruct (find_In_Some _ L2 x (Sub x Hin) Px) as [p2 E2].
  rewrite E1, E2. apply find_last_some in E1 as [I1 R1]. apply find_some in E2 as [I2 R2].
  apply Nat.eqb_eq in R1, R2.
  assert (p1 = p2) by (apply ID; [apply Sub; exact I1 | exact I2 | congruence]). subst p2.
  destruct (attrs_eqb (e_attrs p1) a) eqn:E; [|reflexivity].
  apply attrs_eqb_spec in E. destruct p1; cbn in *; subst; reflexivity.
Qed.

Lemma commit_entry_flat_spec c g texts new ptrees f a :
  same_rev_same_entry (entries_of f ptrees) ->
  commit_entry_flat c g texts new ptrees f a
  = spec_entry (heads_graph c g texts f) new (entries_of f ptrees) a.
Proof.
  intros ID. unfold commit_entry_flat, spec_entry.
  set (G := heads_graph c g texts f).
  destruct ptrees as [|basis others]; [reflexivity|].
  cbn [hd tl]. rewrite entries_of_cons in *. set (os := entries_of f others) in *.
  destruct (lookup f basis) as [b|] eqn:Eb.
  - (* the basis has the file *)
    cbv iota. cbn [opt_entry_eqb]. set (keep := fun e => negb (entry_eqb b e)).
    set (merged := filter keep os).
    assert (K : forall e, In e os -> keep e = false -> e = b).
    { intros e _ Hk. unfold keep in Hk. apply negb_false_iff, entry_eqb_spec in Hk. congruence. }
    assert (H1 : oheads G (map e_rev ([b] ++ merged)) = oheads G (map e_rev ([b] ++ os))).
    { apply oheads_merged. intros e He Hk. rewrite (K e He Hk). reflexivity. }
    rewrite H1. rewrite negb_involutive.
    destruct (is_nil merged) eqn:N.
    + (* no other parent differs from the basis *)
      assert (M : merged = []) by (destruct merged; [reflexivity | discriminate]).
      rewrite <- H1, M. cbn [app map]. rewrite oheads_single. cbn [find negb].
      rewrite Nat.eqb_refl. rewrite andb_true_r.
      destruct (attrs_eqb (e_attrs b) a); reflexivity.
    + rewrite andb_false_r. cbn [negb].
      destruct (oheads G (map e_rev ([b] ++ os))) as [|h [|h2 t]] eqn:Eh; try reflexivity.
      apply pick_same.
      * intros x Hx. cbn [app] in *. destruct Hx as [->|Hx]; [left; reflexivity|]. right.
        apply filter_In in Hx as [Hx _]. exact Hx.
      * assert (X : In h (oheads G (map e_rev ([b] ++ merged)))) by (rewrite H1; left; reflexivity).
        apply In_oheads in X as [X _]. exact X.
      * exact ID.
  - (* the file is not in the basis *)
    cbv iota. cbn [opt_entry_eqb negb app].
    assert (F : filter (fun _ : entry => true) os = os) by (apply filter_all_true; reflexivity).
    rewrite F. cbn [andb].
    destruct (oheads G (map e_rev os)) as [|h [|h2 t]] eqn:Eh; try reflexivity.
    assert (X : In h (map e_rev os)).
    { assert (X : In h (oheads G (map e_rev os))) by (rewrite Eh; left; reflexivity).
      apply In_oheads in X as [X _]. exact X. }
    assert (N : is_nil os = false) by (destruct os; [contradiction | reflexivity]).
    rewrite N. cbn [negb]. apply pick_same; [auto | exact X | exact ID].
Qed.

Lemma commit_entry_spec c g texts new ptrees f a :
  rich_root c || negb (is_root a) = true ->
  same_rev_same_entry (entries_of f ptrees) ->
  commit_entry c g texts new ptrees f a
  = spec_entry (heads_graph c g texts f) new (entries_of f ptrees) a.
Proof. intros R ID. rewrite commit_entry_unfold by exact R. apply commit_entry_flat_spec. exact ID. Qed.

Lemma commit_entry_root c g texts new ptrees f a :
  rich_root c || negb (is_root a) = false ->
  commit_entry c g texts new ptrees f a = (mkE a new, None).
Proof.
  intros R. unfold commit_entry.
  assert (R' : negb (rich_root c) && is_root a = true) by (destruct (rich_root c), (is_root a); cbn in *; congruence).
  rewrite R'. reflexivity.
Qed.

(* ---- consequences of the specification ----------------------------------------------------------- *)

Lemma spec_entry_inv G new P a e t :
  spec_entry G new P a = (e, t) ->
  (t = None /\ In e P /\ e_attrs e = a /\ oheads G (map e_rev P) = [e_rev e])
  \/ (t = Some (oheads G (map e_rev P)) /\ e = mkE a new
      /\ forall pe, In pe P -> oheads G (map e_rev P) = [e_rev pe] -> same_rev_same_entry P -> e_attrs pe <> a).
Proof.
  unfold spec_entry. destruct (oheads G (map e_rev P)) as [|h [|h2 tl]] eqn:Eh.
  - intros [= <- <-]. right. repeat split. intros pe _ H. discriminate.
  - destruct (find (fun e0 => e_rev e0 =? h) P) as [pe|] eqn:Ef.
    + apply find_some in Ef as [Hin Hr]. apply Nat.eqb_eq in Hr.
      destruct (attrs_eqb (e_attrs pe) a) eqn:Ea.
      * intros [= <- <-]. left. apply attrs_eqb_spec in Ea. subst h. auto.
      * intros [= <- <-]. right. repeat split. intros pe' Hin' [= Hh] ID.
        assert (pe' = pe) by (apply ID; [exact Hin' | exact Hin | congruence]). subst pe'.
        intros Ha. apply attrs_eqb_spec in Ha. congruence.
    + intros [= <- <-]. right. repeat split. intros pe' Hin' [= Hh] _.
      exfalso. assert (X : (fun e0 => e_rev e0 =? h) pe' = true) by (cbn; apply Nat.eqb_eq; congruence).
      destruct (find_In_Some _ P pe' Hin' X) as [y Hy]. congruence.
  - intros [= <- <-]. right. repeat split. intros pe _ H. discriminate.
Qed.

Lemma spec_entry_ext G1 G2 new P a :
  oheads G1 (map e_rev P) = oheads G2 (map e_rev P) -> spec_entry G1 new P a = spec_entry G2 new P a.
Proof. intros H. unfold spec_entry. rewrite H. reflexivity. Qed.

(* ---- graphs ------------------------------------------------------------------------------------------ *)

Lemma nth_app_old {A} (l : list A) x d r : r <> length l -> nth r (l ++ [x]) d = nth r l d.
Proof.
  intros H. destruct (Nat.lt_ge_cases r (length l)) as [L|L].
  - apply app_nth1. exact L.
  - rewrite !nth_overflow; [reflexivity | exact L | rewrite app_length; cbn; lia].
Qed.

Lemma nth_app_new {A} (l : list A) x d : nth (length l) (l ++ [x]) d = x.
Proof. rewrite app_nth2 by lia. rewrite Nat.sub_diag. reflexivity. Qed.

Lemma wf_from_intro n : forall rows i,
  (forall j p, In p (nth j rows []) -> p < i + j) -> wf_from n i rows = true.
Proof.
  induction rows as [|ps rows IH]; intros i H; [reflexivity|]. cbn [wf_from].
  apply andb_true_iff. split.
  - apply forallb_forall. intros p Hp. apply orb_true_iff. left. apply Nat.ltb_lt.
    specialize (H 0 p Hp). lia.
  - apply IH. intros j p Hp. specialize (H (S j) p Hp). lia.
Qed.

(* a graph whose parents are all earlier revisions *)
Lemma wf_dag_intro g : (forall r p, In p (parents g r) -> p < r) -> wf_dag g = true /\ fresh_next g = true.
Proof.
  intros H. split.
  - apply wf_from_intro. intros j p Hp. apply (H j p Hp).
  - unfold fresh_next. apply forallb_forall. intros row Hrow. apply negb_true_iff, memb_false. intros Hin.
    apply (In_nth _ _ []) in Hrow as [i [Hi Hrow]].
    assert (X : length g < i) by (apply H; unfold parents; rewrite Hrow; exact Hin). lia.
Qed.

Lemma oheads_extend G row cands : wf_dag G = true -> wf_dag (G ++ [row]) = true ->
  fresh_next G = true -> (forall k, In k cands -> k <> length G) ->
  oheads (G ++ [row]) cands = oheads G cands.
Proof.
  intros W W' F K. unfold oheads. apply filter_ext_in. intros k _. f_equal.
  unfold dominated. apply existsb_ext_in. intros k' Hk'. f_equal.
  apply (is_ancestor_extend G row k k' W W' F). apply K. exact Hk'.
Qed.

Lemma parents_file_dag texts f r :
  parents (file_dag texts f) r = match text_parents_in texts f r with Some ps => ps | None => [] end.
Proof.
  unfold parents, file_dag, text_parents_in.
  pose (F := fun row : textrow => match lookup f row with Some (Some ps) => ps | _ => @nil revid end).
  change (nth r (map F texts) (F []) = match match lookup f (nth r texts []) with Some (Some ps) => Some ps | _ => None end
                                       with Some ps => ps | None => [] end).
  rewrite map_nth. unfold F. destruct (lookup f (nth r texts [])) as [[ps|]|]; reflexivity.
Qed.

Lemma file_dag_app texts row f :
  file_dag (texts ++ [row]) f = file_dag texts f ++ [match lookup f row with Some (Some ps) => ps | _ => [] end].
Proof. unfold file_dag. rewrite map_app. reflexivity. Qed.

Lemma file_dag_length texts f : length (file_dag texts f) = length texts.
Proof. apply map_length. Qed.

Lemma fresh_id_eq g : fresh_id g = fresh_next g.
Proof. reflexivity. Qed.

(* ---- the invariant of histories built by commit / merge operations ------------------------------------ *)

Record Inv (c : cfg) (h : hist) : Prop := mkInv {
  inv_wf : wf_dag (h_g h) = true;
  inv_lt : length (h_trees h) = length (h_g h);
  inv_lx : length (h_texts h) = length (h_g h);
  (* the last-changed revision is an ancestor that holds the very same entry *)
  inv_entry : forall r f e, entry_at h r f = Some e ->
      e_rev e <= r /\ reach (h_g h) (e_rev e) r /\ entry_at h (e_rev e) f = Some e;
  (* every stored entry and its text parents are what the specification yields
     from the entries of the file in the revision's parents *)
  inv_spec : forall r f e, entry_at h r f = Some e ->
      if rich_root c || negb (is_root (e_attrs e))
      then spec_entry (hgraph c h f) r (parent_entries_at (h_g h) (h_trees h) f r) (e_attrs e)
           = (e, text_parents h f r)
      else e_rev e = r /\ text_parents h f r = None;
  inv_notext : forall r f, entry_at h r f = None -> text_parents h f r = None;
  inv_checker : per_file_heads c = true -> checker c h = h_texts h
}.

Lemma tree_of_overflow trees r : length trees <= r -> tree_of trees r = [].
Proof. intros H. unfold tree_of. apply nth_overflow. exact H. Qed.

Section FromInv.
  Variables (c : cfg) (h : hist).
  Hypothesis HI : Inv c h.

  Lemma entry_present r f e : entry_at h r f = Some e -> r < length (h_g h).
  Proof.
    intros H. destruct (Nat.lt_ge_cases r (length (h_g h))) as [L|L]; [exact L|].
    unfold entry_at in H. rewrite tree_of_overflow in H by (rewrite (inv_lt c h HI); exact L). discriminate.
  Qed.

  Lemma parent_entry_facts f r e : In e (parent_entries_at (h_g h) (h_trees h) f r) ->
    exists p, In p (parents (h_g h) r) /\ entry_at h p f = Some e /\ e_rev e <= p /\ p < r
              /\ reach (h_g h) (e_rev e) r.
  Proof.
    unfold parent_entries_at. intros H. apply In_entries_of in H as [t [Ht Hl]].
    apply in_map_iff in Ht as [p [<- Hp]]. exists p.
    assert (E : entry_at h p f = Some e) by exact Hl.
    destruct (inv_entry c h HI p f e E) as [Le [Re _]].
    pose proof (entry_present p f e E) as Lp.
    destruct (wf_parents (h_g h) r p (inv_wf c h HI) Hp) as [Lt|Ge]; [|lia].
    repeat split; try assumption.
    eapply reach_trans; [exact Re|]. eapply reach_step; [exact Hp | apply reach_refl].
  Qed.

  Lemma pents_ID f r : same_rev_same_entry (parent_entries_at (h_g h) (h_trees h) f r).
  Proof.
    intros e1 e2 H1 H2 E.
    destruct (parent_entry_facts f r e1 H1) as [p1 [_ [A1 _]]].
    destruct (parent_entry_facts f r e2 H2) as [p2 [_ [A2 _]]].
    destruct (inv_entry c h HI p1 f e1 A1) as [_ [_ B1]].
    destruct (inv_entry c h HI p2 f e2 A2) as [_ [_ B2]].
    rewrite E in B1. congruence.
  Qed.

  Lemma text_parents_spec f r ps : text_parents h f r = Some ps ->
    ps = oheads (hgraph c h f) (parent_versions h f r)
    /\ exists e, entry_at h r f = Some e /\ e_rev e = r /\ rich_root c || negb (is_root (e_attrs e)) = true.
  Proof.
    intros T. destruct (entry_at h r f) as [e|] eqn:E.
    - pose proof (inv_spec c h HI r f e E) as S.
      destruct (rich_root c || negb (is_root (e_attrs e))) eqn:R.
      + rewrite T in S. apply spec_entry_inv in S as [[X _]|[X [Y _]]]; [discriminate|].
        injection X as X. split; [exact X|]. exists e. rewrite Y. auto.
      + destruct S as [_ S]. congruence.
    - rewrite (inv_notext c h HI r f E) in T. discriminate.
  Qed.

  Lemma text_parents_lt f r ps p : text_parents h f r = Some ps -> In p ps ->
    p < r /\ reach (h_g h) p r /\ exists q e, In q (parents (h_g h) r) /\ entry_at h q f = Some e /\ e_rev e = p.
  Proof.
    intros T Hp. apply text_parents_spec in T as [-> _].
    apply In_oheads in Hp as [Hp _]. unfold parent_versions in Hp. apply in_map_iff in Hp as [e [<- He]].
    destruct (parent_entry_facts f r e He) as [q [Hq [A [Le [Lt Re]]]]].
    split; [lia|]. split; [exact Re|]. exists q, e. auto.
  Qed.

  Lemma file_dag_parent_lt f r p : In p (parents (file_dag (h_texts h) f) r) -> p < r /\ reach (h_g h) p r.
  Proof.
    rewrite parents_file_dag. fold (text_parents h f r).
    destruct (text_parents h f r) as [ps|] eqn:T; [|contradiction].
    intros Hp. destruct (text_parents_lt f r ps p T Hp) as [A [B _]]. auto.
  Qed.

  Lemma file_dag_wf f : wf_dag (file_dag (h_texts h) f) = true /\ fresh_next (file_dag (h_texts h) f) = true.
  Proof. apply wf_dag_intro. intros r p Hp. apply (file_dag_parent_lt f r p Hp). Qed.

  (* an edge of the per-file graph lies inside the ancestry of the revision graph *)
  Lemma file_reach_global f a b : reach (file_dag (h_texts h) f) a b -> reach (h_g h) a b.
  Proof.
    intros H. induction H as [r | a p r Hp Hap IH]; [apply reach_refl|].
    eapply reach_trans; [exact IH|]. apply (file_dag_parent_lt f r p Hp).
  Qed.
End FromInv.

(* ---- one commit preserves the invariant ------------------------------------------------------------- *)

Section Step.
  Variables (c : cfg) (h : hist) (ps : list revid) (nt : newtree).
  Hypothesis HI : Inv c h.
  Hypothesis OK : step_ok h (ps, nt) = true.

  Local Notation n := (length (h_g h)).
  Local Notation h' := (commit_step c h ps nt).
  Local Notation ptrees := (map (tree_of (h_trees h)) ps).
  Local Notation ce := (commit_entry c (h_g h) (h_texts h) (length (h_g h)) (map (tree_of (h_trees h)) ps)).

  Lemma ok_wf' : wf_dag (h_g h ++ [ps]) = true.
  Proof. unfold step_ok in OK. apply andb_true_iff in OK as [A _]. exact A. Qed.
  Lemma ok_fresh : fresh_next (h_g h) = true.
  Proof. unfold step_ok in OK. apply andb_true_iff in OK as [_ A]. exact A. Qed.

  Lemma h'_g : h_g h' = h_g h ++ [ps].
  Proof. reflexivity. Qed.
  Lemma h'_trees : h_trees h' = h_trees h ++ [map (fun fa => (fst fa, fst (ce (fst fa) (snd fa)))) nt].
  Proof. unfold commit_step. cbn [h_trees]. rewrite map_map. reflexivity. Qed.
  Lemma h'_texts : h_texts h' = h_texts h ++ [map (fun fa => (fst fa, snd (ce (fst fa) (snd fa)))) nt].
  Proof. unfold commit_step. cbn [h_texts]. rewrite map_map. reflexivity. Qed.

  Lemma ps_not_n p : In p ps -> p <> n.
  Proof.
    intros Hp. assert (X : In p (parents (h_g h ++ [ps]) n)) by (rewrite parents_new; exact Hp).
    destruct (wf_parents _ _ _ ok_wf' X) as [L|L]; [lia|]. rewrite app_length in L. cbn in L. lia.
  Qed.
  Lemma old_parent_not_n r p : In p (parents (h_g h) r) -> p <> n.
  Proof. intros Hp ->. apply (fresh_next_spec (h_g h) r ok_fresh Hp). Qed.

  Lemma tree_of_old r : r <> n -> tree_of (h_trees h') r = tree_of (h_trees h) r.
  Proof. intros H. rewrite h'_trees. unfold tree_of. apply nth_app_old. rewrite (inv_lt c h HI). exact H. Qed.

  Lemma entry_at_old r f : r <> n -> entry_at h' r f = entry_at h r f.
  Proof. intros H. unfold entry_at. rewrite tree_of_old by exact H. reflexivity. Qed.

  Lemma entry_at_new f : entry_at h' n f = option_map (fun a => fst (ce f a)) (lookup f nt).
  Proof.
    unfold entry_at, tree_of. rewrite h'_trees. rewrite <- (inv_lt c h HI) at 1. rewrite nth_app_new.
    apply (lookup_map (fun f a => fst (ce f a))).
  Qed.

  Lemma text_old r f : r <> n -> text_parents h' f r = text_parents h f r.
  Proof.
    intros H. unfold text_parents, text_parents_in. rewrite h'_texts.
    rewrite nth_app_old by (rewrite (inv_lx c h HI); exact H). reflexivity.
  Qed.

  Lemma text_new f : text_parents h' f n = match lookup f nt with Some a => snd (ce f a) | None => None end.
  Proof.
    unfold text_parents, text_parents_in. rewrite h'_texts. rewrite <- (inv_lx c h HI) at 1. rewrite nth_app_new.
    rewrite (lookup_map (fun f a => snd (ce f a))). destruct (lookup f nt) as [a|]; [|reflexivity].
    cbn. destruct (snd (ce f a)); reflexivity.
  Qed.

  Lemma pents_old r f : r <> n ->
    parent_entries_at (h_g h') (h_trees h') f r = parent_entries_at (h_g h) (h_trees h) f r.
  Proof.
    intros H. unfold parent_entries_at. rewrite h'_g, parents_extend by exact H. f_equal.
    apply map_ext_in. intros p Hp. apply tree_of_old. apply (old_parent_not_n r p Hp).
  Qed.

  Lemma pents_new f : parent_entries_at (h_g h') (h_trees h') f n = entries_of f ptrees.
  Proof.
    unfold parent_entries_at. rewrite h'_g, parents_new. f_equal.
    apply map_ext_in. intros p Hp. apply tree_of_old. apply (ps_not_n p Hp).
  Qed.

  Lemma ptrees_facts f e : In e (entries_of f ptrees) ->
    exists p, In p ps /\ entry_at h p f = Some e /\ e_rev e <= p /\ p < n.
  Proof.
    intros H. apply In_entries_of in H as [t [Ht Hl]]. apply in_map_iff in Ht as [p [<- Hp]].
    exists p. assert (E : entry_at h p f = Some e) by exact Hl.
    destruct (inv_entry c h HI p f e E) as [Le _]. pose proof (entry_present c h HI p f e E). auto.
  Qed.

  Lemma ptrees_ID f : same_rev_same_entry (entries_of f ptrees).
  Proof.
    intros e1 e2 H1 H2 E.
    destruct (ptrees_facts f e1 H1) as [p1 [_ [A1 _]]]. destruct (ptrees_facts f e2 H2) as [p2 [_ [A2 _]]].
    destruct (inv_entry c h HI p1 f e1 A1) as [_ [_ B1]]. destruct (inv_entry c h HI p2 f e2 A2) as [_ [_ B2]].
    rewrite E in B1. congruence.
  Qed.

  Lemma ce_spec f a : rich_root c || negb (is_root a) = true ->
    ce f a = spec_entry (hgraph c h f) n (entries_of f ptrees) a.
  Proof. intros R. apply commit_entry_spec; [exact R | apply ptrees_ID]. Qed.

  Lemma ce_text_lt f a hs p : snd (ce f a) = Some hs -> In p hs -> p < n.
  Proof.
    intros Hs Hp. destruct (rich_root c || negb (is_root a)) eqn:R.
    - pose proof (ce_spec f a R) as S. rewrite (surjective_pairing (ce f a)), Hs in S. symmetry in S.
      apply spec_entry_inv in S as [[X _]|[X _]]; [discriminate|]. injection X as ->.
      apply In_oheads in Hp as [Hp _]. apply in_map_iff in Hp as [e [<- He]].
      destruct (ptrees_facts f e He) as [q [_ [_ [A B]]]]. lia.
    - rewrite (commit_entry_root _ _ _ _ _ _ _ R) in Hs. discriminate.
  Qed.

  Lemma hgraph_extend f cands : (forall k, In k cands -> k < n) ->
    oheads (hgraph c h' f) cands = oheads (hgraph c h f) cands.
  Proof.
    intros K. unfold hgraph, heads_graph. destruct (per_file_heads c).
    - rewrite h'_texts, file_dag_app.
      destruct (file_dag_wf c h HI f) as [W F].
      assert (L : length (file_dag (h_texts h) f) = n) by (rewrite file_dag_length; apply (inv_lx c h HI)).
      apply oheads_extend; [exact W | | exact F | intros k Hk; specialize (K k Hk); lia].
      apply wf_dag_intro. intros r p Hp.
      destruct (Nat.eq_dec r (length (file_dag (h_texts h) f))) as [->|Ne].
      + rewrite parents_new in Hp. rewrite (lookup_map (fun f a => snd (ce f a))) in Hp.
        destruct (lookup f nt) as [a|]; cbn in Hp; [|contradiction].
        destruct (snd (ce f a)) as [hs|] eqn:Hs; [|contradiction].
        rewrite L. apply (ce_text_lt f a hs p Hs Hp).
      + rewrite parents_extend in Hp by exact Ne. apply (file_dag_parent_lt c h HI f r p Hp).
    - rewrite h'_g. apply oheads_extend; [apply (inv_wf c h HI) | exact ok_wf' | exact ok_fresh|].
      intros k Hk. specialize (K k Hk). lia.
  Qed.

  Lemma pents_lt f r e : r <= n -> In e (parent_entries_at (h_g h) (h_trees h) f r) -> e_rev e < n.
  Proof. intros L H. destruct (parent_entry_facts c h HI f r e H) as [p [_ [_ [A [B _]]]]]. lia. Qed.

  (* the entry and text of a file of the new revision *)
  Lemma new_entry_spec f a : lookup f nt = Some a ->
    entry_at h' n f = Some (fst (ce f a)) /\ text_parents h' f n = snd (ce f a)
    /\ e_attrs (fst (ce f a)) = a
    /\ (rich_root c || negb (is_root a) = true ->
        spec_entry (hgraph c h' f) n (parent_entries_at (h_g h') (h_trees h') f n) a = ce f a)
    /\ (rich_root c || negb (is_root a) = false -> ce f a = (mkE a n, None)).
  Proof.
    intros La. rewrite entry_at_new, text_new, La. cbn [option_map].
    split; [reflexivity|]. split; [reflexivity|].
    assert (S : rich_root c || negb (is_root a) = true ->
                spec_entry (hgraph c h' f) n (parent_entries_at (h_g h') (h_trees h') f n) a = ce f a).
    { intros R. rewrite pents_new, (ce_spec f a R). apply spec_entry_ext. apply hgraph_extend.
      intros k Hk. apply in_map_iff in Hk as [e [<- He]]. destruct (ptrees_facts f e He) as [q [_ [_ [A B]]]]. lia. }
    split; [|split; [exact S | apply commit_entry_root]].
    destruct (rich_root c || negb (is_root a)) eqn:R.
    - specialize (S eq_refl). rewrite (surjective_pairing (ce f a)) in S.
      apply spec_entry_inv in S as [[_ [_ [X _]]]|[_ [X _]]]; [exact X | rewrite X; reflexivity].
    - rewrite (commit_entry_root _ _ _ _ _ _ _ R). reflexivity.
  Qed.
End Step.

(* ---- the checker ---------------------------------------------------------------------------------------- *)

Lemma checker_upto_ext c g1 trees1 g2 trees2 k :
  (forall r, r < k -> tree_of trees1 r = tree_of trees2 r
                      /\ forall f, parent_entries_at g1 trees1 f r = parent_entries_at g2 trees2 f r) ->
  checker_upto c g1 trees1 k = checker_upto c g2 trees2 k.
Proof.
  induction k as [|k IH]; intros H; [reflexivity|]. cbn [checker_upto].
  rewrite IH by (intros r Hr; apply H; lia). f_equal. f_equal.
  destruct (H k (Nat.lt_succ_diag_r k)) as [T P]. unfold checker_row. rewrite T.
  apply map_ext. intros fe. rewrite P. reflexivity.
Qed.

Section StepInv.
  Variables (c : cfg) (h : hist) (ps : list revid) (nt : newtree).
  Hypothesis HI : Inv c h.
  Hypothesis OK : step_ok h (ps, nt) = true.

  Local Notation n := (length (h_g h)).
  Local Notation h' := (commit_step c h ps nt).
  Local Notation ce := (commit_entry c (h_g h) (h_texts h) (length (h_g h)) (map (tree_of (h_trees h)) ps)).

  Lemma ce_cases f a :
    (ce f a = (mkE a n, snd (ce f a)) /\
     snd (ce f a) = (if rich_root c || negb (is_root a)
                     then Some (oheads (hgraph c h f) (map e_rev (entries_of f (map (tree_of (h_trees h)) ps))))
                     else None))
    \/ (rich_root c || negb (is_root a) = true /\ snd (ce f a) = None /\ e_attrs (fst (ce f a)) = a
        /\ exists p, In p ps /\ entry_at h p f = Some (fst (ce f a)) /\ e_rev (fst (ce f a)) <= p /\ p < n).
  Proof.
    destruct (rich_root c || negb (is_root a)) eqn:R.
    - pose proof (ce_spec c h ps HI f a R) as S. rewrite (surjective_pairing (ce f a)) in S. symmetry in S.
      apply spec_entry_inv in S as [[X [Y [Z _]]]|[X [Y _]]].
      + right. split; [reflexivity|]. split; [exact X|]. split; [exact Z|]. apply (ptrees_facts c h ps HI f _ Y).
      + left. split; [|exact X]. rewrite (surjective_pairing (ce f a)) at 1. rewrite Y. reflexivity.
    - left. rewrite (commit_entry_root _ _ _ _ _ _ _ R). auto.
  Qed.

  Lemma checker_step : per_file_heads c = true -> checker c h' = h_texts h'.
  Proof.
    intros PF. unfold checker. rewrite (h'_g c h ps nt), app_length. cbn [length]. rewrite Nat.add_1_r.
    cbn [checker_upto].
    assert (E : checker_upto c (h_g h ++ [ps]) (h_trees h') n = h_texts h).
    { rewrite <- (inv_checker c h HI PF). unfold checker. apply checker_upto_ext. intros r Hr.
      split; [apply (tree_of_old c h ps nt HI); lia|].
      intros f. apply (pents_old c h ps nt HI OK). lia. }
    rewrite E. rewrite (h'_texts c h ps nt). f_equal. f_equal.
    unfold checker_row. rewrite (h'_trees c h ps nt) at 1. unfold tree_of at 1.
    rewrite <- (inv_lt c h HI) at 1. rewrite nth_app_new. rewrite map_map. apply map_ext. intros [f a]. cbn [fst snd].
    f_equal.
    assert (P : parent_entries_at (h_g h ++ [ps]) (h_trees h') f n = entries_of f (map (tree_of (h_trees h)) ps))
      by (apply (pents_new c h ps nt HI OK)).
    rewrite P.
    assert (G : hgraph c h f = file_dag (h_texts h) f) by (unfold hgraph, heads_graph; rewrite PF; reflexivity).
    destruct (ce_cases f a) as [[X Y]|[R [X [Y [p [_ [_ [A B]]]]]]]].
    - rewrite X at 1 2. cbn [fst e_rev e_attrs]. rewrite Nat.eqb_refl. cbn [andb]. rewrite Y, G. reflexivity.
    - rewrite X. assert (N : (e_rev (fst (ce f a)) =? n) = false) by (apply Nat.eqb_neq; lia).
      rewrite N. reflexivity.
  Qed.

  Theorem step_preserves : Inv c h'.
  Proof.
    pose proof (ok_wf' h ps nt OK) as W'. pose proof (ok_fresh h ps nt OK) as F.
    constructor.
    - exact W'.
    - rewrite (h'_trees c h ps nt), (h'_g c h ps nt), !app_length. cbn. rewrite (inv_lt c h HI). reflexivity.
    - rewrite (h'_texts c h ps nt), (h'_g c h ps nt), !app_length. cbn. rewrite (inv_lx c h HI). reflexivity.
    - (* inv_entry *)
      intros r f e E. destruct (Nat.eq_dec r n) as [->|Ne].
      + rewrite (entry_at_new c h ps nt HI) in E. destruct (lookup f nt) as [a|] eqn:La; [|discriminate].
        cbn in E. injection E as <-.
        destruct (ce_cases f a) as [[X _]|[_ [_ [_ [p [Hp [A [Le Lt]]]]]]]].
        * rewrite X. cbn [fst e_rev]. split; [lia|]. split; [apply reach_refl|].
          rewrite (entry_at_new c h ps nt HI), La. cbn. rewrite X at 1. reflexivity.
        * destruct (inv_entry c h HI p f _ A) as [_ [Re Id]].
          split; [lia|]. split.
          -- eapply reach_step; [rewrite (h'_g c h ps nt), parents_new; exact Hp|].
             rewrite (h'_g c h ps nt). apply reach_extend; [exact F | lia | exact Re].
          -- rewrite (entry_at_old c h ps nt HI) by lia. exact Id.
      + rewrite (entry_at_old c h ps nt HI) in E by exact Ne.
        destruct (inv_entry c h HI r f e E) as [Le [Re Id]]. pose proof (entry_present c h HI r f e E) as Lr.
        split; [exact Le|]. split.
        * rewrite (h'_g c h ps nt). apply reach_extend; [exact F | exact Ne | exact Re].
        * rewrite (entry_at_old c h ps nt HI) by lia. exact Id.
    - (* inv_spec *)
      intros r f e E. destruct (Nat.eq_dec r n) as [->|Ne].
      + pose proof E as E0. rewrite (entry_at_new c h ps nt HI) in E0.
        destruct (lookup f nt) as [a|] eqn:La; [|discriminate]. cbn in E0. injection E0 as E0.
        destruct (new_entry_spec c h ps nt HI OK f a La) as [_ [T [At [S Rt]]]].
        rewrite <- E0, At, T. destruct (rich_root c || negb (is_root a)) eqn:R.
        * rewrite (S eq_refl). apply surjective_pairing.
        * rewrite (Rt eq_refl). auto.
      + rewrite (entry_at_old c h ps nt HI) in E by exact Ne.
        pose proof (inv_spec c h HI r f e E) as S. pose proof (entry_present c h HI r f e E) as Lr.
        rewrite (text_old c h ps nt HI) by exact Ne.
        destruct (rich_root c || negb (is_root (e_attrs e))); [|exact S].
        rewrite (pents_old c h ps nt HI OK) by exact Ne. rewrite <- S. apply spec_entry_ext.
        apply (hgraph_extend c h ps nt HI OK). intros k Hk. apply in_map_iff in Hk as [e' [<- He']].
        apply (pents_lt c h HI f r e'); [lia | exact He'].
    - (* inv_notext *)
      intros r f E. destruct (Nat.eq_dec r n) as [->|Ne].
      + rewrite (entry_at_new c h ps nt HI) in E. rewrite (text_new c h ps nt HI).
        destruct (lookup f nt); [discriminate | reflexivity].
      + rewrite (entry_at_old c h ps nt HI) in E by exact Ne. rewrite (text_old c h ps nt HI) by exact Ne.
        apply (inv_notext c h HI r f E).
    - exact checker_step.
  Qed.
End StepInv.

Lemma inv_empty c : Inv c empty_hist.
Proof.
  constructor; try reflexivity.
  - intros r f e E. unfold entry_at, tree_of in E. cbn in E. destruct r; discriminate.
  - intros r f e E. unfold entry_at, tree_of in E. cbn in E. destruct r; discriminate.
  - intros r f _. unfold text_parents, text_parents_in. cbn. destruct r; reflexivity.
Qed.

Lemma run_from_inv c ops : forall h, Inv c h -> run_ok c h ops = true -> Inv c (run_from c h ops).
Proof.
  induction ops as [|[ps nt] ops IH]; intros h HI OK; [exact HI|].
  cbn [run_ok fst snd] in OK. apply andb_true_iff in OK as [O1 O2].
  unfold run_from. cbn [fold_left fst snd]. apply IH; [apply step_preserves; assumption | exact O2].
Qed.

Theorem run_inv c ops : ops_ok c ops = true -> Inv c (run c ops).
Proof. intros H. apply run_from_inv; [apply inv_empty | exact H]. Qed.

(* ---- the statements of C02 ------------------------------------------------------------------------------ *)

(* the file is versioned in the per-file graph: always, except the tree root of
   formats without rich roots *)
Definition versioned (c : cfg) (e : entry) : bool := rich_root c || negb (is_root (e_attrs e)).

Theorem text_parents_are_heads c ops : ops_ok c ops = true ->
  let h := run c ops in
  forall f r ps, text_parents h f r = Some ps ->
    ps = oheads (hgraph c h f) (parent_versions h f r)
    /\ (forall p, In p ps <-> In p (heads (hgraph c h f) (parent_versions h f r))).
Proof.
  intros OK h f r ps T. pose proof (run_inv c ops OK) as HI.
  destruct (text_parents_spec c h HI f r ps T) as [E _]. split; [exact E|].
  intros p. rewrite E. apply In_oheads_heads.
Qed.

Theorem last_changed_is_latest_change c ops : ops_ok c ops = true ->
  let h := run c ops in
  forall r f e, entry_at h r f = Some e ->
    (* the named revision is an ancestor (or r itself) holding the identical entry *)
    (e_rev e <= r /\ reach (h_g h) (e_rev e) r /\ entry_at h (e_rev e) f = Some e)
    /\ (versioned c e = false -> e_rev e = r)
    /\ (versioned c e = true ->
        (* (f, last_changed) is a stored text key *)
        text_parents h f (e_rev e) <> None
        (* a new version is recorded only if the file is not identical to the one head of the parents' versions *)
        /\ (e_rev e = r -> forall pe, In pe (parent_entries_at (h_g h) (h_trees h) f r) ->
              oheads (hgraph c h f) (parent_versions h f r) = [e_rev pe] -> e_attrs pe <> e_attrs e)
        (* otherwise the entry is the one parent entry that holds the unique head *)
        /\ (e_rev e <> r -> In e (parent_entries_at (h_g h) (h_trees h) f r)
                            /\ oheads (hgraph c h f) (parent_versions h f r) = [e_rev e])).
Proof.
  intros OK h r f e E. pose proof (run_inv c ops OK) as HI. fold h in HI.
  pose proof (inv_entry c h HI r f e E) as [Le [Re Id]].
  split; [auto|]. unfold versioned. split.
  - intros V. pose proof (inv_spec c h HI r f e E) as S. rewrite V in S. apply S.
  - intros V. split; [|split].
    + pose proof (inv_spec c h HI (e_rev e) f e Id) as S. rewrite V in S.
      apply spec_entry_inv in S as [[_ [X _]]|[X _]].
      * destruct (parent_entry_facts c h HI f (e_rev e) e X) as [p [_ [_ [A [B _]]]]]. lia.
      * rewrite X. discriminate.
    + intros Er pe Hpe Hh. pose proof (inv_spec c h HI r f e E) as S. rewrite V in S.
      apply spec_entry_inv in S as [[_ [X _]]|[_ [_ X]]].
      * destruct (parent_entry_facts c h HI f r e X) as [p [_ [_ [A [B _]]]]]. lia.
      * apply (X pe Hpe Hh). apply (pents_ID c h HI).
    + intros Er. pose proof (inv_spec c h HI r f e E) as S. rewrite V in S.
      apply spec_entry_inv in S as [[_ [X [_ Y]]]|[_ [X _]]]; [auto|].
      rewrite X in Er. cbn in Er. congruence.
Qed.

(* plain commits (one parent): last-changed = this revision iff the entry differs from the parent's *)
Corollary linear_commit c ops : ops_ok c ops = true ->
  let h := run c ops in
  forall r p f e, parents (h_g h) r = [p] -> entry_at h r f = Some e -> versioned c e = true ->
    (e_rev e = r <-> forall pe, entry_at h p f = Some pe -> e_attrs pe <> e_attrs e).
Proof.
  intros OK h r p f e Hp E V.
  destruct (last_changed_is_latest_change c ops OK r f e E) as [_ [_ L]]. fold h in L.
  destruct (L V) as [_ [D C]].
  assert (P : parent_entries_at (h_g h) (h_trees h) f r
              = match entry_at h p f with Some pe => [pe] | None => [] end).
  { unfold parent_entries_at. rewrite Hp. cbn. rewrite app_nil_r. reflexivity. }
  split.
  - intros Er pe Hpe. apply (D Er pe).
    + rewrite P, Hpe. left. reflexivity.
    + unfold parent_versions. rewrite P, Hpe. cbn [map]. apply oheads_single.
  - intros H. destruct (Nat.eq_dec (e_rev e) r) as [Er|Ne]; [exact Er|]. exfalso.
    destruct (C Ne) as [X _]. rewrite P in X. destruct (entry_at h p f) as [pe|] eqn:Ep; [|contradiction].
    destruct X as [->|[]]. apply (H e eq_refl). reflexivity.
Qed.

Lemma list_eqb_nat_refl l : list_eqb Nat.eqb l l = true.
Proof. apply list_eqb_refl. apply Nat.eqb_refl. Qed.

Lemma filter_combine_same (row : textrow) :
  filter (fun p : (fid * option (list revid)) * (fid * option (list revid)) =>
            negb (opt_list_eqb (snd (fst p)) (snd (snd p)))) (combine row row) = [].
Proof.
  induction row as [|[f o] row IH]; [reflexivity|]. cbn [combine filter fst snd].
  assert (R : opt_list_eqb o o = true) by (destruct o; cbn; [apply list_eqb_nat_refl | reflexivity]).
  rewrite R. exact IH.
Qed.

Lemma inconsistent_zero c h : checker c h = h_texts h -> inconsistent c h = 0.
Proof.
  intros E. unfold inconsistent. rewrite E. clear E.
  induction (h_texts h) as [|row l IH]; [reflexivity|].
  cbn [combine flat_map fst snd]. rewrite filter_app, filter_combine_same. exact IH.
Qed.

(* with per-file heads (PackCommitBuilder) the checker finds nothing to complain about *)
Theorem checker_agrees c ops : per_file_heads c = true -> ops_ok c ops = true ->
  checker c (run c ops) = h_texts (run c ops) /\ inconsistent c (run c ops) = 0.
Proof.
  intros PF OK. pose proof (inv_checker c _ (run_inv c ops OK) PF) as E. split; [exact E | apply inconsistent_zero, E].
Qed.

(* every head in the revision graph is a head in the per-file graph: revision-graph
   heads can only lose parents, never invent them *)
Theorem global_heads_subset_file_heads c ops : ops_ok c ops = true ->
  let h := run c ops in
  forall f cands x, In x (oheads (h_g h) cands) -> In x (oheads (file_dag (h_texts h) f) cands).
Proof.
  intros OK h f cands x Hx. pose proof (run_inv c ops OK) as HI. fold h in HI.
  apply In_oheads in Hx as [Hin Hd]. apply In_oheads. split; [exact Hin|].
  intros k' Hk' Ne. specialize (Hd k' Hk' Ne).
  destruct (is_ancestor (file_dag (h_texts h) f) x k') eqn:A; [|reflexivity].
  destruct (file_dag_wf c h HI f) as [W _].
  apply is_ancestor_spec in A; [|exact W]. apply (file_reach_global c h HI) in A.
  apply is_ancestor_spec in A; [|apply (inv_wf c h HI)]. congruence.
Qed.

(* ---- revision-graph heads (VersionedFileCommitBuilder._heads) -------------------------------------------- *)

(* head_candidates of record_iter_changes for file f *)
Definition cands_of (ptrees : list tree) (f : fid) : list revid :=
  let be := lookup f (hd [] ptrees) in
  let bl := match be with Some b => [b] | None => [] end in
  map e_rev (bl ++ filter (fun e => negb (opt_entry_eqb be (Some e))) (entries_of f (tl ptrees))).

(* executable guard: at every commit, for every file, the heads of the candidates
   in the revision graph are their heads in the per-file graph *)
Definition heads_agree_step (h : hist) (o : op) : bool :=
  let ptrees := map (tree_of (h_trees h)) (fst o) in
  forallb (fun fa => list_eqb Nat.eqb (oheads (h_g h) (cands_of ptrees (fst fa)))
                                      (oheads (file_dag (h_texts h) (fst fa)) (cands_of ptrees (fst fa))))
          (snd o).
Fixpoint heads_agree_from (c : cfg) (h : hist) (ops : list op) : bool :=
  match ops with
  | [] => true
  | o :: r => heads_agree_step h o && heads_agree_from c (commit_step c h (fst o) (snd o)) r
  end.
Definition heads_agree (c : cfg) (ops : list op) : bool := heads_agree_from c empty_hist ops.

Lemma list_eqb_nat_eq : forall a b, list_eqb Nat.eqb a b = true -> a = b.
Proof.
  induction a as [|x a IH]; intros [|y b] H; cbn in H; try discriminate; [reflexivity|].
  apply andb_true_iff in H as [H1 H2]. apply Nat.eqb_eq in H1. subst. f_equal. apply IH. exact H2.
Qed.

Lemma commit_entry_heads_ext c1 c2 g texts new ptrees f a :
  rich_root c1 = rich_root c2 ->
  oheads (heads_graph c1 g texts f) (cands_of ptrees f) = oheads (heads_graph c2 g texts f) (cands_of ptrees f) ->
  commit_entry c1 g texts new ptrees f a = commit_entry c2 g texts new ptrees f a.
Proof.
  unfold commit_entry, cands_of. intros R H. rewrite R. cbv zeta in *. rewrite H. reflexivity.
Qed.

Lemma commit_step_agree rich h ps nt : heads_agree_step h (ps, nt) = true ->
  commit_step (mkCfg false rich) h ps nt = commit_step (mkCfg true rich) h ps nt.
Proof.
  intros A. unfold heads_agree_step in A. cbn [fst snd] in A. rewrite forallb_forall in A.
  unfold commit_step. cbv zeta.
  assert (E : map (fun fa => (fst fa, commit_entry (mkCfg false rich) (h_g h) (h_texts h) (length (h_g h))
                                     (map (tree_of (h_trees h)) ps) (fst fa) (snd fa))) nt
            = map (fun fa => (fst fa, commit_entry (mkCfg true rich) (h_g h) (h_texts h) (length (h_g h))
                                     (map (tree_of (h_trees h)) ps) (fst fa) (snd fa))) nt).
  { apply map_ext_in. intros fa Hfa. f_equal. apply commit_entry_heads_ext; [reflexivity|].
    unfold heads_graph. cbn [per_file_heads]. apply list_eqb_nat_eq, A, Hfa. }
  rewrite E. reflexivity.
Qed.

Lemma run_from_agree rich ops : forall h, heads_agree_from (mkCfg false rich) h ops = true ->
  run_from (mkCfg false rich) h ops = run_from (mkCfg true rich) h ops.
Proof.
  induction ops as [|[ps nt] ops IH]; intros h A; [reflexivity|].
  cbn [heads_agree_from fst snd] in A. apply andb_true_iff in A as [A1 A2].
  unfold run_from in *. cbn [fold_left fst snd].
  rewrite <- (commit_step_agree rich h ps nt A1). apply IH. exact A2.
Qed.

Lemma run_ok_cfg c1 c2 ops : forall h1 h2, h_g h1 = h_g h2 -> run_ok c1 h1 ops = run_ok c2 h2 ops.
Proof.
  induction ops as [|[ps nt] ops IH]; intros h1 h2 E; [reflexivity|].
  cbn [run_ok fst snd]. unfold step_ok. cbn [fst]. rewrite E. f_equal. apply IH. cbn. rewrite E. reflexivity.
Qed.

Lemma checker_cfg c1 c2 g trees k : rich_root c1 = rich_root c2 ->
  checker_upto c1 g trees k = checker_upto c2 g trees k.
Proof.
  intros R. induction k as [|k IH]; [reflexivity|]. cbn [checker_upto]. rewrite IH. f_equal. f_equal.
  unfold checker_row. rewrite R. reflexivity.
Qed.

Theorem checker_agrees_global_guarded rich ops :
  let c := mkCfg false rich in
  ops_ok c ops = true -> heads_agree c ops = true ->
  checker c (run c ops) = h_texts (run c ops) /\ inconsistent c (run c ops) = 0.
Proof.
  intros c OK A. subst c.
  set (c := mkCfg false rich) in *.
  assert (E : checker c (run c ops) = h_texts (run c ops)).
  { unfold run, c. rewrite (run_from_agree rich ops empty_hist A).
    assert (OK' : ops_ok (mkCfg true rich) ops = true).
    { unfold ops_ok in *. rewrite <- OK. apply run_ok_cfg. reflexivity. }
    destruct (checker_agrees (mkCfg true rich) ops eq_refl OK') as [X _].
    unfold run in X. rewrite <- X. unfold checker. apply checker_cfg. reflexivity. }
  split; [exact E | apply inconsistent_zero, E].
Qed.

(* ---- witnesses --------------------------------------------------------------------------------------------- *)

Definition ROOT : fid * attrs := (0, mkA 0 None PDir).
Definition FILE (f : fid) (content : nat) : fid * attrs := (f, mkA 0 (Some 0) (PFile false content)).

(* 0 adds file 3; 1 modifies it; 2 deletes it; 3 re-adds it with the same id; 4 (child of 1)
   keeps 1's version; 5 = merge(3, 4), 6 = merge(4, 3).  The versions 3 and 1 of the file are
   both heads of the per-file graph, but 1 is an ancestor of 3 in the revision graph. *)
Definition readd_ops : list op :=
  [ ([], [ROOT; FILE 3 0]); ([0], [ROOT; FILE 3 1]); ([1], [ROOT]); ([2], [ROOT; FILE 3 2]);
    ([1], [ROOT; FILE 3 1; FILE 4 0]); ([3; 4], [ROOT; FILE 3 2; FILE 4 0]); ([4; 3], [ROOT; FILE 3 1; FILE 4 0]) ].

Theorem checker_global_refuted : forall rich,
  let c := mkCfg false rich in
  exists ops, ops_ok c ops = true /\ heads_agree c ops = false
              /\ inconsistent c (run c ops) <> 0
              /\ text_parents (run c ops) 3 6 = Some [3]
              /\ text_parents_in (checker c (run c ops)) 3 6 = Some [1; 3].
Proof.
  intros rich c. exists readd_ops. subst c.
  destruct rich; vm_compute; (split; [reflexivity|]); (split; [reflexivity|]); (split; [discriminate|]); split; reflexivity.
Qed.

(* identical parallel change: 1 and 2 both change file 3 to content 1; 3 merges them *)
Definition parallel_ops : list op :=
  [ ([], [ROOT; FILE 3 0]); ([0], [ROOT; FILE 3 1]); ([0], [ROOT; FILE 3 1]); ([1; 2], [ROOT; FILE 3 1]) ].

(* the literal reading "last changed = a revision in which the file changed" is false:
   revision 3 records a new version of file 3 (a per-file merge node with parents [1; 2])
   although the file is identical in every parent *)
Theorem last_changed_literal_refuted :
  let c := mkCfg true true in
  exists ops r f e, ops_ok c ops = true /\ entry_at (run c ops) r f = Some e /\ e_rev e = r
    /\ parents (h_g (run c ops)) r <> []
    /\ (forall p, In p (parents (h_g (run c ops)) r) ->
          exists pe, entry_at (run c ops) p f = Some pe /\ e_attrs pe = e_attrs e)
    /\ text_parents (run c ops) f r = Some [1; 2].
Proof.
  cbv zeta. exists parallel_ops, 3, 3, (mkE (snd (FILE 3 1)) 3).
  split; [reflexivity|]. split; [reflexivity|]. split; [reflexivity|]. split; [vm_compute; discriminate|].
  split; [|reflexivity].
  intros p Hp. vm_compute in Hp. destruct Hp as [<-|[<-|[]]]; eexists; split; reflexivity.
Qed.

(* criss-cross: 1 and 2 change file 3 differently, 3 = merge(1,2) keeps 1's, 4 = merge(2,1) keeps 2's,
   5 = merge(3,4) keeps 3's: both resolutions are carried over, the final merge is a per-file merge node *)
Definition crisscross_ops : list op :=
  [ ([], [ROOT; FILE 3 0]); ([0], [ROOT; FILE 3 1]); ([0], [ROOT; FILE 3 2]);
    ([1; 2], [ROOT; FILE 3 1]); ([2; 1], [ROOT; FILE 3 2]); ([3; 4], [ROOT; FILE 3 1]) ].
Example ex_crisscross :
  let h := run (mkCfg true true) crisscross_ops in
  ops_ok (mkCfg true true) crisscross_ops = true
  /\ map (fun r => option_map e_rev (entry_at h r 3)) [0; 1; 2; 3; 4; 5] = [Some 0; Some 1; Some 2; Some 3; Some 4; Some 5]
  /\ text_parents h 3 3 = Some [1; 2] /\ text_parents h 3 4 = Some [2; 1] /\ text_parents h 3 5 = Some [3; 4]
  /\ inconsistent (mkCfg true true) h = 0.
Proof. vm_compute. repeat split. Qed.

(* revert after merge and take-other: 1 changes file 4, 2 changes file 3.  3 = merge(1,2) reverts file 3 to
   the left side's content: the versions in the parents are [0; 2] with the one head 2, the content differs from
   2's, so a new version with parent [2] is recorded.  4 = merge(1,2) takes 2's file 3: carried over (last
   changed 2, no text).  File 4 is unchanged against the left parent and older in the other: stays at 1. *)
Definition revert_ops : list op :=
  [ ([], [ROOT; FILE 3 0; FILE 4 0]); ([0], [ROOT; FILE 3 0; FILE 4 1]); ([0], [ROOT; FILE 3 2; FILE 4 0]);
    ([1; 2], [ROOT; FILE 3 0; FILE 4 1]); ([1; 2], [ROOT; FILE 3 2; FILE 4 1]) ].
Example ex_revert_after_merge :
  let h := run (mkCfg true true) revert_ops in
  ops_ok (mkCfg true true) revert_ops = true
  /\ option_map e_rev (entry_at h 3 3) = Some 3 /\ text_parents h 3 3 = Some [2]
  /\ option_map e_rev (entry_at h 4 3) = Some 2 /\ text_parents h 3 4 = None
  /\ option_map e_rev (entry_at h 3 4) = Some 1 /\ option_map e_rev (entry_at h 4 4) = Some 1.
Proof. vm_compute. repeat split. Qed.

(* kind change and rename: 1 turns file 3 into a symlink, 2 renames it; the merge 3 takes both: new version
   with both parents; 4 = merge(2,1) keeps 2's entry unchanged: still a new per-file merge node *)
Definition kind_ops : list op :=
  [ ([], [ROOT; FILE 3 0]); ([0], [ROOT; (3, mkA 0 (Some 0) (PLink 0))]); ([0], [ROOT; (3, mkA 1 (Some 0) (PFile false 0))]);
    ([1; 2], [ROOT; (3, mkA 1 (Some 0) (PLink 0))]); ([2; 1], [ROOT; (3, mkA 1 (Some 0) (PFile false 0))]) ].
Example ex_kind_change :
  let h := run (mkCfg true true) kind_ops in
  ops_ok (mkCfg true true) kind_ops = true
  /\ text_parents h 3 3 = Some [1; 2] /\ text_parents h 3 4 = Some [2; 1]
  /\ option_map e_rev (entry_at h 4 3) = Some 4.
Proof. vm_compute. repeat split. Qed.

(* the unversioned root of non-rich-root formats *)
Example ex_plain_root :
  let h := run (mkCfg true false) parallel_ops in
  map (fun r => option_map e_rev (entry_at h r 0)) [0; 1; 2; 3] = [Some 0; Some 1; Some 2; Some 3]
  /\ map (text_parents h 0) [0; 1; 2; 3] = [None; None; None; None].
Proof. vm_compute. repeat split. Qed.
Example ex_rich_root :
  let h := run (mkCfg true true) parallel_ops in
  map (fun r => option_map e_rev (entry_at h r 0)) [0; 1; 2; 3] = [Some 0; Some 0; Some 0; Some 0]
  /\ map (text_parents h 0) [0; 1; 2; 3] = [Some []; None; None; None].
Proof. vm_compute. repeat split. Qed.

(* ---- the decision table, in propositional form ---------------------------------------------------------- *)

Theorem decision_table_props :
  forall d : dec,
    (decide d = Carry ->
       d_one_head d = true /\ d_found d = true /\ d_kind_same d = true /\ d_parent_same d = true
       /\ d_name_same d = true
       /\ (d_kind d = KFile -> d_exec_same d = true /\ d_content_same d = true)
       /\ (d_kind d = KLink -> d_content_same d = true))
    /\ (decide d = Skip <-> d_changed d = false /\ d_has_merged d = false)
    /\ ((d_changed d = true \/ d_has_merged d = true) -> (d_one_head d = false \/ d_found d = false) -> decide d = New)
    /\ decide (mkDec (negb (d_in_basis d)) (d_changed d) (d_has_merged d) (d_one_head d) (d_found d) (d_kind_same d)
                     (d_parent_same d) (d_name_same d) (d_exec_same d) (d_content_same d) (d_kind d)) = decide d.
Proof.
  intros d. destruct (decision_table d) as [H1 [H2 [_ [H4 H5]]]].
  split; [|split; [|split]].
  - intros Hc. unfold dec_carry_sound in H1. rewrite Hc in H1.
    apply andb_true_iff in H1 as [H1 _]. apply andb_true_iff in H1 as [H1 Hk].
    apply andb_true_iff in H1 as [H1 Hn]. apply andb_true_iff in H1 as [H1 Hp].
    apply andb_true_iff in H1 as [H1 Hks]. apply andb_true_iff in H1 as [Ho Hf].
    split; [exact Ho|]. split; [exact Hf|]. split; [exact Hks|]. split; [exact Hp|]. split; [exact Hn|].
    split; intros K; rewrite K in Hk; [apply andb_true_iff in Hk; exact Hk | exact Hk].
  - unfold dec_skip_iff in H2. apply eqb_prop in H2.
    destruct (decide d), (d_changed d), (d_has_merged d); cbn in H2; split; intros X; try discriminate;
      try (destruct X; discriminate); auto.
  - intros A B. unfold dec_merge_forces_new in H4.
    assert (X : (d_changed d || d_has_merged d) && (negb (d_one_head d) || negb (d_found d)) = true).
    { apply andb_true_iff. split.
      - destruct A as [-> | ->]; [reflexivity | apply orb_true_r].
      - destruct B as [-> | ->]; [reflexivity | apply orb_true_r]. }
    rewrite X in H4. destruct (decide d); [discriminate | discriminate | reflexivity].
  - unfold dec_irrelevant in H5. apply andb_true_iff in H5 as [H5 _]. apply andb_true_iff in H5 as [H5 _].
    destruct (decide d), (decide (mkDec (negb (d_in_basis d)) (d_changed d) (d_has_merged d) (d_one_head d) (d_found d)
                                        (d_kind_same d) (d_parent_same d) (d_name_same d) (d_exec_same d)
                                        (d_content_same d) (d_kind d))); try discriminate; reflexivity.
Qed.
