(* Theory/WTBase.v -- C09: path/list facts and the generic tree-comparison law
   (status is sound and complete: applying [changes a b] to [a] gives [b]). *)
From Coq Require Import NArith Arith List Bool Lia.
From BV Require Import Lib.Obs Model.WT.
Import ListNotations.

(* ------------------------------------------------------------------ *)
(* boolean equalities reflect                                          *)

Lemma list_eqb_spec {A} (eqb : A -> A -> bool) :
  (forall x y, eqb x y = true <-> x = y) ->
  forall a b, list_eqb eqb a b = true <-> a = b.
Proof.
  intros H a; induction a as [|x a IH]; intros [|y b]; simpl; split; intro E;
    try reflexivity; try discriminate.
  - apply andb_true_iff in E as [E1 E2]. apply H in E1. apply IH in E2. congruence.
  - inversion E; subst. apply andb_true_iff; split; [apply H; reflexivity | apply IH; reflexivity].
Qed.

Lemma name_eqb_spec a b : name_eqb a b = true <-> a = b.
Proof. apply list_eqb_spec. intros; apply N.eqb_eq. Qed.
Lemma path_eqb_spec a b : path_eqb a b = true <-> a = b.
Proof. apply list_eqb_spec. apply name_eqb_spec. Qed.
Lemma path_eqb_refl a : path_eqb a a = true.
Proof. apply path_eqb_spec; reflexivity. Qed.
Lemma path_eqb_false a b : path_eqb a b = false <-> a <> b.
Proof.
  split.
  - intros E H. apply path_eqb_spec in H. congruence.
  - intros H. destruct (path_eqb a b) eqn:E; [|reflexivity]. apply path_eqb_spec in E. contradiction.
Qed.

(* ------------------------------------------------------------------ *)
(* under / parent / reroot                                             *)

Lemma under_spec p q : under p q = true <-> exists x, q = p ++ x.
Proof.
  revert q; induction p as [|a p IH]; intros q; simpl.
  - split; [intros _; exists q; reflexivity | reflexivity].
  - destruct q as [|b q].
    + split; [discriminate | intros [x Hx]; discriminate].
    + rewrite andb_true_iff, name_eqb_spec, IH. split.
      * intros [-> [x ->]]. exists x; reflexivity.
      * intros [x Hx]. inversion Hx; subst. split; [reflexivity | exists x; reflexivity].
Qed.

Lemma under_refl p : under p p = true.
Proof. apply under_spec. exists []. symmetry; apply app_nil_r. Qed.
Lemma under_app p q x : under p q = true -> under p (q ++ x) = true.
Proof. rewrite !under_spec. intros [y ->]. exists (y ++ x). symmetry; apply app_assoc. Qed.
Lemma under_trans p q r : under p q = true -> under q r = true -> under p r = true.
Proof. rewrite !under_spec. intros [x ->] [y ->]. exists (x ++ y). symmetry; apply app_assoc. Qed.

Lemma parent_snoc p a : parent (p ++ [a]) = p.
Proof. unfold parent. apply removelast_last. Qed.
Lemma lastname_snoc p a : lastname (p ++ [a]) = a.
Proof. unfold lastname. apply last_last. Qed.
Lemma path_snoc (p : path) : p <> [] -> p = parent p ++ [lastname p].
Proof. intros H. unfold parent, lastname. apply app_removelast_last; assumption. Qed.

Lemma under_parent p q : under p (parent q) = true -> under p q = true.
Proof.
  intros H. destruct q as [|a q]; [exact H|].
  rewrite (path_snoc (a :: q)) by discriminate. apply under_app; exact H.
Qed.

Lemma parent_app q x : x <> [] -> parent (q ++ x) = q ++ parent x.
Proof.
  intros H. rewrite (path_snoc x H) at 1. rewrite app_assoc, parent_snoc. reflexivity.
Qed.

(* strictly below p: the parent is still below p *)
Lemma under_parent_strict p r : under p r = true -> r <> p -> under p (parent r) = true.
Proof.
  rewrite under_spec. intros [x ->] Hne. destruct x as [|a x].
  - rewrite app_nil_r in Hne. contradiction.
  - rewrite parent_app by discriminate. apply under_app, under_refl.
Qed.

Lemma reroot_under p q r : under p r = true -> exists x, r = p ++ x /\ reroot p q r = q ++ x.
Proof.
  rewrite under_spec. intros [x ->]. exists x. split; [reflexivity|].
  unfold reroot. f_equal. rewrite skipn_app, skipn_all, Nat.sub_diag. reflexivity.
Qed.

(* ------------------------------------------------------------------ *)
(* association lists                                                   *)

Section Assoc.
  Context {K V : Type}.
  Variable keqb : K -> K -> bool.
  Hypothesis keqb_spec : forall a b, keqb a b = true <-> a = b.

  Lemma keqb_refl a : keqb a a = true.
  Proof. apply keqb_spec; reflexivity. Qed.
  Lemma keqb_neq a b : a <> b -> keqb a b = false.
  Proof. intros H. destruct (keqb a b) eqn:E; [apply keqb_spec in E; contradiction | reflexivity]. Qed.

  Lemma assoc_In k (v : V) l : assoc keqb k l = Some v -> In (k, v) l.
  Proof.
    induction l as [|[k' v'] l IH]; simpl; [discriminate|].
    destruct (keqb k k') eqn:Ek.
    - intros H; inversion H; subst. apply keqb_spec in Ek; subst. left; reflexivity.
    - intros H; right; apply IH; exact H.
  Qed.
  Lemma assoc_None k (l : list (K * V)) : assoc keqb k l = None <-> ~ In k (map fst l).
  Proof.
    induction l as [|[k' v'] l IH]; simpl.
    - split; [intros _ []|reflexivity].
    - destruct (keqb k k') eqn:Ek.
      + apply keqb_spec in Ek; subst. split; [discriminate|]. intros H; exfalso; apply H; left; reflexivity.
      + rewrite IH. split.
        * intros H [H1|H1]; [subst; rewrite keqb_refl in Ek; discriminate | contradiction].
        * intros H H1; apply H; right; exact H1.
  Qed.
  Lemma In_assoc k (v : V) l : NoDup (map fst l) -> In (k, v) l -> assoc keqb k l = Some v.
  Proof.
    induction l as [|[k' v'] l IH]; simpl; [intros _ []|].
    intros Hnd [H|H].
    - inversion H; subst. rewrite keqb_refl. reflexivity.
    - inversion Hnd; subst. destruct (keqb k k') eqn:Ek.
      + apply keqb_spec in Ek; subst. exfalso. apply H2. apply (in_map fst) in H. exact H.
      + apply IH; assumption.
  Qed.
  Lemma assoc_filter_neq k k' (l : list (K * V)) :
    k <> k' -> assoc keqb k (filter (fun e => negb (keqb (fst e) k')) l) = assoc keqb k l.
  Proof.
    intros Hne. induction l as [|[k2 v2] l IH]; simpl; [reflexivity|].
    destruct (keqb k2 k') eqn:E2; simpl.
    - apply keqb_spec in E2; subst. rewrite (keqb_neq k k') by assumption. exact IH.
    - destruct (keqb k k2); [reflexivity | exact IH].
  Qed.
  Lemma assoc_filter_eq k (l : list (K * V)) :
    assoc keqb k (filter (fun e => negb (keqb (fst e) k)) l) = None.
  Proof.
    induction l as [|[k2 v2] l IH]; simpl; [reflexivity|].
    destruct (keqb k2 k) eqn:E2; simpl; [exact IH|].
    destruct (keqb k k2) eqn:E3; [|exact IH].
    apply keqb_spec in E3; subst. rewrite keqb_refl in E2. discriminate.
  Qed.

  (* ---------------------------------------------------------------- *)
  (* status is sound and complete                                      *)
  Variable eeqb : V -> V -> bool.
  Hypothesis eeqb_spec : forall a b, eeqb a b = true <-> a = b.

  Lemma oeeqb_spec x y : oeeqb eeqb x y = true <-> x = y.
  Proof.
    destruct x, y; simpl; try (split; [discriminate | discriminate]); try (split; reflexivity).
    rewrite eeqb_spec. split; [intros ->; reflexivity | intros H; inversion H; reflexivity].
  Qed.

  Lemma apply_change_assoc (m : list (K * V)) c k :
    assoc keqb k (apply_change keqb m c) =
    if keqb k (fst (fst c)) then snd c else assoc keqb k m.
  Proof.
    destruct c as [[k' x] y]; unfold apply_change; simpl.
    destruct (keqb k k') eqn:Ek.
    - apply keqb_spec in Ek; subst. destruct y; simpl.
      + rewrite keqb_refl. reflexivity.
      + apply assoc_filter_eq.
    - assert (Hne : k <> k') by (intros ->; rewrite keqb_refl in Ek; discriminate).
      destruct y; simpl; [rewrite Ek|]; apply assoc_filter_neq; assumption.
  Qed.

  (* every change produced by [changes] records the two lookups of its key *)
  Lemma changes_In (a b : list (K * V)) c :
    In c (changes keqb eeqb a b) <->
    In (fst (fst c)) (keys_union keqb a b) /\
    snd (fst c) = assoc keqb (fst (fst c)) a /\ snd c = assoc keqb (fst (fst c)) b /\
    assoc keqb (fst (fst c)) a <> assoc keqb (fst (fst c)) b.
  Proof.
    unfold changes. rewrite in_flat_map. split.
    - intros [k [Hk Hc]]. destruct (oeeqb eeqb (assoc keqb k a) (assoc keqb k b)) eqn:E; [destruct Hc|].
      destruct Hc as [<-|[]]. simpl. repeat split; try assumption.
      intros H. apply oeeqb_spec in H. congruence.
    - intros [Hk [H1 [H2 Hne]]]. exists (fst (fst c)). split; [assumption|].
      destruct (oeeqb eeqb _ _) eqn:E; [apply oeeqb_spec in E; contradiction|].
      left. destruct c as [[k x] y]; simpl in *. congruence.
  Qed.

  Lemma keys_union_complete (a b : list (K * V)) k :
    assoc keqb k a <> None \/ assoc keqb k b <> None -> In k (keys_union keqb a b).
  Proof.
    unfold keys_union. rewrite in_app_iff. intros H.
    destruct (assoc keqb k a) eqn:Ea.
    - left. apply assoc_In in Ea. apply (in_map fst) in Ea. exact Ea.
    - right. destruct H as [H|H]; [contradiction|].
      destruct (assoc keqb k b) as [vb|] eqn:Eb; [|contradiction].
      apply assoc_In in Eb. apply in_map_iff. exists (k, vb). split; [reflexivity|].
      apply filter_In. split; [assumption|]. simpl. rewrite Ea. reflexivity.
  Qed.

  Lemma apply_changes_assoc cs : forall (m : list (K * V)) k,
    assoc keqb k (apply_changes keqb cs m) =
    match find (fun c => keqb k (fst (fst c))) (rev cs) with
    | Some c => snd c
    | None => assoc keqb k m
    end.
  Proof.
    unfold apply_changes.
    induction cs as [|c cs IH] using rev_ind; intros m k; simpl; [reflexivity|].
    rewrite fold_left_app, rev_app_distr. simpl.
    rewrite apply_change_assoc. destruct (keqb k (fst (fst c))); [reflexivity | apply IH].
  Qed.

  (* THE LAW: the reported changes turn the basis into the working tree, key by key *)
  Theorem changes_sound_complete a b k :
    assoc keqb k (apply_changes keqb (changes keqb eeqb a b) a) = assoc keqb k b.
  Proof.
    rewrite apply_changes_assoc.
    destruct (find _ _) as [c|] eqn:F.
    - apply find_some in F as [Hin Hk]. apply keqb_spec in Hk. apply in_rev in Hin.
      apply changes_In in Hin as [_ [_ [H2 _]]]. subst k. exact H2.
    - destruct (oeeqb eeqb (assoc keqb k a) (assoc keqb k b)) eqn:E.
      + apply oeeqb_spec in E. exact E.
      + exfalso.
        assert (Hne : assoc keqb k a <> assoc keqb k b).
        { intros H. apply oeeqb_spec in H. congruence. }
        assert (Hin : In (k, assoc keqb k a, assoc keqb k b) (changes keqb eeqb a b)).
        { apply changes_In. simpl. repeat split; try assumption.
          apply keys_union_complete.
          destruct (assoc keqb k a) eqn:Ea; [left; discriminate|].
          destruct (assoc keqb k b) eqn:Eb; [right; discriminate | contradiction]. }
        apply in_rev in Hin.
        apply (find_none _ _ F) in Hin. simpl in Hin. rewrite keqb_refl in Hin. discriminate.
  Qed.

  (* a tree compared with itself reports nothing *)
  Lemma changes_same a : changes keqb eeqb a a = [].
  Proof.
    unfold changes. induction (keys_union keqb a a) as [|k l IH]; simpl; [reflexivity|].
    assert (H : oeeqb eeqb (assoc keqb k a) (assoc keqb k a) = true) by (apply oeeqb_spec; reflexivity).
    rewrite H. exact IH.
  Qed.

  (* and a reported change is a real difference (soundness, row by row) *)
  Lemma changes_sound a b c :
    In c (changes keqb eeqb a b) ->
    snd (fst c) = assoc keqb (fst (fst c)) a /\ snd c = assoc keqb (fst (fst c)) b /\ snd (fst c) <> snd c.
  Proof.
    intros H. apply changes_In in H as [_ [H1 [H2 H3]]]. repeat split; try assumption. congruence.
  Qed.
  Lemma changes_complete a b k :
    assoc keqb k a <> assoc keqb k b -> In (k, assoc keqb k a, assoc keqb k b) (changes keqb eeqb a b).
  Proof.
    intros Hne. apply changes_In. simpl. repeat split; try assumption.
    apply keys_union_complete.
    destruct (assoc keqb k a) eqn:Ea; [left; discriminate|].
    destruct (assoc keqb k b) eqn:Eb; [right; discriminate | contradiction].
  Qed.
End Assoc.
