(* Theory/DagMergeSortMainline.v -- the numbering of the left-hand history by
   Lib/DagMergeSort.merge_sort, for every well-formed graph:

     mainline_revnos   the i-th revision of the left-hand history (from the root)
                       is numbered (i)
     merged_revnos     every other revision of the merge-sorted list has a
                       three-component revno
   so "one component <-> on the left-hand history" ([shape_ok]). *)
From Coq Require Import List Arith Bool Lia.
From BV Require Import Lib.Dag Theory.DagFacts Lib.DagMergeSort Theory.DagMergeSortFacts.
Import ListNotations.

(* ---- small facts about the state ------------------------------------------------- *)

Lemma pop_node_eq n d lp fc st :
  let nn := number_node fc (match lp with Some p => assigned_revno st p | None => None end) (ms_counts st) in
  pop_node n d lp fc st = mkMS ((n, d, fst nn) :: ms_sched st) (ms_claimed st) (snd nn).
Proof. unfold pop_node. destruct (number_node _ _ _) as [rv c]. reflexivity. Qed.

Lemma sched_find_app r new old : ~ In r (ms_ids new) -> sched_find r (new ++ old) = sched_find r old.
Proof.
  induction new as [|e new IH]; intros H; [reflexivity|]. cbn [app sched_find].
  destruct (e_id e =? r) eqn:E.
  - apply Nat.eqb_eq in E. exfalso. apply H. left. exact E.
  - apply IH. intros X. apply H. right. exact X.
Qed.

Lemma assigned_entry st p pr : assigned_revno st p = Some pr ->
  exists e, In e (ms_sched st) /\ e_id e = p /\ e_revno e = pr.
Proof.
  unfold assigned_revno. induction (ms_sched st) as [|e s IH]; cbn [sched_find option_map]; [discriminate|].
  destruct (e_id e =? p) eqn:E.
  - apply Nat.eqb_eq in E. cbn. intros H. injection H as <-. exists e. repeat split; [left; reflexivity | exact E].
  - intros H. destruct (IH H) as [e' [A B]]. exists e'. split; [right; exact A | exact B].
Qed.

Lemma assigned_In st p pr : assigned_revno st p = Some pr -> In p (ids st).
Proof.
  intros H. destruct (assigned_entry st p pr H) as [e [A [B _]]]. rewrite <- B. unfold ids, ms_ids.
  apply in_map. exact A.
Qed.

Lemma nlookup_nset k v m k' : nlookup k' (nset k v m) = if k =? k' then Some v else nlookup k' m.
Proof. reflexivity. Qed.

Lemma number_node_counts0 fc pr counts : nlookup 0 counts <> None ->
  nlookup 0 (snd (number_node fc pr counts)) <> None.
Proof.
  intros H. unfold number_node. destruct pr as [r|].
  - destruct fc; cbn [snd]; [exact H|]. rewrite nlookup_nset. destruct (hd 0 r =? 0); [discriminate | exact H].
  - cbn [snd]. rewrite nlookup_nset. cbn. discriminate.
Qed.

Lemma revno_succ_length r : r <> [] -> length (revno_succ r) = length r.
Proof.
  intros H. unfold revno_succ. rewrite app_length. cbn [length].
  rewrite (app_removelast_last 0 H) at 2. rewrite app_length. cbn [length]. reflexivity.
Qed.

Lemma number_node_len3 fc pr counts :
  (pr = None -> nlookup 0 counts <> None) ->
  (forall r, pr = Some r -> fc = true -> length r = 3) ->
  length (fst (number_node fc pr counts)) = 3.
Proof.
  intros H0 H1. unfold number_node. destruct pr as [r|].
  - destruct fc; cbn [fst]; [|reflexivity].
    assert (L : length r = 3) by (apply H1; reflexivity).
    rewrite revno_succ_length; [exact L | intros ->; discriminate].
  - cbn [fst]. destruct (nlookup 0 counts) as [c|] eqn:E; [reflexivity|]. exfalso. apply (H0 eq_refl). reflexivity.
Qed.

Lemma NoDup_app_disjoint (a b : list revid) x : NoDup (a ++ b) -> In x a -> In x b -> False.
Proof.
  induction a as [|y a IH]; intros ND Ha Hb; [contradiction|].
  cbn [app] in ND. inversion ND as [|? ? Hn ND']; subst. destruct Ha as [->|Ha].
  - apply Hn. apply in_or_app. right. exact Hb.
  - apply IH; assumption.
Qed.

(* ---- claims and the root counter only grow ---------------------------------------- *)

Lemma claim_claimed lp st x : In x (ms_claimed st) -> In x (ms_claimed (claim lp st)).
Proof. destruct lp as [p|]; cbn; [|trivial]. intros H. apply In_add. right. exact H. Qed.

Lemma visit_claimed g : forall f n d st x,
  In x (ms_claimed st) -> In x (ms_claimed (ms_visit g f n d st)).
Proof.
  induction f as [|f IH]; intros n d st x H; [exact H|].
  rewrite ms_visit_S, pop_node_claimed.
  assert (G : forall plan s, In x (ms_claimed s) -> In x (ms_claimed (fold_left (ms_descend g f) plan s))).
  { induction plan as [|[q dq] plan IHp]; intros s Hs; cbn [fold_left]; [exact Hs|].
    apply IHp. unfold ms_descend. cbn [fst snd].
    destruct (completed s q || ghost g q); [exact Hs | apply IH; exact Hs]. }
  apply G, claim_claimed, H.
Qed.

Lemma visit_counts0 g : forall f n d st,
  nlookup 0 (ms_counts st) <> None -> nlookup 0 (ms_counts (ms_visit g f n d st)) <> None.
Proof.
  induction f as [|f IH]; intros n d st H; [exact H|].
  rewrite ms_visit_S, pop_node_eq. cbn [ms_counts].
  apply number_node_counts0.
  assert (G : forall plan s, nlookup 0 (ms_counts s) <> None ->
                             nlookup 0 (ms_counts (fold_left (ms_descend g f) plan s)) <> None).
  { induction plan as [|[q dq] plan IHp]; intros s Hs; cbn [fold_left]; [exact Hs|].
    apply IHp. unfold ms_descend. cbn [fst snd].
    destruct (completed s q || ghost g q); [exact Hs | apply IH; exact Hs]. }
  apply G. rewrite claim_counts. exact H.
Qed.

(* ---- revisions off the left-hand history get three-component revnos ------------------ *)

Section Shape.
  Variable g : dag.
  Hypothesis W : wf_dag g = true.
  Variable M : list revid.        (* left-hand revisions, all scheduled and all claimed *)

  Definition shape (st : ms_state) : Prop :=
    forall e, In e (ms_sched st) -> In (e_id e) M \/ length (e_revno e) = 3.

  Record off_inv (st : ms_state) : Prop := {
    off_dfs : dfs_inv g st;
    off_claimed : forall x, In x M -> In x (ms_claimed st);
    off_counts : nlookup 0 (ms_counts st) <> None;
    off_done : forall x, In x M -> In x (ids st);
    off_shape : shape st
  }.

  Lemma off_inv_claim lp st : off_inv st -> off_inv (claim lp st).
  Proof.
    intros [A B C D E]. split.
    - apply dfs_inv_claim. exact A.
    - intros x Hx. apply claim_claimed, B, Hx.
    - rewrite claim_counts. exact C.
    - rewrite ids_claim. exact D.
    - unfold shape. rewrite claim_sched. exact E.
  Qed.

  Lemma fold_off f :
    (forall y d st, y < f -> y < length g -> ~ In y (ids st) -> off_inv st -> off_inv (ms_visit g f y d st)) ->
    forall plan st, (forall q d, In (q, d) plan -> q < f \/ length g <= q) ->
    off_inv st -> off_inv (fold_left (ms_descend g f) plan st).
  Proof.
    intros IH. induction plan as [|[q d] plan IHp]; intros st Hq I; cbn [fold_left]; [exact I|].
    apply IHp; [intros q' d' H; apply (Hq q' d'); right; exact H|].
    unfold ms_descend. cbn [fst snd]. destruct (completed st q) eqn:C; cbn [orb]; [exact I|].
    unfold ghost, present. destruct (q <? length g) eqn:P; cbn [negb]; [|exact I].
    apply Nat.ltb_lt in P. apply completed_false in C.
    destruct (Hq q d (or_introl eq_refl)) as [Lf|G]; [|lia].
    apply IH; assumption.
  Qed.

  Lemma visit_off : forall f y d st,
    y < f -> y < length g -> ~ In y (ids st) -> off_inv st -> off_inv (ms_visit g f y d st).
  Proof.
    induction f as [|f IH]; intros y d st Lf Ly Hy I; [lia|].
    (* the graph facts come from visit_dfs, the rest is proved here *)
    destruct (visit_dfs g W (S f) y d st Lf Ly (off_dfs st I) Hy) as [[SI SM SN] _].
    split; [exact SI | | | |].
    - intros x Hx. apply visit_claimed, (off_claimed st I), Hx.
    - apply visit_counts0, (off_counts st I).
    - intros x Hx. apply SM, (off_done st I), Hx.
    - (* shape *)
      rewrite ms_visit_S. set (lp := left_parent g y).
      set (st2 := fold_left (ms_descend g f) (visit_plan (parents g y) d) (claim lp st)).
      assert (I2 : off_inv st2).
      { apply (fold_off f IH); [|apply off_inv_claim; exact I].
        intros q d' H. apply plan_depths in H as [_ H].
        destruct (wf_parents g y q W H) as [L|G]; [left; lia | right; exact G]. }
      rewrite pop_node_eq. unfold shape. cbn [ms_sched]. intros e [<-|He]; [|apply (off_shape st2 I2 e He)].
      right. cbn [e_revno snd]. apply number_node_len3.
      + intros _. apply (off_counts st2 I2).
      + intros r Hr Hfc. destruct lp as [p|] eqn:Elp; [|discriminate].
        destruct (assigned_entry st2 p r Hr) as [e [He [Ei Er]]].
        destruct (off_shape st2 I2 e He) as [Hm|H3]; [|rewrite <- Er; exact H3].
        (* p is on the left-hand history: it was claimed before y was pushed *)
        exfalso. rewrite Ei in Hm. unfold is_first_child in Hfc. apply negb_true_iff in Hfc.
        apply memb_false in Hfc. apply Hfc. apply (off_claimed st I p Hm).
  Qed.
End Shape.

(* ---- the left-hand history is numbered 1, 2, ..., n -------------------------------------- *)

Lemma lefthand_le g n x : wf_dag g = true -> lefthand_present g n = true -> In x (lefthand g n) -> x <= n.
Proof.
  intros W P H. pose proof (lefthand_reach g n x H) as R.
  destruct (reach_le g x n W R) as [->|[L|G]]; [lia | lia|].
  unfold lefthand_present in P. rewrite forallb_forall in P. specialize (P x H).
  unfold present in P. apply Nat.ltb_lt in P. lia.
Qed.

Record main_post (g : dag) (n : revid) (st' : ms_state) : Prop := {
  mp_revnos : forall x, In x (lefthand g n) -> assigned_revno st' x = Some [length (lefthand g x)];
  mp_shape : forall e, In e (ms_sched st') -> In (e_id e) (lefthand g n) \/ length (e_revno e) = 3;
  mp_claimed : forall x, In x (lefthand g n) -> x <> n -> In x (ms_claimed st');
  mp_counts : nlookup 0 (ms_counts st') <> None;
  mp_dfs : dfs_inv g st'
}.

Lemma visit_mainline g : wf_dag g = true -> forall f n st,
  n < f -> n < length g -> lefthand_present g n = true ->
  ms_sched st = [] -> ms_counts st = [] -> Forall (fun c => n <= c) (ms_claimed st) ->
  main_post g n (ms_visit g f n 0 st).
Proof.
  intros W. induction f as [|f IH]; intros n st Lf Ln P E0 C0 Cl; [lia|].
  assert (I0 : dfs_inv g st).
  { split; unfold ids; rewrite E0; cbn; [constructor | contradiction | contradiction]. }
  assert (N0 : ~ In n (ids st)) by (unfold ids; rewrite E0; intros []).
  destruct (visit_dfs g W (S f) n 0 st Lf Ln I0 N0) as [[SI _ _] _].
  rewrite ms_visit_S in *. set (lp := left_parent g n) in *.
  pose proof (lefthand_unfold g n W Ln) as LH.
  destruct (parents g n) as [|p rest] eqn:Eps.
  - (* the root of the left-hand history: numbered (1) *)
    assert (Elp : lp = None) by (unfold lp, left_parent; rewrite Eps; reflexivity).
    rewrite Elp in *. cbn [visit_plan fold_left claim] in *. rewrite pop_node_eq in *.
    rewrite C0 in *. cbn [number_node nlookup Nat.eqb fst snd] in *.
    split; [| | | |exact SI].
    + intros x Hx. rewrite LH in Hx. destruct Hx as [<-|[]].
      unfold assigned_revno. cbn [ms_sched sched_find e_id fst]. rewrite Nat.eqb_refl.
      rewrite LH. reflexivity.
    + cbn [ms_sched]. rewrite E0. intros e [<-|[]]. left. rewrite LH. left. reflexivity.
    + intros x Hx H. rewrite LH in Hx. destruct Hx as [<-|[]]. contradiction.
    + cbn [ms_counts]. rewrite nlookup_nset. cbn. discriminate.
  - destruct (lefthand_present_parent g n p rest W Ln Eps P) as [Lp [Lt Pp]].
    assert (Elp : lp = Some p).
    { unfold lp, left_parent. rewrite Eps. unfold present. rewrite (proj2 (Nat.ltb_lt _ _) Lp). reflexivity. }
    rewrite Elp in *. cbn [visit_plan fold_left] in *.
    set (s0 := claim (Some p) st) in *.
    assert (E1 : ms_sched s0 = []) by (unfold s0; rewrite claim_sched; exact E0).
    set (s1 := ms_descend g f s0 (p, 0)) in *.
    assert (Hs1 : s1 = ms_visit g f p 0 s0).
    { unfold s1, ms_descend. cbn [fst snd]. unfold completed. rewrite E1. cbn [sched_find orb].
      unfold ghost, present. rewrite (proj2 (Nat.ltb_lt p (length g)) Lp). reflexivity. }
    assert (Cl0 : Forall (fun c => p <= c) (ms_claimed s0)).
    { apply Forall_forall. intros c Hc. unfold s0 in Hc. cbn [claim ms_claimed] in Hc.
      apply In_add in Hc as [->|Hc]; [lia|]. rewrite Forall_forall in Cl. specialize (Cl c Hc). lia. }
    assert (Post1 : main_post g p s1).
    { rewrite Hs1. apply IH; [lia | exact Lp | exact Pp | exact E1 | unfold s0; rewrite claim_counts; exact C0 | exact Cl0]. }
    destruct Post1 as [R1 Sh1 Cm1 Ct1 D1].
    set (M := lefthand g p).
    (* the other parents: revisions off the left-hand history *)
    set (plan := map (fun q => (q, 1)) (rev rest)) in *.
    assert (Off1 : off_inv g M s1).
    { split; [exact D1 | | exact Ct1 | | exact Sh1].
      - intros x Hx. destruct (Nat.eq_dec x p) as [->|Ne]; [|apply (Cm1 x Hx Ne)].
        rewrite Hs1. apply visit_claimed. unfold s0. cbn [claim ms_claimed]. apply In_add. left. reflexivity.
      - intros x Hx. apply (assigned_In s1 x _ (R1 x Hx)). }
    assert (Off2 : off_inv g M (fold_left (ms_descend g f) plan s1)).
    { apply (fold_off g M f (visit_off g W M f)); [|exact Off1].
      intros q d H. unfold plan in H. apply in_map_iff in H as [q' [E Hq]]. injection E as Eq1 _. subst q'.
      assert (Hq' : In q (parents g n)) by (rewrite Eps; right; apply in_rev; exact Hq).
      destruct (wf_parents g n q W Hq') as [L|G]; [left; lia | right; exact G]. }
    set (s2 := fold_left (ms_descend g f) plan s1) in *.
    (* what was assigned on the left-hand history is still there *)
    destruct (fold_extends g f 1 (visit_extends g f) plan s1) as [new [En _]].
    { intros q d H. unfold plan in H. apply in_map_iff in H as [q' [E _]]. injection E as _ <-. lia. }
    fold s2 in En.
    assert (Stable : forall x, In x M -> assigned_revno s2 x = assigned_revno s1 x).
    { intros x Hx. unfold assigned_revno. rewrite En. rewrite sched_find_app; [reflexivity|].
      intros X. pose proof (inv_nodup g s2 (off_dfs g M s2 Off2)) as ND.
      unfold ids, ms_ids in ND. rewrite En, map_app in ND.
      assert (Hin : In x (map e_id (ms_sched s1))) by (apply (off_done g M s1 Off1 x Hx)).
      apply (NoDup_app_disjoint (map e_id new) (map e_id (ms_sched s1)) x ND X Hin). }
    (* pop n: the first child of p *)
    assert (Fc : is_first_child (Some p) st = true).
    { unfold is_first_child. apply negb_true_iff. apply memb_false. intros X.
      rewrite Forall_forall in Cl. specialize (Cl p X). lia. }
    rewrite Fc in *. rewrite pop_node_eq in *.
    assert (Ap : assigned_revno s2 p = Some [length (lefthand g p)]).
    { rewrite (Stable p (In_lefthand_self g p)). apply R1, In_lefthand_self. }
    rewrite Ap in *. cbn [number_node fst snd revno_succ removelast last app] in *.
    split; [| | | |exact SI].
    + intros x Hx. rewrite LH in Hx. destruct Hx as [<-|Hx].
      * unfold assigned_revno. cbn [ms_sched sched_find e_id fst]. rewrite Nat.eqb_refl.
        rewrite LH. reflexivity.
      * assert (Ne : n <> x).
        { pose proof (lefthand_le g p x W Pp Hx). lia. }
        unfold assigned_revno. cbn [ms_sched sched_find e_id fst].
        rewrite (proj2 (Nat.eqb_neq _ _) Ne). fold (assigned_revno s2 x).
        rewrite (Stable x Hx). apply R1, Hx.
    + cbn [ms_sched]. rewrite LH. intros e [<-|He]; [left; left; reflexivity|].
      destruct (off_shape g M s2 Off2 e He) as [H|H]; [left; right; exact H | right; exact H].
    + intros x Hx Ne. rewrite LH in Hx. destruct Hx as [->|Hx]; [contradiction|].
      cbn [ms_claimed]. apply (off_claimed g M s2 Off2 x Hx).
    + cbn [ms_counts]. apply (off_counts g M s2 Off2).
Qed.

(* ---- the theorems about merge_sorted --------------------------------------------------------- *)

Lemma assigned_sched_entry l r pr : NoDup (ms_ids l) ->
  (option_map e_revno (sched_find r l) = Some pr <-> exists e, In e l /\ e_id e = r /\ e_revno e = pr).
Proof.
  intros ND. split.
  - intros H. apply (assigned_entry (mkMS l [] []) r pr H).
  - intros [e [He [Ei Er]]]. induction l as [|x l IH]; [contradiction|].
    cbn [sched_find]. inversion ND as [|? ? Hn ND']; subst. destruct He as [->|He].
    + rewrite Nat.eqb_refl. reflexivity.
    + destruct (e_id x =? e_id e) eqn:E; [|apply IH; assumption].
      apply Nat.eqb_eq in E. exfalso. apply Hn. rewrite E. apply in_map. exact He.
Qed.

(* every entry of the merge-sorted list: on the left-hand history it carries its
   position as a one-component revno, off it a three-component revno *)
Theorem merge_sorted_shape g (t : revid) : wf_dag g = true -> t < length g ->
  lefthand_present g t = true ->
  forall e, In e (merge_sorted g (Some t)) ->
  (In (e_id e) (lefthand g t) /\ e_revno e = [length (lefthand g (e_id e))]) \/
  (~ In (e_id e) (lefthand g t) /\ length (e_revno e) = 3).
Proof.
  intros W L P e He.
  pose proof (merge_sorted_NoDup g (Some t) W) as ND.
  unfold merge_sorted, present in *. rewrite (proj2 (Nat.ltb_lt t (length g)) L) in *.
  destruct (visit_mainline g W (S t) t ms_init (Nat.lt_succ_diag_r t) L P eq_refl eq_refl (Forall_nil _))
    as [R Sh _ _ _].
  destruct (in_dec Nat.eq_dec (e_id e) (lefthand g t)) as [Hin|Hout].
  - left. split; [exact Hin|]. specialize (R (e_id e) Hin). unfold assigned_revno in R.
    apply (assigned_sched_entry _ _ _ ND) in R as [e' [He' [Ei Er]]].
    assert (e' = e); [|subst; exact Er].
    clear -ND He He' Ei. induction (ms_sched (ms_visit g (S t) t 0 ms_init)) as [|x l IH]; [contradiction|].
    cbn [ms_ids map] in ND. inversion ND as [|? ? Hn ND']; subst.
    destruct He as [->|He], He' as [->|He']; [reflexivity | | |apply IH; assumption].
    + exfalso. apply Hn. rewrite <- Ei. apply in_map. exact He'.
    + exfalso. apply Hn. rewrite Ei. apply in_map. exact He.
  - right. split; [exact Hout|]. destruct (Sh e He) as [H|H]; [contradiction | exact H].
Qed.
