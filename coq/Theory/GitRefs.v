(* Theory/GitRefs.v -- proofs about Model/GitRefs.v (property C37).

   Main results
   * [exec_set], [exec_add], [exec_remove]: closed forms of the three operations
     run sequentially on one container whose packed cache is coherent;
   * [exec_coherent] / [exec_seq_coherent]: cache coherence is an invariant of
     every operation sequence on one container (so the closed forms apply at
     every step of every sequence);
   * [exec_refines_spec]: every operation refines the atomic CAS specification
     [spec_op] on the view;
   * refutations by concrete witnesses: the 4-step lost
     update, the stale-cache serial failure, resurrecting packed-refs rewrite;
   * [serial_linearizable]: two updaters that do not overlap and start with
     coherent caches are linearizable. *)
From Coq Require Import NArith List Bool String Arith Lia.
From BV Require Import Lib.Obs Lib.SchedLD Model.GitRefs.
Import ListNotations.
Open Scope list_scope.

(* ------------------------------------------------------------- basics -- *)

Lemma val_eqb_eq : forall a b, val_eqb a b = true <-> a = b.
Proof.
  intros [x|x] [y|y]; simpl; split; intro H; try discriminate; try congruence.
  - apply N.eqb_eq in H. congruence.
  - inversion H. apply N.eqb_refl.
  - apply N.eqb_eq in H. congruence.
  - inversion H. apply N.eqb_refl.
Qed.

Lemma val_eqb_neq : forall a b, val_eqb a b = false <-> a <> b.
Proof.
  intros a b. split.
  - intros H E. apply val_eqb_eq in E. congruence.
  - intro H. destruct (val_eqb a b) eqn:E; [|reflexivity]. apply val_eqb_eq in E. contradiction.
Qed.

Lemma upd_same : forall A (f : name -> A) k v, upd f k v k = v.
Proof. intros. unfold upd. rewrite N.eqb_refl. reflexivity. Qed.

Lemma upd_other : forall A (f : name -> A) k v x, x <> k -> upd f k v x = f x.
Proof. intros A f k v x H. unfold upd. apply N.eqb_neq in H. rewrite H. reflexivity. Qed.

(* the packed cache of a container agrees with the packed-refs file *)
Definition coherent (pc : pcache) (st : store) : Prop :=
  forall m, pc = Some m -> forall x, m x = packed st x.

Lemma coherent_none : forall st, coherent None st.
Proof. intros st m H. discriminate. Qed.

Lemma coherent_self : forall st, coherent (Some (packed st)) st.
Proof. intros st m H x. inversion H. reflexivity. Qed.

Lemma coherent_same_packed :
  forall pc st st', (forall x, packed st' x = packed st x) -> coherent pc st -> coherent pc st'.
Proof. intros pc st st' Hp Hc m Hm x. rewrite Hp. apply Hc. exact Hm. Qed.

Definition is_some {A} (o : option A) : bool := match o with Some _ => true | None => false end.

(* ------------------------------------------------ reading under coherence -- *)

Lemma get_packed_coh :
  forall st pc, coherent pc st ->
    (forall x, fst (get_packed st pc) x = packed st x) /\
    coherent (snd (get_packed st pc)) st /\ snd (get_packed st pc) <> None.
Proof.
  intros st [m|] Hc; simpl.
  - split; [apply Hc; reflexivity|]. split; [exact Hc|discriminate].
  - split; [reflexivity|]. split; [apply coherent_self|discriminate].
Qed.

Lemma read_ref_coh :
  forall st pc n, coherent pc st ->
    fst (read_ref st pc n) = view st n /\ coherent (snd (read_ref st pc n)) st.
Proof.
  intros st pc n Hc. unfold read_ref, view.
  destruct (loose st n) as [v|] eqn:El; simpl; [split; [reflexivity|exact Hc]|].
  destruct (get_packed st pc) as [m pc'] eqn:Eg. simpl.
  destruct (get_packed_coh st pc Hc) as (H1 & H2 & _). rewrite Eg in H1, H2. simpl in H1, H2.
  rewrite H1. split; [reflexivity|exact H2].
Qed.

Lemma follow_aux_coh :
  forall st f n d pc, coherent pc st ->
    fst (follow_aux st f n d pc) = follow_pure_aux (view st) f n d /\
    coherent (snd (follow_aux st f n d pc)) st.
Proof.
  intros st f. induction f as [|f IH]; intros n d pc Hc; simpl.
  - split; [reflexivity|exact Hc].
  - destruct (read_ref st pc n) as [c pc'] eqn:Er.
    destruct (read_ref_coh st pc n Hc) as [H1 H2]. rewrite Er in H1, H2. simpl in H1, H2.
    rewrite <- H1.
    destruct c as [v|]; [|simpl; split; [reflexivity|exact H2]].
    destruct (Nat.ltb 5 (S d)); [simpl; split; [reflexivity|exact H2]|].
    destruct v as [s|t]; [simpl; split; [reflexivity|exact H2]|].
    apply IH. exact H2.
Qed.

Lemma follow_coh :
  forall st pc n, coherent pc st ->
    fst (follow st pc n) = follow_pure (view st) n /\ coherent (snd (follow st pc n)) st.
Proof. intros. apply follow_aux_coh. assumption. Qed.

Lemma orig_ref_coh :
  forall st pc x, coherent pc st ->
    fst (orig_ref st pc x) = cur (view st) x /\ coherent (snd (orig_ref st pc x)) st /\
    (loose st x = None -> snd (orig_ref st pc x) <> None) /\
    (loose st x <> None -> snd (orig_ref st pc x) = pc).
Proof.
  intros st pc x Hc. unfold orig_ref, cur, view.
  destruct (loose st x) as [v|] eqn:El; simpl.
  - repeat split; try assumption; intro H; congruence.
  - destruct (get_packed st pc) as [m pc'] eqn:Eg. simpl.
    destruct (get_packed_coh st pc Hc) as (H1 & H2 & H3). rewrite Eg in H1, H2, H3. simpl in H1, H2, H3.
    rewrite H1. repeat split; try assumption.
    + destruct (packed st x); reflexivity.
    + intro H; congruence.
    + intro H; congruence.
Qed.

(* the follow loop never runs out of fuel: with depth <= 5 and fuel + depth >= 6
   one more unit of fuel changes nothing, so the [O] branch of the model is dead code *)
Lemma follow_pure_aux_S :
  forall v f n d,
    follow_pure_aux v (S f) n d =
    match v n with
    | None => FOk n None
    | Some c =>
        if Nat.ltb 5 (S d) then FLoop
        else match c with
             | VSym t => follow_pure_aux v f t (S d)
             | VSha s => FOk n (Some s)
             end
    end.
Proof. reflexivity. Qed.

Lemma follow_pure_fuel :
  forall v f n d, 6 <= f + d -> d <= 5 ->
    follow_pure_aux v (S f) n d = follow_pure_aux v f n d.
Proof.
  intros v f. induction f as [|f IH]; intros n d H1 H2; [lia|].
  rewrite (follow_pure_aux_S v (S f) n d), (follow_pure_aux_S v f n d).
  destruct (v n) as [c|]; [|reflexivity].
  destruct (Nat.ltb 5 (S d)) eqn:Ed; [reflexivity|].
  destruct c as [s|t]; [reflexivity|].
  apply Nat.ltb_ge in Ed. apply IH; lia.
Qed.

(* view after a put / a removal *)
Lemma view_put :
  forall st rn v x,
    view (mkStore (upd (loose st) rn (Some v)) (packed st)) x = upd (view st) rn (Some v) x.
Proof.
  intros st rn v x. unfold view, upd. simpl. destruct (N.eqb x rn); reflexivity.
Qed.

(* ------------------------------------------------ closed forms of [exec] -- *)

Section Exec.
  Variable valid : name -> bool.

  Definition cas_ok (old : option val) (c : val) : bool :=
    match old with None => true | Some o => val_eqb c o end.

  Definition put (st : store) (rn : name) (new : sha) : store :=
    mkStore (upd (loose st) rn (Some (VSha new))) (packed st).

  (* set_if_equals *)
  Lemma exec_set :
    forall st pc n old new,
      valid n = true -> coherent pc st ->
      let rn := target (view st) n in
      exists pc', coherent pc' st /\
        exec valid (OpSet n old new) st pc =
          if cas_ok old (cur (view st) rn)
          then (put st rn new, mkThread (TDone (RRet true)) pc')
          else (st, mkThread (TDone (RRet false)) pc').
  Proof.
    intros st pc n old new Hv Hc rn.
    unfold exec. cbn [step1 ts tc]. unfold set_check. rewrite Hv. cbn [negb].
    destruct (follow st pc n) as [fr pc1] eqn:Ef.
    destruct (follow_coh st pc n Hc) as [Hf Hc1]. rewrite Ef in Hf, Hc1. cbn [fst snd] in Hf, Hc1.
    assert (Hrn : match fr with FOk l _ => l | FLoop => n end = rn).
    { unfold rn, target. rewrite <- Hf. reflexivity. }
    rewrite Hrn.
    destruct old as [o|]; cbn [cas_ok].
    - destruct (orig_ref st pc1 rn) as [orig pc2] eqn:Eo.
      destruct (orig_ref_coh st pc1 rn Hc1) as (Ho & Hc2 & _). rewrite Eo in Ho, Hc2. cbn [fst snd] in Ho, Hc2.
      rewrite Ho. exists pc2. split; [exact Hc2|].
      destruct (val_eqb (cur (view st) rn) o); reflexivity.
    - exists pc1. split; [exact Hc1|]. reflexivity.
  Qed.

  (* add_if_new *)
  Lemma exec_add :
    forall st pc n new,
      coherent pc st ->
      exists pc', coherent pc' st /\
        exec valid (OpAdd n new) st pc =
          match follow_pure (view st) n with
          | FLoop => (st, mkThread (TDone (RErr "SymrefLoop")) pc')
          | FOk _ (Some _) => (st, mkThread (TDone (RRet false)) pc')
          | FOk rn None =>
              if valid rn then (put st rn new, mkThread (TDone (RRet true)) pc')
              else (st, mkThread (TDone (RErr "RefFormatError")) pc')
          end.
  Proof.
    intros st pc n new Hc.
    unfold exec. cbn [step1 ts tc]. unfold add_check.
    destruct (follow st pc n) as [fr pc1] eqn:Ef.
    destruct (follow_coh st pc n Hc) as [Hf Hc1]. rewrite Ef in Hf, Hc1. cbn [fst snd] in Hf, Hc1.
    rewrite <- Hf. exists pc1. split; [exact Hc1|].
    destruct fr as [rn [s|]|]; try reflexivity.
    destruct (valid rn); reflexivity.
  Qed.

  (* remove_if_equals *)
  Lemma exec_remove :
    forall st pc n old,
      valid n = true -> coherent pc st ->
      exists st' pc', coherent pc' st' /\
        exec valid (OpRemove n old) st pc =
          (st', mkThread (TDone (RRet (cas_ok old (cur (view st) n)))) pc') /\
        if cas_ok old (cur (view st) n)
        then loose st' = upd (loose st) n None /\
             (forall x, packed st' x = upd (packed st) n None x)
        else st' = st.
  Proof.
    intros st pc n old Hv Hc.
    unfold exec. cbn [step1 ts tc]. unfold remove_check. rewrite Hv. cbn [negb].
    assert (Hdel : forall pc1,
      exists st' pc', coherent pc' st' /\
        (let '(s2, t2) := step1 valid st (mkThread (TRmDelete n) pc1) in step1 valid s2 t2) =
          (st', mkThread (TDone (RRet true)) pc') /\
        loose st' = upd (loose st) n None /\
        (forall x, packed st' x = upd (packed st) n None x)).
    { intros pc1. cbn [step1 ts tc packed].
      destruct (packed st n) as [s|] eqn:Ep.
      - cbn [step1 ts tc].
        exists (mkStore (upd (loose st) n None) (upd (packed st) n None)), (Some (upd (packed st) n None)).
        split; [apply (coherent_self (mkStore (upd (loose st) n None) (upd (packed st) n None)))|].
        split; [reflexivity|]. split; reflexivity.
      - cbn [step1 ts tc].
        exists (mkStore (upd (loose st) n None) (packed st)), (Some (packed st)).
        split; [apply (coherent_self (mkStore (upd (loose st) n None) (packed st)))|].
        split; [reflexivity|]. split; [reflexivity|].
        intro x. cbn [packed]. unfold upd. destruct (N.eqb x n) eqn:E; [|reflexivity].
        apply N.eqb_eq in E. subst x. exact Ep. }
    destruct old as [o|]; cbn [cas_ok].
    - destruct (orig_ref st pc n) as [orig pc1] eqn:Eo.
      destruct (orig_ref_coh st pc n Hc) as (Ho & Hc1 & _).
      rewrite Eo in Ho, Hc1. cbn [fst snd] in Ho, Hc1.
      rewrite Ho. destruct (val_eqb (cur (view st) n) o) eqn:Ev.
      + destruct (Hdel pc1) as (st' & pc' & H1 & H2 & H3 & H4).
        exists st', pc'. split; [exact H1|]. split; [exact H2|]. split; assumption.
      + cbn [step1 ts tc]. exists st, pc1. split; [exact Hc1|]. split; reflexivity.
    - destruct (Hdel pc) as (st' & pc' & H1 & H2 & H3 & H4).
      exists st', pc'. split; [exact H1|]. split; [exact H2|]. split; assumption.
  Qed.

  Lemma coherent_put : forall pc st rn new, coherent pc st -> coherent pc (put st rn new).
  Proof. intros pc st rn new H. apply (coherent_same_packed pc st); [reflexivity|exact H]. Qed.

  (* cache coherence is preserved by every operation, and every operation finishes *)
  Lemma exec_coherent :
    forall o st pc, coherent pc st ->
      coherent (tc (snd (exec valid o st pc))) (fst (exec valid o st pc)) /\
      exists r, ts (snd (exec valid o st pc)) = TDone r.
  Proof.
    intros [n old new|n new|n old] st pc Hc.
    - destruct (valid n) eqn:Hv.
      + destruct (exec_set st pc n old new Hv Hc) as (pc' & Hc' & E). rewrite E.
        destruct (cas_ok old _); cbn [fst snd tc ts];
          (split; [try apply coherent_put; exact Hc'|eexists; reflexivity]).
      + unfold exec. cbn [step1 ts tc]. unfold set_check. rewrite Hv. cbn [negb step1 ts tc fst snd].
        split; [exact Hc|eexists; reflexivity].
    - destruct (exec_add st pc n new Hc) as (pc' & Hc' & E). rewrite E.
      destruct (follow_pure (view st) n) as [rn [s|]|]; cbn [fst snd tc ts];
        try (split; [exact Hc'|eexists; reflexivity]).
      destruct (valid rn); cbn [fst snd tc ts];
        (split; [try apply coherent_put; exact Hc'|eexists; reflexivity]).
    - destruct (valid n) eqn:Hv.
      + destruct (exec_remove st pc n old Hv Hc) as (st' & pc' & Hc' & E & _). rewrite E.
        cbn [fst snd tc ts]. split; [exact Hc'|eexists; reflexivity].
      + unfold exec. cbn [step1 ts tc]. unfold remove_check. rewrite Hv. cbn [negb step1 ts tc fst snd].
        split; [exact Hc|eexists; reflexivity].
  Qed.

  (* ... hence along every sequence of operations on one container *)
  Lemma exec_seq_coherent :
    forall ops st pc, coherent pc st ->
      Forall (fun x => match x with (r, s, c) => coherent c s /\ r <> None end)
             (exec_seq valid ops st pc).
  Proof.
    induction ops as [|o ops IH]; intros st pc Hc; cbn [exec_seq]; [constructor|].
    destruct (exec valid o st pc) as [st' t'] eqn:E.
    destruct (exec_coherent o st pc Hc) as [H1 [r H2]]. rewrite E in H1, H2. cbn [fst snd] in H1, H2.
    constructor.
    - split; [exact H1|]. unfold res_of. rewrite H2. discriminate.
    - apply IH. exact H1.
  Qed.

  (* ------------------------------------------ refinement of the atomic spec -- *)

  Lemma view_remove :
    forall st st' n,
      loose st' = upd (loose st) n None ->
      (forall x, packed st' x = upd (packed st) n None x) ->
      forall x, view st' x = upd (view st) n None x.
  Proof.
    intros st st' n Hl Hp x. unfold view. rewrite Hl, Hp. unfold upd.
    destruct (N.eqb x n); reflexivity.
  Qed.

  Theorem exec_refines_spec :
    forall o st pc,
      coherent pc st ->
      res_of (snd (exec valid o st pc)) = Some (fst (spec_op valid o (view st))) /\
      forall x, view (fst (exec valid o st pc)) x = snd (spec_op valid o (view st)) x.
  Proof.
    intros [n old new|n new|n old] st pc Hc; cbn [spec_op].
    - destruct (valid n) eqn:Hv; cbn [negb].
      + destruct (exec_set st pc n old new Hv Hc) as (pc' & Hc' & E). rewrite E.
        fold (cas_ok old (cur (view st) (target (view st) n))).
        destruct (cas_ok old _); cbn [fst snd]; (split; [reflexivity|]); intro x;
          [apply view_put|reflexivity].
      + unfold exec. cbn [step1 ts tc]. unfold set_check. rewrite Hv. cbn [negb step1 ts tc fst snd].
        split; reflexivity.
    - destruct (exec_add st pc n new Hc) as (pc' & Hc' & E). rewrite E.
      destruct (follow_pure (view st) n) as [rn [s|]|]; cbn [fst snd];
        try (split; reflexivity).
      destruct (valid rn); cbn [fst snd]; (split; [reflexivity|]); intro x;
        [apply view_put|reflexivity].
    - destruct (valid n) eqn:Hv; cbn [negb].
      + destruct (exec_remove st pc n old Hv Hc) as (st' & pc' & Hc' & E & H). rewrite E.
        fold (cas_ok old (cur (view st) n)).
        destruct (cas_ok old (cur (view st) n)); cbn [fst snd res_of ts].
        * split; [reflexivity|]. destruct H as [Hl Hp].
          apply view_remove; [exact Hl|exact Hp].
        * subst st'. split; reflexivity.
      + unfold exec. cbn [step1 ts tc]. unfold remove_check. rewrite Hv. cbn [negb step1 ts tc fst snd].
        split; reflexivity.
  Qed.

  (* ------------------------------- the compared value is the followed one -- *)

  (* follow ended at [rn] with contents [c]: the value set_if_equals compares
     with old_ref is what the name resolves to (ZERO_SHA when it resolves to nothing) *)
  Lemma follow_pure_aux_cur :
    forall v f n d rn c,
      follow_pure_aux v f n d = FOk rn c ->
      cur v rn = VSha (match c with Some s => s | None => ZERO_SHA end).
  Proof.
    intros v f. induction f as [|f IH]; intros n d rn c H; simpl in H; [discriminate|].
    destruct (v n) as [x|] eqn:Ev.
    - destruct (Nat.ltb 5 (S d)); [discriminate|].
      destruct x as [s|t].
      + inversion H; subst. unfold cur. rewrite Ev. reflexivity.
      + eapply IH. exact H.
    - inversion H; subst. unfold cur. rewrite Ev. reflexivity.
  Qed.

  (* after a successful set the name resolves, through the same symrefs, to the new value *)
  Lemma follow_pure_aux_after_put :
    forall v f n d rn s new,
      follow_pure_aux v f n d = FOk rn (Some s) ->
      follow_pure_aux (upd v rn (Some (VSha new))) f n d = FOk rn (Some new).
  Proof.
    intros v f. induction f as [|f IH]; intros n d rn s new H; simpl in H |- *; [discriminate|].
    destruct (v n) as [x|] eqn:Ev; [|discriminate].
    destruct (Nat.ltb 5 (S d)) eqn:Ed; [discriminate|].
    unfold upd at 1. destruct (N.eqb n rn) eqn:En.
    - apply N.eqb_eq in En. subst n. reflexivity.
    - rewrite Ev. destruct x as [s'|t].
      + inversion H; subst. rewrite N.eqb_refl in En. discriminate.
      + eapply IH. exact H.
  Qed.
End Exec.

(* --------------------------------------------------- two updaters: specs -- *)

Definition spec_ab (valid : name -> bool) (oa ob : op) (v : name -> option val) :=
  let '(ra, v1) := spec_op valid oa v in
  let '(rb, v2) := spec_op valid ob v1 in (ra, rb, v2).
Definition spec_ba (valid : name -> bool) (oa ob : op) (v : name -> option val) :=
  let '(rb, v1) := spec_op valid ob v in
  let '(ra, v2) := spec_op valid oa v1 in (ra, rb, v2).

(* the final system state is explained by SOME serial order of the two atomic operations *)
Definition linearizable (valid : name -> bool) (oa ob : op) (st0 : store) (s : sys) : Prop :=
  exists ra rb v,
    (spec_ab valid oa ob (view st0) = (ra, rb, v) \/ spec_ba valid oa ob (view st0) = (ra, rb, v)) /\
    res_of (s_a s) = Some ra /\ res_of (s_b s) = Some rb /\
    forall x, view (s_store s) x = v x.

Definition all_valid (n : name) : bool := true.

(* extensionality of the specification in the view *)
Lemma follow_pure_aux_ext :
  forall v w, (forall x, v x = w x) ->
    forall f n d, follow_pure_aux v f n d = follow_pure_aux w f n d.
Proof.
  intros v w H f. induction f as [|f IH]; intros n d; simpl; [reflexivity|].
  rewrite H. destruct (w n) as [[s|t]|]; try reflexivity.
  destruct (Nat.ltb 5 (S d)); [reflexivity|]. apply IH.
Qed.

Lemma spec_op_ext :
  forall valid o v w, (forall x, v x = w x) ->
    fst (spec_op valid o v) = fst (spec_op valid o w) /\
    forall x, snd (spec_op valid o v) x = snd (spec_op valid o w) x.
Proof.
  intros valid o v w H.
  assert (Hf : forall n, follow_pure v n = follow_pure w n)
    by (intro n; apply follow_pure_aux_ext; exact H).
  assert (Ht : forall n, target v n = target w n) by (intro n; unfold target; rewrite Hf; reflexivity).
  assert (Hc : forall n, cur v n = cur w n) by (intro n; unfold cur; rewrite H; reflexivity).
  assert (Hu : forall k z x, upd v k z x = upd w k z x)
    by (intros k z x; unfold upd; destruct (N.eqb x k); [reflexivity|apply H]).
  destruct o as [n old new|n new|n old]; cbn [spec_op].
  - destruct (negb (valid n)); [split; [reflexivity|exact H]|].
    rewrite Ht, Hc.
    destruct (match old with Some o => val_eqb (cur w (target w n)) o | None => true end);
      cbn [fst snd]; split; try reflexivity; try exact H. intro x. apply Hu.
  - rewrite Hf. destruct (follow_pure w n) as [rn [s|]|]; cbn [fst snd];
      try (split; [reflexivity|exact H]).
    destruct (valid rn); cbn [fst snd]; split; try reflexivity; try exact H. intro x. apply Hu.
  - destruct (negb (valid n)); [split; [reflexivity|exact H]|].
    rewrite Hc.
    destruct (match old with Some o => val_eqb (cur w n) o | None => true end);
      cbn [fst snd]; split; try reflexivity; try exact H. intro x. apply Hu.
Qed.

(* a serial schedule is the sequential composition *)
Lemma run_serial :
  forall valid st oa ca ob cb,
    run_sched valid [0; 0; 0; 1; 1; 1] (sys_init st oa ca ob cb) =
    let '(s1, t1) := exec valid oa st ca in
    let '(s2, t2) := exec valid ob s1 cb in mkSys s2 t1 t2.
Proof.
  intros valid st oa ca ob cb.
  unfold run_sched, run, sys_init, exec. cbn [fold_left sys_step s_store s_a s_b].
  destruct (step1 valid st (mkThread (TStart oa) ca)) as [x1 y1]. cbn [s_store s_a s_b].
  destruct (step1 valid x1 y1) as [x2 y2]. cbn [s_store s_a s_b].
  destruct (step1 valid x2 y2) as [x3 y3]. cbn [s_store s_a s_b].
  destruct (step1 valid x3 (mkThread (TStart ob) cb)) as [x4 y4]. cbn [s_store s_a s_b].
  destruct (step1 valid x4 y4) as [x5 y5]. cbn [s_store s_a s_b].
  destruct (step1 valid x5 y5) as [x6 y6]. reflexivity.
Qed.

(* two updaters that do not overlap, each starting with a coherent cache, are linearizable *)
Theorem serial_linearizable :
  forall valid st oa ca ob cb,
    coherent ca st ->
    coherent cb (fst (exec valid oa st ca)) ->
    linearizable valid oa ob st
      (run_sched valid [0; 0; 0; 1; 1; 1] (sys_init st oa ca ob cb)).
Proof.
  intros valid st oa ca ob cb Hca Hcb.
  rewrite run_serial.
  destruct (exec_refines_spec valid oa st ca Hca) as [Ra Va].
  destruct (exec valid oa st ca) as [s1 t1] eqn:Ea. cbn [fst snd] in *.
  destruct (exec_refines_spec valid ob s1 cb Hcb) as [Rb Vb].
  destruct (exec valid ob s1 cb) as [s2 t2] eqn:Eb. cbn [fst snd] in *.
  destruct (spec_op_ext valid ob (view s1) (snd (spec_op valid oa (view st))) Va) as [X1 X2].
  exists (fst (spec_op valid oa (view st))),
         (fst (spec_op valid ob (snd (spec_op valid oa (view st))))),
         (snd (spec_op valid ob (snd (spec_op valid oa (view st))))).
  split.
  - left. unfold spec_ab.
    destruct (spec_op valid oa (view st)) as [ra v1]. cbn [fst snd].
    destruct (spec_op valid ob v1) as [rb v2]. reflexivity.
  - cbn [s_a s_b s_store]. split; [exact Ra|]. split; [rewrite Rb, X1; reflexivity|].
    intro x. rewrite Vb. apply X2.
Qed.

(* ------------------------------------------------------- the refutations -- *)

Definition st_loose1 : store := mk_store [(1%N, VSha 1%N)] [].
Definition st_packed1 : store := mk_store [] [(1%N, 1%N)].
Definition st_packed12 : store := mk_store [] [(1%N, 1%N); (2%N, 2%N)].

(* (b) the lost update: A and B both expect 1; A.check B.check A.put B.put *)
Lemma interleaved_refuted :
  exists st oa ob sched,
    List.length sched = 4 /\
    let s := run_sched all_valid sched (sys_init st oa None ob None) in
    res_of (s_a s) = Some (RRet true) /\ res_of (s_b s) = Some (RRet true) /\
    ~ linearizable all_valid oa ob st s.
Proof.
  exists st_loose1, (OpSet 1%N (Some (VSha 1%N)) 2%N), (OpSet 1%N (Some (VSha 1%N)) 3%N), [0; 1; 0; 1].
  split; [reflexivity|]. cbv zeta.
  split; [reflexivity|]. split; [reflexivity|].
  intros (ra & rb & v & [H|H] & Ha & Hb & _); vm_compute in H, Ha, Hb;
    inversion H; subst; discriminate.
Qed.

(* (c) no overlap at all, but B had loaded packed-refs before A rewrote it *)
Lemma stale_cache_refuted :
  exists st oa ob cb,
    coherent cb st /\
    let s := run_sched all_valid [0; 0; 0; 1; 1; 1] (sys_init st oa None ob cb) in
    res_of (s_a s) = Some (RRet true) /\ res_of (s_b s) = Some (RRet true) /\
    ~ linearizable all_valid oa ob st s.
Proof.
  exists st_packed1, (OpRemove 1%N (Some (VSha 1%N))), (OpSet 1%N (Some (VSha 1%N)) 3%N),
         (Some (packed st_packed1)).
  split; [apply coherent_self|]. cbv zeta.
  split; [reflexivity|]. split; [reflexivity|].
  intros (ra & rb & v & [H|H] & Ha & Hb & _); vm_compute in H, Ha, Hb;
    inversion H; subst; discriminate.
Qed.

(* (d) two removals of DIFFERENT packed refs: the second rewrite of packed-refs
   resurrects the ref the first one removed *)
Lemma remove_resurrects_refuted :
  exists st oa ob sched,
    let s := run_sched all_valid sched
               (sys_init st oa (Some (packed st)) ob (Some (packed st))) in
    res_of (s_a s) = Some (RRet true) /\ res_of (s_b s) = Some (RRet true) /\
    view (s_store s) 1%N = Some (VSha 1%N) /\
    ~ linearizable all_valid oa ob st s.
Proof.
  exists st_packed12, (OpRemove 1%N (Some (VSha 1%N))), (OpRemove 2%N (Some (VSha 2%N))),
         [0; 0; 1; 1; 0; 1].
  cbv zeta. split; [reflexivity|]. split; [reflexivity|]. split; [reflexivity|].
  intros (ra & rb & v & [H|H] & _ & _ & Hv); specialize (Hv 1%N);
    vm_compute in H; inversion H; subst; vm_compute in Hv; discriminate.
Qed.

(* ------------------------------------------- the statements used by C37.v -- *)

Lemma cas_ok_true :
  forall old c, cas_ok old c = true <-> (old = None \/ old = Some c).
Proof.
  intros [o|] c; cbn [cas_ok]; split.
  - intro H. apply val_eqb_eq in H. right. congruence.
  - intros [H|H]; [discriminate|]. inversion H. apply val_eqb_eq. reflexivity.
  - intro. left. reflexivity.
  - intro. reflexivity.
Qed.

Lemma cas_ok_false :
  forall old c, cas_ok old c = false <-> (exists o, old = Some o /\ o <> c).
Proof.
  intros [o|] c; cbn [cas_ok]; split.
  - intro H. apply val_eqb_neq in H. exists o. split; [reflexivity|]. congruence.
  - intros (o' & E & N). inversion E; subst. apply val_eqb_neq. congruence.
  - discriminate.
  - intros (o' & E & _). discriminate.
Qed.

Lemma follow_pure_aux_none :
  forall v f n d rn, follow_pure_aux v f n d = FOk rn None -> v rn = None.
Proof.
  intros v f. induction f as [|f IH]; intros n d rn H; simpl in H; [discriminate|].
  destruct (v n) as [x|] eqn:Ev.
  - destruct (Nat.ltb 5 (S d)); [discriminate|].
    destruct x as [s|t]; [discriminate|]. eapply IH. exact H.
  - inversion H; subst. exact Ev.
Qed.

Section Statements.
  Variable valid : name -> bool.

  Theorem set_if_equals_cas :
    forall st pc n old new,
      valid n = true -> coherent pc st ->
      let rn := target (view st) n in
      let st' := fst (exec valid (OpSet n old new) st pc) in
      let t' := snd (exec valid (OpSet n old new) st pc) in
      coherent (tc t') st' /\
      ((old = None \/ old = Some (cur (view st) rn)) ->
         res_of t' = Some (RRet true) /\
         (forall x, view st' x = if N.eqb x rn then Some (VSha new) else view st x) /\
         (forall x, packed st' x = packed st x)) /\
      (forall o, old = Some o -> o <> cur (view st) rn ->
         res_of t' = Some (RRet false) /\ st' = st).
  Proof.
    intros st pc n old new Hv Hc rn st' t'. subst st' t'.
    destruct (exec_set valid st pc n old new Hv Hc) as (pc' & Hc' & E). fold rn in E. rewrite E.
    destruct (cas_ok old (cur (view st) rn)) eqn:Ek; cbn [fst snd tc].
    - split; [apply coherent_put; exact Hc'|]. split.
      + intros _. split; [reflexivity|]. split; [|reflexivity].
        intro x. unfold put. rewrite view_put. reflexivity.
      + intros o Ho Hn. exfalso.
        assert (F : cas_ok old (cur (view st) rn) = false) by (apply cas_ok_false; eauto).
        congruence.
    - split; [exact Hc'|]. split.
      + intro H. apply cas_ok_true in H. congruence.
      + intros o Ho Hn. split; reflexivity.
  Qed.

  (* "after following symbolic refs": the name resolves to [s] through its symrefs *)
  Theorem set_if_equals_follows :
    forall st pc n old new rn s,
      valid n = true -> coherent pc st ->
      follow_pure (view st) n = FOk rn (Some s) ->
      let st' := fst (exec valid (OpSet n old new) st pc) in
      let t' := snd (exec valid (OpSet n old new) st pc) in
      ((old = None \/ old = Some (VSha s)) ->
         res_of t' = Some (RRet true) /\ follow_pure (view st') n = FOk rn (Some new)) /\
      (forall o, old = Some o -> o <> VSha s -> res_of t' = Some (RRet false) /\ st' = st).
  Proof.
    intros st pc n old new rn s Hv Hc Hf st' t'.
    destruct (set_if_equals_cas st pc n old new Hv Hc) as (_ & H1 & H2).
    assert (Ht : target (view st) n = rn) by (unfold target; rewrite Hf; reflexivity).
    assert (Hcur : cur (view st) rn = VSha s) by (apply (follow_pure_aux_cur _ _ _ _ _ _ Hf)).
    rewrite Ht, Hcur in H1, H2. fold st' t' in H1, H2.
    split; [|exact H2].
    intro Ho. destruct (H1 Ho) as (R & V & _). split; [exact R|].
    unfold follow_pure.
    rewrite (follow_pure_aux_ext (view st') (upd (view st) rn (Some (VSha new)))) by (intro x; apply V).
    eapply follow_pure_aux_after_put. exact Hf.
  Qed.

  (* ... or to nothing: the expected value for "absent" is ZERO_SHA *)
  Theorem set_if_equals_absent :
    forall st pc n old new rn,
      valid n = true -> coherent pc st ->
      follow_pure (view st) n = FOk rn None ->
      let st' := fst (exec valid (OpSet n old new) st pc) in
      let t' := snd (exec valid (OpSet n old new) st pc) in
      view st rn = None /\
      ((old = None \/ old = Some (VSha ZERO_SHA)) ->
         res_of t' = Some (RRet true) /\ view st' rn = Some (VSha new)) /\
      (forall o, old = Some o -> o <> VSha ZERO_SHA -> res_of t' = Some (RRet false) /\ st' = st).
  Proof.
    intros st pc n old new rn Hv Hc Hf st' t'.
    destruct (set_if_equals_cas st pc n old new Hv Hc) as (_ & H1 & H2).
    assert (Ht : target (view st) n = rn) by (unfold target; rewrite Hf; reflexivity).
    assert (Hcur : cur (view st) rn = VSha ZERO_SHA) by (apply (follow_pure_aux_cur _ _ _ _ _ _ Hf)).
    rewrite Ht, Hcur in H1, H2. fold st' t' in H1, H2.
    split; [apply (follow_pure_aux_none _ _ _ _ _ Hf)|]. split; [|exact H2].
    intro Ho. destruct (H1 Ho) as (R & V & _). split; [exact R|].
    rewrite V, N.eqb_refl. reflexivity.
  Qed.

  Theorem remove_if_equals_cas :
    forall st pc n old,
      valid n = true -> coherent pc st ->
      let st' := fst (exec valid (OpRemove n old) st pc) in
      let t' := snd (exec valid (OpRemove n old) st pc) in
      coherent (tc t') st' /\
      ((old = None \/ old = Some (cur (view st) n)) ->
         res_of t' = Some (RRet true) /\
         loose st' = upd (loose st) n None /\
         (forall x, packed st' x = upd (packed st) n None x) /\
         (forall x, view st' x = if N.eqb x n then None else view st x)) /\
      (forall o, old = Some o -> o <> cur (view st) n ->
         res_of t' = Some (RRet false) /\ st' = st).
  Proof.
    intros st pc n old Hv Hc st' t'. subst st' t'.
    destruct (exec_remove valid st pc n old Hv Hc) as (s' & pc' & Hc' & E & H). rewrite E.
    cbn [fst snd tc res_of ts]. split; [exact Hc'|].
    destruct (cas_ok old (cur (view st) n)) eqn:Ek.
    - split.
      + intros _. destruct H as [Hl Hp]. split; [reflexivity|]. split; [exact Hl|]. split; [exact Hp|].
        intro x. rewrite (view_remove st s' n Hl Hp). reflexivity.
      + intros o Ho Hn. exfalso.
        assert (F : cas_ok old (cur (view st) n) = false) by (apply cas_ok_false; eauto).
        congruence.
    - split.
      + intro Ho. apply cas_ok_true in Ho. congruence.
      + intros o Ho Hn. split; [reflexivity|exact H].
  Qed.

  Theorem add_if_new_never_overwrites :
    forall st pc n new,
      coherent pc st ->
      let st' := fst (exec valid (OpAdd n new) st pc) in
      let t' := snd (exec valid (OpAdd n new) st pc) in
      coherent (tc t') st' /\
      (forall m v, view st m = Some v -> view st' m = Some v) /\
      (res_of t' = Some (RRet true) ->
         exists rn, follow_pure (view st) n = FOk rn None /\ valid rn = true /\ view st rn = None /\
                    forall x, view st' x = if N.eqb x rn then Some (VSha new) else view st x) /\
      (res_of t' <> Some (RRet true) -> st' = st) /\
      (forall rn, follow_pure (view st) n = FOk rn None -> valid rn = true ->
                  res_of t' = Some (RRet true)).
  Proof.
    intros st pc n new Hc st' t'. subst st' t'.
    destruct (exec_add valid st pc n new Hc) as (pc' & Hc' & E). rewrite E.
    destruct (follow_pure (view st) n) as [rn [s|]|] eqn:Ef; cbn [fst snd tc res_of ts].
    - split; [exact Hc'|]. split; [auto|]. split; [discriminate|]. split; [reflexivity|].
      intros rn' H. discriminate.
    - assert (Hn : view st rn = None) by (apply (follow_pure_aux_none _ _ _ _ _ Ef)).
      destruct (valid rn) eqn:Hv; cbn [fst snd tc res_of ts].
      + split; [apply coherent_put; exact Hc'|]. split.
        * intros m v Hm. unfold put. rewrite view_put. unfold upd.
          destruct (N.eqb m rn) eqn:Em; [|exact Hm].
          apply N.eqb_eq in Em. subst m. congruence.
        * split.
          -- intros _. exists rn. split; [reflexivity|]. split; [exact Hv|]. split; [exact Hn|].
             intro x. unfold put. rewrite view_put. reflexivity.
          -- split; [intro H; congruence|]. intros; reflexivity.
      + split; [exact Hc'|]. split; [auto|]. split; [discriminate|]. split; [reflexivity|].
        intros rn' H Hv'. inversion H; subst. congruence.
    - split; [exact Hc'|]. split; [auto|]. split; [discriminate|]. split; [reflexivity|].
      intros rn' H. discriminate.
  Qed.
End Statements.

(* ------------------------------------------------ push (fetch_refs) -- *)

(* the ref update of a push is conditional on the value the push read at its start:
   if, when the push finally writes, the ref no longer holds the snapshot value, nothing is
   written; a name that was absent in the snapshot never overwrites anything *)
Theorem push_conditional :
  forall valid v0 st pc n new,
    valid n = true -> coherent pc st ->
    let st' := fst (exec valid (push_op v0 n new) st pc) in
    (forall o, v0 n = Some o -> o <> cur (view st) (target (view st) n) -> st' = st) /\
    (forall o, v0 n = Some o -> o = cur (view st) (target (view st) n) ->
       forall x, view st' x = if N.eqb x (target (view st) n) then Some (VSha new) else view st x) /\
    (v0 n = None -> forall m v, view st m = Some v -> view st' m = Some v).
Proof.
  intros valid v0 st pc n new Hv Hc st'. subst st'. unfold push_op.
  destruct (v0 n) as [o|] eqn:E.
  - destruct (set_if_equals_cas valid st pc n (Some o) new Hv Hc) as (_ & H1 & H2).
    split; [|split].
    + intros o' Ho Hn. assert (Eo : o' = o) by congruence. subst o'. apply (proj2 (H2 o eq_refl Hn)).
    + intros o' Ho He. assert (Eo : o' = o) by congruence. subst o'.
      assert (X : Some o = None \/ Some o = Some (cur (view st) (target (view st) n)))
        by (right; congruence).
      destruct (H1 X) as (_ & V & _). exact V.
    + discriminate.
  - split; [intros o Ho; discriminate|]. split; [intros o Ho; discriminate|].
    intros _. destruct (add_if_new_never_overwrites valid st pc n new Hc) as (_ & H & _). exact H.
Qed.
