(* Theory/BranchRepoSpec.v -- C32: refinement vocabulary and the laws of the
   specification machine Model/BranchRepoSpec.v.

   Part 1 (generic): implementations as labelled transition systems, trace
   refinement of a deterministic specification on an operation sequence, "two
   refinements agree", forward simulation => refinement for every sequence.
   Part 2: laws of the branch/repository specification that any refining
   implementation inherits (tags, config, commit, push-then-pull, revno =
   left-hand length, refused calls change nothing, VFS-free sequences do not
   depend on the VFS switch, quirk-free sequences do not depend on the access path). *)
From Coq Require Import String List Arith Bool ZArith Lia.
From BV Require Import Lib.Obs Lib.Dag Theory.DagFacts Model.BranchRepoSpec.
Import ListNotations.
Open Scope nat_scope.
Open Scope list_scope.

(* ====================================================================== *)
(* Part 1: refinement                                                      *)
(* ====================================================================== *)

Section Refinement.
  Variables (Op Ob S : Type).
  Variable sstep : S -> Op -> Ob * S.          (* the deterministic specification *)

  Fixpoint srun (s : S) (ops : list Op) : list Ob :=
    match ops with
    | [] => []
    | o :: rest => fst (sstep s o) :: srun (snd (sstep s o)) rest
    end.

  (* an implementation: any state space, any (possibly nondeterministic, possibly partial) step relation *)
  Record impl := mkImpl { istate : Type; istep : istate -> Op -> Ob -> istate -> Prop }.

  Inductive itrace (A : impl) : istate A -> list Op -> list Ob -> Prop :=
  | it_nil i : itrace A i [] []
  | it_cons i o ob i' ops obs :
      istep A i o ob i' -> itrace A i' ops obs -> itrace A i (o :: ops) (ob :: obs).

  (* A, started in i0, refines the specification started in s0 on the sequence ops:
     whatever A can be observed to do on ops is what the specification does *)
  Definition refines (A : impl) (i0 : istate A) (s0 : S) (ops : list Op) : Prop :=
    forall tr, itrace A i0 ops tr -> tr = srun s0 ops.

  (* the specification seen as an implementation of itself *)
  Definition spec_impl : impl := mkImpl S (fun s o ob s' => sstep s o = (ob, s')).

  Lemma spec_trace_exists s ops : itrace spec_impl s ops (srun s ops).
  Proof.
    revert s. induction ops as [|o rest IH]; intros s; cbn [srun]; [constructor|].
    econstructor; [|apply IH]. cbn. apply surjective_pairing.
  Qed.

  Theorem spec_deterministic s ops tr1 tr2 :
    itrace spec_impl s ops tr1 -> itrace spec_impl s ops tr2 -> tr1 = tr2.
  Proof.
    intros H1. revert tr2. induction H1 as [i | i o ob i' ops obs Hs _ IH]; intros tr2 H2.
    - inversion H2. reflexivity.
    - inversion H2 as [| i2 o2 ob2 i2' ops2 obs2 Hs2 Ht2]; subst. cbn in Hs, Hs2.
      rewrite Hs in Hs2. injection Hs2 as -> ->. f_equal. apply IH. exact Ht2.
  Qed.

  Theorem spec_refines_itself s ops : refines spec_impl s s ops.
  Proof. intros tr H. eapply spec_deterministic; [exact H | apply spec_trace_exists]. Qed.

  Theorem two_refinements_agree (A B : impl) a0 b0 s0 ops :
    refines A a0 s0 ops -> refines B b0 s0 ops ->
    forall ta tb, itrace A a0 ops ta -> itrace B b0 ops tb -> ta = tb.
  Proof. intros RA RB ta tb HA HB. rewrite (RA _ HA), (RB _ HB). reflexivity. Qed.

  (* a forward simulation gives refinement for EVERY sequence *)
  Theorem simulation_refines (A : impl) (R : istate A -> S -> Prop) :
    (forall i s o ob i', R i s -> istep A i o ob i' -> ob = fst (sstep s o) /\ R i' (snd (sstep s o))) ->
    forall i0 s0, R i0 s0 -> forall ops, refines A i0 s0 ops.
  Proof.
    intros Sim i0 s0 R0 ops tr H. revert s0 R0.
    induction H as [i | i o ob i' ops obs Hs _ IH]; intros s0 R0; [reflexivity|].
    destruct (Sim _ _ _ _ _ R0 Hs) as [-> R1]. cbn [srun]. f_equal. apply IH. exact R1.
  Qed.
End Refinement.

Arguments itrace {Op Ob}. Arguments refines {Op Ob S}. Arguments istate {Op Ob}. Arguments istep {Op Ob}.

(* the C32 instance: one trace entry = returned value + state read back *)
Definition spec_step (c : cfg) (x : st) (o : op) : obs * st :=
  let r := step c x o in (entry r, snd r).

Lemma run_is_srun c : forall ops x, run c x ops = srun op obs st (spec_step c) x ops.
Proof. induction ops as [|o rest IH]; intros x; cbn; [reflexivity|]. f_equal. apply IH. Qed.

(* ====================================================================== *)
(* Part 2: laws of the specification                                       *)
(* ====================================================================== *)

(* ---- association lists ---- *)

Lemma aget_ains_same k v l : aget k (ains k v l) = Some v.
Proof.
  induction l as [|[k' v'] l IH]; cbn [ains aget]; [rewrite Nat.eqb_refl; reflexivity|].
  destruct (k <? k') eqn:L; cbn [aget]; [rewrite Nat.eqb_refl; reflexivity|].
  destruct (k =? k') eqn:E; cbn [aget]; [rewrite Nat.eqb_refl; reflexivity|].
  rewrite E. exact IH.
Qed.

Lemma aget_ains_other k k0 v l : k0 <> k -> aget k0 (ains k v l) = aget k0 l.
Proof.
  intros N. assert (X : k0 =? k = false) by (apply Nat.eqb_neq; exact N).
  induction l as [|[k' v'] l IH]; cbn [ains aget].
  - rewrite X. reflexivity.
  - destruct (k <? k') eqn:L; cbn [aget].
    + rewrite X. reflexivity.
    + destruct (k =? k') eqn:E; cbn [aget].
      * apply Nat.eqb_eq in E. subst k'. rewrite X. reflexivity.
      * destruct (k0 =? k'); [reflexivity | exact IH].
Qed.

(* ---- repository content ---- *)

Lemma memb_filter (P : revid -> bool) r l : memb r (filter P l) = P r && memb r l.
Proof.
  destruct (P r && memb r l) eqn:E.
  - apply andb_true_iff in E as [A B]. apply memb_In. apply filter_In.
    split; [apply memb_In; exact B | exact A].
  - apply memb_false. intros H. apply filter_In in H as [H1 H2]. apply memb_In in H1.
    rewrite H1, H2 in E. discriminate.
Qed.

Lemma memb_seq r n : memb r (seq 0 n) = (r <? n).
Proof.
  destruct (r <? n) eqn:L.
  - apply memb_In. apply in_seq. apply Nat.ltb_lt in L. lia.
  - apply memb_false. intros H. apply in_seq in H. apply Nat.ltb_ge in L. lia.
Qed.

Lemma memb_merge g h e r : memb r (merge_have g h e) = (memb r h || memb r e) && (r <? length g).
Proof. unfold merge_have. rewrite memb_filter, memb_seq. reflexivity. Qed.

(* fetching the same revision again changes nothing *)
Lemma merge_idem g h e : merge_have g (merge_have g h e) e = merge_have g h e.
Proof.
  unfold merge_have at 1 3. apply filter_ext_in. intros r Hr. apply in_seq in Hr.
  rewrite memb_merge. assert (L : r <? length g = true) by (apply Nat.ltb_lt; lia).
  rewrite L, andb_true_r. destruct (memb r h), (memb r e); reflexivity.
Qed.

Lemma fetched_idem x s : fetched (fetched x s) s = fetched x s.
Proof. unfold fetched; cbn [g have tip revno tags conf locked rlocked knit signed mine]. rewrite merge_idem. reflexivity. Qed.

Lemma fetched_set_tip_idem x s n : fetched (set_tip (fetched x s) s n) s = set_tip (fetched x s) s n.
Proof. unfold set_tip, fetched; cbn [g have tip revno tags conf locked rlocked knit signed mine]. rewrite merge_idem. reflexivity. Qed.

(* ---- tags and config: what is set is what is read ---- *)

Theorem set_tag_read c x t r ob x' :
  locked x = false -> step c x (SetTag t r) = (ob, x') ->
  ob = ON /\ aget t (tags x') = Some r /\ (forall t0, t0 <> t -> aget t0 (tags x') = aget t0 (tags x)) /\
  g x' = g x /\ have x' = have x /\ tip x' = tip x /\ revno x' = revno x /\ conf x' = conf x.
Proof.
  intros L H. unfold step in H. cbn in H. rewrite L in H. cbn in H. injection H as <- <-. cbn.
  repeat split; try reflexivity; [apply aget_ains_same | intros; apply aget_ains_other; assumption].
Qed.

Theorem set_conf_read c x o v old ob x' :
  locked x = false -> step c x (SetConf o v old) = (ob, x') ->
  ob = ON /\ aget o (conf x') = Some v /\ (forall o0, o0 <> o -> aget o0 (conf x') = aget o0 (conf x)) /\
  tags x' = tags x /\ tip x' = tip x /\ have x' = have x.
Proof.
  intros L H. unfold step in H. cbn in H. rewrite L in H. cbn in H. injection H as <- <-. cbn.
  repeat split; try reflexivity; [apply aget_ains_same | intros; apply aget_ains_other; assumption].
Qed.

Lemma locked_refuses_pre c x o :
  locked x = true -> mutating o = true -> step c x o = (OE "LockContention"%string, x).
Proof. intros L M. unfold step. rewrite L, M. reflexivity. Qed.

(* ---- signatures: several sign_revision calls in one write group all end up stored ---- *)

Theorem sign_stores_all c x rs ob x' :
  rlocked x = false -> (knit x = false \/ remote c = false \/ vfs c = true) ->
  all_present (have x) rs = true ->
  step c x (Sign rs) = (ob, x') ->
  ob = OT "ok"%string /\
  (forall r, r < length (g x) -> memb r (signed x') = memb r (signed x) || memb r rs) /\
  have x' = have x /\ tip x' = tip x /\ locked x' = locked x /\ rlocked x' = false.
Proof.
  intros L V A H. unfold step in H. cbn [mutating andb needs_vfs] in H. rewrite L, A in H.
  assert (E : knit x && remote c && negb (vfs c) = false).
  { destruct V as [-> | [-> | ->]]; [reflexivity | | ].
    - rewrite andb_false_r. reflexivity.
    - apply andb_false_r. }
  rewrite E in H. injection H as <- <-. cbn [signed have tip locked rlocked with_signed].
  repeat split; try reflexivity; [|exact L].
  intros r Hr. rewrite memb_merge. apply Nat.ltb_lt in Hr. rewrite Hr, andb_true_r. reflexivity.
Qed.

(* a branch lock left behind (repository free) refuses every branch write and leaves the
   repository free: nothing else becomes locked by a failed attempt *)
Theorem stale_lock_refusals_leave_repository_free c x o r x1 ob x2 :
  locked x = false -> mine x = false ->
  step c x StaleLock = (r, x1) -> mutating o = true -> step c x1 o = (ob, x2) ->
  ob = OE "LockContention"%string /\ x2 = x1 /\ rlocked x2 = false /\ locked x2 = true.
Proof.
  intros L Mn H M H2. unfold step in H. cbn [mutating andb needs_vfs] in H. rewrite L in H. cbn in H.
  rewrite Mn in H.
  injection H as _ <-. rewrite (locked_refuses_pre c (with_locks x true false) o (eq_refl true) M) in H2. injection H2 as <- <-.
  repeat split; reflexivity.
Qed.

(* ---- commit ---- *)

Theorem tip_after_commit c x ob x' :
  locked x = false -> (remote c = false \/ vfs c = true) -> fresh_next (g x) = true ->
  step c x Commit = (ob, x') ->
  ob = onat (length (g x)) /\ tip x' = Some (length (g x)) /\ revno x' = S (revno x) /\
  parents (g x') (length (g x)) = match tip x with None => [] | Some t => [t] end /\
  memb (length (g x)) (have x') = true /\ tags x' = tags x /\ conf x' = conf x.
Proof.
  intros L V F H. unfold step in H. cbn in H. rewrite L in H. cbn in H.
  assert (E : remote c && negb (vfs c) = false) by (destruct V as [-> | ->]; [reflexivity | apply andb_false_r]).
  rewrite E in H. unfold next_fresh in H. rewrite F in H. injection H as <- <-. cbn.
  repeat split; try reflexivity; [apply parents_new|].
  apply memb_In. apply in_or_app. right. left. reflexivity.
Qed.

(* ---- the revno invariant ---- *)

Definition consistent (x : st) : Prop :=
  wf_dag (g x) = true /\
  match tip x with
  | None => revno x = 0
  | Some t => distance_to_null (g x) t = Some (revno x)
  end.

Lemma distance_some_present g0 r n : distance_to_null g0 r = Some n -> r < length g0.
Proof.
  unfold distance_to_null. cbn [distance_fuel]. destruct (present g0 r) eqn:P; [|discriminate].
  intros _. apply Nat.ltb_lt. exact P.
Qed.

Theorem consistent_revno_is_lefthand_length x :
  consistent x -> revno x = length (lefthand_opt (g x) (tip x)).
Proof.
  intros [W H]. destruct (tip x) as [t|]; cbn; [|exact H].
  destruct (distance_length _ _ _ W H) as [E _]. symmetry. exact E.
Qed.

Lemma distance_extend g0 ps t n : wf_dag g0 = true -> wf_dag (g0 ++ [ps]) = true -> fresh_next g0 = true ->
  distance_to_null g0 t = Some n -> distance_to_null (g0 ++ [ps]) t = Some n.
Proof.
  intros W W' F H. pose proof (distance_some_present _ _ _ H) as Lt.
  destruct (distance_length _ _ _ W H) as [E P].
  rewrite (distance_spec _ t W'). unfold lefthand_present in *.
  rewrite (lefthand_extend g0 ps t W F) by lia. rewrite E.
  replace (forallb (present (g0 ++ [ps])) (lefthand g0 t)) with true; [reflexivity|].
  symmetry. apply forallb_forall. intros y Hy. rewrite forallb_forall in P. specialize (P y Hy).
  unfold present in *. apply Nat.ltb_lt in P. apply Nat.ltb_lt. rewrite app_length. cbn. lia.
Qed.

Lemma consistent_set_tip x s n :
  wf_dag (g x) = true -> distance_to_null (g x) s = Some n -> consistent (set_tip x s n).
Proof. intros W H. split; [exact W | exact H]. Qed.

Lemma consistent_fetched x s : consistent x -> consistent (fetched x s).
Proof. intros H. exact H. Qed.

Lemma update_consistent x s ow : consistent x -> consistent (snd (update x s ow)).
Proof.
  intros C. unfold update.
  assert (D : forall n, decide x s ow = Move n -> distance_to_null (g x) s = Some n).
  { intros n. unfold decide.
    destruct (distance_to_null (g x) s) as [m|] eqn:E.
    - destruct (tip x) as [t|]; [|intros [= <-]; reflexivity].
      destruct (t =? s); [discriminate|]. destruct ow; [intros [= <-]; reflexivity|].
      destruct (is_ancestor (g x) s t); [discriminate|].
      destruct (is_ancestor (g x) t s); [intros [= <-]; reflexivity | discriminate].
    - destruct (tip x) as [t|]; [|discriminate].
      destruct (t =? s); [discriminate|]. destruct ow; [discriminate|].
      destruct (is_ancestor (g x) s t); [discriminate|].
      destruct (is_ancestor (g x) t s); discriminate. }
  destruct (decide x s ow) as [| n | |] eqn:E; cbn [snd]; try (apply consistent_fetched; exact C).
  apply (consistent_set_tip (fetched x s) s n); [exact (proj1 C) | exact (D n eq_refl)].
Qed.

Theorem step_consistent c x o : consistent x -> consistent (snd (step c x o)).
Proof.
  intros C. unfold step.
  destruct (mutating o && locked x); [exact C|].
  destruct (needs_vfs o && remote c && negb (vfs c)); [exact C|].
  destruct o; cbn [snd]; try exact C.
  - apply update_consistent; exact C.
  - apply update_consistent; exact C.
  - destruct (rlocked x); exact C.
  - (* Commit *)
    unfold next_fresh. destruct (fresh_next (g x)) eqn:F; [|exact C]. cbn [snd].
    destruct C as [W H]. unfold consistent; cbn [g tip revno].
    destruct (tip x) as [t|] eqn:T.
    + pose proof (distance_some_present _ _ _ H) as Lt.
      assert (W' : wf_dag (g x ++ [[t]]) = true).
      { apply wf_extend; [exact W | | exact F]. cbn. rewrite andb_true_r.
        apply orb_true_iff. left. apply Nat.ltb_lt. exact Lt. }
      split; [exact W'|].
      rewrite (distance_unfold _ _ W') by (rewrite app_length; cbn; lia).
      rewrite parents_new. rewrite (distance_extend _ _ _ _ W W' F H). reflexivity.
    + assert (W' : wf_dag (g x ++ [[]]) = true) by (apply wf_extend; [exact W | reflexivity | exact F]).
      split; [exact W'|].
      rewrite (distance_unfold _ _ W') by (rewrite app_length; cbn; lia).
      rewrite parents_new. rewrite H. reflexivity.
  - destruct (aget t (tags x)); exact C.
  - destruct (mine x); exact C.
  - destruct (locked x); exact C.
  - destruct (memb r (have x)); exact C.
  - destruct (index_of r (lefthand_opt (g x) (tip x))); exact C.
  - destruct (memb r (have x)); exact C.
  - (* GenHist *)
    destruct (memb r (have x)); [|exact C].
    destruct (distance_to_null (g x) r) as [n|] eqn:E; [|exact C].
    apply consistent_set_tip; [exact (proj1 C) | exact E].
  - destruct (mine x); exact C.
  - (* Sign *)
    destruct (rlocked x); [exact C|]. destruct (knit x && remote c && negb (vfs c)); [exact C|].
    destruct (all_present (have x) rs); [exact C|]. destruct (knit x); exact C.
  - destruct (locked x); exact C.
  - destruct (mine x); exact C.
Qed.

Theorem run_consistent c : forall ops x, consistent x -> consistent (final c x ops).
Proof.
  induction ops as [|o rest IH]; intros x C; cbn; [exact C|]. apply IH. apply step_consistent. exact C.
Qed.

(* ---- refused calls ---- *)

(* the only failing calls that leave a trace in the store are a diverged push/pull (the
   revisions were fetched before the check -- that is what the code does, locally too) and a
   failing Sign on a knit-family repository (no transactional write group: the signatures made
   before the failure stay) *)
Theorem refused_changes_nothing c x o e x' :
  step c x o = (OE e, x') ->
  x' = x \/ (exists s ow, (o = Push s ow \/ o = Pull s ow) /\ x' = fetched x s)
  \/ (exists rs, o = Sign rs /\ knit x = true /\
                 x' = with_signed x (merge_have (g x) (signed x) (present_prefix (have x) rs))).
Proof.
  unfold step. destruct (mutating o && locked x); [intros [= _ <-]; left; reflexivity|].
  destruct (needs_vfs o && remote c && negb (vfs c)); [intros [= _ <-]; left; reflexivity|].
  destruct o; try (intros [= _ <-]; left; reflexivity); try discriminate.
  - unfold update. destruct (decide x s ow); try discriminate; intros [= _ <-]; right; left; exists s, ow; auto.
  - unfold update. destruct (decide x s ow); try discriminate; intros [= _ <-]; right; left; exists s, ow; auto.
  - destruct (rlocked x); [intros [= _ <-]; left; reflexivity | discriminate].
  - unfold next_fresh. destruct (fresh_next (g x)); [discriminate | intros [= _ <-]; left; reflexivity].
  - destruct (aget t (tags x)); [discriminate | intros [= _ <-]; left; reflexivity].
  - destruct (mine x); [intros [= _ <-]; left; reflexivity | discriminate].
  - destruct (locked x); discriminate.
  - destruct (memb r (have x)); [discriminate | intros [= _ <-]; left; reflexivity].
  - destruct (index_of r (lefthand_opt (g x) (tip x))); [discriminate | intros [= _ <-]; left; reflexivity].
  - destruct (memb r (have x)); [discriminate | intros [= _ <-]; left; reflexivity].
  - destruct (memb r (have x)); [|intros [= _ <-]; left; reflexivity].
    destruct (distance_to_null (g x) r); [discriminate | intros [= _ <-]; left; reflexivity].
  - destruct (mine x); [intros [= _ <-]; left; reflexivity | discriminate].
  - destruct (rlocked x); [intros [= _ <-]; left; reflexivity|].
    destruct (knit x && remote c && negb (vfs c)); [intros [= _ <-]; left; reflexivity|].
    destruct (all_present (have x) rs); [discriminate|].
    destruct (knit x) eqn:K; intros [= _ <-]; [right; right; exists rs; auto | left; reflexivity].
  - destruct (locked x); [intros [= _ <-]; left; reflexivity | discriminate].
  - destruct (mine x); discriminate.
Qed.

Theorem locked_refuses c x o :
  locked x = true -> mutating o = true -> step c x o = (OE "LockContention"%string, x).
Proof. intros L M. unfold step. rewrite L, M. reflexivity. Qed.

Theorem novfs_refuses x o :
  locked x = false -> needs_vfs o = true ->
  exists e, step cfg_novfs x o = (OE e, x).
Proof.
  intros L N. unfold step. rewrite L, andb_false_r, N. cbn.
  destruct o; try discriminate; eexists; reflexivity.
Qed.

(* ---- push then pull ---- *)

Theorem push_then_pull_is_noop c x s ow r x1 :
  wf_dag (g x) = true -> (remote c = false \/ vfs c = true) ->
  step c x (Push s ow) = (r, x1) -> (forall e, r <> OE e) ->
  step c x1 (Pull s false) = (update_result x1 x1, x1).
Proof.
  intros W V H NE. unfold step in H. cbn [mutating needs_vfs andb] in H.
  destruct (locked x) eqn:L; [exfalso; injection H as <- _; eapply NE; reflexivity|].
  cbn in H.
  assert (L1 : locked x1 = false /\ g x1 = g x /\ fetched x1 s = x1 /\
               exists t, tip x1 = Some t /\ (t = s \/ is_ancestor (g x) s t = true)).
  { unfold update in H. unfold decide in H.
    destruct (tip x) as [t|] eqn:T.
    - destruct (t =? s) eqn:Ets.
      + injection H as _ <-. apply Nat.eqb_eq in Ets. subst t.
        repeat split; [exact L | apply fetched_idem | exists s; split; [exact T | left; reflexivity]].
      + destruct ow.
        * destruct (distance_to_null (g x) s) as [n|]; [|exfalso; injection H as <- _; eapply NE; reflexivity].
          injection H as _ <-. repeat split; [exact L | apply fetched_set_tip_idem | exists s; split; [reflexivity | left; reflexivity]].
        * destruct (is_ancestor (g x) s t) eqn:A.
          -- injection H as _ <-.
             repeat split; [exact L | apply fetched_idem | exists t; split; [exact T | right; exact A]].
          -- destruct (is_ancestor (g x) t s);
               [|exfalso; injection H as <- _; eapply NE; reflexivity].
             destruct (distance_to_null (g x) s) as [n|]; [|exfalso; injection H as <- _; eapply NE; reflexivity].
             injection H as _ <-. repeat split; [exact L | apply fetched_set_tip_idem | exists s; split; [reflexivity | left; reflexivity]].
    - destruct (distance_to_null (g x) s) as [n|]; [|exfalso; injection H as <- _; eapply NE; reflexivity].
      injection H as _ <-. repeat split; [exact L | apply fetched_set_tip_idem | exists s; split; [reflexivity | left; reflexivity]]. }
  destruct L1 as (Lk & G1 & F1 & t & T1 & Rel).
  unfold step. cbn [mutating needs_vfs andb]. rewrite Lk. cbn [andb].
  assert (E : remote c && negb (vfs c) = false) by (destruct V as [-> | ->]; [reflexivity | apply andb_false_r]).
  rewrite E. cbn [andb]. unfold update, decide. rewrite T1, F1, G1.
  destruct Rel as [-> | A].
  - rewrite Nat.eqb_refl. reflexivity.
  - destruct (t =? s); [reflexivity|]. rewrite A. reflexivity.
Qed.

(* ---- independence from the access path ---- *)

(* operations whose outcome can depend on the VFS switch: the two VFS-only ones, and Sign (on a
   knit-family repository the write group needs VFS; guarded coarsely, for every format) *)
Definition vfs_sensitive (o : op) : bool :=
  needs_vfs o || match o with Sign _ => true | _ => false end.
Definition vfs_free (ops : list op) : bool := forallb (fun o => negb (vfs_sensitive o)) ops.

(* the places where the remote path is known to answer differently (known findings) *)
Definition quirk (o : op) : bool :=
  match o with
  | ParentMap keys => has_null keys && has_some keys
  | GenHist _ => true          (* only an ABSENT revision differs; guarded coarsely *)
  | _ => false
  end.
Definition quirk_free (ops : list op) : bool := forallb (fun o => negb (quirk o)) ops.

Lemma step_vfs_irrelevant x o : vfs_sensitive o = false ->
  step cfg_novfs x o = step cfg_vfs x o.
Proof. intros N. unfold step. destruct o; try discriminate; reflexivity. Qed.

Theorem novfs_agrees_guarded : forall ops x, vfs_free ops = true ->
  run cfg_novfs x ops = run cfg_vfs x ops.
Proof.
  induction ops as [|o rest IH]; intros x H; [reflexivity|]. cbn in H. apply andb_true_iff in H as [Ho Hr].
  apply negb_true_iff in Ho. cbn [run]. rewrite (step_vfs_irrelevant x o Ho). cbn zeta.
  f_equal. apply IH. exact Hr.
Qed.

Lemma step_remote_irrelevant x o : quirk o = false ->
  step cfg_vfs x o = step cfg_local x o.
Proof.
  intros Q. unfold step. cbn [remote vfs hpss cfg_vfs cfg_local negb andb]. rewrite !andb_false_r.
  destruct o; try reflexivity; try discriminate.
  cbn [quirk] in Q. cbn [mutating andb]. unfold parent_map. cbn [remote cfg_vfs cfg_local andb].
  destruct (has_null keys); cbn [andb] in *; [rewrite Q|]; reflexivity.
Qed.

Theorem modes_agree_guarded : forall ops x, quirk_free ops = true ->
  run cfg_vfs x ops = run cfg_local x ops.
Proof.
  induction ops as [|o rest IH]; intros x H; [reflexivity|]. cbn in H. apply andb_true_iff in H as [Ho Hr].
  apply negb_true_iff in Ho. cbn [run]. rewrite (step_remote_irrelevant x o Ho). cbn zeta.
  f_equal. apply IH. exact Hr.
Qed.

(* a server without the modern verbs: the client's VFS fallbacks give the same machine.
   (Before the repair 9cb1028 this needed a guard: GetRev on a rich-root knit/pack repository
   raised KeyError through the Repository.iter_revisions verb but not through the fallback.) *)
Lemma step_old_irrelevant x o : step cfg_old x o = step cfg_vfs x o.
Proof. unfold step. destruct o; reflexivity. Qed.

Theorem oldsrv_agrees : forall ops x, run cfg_old x ops = run cfg_vfs x ops.
Proof.
  induction ops as [|o rest IH]; intros x; [reflexivity|].
  cbn [run]. rewrite (step_old_irrelevant x o). cbn zeta. f_equal. apply IH.
Qed.

(* the guard cannot be dropped: the specification records the two places where the two
   code paths are observed to answer differently *)
Theorem modes_agree_refuted :
  exists x ops, run cfg_vfs x ops <> run cfg_local x ops.
Proof.
  exists (init_state [[]; [0]] (Some 1) false), [ParentMap [None; Some 1]]. vm_compute. discriminate.
Qed.
