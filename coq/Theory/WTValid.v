(* Theory/WTValid.v -- C09: every operation of the specification machine keeps
   the versioned tree valid (single root with id 0, unique ids, unique paths
   = unique sibling names, every non-root entry's parent is versioned), for
   both formats, hence for arbitrary operation sequences. *)
From Coq Require Import NArith Arith List Bool Lia.
From BV Require Import Lib.Obs Model.WT Theory.WTBase.
Import ListNotations.

(* a tree skeleton: (file id, path) pairs *)
Record vt (n : nat) (l : list (nat * path)) : Prop := {
  vt_ids : NoDup (map fst l);
  vt_paths : NoDup (map snd l);
  vt_root : In (0, []) l;
  vt_parent : forall p, In p (map snd l) -> p <> [] -> In (parent p) (map snd l);
  vt_fresh : forall k, In k (map fst l) -> k < n }.

Definition iproj (i : inv) : list (nat * path) := map (fun e => (fst e, fst (snd e))) i.
Definition bproj (b : list (nat * tentry)) : list (nat * path) := map (fun e => (fst e, tpath (snd e))) b.

Definition valid_state (f : format) (s : state) : Prop :=
  match f with
  | Bzr => vt (snext s) (iproj (sinv s)) /\ (sbasis s = [] \/ vt (snext s) (bproj (sbasis s)))
  | Git => NoDup (sindex s) /\ NoDup (map fst (gbasis s))
  end.

(* ------------------------------------------------------------------ *)
(* list facts                                                          *)

Lemma NoDup_map_filter {A B} (g : A -> B) (P : A -> bool) l :
  NoDup (map g l) -> NoDup (map g (filter P l)).
Proof.
  induction l as [|x l IH]; simpl; intros H; [constructor|].
  inversion H; subst. destruct (P x); simpl; [|apply IH; assumption].
  constructor; [|apply IH; assumption].
  intros Hin. apply H2. apply in_map_iff in Hin as [y [Hy Hin]]. apply filter_In in Hin as [Hin _].
  rewrite <- Hy. apply in_map. exact Hin.
Qed.

Lemma NoDup_map_inj_in {A B} (g : A -> B) l :
  NoDup l -> (forall x y, In x l -> In y l -> g x = g y -> x = y) -> NoDup (map g l).
Proof.
  induction l as [|x l IH]; simpl; intros Hnd Hinj; [constructor|].
  inversion Hnd; subst. constructor.
  - intros Hin. apply in_map_iff in Hin as [y [Hy Hin]].
    assert (y = x) by (apply Hinj; [right; assumption | left; reflexivity | assumption]).
    subst. contradiction.
  - apply IH; [assumption|]. intros a b Ha Hb. apply Hinj; right; assumption.
Qed.

Lemma NoDup_snoc {A} (l : list A) x : NoDup l -> ~ In x l -> NoDup (l ++ [x]).
Proof.
  intros H Hx. induction l as [|y l IH]; simpl.
  - constructor; [intros []|constructor].
  - inversion H; subst. constructor.
    + rewrite in_app_iff. intros [H1|[H1|[]]]; [contradiction|]. subst. apply Hx. left; reflexivity.
    + apply IH; [assumption|]. intros H1; apply Hx; right; exact H1.
Qed.

(* ------------------------------------------------------------------ *)
(* lookups                                                             *)

Lemma path2id_Some i p k : path2id i p = Some k -> In (k, p) (iproj i).
Proof.
  induction i as [|[k' [q kd]] i IH]; simpl; [discriminate|].
  destruct (path_eqb q p) eqn:E.
  - intros H; inversion H; subst. apply path_eqb_spec in E; subst. left; reflexivity.
  - intros H; right; apply IH; exact H.
Qed.
Lemma path2id_None i p : path2id i p = None -> ~ In p (map snd (iproj i)).
Proof.
  induction i as [|[k' [q kd]] i IH]; simpl; [intros _ []|].
  destruct (path_eqb q p) eqn:E; [discriminate|].
  intros H [H1|H1]; [subst; rewrite path_eqb_refl in E; discriminate | apply IH in H; contradiction].
Qed.
Lemma bpath2id_Some b p k : bpath2id b p = Some k -> In (k, p) (bproj b).
Proof.
  induction b as [|[k' e] b IH]; simpl; [discriminate|].
  destruct (path_eqb (tpath e) p) eqn:E.
  - intros H; inversion H; subst. apply path_eqb_spec in E; subst. left; reflexivity.
  - intros H; right; apply IH; exact H.
Qed.
Lemma nat_eqb_spec a b : Nat.eqb a b = true <-> a = b.
Proof. apply Nat.eqb_eq. Qed.
Lemma id2entry_Some i k p kd : id2entry i k = Some (p, kd) -> In (k, p) (iproj i).
Proof.
  intros H. apply (assoc_In Nat.eqb nat_eqb_spec) in H.
  unfold iproj. apply in_map_iff. exists (k, (p, kd)). split; [reflexivity | exact H].
Qed.
Lemma id2entry_None i k : id2entry i k = None -> ~ In k (map fst (iproj i)).
Proof.
  intros H. apply (assoc_None Nat.eqb nat_eqb_spec) in H.
  unfold iproj. rewrite map_map. simpl. exact H.
Qed.

(* ------------------------------------------------------------------ *)
(* how the tree skeleton evolves                                       *)

Lemma vt_mono n n' l : n <= n' -> vt n l -> vt n' l.
Proof. intros Hle [H1 H2 H3 H4 H5]. constructor; auto. intros k Hk. apply H5 in Hk. lia. Qed.

Lemma vt_snoc n n' l k p :
  vt n l -> ~ In k (map fst l) -> k < n' -> n <= n' -> ~ In p (map snd l) -> In (parent p) (map snd l) ->
  vt n' (l ++ [(k, p)]).
Proof.
  intros [H1 H2 H3 H4 H5] Hk Hkn Hle Hp Hpar. constructor.
  - rewrite map_app. simpl. apply NoDup_snoc; assumption.
  - rewrite map_app. simpl. apply NoDup_snoc; assumption.
  - apply in_or_app. left; assumption.
  - intros q. rewrite map_app, !in_app_iff. simpl. intros [Hq|[Hq|[]]] Hne.
    + left. apply H4; assumption.
    + subst. left. assumption.
  - intros j. rewrite map_app, in_app_iff. simpl. intros [Hj|[Hj|[]]]; [apply H5 in Hj; lia | lia].
Qed.

(* keep the entries whose path satisfies an upward-closed predicate *)
Lemma vt_filter n l (P : path -> bool) :
  vt n l -> P [] = true -> (forall r, P r = true -> P (parent r) = true) ->
  vt n (filter (fun e => P (snd e)) l).
Proof.
  intros [H1 H2 H3 H4 H5] P0 Pup. constructor.
  - apply NoDup_map_filter; assumption.
  - apply NoDup_map_filter; assumption.
  - apply filter_In. split; [assumption | exact P0].
  - intros p Hp Hne. apply in_map_iff in Hp as [[k q] [Hq Hin]]. simpl in Hq; subst q.
    apply filter_In in Hin as [Hin HP]. simpl in HP.
    assert (Hpar : In (parent p) (map snd l)).
    { apply H4; [|assumption]. apply in_map_iff. exists (k, p). split; [reflexivity | assumption]. }
    apply in_map_iff in Hpar as [[k' q'] [Hq' Hin']]. simpl in Hq'; subst q'.
    apply in_map_iff. exists (k', parent p). split; [reflexivity|].
    apply filter_In. split; [assumption|]. simpl. apply Pup; assumption.
  - intros k Hk. apply H5. apply in_map_iff in Hk as [e [He Hin]]. apply filter_In in Hin as [Hin _].
    subst. apply in_map. assumption.
Qed.

(* ancestors of versioned paths are versioned *)
Lemma vt_ancestors n l a x : vt n l -> In (a ++ x) (map snd l) -> In a (map snd l).
Proof.
  intros Hv. induction x as [|c x IH] using rev_ind; intros Hin.
  - rewrite app_nil_r in Hin; exact Hin.
  - apply IH. rewrite app_assoc in Hin.
    pose proof (vt_parent _ _ Hv _ Hin) as Hp.
    rewrite parent_snoc in Hp. apply Hp. destruct (a ++ x); discriminate.
Qed.

Definition rn (cur q : path) (r : path) : path := if under cur r then reroot cur q r else r.

Lemma vt_rename n l cur q :
  vt n l -> cur <> [] -> ~ In q (map snd l) -> In (parent q) (map snd l) -> under cur q = false ->
  vt n (map (fun e => (fst e, rn cur q (snd e))) l).
Proof.
  intros Hv Hcur Hq Hpq Hnu. pose proof Hv as [H1 H2 H3 H4 H5].
  assert (Hids : map fst (map (fun e => (fst e, rn cur q (snd e))) l) = map fst l).
  { rewrite map_map. reflexivity. }
  assert (Hps : map snd (map (fun e => (fst e, rn cur q (snd e))) l) = map (rn cur q) (map snd l)).
  { rewrite !map_map. reflexivity. }
  assert (Hunmoved : forall r, under cur r = false -> rn cur q r = r).
  { intros r Hr. unfold rn. rewrite Hr. reflexivity. }
  assert (Hroot : under cur [] = false).
  { destruct cur; [contradiction | reflexivity]. }
  constructor.
  - rewrite Hids. assumption.
  - rewrite Hps. apply NoDup_map_inj_in; [assumption|].
    intros x y Hx Hy. unfold rn.
    destruct (under cur x) eqn:Ux, (under cur y) eqn:Uy.
    + destruct (reroot_under cur q x Ux) as [a [-> ->]].
      destruct (reroot_under cur q y Uy) as [b [-> ->]].
      intros E. apply app_inv_head in E. subst. reflexivity.
    + destruct (reroot_under cur q x Ux) as [a [-> ->]]. intros E. exfalso. apply Hq.
      apply (vt_ancestors n l q a Hv). rewrite E. exact Hy.
    + destruct (reroot_under cur q y Uy) as [b [-> ->]]. intros E. exfalso. apply Hq.
      apply (vt_ancestors n l q b Hv). rewrite <- E. exact Hx.
    + auto.
  - apply in_map_iff. exists (0, []). split; [|assumption]. simpl. rewrite Hunmoved by assumption. reflexivity.
  - rewrite Hps. intros p Hp Hne. apply in_map_iff in Hp as [r [Hr Hin]].
    unfold rn in Hr. destruct (under cur r) eqn:Ur.
    + destruct (reroot_under cur q r Ur) as [a [Ha Hb]]. rewrite Hb in Hr. subst p.
      destruct a as [|c a].
      * rewrite app_nil_r in *. apply in_map_iff. exists (parent q). split; [|assumption].
        apply Hunmoved. destruct (under cur (parent q)) eqn:U; [|reflexivity].
        apply under_parent in U. congruence.
      * rewrite parent_app by discriminate. apply in_map_iff. exists (cur ++ parent (c :: a)). split.
        -- unfold rn. rewrite (under_app cur cur _ (under_refl cur)).
           destruct (reroot_under cur q (cur ++ parent (c :: a)) (under_app cur cur _ (under_refl cur))) as [b [Hb1 Hb2]].
           apply app_inv_head in Hb1. subst b. exact Hb2.
        -- rewrite <- parent_app by discriminate. rewrite <- Ha. apply H4; [assumption|].
           rewrite Ha. destruct cur; discriminate.
    + subst p. apply in_map_iff. exists (parent r). split.
      * apply Hunmoved. destruct (under cur (parent r)) eqn:U; [|reflexivity]. apply under_parent in U. congruence.
      * apply H4; assumption.
  - rewrite Hids. assumption.
Qed.

(* ------------------------------------------------------------------ *)
(* the operations                                                      *)

Lemma iproj_app a b : iproj (a ++ b) = iproj a ++ iproj b.
Proof. apply map_app. Qed.

Lemma iproj_filter (P : path -> bool) i :
  iproj (filter (fun e => P (fst (snd e))) i) = filter (fun e => P (snd e)) (iproj i).
Proof.
  induction i as [|[k [p kd]] i IH]; simpl; [reflexivity|].
  destruct (P p); simpl; rewrite IH; reflexivity.
Qed.

Lemma iproj_rename i cur q :
  iproj (inv_rename i cur q) = map (fun e => (fst e, rn cur q (snd e))) (iproj i).
Proof.
  unfold inv_rename, iproj. rewrite !map_map. apply map_ext. intros [k [p kd]]. simpl.
  unfold rn. destruct (under cur p); reflexivity.
Qed.

Definition bvalid (n : nat) (i : inv) (b : list (nat * tentry)) : Prop :=
  vt n (iproj i) /\ (b = [] \/ vt n (bproj b)).

Lemma bvalid_mono n n' i b : n <= n' -> bvalid n i b -> bvalid n' i b.
Proof.
  intros Hle [H1 H2]. split; [eapply vt_mono; eassumption|].
  destruct H2; [left; assumption | right; eapply vt_mono; eassumption].
Qed.

Lemma add_entry_valid s p k st s' :
  bvalid (snext s) (sinv s) (sbasis s) -> path2id (sinv s) p = None ->
  bzr_add_entry s p k = Done st s' -> bvalid (snext s') (sinv s') (sbasis s').
Proof.
  intros Hv Hp. unfold bzr_add_entry, bzr_parent_check.
  destruct (path2id (sinv s) (parent p)) as [par|] eqn:Epar.
  2:{ destruct (existsb _ _); [discriminate|]. intros H; inversion H; subst. exact Hv. }
  destruct (id2entry (sinv s) par) as [[pp [|]]|]; try discriminate.
  intros H; inversion H; subst; simpl. destruct Hv as [Hi Hb]. split.
  - rewrite iproj_app. simpl. apply (vt_snoc (snext s)); try assumption; try lia.
    + intros Hin. apply (vt_fresh _ _ Hi) in Hin. lia.
    + apply path2id_None; assumption.
    + apply path2id_Some in Epar. apply (in_map snd) in Epar. exact Epar.
  - destruct Hb; [left; assumption | right; eapply vt_mono; [|eassumption]; lia].
Qed.

Lemma remove_pred_up p r : negb (under p r) = true -> negb (under p (parent r)) = true.
Proof.
  rewrite !negb_true_iff. intros H. destruct (under p (parent r)) eqn:U; [|reflexivity].
  apply under_parent in U. congruence.
Qed.

Lemma rename_valid n i b cur q :
  bvalid n i b -> cur <> [] -> path2id i q = None -> path2id i (parent q) <> None -> under cur q = false ->
  bvalid n (inv_rename i cur q) b.
Proof.
  intros [Hi Hb] Hc Hq Hpq Hu. split; [|assumption].
  rewrite iproj_rename. apply vt_rename; try assumption.
  - apply path2id_None; assumption.
  - destruct (path2id i (parent q)) as [k|] eqn:E; [|contradiction].
    apply path2id_Some in E. apply (in_map snd) in E. exact E.
Qed.

Lemma bzr_rename_one_valid s p q st s' :
  bvalid (snext s) (sinv s) (sbasis s) ->
  bzr_rename_one s p q = Done st s' -> bvalid (snext s') (sinv s') (sbasis s').
Proof.
  intros Hv. unfold bzr_rename_one.
  destruct p as [|p0 p']; [intros H; inversion H; subst; exact Hv|].
  destruct q as [|q0 q']; [intros H; inversion H; subst; exact Hv|].
  set (p := p0 :: p'). set (q := q0 :: q').
  (* what entry is renamed, in which inventory *)
  match goal with |- match ?F with _ => _ end = _ -> _ => remember F as found eqn:Hfound end.
  destruct found as [[[fid i1]|]|].
  2:{ discriminate. }
  2:{ destruct (bpath2id (sbasis s) p); intros H; inversion H; subst; exact Hv. }
  assert (Hv1 : bvalid (snext s) i1 (sbasis s)).
  { destruct (path2id (sinv s) p) as [k|] eqn:E1.
    { inversion Hfound; subst. exact Hv. }
    destruct (bpath2id (sbasis s) p) as [k|] eqn:E2; [|discriminate].
    destruct (id2entry (sinv s) k) as [e|] eqn:E3.
    { inversion Hfound; subst. exact Hv. }
    destruct (bpath2id (sbasis s) (parent p)) as [bpar|] eqn:E4; [|discriminate].
    destruct (id2entry (sinv s) bpar) as [[pp kd]|] eqn:E5; [|discriminate].
    destruct (path_eqb pp (parent p)) eqn:E6; [|discriminate].
    destruct (assoc Nat.eqb k (sbasis s)) as [be|] eqn:E7; [|discriminate].
    inversion Hfound; subst. destruct Hv as [Hi Hb]. split; [|assumption].
    rewrite iproj_app. simpl. apply (vt_snoc (snext s)); try assumption; try lia.
    - apply id2entry_None; assumption.
    - destruct Hb as [Hb|Hb]; [rewrite Hb in E2; discriminate|].
      apply (vt_fresh _ _ Hb). apply bpath2id_Some in E2. apply (in_map fst) in E2. exact E2.
    - apply path2id_None; assumption.
    - apply path_eqb_spec in E6. subst pp. apply id2entry_Some in E5. apply (in_map snd) in E5. exact E5. }
  clear Hfound.
  destruct (id2entry i1 fid) as [[cur kd]|]; [|discriminate].
  destruct cur as [|c0 cur']; [discriminate|].
  destruct (path2id i1 q) eqn:Eq; [intros H; inversion H; subst; exact Hv|].
  destruct (negb (exists_ (sdisk s) p) && negb (exists_ (sdisk s) q)); [intros H; inversion H; subst; exact Hv|].
  destruct (exists_ (sdisk s) p && exists_ (sdisk s) q); [intros H; inversion H; subst; exact Hv|].
  destruct (path2id i1 (parent q)) eqn:Epq; [|intros H; inversion H; subst; exact Hv].
  destruct (under (c0 :: cur') q) eqn:Eu.
  { destruct (exists_ (sdisk s) p && path_eqb (c0 :: cur') p); [intros H; inversion H; subst; exact Hv | discriminate]. }
  assert (Hren : bvalid (snext s) (inv_rename i1 (c0 :: cur') q) (sbasis s)).
  { apply rename_valid; try assumption; [discriminate | rewrite Epq; discriminate]. }
  destruct (exists_ (sdisk s) p).
  - destruct (os_rename_err (sdisk s) p q); intros H; inversion H; subst; [exact Hv | exact Hren].
  - intros H; inversion H; subst. exact Hren.
Qed.

Lemma bzr_move_valid s p d st s' :
  bvalid (snext s) (sinv s) (sbasis s) ->
  bzr_move s p d = Done st s' -> bvalid (snext s') (sinv s') (sbasis s').
Proof.
  intros Hv. unfold bzr_move.
  destruct p as [|p0 p']; [intros H; inversion H; subst; exact Hv|].
  set (p := p0 :: p').
  destruct (path2id (sinv s) d) as [did|] eqn:Ed; [|intros H; inversion H; subst; exact Hv].
  destruct (negb (isdir (sdisk s) d)); [intros H; inversion H; subst; exact Hv|].
  destruct (id2entry (sinv s) did) as [[dp [|]]|]; try (intros H; inversion H; subst; exact Hv).
  destruct (path2id (sinv s) p) eqn:Ep; [|intros H; inversion H; subst; exact Hv].
  destruct (path2id (sinv s) (d ++ [lastname p])) eqn:Eq; [intros H; inversion H; subst; exact Hv|].
  destruct (negb (exists_ (sdisk s) (d ++ [lastname p])) && negb (exists_ (sdisk s) p));
    [intros H; inversion H; subst; exact Hv|].
  destruct (exists_ (sdisk s) (d ++ [lastname p]) && exists_ (sdisk s) p); [intros H; inversion H; subst; exact Hv|].
  destruct (under p (d ++ [lastname p])) eqn:Eu.
  { destruct (exists_ (sdisk s) p); [intros H; inversion H; subst; exact Hv | discriminate]. }
  assert (Hren : bvalid (snext s) (inv_rename (sinv s) p (d ++ [lastname p])) (sbasis s)).
  { apply rename_valid; try assumption; [discriminate|]. rewrite parent_snoc, Ed. discriminate. }
  destruct (exists_ (sdisk s) p).
  - destruct (os_rename_err _ _ _); intros H; inversion H; subst; [exact Hv | exact Hren].
  - intros H; inversion H; subst. exact Hren.
Qed.

Lemma view_entry_path d p : tpath (view_entry d p) = p.
Proof. unfold view_entry. destruct (dl d p) as [[c x|]|]; reflexivity. Qed.

Lemma keep_proj d (missing : list path) (i : inv) :
  bproj (filter (fun e => negb (existsb (fun m => under m (tpath (snd e))) missing))
                (map (fun e : nat * (path * kind) => (fst e, view_entry d (fst (snd e)))) i))
  = filter (fun e => negb (existsb (fun m => under m (snd e)) missing)) (iproj i).
Proof.
  unfold bproj, iproj. induction i as [|[k [p kd]] i IH]; simpl; [reflexivity|].
  rewrite view_entry_path.
  destruct (negb (existsb (fun m : path => under m p) missing)); simpl; rewrite IH;
    [rewrite view_entry_path|]; reflexivity.
Qed.

Lemma bzr_commit_valid s st s' :
  bvalid (snext s) (sinv s) (sbasis s) ->
  bzr_commit s = Done st s' -> bvalid (snext s') (sinv s') (sbasis s').
Proof.
  intros [Hi _]. unfold bzr_commit. intros H; inversion H; subst; clear H. simpl.
  set (missing := map (fun e : nat * tentry => tpath (snd e))
                     (filter (fun e : nat * tentry => match tkind (snd e) with None => true | _ => false end) (bzr_view s))).
  set (P := fun r : path => negb (existsb (fun m => under m r) missing)).
  assert (Hkeep : bproj (filter (fun e => negb (existsb (fun m => under m (tpath (snd e))) missing)) (bzr_view s))
                  = filter (fun e => P (snd e)) (iproj (sinv s))).
  { unfold bzr_view. apply keep_proj. }
  assert (Hvt : vt (snext s) (filter (fun e => P (snd e)) (iproj (sinv s)))).
  { apply vt_filter; [assumption| |].
    - unfold P. apply negb_true_iff. apply not_true_iff_false. intros Hex.
      apply existsb_exists in Hex as [m [Hm Hu]]. destruct m; [|discriminate].
      unfold missing in Hm. apply in_map_iff in Hm as [[k e] [He Hin]]. simpl in He.
      apply filter_In in Hin as [Hin Hk]. simpl in Hk.
      unfold bzr_view in Hin. apply in_map_iff in Hin as [[k' [p' kd']] [He' _]]. simpl in He'.
      inversion He'; subst. rewrite view_entry_path in He. subst p'.
      unfold view_entry in Hk. simpl in Hk. discriminate.
    - intros r. unfold P. rewrite !negb_true_iff. intros Hr.
      apply not_true_iff_false. intros Hex. apply not_true_iff_false in Hr. apply Hr.
      apply existsb_exists in Hex as [m [Hm Hu]]. apply existsb_exists. exists m. split; [assumption|].
      apply under_parent; assumption. }
  split.
  - match goal with |- vt _ (iproj (map ?g ?keep)) => assert (Hp : iproj (map g keep) = bproj keep) end.
    { unfold iproj, bproj. rewrite map_map. reflexivity. }
    rewrite Hp, Hkeep. exact Hvt.
  - right. rewrite Hkeep. exact Hvt.
Qed.

Lemma bzr_revert_valid s st s' :
  bvalid (snext s) (sinv s) (sbasis s) ->
  bzr_revert s = Done st s' -> bvalid (snext s') (sinv s') (sbasis s').
Proof.
  intros [Hi Hb]. unfold bzr_revert.
  destruct (revert_disk _ _ _ _ _ _); [|discriminate].
  intros H; inversion H; subst; clear H. simpl. split; [|assumption].
  set (i := map _ (sbasis s)).
  assert (Hp : iproj i = bproj (sbasis s)).
  { unfold i, iproj, bproj. rewrite map_map. reflexivity. }
  destruct Hb as [Hb|Hb].
  - unfold i. rewrite Hb. simpl. constructor; simpl.
    + constructor; [intros []|constructor].
    + constructor; [intros []|constructor].
    + left; reflexivity.
    + intros p [<-|[]] Hne. contradiction.
    + intros k [<-|[]]. pose proof (vt_root _ _ Hi) as Hr. apply (in_map fst) in Hr.
      apply (vt_fresh _ _ Hi) in Hr. exact Hr.
  - assert (Hroot : assoc Nat.eqb 0 i <> None).
    { intros Hn. apply (assoc_None Nat.eqb nat_eqb_spec) in Hn. apply Hn.
      pose proof (vt_root _ _ Hb) as Hr. apply (in_map fst) in Hr. simpl in Hr.
      unfold i. rewrite map_map. simpl. unfold bproj in Hr. rewrite map_map in Hr. exact Hr. }
    destruct (assoc Nat.eqb 0 i); [|contradiction]. rewrite Hp. exact Hb.
Qed.

(* git: the index is a duplicate-free list of paths *)
Lemma nodup_paths_NoDup l : NoDup (nodup_paths l).
Proof.
  induction l as [|x l IH]; simpl; [constructor|].
  destruct (memp x l) eqn:E; [assumption|]. constructor; [|assumption].
  assert (Hx : ~ In x l).
  { intros Hin. apply not_true_iff_false in E. apply E. unfold memp. apply existsb_exists.
    exists x. split; [assumption | apply path_eqb_refl]. }
  clear E IH. induction l as [|y l IH]; simpl; [intros []|].
  destruct (memp y l).
  - apply IH. intros H; apply Hx; right; exact H.
  - intros [H|H]; [subst; apply Hx; left; reflexivity | revert H; apply IH; intros H1; apply Hx; right; exact H1].
Qed.

Lemma ix_add_NoDup ix p : NoDup ix -> NoDup (ix_add ix p).
Proof.
  intros H. unfold ix_add. destruct (memp p ix) eqn:E; [assumption|].
  apply NoDup_snoc; [assumption|]. intros Hin. apply not_true_iff_false in E. apply E.
  unfold memp. apply existsb_exists. exists p. split; [assumption | apply path_eqb_refl].
Qed.

Lemma NoDup_filter {A} (P : A -> bool) l : NoDup l -> NoDup (filter P l).
Proof.
  intros H. rewrite <- (map_id (filter P l)). apply NoDup_map_filter. rewrite map_id. exact H.
Qed.

Lemma git_rename_one_valid s p q st s' :
  valid_state Git s -> git_rename_one s p q = Done st s' -> valid_state Git s'.
Proof.
  intros [Hi Hb]. unfold git_rename_one.
  destruct p as [|p0 p']; [intros H; inversion H; subst; split; assumption|].
  destruct q as [|q0 q']; [intros H; inversion H; subst; split; assumption|].
  set (p := p0 :: p'). set (q := q0 :: q').
  assert (Hfin : forall d' k st s', (match k with
            | KF => ok (with_index (with_disk s d') (ix_add (ix_del (sindex s) p) q))
            | KD => ok (with_index (with_disk s d')
                      (nodup_paths (map (fun r => if strictly_under p r then reroot p q r else r) (sindex s))))
            end) = Done st s' -> valid_state Git s').
  { intros d' k st0 s0. destruct k; intros H; inversion H; subst; simpl; split; try assumption.
    - apply ix_add_NoDup. apply NoDup_filter. assumption.
    - apply nodup_paths_NoDup. }
  destruct (negb (exists_ (sdisk s) p) && exists_ (sdisk s) q && negb (g_versioned (sindex s) q)).
  - destruct (gb_versioned s q); [intros H; inversion H; subst; split; assumption|]. apply Hfin.
  - destruct (g_versioned (sindex s) q); [intros H; inversion H; subst; split; assumption|].
    destruct (negb (exists_ (sdisk s) p)); [intros H; inversion H; subst; split; assumption|].
    destruct (negb (g_versioned (sindex s) p) && negb (isdir (sdisk s) p)); [intros H; inversion H; subst; split; assumption|].
    destruct (exists_ (sdisk s) q); [intros H; inversion H; subst; split; assumption|].
    destruct (negb (isdir (sdisk s) p) && negb (memp p (sindex s))); [intros H; inversion H; subst; split; assumption|].
    destruct (os_rename_err (sdisk s) p q); [intros H; inversion H; subst; split; assumption|].
    apply Hfin.
Qed.

Lemma bzr_remove_valid s p force st s' :
  bvalid (snext s) (sinv s) (sbasis s) ->
  bzr_remove s p force = Done st s' -> bvalid (snext s') (sinv s') (sbasis s').
Proof.
  intros [Hi Hb]. unfold bzr_remove. destruct p as [|p0 p']; intros H; inversion H; subst; clear H.
  - split; assumption.
  - unfold with_inv, with_disk; cbn [sinv sbasis snext]. split; [|assumption].
    rewrite (iproj_filter (fun r => negb (under (p0 :: p') r))).
    apply (vt_filter _ _ (fun r => negb (under (p0 :: p') r))); [assumption|reflexivity|].
    intros r. apply remove_pred_up.
Qed.

Lemma disk_only_valid f s d : valid_state f s -> valid_state f (with_disk s d).
Proof. destruct f; exact (fun H => H). Qed.

Lemma git_move_valid s p d st s' :
  valid_state Git s -> git_move s p d = Done st s' -> valid_state Git s'.
Proof.
  intros Hv. unfold git_move. destruct p; [intros H; inversion H; subst; exact Hv|].
  destruct (negb (isdir (sdisk s) d)); [intros H; inversion H; subst; exact Hv|].
  apply git_rename_one_valid; assumption.
Qed.

Lemma move_many_valid f ps : forall s d st s',
  valid_state f s -> move_many f s ps d = Done st s' -> valid_state f s'.
Proof.
  induction ps as [|p ps IH]; intros s d st s' Hv; simpl.
  - intros H; inversion H; subst; exact Hv.
  - destruct (move1 f s p d) as [[|e] s1|] eqn:E; [| |discriminate].
    + apply IH. destruct f; simpl in E; [eapply bzr_move_valid | eapply git_move_valid]; eassumption.
    + intros H; inversion H; subst. destruct f; simpl in E; [eapply bzr_move_valid | eapply git_move_valid]; eassumption.
Qed.

(* ------------------------------------------------------------------ *)
(* one step, any op, either format                                     *)

Theorem step_valid f s o st s' : valid_state f s -> step f s o = Done st s' -> valid_state f s'.
Proof.
  intros Hv.
  assert (Hput : forall p c, op_put s p c = Done st s' -> valid_state f s').
  { intros p c. unfold op_put. destruct (dl (sdisk s) p) as [[c0 x|]|].
    - intros H; inversion H; subst. apply disk_only_valid; assumption.
    - intros H; inversion H; subst. assumption.
    - destruct (parent_err (sdisk s) p); intros H; inversion H; subst;
        [assumption | apply disk_only_valid; assumption]. }
  assert (Hchmod : forall p x, op_chmod s p x = Done st s' -> valid_state f s').
  { intros p x. unfold op_chmod. destruct (dl (sdisk s) p) as [[c0 x0|]|]; intros H; inversion H; subst;
      assumption. }
  assert (Hosrm : forall p, op_osrm s p = Done st s' -> valid_state f s').
  { intros p. unfold op_osrm. destruct p; [intros H; inversion H; subst; assumption|].
    destruct (exists_ _ _); intros H; inversion H; subst; [apply disk_only_valid|]; assumption. }
  assert (Hosmk : forall p, op_osmkdir s p = Done st s' -> valid_state f s').
  { intros p. unfold op_osmkdir. destruct (d_mkdir _ _); intros H; inversion H; subst;
      [|apply disk_only_valid]; assumption. }
  destruct o; cbn [step]; try (apply Hput); try (apply Hchmod); try (apply Hosrm); try (apply Hosmk);
    try (intros H; inversion H; subst; exact Hv); destruct f.
  - (* Bzr add *) unfold bzr_add. destruct (dl (sdisk s) p) as [n|]; [|intros H; inversion H; subst; exact Hv].
    destruct (path2id (sinv s) p) eqn:E; [intros H; inversion H; subst; exact Hv|].
    apply add_entry_valid; assumption.
  - (* Git add *) unfold git_add. destruct Hv as [Hi Hb].
    destruct (dl (sdisk s) p) as [[c x|]|]; intros H; inversion H; subst; simpl; split; try assumption.
    apply ix_add_NoDup; assumption.
  - (* Bzr mkdir *) unfold bzr_mkdir. destruct (d_mkdir (sdisk s) p) as [e|d]; [intros H; inversion H; subst; exact Hv|].
    destruct (path2id (sinv s) p) eqn:E; [intros H; inversion H; subst; exact Hv|].
    apply (add_entry_valid (with_disk s d)); assumption.
  - (* Git mkdir *) apply Hosmk.
  - apply bzr_remove_valid; assumption.
  - (* Git remove keep *) unfold git_remove. destruct Hv as [Hi Hb].
    destruct p; intros H; inversion H; subst; cbn [sindex gbasis with_index with_disk]; split; try assumption.
    apply NoDup_filter; assumption.
  - apply bzr_remove_valid; assumption.
  - (* Git remove force *) unfold git_remove. destruct Hv as [Hi Hb].
    destruct p; intros H; inversion H; subst; cbn [sindex gbasis with_index with_disk]; split; try assumption.
    apply NoDup_filter; assumption.
  - apply bzr_rename_one_valid; assumption.
  - apply git_rename_one_valid; assumption.
  - apply bzr_move_valid; assumption.
  - apply git_move_valid; assumption.
  - apply bzr_commit_valid; assumption.
  - (* Git commit *) unfold git_commit. destruct Hv as [Hi Hb].
    intros H; inversion H; subst; simpl. split.
    + apply NoDup_filter; assumption.
    + apply NoDup_map_filter. rewrite map_map. simpl. rewrite map_id. assumption.
  - apply bzr_revert_valid; assumption.
  - (* Git revert *) unfold git_revert. destruct Hv as [Hi Hb].
    destruct (g_notadir s); [discriminate|].
    destruct (negb (git_revert_guard s)); [discriminate|].
    destruct (revert_disk _ _ _ _ _ _); [|discriminate].
    intros H; inversion H; subst; simpl. split; assumption.
  - apply (move_many_valid Bzr); assumption.
  - apply (move_many_valid Git); assumption.
  - (* Bzr smart_add *) unfold smart_add. destruct (isfile (sdisk s) p); [|discriminate].
    assert (Hadd : bzr_add s p = Done st s' -> valid_state Bzr s').
    { unfold bzr_add. destruct (dl (sdisk s) p) as [n|]; [|intros H; inversion H; subst; exact Hv].
      destruct (path2id (sinv s) p) eqn:E; [intros H; inversion H; subst; exact Hv|].
      apply add_entry_valid; assumption. }
    destruct (path2id (sinv s) p); [exact Hadd|].
    destruct (bzr_parent_check s p); [discriminate | exact Hadd].
  - (* Git smart_add *) unfold smart_add, git_add. destruct Hv as [Hi Hb].
    destruct (isfile (sdisk s) p); [|discriminate].
    destruct (dl (sdisk s) p) as [[c x|]|]; intros H; inversion H; subst; simpl; split; try assumption.
    apply ix_add_NoDup; assumption.
Qed.

Lemma init_valid f : valid_state f init_state.
Proof.
  destruct f; simpl.
  - split; [|left; reflexivity]. constructor; simpl.
    + constructor; [intros []|constructor].
    + constructor; [intros []|constructor].
    + left; reflexivity.
    + intros p [<-|[]] H; contradiction.
    + intros k [<-|[]]. lia.
  - split; constructor.
Qed.

Theorem run_valid f : forall ops s, valid_state f s -> valid_state f (run f s ops).
Proof.
  induction ops as [|o ops IH]; intros s Hv; simpl; [exact Hv|].
  destruct (step f s o) as [st s'|] eqn:E; [|exact Hv].
  apply IH. eapply step_valid; eassumption.
Qed.
