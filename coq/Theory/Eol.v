(* Theory/Eol.v -- lemmas about Model/Eol.v (C45). *)
From Coq Require Import ZArith NArith List Bool Lia.
From BV Require Import Lib.Bytes Model.Eol.
Import ListNotations.
Open Scope N_scope.

Fixpoint nocrlf (s : bytes) : bool :=
  match s with
  | [] => true
  | c :: s' => negb ((c =? CR) && starts_lf s') && nocrlf s'
  end.

Fixpoint nobare (p : bool) (s : bytes) : bool :=
  match s with
  | [] => true
  | c :: s' => negb ((c =? LF) && negb p) && nobare (c =? CR) s'
  end.

Lemma crlf_to_lf_length s : (length (crlf_to_lf s) <= length s)%nat.
Proof.
  induction s as [|c s IH]; simpl; [lia|].
  destruct ((c =? CR) && starts_lf s); simpl; lia.
Qed.

Lemma crlf_to_lf_fixed_nocrlf s : crlf_to_lf s = s -> nocrlf s = true.
Proof.
  induction s as [|c s IH]; simpl; [reflexivity|].
  destruct ((c =? CR) && starts_lf s) eqn:E; simpl.
  - intros H. pose proof (crlf_to_lf_length s) as L.
    rewrite H in L. simpl in L. lia.
  - intros H. injection H as H. auto.
Qed.

Lemma nocrlf_crlf_to_lf_fixed s : nocrlf s = true -> crlf_to_lf s = s.
Proof.
  induction s as [|c s IH]; simpl; [reflexivity|].
  destruct ((c =? CR) && starts_lf s) eqn:E; simpl; [discriminate|].
  intros H. rewrite IH by exact H. reflexivity.
Qed.

Lemma lf_to_crlf_aux_length p s : (length s <= length (lf_to_crlf_aux p s))%nat.
Proof.
  revert p; induction s as [|c s IH]; intros p; simpl; [lia|].
  destruct ((c =? LF) && negb p); simpl.
  - specialize (IH false). lia.
  - specialize (IH (c =? CR)). lia.
Qed.

Lemma lf_to_crlf_fixed_nobare p s : lf_to_crlf_aux p s = s -> nobare p s = true.
Proof.
  revert p; induction s as [|c s IH]; intros p; simpl; [reflexivity|].
  destruct ((c =? LF) && negb p) eqn:E; simpl.
  - intros H. pose proof (lf_to_crlf_aux_length false s) as L.
    assert (length (CR :: LF :: lf_to_crlf_aux false s) = length (c :: s)) as HL by (rewrite H; reflexivity).
    simpl in HL. lia.
  - intros H. injection H as H. auto.
Qed.

Lemma nobare_lf_to_crlf_fixed p s : nobare p s = true -> lf_to_crlf_aux p s = s.
Proof.
  revert p; induction s as [|c s IH]; intros p; simpl; [reflexivity|].
  destruct ((c =? LF) && negb p) eqn:E; simpl; [discriminate|].
  intros H. rewrite IH by exact H. reflexivity.
Qed.

(* has_nul is preserved by both conversions *)
Lemma memb_cons c d s : memb c (d :: s) = (c =? d) || memb c s.
Proof. reflexivity. Qed.

Lemma has_nul_crlf_to_lf s : has_nul (crlf_to_lf s) = has_nul s.
Proof.
  unfold has_nul. induction s as [|c s IH]; [reflexivity|].
  simpl crlf_to_lf. destruct ((c =? CR) && starts_lf s) eqn:E.
  - rewrite IH, memb_cons. apply andb_prop in E as [E _].
    apply N.eqb_eq in E. subst c. reflexivity.
  - rewrite !memb_cons, IH. reflexivity.
Qed.

Lemma has_nul_lf_to_crlf_aux p s : has_nul (lf_to_crlf_aux p s) = has_nul s.
Proof.
  unfold has_nul. revert p; induction s as [|c s IH]; intros p; [reflexivity|].
  simpl lf_to_crlf_aux. destruct ((c =? LF) && negb p) eqn:E.
  - rewrite !memb_cons, IH. apply andb_prop in E as [E _].
    apply N.eqb_eq in E. subst c. reflexivity.
  - rewrite !memb_cons, IH. reflexivity.
Qed.

(* --- LF in the repository: reading back what the CRLF writer wrote ------ *)

Lemma starts_lf_aux_true s :
  starts_lf s = false -> starts_lf (lf_to_crlf_aux true s) = false.
Proof.
  destruct s as [|d s]; simpl; [reflexivity|].
  intros H. rewrite H. simpl. exact H.
Qed.

Lemma crlf_to_lf_lf_to_crlf_aux s : forall p,
  nocrlf s = true -> (p = true -> starts_lf s = false) ->
  crlf_to_lf (lf_to_crlf_aux p s) = s.
Proof.
  induction s as [|c s IH]; intros p Hn Hp; simpl; [reflexivity|].
  simpl in Hn. apply andb_prop in Hn as [Hc Hn].
  destruct (c =? LF) eqn:ELF.
  - (* c = LF *)
    destruct p.
    + specialize (Hp eq_refl). simpl in Hp. congruence.
    + simpl. apply N.eqb_eq in ELF. subst c.
      change (CR =? CR) with true. change (LF =? LF) with true. simpl.
      change (LF =? CR) with false. simpl.
      rewrite IH; [reflexivity|exact Hn|discriminate].
  - simpl. destruct (c =? CR) eqn:ECR.
    + simpl in Hc. apply negb_true_iff in Hc.
      rewrite (starts_lf_aux_true s Hc). simpl.
      rewrite IH; [reflexivity|exact Hn|intros _; exact Hc].
    + simpl. rewrite IH; [reflexivity|exact Hn|discriminate].
Qed.

(* --- CRLF in the repository ------------------------------------------- *)

Definition starts_crlf (s : bytes) : bool :=
  match s with c :: s' => (c =? CR) && starts_lf s' | [] => false end.

Lemma no_crcrlf_tail c s : no_crcrlf (c :: s) = true -> no_crcrlf s = true.
Proof.
  unfold no_crcrlf. intros H. apply negb_true_iff in H. apply negb_true_iff.
  cbn [containsb] in H. apply orb_false_iff in H as [_ H]. exact H.
Qed.

Lemma no_crcrlf_head s : no_crcrlf (CR :: s) = true -> starts_crlf s = false.
Proof.
  unfold no_crcrlf. intros H. apply negb_true_iff in H.
  cbn [containsb] in H. apply orb_false_iff in H as [H _].
  destruct s as [|d s]; [reflexivity|]. simpl.
  destruct (d =? CR) eqn:E1; [|reflexivity]. simpl.
  destruct s as [|e s]; [reflexivity|]. simpl.
  destruct (e =? LF) eqn:E2; [|reflexivity].
  exfalso. apply N.eqb_eq in E1. apply N.eqb_eq in E2. subst d e.
  cbn [prefixb] in H. rewrite !N.eqb_refl in H. simpl in H. discriminate.
Qed.

Lemma nobare_true_false s : starts_lf s = false -> nobare true s = nobare false s.
Proof. destruct s as [|d s]; simpl; [reflexivity|]. intros ->. reflexivity. Qed.

Lemma lf_to_crlf_aux_cons_nolf q c r :
  (c =? LF) = false -> lf_to_crlf_aux q (c :: r) = c :: lf_to_crlf_aux (c =? CR) r.
Proof. intros H. cbn [lf_to_crlf_aux]. rewrite H. reflexivity. Qed.
Lemma lf_to_crlf_aux_lf r :
  lf_to_crlf_aux false (LF :: r) = CR :: LF :: lf_to_crlf_aux false r.
Proof. reflexivity. Qed.
Lemma crlf_to_lf_cons_keep c s :
  (c =? CR) && starts_lf s = false -> crlf_to_lf (c :: s) = c :: crlf_to_lf s.
Proof. intros H. cbn [crlf_to_lf]. rewrite H. reflexivity. Qed.
Lemma crlf_to_lf_crlf s : crlf_to_lf (CR :: LF :: s) = LF :: crlf_to_lf s.
Proof. reflexivity. Qed.

Lemma lf_to_crlf_crlf_to_lf_len n : forall s q,
  (length s <= n)%nat ->
  nobare false s = true -> no_crcrlf s = true ->
  (q = true -> starts_crlf s = false) ->
  lf_to_crlf_aux q (crlf_to_lf s) = s.
Proof.
  induction n as [|n IH]; intros s q Hlen Hb Hg Hq.
  - destruct s; [reflexivity|simpl in Hlen; lia].
  - destruct s as [|c s]; [reflexivity|].
    cbn [nobare] in Hb. apply andb_prop in Hb as [Hc Hb].
    rewrite andb_true_r in Hc. apply negb_true_iff in Hc.
    destruct (c =? CR) eqn:ECR.
    + apply N.eqb_eq in ECR. subst c.
      destruct s as [|d s]; [reflexivity|].
      destruct (d =? LF) eqn:EL.
      * (* CR LF t *)
        apply N.eqb_eq in EL. subst d.
        rewrite crlf_to_lf_crlf.
        assert (q = false) as ->.
        { destruct q; [|reflexivity]. specialize (Hq eq_refl). discriminate Hq. }
        rewrite lf_to_crlf_aux_lf. f_equal. f_equal.
        apply IH.
        -- simpl in Hlen. lia.
        -- exact Hb.
        -- apply no_crcrlf_tail in Hg. apply no_crcrlf_tail in Hg. exact Hg.
        -- discriminate.
      * (* CR d s, d <> LF *)
        rewrite crlf_to_lf_cons_keep by (cbn [starts_lf]; rewrite EL; reflexivity).
        rewrite lf_to_crlf_aux_cons_nolf by reflexivity.
        f_equal. apply IH.
        -- simpl in Hlen. simpl. lia.
        -- rewrite <- Hb. symmetry. apply nobare_true_false. cbn [starts_lf]. exact EL.
        -- apply no_crcrlf_tail in Hg. exact Hg.
        -- intros _. apply no_crcrlf_head. exact Hg.
    + rewrite crlf_to_lf_cons_keep by (rewrite ECR; reflexivity).
      rewrite lf_to_crlf_aux_cons_nolf by exact Hc.
      f_equal. rewrite ECR in *. apply IH.
      * simpl in Hlen. lia.
      * exact Hb.
      * apply no_crcrlf_tail in Hg. exact Hg.
      * discriminate.
Qed.

Lemma lf_to_crlf_crlf_to_lf s :
  lf_to_crlf s = s -> no_crcrlf s = true -> lf_to_crlf (crlf_to_lf s) = s.
Proof.
  intros H Hg. unfold lf_to_crlf.
  apply (lf_to_crlf_crlf_to_lf_len (length s)); [lia| |exact Hg|discriminate].
  apply lf_to_crlf_fixed_nobare. exact H.
Qed.

(* --- the property-level statements ------------------------------------- *)

Lemma to_lf_of_nul x : has_nul x = true -> to_lf_converter x = x.
Proof. unfold to_lf_converter. intros ->. reflexivity. Qed.
Lemma to_crlf_of_nul x : has_nul x = true -> to_crlf_converter x = x.
Proof. unfold to_crlf_converter. intros ->. reflexivity. Qed.

Lemma binary_untouched s x :
  has_nul x = true -> writer s x = x /\ reader s x = x.
Proof.
  intros H. destruct s; unfold writer, reader, filter_of, native_output;
    rewrite ?to_lf_of_nul, ?to_crlf_of_nul by exact H; split; reflexivity.
Qed.

Lemma to_lf_to_lf_canonical x : to_lf_converter x = x -> to_lf_converter (to_lf_converter x) = x.
Proof. intros H. rewrite H. exact H. Qed.

Lemma to_lf_to_crlf_canonical x : to_lf_converter x = x -> to_lf_converter (to_crlf_converter x) = x.
Proof.
  unfold to_lf_converter, to_crlf_converter.
  destruct (has_nul x) eqn:Hn.
  - rewrite Hn. reflexivity.
  - intros H. unfold lf_to_crlf. rewrite has_nul_lf_to_crlf_aux, Hn.
    apply crlf_to_lf_lf_to_crlf_aux; [|discriminate].
    apply crlf_to_lf_fixed_nocrlf. exact H.
Qed.

Lemma lf_in_repo_roundtrip s x :
  lf_in_repo s = true -> canonical s x -> reader s (writer s x) = x.
Proof.
  unfold canonical. destruct s; simpl; try discriminate; intros _;
    unfold reader, writer, filter_of, native_output.
  - reflexivity.
  - apply to_lf_to_lf_canonical.
  - apply to_lf_to_lf_canonical.
  - apply to_lf_to_crlf_canonical.
Qed.

Lemma to_crlf_to_lf_canonical x :
  to_crlf_converter x = x -> no_crcrlf x = true -> to_crlf_converter (to_lf_converter x) = x.
Proof.
  unfold to_lf_converter, to_crlf_converter.
  destruct (has_nul x) eqn:Hn.
  - rewrite Hn. reflexivity.
  - intros H Hg. rewrite has_nul_crlf_to_lf, Hn.
    apply lf_to_crlf_crlf_to_lf; assumption.
Qed.

Lemma crlf_in_repo_roundtrip_guarded s x :
  lf_in_repo s = false -> canonical s x -> no_crcrlf x = true ->
  reader s (writer s x) = x.
Proof.
  unfold canonical. destruct s; simpl; try discriminate; intros _;
    unfold reader, writer, filter_of, native_output.
  - apply to_crlf_to_lf_canonical.
  - apply to_crlf_to_lf_canonical.
  - intros H _. rewrite H. exact H.
Qed.

Lemma crlf_crlf_repo_roundtrip x :
  canonical CrlfCrlfRepo x -> reader CrlfCrlfRepo (writer CrlfCrlfRepo x) = x.
Proof.
  unfold canonical, reader, writer, filter_of. intros H. rewrite H. exact H.
Qed.

Lemma crlf_in_repo_refuted :
  exists x, has_nul x = false /\ canonical LfCrlfRepo x /\
            reader LfCrlfRepo (writer LfCrlfRepo x) <> x.
Proof.
  exists [CR; CR; LF]. split; [reflexivity|]. split; [reflexivity|].
  vm_compute. discriminate.
Qed.

Lemma native_crlf_in_repo_refuted :
  exists x, has_nul x = false /\ canonical NativeCrlfRepo x /\
            reader NativeCrlfRepo (writer NativeCrlfRepo x) <> x.
Proof.
  exists [CR; CR; LF]. split; [reflexivity|]. split; [reflexivity|].
  vm_compute. discriminate.
Qed.

(* what is ever committed is produced by [reader]; for the crlf-in-repo
   settings that is always canonical, for the lf ones it need not be *)
Lemma nobare_lf_to_crlf_aux s : forall p, nobare p (lf_to_crlf_aux p s) = true.
Proof.
  induction s as [|c s IH]; intros p; simpl; [reflexivity|].
  destruct (c =? LF) eqn:EL; destruct p; simpl.
  - rewrite EL. simpl. apply IH.
  - change (CR =? LF) with false. change (CR =? CR) with true.
    change (LF =? LF) with true. change (LF =? CR) with false. simpl. apply IH.
  - rewrite EL. simpl. apply IH.
  - rewrite EL. simpl. apply IH.
Qed.

Lemma to_crlf_idempotent x : to_crlf_converter (to_crlf_converter x) = to_crlf_converter x.
Proof.
  unfold to_crlf_converter. destruct (has_nul x) eqn:Hn.
  - rewrite Hn. reflexivity.
  - unfold lf_to_crlf. rewrite has_nul_lf_to_crlf_aux, Hn.
    apply nobare_lf_to_crlf_fixed. apply nobare_lf_to_crlf_aux.
Qed.

Example canonical_nonvacuous :
  canonical Crlf [97; LF; 98; LF] /\ writer Crlf [97; LF; 98; LF] = [97; CR; LF; 98; CR; LF]
  /\ canonical LfCrlfRepo [97; CR; LF] /\ no_crcrlf [97; CR; LF] = true.
Proof. repeat split. Qed.
