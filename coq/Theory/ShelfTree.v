(* Theory/ShelfTree.v -- proofs about Model/ShelfTree.v (C15, tree level). *)
From Coq Require Import NArith List Bool Lia.
From BV Require Import Lib.Bytes Lib.Obs Model.ShelfTree.
Import ListNotations.
Open Scope N_scope.

(* ------------------------------------------------------------------ equality tests *)
Lemma beqb_refl (x : bytes) : bytes_eqb x x = true.
Proof. unfold bytes_eqb. induction x as [|a x IH]; [reflexivity|]. rewrite N.eqb_refl. exact IH. Qed.

Lemma beqb_eq (x y : bytes) : bytes_eqb x y = true -> x = y.
Proof.
  unfold bytes_eqb. revert y. induction x as [|a x IH]; intros [|b y] H;
    try discriminate; [reflexivity|].
  apply andb_prop in H as [H1 H2]. apply N.eqb_eq in H1. rewrite (IH y H2), H1. reflexivity.
Qed.

Lemma kind_eqb_refl k : kind_eqb k k = true.
Proof. destruct k; cbn; try apply beqb_refl; reflexivity. Qed.

Lemma kind_eqb_eq a b : kind_eqb a b = true -> a = b.
Proof. destruct a, b; cbn; intros H; try discriminate; try reflexivity; apply beqb_eq in H; congruence. Qed.

Lemma loc_eqb_refl e : loc_eqb e e = true.
Proof. unfold loc_eqb. rewrite N.eqb_refl, beqb_refl. reflexivity. Qed.

Lemma locp_loc a b : locp_eqb (loc_of a) (loc_of b) = loc_eqb a b.
Proof. reflexivity. Qed.

(* ------------------------------------------------------------------ per id: frame *)
Definition untouched (s : sel) : Prop := forall t, s t = false.

Lemma shelve_at_frame b w s : untouched s -> shelve_at b w s = (w, b).
Proof.
  intros U. destruct b as [eb|], w as [ew|]; cbn [shelve_at]; rewrite ?U; try reflexivity.
  unfold ren_sel, con_sel. rewrite U. destruct (ctag_of eb ew); rewrite ?U; cbn [andb];
    destruct eb, ew; reflexivity.
Qed.

(* ------------------------------------------------------------------ per id: shelving removes exactly *)
Theorem shelve_at_exact b w s :
  exec_safe b w s = true ->
  delta_at b (fst (shelve_at b w s)) = filter (fun f => negb (covers b w s f)) (delta_at b w).
Proof.
  intros G. destruct b as [eb|], w as [ew|]; cbn [shelve_at delta_at covers].
  - (* both present *)
    cbn [exec_safe] in G.
    cbn [fst delta_at eparent ename ekind eexec].
    unfold loc_eqb at 1. cbn [eparent ename].
    destruct (ren_sel s eb ew) eqn:R; destruct (con_sel s eb ew) eqn:C; cbn [negb andb] in *.
    + (* rename and content selected *)
      rewrite N.eqb_refl, beqb_refl, kind_eqb_refl. cbn [andb app].
      unfold ren_sel in R. apply andb_prop in R as [_ R]. apply negb_true_iff in R. rewrite R.
      cbn [app filter negb].
      destruct (is_file (ekind eb)) eqn:Fb; destruct (is_file (ekind ew)) eqn:Fw; cbn [andb negb] in *.
      * destruct (kind_eqb (ekind eb) (ekind ew)); cbn [app filter negb];
          destruct (Bool.eqb (eexec eb) (eexec ew)); reflexivity.
      * destruct (eexec eb); [discriminate G|]. cbn.
        destruct (kind_eqb (ekind eb) (ekind ew)); reflexivity.
      * destruct (kind_eqb (ekind eb) (ekind ew)); reflexivity.
      * destruct (kind_eqb (ekind eb) (ekind ew)); reflexivity.
    + (* rename only *)
      rewrite N.eqb_refl, beqb_refl. cbn [andb app].
      unfold ren_sel in R. apply andb_prop in R as [_ R]. apply negb_true_iff in R. rewrite R.
      cbn [app filter negb].
      destruct (kind_eqb (ekind eb) (ekind ew)); cbn [app filter negb];
        destruct (is_file (ekind eb) && is_file (ekind ew) && negb (Bool.eqb (eexec eb) (eexec ew)));
        reflexivity.
    + (* content only *)
      rewrite kind_eqb_refl. fold (loc_eqb eb ew).
      assert (RF : filter (fun f => negb match f with FLoc => false | FContent => true | _ => false end)
                     (if loc_eqb eb ew then [] else [FLoc]) = (if loc_eqb eb ew then [] else [FLoc]))
        by (destruct (loc_eqb eb ew); reflexivity).
      rewrite filter_app, RF. f_equal.
      destruct (is_file (ekind eb)) eqn:Fb; destruct (is_file (ekind ew)) eqn:Fw; cbn [andb negb] in *.
      * destruct (kind_eqb (ekind eb) (ekind ew)); cbn [app filter negb];
          destruct (Bool.eqb (eexec eb) (eexec ew)); reflexivity.
      * destruct (eexec eb); [discriminate G|]. cbn.
        destruct (kind_eqb (ekind eb) (ekind ew)); reflexivity.
      * destruct (kind_eqb (ekind eb) (ekind ew)); reflexivity.
      * destruct (kind_eqb (ekind eb) (ekind ew)); reflexivity.
    + (* nothing selected *)
      fold (loc_eqb eb ew).
      destruct (loc_eqb eb ew); destruct (kind_eqb (ekind eb) (ekind ew));
        destruct (is_file (ekind eb) && is_file (ekind ew) && negb (Bool.eqb (eexec eb) (eexec ew)));
        reflexivity.
  - (* deleted in the work tree *)
    cbn [exec_safe] in G. destruct (s CDel) eqn:D; cbn [fst delta_at filter negb]; [|reflexivity].
    unfold loc_eqb. cbn [eparent ename ekind eexec]. rewrite N.eqb_refl, beqb_refl, kind_eqb_refl. cbn [andb app].
    cbn [andb] in G. destruct (is_file (ekind eb)); cbn [andb]; [|reflexivity].
    destruct (eexec eb); [discriminate G|reflexivity].
  - (* added in the work tree *)
    destruct (s CAdd); reflexivity.
  - reflexivity.
Qed.

(* the unguarded statement is false: shelving the deletion of an executable file brings the file
   back without its executable bit, i.e. a change that was not there before *)
Theorem shelve_at_exact_refuted :
  exists b w s, (forall t, s t = true -> In t (offered_at b w)) /\
    delta_at b (fst (shelve_at b w s)) <> filter (fun f => negb (covers b w s f)) (delta_at b w).
Proof.
  exists (Some (Entry 0 [120] (KFile [97; 10]) true)), None,
         (fun t => match t with CDel => true | _ => false end).
  split.
  - intros t H. destruct t; try discriminate. left. reflexivity.
  - cbn. discriminate.
Qed.

(* ------------------------------------------------------------------ per id: merging the shelf back *)
Theorem merge_back_at b w s :
  exists r, merge_at b (snd (shelve_at b w s)) (fst (shelve_at b w s)) = Some r
            /\ strip_exec r = strip_exec w.
Proof.
  destruct b as [eb|], w as [ew|]; cbn [shelve_at].
  - cbn [fst snd merge_at]. unfold three_way, loc_of. cbn [eparent ename ekind eexec].
    unfold locp_eqb. cbn [fst snd].
    assert (L : (eparent eb =? eparent ew) && bytes_eqb (ename eb) (ename ew) = loc_eqb eb ew) by reflexivity.
    destruct (ren_sel s eb ew) eqn:R; destruct (con_sel s eb ew) eqn:C.
    + unfold ren_sel in R. apply andb_prop in R as [_ R]. apply negb_true_iff in R.
      rewrite L, R. rewrite !N.eqb_refl, !beqb_refl. cbn [andb].
      destruct (kind_eqb (ekind eb) (ekind ew)) eqn:K.
      * apply kind_eqb_eq in K. eexists. split; [reflexivity|]. cbn. rewrite K. reflexivity.
      * rewrite kind_eqb_refl. eexists. split; [reflexivity|]. reflexivity.
    + unfold ren_sel in R. apply andb_prop in R as [_ R]. apply negb_true_iff in R.
      rewrite L, R. rewrite !N.eqb_refl, !beqb_refl, !kind_eqb_refl. cbn [andb].
      eexists. split; reflexivity.
    + rewrite !N.eqb_refl, !beqb_refl. cbn [andb].
      destruct (kind_eqb (ekind eb) (ekind ew)) eqn:K.
      * apply kind_eqb_eq in K. eexists. split; [reflexivity|]. cbn. rewrite K. reflexivity.
      * rewrite kind_eqb_refl. eexists. split; reflexivity.
    + rewrite !N.eqb_refl, !beqb_refl, !kind_eqb_refl. cbn [andb].
      eexists. split; reflexivity.
  - destruct (s CDel); cbn [fst snd merge_at ekind].
    + rewrite kind_eqb_refl. eexists. split; reflexivity.
    + unfold locp_eqb, loc_of. cbn [fst snd]. rewrite N.eqb_refl, beqb_refl, kind_eqb_refl.
      eexists. split; reflexivity.
  - destruct (s CAdd); cbn [fst snd merge_at]; eexists; split; reflexivity.
  - eexists. split; reflexivity.
Qed.

(* ------------------------------------------------------------------ whole trees *)
Lemma shape_strip x y : strip_exec x = strip_exec y ->
  match x with Some e => Some (eparent e, ename e, is_dir (ekind e)) | None => None end =
  match y with Some e => Some (eparent e, ename e, is_dir (ekind e)) | None => None end.
Proof.
  destruct x as [ex|], y as [ey|]; cbn; intros H; try discriminate; [|reflexivity].
  injection H as -> -> ->. reflexivity.
Qed.

Lemma shapes_ext dom t1 t2 : (forall i, strip_exec (t1 i) = strip_exec (t2 i)) -> shapes dom t1 = shapes dom t2.
Proof.
  intros H. unfold shapes. apply flat_map_ext. intros i.
  assert (E : shape_of t1 i = shape_of t2 i) by (unfold shape_of; apply shape_strip, H).
  rewrite E. reflexivity.
Qed.

Lemma wfb_ext dom t1 t2 : (forall i, strip_exec (t1 i) = strip_exec (t2 i)) -> wfb dom t1 = wfb dom t2.
Proof. intros H. unfold wfb. rewrite (shapes_ext dom t1 t2 H). reflexivity. Qed.

Lemma merged_back basis wt s i :
  merge_at (basis i) (shelf_of basis wt s i) (work_of basis wt s i) <> None
  /\ strip_exec (merged basis (shelf_of basis wt s) (work_of basis wt s) i) = strip_exec (wt i).
Proof.
  unfold merged, shelf_of, work_of.
  destruct (merge_back_at (basis i) (wt i) (fun t => s t i)) as (r & M & E).
  rewrite M. split; [discriminate|exact E].
Qed.

(* unshelving the shelf onto the unchanged result of shelving restores the tree (everything but the
   executable bits of touched files, which the model does not predict) whenever the original tree
   is well-formed and the shelf preview is well-formed (the selection is closed) *)
Theorem unshelve_inverts dom basis wt s :
  wfb dom wt = true -> wfb dom (shelf_of basis wt s) = true ->
  exists t', unshelve dom basis (shelf_of basis wt s) (work_of basis wt s) = UOk t'
             /\ forall i, strip_exec (t' i) = strip_exec (wt i).
Proof.
  intros W S. unfold unshelve. rewrite S. cbn [negb].
  assert (A : forallb (fun i => match merge_at (basis i) (shelf_of basis wt s i) (work_of basis wt s i)
                                with Some _ => true | None => false end) dom = true).
  { apply forallb_forall. intros i _. destruct (merged_back basis wt s i) as [H _].
    destruct (merge_at _ _ _); [reflexivity|congruence]. }
  rewrite A. cbn [andb].
  rewrite (wfb_ext dom _ wt (fun i => proj2 (merged_back basis wt s i))), W.
  eexists. split; [reflexivity|]. intros i. exact (proj2 (merged_back basis wt s i)).
Qed.

Theorem work_frame basis wt (s : selection) i :
  (forall t, s t i = false) -> work_of basis wt s i = wt i /\ shelf_of basis wt s i = basis i.
Proof.
  intros U. unfold work_of, shelf_of. rewrite shelve_at_frame by exact U. split; reflexivity.
Qed.
