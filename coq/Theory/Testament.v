(* Theory/Testament.v -- proofs about Model/Testament.v (C41).

   Main results:
     testament_deterministic   attested-equal inputs give the same result
     testament_injective       equal texts + guard on both sides -> attested-equal
     refutations               one witness per field class the frozen format does not attest
   The injectivity proof is a parsing argument: the text determines its list of
   lines (no line contains LF), the line list splits uniquely at the section
   markers (section bodies are indented, markers are not), and every line
   splits uniquely into its space-separated tokens ([span_inj], [esc_inj]). *)
From Coq Require Import String.
From Coq Require Import ZArith NArith List Bool Lia Permutation.
From BV Require Import Lib.Bytes Lib.Obs Model.Testament Theory.TestamentLib.
Import ListNotations.
Open Scope N_scope.

(* ---- small tools -------------------------------------------------------- *)

Lemma bind_ok {A B} (x : res A) (f : A -> res B) y :
  bind x f = Ok y -> exists a, x = Ok a /\ f a = Ok y.
Proof. destruct x; simpl; intro H; try discriminate. eauto. Qed.

Definition notc (x c : N) : bool := negb (c =? x).
Definition free (x : N) (s : str) : bool := forallb (notc x) s.

Lemma forallb_impl {A} (f g : A -> bool) l :
  (forall x, f x = true -> g x = true) -> forallb f l = true -> forallb g l = true.
Proof.
  intros Hfg. induction l as [|x l IH]; simpl; [reflexivity|].
  intro H. apply andb_true_iff in H. destruct H as [Hx Hl].
  rewrite (Hfg _ Hx), (IH Hl). reflexivity.
Qed.

Lemma existsb_false_forallb {A} (f : A -> bool) l :
  existsb f l = false -> forallb (fun x => negb (f x)) l = true.
Proof.
  induction l as [|x l IH]; simpl; [reflexivity|].
  intro H. apply orb_false_iff in H. destruct H as [Hx Hl].
  rewrite Hx, (IH Hl). reflexivity.
Qed.

Lemma free_app x a b : free x (a ++ b) = free x a && free x b.
Proof. apply forallb_app. Qed.

Lemma no_ws_free_sp s : contains_whitespace s = false -> free SP s = true.
Proof.
  intro H. apply existsb_false_forallb in H. revert H. apply forallb_impl.
  intros c Hc. unfold notc, is_ws in *. destruct (c =? SP) eqn:E; [|reflexivity].
  apply N.eqb_eq in E. subst c. discriminate Hc.
Qed.

Lemma no_ws_free_lf s : contains_whitespace s = false -> free LF s = true.
Proof.
  intro H. apply existsb_false_forallb in H. revert H. apply forallb_impl.
  intros c Hc. unfold notc, is_ws in *. destruct (c =? LF) eqn:E; [|reflexivity].
  apply N.eqb_eq in E. subst c. discriminate Hc.
Qed.

Lemma no_lb_free_lf s : contains_linebreaks s = false -> free LF s = true.
Proof.
  intro H. apply existsb_false_forallb in H. revert H. apply forallb_impl.
  intros c Hc. unfold notc, is_lb in *. destruct (c =? LF) eqn:E; [|reflexivity].
  apply N.eqb_eq in E. subst c. discriminate Hc.
Qed.

Lemma dec_free_lf z : free LF (dec z) = true.
Proof.
  generalize (dec_chars z). apply forallb_impl.
  intros c Hc. unfold notc, digit_or_minus in *. destruct (c =? LF) eqn:E; [|reflexivity].
  apply N.eqb_eq in E. subst c. discriminate Hc.
Qed.

Lemma memb_free x s : memb x s = false -> free x s = true.
Proof.
  unfold memb. intro H. apply existsb_false_forallb in H. revert H. apply forallb_impl.
  intros c Hc. unfold notc. rewrite N.eqb_sym. exact Hc.
Qed.

Lemma token_free s : token s = true -> free SP s = true /\ free LF s = true.
Proof.
  unfold token. intro H. apply andb_true_iff in H. destruct H as [H1 H2].
  apply negb_true_iff in H1. apply negb_true_iff in H2.
  split; apply memb_free; assumption.
Qed.

Lemma map_inj {A B} (f : A -> B) :
  (forall a b, f a = f b -> a = b) -> forall l1 l2, map f l1 = map f l2 -> l1 = l2.
Proof.
  intros Hf. induction l1 as [|x l1 IH]; intros [|y l2] H; simpl in H; try discriminate; [reflexivity|].
  injection H as Hx Hr. f_equal; [apply Hf; assumption|apply IH; assumption].
Qed.

Lemma ind2_inj a b : ind2 a = ind2 b -> a = b.
Proof. unfold ind2. intro H. injection H as H. exact H. Qed.
Lemma ind4_inj a b : ind4 a = ind4 b -> a = b.
Proof. unfold ind4. intro H. injection H as H. exact H. Qed.

(* ---- splitlines --------------------------------------------------------- *)

Definition nobreak (l : str) : bool := forallb (fun c => negb (is_break c)) l.

Lemma splitlines_nobreak_n : forall n s, (length s <= n)%nat -> forallb nobreak (splitlines s) = true.
Proof.
  induction n as [|n IH]; intros [|c s] Hlen; simpl in Hlen; try reflexivity; try lia.
  simpl. destruct (is_break c) eqn:Ec.
  - simpl. destruct s as [|d s'']; [reflexivity|].
    destruct ((c =? 13) && (d =? 10)); apply IH; simpl in *; lia.
  - assert (Hs : forallb nobreak (splitlines s) = true) by (apply IH; lia).
    destruct (splitlines s) as [|l ls]; simpl in *.
    + rewrite Ec. reflexivity.
    + rewrite Ec. exact Hs.
Qed.

Lemma splitlines_nobreak s : forallb nobreak (splitlines s) = true.
Proof. apply (splitlines_nobreak_n (length s)). apply le_n. Qed.

Lemma splitlines_free_lf s : forallb (free LF) (splitlines s) = true.
Proof.
  generalize (splitlines_nobreak s). apply forallb_impl.
  intros l. unfold nobreak, free. apply forallb_impl.
  intros c Hc. unfold notc. destruct (c =? LF) eqn:E; [|reflexivity].
  apply N.eqb_eq in E. subst c. discriminate Hc.
Qed.

Lemma canonical_text_inj a b :
  canonical_text a = true -> canonical_text b = true -> splitlines a = splitlines b -> a = b.
Proof.
  unfold canonical_text. intros Ha Hb E. apply str_eqb_eq in Ha. apply str_eqb_eq in Hb.
  rewrite <- Ha, <- Hb, E. reflexivity.
Qed.

(* ---- the text determines its lines -------------------------------------- *)

Lemma unlines_inj : forall l1 l2,
    forallb (free LF) l1 = true -> forallb (free LF) l2 = true ->
    unlines l1 = unlines l2 -> l1 = l2.
Proof.
  unfold unlines.
  induction l1 as [|a l1 IH]; intros [|b l2] H1 H2 E; simpl in E.
  - reflexivity.
  - destruct b; discriminate E.
  - destruct a; discriminate E.
  - simpl in H1, H2. apply andb_true_iff in H1. destruct H1 as [Ha H1].
    apply andb_true_iff in H2. destruct H2 as [Hb H2].
    rewrite <- !app_assoc in E. simpl in E.
    apply (span_inj (notc LF)) in E; try assumption; try reflexivity.
    destruct E as [Eab E]. injection E as E. subst b. f_equal. apply IH; assumption.
Qed.

(* ---- path escaping ------------------------------------------------------ *)

Definition esc_char (c : N) : str :=
  if c =? BSL then [SL] else if c =? SP then [BSL; SP] else [c].
Definition esc (p : str) : str := flat_map esc_char p.
Definition slashed (p : str) : str := map (fun c => if c =? BSL then SL else c) p.

Lemma double_replace_esc p : replace [SP] [BSL; SP] (replace [BSL] [SL] p) = esc p.
Proof.
  rewrite !replace1_flat_map. unfold esc. induction p as [|c p IH]; simpl; [reflexivity|].
  rewrite flat_map_app, IH. f_equal. unfold esc_char.
  destruct (c =? BSL) eqn:E1; simpl; [reflexivity|].
  destruct (c =? SP); reflexivity.
Qed.

Definition v3fix (v : variant) (p : str) : str :=
  match v with Strict3 => if is_nil p then [46] else p | _ => p end.

Lemma escape_path_ok v p q :
  escape_path v p = Ok q -> contains_linebreaks p = false /\ q = esc (v3fix v p).
Proof.
  unfold escape_path. destruct (contains_linebreaks p); [discriminate|].
  intro H. injection H as H. subst q. split; [reflexivity|]. apply double_replace_esc.
Qed.

Lemma esc_char_cases c :
  (c = BSL /\ esc_char c = [SL]) \/ (c = SP /\ esc_char c = [BSL; SP]) \/
  (c <> BSL /\ c <> SP /\ esc_char c = [c]).
Proof.
  unfold esc_char. destruct (c =? BSL) eqn:E1.
  - apply N.eqb_eq in E1. auto.
  - apply N.eqb_neq in E1. destruct (c =? SP) eqn:E2.
    + apply N.eqb_eq in E2. auto.
    + apply N.eqb_neq in E2. auto.
Qed.

Definition endok (r : str) : Prop := headfails (notc SP) r.

Lemma endok_head_not c r : endok (c :: r) -> c = SP.
Proof.
  unfold endok, headfails, notc. intro H. apply negb_false_iff in H. apply N.eqb_eq in H. exact H.
Qed.

Lemma endok_esc_char d r : ~ endok (esc_char d ++ r).
Proof.
  destruct (esc_char_cases d) as [[Hd Ed]|[[Hd Ed]|[Hd1 [Hd2 Ed]]]]; rewrite Ed;
    intro F; apply endok_head_not in F.
  - discriminate F.
  - discriminate F.
  - congruence.
Qed.

(* an escaped path followed by end-of-line or a space determines the path up to
   the backslash -> slash identification *)
Lemma esc_inj : forall p1 p2 r1 r2,
    endok r1 -> endok r2 -> esc p1 ++ r1 = esc p2 ++ r2 ->
    slashed p1 = slashed p2 /\ r1 = r2.
Proof.
  unfold esc.
  induction p1 as [|c p1 IH]; intros [|d p2] r1 r2 F1 F2 E; simpl in E.
  - split; [reflexivity|assumption].
  - exfalso. subst r1. rewrite <- app_assoc in F1. exact (endok_esc_char _ _ F1).
  - exfalso. subst r2. rewrite <- app_assoc in F2. exact (endok_esc_char _ _ F2).
  - rewrite <- !app_assoc in E. simpl.
    destruct (esc_char_cases c) as [[Hc Ec]|[[Hc Ec]|[Hc1 [Hc2 Ec]]]];
    destruct (esc_char_cases d) as [[Hd Ed]|[[Hd Ed]|[Hd1 [Hd2 Ed]]]];
      rewrite Ec, Ed in E; simpl in E; injection E as E; subst;
      try discriminate;
      try (match goal with H : ?x <> ?x |- _ => exfalso; apply H; reflexivity end).
    all: match goal with H : flat_map esc_char _ ++ _ = _ |- _ =>
                destruct (IH _ _ _ F1 F2 H) as [Hs Hr] end;
      rewrite Hs; split; [reflexivity|assumption].
Qed.

Lemma no_bsl_slashed p : no_bsl p = true -> slashed p = p.
Proof.
  unfold no_bsl, memb, slashed. intro H. apply negb_true_iff in H.
  induction p as [|c p IH]; cbn [existsb map] in *; [reflexivity|].
  apply orb_false_iff in H. destruct H as [Hc Hp].
  rewrite N.eqb_sym, Hc, (IH Hp). reflexivity.
Qed.

Lemma esc_free_lf p : free LF p = true -> free LF (esc p) = true.
Proof.
  unfold esc, free. induction p as [|c p IH]; simpl; [reflexivity|].
  intro H. apply andb_true_iff in H. destruct H as [Hc Hp].
  rewrite forallb_app, (IH Hp), andb_true_r.
  destruct (esc_char_cases c) as [[_ Ec]|[[_ Ec]|[_ [_ Ec]]]]; rewrite Ec; simpl;
    try reflexivity. rewrite Hc. reflexivity.
Qed.

(* ---- inventory lines ---------------------------------------------------- *)

Definition content_part (v : variant) (e : entry) : str :=
  match e_kind e with
  | KFile => SP :: e_sha1 e
  | KSymlink => SP :: esc (e_target e)
  | _ => []
  end.
Definition strict_part (v : variant) (e : entry) : str :=
  match v with Plain => [] | _ => SP :: e_revision e ++ yes_no (e_exec e) end.

Lemma entry_line_shape v e l :
  entry_line v e = Ok l ->
  l = SP :: SP :: kind_name (e_kind e) ++ SP :: esc (v3fix v (e_path e)) ++ SP :: e_file_id e
         ++ content_part v e ++ strict_part v e
  /\ contains_whitespace (e_file_id e) = false
  /\ contains_linebreaks (e_path e) = false
  /\ (e_kind e = KSymlink -> contains_linebreaks (e_target e) = false).
Proof.
  unfold entry_line, entry_base, content_part, strict_part. intro H.
  apply bind_ok in H. destruct H as [b [Hb Hl]].
  destruct (contains_whitespace (e_file_id e)) eqn:Efid; [discriminate|].
  apply bind_ok in Hb. destruct Hb as [content [Hc Hb]].
  apply bind_ok in Hb. destruct Hb as [p [Hp Hb]].
  apply escape_path_ok in Hp. destruct Hp as [Hplb ->].
  injection Hb as <-.
  assert (Hcont : content = match e_kind e with
                            | KFile => SP :: e_sha1 e
                            | KSymlink => SP :: esc (e_target e)
                            | _ => [] end
                  /\ (e_kind e = KSymlink -> contains_linebreaks (e_target e) = false)).
  { destruct (e_kind e).
    - destruct (is_nil (e_sha1 e)); [discriminate|]. injection Hc as <-. split; [reflexivity|discriminate].
    - injection Hc as <-. split; [reflexivity|discriminate].
    - destruct (e_target e) as [|t0 t] eqn:Et; [discriminate|]. simpl in Hc.
      apply bind_ok in Hc. destruct Hc as [t' [Ht' Hc]]. injection Hc as <-.
      apply escape_path_ok in Ht'. destruct Ht' as [Htlb ->].
      split; [|intros _; exact Htlb].
      destruct v; reflexivity.
    - injection Hc as <-. split; [reflexivity|discriminate]. }
  destruct Hcont as [-> Hsym].
  split; [|split; [reflexivity|split; assumption]].
  destruct v; injection Hl as <-;
    repeat (rewrite <- app_assoc || rewrite <- app_comm_cons); try rewrite app_nil_r; reflexivity.
Qed.

Lemma free_cons x c s : free x (c :: s) = notc x c && free x s.
Proof. reflexivity. Qed.

Lemma kind_name_free_sp k : free SP (kind_name k) = true.
Proof. destruct k; reflexivity. Qed.
Lemma kind_name_free_lf k : free LF (kind_name k) = true.
Proof. destruct k; reflexivity. Qed.
Lemma kind_name_inj k1 k2 : kind_name k1 = kind_name k2 -> k1 = k2.
Proof. destruct k1, k2; intro H; try reflexivity; vm_compute in H; discriminate H. Qed.
Lemma yes_no_inj a b : yes_no a = yes_no b -> a = b.
Proof. destruct a, b; intro H; try reflexivity; vm_compute in H; discriminate H. Qed.

Lemma v3fix_free_lf v p : free LF p = true -> free LF (v3fix v p) = true.
Proof. destruct v; simpl; try (intro; assumption). destruct p; [reflexivity|intro; assumption]. Qed.

Lemma entry_line_free_lf v e l :
  entry_line v e = Ok l -> entry_guard v e = true -> free LF l = true.
Proof.
  intros H G. apply entry_line_shape in H. destruct H as [-> [Hfid [Hp Ht]]].
  unfold entry_guard in G. apply andb_true_iff in G. destruct G as [G Grev].
  apply andb_true_iff in G. destruct G as [Gpath Gcont].
  assert (Hesc : free LF (esc (v3fix v (e_path e))) = true)
    by (apply esc_free_lf, v3fix_free_lf, no_lb_free_lf; assumption).
  assert (Hf : free LF (e_file_id e) = true) by (apply no_ws_free_lf; assumption).
  assert (Hc : free LF (content_part v e) = true).
  { unfold content_part. destruct (e_kind e); try reflexivity.
    - rewrite free_cons. apply token_free in Gcont. destruct Gcont as [_ ->]. reflexivity.
    - rewrite free_cons, esc_free_lf; [reflexivity|]. apply no_lb_free_lf, Ht. reflexivity. }
  assert (Hs : free LF (strict_part v e) = true).
  { unfold strict_part. destruct v; [reflexivity| |];
      rewrite free_cons, free_app; apply token_free in Grev; destruct Grev as [_ ->];
      destruct (e_exec e); reflexivity. }
  repeat (rewrite free_cons || rewrite free_app).
  rewrite kind_name_free_lf, Hesc, Hf, Hc, Hs. reflexivity.
Qed.

Lemma tail_endok v e : endok (content_part v e ++ strict_part v e).
Proof.
  unfold content_part, strict_part. destruct (e_kind e); try reflexivity; destruct v; reflexivity.
Qed.

Lemma strict_part_endok v e : endok (strict_part v e).
Proof. unfold strict_part. destruct v; reflexivity. Qed.

Lemma v3fix_inj v p1 p2 :
  path_ok v p1 = true -> path_ok v p2 = true ->
  slashed (v3fix v p1) = slashed (v3fix v p2) -> p1 = p2.
Proof.
  unfold path_ok. intros H1 H2 E.
  apply andb_true_iff in H1. destruct H1 as [B1 D1].
  apply andb_true_iff in H2. destruct H2 as [B2 D2].
  assert (F1 : no_bsl (v3fix v p1) = true) by (destruct v; simpl; try assumption; destruct p1; [reflexivity|assumption]).
  assert (F2 : no_bsl (v3fix v p2) = true) by (destruct v; simpl; try assumption; destruct p2; [reflexivity|assumption]).
  rewrite (no_bsl_slashed _ F1), (no_bsl_slashed _ F2) in E.
  destruct v; simpl in E; try assumption.
  apply negb_true_iff in D1. apply negb_true_iff in D2.
  destruct p1 as [|a p1]; destruct p2 as [|b p2]; simpl in E; try reflexivity; try assumption.
  - rewrite <- E, str_eqb_refl in D2. discriminate.
  - rewrite E, str_eqb_refl in D1. discriminate.
Qed.

Lemma strict_part_inj v e1 e2 :
  (match v with Plain => true | _ => token (e_revision e1) end) = true ->
  (match v with Plain => true | _ => token (e_revision e2) end) = true ->
  strict_part v e1 = strict_part v e2 ->
  match v with Plain => @None (str * bool) | _ => Some (e_revision e1, e_exec e1) end =
  match v with Plain => None | _ => Some (e_revision e2, e_exec e2) end.
Proof.
  unfold strict_part. intros G1 G2 E.
  destruct v; [reflexivity| |]; injection E as E;
    apply token_free in G1; destruct G1 as [G1 _]; apply token_free in G2; destruct G2 as [G2 _];
    (apply (span_inj (notc SP)) in E; [|assumption|assumption|destruct (e_exec e1); reflexivity
                                        |destruct (e_exec e2); reflexivity]);
    destruct E as [-> E]; apply yes_no_inj in E; rewrite E; reflexivity.
Qed.

Lemma entry_line_inj v e1 e2 l :
  entry_line v e1 = Ok l -> entry_line v e2 = Ok l ->
  entry_guard v e1 = true -> entry_guard v e2 = true ->
  entry_view v e1 = entry_view v e2.
Proof.
  intros H1 H2 G1 G2.
  apply entry_line_shape in H1. destruct H1 as [E1 [Hfid1 [Hp1 Ht1]]].
  apply entry_line_shape in H2. destruct H2 as [E2 [Hfid2 [Hp2 Ht2]]].
  rewrite E1 in E2. clear E1 l. injection E2 as E.
  unfold entry_guard in G1, G2.
  apply andb_true_iff in G1. destruct G1 as [G1 Grev1]. apply andb_true_iff in G1. destruct G1 as [Gpath1 Gcont1].
  apply andb_true_iff in G2. destruct G2 as [G2 Grev2]. apply andb_true_iff in G2. destruct G2 as [Gpath2 Gcont2].
  (* kind *)
  apply (span_inj (notc SP)) in E; try apply kind_name_free_sp; try reflexivity.
  destruct E as [Ek E]. apply kind_name_inj in Ek. injection E as E.
  (* path *)
  apply esc_inj in E; try reflexivity. destruct E as [Epath E]. injection E as E.
  apply (v3fix_inj v _ _ Gpath1 Gpath2) in Epath.
  (* file id *)
  apply (span_inj (notc SP)) in E; try (apply no_ws_free_sp; assumption); try apply tail_endok.
  destruct E as [Efid E].
  unfold entry_view, content_view. rewrite Ek, Epath, Efid.
  unfold content_part in E. rewrite Ek in *.
  destruct (e_kind e2).
  - (* file *)
    injection E as E.
    apply token_free in Gcont1. destruct Gcont1 as [S1 _].
    apply token_free in Gcont2. destruct Gcont2 as [S2 _].
    apply (span_inj (notc SP)) in E; try assumption; try apply strict_part_endok.
    destruct E as [-> E]. rewrite (strict_part_inj v e1 e2 Grev1 Grev2 E). reflexivity.
  - simpl in E. rewrite (strict_part_inj v e1 e2 Grev1 Grev2 E). reflexivity.
  - (* symlink *)
    injection E as E. apply esc_inj in E; try apply strict_part_endok.
    destruct E as [Et E].
    rewrite (no_bsl_slashed _ Gcont1), (no_bsl_slashed _ Gcont2) in Et.
    rewrite Et, (strict_part_inj v e1 e2 Grev1 Grev2 E). reflexivity.
  - simpl in E. rewrite (strict_part_inj v e1 e2 Grev1 Grev2 E). reflexivity.
Qed.

(* ---- lists of lines ----------------------------------------------------- *)

Lemma mapM_ok {A B} (f : A -> res B) : forall l ys,
    mapM f l = Ok ys -> Forall2 (fun x y => f x = Ok y) l ys.
Proof.
  induction l as [|x l IH]; intros ys H; simpl in H.
  - injection H as <-. constructor.
  - apply bind_ok in H. destruct H as [y [Hy H]].
    apply bind_ok in H. destruct H as [ys' [Hys H]]. injection H as <-.
    constructor; [assumption|apply IH; assumption].
Qed.

Definition starts2 (l : str) : bool :=
  match l with a :: b :: _ => (a =? SP) && (b =? SP) | _ => false end.
Definition starts4 (l : str) : bool :=
  match l with a :: b :: c :: d :: _ => (a =? SP) && (b =? SP) && (c =? SP) && (d =? SP) | _ => false end.

Lemma map_ind2_starts2 l : forallb starts2 (map ind2 l) = true.
Proof. induction l as [|x l IH]; [reflexivity|]. cbn [map forallb]. rewrite IH. reflexivity. Qed.
Lemma map_ind4_starts4 l : forallb starts4 (map ind4 l) = true.
Proof. induction l as [|x l IH]; [reflexivity|]. cbn [map forallb]. rewrite IH. reflexivity. Qed.

Lemma map_ind_free_lf l : forallb (free LF) l = true -> forallb (free LF) (map ind2 l) = true.
Proof.
  induction l as [|x l IH]; [reflexivity|]. cbn [map forallb]. intro H.
  apply andb_true_iff in H. destruct H as [Hx Hl]. rewrite (IH Hl). unfold ind2.
  rewrite !free_cons, Hx. reflexivity.
Qed.
Lemma map_ind4_free_lf l : forallb (free LF) l = true -> forallb (free LF) (map ind4 l) = true.
Proof.
  induction l as [|x l IH]; [reflexivity|]. cbn [map forallb]. intro H.
  apply andb_true_iff in H. destruct H as [Hx Hl]. rewrite (IH Hl). unfold ind4.
  rewrite !free_cons, Hx. reflexivity.
Qed.

(* parents *)
Lemma parent_lines_ok : forall ps pls,
    mapM parent_line ps = Ok pls ->
    pls = map ind2 ps /\ forallb (free LF) ps = true.
Proof.
  induction ps as [|p ps IH]; intros pls H; simpl in H.
  - injection H as <-. split; reflexivity.
  - apply bind_ok in H. destruct H as [y [Hy H]].
    apply bind_ok in H. destruct H as [ys [Hys H]]. injection H as <-.
    unfold parent_line in Hy. destruct (contains_whitespace p) eqn:Ew; [discriminate|].
    injection Hy as <-. destruct (IH _ Hys) as [-> Hf].
    split; [reflexivity|]. cbn [forallb]. rewrite Hf, (no_ws_free_lf _ Ew). reflexivity.
Qed.

(* entries *)
Lemma entry_lines_starts2 v : forall es els,
    mapM (entry_line v) es = Ok els -> forallb starts2 els = true.
Proof.
  intros es els H. apply mapM_ok in H. induction H as [|e l es els He _ IH]; [reflexivity|].
  cbn [forallb]. rewrite IH. apply entry_line_shape in He. destruct He as [-> _]. reflexivity.
Qed.

Lemma entry_lines_free_lf v : forall es els,
    mapM (entry_line v) es = Ok els -> forallb (entry_guard v) es = true ->
    forallb (free LF) els = true.
Proof.
  intros es els H. apply mapM_ok in H. induction H as [|e l es els He _ IH]; [reflexivity|].
  cbn [forallb]. intro G. apply andb_true_iff in G. destruct G as [Ge G].
  rewrite (IH G), (entry_line_free_lf _ _ _ He Ge). reflexivity.
Qed.

Lemma entry_lines_inj v : forall es1 es2 els,
    mapM (entry_line v) es1 = Ok els -> mapM (entry_line v) es2 = Ok els ->
    forallb (entry_guard v) es1 = true -> forallb (entry_guard v) es2 = true ->
    map (entry_view v) es1 = map (entry_view v) es2.
Proof.
  intros es1 es2 els H1. apply mapM_ok in H1. revert es2.
  induction H1 as [|e1 l es1 els He1 _ IH]; intros es2 H2 G1 G2; apply mapM_ok in H2.
  - inversion H2. reflexivity.
  - inversion H2 as [|e2 l' es2' els' He2 H2']; subst.
    cbn [forallb] in G1, G2.
    apply andb_true_iff in G1. destruct G1 as [Ge1 G1].
    apply andb_true_iff in G2. destruct G2 as [Ge2 G2].
    cbn [map]. rewrite (entry_line_inj v e1 e2 l He1 He2 Ge1 Ge2). f_equal.
    apply IH; try assumption.
    clear - H2'. induction H2' as [|x y xs ys Hxy _ IH2]; [reflexivity|].
    simpl. rewrite Hxy. simpl. rewrite IH2. reflexivity.
Qed.

(* properties *)
Definition prop_view (nv : str * str) : str * list str := (fst nv, splitlines (snd nv)).

Lemma prop_lines_ok nv ls :
  prop_lines nv = Ok ls ->
  contains_whitespace (fst nv) = false /\
  ls = ind2 (fst nv ++ [58]) :: map ind4 (splitlines (snd nv)).
Proof.
  unfold prop_lines. destruct (contains_whitespace (fst nv)); [discriminate|].
  intro H. injection H as <-. split; reflexivity.
Qed.

Lemma name_line_not_starts4 n : contains_whitespace n = false -> starts4 (ind2 (n ++ [58])) = false.
Proof.
  intro H. unfold ind2, starts4. destruct n as [|c n]; [reflexivity|].
  cbn [app]. simpl in H. apply orb_false_iff in H. destruct H as [Hc _].
  unfold is_ws in Hc. destruct (c =? SP) eqn:E.
  - apply N.eqb_eq in E. subst c. discriminate Hc.
  - destruct (n ++ [58]); reflexivity.
Qed.

Lemma props_concat_headfails : forall qs lss,
    mapM prop_lines qs = Ok lss -> headfails starts4 (concat lss).
Proof.
  intros [|q qs] lss H; simpl in H.
  - injection H as <-. exact I.
  - apply bind_ok in H. destruct H as [y [Hy H]].
    apply bind_ok in H. destruct H as [ys [Hys H]]. injection H as <-.
    apply prop_lines_ok in Hy. destruct Hy as [Hw ->]. simpl.
    apply name_line_not_starts4. exact Hw.
Qed.

Lemma props_concat_inj : forall qs1 qs2 lss1 lss2,
    mapM prop_lines qs1 = Ok lss1 -> mapM prop_lines qs2 = Ok lss2 ->
    concat lss1 = concat lss2 -> map prop_view qs1 = map prop_view qs2.
Proof.
  induction qs1 as [|q1 qs1 IH]; intros [|q2 qs2] lss1 lss2 H1 H2 E; simpl in H1, H2.
  - reflexivity.
  - injection H1 as <-. apply bind_ok in H2. destruct H2 as [y [Hy H2]].
    apply bind_ok in H2. destruct H2 as [ys [Hys H2]]. injection H2 as <-.
    apply prop_lines_ok in Hy. destruct Hy as [_ ->]. discriminate E.
  - injection H2 as <-. apply bind_ok in H1. destruct H1 as [y [Hy H1]].
    apply bind_ok in H1. destruct H1 as [ys [Hys H1]]. injection H1 as <-.
    apply prop_lines_ok in Hy. destruct Hy as [_ ->]. discriminate E.
  - apply bind_ok in H1. destruct H1 as [y1 [Hy1 H1]].
    apply bind_ok in H1. destruct H1 as [ys1 [Hys1 H1]]. injection H1 as <-.
    apply bind_ok in H2. destruct H2 as [y2 [Hy2 H2]].
    apply bind_ok in H2. destruct H2 as [ys2 [Hys2 H2]]. injection H2 as <-.
    apply prop_lines_ok in Hy1. destruct Hy1 as [Hw1 ->].
    apply prop_lines_ok in Hy2. destruct Hy2 as [Hw2 ->].
    cbn [concat] in E. rewrite <- !app_comm_cons in E. injection E as En E.
    apply app_inv_tail in En.
    apply (span_inj starts4) in E; try apply map_ind4_starts4;
      try (eapply props_concat_headfails; eassumption).
    destruct E as [Ev E]. apply (map_inj ind4 ind4_inj) in Ev.
    cbn [map]. unfold prop_view at 1 3. rewrite En, Ev. f_equal.
    eapply IH; eassumption.
Qed.

Lemma props_lines_free_lf : forall qs lss,
    mapM prop_lines qs = Ok lss -> forallb (free LF) (concat lss) = true.
Proof.
  induction qs as [|q qs IH]; intros lss H; simpl in H.
  - injection H as <-. reflexivity.
  - apply bind_ok in H. destruct H as [y [Hy H]].
    apply bind_ok in H. destruct H as [ys [Hys H]]. injection H as <-.
    apply prop_lines_ok in Hy. destruct Hy as [Hw ->].
    cbn [concat]. rewrite forallb_app, (IH _ Hys), andb_true_r.
    cbn [forallb]. rewrite (map_ind4_free_lf _ (splitlines_free_lf _)), andb_true_r.
    unfold ind2. rewrite !free_cons, free_app, (no_ws_free_lf _ Hw). reflexivity.
Qed.

Lemma prop_view_inj qs1 qs2 :
  forallb (fun nv => canonical_text (snd nv)) qs1 = true ->
  forallb (fun nv => canonical_text (snd nv)) qs2 = true ->
  map prop_view qs1 = map prop_view qs2 -> qs1 = qs2.
Proof.
  revert qs2. induction qs1 as [|[n1 v1] qs1 IH]; intros [|[n2 v2] qs2] G1 G2 E;
    simpl in E; try discriminate; [reflexivity|].
  cbn [forallb snd] in G1, G2.
  apply andb_true_iff in G1. destruct G1 as [C1 G1].
  apply andb_true_iff in G2. destruct G2 as [C2 G2].
  unfold prop_view in E at 1 2. cbn [fst snd] in E. injection E as En Ev E.
  subst n2. rewrite (canonical_text_inj _ _ C1 C2 Ev). f_equal. apply IH; assumption.
Qed.

(* ---- timestamps ---------------------------------------------------------- *)

Lemma pow2_pos e : (0 < 2 ^ Z.of_N e)%Z.
Proof. apply Z.pow_pos_nonneg; lia. Qed.

Lemma ts_eq_ts_int r1 r2 : ts_eq r1 r2 -> ts_int r1 = ts_int r2.
Proof.
  unfold ts_eq, ts_int. intro H.
  pose proof (pow2_pos (r_ts_e r1)) as P1. pose proof (pow2_pos (r_ts_e r2)) as P2.
  rewrite <- (Z.quot_mul_cancel_r (r_ts_m r1) (2 ^ Z.of_N (r_ts_e r1)) (2 ^ Z.of_N (r_ts_e r2))) by lia.
  rewrite <- (Z.quot_mul_cancel_r (r_ts_m r2) (2 ^ Z.of_N (r_ts_e r2)) (2 ^ Z.of_N (r_ts_e r1))) by lia.
  rewrite H. f_equal. apply Z.mul_comm.
Qed.

Lemma ts_int_integral_ts_eq r1 r2 :
  ts_integral r1 = true -> ts_integral r2 = true -> ts_int r1 = ts_int r2 -> ts_eq r1 r2.
Proof.
  unfold ts_integral, ts_int, ts_eq. intros I1 I2 E.
  apply Z.eqb_eq in I1. apply Z.eqb_eq in I2.
  pose proof (Z.quot_rem' (r_ts_m r1) (2 ^ Z.of_N (r_ts_e r1))) as Q1.
  pose proof (Z.quot_rem' (r_ts_m r2) (2 ^ Z.of_N (r_ts_e r2))) as Q2.
  rewrite I1 in Q1. rewrite I2 in Q2. rewrite E in Q1.
  rewrite Q1 at 1. rewrite Q2 at 2. ring.
Qed.

(* ---- the whole text ------------------------------------------------------ *)

Definition attested_equal (v : variant) (r1 : rev) (es1 : list entry) (r2 : rev) (es2 : list entry) : Prop :=
  r_id r1 = r_id r2 /\ r_committer r1 = r_committer r2 /\ ts_eq r1 r2 /\
  tz_or_0 r1 = tz_or_0 r2 /\ Permutation (r_parents r1) (r_parents r2) /\
  r_message r1 = r_message r2 /\ Permutation (r_props r1) (r_props r2) /\
  map (entry_view v) es1 = map (entry_view v) es2.

Lemma revprops_ok ps rls :
  revprops_to_lines ps = Ok rls ->
  (ps = [] /\ rls = []) \/
  (ps <> [] /\ exists lss, mapM prop_lines (sort pair_leb ps) = Ok lss /\
                           rls = s2l "properties:" :: concat lss).
Proof.
  unfold revprops_to_lines. destruct ps as [|p ps].
  - intro H. injection H as <-. left. split; reflexivity.
  - intro H. apply bind_ok in H. destruct H as [lss [Hl H]]. injection H as <-.
    right. split; [discriminate|]. exists lss. split; [assumption|reflexivity].
Qed.

Lemma text_lines_ok v r es ls :
  text_lines v r es = Ok ls ->
  contains_whitespace (r_id r) = false /\ contains_linebreaks (r_committer r) = false /\
  forallb (free LF) (sort str_leb (r_parents r)) = true /\
  exists els rls,
    mapM (entry_line v) es = Ok els /\ revprops_to_lines (r_props r) = Ok rls /\
    ls = long_header v
         :: (s2l "revision-id: " ++ r_id r)
         :: (s2l "committer: " ++ r_committer r)
         :: (s2l "timestamp: " ++ dec (ts_int r))
         :: (s2l "timezone: " ++ dec (tz_or_0 r))
         :: s2l "parents:"
         :: map ind2 (sort str_leb (r_parents r)) ++ s2l "message:"
         :: map ind2 (splitlines (r_message r)) ++ s2l "inventory:"
         :: els ++ rls.
Proof.
  unfold text_lines.
  destruct (contains_whitespace (r_id r)); [discriminate|].
  destruct (contains_linebreaks (r_committer r)); [discriminate|].
  intro H. apply bind_ok in H. destruct H as [pls [Hp H]].
  apply bind_ok in H. destruct H as [els [He H]].
  apply bind_ok in H. destruct H as [rls [Hr H]]. injection H as <-.
  apply parent_lines_ok in Hp. destruct Hp as [-> Hpf].
  split; [reflexivity|split; [reflexivity|split; [assumption|]]].
  exists els, rls. split; [assumption|split; [assumption|reflexivity]].
Qed.

Lemma rls_free_lf ps rls : revprops_to_lines ps = Ok rls -> forallb (free LF) rls = true.
Proof.
  intro H. apply revprops_ok in H. destruct H as [[_ ->]|[_ [lss [Hl ->]]]]; [reflexivity|].
  cbn [forallb]. rewrite (props_lines_free_lf _ _ Hl). reflexivity.
Qed.

Lemma rls_headfails ps rls : revprops_to_lines ps = Ok rls -> headfails starts2 rls.
Proof.
  intro H. apply revprops_ok in H. destruct H as [[_ ->]|[_ [lss [Hl ->]]]]; [exact I|reflexivity].
Qed.

Lemma text_lines_free_lf v r es ls :
  text_lines v r es = Ok ls -> forallb (entry_guard v) es = true ->
  forallb (free LF) ls = true.
Proof.
  intros H G. apply text_lines_ok in H.
  destruct H as [Hid [Hc [Hp [els [rls [He [Hr ->]]]]]]].
  repeat (progress cbn [forallb] || rewrite forallb_app).
  rewrite (map_ind_free_lf _ Hp), (map_ind_free_lf _ (splitlines_free_lf _)),
    (entry_lines_free_lf _ _ _ He G), (rls_free_lf _ _ Hr).
  rewrite !free_app, (no_ws_free_lf _ Hid), (no_lb_free_lf _ Hc), !dec_free_lf.
  destruct v; reflexivity.
Qed.

Lemma rls_inj ps1 ps2 rls :
  revprops_to_lines ps1 = Ok rls -> revprops_to_lines ps2 = Ok rls ->
  forallb (fun nv => canonical_text (snd nv)) ps1 = true ->
  forallb (fun nv => canonical_text (snd nv)) ps2 = true ->
  Permutation ps1 ps2.
Proof.
  intros H1 H2 G1 G2. apply revprops_ok in H1. apply revprops_ok in H2.
  destruct H1 as [[-> ->]|[N1 [lss1 [L1 ->]]]]; destruct H2 as [[-> E2]|[N2 [lss2 [L2 E2]]]];
    try discriminate E2.
  - constructor.
  - injection E2 as E2.
    assert (S : sort pair_leb ps1 = sort pair_leb ps2).
    { apply prop_view_inj.
      - rewrite forallb_forall in *. intros x Hx. apply G1.
        eapply Permutation_in; [apply sort_perm|exact Hx].
      - rewrite forallb_forall in *. intros x Hx. apply G2.
        eapply Permutation_in; [apply sort_perm|exact Hx].
      - eapply props_concat_inj; eassumption. }
    eapply Permutation_trans; [apply Permutation_sym, (sort_perm pair_leb)|].
    rewrite S. apply sort_perm.
Qed.

Theorem text_lines_injective v r1 es1 r2 es2 ls :
  text_lines v r1 es1 = Ok ls -> text_lines v r2 es2 = Ok ls ->
  guard v r1 es1 = true -> guard v r2 es2 = true ->
  attested_equal v r1 es1 r2 es2.
Proof.
  intros H1 H2 G1 G2.
  unfold guard in G1, G2.
  apply andb_true_iff in G1. destruct G1 as [G1 Ge1]. apply andb_true_iff in G1. destruct G1 as [G1 Gp1].
  apply andb_true_iff in G1. destruct G1 as [Gm1 Gt1].
  apply andb_true_iff in G2. destruct G2 as [G2 Ge2]. apply andb_true_iff in G2. destruct G2 as [G2 Gp2].
  apply andb_true_iff in G2. destruct G2 as [Gm2 Gt2].
  apply text_lines_ok in H1. destruct H1 as [Hid1 [Hc1 [Hp1 [els1 [rls1 [He1 [Hr1 E1]]]]]]].
  apply text_lines_ok in H2. destruct H2 as [Hid2 [Hc2 [Hp2 [els2 [rls2 [He2 [Hr2 E2]]]]]]].
  rewrite E1 in E2. clear E1 ls.
  injection E2 as Eid Ecom Ets Etz E.
  try apply app_inv_head in Eid. try apply app_inv_head in Ecom.
  try apply app_inv_head in Ets. apply dec_inj in Ets.
  try apply app_inv_head in Etz. apply dec_inj in Etz.
  (* parents *)
  apply (span_inj starts2) in E; try apply map_ind2_starts2; try reflexivity.
  destruct E as [Epar E]. apply (map_inj ind2 ind2_inj) in Epar. injection E as E.
  (* message *)
  apply (span_inj starts2) in E; try apply map_ind2_starts2; try reflexivity.
  destruct E as [Emsg E]. apply (map_inj ind2 ind2_inj) in Emsg. injection E as E.
  (* inventory / properties *)
  apply (span_inj starts2) in E;
    try (eapply entry_lines_starts2; eassumption); try (eapply rls_headfails; eassumption).
  destruct E as [Eels Erls]. subst els2 rls2.
  unfold attested_equal. repeat split.
  - exact Eid.
  - exact Ecom.
  - apply ts_int_integral_ts_eq; assumption.
  - exact Etz.
  - eapply Permutation_trans; [apply Permutation_sym, (sort_perm str_leb)|].
    rewrite Epar. apply sort_perm.
  - apply canonical_text_inj; assumption.
  - eapply rls_inj; eassumption.
  - eapply entry_lines_inj; eassumption.
Qed.

Theorem testament_injective v r1 es1 r2 es2 t :
  testament v r1 es1 = Ok t -> testament v r2 es2 = Ok t ->
  guard v r1 es1 = true -> guard v r2 es2 = true ->
  attested_equal v r1 es1 r2 es2.
Proof.
  unfold testament, text_str. intros H1 H2 G1 G2.
  apply bind_ok in H1. destruct H1 as [s1 [H1 T1]]. injection T1 as T1.
  apply bind_ok in H1. destruct H1 as [ls1 [H1 S1]]. injection S1 as S1.
  apply bind_ok in H2. destruct H2 as [s2 [H2 T2]]. injection T2 as T2.
  apply bind_ok in H2. destruct H2 as [ls2 [H2 S2]]. injection S2 as S2.
  rewrite <- T2 in T1. apply utf8_inj in T1. rewrite <- S1, <- S2 in T1. clear S1 S2 T2.
  assert (F1 : forallb (free LF) ls1 = true).
  { eapply text_lines_free_lf; [eassumption|].
    unfold guard in G1. apply andb_true_iff in G1. destruct G1 as [_ G1]. exact G1. }
  assert (F2 : forallb (free LF) ls2 = true).
  { eapply text_lines_free_lf; [eassumption|].
    unfold guard in G2. apply andb_true_iff in G2. destruct G2 as [_ G2]. exact G2. }
  apply (unlines_inj _ _ F1 F2) in T1. subst ls2.
  eapply text_lines_injective; eassumption.
Qed.

(* ---- determinism --------------------------------------------------------- *)

Lemma entry_line_view v e1 e2 : entry_view v e1 = entry_view v e2 -> entry_line v e1 = entry_line v e2.
Proof.
  destruct e1 as [k1 p1 f1 s1 t1 rv1 x1], e2 as [k2 p2 f2 s2 t2 rv2 x2].
  unfold entry_view, content_view, entry_line, entry_base. cbn [e_kind e_path e_file_id e_sha1 e_target e_revision e_exec].
  intro H. injection H as Hk Hp Hf Hc Hs. subst k2 p2 f2.
  assert (Hbase :
    (match k1 with
     | KFile => if is_nil s1 then AssertionError else Ok (SP :: s1)
     | KSymlink => if is_nil t1 then AssertionError else bind (escape_path v t1) (fun t => Ok (SP :: t))
     | _ => Ok [] end) =
    (match k1 with
     | KFile => if is_nil s2 then AssertionError else Ok (SP :: s2)
     | KSymlink => if is_nil t2 then AssertionError else bind (escape_path v t2) (fun t => Ok (SP :: t))
     | _ => Ok [] end)) by (destruct k1; subst; reflexivity).
  rewrite Hbase. destruct v; [reflexivity| |]; injection Hs as -> ->; reflexivity.
Qed.

Lemma entry_lines_view v : forall es1 es2,
    map (entry_view v) es1 = map (entry_view v) es2 ->
    mapM (entry_line v) es1 = mapM (entry_line v) es2.
Proof.
  induction es1 as [|e1 es1 IH]; intros [|e2 es2] H; simpl in H; try discriminate; [reflexivity|].
  apply cons_inj in H. destruct H as [He H]. simpl. rewrite (entry_line_view _ _ _ He), (IH _ H). reflexivity.
Qed.

Lemma revprops_perm ps1 ps2 : Permutation ps1 ps2 -> revprops_to_lines ps1 = revprops_to_lines ps2.
Proof.
  intro H. unfold revprops_to_lines.
  destruct ps1 as [|p1 ps1].
  - apply Permutation_nil in H. subst. reflexivity.
  - destruct ps2 as [|p2 ps2]; [apply Permutation_sym, Permutation_nil in H; discriminate|].
    rewrite (sort_pair_perm_invariant _ _ H). reflexivity.
Qed.

Theorem testament_deterministic v r1 es1 r2 es2 :
  attested_equal v r1 es1 r2 es2 -> testament v r1 es1 = testament v r2 es2.
Proof.
  intros [Hid [Hc [Hts [Htz [Hpar [Hmsg [Hprops Hes]]]]]]].
  unfold testament, text_str, text_lines.
  rewrite Hid, Hc, (ts_eq_ts_int _ _ Hts), Htz, (sort_str_perm_invariant _ _ Hpar), Hmsg,
    (entry_lines_view _ _ _ Hes), (revprops_perm _ _ Hprops). reflexivity.
Qed.

(* as_short_text = header + revision id + sha1(as_text): a function of the text, for any hash *)
Section ShortText.
  Variable sha : bytes -> bytes.
  Definition short_header (v : variant) : str :=
    match v with
    | Plain => s2l "bazaar-ng testament short form 1"
    | Strict => s2l "bazaar-ng testament short form 2.1"
    | Strict3 => s2l "bazaar testament short form 3 strict"
    end.
  Definition short_text (v : variant) (r : rev) (es : list entry) : res bytes :=
    bind (testament v r es) (fun t =>
    Ok (utf8 (short_header v ++ [LF] ++ s2l "revision-id: " ++ r_id r ++ [LF] ++ s2l "sha1: ") ++ sha t ++ [LF])).

  Lemma short_text_deterministic v r1 es1 r2 es2 :
    attested_equal v r1 es1 r2 es2 -> short_text v r1 es1 = short_text v r2 es2.
  Proof.
    intro H. unfold short_text. rewrite (testament_deterministic _ _ _ _ _ H).
    destruct H as [-> _]. reflexivity.
  Qed.
End ShortText.

(* ---- sensitivity (contrapositive of injectivity) ------------------------- *)

Theorem testament_sensitive v r1 es1 r2 es2 t1 t2 :
  testament v r1 es1 = Ok t1 -> testament v r2 es2 = Ok t2 ->
  guard v r1 es1 = true -> guard v r2 es2 = true ->
  ~ attested_equal v r1 es1 r2 es2 -> t1 <> t2.
Proof.
  intros H1 H2 G1 G2 N E. subst t2. apply N. eapply testament_injective; eassumption.
Qed.

(* ---- witnesses ----------------------------------------------------------- *)

Definition rev0 : rev :=
  mk_rev (s2l "rev-1") (s2l "Joe <joe@example.com>") 10 0 (Some 0%Z) (s2l "x") [s2l "p-b"; s2l "p-a"]
         [(s2l "branch-nick", s2l "trunk")].
Definition root0 : entry := mk_entry KDir [] (s2l "root-id") [] [] (s2l "rev-1") false.
Definition file0 : entry :=
  mk_entry KFile (s2l "a b") (s2l "f-id") (s2l "da39a3ee5e6b4b0d3255bfef95601890afd80709") []
           (s2l "rev-1") true.
Definition link0 : entry := mk_entry KSymlink (s2l "l") (s2l "l-id") [] (s2l "a b") (s2l "rev-1") false.
Definition es0 : list entry := [root0; file0; link0].

Definition set_message (r : rev) (m : str) : rev :=
  mk_rev (r_id r) (r_committer r) (r_ts_m r) (r_ts_e r) (r_tz r) m (r_parents r) (r_props r).
Definition set_timestamp (r : rev) (m : Z) (e : N) : rev :=
  mk_rev (r_id r) (r_committer r) m e (r_tz r) (r_message r) (r_parents r) (r_props r).
Definition set_props (r : rev) (ps : list (str * str)) : rev :=
  mk_rev (r_id r) (r_committer r) (r_ts_m r) (r_ts_e r) (r_tz r) (r_message r) (r_parents r) ps.
Definition set_path (e : entry) (p : str) : entry :=
  mk_entry (e_kind e) p (e_file_id e) (e_sha1 e) (e_target e) (e_revision e) (e_exec e).
Definition set_exec (e : entry) (x : bool) : entry :=
  mk_entry (e_kind e) (e_path e) (e_file_id e) (e_sha1 e) (e_target e) (e_revision e) x.

(* the hypotheses of the guarded theorem are satisfiable by a non-trivial value *)
Lemma guard_example :
  guard Strict3 (set_message rev0 (s2l "two" ++ [LF] ++ s2l "lines")) es0 = true /\
  exists t, testament Strict3 (set_message rev0 (s2l "two" ++ [LF] ++ s2l "lines")) es0 = Ok t.
Proof. split; [vm_compute; reflexivity|eexists; vm_compute; reflexivity]. Qed.

(* (i) message "x" vs "x\n" *)
Lemma message_trailing_newline_refuted :
  exists v r1 r2 es t,
    r2 = set_message r1 (r_message r1 ++ [LF]) /\
    testament v r1 es = Ok t /\ testament v r2 es = Ok t /\
    ~ attested_equal v r1 es r2 es.
Proof.
  exists Strict3, rev0, (set_message rev0 (s2l "x" ++ [LF])), es0.
  eexists. split; [reflexivity|]. split; [vm_compute; reflexivity|]. split; [vm_compute; reflexivity|].
  intros [_ [_ [_ [_ [_ [H _]]]]]]. vm_compute in H. discriminate H.
Qed.

(* (ii) timestamp 10.0 vs 10.75 = 43/4 *)
Lemma subsecond_timestamp_refuted :
  exists v r1 r2 es t,
    r2 = set_timestamp r1 43 2 /\ r_ts_m r1 = 10%Z /\ r_ts_e r1 = 0 /\
    testament v r1 es = Ok t /\ testament v r2 es = Ok t /\
    ~ attested_equal v r1 es r2 es.
Proof.
  exists Strict3, rev0, (set_timestamp rev0 43 2), es0.
  eexists. repeat split; try reflexivity; try (vm_compute; reflexivity).
  intros [_ [_ [H _]]]. vm_compute in H. discriminate H.
Qed.

(* (iii) path  a\b  vs  a/b *)
Lemma backslash_path_refuted :
  exists v r e1 e2 t,
    e2 = set_path e1 (s2l "a/b") /\ e_path e1 = [97; BSL; 98] /\
    testament v r [e1] = Ok t /\ testament v r [e2] = Ok t /\
    ~ attested_equal v r [e1] r [e2].
Proof.
  exists Strict, rev0, (set_path file0 [97; BSL; 98]), (set_path file0 (s2l "a/b")).
  eexists. repeat split; try reflexivity; try (vm_compute; reflexivity).
  intros [_ [_ [_ [_ [_ [_ [_ H]]]]]]]. vm_compute in H. discriminate H.
Qed.

(* (iv) revision property value "v" vs "v\n" *)
Lemma revprop_trailing_newline_refuted :
  exists v r1 r2 es t,
    r_props r1 = [(s2l "k", s2l "v")] /\ r2 = set_props r1 [(s2l "k", s2l "v" ++ [LF])] /\
    testament v r1 es = Ok t /\ testament v r2 es = Ok t /\
    ~ attested_equal v r1 es r2 es.
Proof.
  exists Strict3, (set_props rev0 [(s2l "k", s2l "v")]), (set_props rev0 [(s2l "k", s2l "v" ++ [LF])]), es0.
  eexists. repeat split; try reflexivity; try (vm_compute; reflexivity).
  intros [_ [_ [_ [_ [_ [_ [H _]]]]]]]. vm_compute in H.
  apply Permutation_length_1_inv in H. discriminate H.
Qed.

(* (v) the plain Testament does not attest the executable bit (nor the
   last-changed revision): the property statement lists the executable bit *)
Lemma plain_exec_bit_refuted :
  exists r e1 e2 t,
    e2 = set_exec e1 (negb (e_exec e1)) /\
    testament Plain r [e1] = Ok t /\ testament Plain r [e2] = Ok t /\
    guard Plain r [e1] = true /\ guard Plain r [e2] = true.
Proof.
  exists rev0, file0, (set_exec file0 false).
  eexists. repeat split; try reflexivity; vm_compute; reflexivity.
Qed.

(* ... the strict variants do *)
Lemma strict_exec_bit_attested v r es1 es2 e t1 t2 :
  v <> Plain ->
  testament v r (es1 ++ e :: es2) = Ok t1 ->
  testament v r (es1 ++ set_exec e (negb (e_exec e)) :: es2) = Ok t2 ->
  guard v r (es1 ++ e :: es2) = true ->
  guard v r (es1 ++ set_exec e (negb (e_exec e)) :: es2) = true ->
  t1 <> t2.
Proof.
  intros Hv H1 H2 G1 G2. eapply testament_sensitive; try eassumption.
  intros [_ [_ [_ [_ [_ [_ [_ H]]]]]]]. rewrite !map_app in H. apply app_inv_head in H.
  cbn [map] in H. apply cons_inj in H. destruct H as [H _].
  assert (Hx : match v with Plain => None | _ => Some (e_revision e, e_exec e) end =
               match v with Plain => None | _ => Some (e_revision e, negb (e_exec e)) end)
    by (unfold entry_view in H; exact (f_equal snd H)).
  destruct v; [contradiction| |]; destruct (e_exec e); discriminate Hx.
Qed.
