(* Theory/TestamentLib.v -- generic facts used by Theory/Testament.v (C41):
   unique splitting of a list at the first element failing a predicate,
   insertion sort (permutation-invariant under a total order), injectivity of
   the UTF-8 encoder and of decimal printing, single-character replace. *)
From Coq Require Import ZArith NArith List Bool String Ascii Lia Permutation
     DecimalString DecimalZ Decimal.
From BV Require Import Lib.Bytes Lib.Obs Model.Testament.
Import ListNotations.
Open Scope N_scope.

(* ---- equality tests ---------------------------------------------------- *)

Lemma str_eqb_eq : forall a b, str_eqb a b = true <-> a = b.
Proof.
  unfold str_eqb. induction a as [|x a IH]; destruct b as [|y b]; simpl; split; intro H;
    try reflexivity; try discriminate.
  - apply andb_true_iff in H. destruct H as [Hx Hr]. apply N.eqb_eq in Hx.
    apply IH in Hr. subst. reflexivity.
  - injection H as Hx Hr. subst. rewrite N.eqb_refl. simpl. apply IH. reflexivity.
Qed.

Lemma memb_false_notin : forall c s, memb c s = false -> ~ In c s.
Proof.
  unfold memb. intros c s H Hin.
  assert (E : existsb (N.eqb c) s = true).
  { apply existsb_exists. exists c. split; [assumption|apply N.eqb_refl]. }
  rewrite E in H. discriminate.
Qed.

Lemma existsb_false_forall {A} (f : A -> bool) l :
  existsb f l = false -> forall x, In x l -> f x = false.
Proof.
  intros H x Hin. destruct (f x) eqn:E; [|reflexivity].
  assert (existsb f l = true) by (apply existsb_exists; eauto). congruence.
Qed.

(* ---- unique split at the first element failing P ----------------------- *)

Section Span.
  Context {A : Type} (P : A -> bool).
  Definition headfails (r : list A) : Prop :=
    match r with [] => True | x :: _ => P x = false end.

  Lemma span_inj : forall l1 l2 r1 r2,
      forallb P l1 = true -> forallb P l2 = true ->
      headfails r1 -> headfails r2 ->
      l1 ++ r1 = l2 ++ r2 -> l1 = l2 /\ r1 = r2.
  Proof.
    induction l1 as [|x l1 IH]; intros [|y l2] r1 r2 H1 H2 F1 F2 E; simpl in *.
    - split; [reflexivity|assumption].
    - subst r1. simpl in F1. apply andb_true_iff in H2. destruct H2 as [Hy _]. congruence.
    - subst r2. simpl in F2. apply andb_true_iff in H1. destruct H1 as [Hx _]. congruence.
    - apply andb_true_iff in H1. destruct H1 as [_ H1].
      apply andb_true_iff in H2. destruct H2 as [_ H2].
      injection E as Exy E. subst y.
      destruct (IH l2 r1 r2 H1 H2 F1 F2 E) as [El Er]. subst. split; reflexivity.
  Qed.
End Span.

(* ---- insertion sort ---------------------------------------------------- *)

Section SortFacts.
  Context {A : Type} (leb : A -> A -> bool).

  Lemma insert_perm : forall x l, Permutation (insert leb x l) (x :: l).
  Proof.
    induction l as [|y l IH]; simpl; [apply Permutation_refl|].
    destruct (leb x y); [apply Permutation_refl|].
    eapply Permutation_trans; [apply perm_skip, IH|apply perm_swap].
  Qed.

  Lemma sort_perm : forall l, Permutation (sort leb l) l.
  Proof.
    induction l as [|x l IH]; simpl; [constructor|].
    eapply Permutation_trans; [apply insert_perm|apply perm_skip, IH].
  Qed.

  Hypothesis leb_total : forall a b, leb a b = true \/ leb b a = true.
  Hypothesis leb_trans : forall a b c, leb a b = true -> leb b c = true -> leb a c = true.
  Hypothesis leb_antisym : forall a b, leb a b = true -> leb b a = true -> a = b.

  Inductive sorted : list A -> Prop :=
  | sorted_nil : sorted []
  | sorted_cons : forall x l, (forall y, In y l -> leb x y = true) -> sorted l -> sorted (x :: l).

  Lemma insert_sorted : forall x l, sorted l -> sorted (insert leb x l).
  Proof.
    induction l as [|y l IH]; intros Hs; simpl.
    - constructor; [intros y []|constructor].
    - inversion Hs as [|y' l' Hall Hs']; subst.
      destruct (leb x y) eqn:E.
      + constructor; [|assumption].
        intros z [Hz|Hz]; [subst; assumption|].
        eapply leb_trans; [exact E|apply Hall; assumption].
      + constructor; [|apply IH; assumption].
        intros z Hz.
        apply (Permutation_in z (insert_perm x l)) in Hz.
        destruct Hz as [Hz|Hz]; [subst z|apply Hall; assumption].
        destruct (leb_total x y) as [H|H]; [congruence|assumption].
  Qed.

  Lemma sort_sorted : forall l, sorted (sort leb l).
  Proof.
    induction l as [|x l IH]; simpl; [constructor|apply insert_sorted; assumption].
  Qed.

  Lemma sorted_perm_eq : forall l1 l2, sorted l1 -> sorted l2 -> Permutation l1 l2 -> l1 = l2.
  Proof.
    induction l1 as [|x l1 IH]; intros l2 S1 S2 Hp.
    - apply Permutation_nil in Hp. subst. reflexivity.
    - destruct l2 as [|y l2]; [apply Permutation_sym, Permutation_nil in Hp; discriminate|].
      inversion S1 as [|x' l1' A1 S1']; subst. inversion S2 as [|y' l2' A2 S2']; subst.
      assert (Exy : x = y).
      { assert (Hx : In x (y :: l2)) by (eapply Permutation_in; [exact Hp|left; reflexivity]).
        assert (Hy : In y (x :: l1)) by (eapply Permutation_in; [apply Permutation_sym, Hp|left; reflexivity]).
        destruct Hx as [Hx|Hx]; [auto|]. destruct Hy as [Hy|Hy]; [auto|].
        apply leb_antisym; [apply A1|apply A2]; assumption. }
      subst y. f_equal. apply IH; try assumption.
      eapply Permutation_cons_inv; exact Hp.
  Qed.

  Lemma sort_perm_invariant : forall l1 l2, Permutation l1 l2 -> sort leb l1 = sort leb l2.
  Proof.
    intros l1 l2 Hp. apply sorted_perm_eq; try apply sort_sorted.
    eapply Permutation_trans; [apply sort_perm|].
    eapply Permutation_trans; [exact Hp|apply Permutation_sym, sort_perm].
  Qed.
End SortFacts.

(* str_leb is a total order *)
Lemma str_leb_total : forall a b, str_leb a b = true \/ str_leb b a = true.
Proof.
  induction a as [|x a IH]; intros [|y b]; simpl; auto.
  destruct (x <? y) eqn:E1; [auto|]. destruct (y <? x) eqn:E2; [auto|]. apply IH.
Qed.

Lemma str_leb_trans : forall a b c, str_leb a b = true -> str_leb b c = true -> str_leb a c = true.
Proof.
  induction a as [|x a IH]; intros [|y b] [|z c]; simpl; intros H1 H2; try reflexivity; try discriminate.
  destruct (x <? y) eqn:Exy.
  - apply N.ltb_lt in Exy.
    destruct (y <? z) eqn:Eyz.
    + apply N.ltb_lt in Eyz. assert (x <? z = true) as -> by (apply N.ltb_lt; lia). reflexivity.
    + destruct (z <? y) eqn:Ezy; [discriminate|].
      apply N.ltb_ge in Eyz. apply N.ltb_ge in Ezy.
      assert (x <? z = true) as -> by (apply N.ltb_lt; lia). reflexivity.
  - destruct (y <? x) eqn:Eyx; [discriminate|].
    apply N.ltb_ge in Exy. apply N.ltb_ge in Eyx. assert (x = y) by lia. subst y.
    destruct (x <? z) eqn:Exz; [reflexivity|].
    destruct (z <? x) eqn:Ezx; [discriminate|]. eapply IH; eassumption.
Qed.

Lemma str_leb_antisym : forall a b, str_leb a b = true -> str_leb b a = true -> a = b.
Proof.
  induction a as [|x a IH]; intros [|y b]; simpl; intros H1 H2; try reflexivity; try discriminate.
  destruct (x <? y) eqn:Exy.
  - apply N.ltb_lt in Exy. assert (y <? x = false) as E by (apply N.ltb_ge; lia).
    rewrite E in H2. discriminate.
  - destruct (y <? x) eqn:Eyx; [discriminate|].
    apply N.ltb_ge in Exy. apply N.ltb_ge in Eyx. assert (x = y) by lia. subst y.
    f_equal. apply IH; assumption.
Qed.

Lemma str_eqb_refl : forall a, str_eqb a a = true.
Proof. intro a. apply str_eqb_eq. reflexivity. Qed.

Lemma str_eqb_false_neq : forall a b, str_eqb a b = false -> a <> b.
Proof. intros a b H E. subst. rewrite str_eqb_refl in H. discriminate. Qed.

Lemma str_eqb_sym : forall a b, str_eqb a b = str_eqb b a.
Proof.
  intros a b. destruct (str_eqb a b) eqn:E.
  - apply str_eqb_eq in E. subst. symmetry. apply str_eqb_refl.
  - destruct (str_eqb b a) eqn:E2; [|reflexivity].
    apply str_eqb_eq in E2. subst. rewrite str_eqb_refl in E. discriminate.
Qed.

Lemma pair_leb_total : forall a b, pair_leb a b = true \/ pair_leb b a = true.
Proof.
  intros [a1 a2] [b1 b2]. unfold pair_leb. simpl. rewrite (str_eqb_sym b1 a1).
  destruct (str_eqb a1 b1); [apply str_leb_total|apply str_leb_total].
Qed.

Lemma pair_leb_antisym : forall a b, pair_leb a b = true -> pair_leb b a = true -> a = b.
Proof.
  intros [a1 a2] [b1 b2]. unfold pair_leb. simpl. rewrite (str_eqb_sym b1 a1).
  destruct (str_eqb a1 b1) eqn:E; intros H1 H2.
  - apply str_eqb_eq in E. subst. f_equal. apply str_leb_antisym; assumption.
  - apply str_eqb_false_neq in E. exfalso. apply E. apply str_leb_antisym; assumption.
Qed.

Lemma pair_leb_trans : forall a b c, pair_leb a b = true -> pair_leb b c = true -> pair_leb a c = true.
Proof.
  intros [a1 a2] [b1 b2] [c1 c2]. unfold pair_leb. simpl.
  destruct (str_eqb a1 b1) eqn:Eab.
  - apply str_eqb_eq in Eab. subst b1. destruct (str_eqb a1 c1) eqn:Eac; [apply str_leb_trans|auto].
  - destruct (str_eqb b1 c1) eqn:Ebc.
    + apply str_eqb_eq in Ebc. subst c1. rewrite Eab. auto.
    + intros H1 H2. pose proof (str_leb_trans _ _ _ H1 H2) as H3.
      destruct (str_eqb a1 c1) eqn:Eac; [|assumption].
      apply str_eqb_eq in Eac. subst c1.
      exfalso. apply (str_eqb_false_neq _ _ Eab). apply str_leb_antisym; assumption.
Qed.

Lemma sort_str_perm_invariant : forall l1 l2 : list str,
    Permutation l1 l2 -> sort str_leb l1 = sort str_leb l2.
Proof.
  apply sort_perm_invariant; [apply str_leb_total|apply str_leb_trans|apply str_leb_antisym].
Qed.

Lemma sort_pair_perm_invariant : forall l1 l2 : list (str * str),
    Permutation l1 l2 -> sort pair_leb l1 = sort pair_leb l2.
Proof.
  apply sort_perm_invariant; [apply pair_leb_total|apply pair_leb_trans|apply pair_leb_antisym].
Qed.

(* ---- UTF-8 is injective ------------------------------------------------ *)

Ltac Zify.zify_post_hook ::= Z.to_euclidean_division_equations.

Lemma cons_inj {A} (a b : A) l m : a :: l = b :: m -> a = b /\ l = m.
Proof. intro H. injection H as H1 H2. auto. Qed.

Lemma utf8_char_cases : forall c,
  (c < 128 /\ utf8_char c = [c]) \/
  (128 <= c < 2048 /\ utf8_char c = [192 + c / 64; 128 + c mod 64]) \/
  (2048 <= c < 65536 /\ utf8_char c = [224 + c / 4096; 128 + (c / 64) mod 64; 128 + c mod 64]) \/
  (65536 <= c /\ utf8_char c = [240 + c / 262144; 128 + (c / 4096) mod 64; 128 + (c / 64) mod 64; 128 + c mod 64]).
Proof.
  intro c. unfold utf8_char.
  destruct (c <? 128) eqn:C1; [apply N.ltb_lt in C1; auto|apply N.ltb_ge in C1].
  destruct (c <? 2048) eqn:C2; [apply N.ltb_lt in C2; auto|apply N.ltb_ge in C2].
  destruct (c <? 65536) eqn:C3; [apply N.ltb_lt in C3; auto 6|apply N.ltb_ge in C3]. auto 6.
Qed.

(* the encoding of one code point is a prefix code *)
Lemma utf8_char_prefix : forall c d r1 r2,
    utf8_char c ++ r1 = utf8_char d ++ r2 -> c = d /\ r1 = r2.
Proof.
  intros c d r1 r2 E.
  destruct (utf8_char_cases c) as [[Hc Ec]|[[Hc Ec]|[[Hc Ec]|[Hc Ec]]]];
  destruct (utf8_char_cases d) as [[Hd Ed]|[[Hd Ed]|[[Hd Ed]|[Hd Ed]]]];
  rewrite Ec, Ed in E; clear Ec Ed;
  repeat rewrite <- List.app_comm_cons in E; rewrite !List.app_nil_l in E;
  repeat match goal with
           | H : _ :: _ = _ :: _ |- _ => apply cons_inj in H; destruct H as [? H]
           end.
  all: try (split; [lia|assumption]).
  all: exfalso; lia.
Qed.

Lemma utf8_inj : forall s1 s2, utf8 s1 = utf8 s2 -> s1 = s2.
Proof.
  unfold utf8. induction s1 as [|c s1 IH]; intros [|d s2] E; simpl in E.
  - reflexivity.
  - exfalso. destruct (utf8_char_cases d) as [[_ Ed]|[[_ Ed]|[[_ Ed]|[_ Ed]]]];
      rewrite Ed in E; discriminate E.
  - exfalso. destruct (utf8_char_cases c) as [[_ Ec]|[[_ Ec]|[[_ Ec]|[_ Ec]]]];
      rewrite Ec in E; discriminate E.
  - apply utf8_char_prefix in E. destruct E as [-> E]. f_equal. apply IH. exact E.
Qed.

(* ---- decimal printing -------------------------------------------------- *)

Lemma N_of_ascii_inj : forall a b, N_of_ascii a = N_of_ascii b -> a = b.
Proof. intros a b H. rewrite <- (ascii_N_embedding a), <- (ascii_N_embedding b), H. reflexivity. Qed.

Lemma s2l_inj : forall a b, s2l a = s2l b -> a = b.
Proof.
  unfold s2l. induction a as [|x a IH]; intros [|y b] H; simpl in H; try discriminate; [reflexivity|].
  injection H as Hx Hr. apply N_of_ascii_inj in Hx. subst. f_equal. apply IH. exact Hr.
Qed.

Lemma dec_inj : forall a b, dec a = dec b -> a = b.
Proof.
  unfold dec. intros a b H. apply s2l_inj in H.
  assert (E : Some (Z.to_int a) = Some (Z.to_int b)).
  { rewrite <- (NilEmpty.isi (Z.to_int a)), <- (NilEmpty.isi (Z.to_int b)), H. reflexivity. }
  injection E as E. rewrite <- (DecimalZ.of_to a), <- (DecimalZ.of_to b), E. reflexivity.
Qed.

Definition digit_or_minus (c : N) : bool := ((48 <=? c) && (c <=? 57)) || (c =? 45).

Lemma dec_uint_chars : forall d, forallb digit_or_minus (s2l (NilEmpty.string_of_uint d)) = true.
Proof. induction d; simpl; try reflexivity; exact IHd. Qed.

Lemma dec_chars : forall z, forallb digit_or_minus (dec z) = true.
Proof.
  intro z. unfold dec. destruct (Z.to_int z) as [d|d]; simpl.
  - apply dec_uint_chars.
  - apply dec_uint_chars.
Qed.

(* ---- single-character replace ------------------------------------------ *)

Lemma replace1_flat_map : forall x new s,
    replace [x] new s = flat_map (fun c => if c =? x then new else [c]) s.
Proof.
  intros x new. unfold replace. induction s as [|c s IH]; simpl; [reflexivity|].
  rewrite andb_true_r, (N.eqb_sym x c). destruct (c =? x); simpl; rewrite IH; reflexivity.
Qed.
