(* Theory/Rebase.v -- facts about Model/Rebase.v (generate_simple_plan, rebase_todo).

   For EVERY well-formed graph g, every id generator gen, every topological
   order [order] the environment may return:
   - [plan_domain_skip], [plan_domain_slice]: the plan's keys are the slice
     order[start..stop] (minus merges dropped by skip_full_merged), in order;
   - [plan_domain_cmd]: for the command's call (todo_set = find_difference(tip, onto)[0],
     no start) they are exactly the present revisions of ancestry(tip) \ ancestry(onto);
   - [plan_succeeds_cmd]: that call fails only with UnrelatedBranches;
   - [plan_parents], [plan_parents_noskip]: where every new parent comes from;
   - [parents_refuted]: with skip_full_merged a new parent can be an old revision
     that was to be replayed (the child of a dropped merge);
   - [todo_deps_first], [deps_first_any_topo]: rebase_todo / any topological order
     of the old graph visit dependencies first;
   - [new_ids_distinct]. *)
From Coq Require Import List Arith Bool Lia.
From BV Require Import Lib.Dag Lib.DagTopo Lib.PyDict Theory.DagFacts Theory.DagTopoFacts Model.Rebase.
Import ListNotations.

(* ---- replace maps ---------------------------------------------------------- *)

Lemma rm_get_none (m : rmap) k : rm_get m k = None <-> ~ In k (map fst m).
Proof.
  unfold rm_get. induction m as [|[k' v] m IH]; cbn [dict_get map fst In]; [tauto|].
  destruct (k =? k') eqn:E.
  - apply Nat.eqb_eq in E. subst k'. split; [discriminate|]. intros H. exfalso. apply H. left. reflexivity.
  - apply Nat.eqb_neq in E. rewrite IH. split; [intros H [H'|H']; [congruence|tauto] | tauto].
Qed.

Lemma rm_get_in (m : rmap) k v : rm_get m k = Some v -> In (k, v) m.
Proof.
  unfold rm_get. induction m as [|[k' v'] m IH]; cbn [dict_get In]; [discriminate|].
  destruct (k =? k') eqn:E.
  - apply Nat.eqb_eq in E. subst k'. intros H. inversion H. left. reflexivity.
  - intros H. right. exact (IH H).
Qed.

Lemma rm_set_absent (m : rmap) k v : rm_get m k = None -> rm_set m k v = m ++ [(k, v)].
Proof.
  unfold rm_get, rm_set. induction m as [|[k' v'] m IH]; cbn [dict_get dict_set app]; [reflexivity|].
  destruct (k =? k'); [discriminate|]. intros H. rewrite (IH H). reflexivity.
Qed.

Lemma rm_get_snoc_other (m : rmap) k v r : r <> k -> rm_get (m ++ [(k, v)]) r = rm_get m r.
Proof.
  intros Hne. unfold rm_get. induction m as [|[k' v'] m IH]; cbn [dict_get app].
  - apply Nat.eqb_neq in Hne. rewrite Hne. reflexivity.
  - destruct (r =? k'); [reflexivity|exact IH].
Qed.

Lemma filter_all_true {A} (f : A -> bool) l : (forall x, In x l -> f x = true) -> filter f l = l.
Proof.
  induction l as [|a l IH]; intros H; [reflexivity|]. cbn [filter].
  rewrite (H a (or_introl eq_refl)). f_equal. apply IH. intros x Hx. apply H. right. exact Hx.
Qed.

Lemma set_first_In x n l : In x (set_first n l) -> x = n \/ In x l.
Proof.
  destruct l as [|y t]; cbn [set_first In]; [tauto|]. intros [<-|H]; [left; reflexivity|right; right; exact H].
Qed.

(* "the slice order[order.index(start) : order.index(stop) + 1]", with the
   defaults start = order[0], stop = order[-1] *)
Definition replayed (order : list revid) (start stop : option revid) (todo : list revid) : Prop :=
  exists start' stop' i j,
    (start = Some start' \/ (start = None /\ hd_error order = Some start')) /\
    (stop = Some stop' \/ (stop = None /\ last_opt order = Some stop')) /\
    index_of start' order = Some i /\ index_of stop' order = Some j /\
    todo = slice order i (j + 1).

Lemma hd_error_index (l : list revid) s : hd_error l = Some s -> index_of s l = Some 0.
Proof. destruct l as [|x l]; cbn [hd_error]; intros H; inversion H. apply index_of_hd. Qed.

Section Plan.
Variable g : dag.
Variable gen : revid -> list revid -> revid.
Hypothesis W : wf_dag g = true.

Lemma parent_neq p r : In p (parents g r) -> p <> r.
Proof.
  intros Hp ->. destruct (wf_parents g r r W Hp) as [L|L]; [lia|].
  apply parents_present in Hp. lia.
Qed.

(* where a new parent p of the rewritten [old] may come from, given the
   entries m made before it *)
Definition pok (onto : revid) (m : rmap) (old p : revid) : Prop :=
  p = onto \/
  (exists o' ps', In o' (parents g old) /\ rm_get m o' = Some (p, ps')) \/
  (In p (parents g old) /\ rm_get m p = None).

Lemma left_parents_ok onto m old :
  left_parents g m onto (parents g old) <> [] /\
  forall p, In p (left_parents g m onto (parents g old)) -> pok onto m old p.
Proof.
  unfold left_parents, pok. destruct (parents g old) as [|p0 rest].
  - split; [discriminate|]. intros p [<-|[]]. left; reflexivity.
  - destruct (heads_is_onto g p0 onto).
    + split; [discriminate|]. intros p [<-|[]]. left; reflexivity.
    + destruct (rm_get m p0) as [[n ps']|] eqn:G.
      * split; [discriminate|]. intros p [<-|[]]. right; left.
        exists p0, ps'. split; [left; reflexivity|exact G].
      * split; [discriminate|]. intros p [<-|[<-|[]]]; [left; reflexivity|].
        right; right. split; [left; reflexivity|exact G].
Qed.

Lemma other_parents_ok onto m old add : forall others acc,
  (forall x, In x others -> In x (parents g old)) ->
  acc <> [] -> (forall p, In p acc -> pok onto m old p) ->
  other_parents g m onto add others acc <> [] /\
  forall p, In p (other_parents g m onto add others acc) -> pok onto m old p.
Proof.
  induction others as [|op rest IH]; intros acc Hsub Hne Hacc; cbn [other_parents]; [split; assumption|].
  apply IH.
  - intros x Hx. apply Hsub. right. exact Hx.
  - destruct (memb op add); [|exact Hne].
    destruct (heads_is_onto g op onto); [exact Hne|].
    destruct (rm_get m op) as [[n ps']|].
    + destruct (first_is onto acc).
      * destruct acc; [congruence|discriminate].
      * intros H. apply app_eq_nil in H as [_ H]. discriminate.
    + intros H. apply app_eq_nil in H as [_ H]. discriminate.
  - intros p Hp. destruct (memb op add); [|exact (Hacc p Hp)].
    destruct (heads_is_onto g op onto); [exact (Hacc p Hp)|].
    destruct (rm_get m op) as [[n ps']|] eqn:G.
    + assert (Hn : pok onto m old n).
      { right; left. exists op, ps'. split; [apply Hsub; left; reflexivity|exact G]. }
      destruct (first_is onto acc).
      * apply set_first_In in Hp as [->|Hp]; [exact Hn|exact (Hacc p Hp)].
      * apply in_app_or in Hp as [Hp|[<-|[]]]; [exact (Hacc p Hp)|exact Hn].
    + apply in_app_or in Hp as [Hp|[<-|[]]]; [exact (Hacc p Hp)|].
      right; right. split; [apply Hsub; left; reflexivity|exact G].
Qed.

Lemma new_parents_ok onto m old :
  new_parents g m onto (parents g old) <> [] /\
  forall p, In p (new_parents g m onto (parents g old)) -> pok onto m old p.
Proof.
  unfold new_parents. generalize (left_parents_ok onto m old).
  destruct (parents g old) as [|p0 [|p1 rest]] eqn:E; intros [Hne Hok]; try (split; assumption).
  apply other_parents_ok; [|exact Hne|exact Hok].
  intros x Hx. rewrite E. right. exact Hx.
Qed.

Lemma plan_step_cases onto skip m old m' :
  plan_step g gen onto skip m old = Ok m' -> rm_get m old = None ->
  (m' = m /\ skip = true /\ 1 < length (parents g old)) \/
  (exists ps, ps = new_parents g m onto (parents g old) /\ gen old ps <> old /\
              m' = m ++ [(old, (gen old ps, ps))]).
Proof.
  unfold plan_step. cbv zeta. intros H G.
  destruct ((1 <? length (parents g old)) && (length (new_parents g m onto (parents g old)) =? 1) && skip) eqn:C.
  - inversion H; subst m'. left. apply andb_true_iff in C as [C1 C3]. apply andb_true_iff in C1 as [C1 C2].
    apply Nat.ltb_lt in C1. auto.
  - right. destruct (gen old (new_parents g m onto (parents g old)) =? old) eqn:E; [discriminate|].
    inversion H; subst m'. eexists; split; [reflexivity|].
    split; [apply Nat.eqb_neq; exact E|]. apply rm_set_absent; exact G.
Qed.

Definition entry_ok (onto : revid) (m1 : rmap) (e : revid * (revid * list revid)) : Prop :=
  fst (snd e) = gen (fst e) (snd (snd e)) /\ fst (snd e) <> fst e /\ snd (snd e) <> [] /\
  forall p, In p (snd (snd e)) -> pok onto m1 (fst e) p.

(* every entry is justified by the entries before it *)
Definition plan_ok (onto : revid) (m : rmap) : Prop :=
  forall m1 e m2, m = m1 ++ e :: m2 -> entry_ok onto m1 e.

Lemma plan_ok_nil onto : plan_ok onto [].
Proof. intros m1 e m2 H. destruct m1; discriminate. Qed.

Lemma plan_ok_snoc onto m e : plan_ok onto m -> entry_ok onto m e -> plan_ok onto (m ++ [e]).
Proof.
  intros Hm He m1 e' m2 H.
  destruct (exists_last (l := e' :: m2)) as [m2' [x Hx]]; [discriminate|].
  destruct m2' as [|y m2'].
  - (* e' is the last element *)
    destruct m2 as [|z m2]; [|destruct m2; discriminate].
    apply app_inj_tail in H as [-> ->]. exact He.
  - assert (E : m2 = m2' ++ [x] /\ y = e').
    { cbn [app] in Hx. inversion Hx. split; reflexivity. }
    destruct E as [-> ->].
    replace (m1 ++ e' :: m2' ++ [x]) with ((m1 ++ e' :: m2') ++ [x]) in H
      by (rewrite <- app_assoc; reflexivity).
    apply app_inj_tail in H as [-> _]. apply (Hm m1 e' m2' eq_refl).
Qed.

(* the loop  for oldrevid in todo *)
Lemma loop_inv onto skip : forall todo m m',
  NoDup todo -> (forall r, In r todo -> rm_get m r = None) -> plan_ok onto m ->
  plan_loop g gen onto skip todo m = Ok m' ->
  plan_ok onto m' /\
  exists f, map fst m' = map fst m ++ filter f todo /\
            forall r, In r todo -> f r = false -> skip = true /\ 1 < length (parents g r).
Proof.
  induction todo as [|old rest IH]; intros m m' ND Hfresh Hok H; cbn [plan_loop] in H.
  - inversion H; subst m'. split; [exact Hok|]. exists (fun _ => true).
    cbn [filter]. rewrite app_nil_r. split; [reflexivity|]. intros r [].
  - inversion ND as [|? ? Hnin ND']; subst.
    destruct (plan_step g gen onto skip m old) as [m1|e] eqn:S; [|discriminate].
    apply plan_step_cases in S; [|apply Hfresh; left; reflexivity].
    destruct S as [[-> [Hs Hl]] | [ps [Hps [Hne ->]]]].
    + destruct (IH m m' ND') as [Hok' [f [Hk Hf]]]; [intros r Hr; apply Hfresh; right; exact Hr | exact Hok | exact H |].
      split; [exact Hok'|]. exists (fun x => if x =? old then false else f x).
      split.
      * rewrite Hk. f_equal. cbn [filter]. rewrite Nat.eqb_refl.
        apply filter_ext_in. intros a Ha. destruct (a =? old) eqn:E; [|reflexivity].
        apply Nat.eqb_eq in E. subst a. contradiction.
      * intros r [<-|Hr] Hfr; [split; assumption|].
        destruct (r =? old) eqn:E; [apply Nat.eqb_eq in E; subst r; contradiction|]. apply (Hf r Hr Hfr).
    + destruct (IH (m ++ [(old, (gen old ps, ps))]) m' ND') as [Hok' [f [Hk Hf]]].
      * intros r Hr. rewrite rm_get_snoc_other; [apply Hfresh; right; exact Hr|].
        intros ->. contradiction.
      * apply plan_ok_snoc; [exact Hok|]. unfold entry_ok. cbn [fst snd].
        destruct (new_parents_ok onto m old) as [N1 N2]. rewrite <- Hps in N1, N2.
        repeat split; [exact Hne | exact N1 | exact N2].
      * exact H.
      * split; [exact Hok'|]. exists (fun x => if x =? old then true else f x).
        split.
        -- rewrite Hk, map_app, <- app_assoc. cbn [map fst app filter]. rewrite Nat.eqb_refl.
           f_equal. f_equal. apply filter_ext_in. intros a Ha. destruct (a =? old) eqn:E; [|reflexivity].
           apply Nat.eqb_eq in E. subst a. contradiction.
        -- intros r [<-|Hr] Hfr; [rewrite Nat.eqb_refl in Hfr; discriminate|].
           destruct (r =? old) eqn:E; [discriminate|]. apply (Hf r Hr Hfr).
Qed.

Lemma simple_plan_inv todo_set order start stop onto skip m :
  simple_plan g gen todo_set order start stop onto skip = Ok m ->
  exists todo, replayed order start stop todo /\ plan_loop g gen onto skip todo [] = Ok m.
Proof.
  unfold simple_plan, todo_slice, replayed. intros H.
  destruct (match start with Some s => negb (memb s todo_set) | None => false end); [discriminate|].
  destruct (match stop with Some s => negb (memb s todo_set) | None => false end); [discriminate|].
  destruct (match stop with Some s => Ok s | None => opt_or (last_opt order) IndexError end)
    as [stop'|] eqn:S; cbn [bind] in H; [|discriminate].
  destruct (match start with
            | Some s => Ok s
            | None => if lca_is_null g stop' onto then Err UnrelatedBranches
                      else opt_or (hd_error order) IndexError
            end) as [start'|] eqn:T; cbn [bind] in H; [|discriminate].
  destruct (index_of start' order) as [i|] eqn:I; cbn [opt_or bind] in H; [|discriminate].
  destruct (index_of stop' order) as [j|] eqn:J; cbn [opt_or bind] in H; [|discriminate].
  exists (slice order i (j + 1)). split; [|exact H].
  exists start', stop', i, j. repeat split; try assumption.
  - destruct start as [s|]; [left; congruence|right].
    destruct (lca_is_null g stop' onto); [discriminate|].
    destruct (hd_error order); cbn [opt_or] in T; [|discriminate]. split; congruence.
  - destruct stop as [s|]; [left; congruence|right].
    destruct (last_opt order); cbn [opt_or] in S; [|discriminate]. split; congruence.
Qed.

Lemma replayed_topo order start stop todo :
  topo_sortedb g order = true -> replayed order start stop todo -> topo_sortedb g todo = true.
Proof.
  intros T [s [t [i [j [_ [_ [_ [_ ->]]]]]]]]. apply topo_sorted_slice. exact T.
Qed.

(* ---- the plan's domain ------------------------------------------------------ *)

Theorem plan_domain_skip todo_set order start stop onto skip m :
  topo_sortedb g order = true ->
  simple_plan g gen todo_set order start stop onto skip = Ok m ->
  exists todo f, replayed order start stop todo /\ map fst m = filter f todo /\
    forall r, In r todo -> f r = false -> skip = true /\ 1 < length (parents g r).
Proof.
  intros T H. apply simple_plan_inv in H as [todo [R L]].
  pose proof (replayed_topo _ _ _ _ T R) as Tt.
  destruct (loop_inv onto skip todo [] m (topo_sorted_NoDup g _ Tt)) as [_ [f [Hk Hf]]];
    [intros r _; reflexivity | apply plan_ok_nil | exact L |].
  exists todo, f. split; [exact R | split; [exact Hk | exact Hf]].
Qed.

Theorem plan_domain_slice todo_set order start stop onto m :
  topo_sortedb g order = true ->
  simple_plan g gen todo_set order start stop onto false = Ok m ->
  replayed order start stop (map fst m).
Proof.
  intros T H. destruct (plan_domain_skip _ _ _ _ _ _ _ T H) as [todo [f [R [Hk Hf]]]].
  rewrite Hk, filter_all_true; [exact R|].
  intros x Hx. destruct (f x) eqn:E; [reflexivity|]. destruct (Hf x Hx E) as [C _]. discriminate.
Qed.

(* what the order of the command's call looks like *)
Section Cmd.
Variables (todo_set order : list revid) (tip onto : revid).
Hypothesis Horder : topo_order_of g todo_set order = true.
Hypothesis Htodo : forall x, In x todo_set <-> In x (find_unique_ancestors g tip [onto]).
Hypothesis Htip : present g tip = true.
Hypothesis Hnew : ~ reach g tip onto.

Lemma order_spec x : In x order <-> (present g x = true /\ reach g x tip /\ ~ reach g x onto).
Proof.
  pose proof Horder as Ho. unfold topo_order_of in Ho. apply andb_true_iff in Ho as [_ E].
  rewrite set_eqb_spec in E. rewrite (E x), filter_In, Htodo, (find_unique_ancestors_spec g tip [onto] x W).
  split.
  - intros [[R N] P]. repeat split; [exact P | exact R | apply N; left; reflexivity].
  - intros [P [R N]]. repeat split; [exact R | | exact P]. intros c [<-|[]]. exact N.
Qed.

Lemma order_topo : topo_sortedb g order = true.
Proof. pose proof Horder as Ho. unfold topo_order_of in Ho. apply andb_true_iff in Ho as [T _]. exact T. Qed.

Lemma tip_in_order : In tip order.
Proof. apply order_spec. repeat split; [exact Htip | apply reach_refl | exact Hnew]. Qed.

Lemma tip_in_todo_set : In tip todo_set.
Proof.
  apply Htodo, (find_unique_ancestors_spec g tip [onto] tip W). split; [apply reach_refl|].
  intros c [<-|[]]. exact Hnew.
Qed.

(* the tip is the last revision of every topological order of its branch-only ancestry *)
Lemma tip_last : exists j, index_of tip order = Some j /\ firstn (j + 1) order = order /\
                           last_opt order = Some tip.
Proof.
  destruct (index_of_In tip order tip_in_order) as [j Hj]. exists j. split; [exact Hj|].
  apply firstn_all_le; [apply (topo_sorted_NoDup g), order_topo | exact Hj |].
  intros x Hx. pose proof Hx as Hx'. apply order_spec in Hx' as [_ [Rx Nx]].
  destruct (reach_index g order x tip W order_topo Hx) as [i [j' [Hi [Hj' Hle]]]]; [|exact Rx|].
  - intros z Hxz Hzt. apply order_spec. repeat split; [| exact Hzt |].
    + inversion Hxz as [|? p ? Hp _]; subst.
      * apply order_spec in Hx as [P _]. exact P.
      * unfold present. apply Nat.ltb_lt. apply (parents_present g z p Hp).
    + intros Hzo. apply Nx. eapply reach_trans; eassumption.
  - exists i. split; [exact Hi|]. congruence.
Qed.

Theorem plan_domain_cmd stop m :
  stop = Some tip \/ stop = None ->
  simple_plan g gen todo_set order None stop onto false = Ok m ->
  map fst m = order /\
  forall r, In r (map fst m) <-> (present g r = true /\ reach g r tip /\ ~ reach g r onto).
Proof.
  intros Hstop H.
  apply (plan_domain_slice _ _ _ _ _ _ order_topo) in H.
  destruct H as [s [t [i [j [Hs [Ht [Hi [Hj Hk]]]]]]]].
  destruct tip_last as [jt [Hjt [Hfirst Hlast]]].
  assert (t = tip).
  { destruct Ht as [Ht|[_ Ht]]; [|congruence]. destruct Hstop as [->| ->]; [congruence|discriminate]. }
  subst t. assert (j = jt) by congruence. subst jt.
  destruct Hs as [Hs|[_ Hs]]; [discriminate|].
  rewrite (hd_error_index _ _ Hs) in Hi. inversion Hi. subst i.
  assert (K : map fst m = order).
  { rewrite Hk. unfold slice. rewrite Nat.sub_0_r. cbn [skipn]. exact Hfirst. }
  split; [exact K|]. intros r. rewrite K. apply order_spec.
Qed.

Hypothesis gen_neq : forall r ps, gen r ps <> r.

Lemma plan_loop_total skip : forall todo m, exists m', plan_loop g gen onto skip todo m = Ok m'.
Proof.
  induction todo as [|old rest IH]; intros m; cbn [plan_loop]; [exists m; reflexivity|].
  unfold plan_step. cbv zeta.
  destruct ((1 <? length (parents g old)) && (length (new_parents g m onto (parents g old)) =? 1) && skip).
  - apply IH.
  - destruct (gen old (new_parents g m onto (parents g old)) =? old) eqn:E.
    + apply Nat.eqb_eq in E. exfalso. exact (gen_neq _ _ E).
    + apply IH.
Qed.

(* the command's call fails only when the branches are unrelated *)
Theorem plan_succeeds_cmd stop skip :
  stop = Some tip \/ stop = None ->
  (lca_is_null g tip onto = true /\
   simple_plan g gen todo_set order None stop onto skip = Err UnrelatedBranches) \/
  exists m, simple_plan g gen todo_set order None stop onto skip = Ok m.
Proof.
  intros Hstop. destruct tip_last as [j [Hj [_ Hlast]]].
  unfold simple_plan.
  assert (M : match stop with Some s => negb (memb s todo_set) | None => false end = false).
  { destruct Hstop as [->| ->]; [|reflexivity].
    apply negb_false_iff, memb_In, tip_in_todo_set. }
  rewrite M.
  assert (S : match stop with Some s => Ok s | None => opt_or (last_opt order) IndexError end = Ok tip).
  { destruct Hstop as [->| ->]; [reflexivity|]. rewrite Hlast. reflexivity. }
  rewrite S. cbn [bind].
  destruct (lca_is_null g tip onto); [left; split; reflexivity|right].
  pose proof tip_in_order as Hin.
  destruct (hd_error order) as [x|] eqn:Hd.
  - cbn [opt_or bind]. unfold todo_slice. rewrite (hd_error_index _ _ Hd), Hj. cbn [opt_or bind].
    apply plan_loop_total.
  - exfalso. destruct order; [contradiction|discriminate].
Qed.

End Cmd.

(* ---- where the new parents come from ---------------------------------------- *)

Theorem plan_parents todo_set order start stop onto skip m :
  topo_sortedb g order = true ->
  simple_plan g gen todo_set order start stop onto skip = Ok m ->
  plan_ok onto m.
Proof.
  intros T H. apply simple_plan_inv in H as [todo [R L]].
  pose proof (replayed_topo _ _ _ _ T R) as Tt.
  destruct (loop_inv onto skip todo [] m (topo_sorted_NoDup g _ Tt)) as [Hok _];
    [intros r _; reflexivity | apply plan_ok_nil | exact L | exact Hok].
Qed.

(* with or without skip_full_merged: the new base, or the new id of an EARLIER
   entry that rewrites one of the old parents, or an old parent not rewritten
   EARLIER (possibly a dropped merge, see parents_refuted) *)
Theorem plan_parents_any todo_set order start stop onto skip m m1 old new ps m2 :
  topo_sortedb g order = true ->
  simple_plan g gen todo_set order start stop onto skip = Ok m ->
  m = m1 ++ (old, (new, ps)) :: m2 ->
  new = gen old ps /\ new <> old /\ ps <> [] /\
  forall p, In p ps ->
    p = onto \/
    (exists o' ps', In o' (parents g old) /\ In (o', (p, ps')) m1) \/
    (In p (parents g old) /\ ~ In p (map fst m1)).
Proof.
  intros T H E.
  pose proof (plan_parents _ _ _ _ _ _ _ T H m1 _ m2 E) as [E1 [E2 [E3 E4]]]. cbn [fst snd] in *.
  repeat split; [exact E1 | exact E2 | exact E3 |].
  intros p Hp. destruct (E4 p Hp) as [->|[[o' [ps' [Ho G]]]|[Ho G]]]; [left; reflexivity| |].
  - right; left. exists o', ps'. split; [exact Ho | apply rm_get_in; exact G].
  - right; right. split; [exact Ho | apply rm_get_none; exact G].
Qed.

(* without skip_full_merged: the new base, or the new id of an EARLIER entry
   that rewrites one of the old parents, or an old parent that the plan does
   not rewrite at all *)
Theorem plan_parents_noskip todo_set order start stop onto m m1 old new ps m2 :
  topo_sortedb g order = true ->
  simple_plan g gen todo_set order start stop onto false = Ok m ->
  m = m1 ++ (old, (new, ps)) :: m2 ->
  new = gen old ps /\ new <> old /\ ps <> [] /\
  forall p, In p ps ->
    p = onto \/
    (exists o' ps', In o' (parents g old) /\ In (o', (p, ps')) m1) \/
    (In p (parents g old) /\ ~ In p (map fst m)).
Proof.
  intros T H E.
  pose proof (plan_parents _ _ _ _ _ _ _ T H m1 _ m2 E) as [E1 [E2 [E3 E4]]]. cbn [fst snd] in *.
  repeat split; [exact E1 | exact E2 | exact E3 |].
  intros p Hp. destruct (E4 p Hp) as [->|[[o' [ps' [Ho G]]]|[Ho G]]]; [left; reflexivity| |].
  - right; left. exists o', ps'. split; [exact Ho | apply rm_get_in; exact G].
  - right; right. split; [exact Ho|].
    pose proof (plan_domain_slice _ _ _ _ _ _ T H) as R.
    pose proof (replayed_topo _ _ _ _ T R) as Tk.
    rewrite E, map_app in Tk |- *. cbn [map fst] in Tk |- *.
    apply topo_sorted_split in Tk as [_ [_ Tk]].
    intros Hin. apply in_app_or in Hin as [Hin|[Hin|Hin]].
    + apply rm_get_none in G. contradiction.
    + symmetry in Hin. exact (parent_neq p old Ho Hin).
    + exact (Tk p Ho Hin).
Qed.

(* ---- dependencies come first -------------------------------------------------- *)

Lemma rebase_todo_app has (m1 m2 : rmap) :
  rebase_todo has (m1 ++ m2) = rebase_todo has m1 ++ rebase_todo has m2.
Proof. unfold rebase_todo. apply flat_map_app. Qed.

(* rebase_todo lists the entries still to do in plan order, so every new parent
   that is itself a rewritten revision is either done already or listed earlier *)
Theorem todo_deps_first todo_set order start stop onto skip m has m1 old new ps m2 :
  topo_sortedb g order = true ->
  simple_plan g gen todo_set order start stop onto skip = Ok m ->
  m = m1 ++ (old, (new, ps)) :: m2 ->
  rebase_todo has m = rebase_todo has m1 ++ (if has new then [] else [old]) ++ rebase_todo has m2 /\
  forall p, In p ps ->
    p = onto \/ (In p (parents g old) /\ rm_get m1 p = None) \/
    exists o' ps', In (o', (p, ps')) m1 /\ (has p = true \/ In o' (rebase_todo has m1)).
Proof.
  intros T H E. split.
  - rewrite E, rebase_todo_app. unfold rebase_todo at 2. cbn [flat_map fst snd]. reflexivity.
  - pose proof (plan_parents _ _ _ _ _ _ _ T H m1 _ m2 E) as [_ [_ [_ E4]]]. cbn [fst snd] in E4.
    intros p Hp. destruct (E4 p Hp) as [->|[[o' [ps' [Ho G]]]|[Ho G]]]; [left; reflexivity| |right; left; split; assumption].
    right; right. exists o', ps'. apply rm_get_in in G. split; [exact G|].
    destruct (has p) eqn:Hh; [left; reflexivity|right].
    unfold rebase_todo. apply in_flat_map. exists (o', (p, ps')). split; [exact G|].
    cbn [fst snd]. rewrite Hh. left. reflexivity.
Qed.

(* rebase() replays in graph.iter_topo_order(replace_map.keys()): in ANY
   topological order of the old graph the entry a new parent refers to comes first *)
Theorem deps_first_any_topo todo_set order start stop onto skip m m1 old new ps m2 :
  topo_sortedb g order = true ->
  simple_plan g gen todo_set order start stop onto skip = Ok m ->
  m = m1 ++ (old, (new, ps)) :: m2 ->
  forall p, In p ps ->
    p = onto \/ (In p (parents g old) /\ rm_get m1 p = None) \/
    exists o' ps', In (o', (p, ps')) m1 /\
      forall l i j, topo_sortedb g l = true -> index_of o' l = Some i -> index_of old l = Some j -> i < j.
Proof.
  intros T H E p Hp.
  pose proof (plan_parents _ _ _ _ _ _ _ T H m1 _ m2 E) as [_ [_ [_ E4]]]. cbn [fst snd] in E4.
  destruct (E4 p Hp) as [->|[[o' [ps' [Ho G]]]|[Ho G]]]; [left; reflexivity| |right; left; split; assumption].
  right; right. exists o', ps'. split; [apply rm_get_in; exact G|].
  intros l i j Tl Hi Hj. exact (topo_index g l o' old i j W Tl Ho Hi Hj).
Qed.

(* ---- new ids ------------------------------------------------------------------- *)

Theorem new_ids_distinct todo_set order start stop onto skip m :
  (forall r r' ps ps', gen r ps = gen r' ps' -> r = r') ->
  topo_sortedb g order = true ->
  simple_plan g gen todo_set order start stop onto skip = Ok m ->
  NoDup (map fst m) /\ NoDup (map (fun e => fst (snd e)) m).
Proof.
  intros Inj T H.
  assert (ND : NoDup (map fst m)).
  { destruct (plan_domain_skip _ _ _ _ _ _ _ T H) as [todo [f [R [Hk _]]]].
    rewrite Hk. apply NoDup_filter. apply (topo_sorted_NoDup g). exact (replayed_topo _ _ _ _ T R). }
  split; [exact ND|].
  pose proof (plan_parents _ _ _ _ _ _ _ T H) as Hok.
  assert (Hgen : forall e, In e m -> fst (snd e) = gen (fst e) (snd (snd e))).
  { intros e He. apply in_split in He as [a [b ->]]. destruct (Hok a e b eq_refl) as [E1 _]. exact E1. }
  clear Hok H. induction m as [|e m IH]; [constructor|].
  cbn [map] in *. inversion ND as [|? ? Hn ND']; subst. constructor.
  - intros Hin. apply in_map_iff in Hin as [e' [He' Hin]].
    apply Hn. apply in_map_iff. exists e'. split; [|exact Hin].
    rewrite (Hgen e (or_introl eq_refl)), (Hgen e' (or_intror Hin)) in He'.
    apply Inj in He'. exact He'.
  - apply IH; [exact ND'|]. intros e' He'. apply Hgen. right. exact He'.
Qed.

End Plan.

(* ---- skip_full_merged breaks the parent clause ------------------------------------ *)

(*   0 - 1 - 2        rebase 5 onto 2 with skip_full_merged:
      \   \           3 -> 103 on 2;  4 merges 1, which 2 already contains: dropped;
       3 - 4 - 5      5 -> 105 with parents (2, 4): the OLD merge 4, not 103 *)
Definition g_witness : dag := [[]; [0]; [1]; [0]; [3; 1]; [4]].

Theorem parents_refuted :
  exists g todo_set order tip onto m old new ps p,
    wf_dag g = true /\ topo_order_of g todo_set order = true /\
    todo_set = find_unique_ancestors g tip [onto] /\
    simple_plan g (gen_canon None) todo_set order None (Some tip) onto true = Ok m /\
    In (old, (new, ps)) m /\ In p ps /\
    p <> onto /\ (forall e, In e m -> fst (snd e) <> p) /\ In p todo_set /\
    (exists e, In e m /\ In (fst e) (parents g p)).
Proof.
  exists g_witness, [3; 4; 5], [3; 4; 5], 5, 2, [(3, (103, [2])); (5, (105, [2; 4]))], 5, 105, [2; 4], 4.
  split; [reflexivity|]. split; [reflexivity|]. split; [reflexivity|]. split; [reflexivity|].
  split; [right; left; reflexivity|]. split; [right; left; reflexivity|]. split; [discriminate|].
  split; [intros e [<-|[<-|[]]]; discriminate|]. split; [right; left; reflexivity|].
  exists (3, (103, [2])). split; left; reflexivity.
Qed.
