(* Theory/Rebase.v -- facts about Model/Rebase.v (generate_simple_plan as repaired
   by be02b0d, rebase_todo).

   For EVERY well-formed graph g, every id generator gen, every topological
   order [order] the environment may return:
   - [plan_spec]: the whole specification of a plan: its keys are the slice
     order[start..stop] minus the merges dropped by skip_full_merged, in order,
     and every new parent is onto, or the new id of an EARLIER entry that
     rewrites an old parent -- or a parent of a dropped merge among the old
     parents ([linked]) --, or an old parent outside the slice;
   - [plan_domain_skip], [plan_domain_slice], [plan_domain_cmd] (the command's
     call: exactly the present revisions of ancestry(tip) \ ancestry(onto)),
     [plan_succeeds_cmd] (fails only with UnrelatedBranches);
   - [plan_parents], [plan_parents_noskip];
   - [todo_deps_first]: rebase_todo (plan order) visits dependencies first;
   - [deps_first_any_topo_noskip] / [any_topo_refuted]: every topological order
     of the OLD graph does so without skip_full_merged, but NOT with it (a
     dropped merge leaves no old-graph edge between its child and its parent);
   - [new_ids_distinct]. *)
From Coq Require Import List Arith Bool Lia.
From BV Require Import Lib.Dag Lib.DagTopo Lib.PyDict Theory.DagFacts Theory.DagTopoFacts Model.Rebase.
Import ListNotations.

(* ---- replace maps ---------------------------------------------------------- *)

Lemma rm_get_none (m : rmap) k : rm_get m k = None <-> ~ In k (map fst m).
Proof.
  unfold rm_get. induction m as [|[k' v] m IH]; cbn [dict_get map fst In]; [tauto|].
  destruct (k =? k') eqn:E.
  - apply Nat.eqb_eq in E. subst k'. split; [discriminate|]. intros H. exfalso. apply H. left. reflexivity.
  - apply Nat.eqb_neq in E. rewrite IH. split; [intros H [H'|H']; [congruence|tauto] | tauto].
Qed.

Lemma rm_get_in (m : rmap) k v : rm_get m k = Some v -> In (k, v) m.
Proof.
  unfold rm_get. induction m as [|[k' v'] m IH]; cbn [dict_get In]; [discriminate|].
  destruct (k =? k') eqn:E.
  - apply Nat.eqb_eq in E. subst k'. intros H. inversion H. left. reflexivity.
  - intros H. right. exact (IH H).
Qed.

Lemma rm_set_absent (m : rmap) k v : rm_get m k = None -> rm_set m k v = m ++ [(k, v)].
Proof.
  unfold rm_get, rm_set. induction m as [|[k' v'] m IH]; cbn [dict_get dict_set app]; [reflexivity|].
  destruct (k =? k'); [discriminate|]. intros H. rewrite (IH H). reflexivity.
Qed.

Lemma rm_get_snoc_other (m : rmap) k v r : r <> k -> rm_get (m ++ [(k, v)]) r = rm_get m r.
Proof.
  intros Hne. unfold rm_get. induction m as [|[k' v'] m IH]; cbn [dict_get app].
  - apply Nat.eqb_neq in Hne. rewrite Hne. reflexivity.
  - destruct (r =? k'); [reflexivity|exact IH].
Qed.

Lemma filter_all_true {A} (f : A -> bool) l : (forall x, In x l -> f x = true) -> filter f l = l.
Proof.
  induction l as [|a l IH]; intros H; [reflexivity|]. cbn [filter].
  rewrite (H a (or_introl eq_refl)). f_equal. apply IH. intros x Hx. apply H. right. exact Hx.
Qed.

Lemma set_first_In x n l : In x (set_first n l) -> x = n \/ In x l.
Proof.
  destruct l as [|y t]; cbn [set_first In]; [tauto|]. intros [<-|H]; [left; reflexivity|right; right; exact H].
Qed.

(* "the slice order[order.index(start) : order.index(stop) + 1]", with the
   defaults start = order[0], stop = order[-1] *)
Definition replayed (order : list revid) (start stop : option revid) (todo : list revid) : Prop :=
  exists start' stop' i j,
    (start = Some start' \/ (start = None /\ hd_error order = Some start')) /\
    (stop = Some stop' \/ (stop = None /\ last_opt order = Some stop')) /\
    index_of start' order = Some i /\ index_of stop' order = Some j /\
    todo = slice order i (j + 1).

Lemma hd_error_index (l : list revid) s : hd_error l = Some s -> index_of s l = Some 0.
Proof. destruct l as [|x l]; cbn [hd_error]; intros H; inversion H. apply index_of_hd. Qed.


Lemma rm_get_snoc_some (m : rmap) e k x : rm_get m k = Some x -> rm_get (m ++ [e]) k = Some x.
Proof.
  unfold rm_get. induction m as [|[k' v'] m IH]; cbn [dict_get app]; [discriminate|].
  destruct (k =? k'); [auto|exact IH].
Qed.

Lemma rm_get_snoc_new (m : rmap) k v : rm_get m k = None -> rm_get (m ++ [(k, v)]) k = Some v.
Proof.
  unfold rm_get. induction m as [|[k' v'] m IH]; cbn [dict_get app].
  - rewrite Nat.eqb_refl. reflexivity.
  - destruct (k =? k'); [discriminate|exact IH].
Qed.

Lemma sk_get_set (sk : skmap) k v r : sk_get (sk_set sk k v) r = if r =? k then Some v else sk_get sk r.
Proof.
  unfold sk_get, sk_set. induction sk as [|[k' v'] sk IH]; cbn [dict_set dict_get].
  - reflexivity.
  - destruct (k =? k') eqn:E; cbn [dict_get].
    + apply Nat.eqb_eq in E. subst k'. destruct (r =? k); reflexivity.
    + destruct (r =? k') eqn:E'; [|exact IH].
      apply Nat.eqb_eq in E'. subst k'. rewrite Nat.eqb_sym, E. reflexivity.
Qed.

Section Plan.
Variable g : dag.
Variable gen : revid -> list revid -> revid.
Hypothesis W : wf_dag g = true.

Lemma parent_neq p r : In p (parents g r) -> p <> r.
Proof.
  intros Hp ->. destruct (wf_parents g r r W Hp) as [L|L]; [lia|].
  apply parents_present in Hp. lia.
Qed.

(* [linked D o r]: o is an old parent of r, or a parent of a dropped merge (D)
   that is itself (linked as) a parent of r *)
Inductive linked (D : revid -> Prop) : revid -> revid -> Prop :=
| linked_parent o r : In o (parents g r) -> linked D o r
| linked_drop o q r : In q (parents g r) -> D q -> linked D o q -> linked D o r.

Lemma linked_mono (D D' : revid -> Prop) o r :
  (forall q, D q -> D' q) -> linked D o r -> linked D' o r.
Proof.
  intros H L. induction L as [o r Hp | o q r Hq Dq _ IH].
  - apply linked_parent. exact Hp.
  - eapply linked_drop; [exact Hq | apply H; exact Dq | exact IH].
Qed.

(* linked revisions are strict ancestors *)
Lemma linked_reach D o r : linked D o r -> reach g o r /\ o <> r.
Proof.
  intros L.
  assert (E : exists q, In q (parents g r) /\ reach g o q).
  { induction L as [o r Hp | o q r Hq _ _ [q' [Hq' R]]].
    - exists o. split; [exact Hp | apply reach_refl].
    - exists q. split; [exact Hq|]. eapply reach_step; [exact Hq' | exact R]. }
  destruct E as [q [Hq R]]. split; [eapply reach_step; eassumption|].
  intros ->. apply (parent_neq q r Hq). apply (reach_antisym g q r W).
  - eapply reach_step; [exact Hq | apply reach_refl].
  - exact R.
Qed.

Lemma linked_no_drop (D : revid -> Prop) o r : (forall q, ~ D q) -> linked D o r -> In o (parents g r).
Proof. intros H L. destruct L as [o r Hp | o q r _ Dq _]; [exact Hp | destruct (H q Dq)]. Qed.

Definition dropped_in (sk : skmap) (q : revid) : Prop := sk_get sk q <> None.

(* the new base, or the new id of an entry of m that rewrites a linked revision *)
Definition p12 (onto : revid) (m : rmap) (sk : skmap) (old p : revid) : Prop :=
  p = onto \/ exists o' ps', linked (dropped_in sk) o' old /\ rm_get m o' = Some (p, ps').
(* ... or an old parent that is neither rewritten nor dropped so far *)
Definition pnow (onto : revid) (m : rmap) (sk : skmap) (old p : revid) : Prop :=
  p12 onto m sk old p \/ (In p (parents g old) /\ rm_get m p = None /\ sk_get sk p = None).

Definition sk_ok (onto : revid) (m : rmap) (sk : skmap) : Prop :=
  forall M v, sk_get sk M = Some v -> p12 onto m sk M v.

Lemma p12_mono onto m m' sk sk' old p :
  (forall k x, rm_get m k = Some x -> rm_get m' k = Some x) ->
  (forall q, dropped_in sk q -> dropped_in sk' q) ->
  p12 onto m sk old p -> p12 onto m' sk' old p.
Proof.
  intros Hm Hs [->|[o' [ps' [L G]]]]; [left; reflexivity|right].
  exists o', ps'. split; [eapply linked_mono; eassumption | apply Hm; exact G].
Qed.

Lemma rewritten_some onto m sk old q n :
  sk_ok onto m sk -> In q (parents g old) -> rewritten m sk q = Some n -> p12 onto m sk old n.
Proof.
  unfold rewritten. intros Hsk Hq H.
  destruct (rm_get m q) as [[n' ps']|] eqn:G.
  - inversion H; subst n'. right. exists q, ps'. split; [apply linked_parent; exact Hq | exact G].
  - destruct (Hsk q n H) as [->|[o' [ps' [L G']]]]; [left; reflexivity|right].
    exists o', ps'. split; [|exact G'].
    eapply linked_drop; [exact Hq | unfold dropped_in; rewrite H; discriminate | exact L].
Qed.

Lemma rewritten_none m sk q : rewritten m sk q = None -> rm_get m q = None /\ sk_get sk q = None.
Proof.
  unfold rewritten. destruct (rm_get m q) as [[n ps]|]; [discriminate|]. intros H. split; [reflexivity|exact H].
Qed.

Definition hd12 (onto : revid) (m : rmap) (sk : skmap) (old : revid) (l : list revid) : Prop :=
  match l with [] => False | h :: _ => p12 onto m sk old h end.

Lemma hd12_app onto m sk old l x : hd12 onto m sk old l -> hd12 onto m sk old (l ++ [x]).
Proof. destruct l; [contradiction|exact (fun H => H)]. Qed.

Lemma left_parents_ok onto m sk old : sk_ok onto m sk ->
  hd12 onto m sk old (left_parents g m sk onto (parents g old)) /\
  forall p, In p (left_parents g m sk onto (parents g old)) -> pnow onto m sk old p.
Proof.
  intros Hsk. unfold left_parents.
  assert (O : p12 onto m sk old onto) by (left; reflexivity).
  destruct (parents g old) as [|p0 rest] eqn:E.
  - split; [exact O|]. intros p [<-|[]]. left; exact O.
  - destruct (heads_is_onto g p0 onto).
    + split; [exact O|]. intros p [<-|[]]. left; exact O.
    + destruct (rewritten m sk p0) as [n|] eqn:R.
      * assert (N : p12 onto m sk old n).
        { apply (rewritten_some onto m sk old p0 n Hsk); [rewrite E; left; reflexivity | exact R]. }
        split; [exact N|]. intros p [<-|[]]. left; exact N.
      * apply rewritten_none in R as [R1 R2].
        split; [exact O|]. intros p [<-|[<-|[]]]; [left; exact O|].
        right. split; [rewrite E; left; reflexivity | split; assumption].
Qed.

Lemma other_parents_ok onto m sk old add : sk_ok onto m sk -> forall others acc,
  (forall x, In x others -> In x (parents g old)) ->
  hd12 onto m sk old acc -> (forall p, In p acc -> pnow onto m sk old p) ->
  hd12 onto m sk old (other_parents g m sk onto add others acc) /\
  forall p, In p (other_parents g m sk onto add others acc) -> pnow onto m sk old p.
Proof.
  intros Hsk. induction others as [|op rest IH]; intros acc Hsub Hhd Hacc; cbn [other_parents]; [split; assumption|].
  assert (Hsub' : forall x, In x rest -> In x (parents g old)) by (intros x Hx; apply Hsub; right; exact Hx).
  destruct (memb op add); [|apply IH; assumption].
  destruct (heads_is_onto g op onto); [apply IH; assumption|].
  destruct (rewritten m sk op) as [n|] eqn:R.
  - assert (N : p12 onto m sk old n).
    { apply (rewritten_some onto m sk old op n Hsk); [apply Hsub; left; reflexivity | exact R]. }
    destruct ((n =? onto) || memb n acc); [apply IH; assumption|].
    destruct (first_is onto acc).
    + apply IH; [exact Hsub' | |].
      * destruct acc; [contradiction|exact N].
      * intros p Hp. apply set_first_In in Hp as [->|Hp]; [left; exact N|exact (Hacc p Hp)].
    + apply IH; [exact Hsub' | apply hd12_app; exact Hhd |].
      intros p Hp. apply in_app_or in Hp as [Hp|[<-|[]]]; [exact (Hacc p Hp)|left; exact N].
  - apply rewritten_none in R as [R1 R2].
    apply IH; [exact Hsub' | apply hd12_app; exact Hhd |].
    intros p Hp. apply in_app_or in Hp as [Hp|[<-|[]]]; [exact (Hacc p Hp)|].
    right. split; [apply Hsub; left; reflexivity | split; assumption].
Qed.

Lemma new_parents_ok onto m sk old : sk_ok onto m sk ->
  hd12 onto m sk old (new_parents g m sk onto (parents g old)) /\
  forall p, In p (new_parents g m sk onto (parents g old)) -> pnow onto m sk old p.
Proof.
  intros Hsk. unfold new_parents. generalize (left_parents_ok onto m sk old Hsk).
  destruct (parents g old) as [|p0 [|p1 rest]] eqn:E; intros [Hhd Hok]; try (split; assumption).
  apply other_parents_ok; [exact Hsk | | exact Hhd | exact Hok].
  intros x Hx. rewrite E. right. exact Hx.
Qed.

Lemma plan_step_cases onto skip m sk old st' :
  plan_step g gen onto skip (m, sk) old = Ok st' -> rm_get m old = None ->
  let ps := new_parents g m sk onto (parents g old) in
  (exists v, ps = [v] /\ st' = (m, sk_set sk old v) /\ skip = true /\ 1 < length (parents g old)) \/
  (gen old ps <> old /\ st' = (m ++ [(old, (gen old ps, ps))], sk)).
Proof.
  unfold plan_step. cbv zeta. cbn [fst snd]. intros H G.
  destruct ((1 <? length (parents g old)) && (length (new_parents g m sk onto (parents g old)) =? 1) && skip) eqn:C.
  - inversion H; subst st'. left. apply andb_true_iff in C as [C1 C3]. apply andb_true_iff in C1 as [C1 C2].
    apply Nat.ltb_lt in C1. apply Nat.eqb_eq in C2.
    destruct (new_parents g m sk onto (parents g old)) as [|v [|v' l]]; try discriminate.
    exists v. cbn [hd]. auto.
  - right. destruct (gen old (new_parents g m sk onto (parents g old)) =? old) eqn:E; [discriminate|].
    inversion H; subst st'. split; [apply Nat.eqb_neq; exact E|].
    rewrite rm_set_absent by exact G. reflexivity.
Qed.

(* an entry, justified by the entries m1 before it; T = the revisions to replay *)
Definition entry_ok (onto : revid) (T : list revid) (sk : skmap) (m1 : rmap)
                    (e : revid * (revid * list revid)) : Prop :=
  fst (snd e) = gen (fst e) (snd (snd e)) /\ fst (snd e) <> fst e /\ snd (snd e) <> [] /\
  forall p, In p (snd (snd e)) ->
    p12 onto m1 sk (fst e) p \/ (In p (parents g (fst e)) /\ ~ In p T).

Definition plan_ok (onto : revid) (T : list revid) (sk : skmap) (m : rmap) : Prop :=
  forall m1 e m2, m = m1 ++ e :: m2 -> entry_ok onto T sk m1 e.

Lemma plan_ok_snoc onto T sk m e :
  plan_ok onto T sk m -> entry_ok onto T sk m e -> plan_ok onto T sk (m ++ [e]).
Proof.
  intros Hm He m1 e' m2 H.
  destruct (exists_last (l := e' :: m2)) as [m2' [x Hx]]; [discriminate|].
  destruct m2' as [|y m2'].
  - destruct m2 as [|z m2]; [|destruct m2; discriminate].
    apply app_inj_tail in H as [-> ->]. exact He.
  - assert (E : m2 = m2' ++ [x] /\ y = e').
    { cbn [app] in Hx. inversion Hx. split; reflexivity. }
    destruct E as [-> ->].
    replace (m1 ++ e' :: m2' ++ [x]) with ((m1 ++ e' :: m2') ++ [x]) in H
      by (rewrite <- app_assoc; reflexivity).
    apply app_inj_tail in H as [-> _]. apply (Hm m1 e' m2' eq_refl).
Qed.

Lemma plan_ok_mono onto T sk sk' m :
  (forall q, dropped_in sk q -> dropped_in sk' q) -> plan_ok onto T sk m -> plan_ok onto T sk' m.
Proof.
  intros Hs H m1 e m2 E. destruct (H m1 e m2 E) as [E1 [E2 [E3 E4]]].
  repeat split; [exact E1 | exact E2 | exact E3 |].
  intros p Hp. destruct (E4 p Hp) as [P|P]; [left|right; exact P].
  eapply p12_mono; [intros k x Hk; exact Hk | exact Hs | exact P].
Qed.

(* the loop invariant: [done] = the revisions handled so far *)
Definition inv (onto : revid) (T done : list revid) (m : rmap) (sk : skmap) : Prop :=
  (forall r, In r done -> rm_get m r <> None \/ sk_get sk r <> None) /\
  (forall r, rm_get m r <> None -> In r done) /\
  (forall M, sk_get sk M <> None -> In M done /\ rm_get m M = None /\ 1 < length (parents g M)) /\
  sk_ok onto m sk /\ plan_ok onto T sk m.

Lemma inv_nil onto T : inv onto T [] [] [].
Proof.
  unfold inv. split; [intros r []|]. split; [intros r H; exfalso; apply H; reflexivity|].
  split; [intros M H; exfalso; apply H; reflexivity|]. split; [intros M v H; discriminate|].
  intros m1 e m2 H. destruct m1; discriminate.
Qed.

Lemma inv_drop onto T done m sk old v :
  inv onto T done m sk -> sk_get sk old = None -> rm_get m old = None ->
  1 < length (parents g old) -> p12 onto m sk old v ->
  inv onto T (done ++ [old]) m (sk_set sk old v).
Proof.
  intros [I1 [I2 [I3 [I4 I5]]]] Hs Hm Hl Hv.
  assert (Mono : forall q, dropped_in sk q -> dropped_in (sk_set sk old v) q).
  { unfold dropped_in. intros q Hq. rewrite sk_get_set. destruct (q =? old); [discriminate|exact Hq]. }
  unfold inv. split; [|split; [|split; [|split]]].
  - intros r Hr. apply in_app_or in Hr as [Hr|[<-|[]]].
    + destruct (I1 r Hr) as [H|H]; [left; exact H|right; exact (Mono r H)].
    + right. rewrite sk_get_set, Nat.eqb_refl. discriminate.
  - intros r Hr. apply in_or_app. left. exact (I2 r Hr).
  - intros M H. rewrite sk_get_set in H. destruct (M =? old) eqn:E.
    + apply Nat.eqb_eq in E. subst M.
      split; [apply in_or_app; right; left; reflexivity | split; assumption].
    + destruct (I3 M H) as [A [B C]]. split; [apply in_or_app; left; exact A | split; assumption].
  - intros M v0 H. rewrite sk_get_set in H. destruct (M =? old) eqn:E.
    + apply Nat.eqb_eq in E. subst M. inversion H; subst v0.
      eapply p12_mono; [intros k x Hk; exact Hk | exact Mono | exact Hv].
    + eapply p12_mono; [intros k x Hk; exact Hk | exact Mono | exact (I4 M v0 H)].
  - exact (plan_ok_mono onto T sk _ m Mono I5).
Qed.

Lemma inv_entry onto done rest m sk old ps :
  topo_sortedb g (done ++ old :: rest) = true ->
  inv onto (done ++ old :: rest) done m sk -> sk_get sk old = None -> rm_get m old = None ->
  gen old ps <> old -> ps <> [] -> (forall p, In p ps -> pnow onto m sk old p) ->
  inv onto (done ++ old :: rest) (done ++ [old]) (m ++ [(old, (gen old ps, ps))]) sk.
Proof.
  intros T [I1 [I2 [I3 [I4 I5]]]] Hs Hm Hne Hps Hok.
  apply topo_sorted_split in T as [_ [_ T]].
  assert (Mono : forall k x, rm_get m k = Some x -> rm_get (m ++ [(old, (gen old ps, ps))]) k = Some x)
    by (intros k x; apply rm_get_snoc_some).
  unfold inv. split; [|split; [|split; [|split]]].
  - intros r Hr. apply in_app_or in Hr as [Hr|[<-|[]]].
    + destruct (I1 r Hr) as [H|H]; [left|right; exact H].
      destruct (rm_get m r) as [x|] eqn:G; [|congruence]. rewrite (Mono r x G). discriminate.
    + left. rewrite rm_get_snoc_new by exact Hm. discriminate.
  - intros r Hr. apply in_or_app. destruct (Nat.eq_dec r old) as [->|Hro]; [right; left; reflexivity|left].
    apply I2. rewrite rm_get_snoc_other in Hr by exact Hro. exact Hr.
  - intros M H. destruct (I3 M H) as [A [B C]].
    split; [apply in_or_app; left; exact A|]. split; [|exact C].
    rewrite rm_get_snoc_other; [exact B|]. intros ->. congruence.
  - intros M v H. eapply p12_mono; [exact Mono | intros q Hq; exact Hq | exact (I4 M v H)].
  - apply plan_ok_snoc; [exact I5|]. unfold entry_ok. cbn [fst snd].
    split; [reflexivity|]. split; [exact Hne|]. split; [exact Hps|].
    intros p Hp. destruct (Hok p Hp) as [P|[Hpar [G1 G2]]]; [left; exact P|right].
    split; [exact Hpar|]. intros Hin. apply in_app_or in Hin as [Hin|[Hin|Hin]].
    + destruct (I1 p Hin) as [H|H]; congruence.
    + symmetry in Hin. exact (parent_neq p old Hpar Hin).
    + exact (T p Hpar Hin).
Qed.

(* the loop  for oldrevid in todo *)
Lemma loop_inv onto skip T : topo_sortedb g T = true -> forall rest done m sk m' sk',
  done ++ rest = T -> inv onto T done m sk ->
  plan_loop g gen onto skip rest (m, sk) = Ok (m', sk') ->
  inv onto T T m' sk' /\
  exists f, map fst m' = map fst m ++ filter f rest /\
            forall r, In r rest -> f r = false -> skip = true /\ 1 < length (parents g r).
Proof.
  intros Tt. induction rest as [|old rest IH]; intros done m sk m' sk' E I H; cbn [plan_loop] in H.
  - inversion H; subst m' sk'. rewrite app_nil_r in E. subst done. split; [exact I|].
    exists (fun _ => true). cbn [filter]. rewrite app_nil_r. split; [reflexivity|]. intros r [].
  - pose proof Tt as Ts. rewrite <- E in Ts. apply topo_sorted_split in Ts as [Hnd [Hnr _]].
    pose proof I as [I1 [I2 [I3 [I4 I5]]]].
    assert (Hm : rm_get m old = None).
    { destruct (rm_get m old) eqn:G; [|reflexivity]. exfalso. apply Hnd. apply I2. congruence. }
    assert (Hs : sk_get sk old = None).
    { destruct (sk_get sk old) eqn:G; [|reflexivity]. exfalso. apply Hnd. apply (I3 old). congruence. }
    destruct (plan_step g gen onto skip (m, sk) old) as [st1|e] eqn:S; [|discriminate].
    pose proof (new_parents_ok onto m sk old I4) as [Nhd Nok].
    apply plan_step_cases in S; [|exact Hm]. cbv zeta in S.
    assert (E' : (done ++ [old]) ++ rest = T) by (rewrite <- app_assoc; exact E).
    destruct S as [[v [Hv [-> [Hskip Hl]]]] | [Hne ->]].
    + rewrite Hv in Nhd. cbn [hd12] in Nhd.
      destruct (IH (done ++ [old]) m (sk_set sk old v) m' sk' E') as [If [f [Hk Hf]]];
        [apply inv_drop; assumption | exact H |].
      split; [exact If|]. exists (fun x => if x =? old then false else f x). split.
      * rewrite Hk. f_equal. cbn [filter]. rewrite Nat.eqb_refl.
        apply filter_ext_in. intros a Ha. destruct (a =? old) eqn:Ea; [|reflexivity].
        apply Nat.eqb_eq in Ea. subst a. contradiction.
      * intros r [<-|Hr] Hfr; [split; assumption|].
        destruct (r =? old) eqn:Er; [apply Nat.eqb_eq in Er; subst r; contradiction|]. apply (Hf r Hr Hfr).
    + set (ps := new_parents g m sk onto (parents g old)) in *.
      assert (Hps : ps <> []) by (destruct ps; [contradiction|discriminate]).
      destruct (IH (done ++ [old]) (m ++ [(old, (gen old ps, ps))]) sk m' sk' E') as [If [f [Hk Hf]]].
      * rewrite <- E. apply inv_entry; try assumption; rewrite E; assumption.
      * exact H.
      * split; [exact If|]. exists (fun x => if x =? old then true else f x). split.
        -- rewrite Hk, map_app, <- app_assoc. cbn [map fst app filter]. rewrite Nat.eqb_refl.
           f_equal. f_equal. apply filter_ext_in. intros a Ha. destruct (a =? old) eqn:Ea; [|reflexivity].
           apply Nat.eqb_eq in Ea. subst a. contradiction.
        -- intros r [<-|Hr] Hfr; [rewrite Nat.eqb_refl in Hfr; discriminate|].
           destruct (r =? old) eqn:Er; [discriminate|]. apply (Hf r Hr Hfr).
Qed.

Lemma simple_plan_inv todo_set order start stop onto skip m :
  simple_plan g gen todo_set order start stop onto skip = Ok m ->
  exists todo sk, replayed order start stop todo /\ plan_loop g gen onto skip todo ([], []) = Ok (m, sk).
Proof.
  unfold simple_plan, todo_slice, replayed. intros H.
  destruct (match start with Some s => negb (memb s todo_set) | None => false end); [discriminate|].
  destruct (match stop with Some s => negb (memb s todo_set) | None => false end); [discriminate|].
  destruct (match stop with Some s => Ok s | None => opt_or (last_opt order) IndexError end)
    as [stop'|] eqn:S; cbn [bind] in H; [|discriminate].
  destruct (match start with
            | Some s => Ok s
            | None => if lca_is_null g stop' onto then Err UnrelatedBranches
                      else opt_or (hd_error order) IndexError
            end) as [start'|] eqn:T; cbn [bind] in H; [|discriminate].
  destruct (index_of start' order) as [i|] eqn:I; cbn [opt_or bind] in H; [|discriminate].
  destruct (index_of stop' order) as [j|] eqn:J; cbn [opt_or bind] in H; [|discriminate].
  destruct (plan_loop g gen onto skip (slice order i (j + 1)) ([], [])) as [[m0 sk]|] eqn:L;
    cbn [bind fst] in H; [|discriminate].
  inversion H; subst m0.
  exists (slice order i (j + 1)), sk. split; [|exact L].
  exists start', stop', i, j. repeat split; try assumption.
  - destruct start as [s|]; [left; congruence|right].
    destruct (lca_is_null g stop' onto); [discriminate|].
    destruct (hd_error order); cbn [opt_or] in T; [|discriminate]. split; congruence.
  - destruct stop as [s|]; [left; congruence|right].
    destruct (last_opt order); cbn [opt_or] in S; [|discriminate]. split; congruence.
Qed.

Lemma replayed_topo order start stop todo :
  topo_sortedb g order = true -> replayed order start stop todo -> topo_sortedb g todo = true.
Proof.
  intros T [s [t [i [j [_ [_ [_ [_ ->]]]]]]]]. apply topo_sorted_slice. exact T.
Qed.

(* ---- the specification of a plan ----------------------------------------------- *)

(* the merges of the replayed slice that the plan dropped *)
Definition dropped (todo : list revid) (m : rmap) (q : revid) : Prop :=
  In q todo /\ ~ In q (map fst m) /\ 1 < length (parents g q).

Theorem plan_spec todo_set order start stop onto skip m :
  topo_sortedb g order = true ->
  simple_plan g gen todo_set order start stop onto skip = Ok m ->
  exists todo f,
    replayed order start stop todo /\ map fst m = filter f todo /\
    (forall r, In r todo -> f r = false -> skip = true /\ 1 < length (parents g r)) /\
    forall m1 old new ps m2, m = m1 ++ (old, (new, ps)) :: m2 ->
      new = gen old ps /\ new <> old /\ ps <> [] /\
      forall p, In p ps ->
        p = onto \/
        (exists o' ps', linked (dropped todo m) o' old /\ In (o', (p, ps')) m1) \/
        (In p (parents g old) /\ ~ In p todo).
Proof.
  intros T H. apply simple_plan_inv in H as [todo [sk [R L]]].
  pose proof (replayed_topo _ _ _ _ T R) as Tt.
  destruct (loop_inv onto skip todo Tt todo [] [] [] m sk eq_refl (inv_nil onto todo) L)
    as [[_ [_ [I3 [_ I5]]]] [f [Hk Hf]]].
  exists todo, f. split; [exact R|]. split; [exact Hk|]. split; [exact Hf|].
  intros m1 old new ps m2 E.
  destruct (I5 m1 _ m2 E) as [E1 [E2 [E3 E4]]]. cbn [fst snd] in *.
  repeat split; [exact E1 | exact E2 | exact E3 |].
  intros p Hp. destruct (E4 p Hp) as [[->|[o' [ps' [Lk G]]]]|P]; [left; reflexivity| |right; right; exact P].
  right; left. exists o', ps'. split; [|apply rm_get_in; exact G].
  eapply linked_mono; [|exact Lk]. intros q Hq. destruct (I3 q Hq) as [A [B C]].
  split; [exact A|]. split; [apply rm_get_none; exact B | exact C].
Qed.

(* ---- the plan's domain ------------------------------------------------------ *)

Theorem plan_domain_skip todo_set order start stop onto skip m :
  topo_sortedb g order = true ->
  simple_plan g gen todo_set order start stop onto skip = Ok m ->
  exists todo f, replayed order start stop todo /\ map fst m = filter f todo /\
    forall r, In r todo -> f r = false -> skip = true /\ 1 < length (parents g r).
Proof.
  intros T H. destruct (plan_spec _ _ _ _ _ _ _ T H) as [todo [f [R [Hk [Hf _]]]]].
  exists todo, f. split; [exact R | split; [exact Hk | exact Hf]].
Qed.

Theorem plan_domain_slice todo_set order start stop onto m :
  topo_sortedb g order = true ->
  simple_plan g gen todo_set order start stop onto false = Ok m ->
  replayed order start stop (map fst m).
Proof.
  intros T H. destruct (plan_domain_skip _ _ _ _ _ _ _ T H) as [todo [f [R [Hk Hf]]]].
  rewrite Hk, filter_all_true; [exact R|].
  intros x Hx. destruct (f x) eqn:E; [reflexivity|]. destruct (Hf x Hx E) as [C _]. discriminate.
Qed.

(* what the order of the command's call looks like *)
Section Cmd.
Variables (todo_set order : list revid) (tip onto : revid).
Hypothesis Horder : topo_order_of g todo_set order = true.
Hypothesis Htodo : forall x, In x todo_set <-> In x (find_unique_ancestors g tip [onto]).
Hypothesis Htip : present g tip = true.
Hypothesis Hnew : ~ reach g tip onto.

Lemma order_spec x : In x order <-> (present g x = true /\ reach g x tip /\ ~ reach g x onto).
Proof.
  pose proof Horder as Ho. unfold topo_order_of in Ho. apply andb_true_iff in Ho as [_ E].
  rewrite set_eqb_spec in E. rewrite (E x), filter_In, Htodo, (find_unique_ancestors_spec g tip [onto] x W).
  split.
  - intros [[R N] P]. repeat split; [exact P | exact R | apply N; left; reflexivity].
  - intros [P [R N]]. repeat split; [exact R | | exact P]. intros c [<-|[]]. exact N.
Qed.

Lemma order_topo : topo_sortedb g order = true.
Proof. pose proof Horder as Ho. unfold topo_order_of in Ho. apply andb_true_iff in Ho as [T _]. exact T. Qed.

Lemma tip_in_order : In tip order.
Proof. apply order_spec. repeat split; [exact Htip | apply reach_refl | exact Hnew]. Qed.

Lemma tip_in_todo_set : In tip todo_set.
Proof.
  apply Htodo, (find_unique_ancestors_spec g tip [onto] tip W). split; [apply reach_refl|].
  intros c [<-|[]]. exact Hnew.
Qed.

(* the tip is the last revision of every topological order of its branch-only ancestry *)
Lemma tip_last : exists j, index_of tip order = Some j /\ firstn (j + 1) order = order /\
                           last_opt order = Some tip.
Proof.
  destruct (index_of_In tip order tip_in_order) as [j Hj]. exists j. split; [exact Hj|].
  apply firstn_all_le; [apply (topo_sorted_NoDup g), order_topo | exact Hj |].
  intros x Hx. pose proof Hx as Hx'. apply order_spec in Hx' as [_ [Rx Nx]].
  destruct (reach_index g order x tip W order_topo Hx) as [i [j' [Hi [Hj' Hle]]]]; [|exact Rx|].
  - intros z Hxz Hzt. apply order_spec. repeat split; [| exact Hzt |].
    + inversion Hxz as [|? p ? Hp _]; subst.
      * apply order_spec in Hx as [P _]. exact P.
      * unfold present. apply Nat.ltb_lt. apply (parents_present g z p Hp).
    + intros Hzo. apply Nx. eapply reach_trans; eassumption.
  - exists i. split; [exact Hi|]. congruence.
Qed.

Theorem plan_domain_cmd stop m :
  stop = Some tip \/ stop = None ->
  simple_plan g gen todo_set order None stop onto false = Ok m ->
  map fst m = order /\
  forall r, In r (map fst m) <-> (present g r = true /\ reach g r tip /\ ~ reach g r onto).
Proof.
  intros Hstop H.
  apply (plan_domain_slice _ _ _ _ _ _ order_topo) in H.
  destruct H as [s [t [i [j [Hs [Ht [Hi [Hj Hk]]]]]]]].
  destruct tip_last as [jt [Hjt [Hfirst Hlast]]].
  assert (t = tip).
  { destruct Ht as [Ht|[_ Ht]]; [|congruence]. destruct Hstop as [->| ->]; [congruence|discriminate]. }
  subst t. assert (j = jt) by congruence. subst jt.
  destruct Hs as [Hs|[_ Hs]]; [discriminate|].
  rewrite (hd_error_index _ _ Hs) in Hi. inversion Hi. subst i.
  assert (K : map fst m = order).
  { rewrite Hk. unfold slice. rewrite Nat.sub_0_r. cbn [skipn]. exact Hfirst. }
  split; [exact K|]. intros r. rewrite K. apply order_spec.
Qed.

Hypothesis gen_neq : forall r ps, gen r ps <> r.

Lemma plan_loop_total skip : forall todo st, exists st', plan_loop g gen onto skip todo st = Ok st'.
Proof.
  induction todo as [|old rest IH]; intros st; cbn [plan_loop]; [exists st; reflexivity|].
  unfold plan_step. cbv zeta.
  destruct ((1 <? length (parents g old)) && (length (new_parents g (fst st) (snd st) onto (parents g old)) =? 1) && skip).
  - apply IH.
  - destruct (gen old (new_parents g (fst st) (snd st) onto (parents g old)) =? old) eqn:E.
    + apply Nat.eqb_eq in E. exfalso. exact (gen_neq _ _ E).
    + apply IH.
Qed.

(* the command's call fails only when the branches are unrelated *)
Theorem plan_succeeds_cmd stop skip :
  stop = Some tip \/ stop = None ->
  (lca_is_null g tip onto = true /\
   simple_plan g gen todo_set order None stop onto skip = Err UnrelatedBranches) \/
  exists m, simple_plan g gen todo_set order None stop onto skip = Ok m.
Proof.
  intros Hstop. destruct tip_last as [j [Hj [_ Hlast]]].
  unfold simple_plan.
  assert (M : match stop with Some s => negb (memb s todo_set) | None => false end = false).
  { destruct Hstop as [->| ->]; [|reflexivity].
    apply negb_false_iff, memb_In, tip_in_todo_set. }
  rewrite M.
  assert (S : match stop with Some s => Ok s | None => opt_or (last_opt order) IndexError end = Ok tip).
  { destruct Hstop as [->| ->]; [reflexivity|]. rewrite Hlast. reflexivity. }
  rewrite S. cbn [bind].
  destruct (lca_is_null g tip onto); [left; split; reflexivity|right].
  pose proof tip_in_order as Hin.
  destruct (hd_error order) as [x|] eqn:Hd.
  - cbn [opt_or bind]. unfold todo_slice. rewrite (hd_error_index _ _ Hd), Hj. cbn [opt_or bind].
    destruct (plan_loop_total skip (slice order 0 (j + 1)) ([], [])) as [st' ->].
    cbn [bind]. eexists. reflexivity.
  - exfalso. destruct order; [contradiction|discriminate].
Qed.

End Cmd.

(* ---- where the new parents come from ---------------------------------------- *)

(* with or without skip_full_merged: the new base, or the new id of an EARLIER
   entry that rewrites an old parent -- or a parent of a dropped merge among
   the old parents, and so on through dropped merges ([linked]) --, or an old
   parent outside the replayed revisions (a ghost, a revision before start) *)
Theorem plan_parents todo_set order start stop onto skip m :
  topo_sortedb g order = true ->
  simple_plan g gen todo_set order start stop onto skip = Ok m ->
  exists todo, replayed order start stop todo /\
  forall m1 old new ps m2, m = m1 ++ (old, (new, ps)) :: m2 ->
    new = gen old ps /\ new <> old /\ ps <> [] /\
    forall p, In p ps ->
      p = onto \/
      (exists o' ps', linked (dropped todo m) o' old /\ In (o', (p, ps')) m1) \/
      (In p (parents g old) /\ ~ In p todo).
Proof.
  intros T H. destruct (plan_spec _ _ _ _ _ _ _ T H) as [todo [f [R [_ [_ E]]]]].
  exists todo. split; [exact R | exact E].
Qed.

(* without skip_full_merged nothing is dropped: the entry rewrites an old parent *)
Theorem plan_parents_noskip todo_set order start stop onto m m1 old new ps m2 :
  topo_sortedb g order = true ->
  simple_plan g gen todo_set order start stop onto false = Ok m ->
  m = m1 ++ (old, (new, ps)) :: m2 ->
  new = gen old ps /\ new <> old /\ ps <> [] /\
  forall p, In p ps ->
    p = onto \/
    (exists o' ps', In o' (parents g old) /\ In (o', (p, ps')) m1) \/
    (In p (parents g old) /\ ~ In p (map fst m)).
Proof.
  intros T H E. destruct (plan_spec _ _ _ _ _ _ _ T H) as [todo [f [R [Hk [Hf S]]]]].
  assert (K : map fst m = todo).
  { rewrite Hk. apply filter_all_true. intros x Hx. destruct (f x) eqn:Ef; [reflexivity|].
    destruct (Hf x Hx Ef) as [C _]. discriminate. }
  destruct (S m1 old new ps m2 E) as [E1 [E2 [E3 E4]]].
  repeat split; [exact E1 | exact E2 | exact E3 |].
  intros p Hp. destruct (E4 p Hp) as [->|[[o' [ps' [L G]]]|[Ho G]]]; [left; reflexivity| |].
  - right; left. exists o', ps'. split; [|exact G].
    apply (linked_no_drop (dropped todo m)); [|exact L].
    intros q [A [B _]]. apply B. rewrite K. exact A.
  - right; right. split; [exact Ho|]. rewrite K. exact G.
Qed.

(* ---- dependencies come first -------------------------------------------------- *)

Lemma rebase_todo_app has (m1 m2 : rmap) :
  rebase_todo has (m1 ++ m2) = rebase_todo has m1 ++ rebase_todo has m2.
Proof. unfold rebase_todo. apply flat_map_app. Qed.

(* rebase_todo lists the entries still to do in plan order, so every new parent
   that is itself a rewritten revision is either done already or listed earlier *)
Theorem todo_deps_first todo_set order start stop onto skip m has m1 old new ps m2 :
  topo_sortedb g order = true ->
  simple_plan g gen todo_set order start stop onto skip = Ok m ->
  m = m1 ++ (old, (new, ps)) :: m2 ->
  rebase_todo has m = rebase_todo has m1 ++ (if has new then [] else [old]) ++ rebase_todo has m2 /\
  forall p, In p ps ->
    p = onto \/ In p (parents g old) \/
    exists o' ps', In (o', (p, ps')) m1 /\ (has p = true \/ In o' (rebase_todo has m1)).
Proof.
  intros T H E. split.
  - rewrite E, rebase_todo_app. unfold rebase_todo at 2. cbn [flat_map fst snd]. reflexivity.
  - destruct (plan_spec _ _ _ _ _ _ _ T H) as [todo [f [_ [_ [_ S]]]]].
    destruct (S m1 old new ps m2 E) as [_ [_ [_ E4]]].
    intros p Hp. destruct (E4 p Hp) as [->|[[o' [ps' [_ G]]]|[Ho _]]]; [left; reflexivity| |right; left; exact Ho].
    right; right. exists o', ps'. split; [exact G|].
    destruct (has p) eqn:Hh; [left; reflexivity|right].
    unfold rebase_todo. apply in_flat_map. exists (o', (p, ps')). split; [exact G|].
    cbn [fst snd]. rewrite Hh. left. reflexivity.
Qed.

(* rebase() replays in graph.iter_topo_order(replace_map.keys()).  Without
   skip_full_merged: in ANY topological order of the old graph the entry a new
   parent refers to comes first *)
Theorem deps_first_any_topo_noskip todo_set order start stop onto m m1 old new ps m2 :
  topo_sortedb g order = true ->
  simple_plan g gen todo_set order start stop onto false = Ok m ->
  m = m1 ++ (old, (new, ps)) :: m2 ->
  forall p, In p ps ->
    p = onto \/ (In p (parents g old) /\ ~ In p (map fst m)) \/
    exists o' ps', In (o', (p, ps')) m1 /\
      forall l i j, topo_sortedb g l = true -> index_of o' l = Some i -> index_of old l = Some j -> i < j.
Proof.
  intros T H E p Hp.
  destruct (plan_parents_noskip _ _ _ _ _ _ _ _ _ _ _ T H E) as [_ [_ [_ E4]]].
  destruct (E4 p Hp) as [->|[[o' [ps' [Ho G]]]|P]]; [left; reflexivity| |right; left; exact P].
  right; right. exists o', ps'. split; [exact G|].
  intros l i j Tl Hi Hj. exact (topo_index g l o' old i j W Tl Ho Hi Hj).
Qed.

(* ---- new ids ------------------------------------------------------------------- *)

Theorem new_ids_distinct todo_set order start stop onto skip m :
  (forall r r' ps ps', gen r ps = gen r' ps' -> r = r') ->
  topo_sortedb g order = true ->
  simple_plan g gen todo_set order start stop onto skip = Ok m ->
  NoDup (map fst m) /\ NoDup (map (fun e => fst (snd e)) m).
Proof.
  intros Inj T H.
  destruct (plan_spec _ _ _ _ _ _ _ T H) as [todo [f [R [Hk [_ S]]]]].
  assert (ND : NoDup (map fst m)).
  { rewrite Hk. apply NoDup_filter. apply (topo_sorted_NoDup g). exact (replayed_topo _ _ _ _ T R). }
  split; [exact ND|].
  assert (Hgen : forall e, In e m -> fst (snd e) = gen (fst e) (snd (snd e))).
  { intros [o [n ps]] He. apply in_split in He as [a [b E]]. destruct (S a o n ps b E) as [E1 _]. exact E1. }
  clear S H Hk. induction m as [|e m IH]; [constructor|].
  cbn [map] in *. inversion ND as [|? ? Hn ND']; subst. constructor.
  - intros Hin. apply in_map_iff in Hin as [e' [He' Hin]].
    apply Hn. apply in_map_iff. exists e'. split; [|exact Hin].
    rewrite (Hgen e (or_introl eq_refl)), (Hgen e' (or_intror Hin)) in He'.
    apply Inj in He'. exact He'.
  - apply IH; [exact ND'|]. intros e' He'. apply Hgen. right. exact He'.
Qed.

End Plan.

(* ---- the repaired plan of the old witness, and what rebase() does with it --------- *)

(*   0 - 1 - 2        rebase 5 onto 2 with skip_full_merged:
      \   \           3 -> 103 on 2;  4 merges 1, which 2 already contains: dropped;
       3 - 4 - 5      5 -> 105 on 103 (before be02b0d: on (2, 4), the OLD merge) *)
Definition g_witness : dag := [[]; [0]; [1]; [0]; [3; 1]; [4]].

Example repaired_witness :
  simple_plan g_witness (gen_canon None) [3; 4; 5] [3; 4; 5] None (Some 5) 2 true
  = Ok [(3, (103, [2])); (5, (105, [103]))].
Proof. reflexivity. Qed.

(* [5; 3] is a topological order of the plan's keys in the old graph (the edge
   from 5 leads to 4, which is not a key), yet 5's new parent 103 is the new id
   of the entry for 3: replaying in that order needs a revision that does not
   exist yet.  graph.iter_topo_order really returns [5; 3] here. *)
Theorem any_topo_refuted :
  exists g todo_set order tip onto m l old new ps p o' ps' i j,
    wf_dag g = true /\ topo_order_of g todo_set order = true /\
    todo_set = find_unique_ancestors g tip [onto] /\
    simple_plan g (gen_canon None) todo_set order None (Some tip) onto true = Ok m /\
    topo_order_of g (map fst m) l = true /\
    In (old, (new, ps)) m /\ In p ps /\ In (o', (p, ps')) m /\
    index_of o' l = Some i /\ index_of old l = Some j /\ j < i.
Proof.
  exists g_witness, [3; 4; 5], [3; 4; 5], 5, 2, [(3, (103, [2])); (5, (105, [103]))], [5; 3],
         5, 105, [103], 103, 3, [2], 1, 0.
  split; [reflexivity|]. split; [reflexivity|]. split; [reflexivity|]. split; [reflexivity|].
  split; [reflexivity|]. split; [right; left; reflexivity|]. split; [left; reflexivity|].
  split; [left; reflexivity|]. split; [reflexivity|]. split; [reflexivity|]. constructor.
Qed.
