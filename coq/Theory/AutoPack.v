(* Theory/AutoPack.v -- proofs about Model/AutoPack.v (the autopack planner).

   The central lemma is [plan_loop_inv]: an induction over the (sorted) pack list,
   generalised over the distribution list and the pack_operations state, carrying

     (I1)  sum(remaining packs) + count of the open operation <= sum(distribution)
     (I2)  #kept packs + #closed operations + len(distribution) never exceeds its
           initial value  (every kept pack and every closed operation deletes a bucket)

   plus bookkeeping (which packs were chosen, operation counts are the sums of their
   packs, and "no operation was closed => the open operation holds all chosen packs").
   Neither invariant needs the list to be sorted. *)
From Coq Require Import NArith List Bool Lia Permutation PeanoNat.
From BV Require Import Model.AutoPack.
Import ListNotations.
Open Scope N_scope.

(* ---------------------------------------------------------------- sums *)

Lemma sumN_cons x l : sumN (x :: l) = x + sumN l.
Proof. reflexivity. Qed.

Lemma sumN_app l1 l2 : sumN (l1 ++ l2) = sumN l1 + sumN l2.
Proof.
  induction l1 as [|x l1 IH]; [reflexivity|].
  rewrite <- app_comm_cons, !sumN_cons, IH. lia.
Qed.

Lemma sumN_rev l : sumN (rev l) = sumN l.
Proof.
  induction l as [|x l IH]; [reflexivity|].
  cbn [rev]. rewrite sumN_app, IH, !sumN_cons. cbn [sumN fold_right]. lia.
Qed.

Lemma sumN_repeat x k : sumN (repeat x k) = N.of_nat k * x.
Proof.
  induction k as [|k IH]; [reflexivity|].
  cbn [repeat]. rewrite sumN_cons, IH, Nat2N.inj_succ. lia.
Qed.

Lemma sumN_perm l1 l2 : Permutation l1 l2 -> sumN l1 = sumN l2.
Proof.
  induction 1 as [|x l l' _ IH|x y l|l l' l'' _ IH1 _ IH2]; rewrite ?sumN_cons; lia.
Qed.

Lemma sumc_nil : sumc [] = 0.
Proof. reflexivity. Qed.

Lemma sumc_cons p l : sumc (p :: l) = fst p + sumc l.
Proof. reflexivity. Qed.

Lemma sumc_app l1 l2 : sumc (l1 ++ l2) = sumc l1 + sumc l2.
Proof. unfold sumc. rewrite map_app. apply sumN_app. Qed.

Lemma sumc_perm l1 l2 : Permutation l1 l2 -> sumc l1 = sumc l2.
Proof. intros H. unfold sumc. apply sumN_perm, Permutation_map, H. Qed.

Lemma positive_perm l1 l2 : Permutation l1 l2 -> positive l1 -> positive l2.
Proof. intros H Hp. unfold positive in *. eapply Permutation_Forall; eassumption. Qed.

Lemma positive_sumc_pos l : positive l -> l <> [] -> 0 < sumc l.
Proof.
  intros Hp Hne. destruct l as [|p l]; [congruence|].
  inversion Hp as [|? ? Hc _]; subst. rewrite sumc_cons. lia.
Qed.

Lemma sumN_zero_nil_or_pos D : 0 < sumN D -> (1 <= length D)%nat.
Proof. destruct D; cbn [sumN fold_right length]; lia. Qed.

(* ---------------------------------------------------------------- decimal digits *)

Lemma digits_rev_fuel_spec : forall f n, n < 2 ^ N.of_nat f ->
  from_digits_rev (digits_rev_fuel f n) = n /\
  Forall (fun d => d < 10) (digits_rev_fuel f n).
Proof.
  induction f as [|f IH]; intros n Hn.
  - change (N.of_nat 0) with 0 in Hn. rewrite N.pow_0_r in Hn.
    assert (n = 0) by lia. subst n. split; [reflexivity|constructor].
  - cbn [digits_rev_fuel]. destruct (n =? 0) eqn:E.
    + apply N.eqb_eq in E. subst n. split; [reflexivity|constructor].
    + apply N.eqb_neq in E.
      assert (Hq : n / 10 < 2 ^ N.of_nat f).
      { apply N.div_lt_upper_bound; [lia|].
        rewrite Nat2N.inj_succ, N.pow_succ_r' in Hn. lia. }
      destruct (IH _ Hq) as [IH1 IH2]. split.
      * cbn [from_digits_rev]. rewrite IH1.
        pose proof (N.div_mod n 10 ltac:(lia)) as Hdm. lia.
      * constructor; [apply N.mod_lt; lia|exact IH2].
Qed.

Lemma digits_rev_spec n :
  from_digits_rev (digits_rev n) = n /\ Forall (fun d => d < 10) (digits_rev n).
Proof.
  unfold digits_rev. apply digits_rev_fuel_spec.
  rewrite N2Nat.id. apply N.size_gt.
Qed.

Lemma digit_sum_digits_rev n : digit_sum n = sumN (digits_rev n).
Proof. unfold digit_sum, digits. apply sumN_rev. Qed.

Lemma sum_dist_build : forall ds e, sumN (dist_build e ds) = 10 ^ e * from_digits_rev ds.
Proof.
  induction ds as [|d ds IH]; intros e; cbn [dist_build from_digits_rev].
  - cbn [sumN fold_right]. lia.
  - rewrite sumN_app, sumN_repeat, N2Nat.id, IH, N.add_1_r, N.pow_succ_r'. ring.
Qed.

Lemma length_dist_build : forall ds e, N.of_nat (length (dist_build e ds)) = sumN ds.
Proof.
  induction ds as [|d ds IH]; intros e; cbn [dist_build]; [reflexivity|].
  rewrite app_length, repeat_length, Nat2N.inj_add, N2Nat.id, IH. reflexivity.
Qed.

Lemma pack_distribution_sum t : sumN (pack_distribution t) = t.
Proof.
  unfold pack_distribution. destruct (t =? 0) eqn:E.
  - apply N.eqb_eq in E. subst t. reflexivity.
  - unfold digits. rewrite sumN_rev, rev_involutive, sum_dist_build, N.pow_0_r, N.mul_1_l.
    apply digits_rev_spec.
Qed.

Lemma pack_distribution_length t :
  N.of_nat (length (pack_distribution t)) = max_pack_count t.
Proof.
  unfold pack_distribution, max_pack_count. destruct (t =? 0) eqn:E; [reflexivity|].
  rewrite rev_length. unfold digits at 1. rewrite rev_involutive, length_dist_build.
  symmetry. apply digit_sum_digits_rev.
Qed.

(* ---------------------------------------------------------------- the sort *)

Lemma insert_desc_perm x l : Permutation (insert_desc x l) (x :: l).
Proof.
  induction l as [|y l IH]; cbn [insert_desc]; [reflexivity|].
  destruct (pack_ltb y x); [reflexivity|].
  etransitivity; [apply perm_skip, IH|apply perm_swap].
Qed.

Lemma sort_desc_perm l : Permutation (sort_desc l) l.
Proof.
  induction l as [|x l IH]; [reflexivity|].
  cbn [sort_desc fold_right]. etransitivity; [apply insert_desc_perm|].
  apply perm_skip, IH.
Qed.

(* ---------------------------------------------------------------- the inner loop *)

Lemma consume_ok : forall D c, c <= sumN D ->
  exists D', consume c D = Some D' /\ sumN D' + c = sumN D /\ (length D' <= length D)%nat.
Proof.
  induction D as [|d D IH]; intros c Hc.
  - cbn [sumN fold_right] in Hc. assert (c = 0) by lia. subst c.
    exists []. cbn. repeat apply conj; [reflexivity|reflexivity|lia].
  - cbn [consume]. destruct (c =? 0) eqn:E0.
    + apply N.eqb_eq in E0. subst c. exists (d :: D). repeat apply conj; [reflexivity|lia|lia].
    + apply N.eqb_neq in E0. rewrite sumN_cons in Hc.
      destruct (d <=? c) eqn:Edc.
      * apply N.leb_le in Edc.
        destruct (IH (c - d)) as (D' & H1 & H2 & H3); [lia|].
        exists D'. repeat apply conj; [exact H1|rewrite sumN_cons; lia|cbn [length]; lia].
      * apply N.leb_gt in Edc.
        exists ((d - c) :: D). repeat apply conj; [reflexivity|rewrite !sumN_cons; lia|cbn [length]; lia].
Qed.

(* a kept pack (0 < c, head bucket <= c) deletes at least the head bucket *)
Lemma consume_keep c d D0 :
  0 < c -> d <= c -> c <= d + sumN D0 ->
  exists D1, consume c (d :: D0) = Some D1 /\ sumN D1 + c = d + sumN D0 /\
             (length D1 <= length D0)%nat.
Proof.
  intros Hc Hdc Hs. cbn [consume].
  destruct (c =? 0) eqn:E0; [apply N.eqb_eq in E0; lia|].
  destruct (d <=? c) eqn:Edc; [|apply N.leb_gt in Edc; lia].
  destruct (consume_ok D0 (c - d)) as (D1 & H1 & H2 & H3); [lia|].
  exists D1. repeat apply conj; [exact H1|lia|exact H3].
Qed.

(* ---------------------------------------------------------------- the outer loop *)

Definition op_ok (o : op) : Prop := fst o = sumc (snd o).
Definition flat (closed : list op) (cur : op) : list pack :=
  concat (map snd closed) ++ snd cur.

Lemma flat_close closed cur (np : pack) :
  flat (closed ++ [(fst cur + fst np, snd cur ++ [np])]) (0, []) = flat closed cur ++ [np].
Proof.
  unfold flat. cbn [snd]. rewrite map_app, concat_app. cbn [map concat snd].
  rewrite !app_nil_r, <- app_assoc. reflexivity.
Qed.

Lemma flat_extend closed cur (np : pack) :
  flat closed (fst cur + fst np, snd cur ++ [np]) = flat closed cur ++ [np].
Proof. unfold flat. cbn [snd]. rewrite app_assoc. reflexivity. Qed.

Lemma op_ok_extend cur (np : pack) : op_ok cur -> op_ok (fst cur + fst np, snd cur ++ [np]).
Proof.
  unfold op_ok. cbn [fst snd]. intros H. rewrite sumc_app, sumc_cons, H.
  unfold sumc. cbn [map sumN fold_right]. lia.
Qed.

Lemma ops_count_sum : forall ops, Forall op_ok ops ->
  sumN (map fst ops) = sumc (concat (map snd ops)).
Proof.
  induction ops as [|o ops IH]; intros H; [reflexivity|].
  inversion H as [|? ? Ho Hops]; subst.
  cbn [map concat]. rewrite sumN_cons, sumc_app, IH by exact Hops. rewrite Ho. reflexivity.
Qed.

Lemma plan_loop_inv : forall R D closed cur,
  positive R -> sumc R + fst cur <= sumN D ->
  exists closed' cur' D' comb kept,
    plan_loop R D closed cur = (Some (closed', cur'), D') /\
    Permutation R (comb ++ kept) /\
    flat closed' cur' = flat closed cur ++ comb /\
    (Forall op_ok closed -> op_ok cur -> Forall op_ok closed' /\ op_ok cur') /\
    fst cur' <= sumN D' /\
    (length kept + length closed' + length D' <= length closed + length D)%nat /\
    (length closed <= length closed')%nat /\
    ((length closed < length closed')%nat \/ fst cur' = fst cur + sumc comb).
Proof.
  induction R as [|[c p] R IH]; intros D closed cur Hpos Hsum.
  - exists closed, cur, D, [], []. cbn [plan_loop].
    rewrite sumc_nil in Hsum.
    repeat apply conj.
    + reflexivity.
    + reflexivity.
    + rewrite app_nil_r. reflexivity.
    + lia.
    + cbn [length]. lia.
    + lia.
    + right. rewrite sumc_nil. lia.
  - inversion Hpos as [|? ? Hc HposR]; subst. cbn [fst] in Hc.
    rewrite sumc_cons in Hsum. cbn [fst] in Hsum.
    destruct D as [|d D0]; [cbn [sumN fold_right] in Hsum; lia|].
    rewrite sumN_cons in Hsum.
    cbn [plan_loop fst].
    destruct (d <=? c) eqn:Hdc.
    + (* the pack is kept: buckets are consumed *)
      apply N.leb_le in Hdc.
      destruct (consume_keep c d D0) as (D1 & Hcons & HsumD1 & HlenD1); [lia|lia|lia|].
      rewrite Hcons.
      destruct (IH D1 closed cur HposR)
        as (closed' & cur' & D' & comb & kept & Hrun & Hperm & Hflat & Hok & Hk & Hlen & Hmono & Hdisj);
        [lia|].
      exists closed', cur', D', comb, ((c, p) :: kept).
      repeat apply conj.
      * exact Hrun.
      * apply Permutation_cons_app, Hperm.
      * exact Hflat.
      * exact Hok.
      * exact Hk.
      * cbn [length] in *. lia.
      * exact Hmono.
      * exact Hdisj.
    + apply N.leb_gt in Hdc.
      destruct (d <=? fst cur + c) eqn:Hclose.
      * (* the pack joins the open operation, which is then closed: one bucket deleted *)
        apply N.leb_le in Hclose.
        destruct (IH D0 (closed ++ [(fst cur + fst (c, p), snd cur ++ [(c, p)])]) (0, []) HposR)
          as (closed' & cur' & D' & comb & kept & Hrun & Hperm & Hflat & Hok & Hk & Hlen & Hmono & Hdisj);
          [cbn [fst]; lia|].
        exists closed', cur', D', ((c, p) :: comb), kept.
        rewrite app_length in Hlen, Hmono, Hdisj. cbn [length] in Hlen, Hmono, Hdisj.
        repeat apply conj.
        -- exact Hrun.
        -- cbn [app]. apply perm_skip, Hperm.
        -- rewrite Hflat, flat_close, <- app_assoc. reflexivity.
        -- intros H1 H2. apply Hok.
           ++ apply Forall_app. split; [exact H1|]. constructor; [|constructor].
              apply op_ok_extend, H2.
           ++ reflexivity.
        -- exact Hk.
        -- cbn [length]. lia.
        -- lia.
        -- left. destruct Hdisj as [Hd|Hd]; lia.
      * (* the pack joins the open operation, which stays open *)
        apply N.leb_gt in Hclose.
        destruct (IH (d :: D0) closed (fst cur + fst (c, p), snd cur ++ [(c, p)]) HposR)
          as (closed' & cur' & D' & comb & kept & Hrun & Hperm & Hflat & Hok & Hk & Hlen & Hmono & Hdisj);
          [cbn [fst]; rewrite sumN_cons; lia|].
        exists closed', cur', D', ((c, p) :: comb), kept.
        repeat apply conj.
        -- exact Hrun.
        -- cbn [app]. apply perm_skip, Hperm.
        -- rewrite Hflat, flat_extend, <- app_assoc. reflexivity.
        -- intros H1 H2. apply Hok; [exact H1|apply op_ok_extend, H2].
        -- exact Hk.
        -- exact Hlen.
        -- exact Hmono.
        -- destruct Hdisj as [Hd|Hd]; [left; exact Hd|right].
           rewrite Hd, sumc_cons. cbn [fst]. lia.
Qed.

(* ---------------------------------------------------------------- the planner *)

(* what a well-formed answer for [packs] under a bound of [bound] packs is *)
Definition wellformed (packs : list pack) (bound : nat) (o : outcome) : Prop :=
  match o with
  | Nothing => (length packs <= bound)%nat
  | Combine n l =>
      (2 <= length l)%nat /\ n = sumc l /\
      exists kept, Permutation packs (l ++ kept) /\ (length kept + 1 <= bound)%nat
  | Fail _ => False
  end.

Lemma plan_noop packs dist :
  (length packs <= length dist)%nat -> plan_mut packs dist = (Nothing, dist).
Proof.
  intros H. unfold plan_mut. apply Nat.leb_le in H. rewrite H. reflexivity.
Qed.

(* the main theorem, for an arbitrary distribution list holding at least the packs' revisions *)
Theorem plan_wellformed_any_dist packs dist :
  positive packs -> sumc packs <= sumN dist ->
  wellformed packs (length dist) (plan packs dist).
Proof.
  intros Hpos Hsum. unfold plan, plan_mut.
  destruct (Nat.leb (length packs) (length dist)) eqn:Hlen.
  - apply Nat.leb_le in Hlen. exact Hlen.
  - apply Nat.leb_gt in Hlen.
    pose proof (sort_desc_perm packs) as Hsort.
    assert (HposS : positive (sort_desc packs))
      by (eapply positive_perm; [apply Permutation_sym, Hsort|exact Hpos]).
    destruct (plan_loop_inv (sort_desc packs) dist [] (0, []) HposS)
      as (closed' & cur' & D' & comb & kept & Hrun & Hperm & Hflat & Hok & Hk & Hl & _ & Hdisj).
    { rewrite (sumc_perm _ _ Hsort). cbn [fst]. lia. }
    rewrite Hrun. cbn [fst snd].
    (* the chosen packs are exactly comb *)
    assert (Hl_eq : concat (map snd (closed' ++ [cur'])) = comb).
    { rewrite map_app, concat_app. cbn [map concat]. rewrite app_nil_r.
      change (flat closed' cur' = comb). rewrite Hflat. reflexivity. }
    assert (Hoks : Forall op_ok (closed' ++ [cur'])).
    { destruct Hok as [Ha Hb]; [constructor|reflexivity|].
      apply Forall_app. split; [exact Ha|]. constructor; [exact Hb|constructor]. }
    rewrite (ops_count_sum _ Hoks), Hl_eq.
    pose proof (Permutation_trans (Permutation_sym Hsort) Hperm) as Hperm'.
    pose proof (Permutation_length Hperm') as Hplen. rewrite app_length in Hplen.
    assert (Hposc : positive comb).
    { pose proof (positive_perm _ _ Hperm' Hpos) as H. unfold positive in H.
      apply Forall_app in H. apply H. }
    cbn [length] in Hl. cbn [fst sumc map sumN fold_right] in Hdisj.
    (* when some pack was chosen, a closed operation or a non-empty distribution remains *)
    assert (Hroom : comb <> [] -> (1 <= length closed' + length D')%nat).
    { intros Hne. destruct Hdisj as [Hd|Hd]; [lia|].
      pose proof (positive_sumc_pos _ Hposc Hne) as Hp.
      assert (Hs : 0 < sumN D') by lia.
      apply sumN_zero_nil_or_pos in Hs. lia. }
    destruct comb as [|x [|y comb]].
    + (* nothing chosen: every pack kept a bucket, impossible with more packs than buckets *)
      cbn [length] in Hplen. lia.
    + (* a single pack chosen *)
      cbn [length] in Hplen. specialize (Hroom ltac:(discriminate)). lia.
    + cbn [length Nat.eqb]. repeat apply conj.
      * cbn [length]. lia.
      * reflexivity.
      * exists kept. split; [exact Hperm'|].
        specialize (Hroom ltac:(discriminate)). lia.
Qed.

Lemma plan_not_nothing_over_bound packs dist :
  (length dist < length packs)%nat -> plan packs dist <> Nothing.
Proof.
  intros H. unfold plan, plan_mut. apply Nat.leb_gt in H. rewrite H.
  destruct (plan_loop (sort_desc packs) dist [] (0, [])) as [[[closed cur]|] D]; cbn [fst].
  - destruct (Nat.eqb _ 1); discriminate.
  - discriminate.
Qed.

(* ---------------------------------------------------------------- with the real distribution *)

Definition bound_of (total : N) : nat := N.to_nat (max_pack_count total).

Lemma length_pack_distribution total : length (pack_distribution total) = bound_of total.
Proof. unfold bound_of. rewrite <- pack_distribution_length, Nat2N.id. reflexivity. Qed.

Theorem plan_wellformed packs total :
  positive packs -> sumc packs <= total ->
  wellformed packs (bound_of total) (plan packs (pack_distribution total)).
Proof.
  intros Hpos Hsum. rewrite <- length_pack_distribution.
  apply plan_wellformed_any_dist; [exact Hpos|]. rewrite pack_distribution_sum. exact Hsum.
Qed.

Theorem plan_noop_within_bound packs total :
  (length packs <= bound_of total)%nat -> plan packs (pack_distribution total) = Nothing.
Proof.
  intros H. unfold plan. rewrite plan_noop; [reflexivity|].
  rewrite length_pack_distribution. exact H.
Qed.

Theorem plan_acts_over_bound packs total :
  positive packs -> sumc packs <= total -> (bound_of total < length packs)%nat ->
  exists n l, plan packs (pack_distribution total) = Combine n l.
Proof.
  intros Hpos Hsum Hlen.
  pose proof (plan_wellformed packs total Hpos Hsum) as Hw.
  pose proof (plan_not_nothing_over_bound packs (pack_distribution total)) as Hn.
  rewrite length_pack_distribution in Hn. specialize (Hn Hlen).
  destruct (plan packs (pack_distribution total)) as [|n l|e].
  - congruence.
  - exists n, l. reflexivity.
  - destruct Hw.
Qed.

(* ---------------------------------------------------------------- _do_autopack *)

Lemma filter_positive all_packs :
  positive all_packs -> filter (fun p => negb (fst p =? 0)) all_packs = all_packs.
Proof.
  induction 1 as [|p l Hp _ IH]; [reflexivity|].
  cbn [filter]. destruct (fst p =? 0) eqn:E; [apply N.eqb_eq in E; lia|].
  cbn [negb]. rewrite IH. reflexivity.
Qed.

Theorem do_autopack_wellformed all_packs :
  positive all_packs ->
  wellformed all_packs (bound_of (key_count all_packs)) (do_autopack all_packs).
Proof.
  intros Hpos. unfold do_autopack, do_autopack_with.
  destruct (N.of_nat (length all_packs) <=? max_pack_count (key_count all_packs)) eqn:E.
  - apply N.leb_le in E. cbn [wellformed]. unfold bound_of. lia.
  - rewrite (filter_positive _ Hpos). apply plan_wellformed; [exact Hpos|].
    unfold key_count. lia.
Qed.

(* the statement for ALL totals is false: total < sum of the counts *)
Lemma dup_total_refuted :
  exists packs total, positive packs /\ total < sumc packs /\
                      plan packs (pack_distribution total) = Fail IndexError.
Proof.
  exists [(1, 0); (1, 1)], 1. repeat apply conj.
  - repeat constructor.
  - reflexivity.
  - vm_compute. reflexivity.
Qed.

(* the hypotheses of the main theorems are satisfiable by non-trivial values *)
Example plan_example :
  let packs := [(1, 7); (10, 0); (1, 1); (1, 2); (1, 3); (1, 4); (1, 5); (1, 6); (1, 8); (1, 9); (1, 10)] in
  positive packs /\ sumc packs <= 20 /\ (bound_of 20 < length packs)%nat /\
  plan packs (pack_distribution 20) =
    Combine 10 [(1, 10); (1, 9); (1, 8); (1, 7); (1, 6); (1, 5); (1, 4); (1, 3); (1, 2); (1, 1)].
Proof.
  cbv zeta. repeat apply conj.
  - repeat constructor.
  - vm_compute. discriminate.
  - vm_compute. lia.
  - vm_compute. reflexivity.
Qed.
