(* Theory/ShelfIds.v -- proofs about Model/ShelfIds.v (C15, shelf id allocation). *)
From Coq Require Import NArith List Bool Lia.
From BV Require Import Lib.Bytes Lib.Obs Lib.DecBytes Model.ShelfIds.
Import ListNotations.
Open Scope N_scope.

(* ---------------------------------------------------------------- file names <-> ids *)
Lemma strip_prefix_app p s : strip_prefix p (p ++ s) = Some s.
Proof.
  induction p as [|a p IH]; cbn [app strip_prefix]; [destruct s; reflexivity|].
  rewrite N.eqb_refl. exact IH.
Qed.

Lemma take_digits_all s : forallb is_dec_char s = true -> take_digits s = s.
Proof.
  induction s as [|c s IH]; cbn [forallb take_digits]; [reflexivity|].
  intros H. apply andb_prop in H as [H1 H2]. rewrite H1, IH by exact H2. reflexivity.
Qed.

Lemma print_dec_inj n m : print_dec n = print_dec m -> n = m.
Proof.
  intros E. pose proof (parse_print_dec n) as P. rewrite E, parse_print_dec in P. congruence.
Qed.

Lemma shelf_name_inj n m : shelf_name n = shelf_name m -> n = m.
Proof. unfold shelf_name. intros E. apply app_inv_head in E. exact (print_dec_inj _ _ E). Qed.

(* the regular expression reads back exactly the number "%d" printed, for every id >= 1 *)
Lemma match_shelf_name n : 1 <= n -> match_shelf (shelf_name n) = Some n.
Proof.
  intros Hn. unfold match_shelf, shelf_name. rewrite strip_prefix_app.
  pose proof (print_dec_chars n) as Hc. pose proof (parse_print_dec n) as Hp.
  pose proof (print_dec_no_leading_zero n) as Hz.
  destruct (print_dec n) as [|c t] eqn:E; [discriminate Hp|].
  cbn [forallb] in Hc. apply andb_prop in Hc as [Hc1 Hc2].
  assert (Hne : c <> 48).
  { intros ->. destruct t as [|c' t'].
    - vm_compute in Hp. injection Hp as Hp. lia.
    - exact (Hz c' t' eq_refl). }
  unfold is_dec_char in Hc1. apply andb_prop in Hc1 as [L1 L2].
  apply N.leb_le in L1, L2.
  assert (G : (49 <=? c) && (c <=? 57) = true).
  { apply andb_true_intro; split; apply N.leb_le; lia. }
  rewrite G, Hc2. cbn [andb]. exact Hp.
Qed.

(* only whole names count (fullmatch): a name that is accepted is "shelf-" followed by a digit
   string without leading zero whose value is the id *)
Lemma match_shelf_exact fn n : match_shelf fn = Some n ->
  exists c d, fn = PREFIX ++ c :: d /\ 49 <= c <= 57 /\ forallb is_dec_char d = true
              /\ parse_dec (c :: d) = Some n.
Proof.
  unfold match_shelf. intros H.
  assert (SP : forall p s r, strip_prefix p s = Some r -> s = p ++ r).
  { induction p as [|a p IH]; intros s r E; cbn [strip_prefix] in E.
    - destruct s; injection E as <-; reflexivity.
    - destruct s as [|b s]; [discriminate|]. destruct (a =? b) eqn:X; [|discriminate].
      apply N.eqb_eq in X. subst. cbn [app]. f_equal. apply IH. exact E. }
  destruct (strip_prefix PREFIX fn) as [[|c r]|] eqn:E; try discriminate.
  destruct ((49 <=? c) && (c <=? 57) && forallb is_dec_char r) eqn:G; [|discriminate].
  apply andb_prop in G as [G1 G2]. apply andb_prop in G1 as [L1 L2]. apply N.leb_le in L1, L2.
  exists c, r. split; [exact (SP _ _ _ E)|]. split; [lia|]. split; [exact G2|exact H].
Qed.

(* the old, start-anchored pattern accepted stray names *)
Example match_shelf_old_stray :
  match_shelf_old (PREFIX ++ [49; 120]) = Some 1 /\ match_shelf (PREFIX ++ [49; 120]) = None.
Proof. vm_compute. split; reflexivity. Qed.

Lemma get_shelf_ids_app a b : get_shelf_ids (a ++ b) = get_shelf_ids a ++ get_shelf_ids b.
Proof. unfold get_shelf_ids. apply flat_map_app. Qed.

Theorem get_shelf_ids_names ids :
  Forall (fun n => 1 <= n) ids -> get_shelf_ids (map shelf_name ids) = ids.
Proof.
  induction 1 as [|n ids Hn _ IH]; [reflexivity|].
  cbn [map]. change (get_shelf_ids (shelf_name n :: map shelf_name ids))
    with ((match match_shelf (shelf_name n) with Some k => [k] | None => [] end)
          ++ get_shelf_ids (map shelf_name ids)).
  rewrite (match_shelf_name n Hn), IH. reflexivity.
Qed.

(* ---------------------------------------------------------------- maximum *)
Lemma list_max_ge ids m : In m ids -> m <= list_max ids.
Proof.
  induction ids as [|x ids IH]; [intros []|].
  intros [->|H]; cbn [list_max fold_right]; [lia|]. specialize (IH H). unfold list_max in IH. lia.
Qed.

Lemma list_max_in ids : ids <> [] -> In (list_max ids) ids.
Proof.
  induction ids as [|x ids IH]; [congruence|]. intros _.
  cbn [list_max fold_right]. destruct ids as [|y r].
  - left. cbn. lia.
  - destruct (N.max_spec x (fold_right N.max 0 (y :: r))) as [[_ E]|[_ E]]; rewrite E.
    + right. apply IH. discriminate.
    + left. reflexivity.
Qed.

Lemma next_of_spec ids : next_of ids = list_max ids + 1.
Proof. unfold next_of, last_of. destruct ids; reflexivity. Qed.

Lemma next_of_gt ids m : In m ids -> m < next_of ids.
Proof. intros H. rewrite next_of_spec. pose proof (list_max_ge ids m H). lia. Qed.

Lemma next_of_fresh ids : ~ In (next_of ids) ids.
Proof. intros H. apply next_of_gt in H. lia. Qed.

Lemma next_of_pos ids : 1 <= next_of ids.
Proof. rewrite next_of_spec. lia. Qed.

(* ---------------------------------------------------------------- the abstract machine *)
Lemma existsb_eqb_in n ids : existsb (N.eqb n) ids = true <-> In n ids.
Proof.
  rewrite existsb_exists. split.
  - intros [x [H E]]. apply N.eqb_eq in E. subst. exact H.
  - intros H. exists n. split; [exact H|apply N.eqb_refl].
Qed.

Lemma filter_neq_in n m ids : In m (filter (fun k => negb (n =? k)) ids) <-> In m ids /\ m <> n.
Proof.
  rewrite filter_In. split; intros [H1 H2]; split; auto.
  - apply negb_true_iff, N.eqb_neq in H2. congruence.
  - apply negb_true_iff, N.eqb_neq. congruence.
Qed.

Lemma NoDup_snoc (l : list N) x : NoDup l -> ~ In x l -> NoDup (l ++ [x]).
Proof.
  induction 1 as [|y l Hy ND IH]; intros Hx; cbn [app].
  - constructor; [intros []|constructor].
  - constructor.
    + intros H. apply in_app_or in H as [H|[<-|[]]]; [contradiction|]. apply Hx. left. reflexivity.
    + apply IH. intros H. apply Hx. right. exact H.
Qed.

Definition good (ids : list N) : Prop := NoDup ids /\ Forall (fun n => 1 <= n) ids.

Lemma astep_good ids o ids' r : good ids -> astep ids o = (ids', r) -> good ids'.
Proof.
  intros [ND P] E. destruct o as [|n|n]; cbn [astep] in E.
  - injection E as <- _. split.
    + apply NoDup_snoc; [exact ND|apply next_of_fresh].
    + apply Forall_app. split; [exact P|]. constructor; [apply next_of_pos|constructor].
  - destruct (existsb (N.eqb n) ids); injection E as <- _; [|split; assumption].
    split; [apply NoDup_filter; exact ND|].
    apply Forall_forall. intros x Hx. apply filter_In in Hx as [Hx _].
    rewrite Forall_forall in P. exact (P x Hx).
  - destruct (existsb (N.eqb n) ids); injection E as <- _; split; assumption.
Qed.

Lemma arun_good ops : forall ids ids' rs, good ids -> arun ids ops = (ids', rs) -> good ids'.
Proof.
  induction ops as [|o ops IH]; intros ids ids' rs G E; cbn [arun] in E.
  - injection E as <- _. exact G.
  - destruct (astep ids o) as [d1 x] eqn:S1. destruct (arun d1 ops) as [d2 xs] eqn:R1.
    injection E as <- _. eapply IH; [|exact R1]. eapply astep_good; eauto.
Qed.

Lemma arun_app ops1 : forall ops2 ids,
  arun ids (ops1 ++ ops2) =
  let '(d1, r1) := arun ids ops1 in let '(d2, r2) := arun d1 ops2 in (d2, r1 ++ r2).
Proof.
  induction ops1 as [|o ops1 IH]; intros ops2 ids; cbn [app arun].
  - destruct (arun ids ops2); reflexivity.
  - destruct (astep ids o) as [d x]. rewrite IH.
    destruct (arun d ops1) as [d1 r1]. destruct (arun d1 ops2) as [d2 r2]. reflexivity.
Qed.

(* an allocation at any point of any run returns 1 + the maximum of the ids live at that point
   (1 when there are none): strictly above every live id, hence different from all of them *)
Theorem alloc_above_live ops1 ops2 ids mid rs1 :
  arun ids ops1 = (mid, rs1) ->
  exists fin rs2,
    arun ids (ops1 ++ ONew :: ops2) = (fin, rs1 ++ RNew (list_max mid + 1) :: rs2)
    /\ (forall m, In m mid -> m < list_max mid + 1)
    /\ (mid = [] -> list_max mid + 1 = 1).
Proof.
  intros E. rewrite arun_app, E. cbn [arun astep].
  destruct (arun (mid ++ [next_of mid]) ops2) as [fin rs2] eqn:R.
  exists fin, rs2. rewrite <- next_of_spec. split; [reflexivity|]. split.
  - intros m Hm. exact (next_of_gt mid m Hm).
  - intros ->. reflexivity.
Qed.

(* deleting removes exactly that id and renumbers nothing (the others keep their numbers and order) *)
Theorem delete_exact ids n ids' r :
  astep ids (ODelete n) = (ids', r) ->
  (In n ids -> r = ROk /\ ids' = filter (fun m => negb (n =? m)) ids
               /\ forall m, In m ids' <-> In m ids /\ m <> n)
  /\ (~ In n ids -> r = RNoSuchFile /\ ids' = ids).
Proof.
  cbn [astep]. intros E. split; intros H.
  - apply existsb_eqb_in in H. rewrite H in E. injection E as <- <-.
    split; [reflexivity|]. split; [reflexivity|]. intros m. apply filter_neq_in.
  - destruct (existsb (N.eqb n) ids) eqn:X; [apply existsb_eqb_in in X; contradiction|].
    injection E as <- <-. auto.
Qed.

(* a shelf survives every operation sequence that does not delete it *)
Theorem survives ops : forall ids m, In m ids -> ~ In (ODelete m) ops -> In m (fst (arun ids ops)).
Proof.
  induction ops as [|o ops IH]; intros ids m Hm Hn; cbn [arun]; [exact Hm|].
  destruct (astep ids o) as [d1 x] eqn:S1. destruct (arun d1 ops) as [d2 xs] eqn:R1.
  cbn [fst]. change d2 with (fst (d2, xs)). rewrite <- R1. apply IH.
  - destruct o as [|n|n]; cbn [astep] in S1.
    + injection S1 as <- _. apply in_or_app. left. exact Hm.
    + destruct (existsb (N.eqb n) ids); injection S1 as <- _; [|exact Hm].
      apply filter_neq_in. split; [exact Hm|]. intros ->. apply Hn. left. reflexivity.
    + destruct (existsb (N.eqb n) ids); injection S1 as <- _; exact Hm.
  - intros H. apply Hn. right. exact H.
Qed.

(* ---------------------------------------------------------------- refinement: directory listing -> id list *)
Definition canon (dir : list bytes) (ids : list N) : Prop :=
  dir = map shelf_name ids /\ good ids.

Lemma name_eqb_eq a b : name_eqb a b = true <-> a = b.
Proof.
  unfold name_eqb. revert b. induction a as [|x a IH]; intros [|y b]; cbn [list_eqb]; split; intros H;
    try reflexivity; try discriminate.
  - apply andb_prop in H as [H1 H2]. apply N.eqb_eq in H1. apply IH in H2. congruence.
  - injection H as -> ->. rewrite N.eqb_refl. apply IH. reflexivity.
Qed.

Lemma has_name_names ids n : has_name (map shelf_name ids) (shelf_name n) = existsb (N.eqb n) ids.
Proof.
  unfold has_name. induction ids as [|m ids IH]; [reflexivity|].
  cbn [map existsb]. rewrite IH. f_equal.
  destruct (n =? m) eqn:E.
  - apply N.eqb_eq in E. subst. apply name_eqb_eq. reflexivity.
  - apply N.eqb_neq in E. destruct (name_eqb (shelf_name n) (shelf_name m)) eqn:X; [|reflexivity].
    apply name_eqb_eq, shelf_name_inj in X. contradiction.
Qed.

Lemma del_name_names ids n :
  del_name (map shelf_name ids) (shelf_name n) = map shelf_name (filter (fun m => negb (n =? m)) ids).
Proof.
  unfold del_name. induction ids as [|m ids IH]; [reflexivity|].
  cbn [map filter]. rewrite IH.
  assert (E : name_eqb (shelf_name n) (shelf_name m) = (n =? m)).
  { destruct (n =? m) eqn:E.
    - apply N.eqb_eq in E. subst. apply name_eqb_eq. reflexivity.
    - apply N.eqb_neq in E. destruct (name_eqb (shelf_name n) (shelf_name m)) eqn:X; [|reflexivity].
      apply name_eqb_eq, shelf_name_inj in X. contradiction. }
  rewrite E. destruct (n =? m); reflexivity.
Qed.

Lemma step_refines dir ids o :
  canon dir ids ->
  exists ids', step dir o = (map shelf_name ids', snd (astep ids o)) /\ astep ids o = (ids', snd (astep ids o)).
Proof.
  intros [-> [ND P]]. destruct o as [|n|n]; cbn [step astep snd].
  - unfold next_shelf. rewrite (get_shelf_ids_names ids P), has_name_names.
    destruct (existsb (N.eqb (next_of ids)) ids) eqn:X.
    + apply existsb_eqb_in in X. exfalso. exact (next_of_fresh ids X).
    + exists (ids ++ [next_of ids]). rewrite map_app. split; reflexivity.
  - rewrite has_name_names. destruct (existsb (N.eqb n) ids).
    + eexists. rewrite del_name_names. split; reflexivity.
    + exists ids. split; reflexivity.
  - rewrite has_name_names. destruct (existsb (N.eqb n) ids); exists ids; split; reflexivity.
Qed.

(* the file-level machine run on a directory that holds exactly the shelves [ids] behaves as the
   abstract machine: same results, and the directory keeps holding exactly the abstract ids *)
Theorem run_refines ops : forall dir ids, canon dir ids ->
  run dir ops = (map shelf_name (fst (arun ids ops)), snd (arun ids ops))
  /\ get_shelf_ids (fst (run dir ops)) = fst (arun ids ops).
Proof.
  induction ops as [|o ops IH]; intros dir ids C.
  - cbn [run arun fst snd]. destruct C as [-> [ND P]]. split; [reflexivity|]. apply get_shelf_ids_names, P.
  - destruct (step_refines dir ids o C) as (ids' & S1 & A1).
    cbn [run arun]. rewrite S1, A1.
    assert (C' : canon (map shelf_name ids') ids').
    { split; [reflexivity|]. destruct C as [_ G]. eapply astep_good; eauto. }
    destruct (IH _ _ C') as [R1 R2]. rewrite R1 in *. cbn [fst snd] in *.
    destruct (arun ids' ops) as [d2 xs]. cbn [fst snd] in *. split; [reflexivity|exact R2].
Qed.
