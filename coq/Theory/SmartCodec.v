(* Theory/SmartCodec.v -- v1/v2 argument tuples, readv offsets, and the
   ConventionalResponseHandler part sequencing (C29). *)
From Coq Require Import String ZArith NArith Bool List Lia.
From BV Require Import Lib.Bytes Model.Smart Theory.SmartNum.
Import ListNotations.
Open Scope N_scope.

(* ----------------------------------------------------- split / join *)

Lemma split1_aux_end sep a : memb sep a = false -> forall cur, split1_aux sep cur a = [rev cur ++ a].
Proof.
  unfold memb. induction a as [|c a IH]; intros H cur; cbn [split1_aux existsb] in *.
  - rewrite app_nil_r. reflexivity.
  - apply orb_false_elim in H. destruct H as [H1 H2]. rewrite N.eqb_sym, H1.
    rewrite (IH H2). cbn [rev]. rewrite <- app_assoc. reflexivity.
Qed.

Lemma split1_aux_sep sep a rest : memb sep a = false ->
  forall cur, split1_aux sep cur (a ++ sep :: rest) = (rev cur ++ a) :: split1_aux sep [] rest.
Proof.
  unfold memb. induction a as [|c a IH]; intros H cur; cbn [split1_aux existsb app] in *.
  - rewrite N.eqb_refl, app_nil_r. reflexivity.
  - apply orb_false_elim in H. destruct H as [H1 H2]. rewrite N.eqb_sym, H1.
    rewrite (IH H2). cbn [rev]. rewrite <- app_assoc. reflexivity.
Qed.

Lemma split1_join sep parts : parts <> [] -> forallb (fun a => negb (memb sep a)) parts = true ->
  split1 sep (join [sep] parts) = parts.
Proof.
  unfold split1. induction parts as [|a parts IH]; intros Hne H; [congruence|].
  cbn [forallb] in H. apply andb_prop in H. destruct H as [Ha Hps]. apply negb_true_iff in Ha.
  destruct parts as [|b parts].
  - cbn [join]. rewrite (split1_aux_end _ _ Ha). reflexivity.
  - change (join [sep] (a :: b :: parts)) with (a ++ [sep] ++ join [sep] (b :: parts)). cbn [app].
    rewrite (split1_aux_sep _ _ _ Ha). cbn [rev app]. f_equal. apply IH; [discriminate|exact Hps].
Qed.

Lemma memb_app b (x y : bytes) : memb b (x ++ y) = memb b x || memb b y.
Proof. unfold memb. apply existsb_app. Qed.

Lemma memb_join b sep parts : b <> sep -> forallb (fun a => negb (memb b a)) parts = true ->
  memb b (join [sep] parts) = false.
Proof.
  intros Hb. induction parts as [|a parts IH]; intros H; [reflexivity|].
  cbn [forallb] in H. apply andb_prop in H. destruct H as [Ha Hps]. apply negb_true_iff in Ha.
  destruct parts as [|c parts]; [exact Ha|].
  change (join [sep] (a :: c :: parts)) with (a ++ [sep] ++ join [sep] (c :: parts)).
  rewrite !memb_app, Ha, (IH Hps). cbn [orb memb existsb]. rewrite !orb_false_r. apply N.eqb_neq. exact Hb.
Qed.

(* ------------------------------------------------------------ tuples *)

Lemma no_sep_split args : no_sep args = true ->
  args <> [] /\ forallb (fun a => negb (memb SEP a)) args = true /\
  forallb (fun a => negb (memb NL a)) args = true.
Proof.
  unfold no_sep. destruct args as [|a args]; [discriminate|]. intros H.
  split; [discriminate|]. revert H. generalize (a :: args). clear.
  induction l as [|x l IH]; intros H; [split; reflexivity|].
  cbn [forallb] in *. apply andb_prop in H. destruct H as [Hx Hl]. unfold no_sep_arg in Hx.
  apply andb_prop in Hx. destruct Hx as [H1 H2]. destruct (IH Hl) as [I1 I2].
  rewrite H1, H2, I1, I2. split; reflexivity.
Qed.

Theorem decode_encode_tuple args : no_sep args = true -> decode_tuple (encode_tuple args) = DtOk args.
Proof.
  intros H. destruct (no_sep_split args H) as [Hne [Hs _]].
  unfold encode_tuple, decode_tuple.
  destruct (join [SEP] args ++ [NL]) eqn:E; [apply app_eq_nil in E; destruct E; discriminate|].
  rewrite <- E, last_last, N.eqb_refl, removelast_last, (split1_join SEP args Hne Hs). reflexivity.
Qed.

(* a whole line taken off a stream: args and the following bytes *)
Theorem recv_encode_tuple args tail : no_sep args = true ->
  recv_tuple (encode_tuple args ++ tail) = Some (DtOk args, tail).
Proof.
  intros H. destruct (no_sep_split args H) as [Hne [Hs Hn]].
  unfold recv_tuple, find_nl. unfold encode_tuple at 1. rewrite <- app_assoc. cbn [app].
  rewrite (find_byte_first NL _ tail (memb_join NL SEP args ltac:(discriminate) Hn)).
  change (join [SEP] args ++ [NL]) with (encode_tuple args). rewrite (decode_encode_tuple args H). reflexivity.
Qed.

Theorem tuple_roundtrip_refuted :
  (exists args, args <> [] /\ decode_tuple (encode_tuple args) <> DtOk args) /\
  decode_tuple (encode_tuple []) <> DtOk [] /\
  (exists args tail, forallb (fun a => negb (memb SEP a)) args = true /\
                     recv_tuple (encode_tuple args ++ tail) <> Some (DtOk args, tail)).
Proof.
  split; [|split].
  - exists [[SEP]]. split; discriminate.
  - discriminate.
  - exists [[97; NL; 98]], []. split; [reflexivity|discriminate].
Qed.

(* ----------------------------------------------------------- offsets *)

Lemma COMMA_not_dec : is_dec_char COMMA = false. Proof. reflexivity. Qed.

Lemma offset_line_split o : split1 COMMA (offset_line o) = [print_dec (fst o); print_dec (snd o)].
Proof.
  unfold split1, offset_line. cbn [app].
  rewrite (split1_aux_sep COMMA _ _ (print_dec_no COMMA _ COMMA_not_dec)).
  rewrite (split1_aux_end COMMA _ (print_dec_no COMMA _ COMMA_not_dec)). reflexivity.
Qed.

Lemma deser_lines_map offs : deser_lines (map offset_line offs) = Some offs.
Proof.
  induction offs as [|[a b] offs IH]; [reflexivity|]. cbn [map deser_lines].
  destruct (offset_line (a, b)) eqn:E.
  - unfold offset_line in E. apply app_eq_nil in E. destruct E as [E _].
    exfalso. exact (print_dec_nonempty _ E).
  - rewrite <- E, offset_line_split. cbn [fst snd]. rewrite !parse_print_dec, IH. reflexivity.
Qed.

Lemma offset_line_no_nl o : negb (memb NL (offset_line o)) = true.
Proof.
  unfold offset_line. rewrite !memb_app.
  rewrite !(print_dec_no NL _ eq_refl). reflexivity.
Qed.

Theorem offsets_roundtrip offs : deserialise_offsets (serialise_offsets offs) = Some offs.
Proof.
  unfold deserialise_offsets, serialise_offsets. destruct offs as [|o offs]; [reflexivity|].
  rewrite split1_join; [apply deser_lines_map|discriminate|].
  apply forallb_forall. intros x Hx. apply in_map_iff in Hx. destruct Hx as [o' [<- _]].
  apply offset_line_no_nl.
Qed.

(* ------------------------------------- ConventionalResponseHandler parts *)

Definition rh_set_parts (s : rh_state) (ps : list bytes) (started : bool) : rh_state :=
  {| rh_status := rh_status s; rh_args := rh_args s; rh_parts := ps; rh_body_started := started;
     rh_stream_status := rh_stream_status s; rh_error_args := rh_error_args s |}.

Lemma rh_run_bytes cs : forall s rest,
  rh_run s (map EvBytes cs ++ rest) =
  rh_run (rh_set_parts s (rh_parts s ++ cs) (match cs with [] => rh_body_started s | _ => true end)) rest.
Proof.
  induction cs as [|c cs IH]; intros s rest; cbn [map app].
  - unfold rh_set_parts. rewrite app_nil_r. destruct s; reflexivity.
  - cbn [rh_run rh_event]. rewrite IH. cbn [rh_parts rh_body_started rh_set_parts rh_status rh_args
                                           rh_stream_status rh_error_args].
    rewrite <- app_assoc. destruct cs; reflexivity.
Qed.

Definition rh_expected (ok : bool) (args : bytes) (b : resp_body) : rh_state :=
  let st := Some (if ok then 83 else 69) in
  match b with
  | RNone => {| rh_status := st; rh_args := Some args; rh_parts := []; rh_body_started := false;
                rh_stream_status := None; rh_error_args := None |}
  | RBody bs => {| rh_status := st; rh_args := Some args; rh_parts := [bs]; rh_body_started := true;
                   rh_stream_status := None; rh_error_args := None |}
  | RStream cs err => {| rh_status := st; rh_args := Some args; rh_parts := cs;
                         rh_body_started := match cs, err with [], None => false | _, _ => true end;
                         rh_stream_status := match err with Some _ => Some 69 | None => None end;
                         rh_error_args := err |}
  end.

Definition response_events (h : bytes) (ok : bool) (args : bytes) (b : resp_body) : list p3_event :=
  EvHeaders h :: EvByte (if ok then 83 else 69) :: EvStruct args ::
  match b with
  | RNone => [EvEnd]
  | RBody bs => [EvBytes bs; EvEnd]
  | RStream cs err => map EvBytes cs ++
                      match err with Some e => [EvByte 69; EvStruct e; EvEnd] | None => [EvEnd] end
  end.

Lemma response_events_eq h ok args b :
  p3_events_of h (response_parts ok args b) = response_events h ok args b.
Proof.
  unfold p3_events_of, response_parts, response_events. cbn [map app]. do 3 f_equal.
  destruct b as [|bs|cs err]; cbn [map app]; try reflexivity.
  rewrite map_app, map_map, <- app_assoc. f_equal. destruct err; reflexivity.
Qed.

(* status / args / body or chunks / stream error are rebuilt for every response,
   including a stream that fails before its first chunk *)
Theorem response_parts_roundtrip h ok args b :
  rh_run rh_init (p3_events_of h (response_parts ok args b)) = Some (rh_expected ok args b).
Proof.
  rewrite response_events_eq. unfold response_events. cbn [rh_run rh_event].
  assert (E : negb (((if ok then 83 else 69) =? 69) || ((if ok then 83 else 69) =? 83)) = false)
    by (destruct ok; reflexivity).
  rewrite E. cbn [rh_init rh_body_started rh_status rh_args negb orb andb rh_parts rh_stream_status rh_error_args].
  destruct b as [|bs|cs err]; cbn [rh_run rh_event rh_body_started rh_expected negb]; try reflexivity.
  rewrite rh_run_bytes.
  cbn [rh_parts rh_body_started rh_set_parts rh_status rh_args rh_stream_status rh_error_args app].
  destruct err as [e|]; cbn [rh_run rh_event]; destruct cs; reflexivity.
Qed.

(* the two status bytes are not interchangeable: before the arguments a second one is still rejected *)
Example response_two_status_bytes_rejected : rh_run rh_init [EvByte 83; EvByte 69] = None.
Proof. reflexivity. Qed.
