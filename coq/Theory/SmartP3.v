(* Theory/SmartP3.v -- ProtocolThreeDecoder framing (C29, C30). *)
From Coq Require Import String ZArith NArith Bool List Lia.
From BV Require Import Lib.Bytes Model.Smart Theory.SmartNum Theory.SmartSeg Theory.SmartLP.
Import ListNotations.
Open Scope N_scope.

(* ------------------------------------------------------------ prefixb *)

Lemma prefixb_false_app p s t : prefixb p s = false -> (length p <= length s)%nat -> prefixb p (s ++ t) = false.
Proof.
  revert s; induction p as [|x p IH]; intros s H Hl; [discriminate|].
  destruct s as [|y s]; cbn [length] in Hl; [lia|]. cbn [prefixb app] in *.
  destruct (x =? y); [|reflexivity]. cbn [andb] in *. apply IH; [exact H|lia].
Qed.

Lemma prefixb_false_ext s p t : prefixb s p = false -> prefixb (s ++ t) p = false.
Proof.
  revert p; induction s as [|x s IH]; intros p H; [discriminate|].
  destruct p as [|y p]; cbn [prefixb app] in *; [reflexivity|].
  destruct (x =? y); [|reflexivity]. cbn [andb] in *. apply IH. exact H.
Qed.

Lemma prefixb_false_short s p t : prefixb s p = false -> (length s < length p)%nat -> prefixb p (s ++ t) = false.
Proof.
  revert p; induction s as [|x s IH]; intros p H Hl; [discriminate|].
  destruct p as [|y p]; cbn [length] in Hl; [lia|]. cbn [prefixb app] in *.
  rewrite N.eqb_sym. destruct (x =? y); [|reflexivity]. cbn [andb] in *. apply IH; [exact H|lia].
Qed.

(* ------------------------------------------------------- extract_lp32 *)

Lemma extract_got_inv buf pl rest : extract_lp32 buf = Got pl rest ->
  exists n, n = 4 + be32_dec (firstn 4 buf) /\ (4 <= length buf)%nat /\ n <= N.of_nat (length buf) /\
            pl = skipn 4 (firstn (N.to_nat n) buf) /\ rest = skipn (N.to_nat n) buf.
Proof.
  unfold extract_lp32. set (n := 4 + be32_dec (firstn 4 buf)).
  destruct (length buf <? 4)%nat eqn:E1; [discriminate|].
  destruct (N.of_nat (length buf) <? n) eqn:E2; [discriminate|].
  intros H. exists n. apply Nat.ltb_ge in E1. apply N.ltb_ge in E2.
  injection H as Hpl Hrest. repeat split; try assumption; symmetry; assumption.
Qed.

Lemma extract_got_length buf pl rest : extract_lp32 buf = Got pl rest -> (length rest < length buf)%nat.
Proof.
  intros H. destruct (extract_got_inv _ _ _ H) as [n [Hn [H4 [Hle [_ ->]]]]].
  rewrite skipn_length. lia.
Qed.

Lemma extract_got_app buf pl rest b :
  extract_lp32 buf = Got pl rest -> extract_lp32 (buf ++ b) = Got pl (rest ++ b).
Proof.
  intros H. destruct (extract_got_inv _ _ _ H) as [n [Hn [H4 [Hle [-> ->]]]]].
  unfold extract_lp32. rewrite (firstn_app_le 4) by lia. rewrite <- Hn. rewrite app_length.
  assert (E1' : (length buf + length b <? 4)%nat = false) by (apply Nat.ltb_ge; lia).
  assert (E2' : (N.of_nat (length buf + length b) <? n) = false) by (apply N.ltb_ge; lia).
  rewrite E1', E2'. rewrite firstn_app_le by lia. rewrite skipn_app_le by lia. reflexivity.
Qed.

Definition fits32 (x : bytes) : Prop := N.of_nat (length x) < 4294967296.

Lemma extract_whole payload rest : fits32 payload ->
  extract_lp32 (lp32 payload ++ rest) = Got payload rest.
Proof.
  intros Hf. unfold extract_lp32.
  assert (H4 : firstn 4 (lp32 payload ++ rest) = be32_enc (N.of_nat (length payload))).
  { unfold lp32. rewrite <- app_assoc. rewrite firstn_app_ge by (rewrite be32_length; lia).
    rewrite be32_length. cbn [Nat.sub firstn]. apply app_nil_r. }
  rewrite H4, (be32_roundtrip _ Hf).
  assert (HL0 : length (lp32 payload) = (4 + length payload)%nat).
  { unfold lp32. rewrite app_length, be32_length. reflexivity. }
  assert (HL : length (lp32 payload ++ rest) = (4 + length payload + length rest)%nat).
  { rewrite app_length, HL0. reflexivity. }
  assert (E1 : (length (lp32 payload ++ rest) <? 4)%nat = false) by (apply Nat.ltb_ge; lia).
  assert (E2 : (N.of_nat (length (lp32 payload ++ rest)) <? 4 + N.of_nat (length payload)) = false)
    by (apply N.ltb_ge; lia).
  rewrite E1, E2.
  replace (N.to_nat (4 + N.of_nat (length payload))) with (length (lp32 payload)) by lia.
  rewrite firstn_app_ge by lia. rewrite (skipn_app_ge (length (lp32 payload))) by lia.
  rewrite Nat.sub_diag. cbn [firstn skipn]. rewrite app_nil_r. f_equal.
Qed.

(* a proper prefix of a length-prefixed payload: _NeedMoreBytes asks for exactly
   enough to complete the 4-byte prefix, or the whole part *)
Lemma extract_partial payload p r : fits32 payload -> p ++ r = lp32 payload -> r <> [] ->
  exists n, extract_lp32 p = NeedMore n /\
            (0 < Z.of_N n - Z.of_nat (length p) <= Z.of_nat (length r))%Z.
Proof.
  intros Hf Hs Hr. unfold extract_lp32.
  assert (Hlen : (length p + length r = 4 + length payload)%nat).
  { apply (f_equal (@length N)) in Hs. unfold lp32 in Hs. rewrite !app_length, be32_length in Hs. exact Hs. }
  assert (Hr1 : (1 <= length r)%nat) by (destruct r; [congruence|cbn [length]; lia]).
  destruct (length p <? 4)%nat eqn:E1.
  - apply Nat.ltb_lt in E1. exists 4. split; [reflexivity|lia].
  - apply Nat.ltb_ge in E1.
    assert (H4 : firstn 4 p = be32_enc (N.of_nat (length payload))).
    { apply (f_equal (firstn 4)) in Hs. rewrite firstn_app_le in Hs by lia. rewrite Hs.
      unfold lp32. rewrite firstn_app_ge by (rewrite be32_length; lia).
      rewrite be32_length. cbn [Nat.sub firstn]. apply app_nil_r. }
    rewrite H4, (be32_roundtrip _ Hf).
    assert (E2 : (N.of_nat (length p) <? 4 + N.of_nat (length payload)) = true) by (apply N.ltb_lt; lia).
    rewrite E2. eexists. split; [reflexivity|lia].
Qed.

(* --------------------------------------------------------- the state loop *)

Lemma p3_body_ext rec1 rec2 m buf :
  (forall m' buf', (p3_mu m' buf' < p3_mu m buf)%nat -> rec1 m' buf' = rec2 m' buf') ->
  p3_body rec1 m buf = p3_body rec2 m buf.
Proof.
  intros H. destruct m as [[ph evs] nd]. unfold p3_mu in H. cbn [p3_body].
  destruct ph; try reflexivity.
  - destruct (length buf <? length MARKER3)%nat eqn:E; [reflexivity|].
    destruct (prefixb MARKER3 buf); [|reflexivity].
    apply H. apply Nat.ltb_ge in E. rewrite skipn_length. cbn [length MARKER3] in *. lia.
  - destruct (extract_lp32 buf) as [n|pl rest] eqn:E; [reflexivity|].
    apply H. exact (extract_got_length _ _ _ E).
  - destruct buf as [|c rest]; [reflexivity|].
    destruct (c =? 111); [apply H; cbn [length]; lia|].
    destruct (c =? 115); [apply H; cbn [length]; lia|].
    destruct (c =? 98); [apply H; cbn [length]; lia|reflexivity].
  - destruct buf as [|c rest]; [reflexivity|]. apply H. cbn [length]. lia.
  - destruct (extract_lp32 buf) as [n|pl rest] eqn:E; [reflexivity|].
    apply H. exact (extract_got_length _ _ _ E).
  - destruct (extract_lp32 buf) as [n|pl rest] eqn:E; [reflexivity|].
    apply H. exact (extract_got_length _ _ _ E).
Qed.

Lemma p3_run_eq m buf : p3_run m buf = p3_body p3_run m buf.
Proof. exact (run_eq p3_mode p3_body p3_mu p3_body_ext m buf). Qed.

(* _number_needed_bytes is reset by accept_bytes: its old value is irrelevant *)
Lemma p3_run_nd ph evs nd1 nd2 buf : p3_run (ph, evs, nd1) buf = p3_run (ph, evs, nd2) buf.
Proof. rewrite (p3_run_eq (ph, evs, nd1)), (p3_run_eq (ph, evs, nd2)). reflexivity. Qed.

Ltac p3_lp_case ph0 IH E Er :=
  match goal with
  | [ Er : _ = match extract_lp32 ?buf with _ => _ end |- context [ ?buf ++ ?b ] ] =>
      destruct (extract_lp32 buf) as [n0|pl rest] eqn:E;
      [ subst; cbn [fst snd]; apply p3_run_nd
      | rewrite (p3_run_eq (ph0, _, _) (buf ++ b)); cbn [p3_body];
        rewrite (extract_got_app _ _ _ b E); subst; apply IH;
        pose proof (extract_got_length _ _ _ E); lia ]
  end.

Lemma p3_run_app : forall n m buf b, (length buf < n)%nat ->
  p3_run (fst (p3_run m buf)) (snd (p3_run m buf) ++ b) = p3_run m (buf ++ b).
Proof.
  induction n as [|n IH]; intros m buf b Hn; [lia|].
  destruct m as [[ph evs] nd].
  remember (p3_run (ph, evs, nd) buf) as r eqn:Er. rewrite p3_run_eq in Er. cbn [p3_body] in Er.
  destruct ph.
  - destruct (length buf <? length MARKER3)%nat eqn:E1.
    + destruct (prefixb buf MARKER3) eqn:E2.
      * subst r. cbn [fst snd]. apply p3_run_nd.
      * subst r. cbn [fst snd].
        rewrite (p3_run_eq (P3Failed _, evs, None)), (p3_run_eq (P3Version, evs, nd)). cbn [p3_body].
        destruct (length (buf ++ b) <? length MARKER3)%nat.
        -- rewrite (prefixb_false_ext _ _ b E2). reflexivity.
        -- apply Nat.ltb_lt in E1. rewrite (prefixb_false_short _ _ b E2 E1). reflexivity.
    + apply Nat.ltb_ge in E1.
      assert (E1' : (length (buf ++ b) <? length MARKER3)%nat = false).
      { apply Nat.ltb_ge. rewrite app_length. lia. }
      destruct (prefixb MARKER3 buf) eqn:E2.
      * rewrite (p3_run_eq (P3Version, evs, nd) (buf ++ b)). cbn [p3_body].
        rewrite E1', (prefixb_app _ _ b E2). rewrite skipn_app_le by lia.
        subst r. apply IH. rewrite skipn_length. cbn [length MARKER3] in *. lia.
      * subst r. cbn [fst snd].
        rewrite (p3_run_eq (P3Failed _, evs, None)), (p3_run_eq (P3Version, evs, nd)). cbn [p3_body].
        rewrite E1', (prefixb_false_app _ _ b E2 E1). reflexivity.
  - p3_lp_case P3Headers IH E Er.
  - destruct buf as [|c rest].
    + subst r. cbn [fst snd]. apply p3_run_nd.
    + rewrite (p3_run_eq (P3Part, evs, nd) ((c :: rest) ++ b)). cbn [p3_body app].
      cbn [length] in Hn.
      destruct (c =? 111); [subst r; apply IH; lia|].
      destruct (c =? 115); [subst r; apply IH; lia|].
      destruct (c =? 98); [subst r; apply IH; lia|].
      destruct (c =? 101).
      * subst r. cbn [fst snd app]. rewrite p3_run_eq. cbn [p3_body]. reflexivity.
      * subst r. cbn [fst snd]. rewrite p3_run_eq. cbn [p3_body]. reflexivity.
  - destruct buf as [|c rest].
    + subst r. cbn [fst snd]. apply p3_run_nd.
    + rewrite (p3_run_eq (P3OneByte, evs, nd) ((c :: rest) ++ b)). cbn [p3_body app].
      cbn [length] in Hn. subst r. apply IH. lia.
  - p3_lp_case P3Bytes IH E Er.
  - p3_lp_case P3Struct IH E Er.
  - subst r. cbn [fst snd app].
    rewrite (p3_run_eq (P3Unused (unused ++ buf), evs, None)), (p3_run_eq (P3Unused unused, evs, nd)).
    cbn [p3_body]. rewrite app_assoc. reflexivity.
  - subst r. cbn [fst snd].
    rewrite (p3_run_eq (P3Failed e, evs, None)), (p3_run_eq (P3Failed e, evs, nd)). reflexivity.
Qed.

(* segmentation independence of ProtocolThreeDecoder.accept_bytes, every state *)
Theorem p3_accept_app s a b : p3_accept (p3_accept s a) b = p3_accept s (a ++ b).
Proof.
  unfold p3_accept. rewrite app_assoc.
  apply (p3_run_app (S (length (snd s ++ a)))). lia.
Qed.

(* ------------------------------------------------------ whole message parts *)

Definition p3_part_ok (p : p3_part) : Prop :=
  match p with POne _ => True | PBytes bs => fits32 bs | PStruct r => fits32 r end.
Definition p3_ev (p : p3_part) : p3_event :=
  match p with POne b => EvByte b | PBytes bs => EvBytes bs | PStruct r => EvStruct r end.

Lemma p3_marker evs nd rest :
  p3_run (P3Version, evs, nd) (MARKER3 ++ rest) = p3_run (P3Headers, evs, None) rest.
Proof.
  rewrite p3_run_eq. cbn [p3_body].
  assert (E : (length (MARKER3 ++ rest) <? length MARKER3)%nat = false)
    by (apply Nat.ltb_ge; rewrite app_length; lia).
  rewrite E, prefixb_self_app. rewrite skipn_app_ge by lia. rewrite Nat.sub_diag. reflexivity.
Qed.

Lemma p3_headers h evs nd rest : fits32 h ->
  p3_run (P3Headers, evs, nd) (lp32 h ++ rest) = p3_run (P3Part, evs ++ [EvHeaders h], None) rest.
Proof. intros Hf. rewrite p3_run_eq. cbn [p3_body]. rewrite (extract_whole _ _ Hf). reflexivity. Qed.

Lemma p3_part_step p evs nd rest : p3_part_ok p ->
  p3_run (P3Part, evs, nd) (p3_encode_part p ++ rest) = p3_run (P3Part, evs ++ [p3_ev p], None) rest.
Proof.
  intros Hok. destruct p as [b|bs|raw]; cbn [p3_encode_part app p3_ev p3_part_ok] in *;
    rewrite p3_run_eq; cbn [p3_body].
  - change (111 =? 111) with true. cbn iota. rewrite p3_run_eq. reflexivity.
  - change (98 =? 111) with false. change (98 =? 115) with false. change (98 =? 98) with true. cbn iota.
    rewrite p3_run_eq. cbn [p3_body]. rewrite (extract_whole _ _ Hok). reflexivity.
  - change (115 =? 111) with false. change (115 =? 115) with true. cbn iota.
    rewrite p3_run_eq. cbn [p3_body]. rewrite (extract_whole _ _ Hok). reflexivity.
Qed.

Lemma p3_end evs nd tail :
  p3_run (P3Part, evs, nd) (101 :: tail) = ((P3Unused tail, evs ++ [EvEnd], None), []).
Proof. rewrite p3_run_eq. reflexivity. Qed.

Lemma p3_parts ps : Forall p3_part_ok ps -> forall evs nd rest,
  p3_run (P3Part, evs, nd) (concat (map p3_encode_part ps) ++ rest) =
  p3_run (P3Part, evs ++ map p3_ev ps, None) rest.
Proof.
  induction 1 as [|p ps Hp Hps IH]; intros evs nd rest; cbn [map concat app].
  - rewrite app_nil_r. apply p3_run_nd.
  - rewrite <- app_assoc, (p3_part_step _ _ _ _ Hp), IH, <- app_assoc. reflexivity.
Qed.

Lemma p3_events_of_eq h ps : p3_events_of h ps = [EvHeaders h] ++ map p3_ev ps ++ [EvEnd].
Proof. reflexivity. Qed.

Definition p3_done (h : bytes) (ps : list p3_part) (tail : bytes) : p3_state :=
  ((P3Unused tail, p3_events_of h ps, None), []).

Theorem p3_roundtrip_server h ps tail : fits32 h -> Forall p3_part_ok ps ->
  p3_accept p3_init_server (p3_encode_body h ps ++ tail) = p3_done h ps tail.
Proof.
  intros Hh Hps. unfold p3_accept, p3_init_server, p3_encode_body, p3_done. cbn [fst snd app].
  rewrite <- !app_assoc. rewrite (p3_headers _ _ _ _ Hh), (p3_parts _ Hps). cbn [app].
  rewrite p3_end, p3_events_of_eq. cbn [app]. reflexivity.
Qed.

Theorem p3_roundtrip_client h ps tail : fits32 h -> Forall p3_part_ok ps ->
  p3_accept p3_init_client (p3_encode h ps ++ tail) = p3_done h ps tail.
Proof.
  intros Hh Hps. unfold p3_accept, p3_init_client, p3_encode. cbn [fst snd app].
  rewrite <- app_assoc, p3_marker.
  rewrite (p3_run_nd P3Headers [] None (Some 4)). exact (p3_roundtrip_server h ps tail Hh Hps).
Qed.

Lemma p3_encode_body_nonempty h ps : p3_encode_body h ps <> [].
Proof.
  unfold p3_encode_body, lp32. intros E. apply (f_equal (@length N)) in E.
  rewrite !app_length, be32_length in E. cbn [length] in E. lia.
Qed.

(* C29, protocol 3: any segmentation of message ++ tail, server and client side *)
Theorem p3_decode_encode_any_segmentation_server h ps tail segs : fits32 h -> Forall p3_part_ok ps ->
  concat segs = p3_encode_body h ps ++ tail ->
  fold_left p3_accept segs p3_init_server = p3_done h ps tail.
Proof.
  intros Hh Hps H. destruct segs as [|seg segs].
  - cbn [concat] in H. symmetry in H. apply app_eq_nil in H. destruct H as [H _].
    exfalso. exact (p3_encode_body_nonempty h ps H).
  - rewrite (fold_accept_init _ p3_accept p3_accept_app). cbn [concat] in H |- *. rewrite H.
    apply p3_roundtrip_server; assumption.
Qed.

Theorem p3_decode_encode_any_segmentation_client h ps tail segs : fits32 h -> Forall p3_part_ok ps ->
  concat segs = p3_encode h ps ++ tail ->
  fold_left p3_accept segs p3_init_client = p3_done h ps tail.
Proof.
  intros Hh Hps H. destruct segs as [|seg segs].
  - cbn [concat] in H. symmetry in H. apply app_eq_nil in H. destruct H as [H _]. discriminate H.
  - rewrite (fold_accept_init _ p3_accept p3_accept_app). cbn [concat] in H |- *. rewrite H.
    apply p3_roundtrip_client; assumption.
Qed.

(* ----------------------------------------------------------------- C30 *)

Definition p3_bnd (s : p3_state) : Prop := exists evs, s = ((P3Part, evs, Some 1), []).
Definition p3_fin : bytes := [101].

Lemma p3_settle_part evs nd : p3_run (P3Part, evs, nd) [] = ((P3Part, evs, Some 1), []).
Proof. rewrite p3_run_eq. reflexivity. Qed.

Lemma p3_stop_of_hint s : (0 < p3_hintZ s)%Z -> p3_stop s = false.
Proof. intros H. unfold p3_stop. apply Z.eqb_neq. lia. Qed.

Ltac p3_hint_solve :=
  unfold p3_stop, p3_hintZ, p3_hint, p3_phase_of; cbn [fst snd];
  split; [apply Z.eqb_neq|]; cbn [length]; rewrite ?app_length; lia.

Lemma p3_full s b : p3_bnd s -> p3_part_ok b -> p3_bnd (p3_accept s (p3_encode_part b)).
Proof.
  intros [evs ->] Hok. unfold p3_accept. cbn [fst snd app].
  rewrite <- (app_nil_r (p3_encode_part b)), (p3_part_step _ _ _ _ Hok), p3_settle_part.
  eexists. reflexivity.
Qed.

(* inside a length-prefixed part *)
Lemma p3_in_lp ph evs payload (p r : bytes) :
  (ph = P3Headers \/ ph = P3Bytes \/ ph = P3Struct) ->
  fits32 payload -> p ++ r = lp32 payload -> r <> [] ->
  exists n, p3_run (ph, evs, None) p = ((ph, evs, Some n), p) /\
            (0 < Z.of_N n - Z.of_nat (length p) <= Z.of_nat (length r))%Z.
Proof.
  intros Hph Hf Hs Hr. destruct (extract_partial payload p r Hf Hs Hr) as [n [En Hn]].
  exists n. split; [|exact Hn]. rewrite p3_run_eq.
  destruct Hph as [->|[->| ->]]; cbn [p3_body]; rewrite En; reflexivity.
Qed.

Lemma p3_part_hint s b p r : p3_bnd s -> p3_part_ok b -> p ++ r = p3_encode_part b -> r <> [] ->
  p3_stop (p3_accept s p) = false /\ (0 < p3_hintZ (p3_accept s p) <= Z.of_nat (length r + 0))%Z.
Proof.
  intros [evs ->] Hok Hs Hr. unfold p3_accept. cbn [fst snd app].
  assert (Hr1 : (1 <= length r)%nat) by (destruct r; [congruence|cbn [length]; lia]).
  destruct p as [|x p].
  - rewrite p3_settle_part.
    assert (Hh : p3_hintZ ((P3Part, evs, Some 1), []) = 1%Z) by reflexivity.
    rewrite (p3_stop_of_hint _ ltac:(rewrite Hh; lia)), Hh. lia.
  - destruct b as [b|bs|raw]; cbn [p3_encode_part app p3_part_ok] in *;
      injection Hs as Hx Hs; subst x; rewrite p3_run_eq; cbn [p3_body].
    + change (111 =? 111) with true. cbn iota.
      destruct p as [|y p]; [|destruct p; [cbn [app] in Hs; injection Hs as _ Hs; congruence|discriminate]].
      rewrite p3_run_eq. cbn [p3_body]. split; [reflexivity|].
      change (p3_hintZ (P3OneByte, evs, Some 1, [])) with 1%Z. lia.
    + change (98 =? 111) with false. change (98 =? 115) with false. change (98 =? 98) with true. cbn iota.
      destruct (p3_in_lp P3Bytes evs bs p r ltac:(tauto) Hok Hs Hr) as [n [-> Hn]].
      p3_hint_solve.
    + change (115 =? 111) with false. change (115 =? 115) with true. cbn iota.
      destruct (p3_in_lp P3Struct evs raw p r ltac:(tauto) Hok Hs Hr) as [n [-> Hn]].
      p3_hint_solve.
Qed.

Lemma p3_fin_hint s p r : p3_bnd s -> p ++ r = p3_fin -> r <> [] ->
  p3_stop (p3_accept s p) = false /\ (0 < p3_hintZ (p3_accept s p) <= Z.of_nat (length r))%Z.
Proof.
  intros [evs ->] Hs Hr. unfold p3_accept. cbn [fst snd app].
  destruct p as [|x p].
  - cbn [app] in Hs. subst r. rewrite p3_settle_part. split; [reflexivity|cbn; lia].
  - unfold p3_fin in Hs. injection Hs as _ Hs. apply app_eq_nil in Hs. destruct Hs as [_ Hs]. congruence.
Qed.

Theorem p3_prefix_ok_server h ps p q : fits32 h -> Forall p3_part_ok ps ->
  p ++ q = p3_encode_body h ps -> q <> [] ->
  p3_stop (p3_accept p3_init_server p) = false /\
  (0 < p3_hintZ (p3_accept p3_init_server p) <= Z.of_nat (length q))%Z.
Proof.
  intros Hh Hps Hs Hq. unfold p3_encode_body in Hs.
  apply app_eq_app in Hs. destruct Hs as [l [[H1 H2]|[H1 H2]]].
  - (* past the headers *)
    subst p. rewrite <- (p3_accept_app p3_init_server).
    assert (Hb : p3_bnd (p3_accept p3_init_server (lp32 h))).
    { exists [EvHeaders h]. unfold p3_accept, p3_init_server. cbn [fst snd app].
      rewrite <- (app_nil_r (lp32 h)), (p3_headers _ _ _ _ Hh). apply p3_settle_part. }
    apply (blocks_prefix_ok p3_state p3_accept p3_accept_app p3_hintZ p3_stop p3_part p3_encode_part p3_fin
             p3_bnd 0 p3_part_ok ltac:(cbn; lia) p3_full p3_part_hint p3_fin_hint ps _ l q Hb Hps);
      [symmetry; exact H2|exact Hq].
  - destruct l as [|c l].
    + (* exactly the headers *)
      rewrite app_nil_r in H1. cbn [app] in H2. subst p q.
      assert (Hb : p3_accept p3_init_server (lp32 h) = ((P3Part, [EvHeaders h], Some 1), [])).
      { unfold p3_accept, p3_init_server. cbn [fst snd app].
        rewrite <- (app_nil_r (lp32 h)), (p3_headers _ _ _ _ Hh). apply p3_settle_part. }
      rewrite Hb. split; [reflexivity|].
      change (p3_hintZ ((P3Part, [EvHeaders h], Some 1), [])) with 1%Z.
      rewrite app_length. cbn [length]. lia.
    + (* inside the headers *)
      unfold p3_accept, p3_init_server. cbn [fst snd app].
      rewrite (p3_run_nd P3Headers [] (Some 4) None).
      destruct (p3_in_lp P3Headers [] h p (c :: l) ltac:(tauto) Hh (eq_sym H1) ltac:(discriminate)) as [n [-> Hn]].
      subst q. p3_hint_solve.
Qed.

Theorem p3_prefix_ok_client h ps p q : fits32 h -> Forall p3_part_ok ps ->
  p ++ q = p3_encode h ps -> q <> [] ->
  p3_stop (p3_accept p3_init_client p) = false /\
  (0 < p3_hintZ (p3_accept p3_init_client p) <= Z.of_nat (length q))%Z.
Proof.
  intros Hh Hps Hs Hq. unfold p3_encode in Hs.
  apply app_eq_app in Hs. destruct Hs as [l [[H1 H2]|[H1 H2]]].
  - (* past the version marker: the server-side decoder on the rest *)
    subst p.
    assert (Hst : p3_accept p3_init_client (MARKER3 ++ l) = p3_accept p3_init_server l).
    { unfold p3_accept, p3_init_client, p3_init_server. cbn [fst snd app]. rewrite p3_marker. apply p3_run_nd. }
    rewrite Hst. exact (p3_prefix_ok_server h ps l q Hh Hps (eq_sym H2) Hq).
  - destruct l as [|c l].
    + rewrite app_nil_r in H1. cbn [app] in H2. subst p q.
      assert (Hst : p3_accept p3_init_client MARKER3 = p3_accept p3_init_server []).
      { unfold p3_accept, p3_init_client, p3_init_server. cbn [fst snd app].
        rewrite (p3_run_nd P3Version [] _ None). rewrite <- (app_nil_r MARKER3). rewrite p3_marker. apply p3_run_nd. }
      rewrite Hst. exact (p3_prefix_ok_server h ps [] _ Hh Hps eq_refl Hq).
    + unfold p3_accept, p3_init_client. cbn [fst snd app].
      assert (Hl : (length p < length MARKER3)%nat).
      { apply (f_equal (@length N)) in H1. rewrite app_length in H1. cbn [length] in H1. cbn [length]. lia. }
      assert (Hp : prefixb p MARKER3 = true) by (rewrite H1; apply prefixb_self_app).
      rewrite p3_run_eq. cbn [p3_body].
      apply Nat.ltb_lt in Hl. rewrite Hl, Hp. apply Nat.ltb_lt in Hl.
      apply (f_equal (@length N)) in H1. rewrite app_length in H1.
      subst q. p3_hint_solve.
Qed.

Lemma p3_init_ok_server h ps :
  p3_stop p3_init_server = false /\ (0 < p3_hintZ p3_init_server <= Z.of_nat (length (p3_encode_body h ps)))%Z.
Proof.
  split; [reflexivity|]. unfold p3_encode_body, lp32. rewrite !app_length, be32_length.
  change (p3_hintZ p3_init_server) with 4%Z. lia.
Qed.

Lemma p3_init_ok_client h ps :
  p3_stop p3_init_client = false /\ (0 < p3_hintZ p3_init_client <= Z.of_nat (length (p3_encode h ps)))%Z.
Proof.
  split; [reflexivity|]. unfold p3_encode, p3_encode_body, lp32. rewrite !app_length, be32_length.
  change (p3_hintZ p3_init_client) with 28%Z. change (length MARKER3) with 24%nat. lia.
Qed.

Lemma p3_done_ok_server h ps : fits32 h -> Forall p3_part_ok ps ->
  p3_stop (p3_accept p3_init_server (p3_encode_body h ps)) = true.
Proof. intros Hh Hps. rewrite <- (app_nil_r (p3_encode_body h ps)), p3_roundtrip_server by assumption. reflexivity. Qed.

Lemma p3_done_ok_client h ps : fits32 h -> Forall p3_part_ok ps ->
  p3_stop (p3_accept p3_init_client (p3_encode h ps)) = true.
Proof. intros Hh Hps. rewrite <- (app_nil_r (p3_encode h ps)), p3_roundtrip_client by assumption. reflexivity. Qed.
