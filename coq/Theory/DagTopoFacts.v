(* Theory/DagTopoFacts.v -- facts about Lib/DagTopo.v (topological orders).

   - [index_of_*]: list.index;
   - [topo_sorted_app], [topo_sorted_slice]: a contiguous part of a topological
     order is one;
   - [topo_index]: in a topological order a parent has a smaller index than its child;
   - [reach_index]: ... and an ancestor a smaller-or-equal index than its
     descendant, when the order contains the whole path between them;
   - [asc_order_topo]: ascending revision numbers are a topological order of
     every well-formed graph (so [topo_order_of] is always satisfiable). *)
From Coq Require Import List Arith Bool Lia.
From BV Require Import Lib.Dag Lib.DagTopo Theory.DagFacts.
Import ListNotations.

(* ---- list.index ---------------------------------------------------------- *)

Lemma index_of_split x l i : index_of x l = Some i ->
  exists l1 l2, l = l1 ++ x :: l2 /\ length l1 = i /\ ~ In x l1.
Proof.
  revert i. induction l as [|y l IH]; intros i H; cbn [index_of] in H; [discriminate|].
  destruct (x =? y) eqn:E.
  - apply Nat.eqb_eq in E; subst y. inversion H; subst i.
    exists [], l. repeat split; auto.
  - destruct (index_of x l) as [k|] eqn:K; cbn [option_map] in H; [|discriminate].
    inversion H; subst i. destruct (IH k eq_refl) as [l1 [l2 [-> [HL HN]]]].
    exists (y :: l1), l2. cbn [app length]. repeat split; [congruence|].
    intros [->|Hin]; [rewrite Nat.eqb_refl in E; discriminate | exact (HN Hin)].
Qed.

Lemma index_of_In x l : In x l -> exists i, index_of x l = Some i.
Proof.
  induction l as [|y l IH]; intros H; [contradiction|]. cbn [index_of].
  destruct (x =? y) eqn:E; [exists 0; reflexivity|].
  destruct H as [->|H]; [rewrite Nat.eqb_refl in E; discriminate|].
  destruct (IH H) as [i ->]. exists (S i). reflexivity.
Qed.

Lemma index_of_Some_In x l i : index_of x l = Some i -> In x l.
Proof.
  intros H. destruct (index_of_split x l i H) as [l1 [l2 [-> _]]].
  apply in_or_app. right. left. reflexivity.
Qed.

Lemma index_of_lt x l i : index_of x l = Some i -> i < length l.
Proof.
  intros H. destruct (index_of_split x l i H) as [l1 [l2 [-> [<- _]]]].
  rewrite app_length. cbn [length]. lia.
Qed.

Lemma index_of_app_notin x l1 l2 : ~ In x l1 ->
  index_of x (l1 ++ l2) = option_map (fun i => length l1 + i) (index_of x l2).
Proof.
  induction l1 as [|y l1 IH]; intros H; cbn [app index_of length].
  - destruct (index_of x l2); reflexivity.
  - destruct (x =? y) eqn:E.
    + apply Nat.eqb_eq in E. subst y. exfalso. apply H. left. reflexivity.
    + rewrite IH by (intros Hin; apply H; right; exact Hin).
      destruct (index_of x l2); reflexivity.
Qed.

Lemma index_of_middle x l1 l2 : ~ In x l1 -> index_of x (l1 ++ x :: l2) = Some (length l1).
Proof.
  intros H. rewrite (index_of_app_notin x l1 _ H). cbn [index_of]. rewrite Nat.eqb_refl.
  cbn [option_map]. f_equal. lia.
Qed.

(* ---- topological orders --------------------------------------------------- *)

Lemma topo_sorted_cons g r l : topo_sortedb g (r :: l) = true <->
  ~ In r l /\ (forall p, In p (parents g r) -> ~ In p l) /\ topo_sortedb g l = true.
Proof.
  cbn [topo_sortedb]. rewrite !andb_true_iff, negb_true_iff, memb_false, forallb_forall.
  split.
  - intros [[H1 H2] H3]. repeat split; [exact H1 | | exact H3].
    intros p Hp. specialize (H2 p Hp). apply negb_true_iff, memb_false in H2. exact H2.
  - intros [H1 [H2 H3]]. repeat split; [exact H1 | | exact H3].
    intros p Hp. apply negb_true_iff, memb_false. exact (H2 p Hp).
Qed.

Lemma topo_sorted_app g l1 l2 : topo_sortedb g (l1 ++ l2) = true ->
  topo_sortedb g l1 = true /\ topo_sortedb g l2 = true.
Proof.
  induction l1 as [|r l1 IH]; intros H; [split; [reflexivity|exact H]|].
  cbn [app] in H. apply topo_sorted_cons in H as [H1 [H2 H3]].
  destruct (IH H3) as [A B]. split; [|exact B].
  apply topo_sorted_cons. repeat split; [| |exact A].
  - intros Hin. apply H1. apply in_or_app. left. exact Hin.
  - intros p Hp Hin. apply (H2 p Hp). apply in_or_app. left. exact Hin.
Qed.

Lemma topo_sorted_slice g l i j : topo_sortedb g l = true -> topo_sortedb g (slice l i j) = true.
Proof.
  intros H. unfold slice.
  rewrite <- (firstn_skipn i l) in H. apply topo_sorted_app in H as [_ H].
  rewrite <- (firstn_skipn (j - i) (skipn i l)) in H. apply topo_sorted_app in H as [H _].
  exact H.
Qed.

Lemma topo_sorted_NoDup g l : topo_sortedb g l = true -> NoDup l.
Proof.
  induction l as [|r l IH]; intros H; [constructor|].
  apply topo_sorted_cons in H as [H1 [_ H3]]. constructor; [exact H1 | exact (IH H3)].
Qed.

(* the element at a split point: nothing equal around it, no parent after it *)
Lemma topo_sorted_split g l1 r l2 : topo_sortedb g (l1 ++ r :: l2) = true ->
  ~ In r l1 /\ ~ In r l2 /\ (forall p, In p (parents g r) -> ~ In p l2).
Proof.
  intros H. pose proof (topo_sorted_NoDup g _ H) as ND.
  apply topo_sorted_app in H as [_ H]. apply topo_sorted_cons in H as [H1 [H2 _]].
  split; [|split; assumption].
  apply NoDup_remove_2 in ND. intros Hin. apply ND. apply in_or_app. left. exact Hin.
Qed.

(* a parent comes strictly before its child *)
Lemma topo_index g l p r i j : wf_dag g = true -> topo_sortedb g l = true ->
  In p (parents g r) -> index_of p l = Some i -> index_of r l = Some j -> i < j.
Proof.
  intros W T Hp Hi Hj.
  assert (Hne : p <> r).
  { intros ->. destruct (wf_parents g r r W Hp) as [L|L]; [lia|].
    apply parents_present in Hp. lia. }
  destruct (index_of_split r l j Hj) as [l1 [l2 [-> [HL HN]]]].
  apply topo_sorted_split in T as [_ [_ T]].
  destruct (in_dec Nat.eq_dec p l1) as [Hin|Hnin].
  - destruct (index_of_In p l1 Hin) as [k Hk].
    pose proof (index_of_lt p l1 k Hk) as Hlt.
    destruct (index_of_split p l1 k Hk) as [a [b [-> [Ha Hna]]]].
    rewrite <- app_assoc in Hi. cbn [app] in Hi. rewrite (index_of_middle p a _ Hna) in Hi.
    inversion Hi. subst i. rewrite app_length in HL. cbn [length] in HL. lia.
  - rewrite (index_of_app_notin p l1 _ Hnin) in Hi. cbn [index_of] in Hi.
    destruct (p =? r) eqn:E; [apply Nat.eqb_eq in E; contradiction|].
    destruct (index_of p l2) as [k|] eqn:K; cbn [option_map] in Hi; [|discriminate].
    exfalso. apply (T p Hp). apply (index_of_Some_In p l2 k K).
Qed.

(* an ancestor comes before its descendant when the order contains every
   revision on the paths between them *)
Lemma reach_index g l x y : wf_dag g = true -> topo_sortedb g l = true ->
  In x l -> (forall z, reach g x z -> reach g z y -> In z l) ->
  reach g x y ->
  exists i j, index_of x l = Some i /\ index_of y l = Some j /\ i <= j.
Proof.
  intros W T Hx Hcl R. induction R as [x | x p r Hp Hxp IH].
  - destruct (index_of_In x l Hx) as [i Hi]. exists i, i. repeat split; auto.
  - assert (Hr : reach g p r) by (eapply reach_step; [exact Hp | apply reach_refl]).
    destruct IH as [i [k [Hi [Hk Hik]]]]; [exact Hx| |].
    { intros z Hxz Hzp. apply Hcl; [exact Hxz | eapply reach_trans; eassumption]. }
    assert (Hrl : In r l).
    { apply Hcl; [eapply reach_trans; eassumption | apply reach_refl]. }
    destruct (index_of_In r l Hrl) as [j Hj].
    pose proof (topo_index g l p r k j W T Hp Hk Hj).
    exists i, j. repeat split; [exact Hi | exact Hj | lia].
Qed.

(* if every element has an index <= the index of t, then t is the last one *)
Lemma firstn_all_le (l : list revid) t j : NoDup l -> index_of t l = Some j ->
  (forall x, In x l -> exists i, index_of x l = Some i /\ i <= j) ->
  firstn (j + 1) l = l /\ last_opt l = Some t.
Proof.
  intros ND Hj Hall.
  destruct (index_of_split t l j Hj) as [l1 [l2 [-> [HL HN]]]].
  destruct l2 as [|x l2].
  - split.
    + apply firstn_all2. rewrite app_length. cbn [length]. lia.
    + clear. induction l1 as [|a l1 IH]; [reflexivity|].
      cbn [app]. destruct (l1 ++ [t]) eqn:E; [destruct l1; discriminate|]. exact IH.
  - exfalso.
    destruct (Hall x) as [i [Hi Hle]]; [apply in_or_app; right; right; left; reflexivity|].
    assert (Hnx : ~ In x (l1 ++ [t])).
    { replace (l1 ++ t :: x :: l2) with ((l1 ++ [t]) ++ x :: l2) in ND
        by (rewrite <- app_assoc; reflexivity).
      apply NoDup_remove_2 in ND. intros Hin. apply ND. apply in_or_app. left. exact Hin. }
    replace (l1 ++ t :: x :: l2) with ((l1 ++ [t]) ++ x :: l2) in Hi
      by (rewrite <- app_assoc; reflexivity).
    rewrite (index_of_middle x _ _ Hnx) in Hi. inversion Hi. subst i.
    rewrite app_length in Hle. cbn [length] in Hle. lia.
Qed.

Lemma index_of_hd x l : index_of x (x :: l) = Some 0.
Proof. cbn [index_of]. rewrite Nat.eqb_refl. reflexivity. Qed.

(* ---- ascending revision numbers: a topological order that always exists ---- *)

Lemma topo_filter_seq g f : wf_dag g = true -> forall n a, a + n <= length g ->
  topo_sortedb g (filter f (seq a n)) = true.
Proof.
  intros W. induction n as [|n IH]; intros a H; [reflexivity|].
  cbn [seq filter]. destruct (f a); [|apply IH; lia].
  apply topo_sorted_cons. repeat split; [| |apply IH; lia].
  - intros Hin. apply filter_In in Hin as [Hin _]. apply in_seq in Hin. lia.
  - intros p Hp Hin. apply filter_In in Hin as [Hin _]. apply in_seq in Hin.
    destruct (wf_parents g a p W Hp); lia.
Qed.

Theorem asc_order_topo g keys : wf_dag g = true -> topo_order_of g keys (asc_order g keys) = true.
Proof.
  intros W. unfold topo_order_of, asc_order. apply andb_true_iff. split.
  - apply (topo_filter_seq g _ W). lia.
  - apply set_eqb_spec. intros x. rewrite !filter_In, in_seq, memb_In.
    unfold present. rewrite Nat.ltb_lt. split; [intros [[_ H1] H2]|intros [H1 H2]]; repeat split; auto; lia.
Qed.
