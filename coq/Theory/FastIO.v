(* Theory/FastIO.v -- facts about Model/FastIO.v and Model/FastHist.v (C44). *)
From Coq Require Import ZArith NArith List Bool String Lia.
From BV Require Import Lib.Bytes Lib.Obs Lib.Dag Lib.DagMergeSort Model.FastIO Model.FastHist.
Import ListNotations.
Open Scope N_scope.

(* ------------------------------------------------------------------ *)
(* well-formed inventories (executable)                                *)
(* ------------------------------------------------------------------ *)

Definition wf_inv (v : inv) : bool :=
  nodup_N (map e_id v) && names_unique v &&
  forallb (fun e => negb (e_id e =? 0) && is_dir v (e_par e) &&
                    match id2path v (e_id e) with Some _ => true | None => false end) v.

(* the target-side image of a source tree: import of the initial commit that adds everything *)
Definition image (plain : bool) (old : inv) : res (inv * N) :=
  let '(c, m) := filecmds plain [] old [] [] in import_commit [] 1000 (c ++ m).

(* ------------------------------------------------------------------ *)
(* generic list facts                                                  *)
(* ------------------------------------------------------------------ *)

Lemma In_insert_by {A} (ltb : A -> A -> bool) (x y : A) (l : list A) :
  In y (insert_by ltb x l) <-> y = x \/ In y l.
Proof.
  induction l as [|z l IH]; simpl.
  - split; intros [H|H]; auto; contradiction.
  - destruct (ltb x z); simpl.
    + split; intros H; destruct H as [H|H]; auto.
    + rewrite IH. split; intros H.
      * destruct H as [H|[H|H]]; auto.
      * destruct H as [H|[H|H]]; auto.
Qed.

Lemma In_sort_by {A} (ltb : A -> A -> bool) (y : A) (l : list A) :
  In y (sort_by ltb l) <-> In y l.
Proof.
  unfold sort_by. induction l as [|x l IH]; simpl.
  - tauto.
  - rewrite In_insert_by, IH. split; intros [H|H]; auto.
Qed.

Lemma find_entry_In (v : inv) (i : N) (e : entry) :
  find_entry v i = Some e -> In e v /\ e_id e = i.
Proof.
  induction v as [|x v IH]; simpl; [discriminate|].
  destruct (e_id x =? i) eqn:E.
  - intros H; inversion H; subst. apply N.eqb_eq in E. auto.
  - intros H; destruct (IH H); auto.
Qed.

Lemma nodup_N_cons (x : N) (l : list N) :
  nodup_N (x :: l) = true -> ~ In x l /\ nodup_N l = true.
Proof.
  simpl. intros H. apply andb_prop in H. destruct H as [H1 H2]. split; [|exact H2].
  intros HI. apply negb_true_iff in H1.
  assert (existsb (N.eqb x) l = true) as HE.
  { apply existsb_exists. exists x. split; [exact HI|apply N.eqb_refl]. }
  congruence.
Qed.

Lemma find_entry_nodup (v : inv) (e : entry) :
  nodup_N (map e_id v) = true -> In e v -> find_entry v (e_id e) = Some e.
Proof.
  induction v as [|x v IH]; simpl; [contradiction|].
  intros ND HI. fold (nodup_N (e_id x :: map e_id v)) in ND.
  apply nodup_N_cons in ND. destruct ND as [NI ND].
  destruct HI as [HI|HI].
  - subst. rewrite N.eqb_refl. reflexivity.
  - destruct (e_id x =? e_id e) eqn:E.
    + apply N.eqb_eq in E. exfalso. apply NI. rewrite E. apply in_map. exact HI.
    + apply IH; assumption.
Qed.

(* ------------------------------------------------------------------ *)
(* the exporter emits the new content of every added or changed leaf   *)
(* ------------------------------------------------------------------ *)

(* the accumulated `modifies` of the rename loop only grow, and a rename whose content or exec bit
   changed is recorded unless its old path is an empty directory *)
Definition rn_mods (s : rn_state) : list change := snd (fst (fst (fst s))).

Lemma rename_step_mods_mono plain old s c x :
  In x (rn_mods s) -> In x (rn_mods (rename_step plain old s c)).
Proof.
  destruct s as [[[[cmds mods] o2n] must] dels]. unfold rn_mods, rename_step. simpl.
  intros H.
  destruct (is_empty_dir old (c_op c)); simpl; [exact H|].
  destruct (content_or_meta_changed c); simpl; [apply in_or_app; left; exact H|exact H].
Qed.

Lemma fold_rename_mods_mono plain old l : forall s x,
  In x (rn_mods s) -> In x (rn_mods (fold_left (rename_step plain old) l s)).
Proof.
  induction l as [|c l IH]; simpl; intros s x H; [exact H|].
  apply IH. apply rename_step_mods_mono. exact H.
Qed.

Lemma rename_step_records plain old s c :
  is_empty_dir old (c_op c) = false -> content_or_meta_changed c = true ->
  In c (rn_mods (rename_step plain old s c)).
Proof.
  destruct s as [[[[cmds mods] o2n] must] dels]. unfold rn_mods, rename_step. simpl.
  intros HE HC. rewrite HE, HC. simpl. apply in_or_app. right. left. reflexivity.
Qed.

Lemma fold_rename_records plain old l : forall s c,
  In c l -> is_empty_dir old (c_op c) = false -> content_or_meta_changed c = true ->
  In c (rn_mods (fold_left (rename_step plain old) l s)).
Proof.
  induction l as [|d l IH]; simpl; intros s c HI HE HC; [contradiction|].
  destruct HI as [HI|HI].
  - subst. apply fold_rename_mods_mono. apply rename_step_records; assumption.
  - apply IH; assumption.
Qed.

Lemma process_mods plain renames deletes old c :
  In c renames -> is_empty_dir old (c_op c) = false -> content_or_meta_changed c = true ->
  In c (snd (process_renames_and_deletes plain renames deletes old)).
Proof.
  intros HI HE HC. unfold process_renames_and_deletes.
  pose proof (fold_rename_records plain old renames ([], [], [], [], map c_op deletes) c HI HE HC) as H.
  destruct (fold_left (rename_step plain old) renames ([], [], [], [], map c_op deletes))
    as [[[[cmds mods] o2n] must] dels]. simpl. exact H.
Qed.

Lemma In_both old new f o e :
  In o old -> find_entry new (e_id o) = Some e -> f o e = true ->
  In (mkC (e_id o) (opath old (e_id o)) (opath new (e_id o)) (Some o) (Some e)) (both old new f).
Proof.
  intros HI HF Hf. unfold both. apply In_sort_by. apply in_flat_map. exists o. split; [exact HI|].
  rewrite HF, Hf. left. reflexivity.
Qed.

(* an entry of the new tree needs an M command when it is new or its kind, content, target or
   executable bit differs from the old entry with the same file id *)
Definition needs_M (old : inv) (e : entry) : bool :=
  match find_entry old (e_id e) with
  | None => true
  | Some o => changed_content o e || negb (Bool.eqb (e_exec o) (e_exec e))
  end.

Definition old_is_dir (old : inv) (e : entry) : bool :=
  match find_entry old (e_id e) with Some o => kind_eqb (e_kind o) KDir | None => false end.

(* The statement excludes the case the code itself skips: a renamed entry whose OLD path is an empty
   directory (the `continue` in _process_renames_and_deletes drops its rename and its modification). *)
Theorem exporter_emits_changed_content (plain : bool) (old new : inv) (e : entry) :
  nodup_N (map e_id new) = true ->
  In e new ->
  kind_eqb (e_kind e) KDir = false ->
  needs_M old e = true ->
  (forall o, find_entry old (e_id e) = Some o -> renamed_b o e = true ->
             is_empty_dir old (opath old (e_id o)) = false) ->
  In (CM (opath new (e_id e)) (mode_of e) (e_data e)) (snd (mod_cmds plain old new)).
Proof.
  intros NDn HI HK HN HE.
  pose proof (find_entry_nodup new e NDn HI) as HFn.
  unfold mod_cmds.
  destruct (process_renames_and_deletes plain (d_renamed old new) (d_removed old new) old)
    as [cmds rd_mod] eqn:EP.
  simpl.
  assert (forall c, c_new c = Some e -> c_np c = opath new (e_id e) ->
                    In (CM (opath new (e_id e)) (mode_of e) (e_data e)) (modify_cmd plain c)) as HM.
  { intros c Hn Hp. unfold modify_cmd. rewrite Hn.
    destruct (e_kind e) eqn:K; simpl in HK; try discriminate; rewrite Hp; left; reflexivity. }
  apply in_flat_map.
  unfold needs_M in HN.
  destruct (find_entry old (e_id e)) as [o|] eqn:EF.
  - destruct (find_entry_In old (e_id e) o EF) as [HIo Hid].
    assert (find_entry new (e_id o) = Some e) as HFo by (rewrite Hid; exact HFn).
    exists (mkC (e_id o) (opath old (e_id o)) (opath new (e_id o)) (Some o) (Some e)).
    split; [|apply HM; simpl; [reflexivity|rewrite Hid; reflexivity]].
    destruct (renamed_b o e) eqn:ER.
    + (* renamed: recorded by the rename loop *)
      apply in_or_app. right. apply in_or_app. right. apply in_or_app. right.
      assert (In (mkC (e_id o) (opath old (e_id o)) (opath new (e_id o)) (Some o) (Some e))
                 (snd (process_renames_and_deletes plain (d_renamed old new) (d_removed old new) old))) as H.
      { apply process_mods.
        - unfold d_renamed. apply In_both; assumption.
        - simpl. apply HE; [reflexivity|exact ER].
        - unfold content_or_meta_changed. simpl. exact HN. }
      rewrite EP in H. exact H.
    + destruct (kind_eqb (e_kind o) (e_kind e)) eqn:EK.
      * (* modified *)
        apply in_or_app. right. apply in_or_app. left.
        unfold d_modified. apply In_both; try assumption.
        rewrite ER, EK, HN. reflexivity.
      * (* kind changed *)
        apply in_or_app. right. apply in_or_app. right. apply in_or_app. left.
        unfold d_kind_changed. apply In_both; try assumption.
        rewrite ER, EK. reflexivity.
  - (* added *)
    exists (mkC (e_id e) [] (opath new (e_id e)) None (Some e)).
    split; [|apply HM; reflexivity].
    apply in_or_app. left. unfold d_added. apply In_sort_by. apply in_flat_map.
    exists e. split; [exact HI|].
    unfold has_id. rewrite EF. left. reflexivity.
Qed.

(* the stream order of the M commands (taken from the environment) does not change which are emitted *)
Lemma take_path_In p l c rest :
  take_path p l = Some (c, rest) -> forall x, In x l <-> x = c \/ In x rest.
Proof.
  revert c rest. induction l as [|y l IH]; simpl; intros c rest H x; [discriminate|].
  destruct (bytes_eqb (cmd_path y) p).
  - inversion H; subst. split; intros [A|A]; auto.
  - destruct (take_path p l) as [[c' r']|] eqn:E; [|discriminate].
    inversion H; subst. specialize (IH c r' eq_refl x). simpl. rewrite IH.
    split; intros A.
    + destruct A as [A|[A|A]]; auto.
    + destruct A as [A|[A|A]]; auto.
Qed.

Lemma In_order_by mpaths : forall l x, In x (order_by mpaths l) <-> In x l.
Proof.
  induction mpaths as [|p ps IH]; simpl; intros l x; [tauto|].
  destruct (take_path p l) as [[c rest]|] eqn:E.
  - simpl. rewrite IH. rewrite (take_path_In p l c rest E x). split; intros [A|A]; auto.
  - apply IH.
Qed.

Theorem filecmds_emit_changed_content (plain : bool) (old new : inv) (mpaths dpaths : list path) (e : entry) :
  nodup_N (map e_id new) = true ->
  In e new ->
  kind_eqb (e_kind e) KDir = false ->
  needs_M old e = true ->
  (forall o, find_entry old (e_id e) = Some o -> renamed_b o e = true ->
             is_empty_dir old (opath old (e_id o)) = false) ->
  In (CM (opath new (e_id e)) (mode_of e) (e_data e)) (snd (filecmds plain old new mpaths dpaths)).
Proof.
  intros. unfold filecmds.
  pose proof (exporter_emits_changed_content plain old new e H H0 H1 H2 H3) as HM.
  destruct (mod_cmds plain old new) as [cmds mods]. simpl in *.
  apply In_order_by. apply In_sort_by. exact HM.
Qed.

(* ------------------------------------------------------------------ *)
(* tree level: the full statement is false (witnesses)                 *)
(* ------------------------------------------------------------------ *)

Definition bA : bytes := [97].   Definition bB : bytes := [98].   Definition bC : bytes := [99].
Definition bD : bytes := [100].  Definition bE : bytes := [101].
Definition tA : bytes := [65; 10]. Definition tB : bytes := [66; 10]. Definition tX : bytes := [88; 10].
Definition F (i par : N) (nm data : bytes) : entry := mkE i par nm KFile data false.
Definition Dr (i par : N) (nm : bytes) : entry := mkE i par nm KDir [] false.
Definition L (i par : N) (nm data : bytes) : entry := mkE i par nm KLink data false.

(* the round trip of one step on the imported image of the old tree *)
Definition step_tree (plain : bool) (old new : inv) : res (list titem) :=
  match image plain old with
  | Ok (b, fr) => roundtrip_tree plain b fr old new []
  | Fail e => Fail e
  end.

Definition wit_swap     := ([F 1 0 bA tA; F 2 0 bB tB], [F 1 0 bB tA; F 2 0 bA tB]).
Definition wit_clobber  := ([F 1 0 bA tA; F 2 0 bB tB], [F 1 0 bC tA; F 2 0 bA tB]).
Definition wit_chain    := ([F 1 0 bA tA; F 2 0 bB tB], [F 1 0 bB tA; F 2 0 bC tB]).
Definition wit_dirrename := ([Dr 1 0 bD; F 2 1 bA tA; F 3 1 bB tB], [Dr 1 0 bE; F 2 1 bA tX; F 3 1 bB tB]).
Definition wit_link_to_dir2 := ([L 1 0 bA bB], [Dr 1 0 bA; F 2 1 bB tA; F 3 1 bC tB]).
Definition wit_dir_to_file := ([Dr 1 0 bA; F 2 1 bB tA], [F 1 0 bA tB; F 2 0 bB tA]).
Definition wit_link_to_emptydir := ([L 1 0 bA bB; F 2 0 bB tA], [Dr 1 0 bA; F 2 0 bB tA]).
Definition wit_emptydir := ([Dr 1 0 bD; F 2 0 bA tA], [Dr 1 0 bD; F 2 0 bA tB]).

(* a witness refutes the tree-level statement: both trees are well formed, the old tree is imported
   faithfully (so the basis of the step shows exactly the old tree), and the step does not yield the new tree *)
Definition refutes (plain : bool) (w : inv * inv) : Prop :=
  wf_inv (fst w) = true /\ wf_inv (snd w) = true /\
  (exists b fr, image plain (fst w) = Ok (b, fr) /\ tree_of b = tree_of (fst w)) /\
  step_tree plain (fst w) (snd w) <> Ok (tree_of (snd w)).

(* ... and a witness on which the step is exact *)
Definition exact_on (plain : bool) (w : inv * inv) : Prop :=
  wf_inv (fst w) = true /\ wf_inv (snd w) = true /\
  (exists b fr, image plain (fst w) = Ok (b, fr) /\ tree_of b = tree_of (fst w)) /\
  step_tree plain (fst w) (snd w) = Ok (tree_of (snd w)).

Ltac image_ok :=
  match goal with |- exists b fr, ?i = _ /\ _ =>
    let r := fresh "r" in let E := fresh "E" in
    remember i as r eqn:E; vm_compute in E; rewrite E;
    eexists; eexists; split; [reflexivity|vm_compute; reflexivity]
  end.

Ltac refute :=
  unfold refutes; split; [vm_compute; reflexivity|];
  split; [vm_compute; reflexivity|];
  split; [image_ok | let H := fresh "H" in vm_compute; intro H; discriminate H ].

Ltac exact_step :=
  unfold exact_on; split; [vm_compute; reflexivity|];
  split; [vm_compute; reflexivity|];
  split; [image_ok | vm_compute; reflexivity ].

(* still wrong: rename order (swap, rename onto a vacated path, chain) and a directory replaced by a file
   while its child is renamed out *)
Lemma swap_refutes : refutes true wit_swap.            Proof. refute. Qed.
Lemma clobber_refutes : refutes true wit_clobber.      Proof. refute. Qed.
Lemma chain_refutes : refutes true wit_chain.          Proof. refute. Qed.
Lemma dir_to_file_refutes : refutes true wit_dir_to_file.    Proof. refute. Qed.

(* repaired (ff45d1e, 62f284f): directory rename with a modified child; symlink replaced by a directory
   with two files *)
Lemma dirrename_exact : exact_on true wit_dirrename.         Proof. exact_step. Qed.
Lemma link_to_dir2_exact : exact_on true wit_link_to_dir2.   Proof. exact_step. Qed.

(* a symlink that becomes an empty directory: the link is deleted now; the empty directory itself cannot
   be carried by a plain stream *)
Lemma link_to_emptydir_leaf :
  step_tree true (fst wit_link_to_emptydir) (snd wit_link_to_emptydir) = Ok (tree_of [F 2 0 bB tA]).
Proof. vm_compute. reflexivity. Qed.
