(* Theory/ThreeWay.v -- laws of the generated merge decision kernels (C18).
   Everything is proved for an arbitrary value type with a decidable equality
   and for LCA lists of any length. *)
From Coq Require Import List Bool Arith Lia.
From BV Require Import Lib.PyPrim Gen.ThreeWay.
Import ListNotations.

Section Laws.
Variable A : Type.
Variable A_eqb : A -> A -> bool.
Hypothesis A_eqb_spec : forall x y, A_eqb x y = true <-> x = y.

Local Notation three_way := (three_way A A_eqb).
Local Notation lca_multi_way := (lca_multi_way A A_eqb).

Lemma eqb_refl x : A_eqb x x = true.
Proof. apply A_eqb_spec. reflexivity. Qed.
Lemma eqb_true x y : A_eqb x y = true -> x = y.
Proof. apply A_eqb_spec. Qed.
Lemma eqb_false x y : A_eqb x y = false -> x <> y.
Proof. intros H E. apply A_eqb_spec in E. congruence. Qed.
Lemma eqb_neq x y : x <> y -> A_eqb x y = false.
Proof. intros H. destruct (A_eqb x y) eqn:E; [apply eqb_true in E; contradiction|reflexivity]. Qed.

Ltac eqb_cases :=
  repeat match goal with
         | |- context[A_eqb ?x ?y] => let E := fresh "E" in destruct (A_eqb x y) eqn:E
         end;
  repeat match goal with
         | H : A_eqb _ _ = true |- _ => apply eqb_true in H
         | H : A_eqb _ _ = false |- _ => apply eqb_false in H
         end;
  subst; simpl; try congruence.

Lemma py_in_In x l : py_in A_eqb x l = true <-> In x l.
Proof.
  induction l as [|y l IH]; simpl; [split; [discriminate|tauto]|].
  rewrite orb_true_iff, IH. split; intros [H|H]; auto.
  - left. symmetry. apply eqb_true. exact H.
  - left. subst. apply eqb_refl.
Qed.
Lemma py_in_false x l : py_in A_eqb x l = false <-> ~ In x l.
Proof.
  rewrite <- py_in_In. destruct (py_in A_eqb x l); split; congruence.
Qed.

Lemma In_py_set x l : In x (py_set A_eqb l) <-> In x l.
Proof.
  induction l as [|y l IH]; simpl; [tauto|].
  rewrite filter_In, IH. split.
  - intros [H|[H _]]; auto.
  - intros [H|H]; auto.
    destruct (A_eqb x y) eqn:E; [left; symmetry; apply eqb_true; exact E|].
    right. split; [exact H|]. reflexivity.
Qed.

Lemma filter_nil_all (f : A -> bool) l : (forall x, In x l -> f x = false) -> filter f l = [].
Proof.
  induction l as [|y l IH]; simpl; intros H; [reflexivity|].
  rewrite (H y) by auto. apply IH. intros x Hx. apply H. auto.
Qed.

Lemma py_set_all_same v l : l <> [] -> (forall x, In x l -> x = v) -> py_set A_eqb l = [v].
Proof.
  intros Hne H. destruct l as [|y l]; [congruence|]. simpl.
  rewrite (H y) by (simpl; auto). f_equal.
  apply filter_nil_all. intros x Hx. apply (proj1 (In_py_set _ _)) in Hx.
  rewrite (H x) by (simpl; auto). rewrite eqb_refl. reflexivity.
Qed.

(* ---- three_way ------------------------------------------------------- *)

Lemma three_way_symmetric b o t :
  t <> o -> three_way b t o = winner_swap (three_way b o t).
Proof. intros H. unfold ThreeWay.three_way. simpl. eqb_cases. Qed.

Lemma three_way_tie b v : three_way b v v = W_this.
Proof. unfold ThreeWay.three_way. simpl. eqb_cases. Qed.

Lemma three_way_unchanged_this b o : o <> b -> three_way b o b = W_other.
Proof. intros H. unfold ThreeWay.three_way. simpl. eqb_cases. Qed.

Lemma three_way_unchanged_other b t : three_way b b t = W_this.
Proof. unfold ThreeWay.three_way. simpl. eqb_cases. Qed.

Lemma three_way_both_changed b o t :
  o <> b -> t <> b -> t <> o -> three_way b o t = W_conflict.
Proof. intros. unfold ThreeWay.three_way. simpl. eqb_cases. Qed.

(* ---- lca_multi_way --------------------------------------------------- *)

Lemma lca_tie b lcas v allow : lca_multi_way (b, lcas) v v allow = W_this.
Proof. unfold ThreeWay.lca_multi_way. rewrite eqb_refl. reflexivity. Qed.

Lemma lca_symmetric b lcas o t allow :
  t <> o ->
  lca_multi_way (b, lcas) t o allow = winner_swap (lca_multi_way (b, lcas) o t allow).
Proof.
  intros H. unfold ThreeWay.lca_multi_way.
  rewrite (eqb_neq t o) by exact H. rewrite (eqb_neq o t) by congruence.
  destruct (Nat.eqb _ 0); [apply three_way_symmetric; exact H|].
  destruct (py_set A_eqb _) as [|x [|y u]]; cycle 1.
  - apply three_way_symmetric; exact H.
  - destruct allow; [|reflexivity].
    destruct (py_in A_eqb t (x :: y :: u)), (py_in A_eqb o (x :: y :: u)); reflexivity.
  - destruct allow; [|reflexivity]. reflexivity.
Qed.

Lemma length_zero_nil {B} (l : list B) : Nat.eqb (length l) 0 = true <-> l = [].
Proof. destruct l; simpl; split; congruence. Qed.

(* all ancestors (base and every LCA) carry the same value *)
Lemma lca_consistent_base b lcas o t allow :
  (forall l, In l lcas -> l = b) ->
  lca_multi_way (b, lcas) o t allow = three_way b o t.
Proof.
  intros H. unfold ThreeWay.lca_multi_way.
  destruct (A_eqb o t) eqn:E.
  - apply eqb_true in E. subst. symmetry. apply three_way_tie.
  - rewrite filter_nil_all; [reflexivity|].
    intros x Hx. rewrite (H x Hx), eqb_refl. reflexivity.
Qed.

(* all LCAs carry one value v (whatever the base is) *)
Lemma lca_consistent b lcas v o t allow :
  lcas <> [] -> (forall l, In l lcas -> l = v) ->
  lca_multi_way (b, lcas) o t allow = three_way v o t.
Proof.
  intros Hne H.
  destruct (A_eqb v b) eqn:Evb.
  - apply eqb_true in Evb. subst v. apply lca_consistent_base. exact H.
  - unfold ThreeWay.lca_multi_way.
    destruct (A_eqb o t) eqn:E.
    + apply eqb_true in E. subst. symmetry. apply three_way_tie.
    + assert (filter (fun lca_val => negb (A_eqb lca_val b)) lcas = lcas) as ->.
      { clear Hne. induction lcas as [|y l IH]; [reflexivity|]. simpl.
        rewrite (H y) by (simpl; auto). rewrite Evb. simpl. f_equal.
        apply IH. intros x Hx. apply H. simpl; auto. }
      destruct (Nat.eqb (length lcas) 0) eqn:El.
      * apply length_zero_nil in El. contradiction.
      * rewrite (py_set_all_same v lcas Hne H). reflexivity.
Qed.

(* a side that did not change relative to the ancestors never wins against one that did *)
Lemma lca_unchanged_this_never_wins b lcas o t allow :
  In t (b :: lcas) -> ~ In o (b :: lcas) ->
  lca_multi_way (b, lcas) o t allow <> W_this.
Proof.
  intros Ht Ho. unfold ThreeWay.lca_multi_way.
  assert (o <> t) as Hot by (intros ->; contradiction).
  rewrite (eqb_neq o t Hot).
  assert (o <> b) as Hob by (intros ->; apply Ho; simpl; auto).
  set (f := filter (fun lca_val => negb (A_eqb lca_val b)) lcas).
  assert (Hf : forall x, In x f <-> In x lcas /\ x <> b).
  { intros x. unfold f. rewrite filter_In, negb_true_iff. split; intros [H1 H2]; split; auto.
    - apply eqb_false. exact H2.
    - apply eqb_neq. exact H2. }
  destruct (Nat.eqb (length f) 0) eqn:El.
  - apply length_zero_nil in El.
    assert (t = b) as ->.
    { destruct Ht as [Ht|Ht]; [auto|].
      destruct (A_eqb t b) eqn:E; [apply eqb_true; exact E|].
      apply eqb_false in E. assert (In t f) as Hin by (apply Hf; auto).
      rewrite El in Hin. contradiction. }
    rewrite three_way_unchanged_this by exact Hob. discriminate.
  - assert (Hu : forall x, In x (py_set A_eqb f) <-> In x lcas /\ x <> b)
      by (intros x; rewrite In_py_set; apply Hf).
    destruct (py_set A_eqb f) as [|x [|y u]] eqn:Eu.
    + destruct allow; [|discriminate]. simpl. discriminate.
    + (* single unique LCA value x *)
      assert (In x lcas /\ x <> b) as [Hx Hxb] by (apply Hu; simpl; auto).
      assert (o <> x) as Hox by (intros ->; apply Ho; simpl; auto).
      unfold ThreeWay.three_way. simpl.
      rewrite (eqb_neq x o) by congruence.
      destruct (A_eqb t x) eqn:Etx; simpl.
      * rewrite (eqb_neq t o) by congruence. discriminate.
      * rewrite (eqb_neq t o) by congruence. simpl. discriminate.
    + destruct allow; [|discriminate].
      assert (py_in A_eqb o (x :: y :: u) = false) as ->.
      { apply py_in_false. intros Hin. apply Hu in Hin as [Hin _]. apply Ho. simpl; auto. }
      destruct (py_in A_eqb t (x :: y :: u)); discriminate.
Qed.

Lemma lca_unchanged_other_never_wins b lcas o t allow :
  In o (b :: lcas) -> ~ In t (b :: lcas) ->
  lca_multi_way (b, lcas) o t allow <> W_other.
Proof.
  intros Ho Ht.
  assert (o <> t) as Hot by (intros ->; contradiction).
  rewrite (lca_symmetric b lcas t o allow) by exact Hot.
  pose proof (lca_unchanged_this_never_wins b lcas t o allow Ho Ht) as H.
  destruct (lca_multi_way (b, lcas) t o allow); simpl; congruence.
Qed.

(* sharper: with all ancestors equal, the changed side wins outright *)
Lemma lca_changed_other_wins b lcas o allow :
  (forall l, In l lcas -> l = b) -> o <> b ->
  lca_multi_way (b, lcas) o b allow = W_other.
Proof.
  intros H Ho. rewrite lca_consistent_base by exact H.
  apply three_way_unchanged_this. exact Ho.
Qed.

End Laws.

(* non-vacuity: concrete values meeting the hypotheses *)
Example c18_nonvacuous :
  lca_multi_way nat Nat.eqb (0, [1; 2]) 3 1 true = W_other /\
  lca_multi_way nat Nat.eqb (0, [1; 2]) 1 2 true = W_conflict /\
  lca_multi_way nat Nat.eqb (0, [1; 1]) 1 2 true = three_way nat Nat.eqb 1 1 2 /\
  three_way nat Nat.eqb 0 1 0 = W_other.
Proof. repeat split. Qed.
