(* Theory/Reconf52Gen.v -- tie T for C52: the programs that tools/py2coq.py regenerates from
   breezy/reconfigure.py on every run (Gen/Reconfigure.v: rc__plan_changes, rc__set_use_shared,
   rc_changes_planned), run by the interpreter of Lib/PyImp.v, compute exactly the hand functions
   plan_changes / set_use_shared / changes_planned of Model/Reconf52.v -- on EVERY input (the input
   domain is finite: the facts Reconfigure.__init__ collects and the four wanted flags).
   A change of the Python source changes the generated program and these proofs stop closing. *)
From Coq Require Import ZArith List String Bool.
Import ListNotations.
From BV Require Import Lib.PyImp Gen.Reconfigure Model.Reconf52.
Open Scope string_scope.
Open Scope list_scope.

(* an attribute that holds an object or None *)
Definition vobj (b : bool) : val := if b then VTok 0 else VNone.

(* the abstraction of the attributes _plan_changes reads (see the exp_map of harness/props/c52.py):
   repo_is_local   = (self.repository.user_url == self.controldir.user_url)
   repo_is_shared  = self.repository.is_shared()
   bound_location  = self.local_branch.get_bound_location() *)
Definition plan_store (p : plan) : store :=
  [("_unbind", VBool (p_unbind p)); ("_bind", VBool (p_bind p));
   ("_destroy_reference", VBool (p_destroy_reference p)); ("_create_reference", VBool (p_create_reference p));
   ("_destroy_branch", VBool (p_destroy_branch p)); ("_create_branch", VBool (p_create_branch p));
   ("_destroy_tree", VBool (p_destroy_tree p)); ("_create_tree", VBool (p_create_tree p));
   ("_create_repository", VBool (p_create_repository p)); ("_destroy_repository", VBool (p_destroy_repository p))].

Definition facts_store (f : facts) : store :=
  [("repository", vobj (is_some (f_repo f)));
   ("local_repository", vobj (match f_repo f with Some (true, _) => true | _ => false end));
   ("referenced_branch", vobj (f_ref f));
   ("local_branch", vobj (is_some (f_lb f)));
   ("tree", vobj (f_tree f));
   ("repo_is_local", VBool (match f_repo f with Some (l, _) => l | None => false end));
   ("repo_is_shared", VBool (match f_repo f with Some (_, s) => s | None => false end));
   ("bound_location", vobj (match f_lb f with Some b => b | None => false end))].

Definition getb (s : store) (k : string) : option bool :=
  match lookup k s with Some (VBool b) => Some b | _ => None end.

Definition plan_of_store (s : store) : option plan :=
  match getb s "_unbind", getb s "_bind", getb s "_destroy_reference", getb s "_create_reference",
        getb s "_destroy_branch", getb s "_create_branch", getb s "_destroy_tree", getb s "_create_tree",
        getb s "_create_repository", getb s "_destroy_repository" with
  | Some a, Some b, Some c, Some d, Some e, Some f, Some g, Some h, Some i, Some j =>
      Some (mkPlan a b c d e f g h i j None)
  | _, _, _, _, _, _, _, _, _, _ => None
  end.

(* Reconfigure(...)._plan_changes(want_tree, want_branch, want_bound, want_reference) on a fresh object *)
Definition gen_plan_changes (f : facts) (wt wb wbd wr : bool) : flow * option plan :=
  let r := run_method rc__plan_changes
                      [("want_tree", VBool wt); ("want_branch", VBool wb); ("want_bound", VBool wbd);
                       ("want_reference", VBool wr)]
                      (plan_store plan0 ++ facts_store f) [] in
  (r_flow r, plan_of_store (r_self r)).

Theorem gen_plan_changes_correct : forall f wt wb wbd wr,
  gen_plan_changes f wt wb wbd wr =
  match plan_changes f wt wb wbd wr with
  | Some p => (FReturn VNone, Some p)
  | None => (FRaise "ReconfigurationNotSupported", Some plan0)
  end.
Proof.
  intros [[[[] []]|] [] [[]|] []] [] [] [] []; vm_compute; reflexivity.
Qed.

Definition gen_set_use_shared (local_repository use_shared : bool) : flow * option plan :=
  let r := run_method rc__set_use_shared [("use_shared", VBool use_shared)]
                      (plan_store plan0 ++ [("local_repository", vobj local_repository)]) [] in
  (r_flow r, plan_of_store (r_self r)).

Theorem gen_set_use_shared_correct : forall lr us,
  gen_set_use_shared lr us = (FReturn VNone, Some (set_use_shared lr us)).
Proof. intros [] []; vm_compute; reflexivity. Qed.

Definition gen_changes_planned (p : plan) : flow :=
  r_flow (run_method rc_changes_planned [] (plan_store p) []).

Theorem gen_changes_planned_correct : forall p,
  gen_changes_planned p = FReturn (VBool (changes_planned p)).
Proof.
  intros [[] [] [] [] [] [] [] [] [] [] o]; vm_compute; reflexivity.
Qed.

(* the hypotheses are satisfiable by a non-trivial value: a standalone tree asked to become a
   lightweight checkout plans create_reference, destroy_branch, destroy_repository *)
Example gen_plan_example :
  gen_plan_changes (mkFacts (Some (true, false)) false (Some false) true) true false false true
  = (FReturn VNone, Some (mkPlan false false false true true false false false false true None)).
Proof. vm_compute. reflexivity. Qed.
