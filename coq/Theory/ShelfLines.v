(* Theory/ShelfLines.v -- proofs about Model/ShelfLines.v (C15, hunk selection), on top of the
   patch theory of C39 (Theory/Patch.v). *)
From Coq Require Import NArith ZArith List Bool Lia.
From BV Require Import Lib.Bytes Lib.Obs Model.Patch Theory.Patch Model.ShelfLines.
Import ListNotations.

(* ------------------------------------------------------------------ hunks that fit a text *)
Fixpoint fits (hs : list hunk) (rest : list line) (p : nat) : Prop :=
  match hs with
  | [] => True
  | h :: r =>
      let k := orig_pos h - S p in
      let old := old_side (hlines h) in
      S p <= orig_pos h /\ k + length old <= length rest
      /\ firstn (length old) (skipn k rest) = old
      /\ fits r (skipn (k + length old) rest) (p + k + length old)
  end.

Lemma segs_of_cons h r rest p :
  segs_of (h :: r) rest p =
  let k := orig_pos h - S p in
  let old := old_side (hlines h) in
  (Seg (firstn k rest) old (new_side (hlines h))
     :: fst (segs_of r (skipn (k + length old) rest) (p + k + length old)),
   snd (segs_of r (skipn (k + length old) rest) (p + k + length old))).
Proof. cbn [segs_of]. destruct (segs_of r _ _); reflexivity. Qed.

Lemma segs_of_length hs : forall rest p, length (fst (segs_of hs rest p)) = length hs.
Proof.
  induction hs as [|h r IH]; intros rest p; [reflexivity|].
  rewrite segs_of_cons. cbn [fst length]. rewrite IH. reflexivity.
Qed.

Lemma fits_split h rest p :
  let k := orig_pos h - S p in
  let old := old_side (hlines h) in
  k + length old <= length rest -> firstn (length old) (skipn k rest) = old ->
  rest = firstn k rest ++ old ++ skipn (k + length old) rest.
Proof.
  intros k old L E. rewrite <- (firstn_skipn k rest) at 1. f_equal.
  rewrite <- (firstn_skipn (length old) (skipn k rest)) at 1. rewrite E. f_equal.
  rewrite skipn_add. reflexivity.
Qed.

(* MAIN LEMMA: applying any sub-list of fitting hunks replaces exactly the selected segments.
   [pre] are lines before the first segment that are still to be copied (p0 <= p). *)
Lemma apply_keep hs : forall rest p, fits hs rest p -> forall mask p0 pre,
  p0 <= p -> length pre = p - p0 ->
  exists out rest2 ln,
    apply_hunks (keep mask hs) (pre ++ rest) (S p0) = inr (out, rest2, ln)
    /\ out ++ rest2 = pre ++ render (fst (segs_of hs rest p)) mask (snd (segs_of hs rest p)).
Proof.
  induction hs as [|h r IH]; intros rest p F mask p0 pre Hp Hl.
  - cbn. exists [], (pre ++ rest), (S p0). split; reflexivity.
  - cbn [fits] in F. destruct F as (F1 & F2 & F3 & F4).
    pose proof (fits_split h rest p F2 F3) as R.
    rewrite segs_of_cons. cbn zeta. cbn [fst snd render sgap sold snew].
    set (k := orig_pos h - S p) in *. set (old := old_side (hlines h)) in *.
    set (rest' := skipn (k + length old) rest) in *.
    set (p' := p + k + length old) in *.
    assert (Lk : length (firstn k rest) = k) by (apply firstn_length_le; lia).
    cbn [keep]. destruct (hd false mask) eqn:M.
    + cbn [apply_hunks].
      assert (K0 : orig_pos h - S p0 = length pre + k) by (unfold k; lia).
      rewrite K0.
      assert (L : length (pre ++ rest) <? length pre + k = false).
      { apply Nat.ltb_ge. rewrite app_length. lia. }
      rewrite L.
      assert (SK : skipn (length pre + k) (pre ++ rest) = old ++ rest').
      { rewrite skipn_app. rewrite skipn_all2 by lia.
        replace (length pre + k - length pre) with k by lia. cbn [app].
        rewrite R at 1. rewrite skipn_app, Lk, Nat.sub_diag. cbn [skipn].
        rewrite skipn_all2 by lia. reflexivity. }
      rewrite SK. unfold old at 1. rewrite apply_lines_app. fold old.
      destruct (IH rest' p' F4 (tl mask) p' [] (Nat.le_refl _)) as (out2 & rest2 & ln2 & A2 & E2);
        [cbn; lia|].
      cbn [app] in A2, E2.
      replace (S p0 + (length pre + k) + length old) with (S p') by (unfold p'; lia).
      rewrite A2. eexists _, _, _. split; [reflexivity|].
      assert (FK : firstn (length pre + k) (pre ++ rest) = pre ++ firstn k rest).
      { rewrite firstn_app. rewrite firstn_all2 by lia.
        replace (length pre + k - length pre) with k by lia. reflexivity. }
      rewrite FK. rewrite <- !app_assoc. rewrite E2. reflexivity.
    + destruct (IH rest' p' F4 (tl mask) p0 (pre ++ firstn k rest ++ old)) as (out2 & rest2 & ln2 & A2 & E2).
      * unfold p'. lia.
      * rewrite !app_length, Lk. unfold p'. lia.
      * assert (EQ : (pre ++ firstn k rest ++ old) ++ rest' = pre ++ rest).
        { rewrite <- !app_assoc. f_equal. symmetry. exact R. }
        rewrite EQ in A2. exists out2, rest2, ln2. split; [exact A2|].
        rewrite E2. rewrite <- !app_assoc. reflexivity.
Qed.

Lemma render_none ss : forall mask tail, forallb negb mask = true ->
  render ss mask tail = render ss [] tail.
Proof.
  induction ss as [|s r IH]; intros mask tail H; [reflexivity|].
  destruct mask as [|m mask]; [reflexivity|].
  cbn [forallb] in H. apply andb_prop in H as [H1 H2]. destruct m; [discriminate|].
  cbn [render hd tl]. rewrite (IH mask tail H2). reflexivity.
Qed.

(* with no hunk selected the text is unchanged *)
Lemma render_nil_fits hs : forall rest p, fits hs rest p ->
  render (fst (segs_of hs rest p)) [] (snd (segs_of hs rest p)) = rest.
Proof.
  induction hs as [|h r IH]; intros rest p F; [reflexivity|].
  cbn [fits] in F. destruct F as (F1 & F2 & F3 & F4).
  pose proof (fits_split h rest p F2 F3) as R.
  rewrite segs_of_cons. cbn zeta. cbn [fst snd render sgap sold snew hd tl].
  rewrite (IH _ _ F4). symmetry. exact R.
Qed.

(* ------------------------------------------------------------------ the hunks of a diff fit its old text *)
Section Generated.
Variables a b : list line.

Lemma gchain_fits gs : forall p q, gchain a b gs p q -> p <= length a -> q <= length b ->
  fits (map (group_hunk a b) gs) (skipn p a) p
  /\ render (fst (segs_of (map (group_hunk a b) gs) (skipn p a) p)) (repeat true (length gs))
            (snd (segs_of (map (group_hunk a b) gs) (skipn p a) p)) = skipn q b.
Proof.
  induction gs as [|g r IH]; intros p q H Hp Hq.
  - cbn in H. cbn. split; [exact I|exact H].
  - cbn [gchain] in H. destruct H as (i0 & j0 & i' & j' & Hne & G & C & R).
    destruct G as (G1 & G2 & G3 & G4 & G5 & G6).
    pose proof (chain_mono a b _ _ _ _ _ C) as [M1 M2].
    destruct (chain_bound a b _ _ _ _ _ C) as [B1 B2]; try lia.
    destruct (chain_sides a b _ _ _ _ _ C) as [O N].
    assert (F : oi1 (first_op g) = i0).
    { destruct g as [|o g']; [congruence|]. cbn [chain] in C. unfold first_op. cbn [hd]. tauto. }
    destruct (IH i' j' R B1 B2) as [IF IR].
    assert (OP : orig_pos (group_hunk a b g) = S i0) by (unfold group_hunk; cbn [orig_pos]; rewrite F; reflexivity).
    assert (HL : hlines (group_hunk a b g) = flat_map (op_hlines a b) g) by reflexivity.
    assert (LO : length (slice a i0 i') = i' - i0) by (apply slice_length; lia).
    assert (SK : skipn (i0 - p) (skipn p a) = skipn i0 a).
    { rewrite <- skipn_add. f_equal. lia. }
    assert (SK2 : skipn (i0 - p + (i' - i0)) (skipn p a) = skipn i' a).
    { rewrite <- skipn_add. f_equal. lia. }
    cbn [map length repeat]. split.
    + cbn [fits]. rewrite OP, HL, O, LO.
      replace (S i0 - S p) with (i0 - p) by lia.
      split; [lia|]. split; [rewrite skipn_length; lia|]. split.
      * rewrite SK. reflexivity.
      * rewrite SK2. replace (p + (i0 - p) + (i' - i0)) with i' by lia. exact IF.
    + rewrite segs_of_cons. cbn zeta. rewrite OP, HL, O, N, LO.
      replace (S i0 - S p) with (i0 - p) by lia.
      rewrite SK2. replace (p + (i0 - p) + (i' - i0)) with i' by lia.
      cbn [fst snd render sgap sold snew hd tl]. rewrite IR.
      change (firstn (i0 - p) (skipn p a)) with (slice a p i0). rewrite G6.
      rewrite <- (skipn_slice b j0 j') by lia. rewrite <- (skipn_slice b q j0) by lia. reflexivity.
Qed.

End Generated.

(* the first-hunk header work-around changes neither applying nor the segments *)
Lemma keep_fix_hdr a b h r mask rest :
  apply_hunks (keep mask (fix_hdr a b h :: r)) rest 1 = apply_hunks (keep mask (h :: r)) rest 1.
Proof.
  cbn [keep]. destruct (hd false mask); [apply apply_hunks_fix_hdr|reflexivity].
Qed.

Lemma fix_hdr_hlines a b h : hlines (fix_hdr a b h) = hlines h.
Proof.
  unfold fix_hdr. destruct a; [destruct (_ && _); reflexivity|].
  destruct b; [destruct (_ && _); reflexivity|reflexivity].
Qed.

Lemma fix_hdr_orig a b h : orig_pos (fix_hdr a b h) - 1 = orig_pos h - 1.
Proof.
  unfold fix_hdr. destruct a.
  - destruct (Nat.eqb (orig_pos h) 1 && Nat.eqb (orig_range h) 0) eqn:E; [|reflexivity].
    apply andb_prop in E as [E _]. apply Nat.eqb_eq in E. cbn [orig_pos]. rewrite E. reflexivity.
  - destruct b; [destruct (_ && _); reflexivity|reflexivity].
Qed.

Lemma segs_of_fix_hdr a b h r rest : segs_of (fix_hdr a b h :: r) rest 0 = segs_of (h :: r) rest 0.
Proof. rewrite !segs_of_cons. cbn zeta. rewrite fix_hdr_hlines, fix_hdr_orig. reflexivity. Qed.

Lemma mk_hunks_length a b ops n : length (mk_hunks a b ops n) = length (group_opcodes n ops).
Proof.
  unfold mk_hunks. rewrite <- (map_length (group_hunk a b) (group_opcodes n ops)).
  destruct (map (group_hunk a b) (group_opcodes n ops)); reflexivity.
Qed.

(* applying ANY subset of the hunks of a diff to its old text never conflicts and gives the old text
   with exactly the selected segments replaced *)
Theorem apply_keep_generated a b ops n mask :
  valid_opcodes a b ops = true ->
  let hs := mk_hunks a b ops n in
  apply a (keep mask hs) = inr (render (fst (segs_of hs a 0)) mask (snd (segs_of hs a 0))).
Proof.
  intros V hs. pose proof (groups_valid a b n ops V) as G.
  destruct (gchain_fits a b _ 0 0 G) as [F _]; try lia. cbn [skipn] in F.
  destruct (apply_keep _ _ _ F mask 0 [] (Nat.le_refl _) eq_refl) as (out & rest & ln & A & E).
  cbn [app] in A, E. unfold apply. subst hs. unfold mk_hunks.
  destruct (map (group_hunk a b) (group_opcodes n ops)) as [|h r] eqn:M.
  - rewrite A, E. reflexivity.
  - rewrite keep_fix_hdr, segs_of_fix_hdr, A, E. reflexivity.
Qed.

Theorem render_all_generated a b ops n :
  valid_opcodes a b ops = true ->
  let hs := mk_hunks a b ops n in
  render (fst (segs_of hs a 0)) (repeat true (length hs)) (snd (segs_of hs a 0)) = b
  /\ render (fst (segs_of hs a 0)) [] (snd (segs_of hs a 0)) = a.
Proof.
  intros V hs. pose proof (groups_valid a b n ops V) as G.
  destruct (gchain_fits a b _ 0 0 G) as [F R]; try lia. cbn [skipn] in F, R.
  pose proof (render_nil_fits _ _ _ F) as Z.
  subst hs. rewrite mk_hunks_length. unfold mk_hunks.
  rewrite <- (map_length (group_hunk a b) (group_opcodes n ops)) in *.
  destruct (map (group_hunk a b) (group_opcodes n ops)) as [|h r] eqn:M.
  - split; assumption.
  - rewrite segs_of_fix_hdr. split; assumption.
Qed.

(* ------------------------------------------------------------------ _select_hunks *)
Lemma final_hunks_keep invert hs : forall answers off,
  map fst (select_loop invert hs answers off) = keep (kept_mask invert (length hs) answers) hs.
Proof.
  induction hs as [|h r IH]; intros answers off; [reflexivity|].
  cbn [select_loop length kept_mask keep hd tl].
  destruct (if invert then hd false answers else negb (hd false answers)); cbn [map fst]; rewrite IH; reflexivity.
Qed.

Lemma kept_mask_false_pad n : forall answers, kept_mask false n answers = map negb (pad n answers).
Proof. induction n as [|n IH]; intros answers; [reflexivity|]. cbn [kept_mask pad map]. rewrite IH. reflexivity. Qed.

Lemma kept_mask_true_pad n : forall answers, kept_mask true n answers = pad n answers.
Proof. induction n as [|n IH]; intros answers; [reflexivity|]. cbn [kept_mask pad]. rewrite IH. reflexivity. Qed.

Lemma count_keep mask : forall hs, length mask = length hs ->
  length (keep mask hs) = length (filter (fun x => x) mask).
Proof.
  induction mask as [|m mask IH]; intros [|h r] L; try discriminate; [reflexivity|].
  cbn [keep hd tl filter]. injection L as L. destruct m; cbn [length]; rewrite IH by exact L; reflexivity.
Qed.

Lemma pad_length n : forall answers, length (pad n answers) = n.
Proof. induction n as [|n IH]; intros answers; [reflexivity|]. cbn [pad length]. rewrite IH. reflexivity. Qed.

Lemma filter_negb_count (l : list bool) :
  length (filter (fun x => x) (map negb l)) + length (filter (fun x => x) l) = length l.
Proof. induction l as [|x l IH]; [reflexivity|]. destruct x; cbn [map negb filter length]; lia. Qed.

(* shelve (invert_diff = False): the tree text is the target with exactly the NOT shelved hunks,
   there is never a PatchConflict, and change_count is the number of shelved hunks *)
Theorem select_hunks_shelve a b ops n answers :
  valid_opcodes a b ops = true ->
  let hs := mk_hunks a b ops n in
  select_hunks false a hs answers = inr (tree_text a hs answers)
  /\ change_count false hs answers = length (filter (fun x => x) (pad (length hs) answers)).
Proof.
  intros V hs. unfold select_hunks, final_hunks, change_count, tree_text.
  rewrite final_hunks_keep. split.
  - rewrite (apply_keep_generated a b ops n _ V). fold hs.
    destruct (segs_of hs a 0); reflexivity.
  - unfold final_hunks. rewrite final_hunks_keep, kept_mask_false_pad.
    rewrite count_keep by (rewrite map_length, pad_length; reflexivity).
    pose proof (filter_negb_count (pad (length hs) answers)) as C. rewrite pad_length in C. lia.
Qed.

(* merge --interactive (invert_diff = True): the diff is work -> target; the selected hunks are applied
   to the work text *)
Theorem select_hunks_apply a b ops n answers :
  valid_opcodes b a ops = true ->
  let hs := mk_hunks b a ops n in
  select_hunks true b hs answers
  = inr (render (fst (segs_of hs b 0)) (pad (length hs) answers) (snd (segs_of hs b 0)))
  /\ change_count true hs answers = length (filter (fun x => x) (pad (length hs) answers)).
Proof.
  intros V hs. unfold select_hunks, change_count, final_hunks.
  rewrite !final_hunks_keep, !kept_mask_true_pad. split.
  - exact (apply_keep_generated b a ops n _ V).
  - apply count_keep. rewrite pad_length. reflexivity.
Qed.

Lemma pad_repeat n x : pad n (repeat x n) = repeat x n.
Proof. induction n as [|n IH]; [reflexivity|]. cbn [repeat pad hd tl]. rewrite IH. reflexivity. Qed.

Lemma forallb_negb_map_negb_true n : forallb negb (map negb (repeat true n)) = true.
Proof. induction n; [reflexivity|exact IHn]. Qed.

Lemma map_negb_repeat x n : map negb (repeat x n) = repeat (negb x) n.
Proof. induction n as [|n IH]; [reflexivity|]. cbn [repeat map]. rewrite IH. reflexivity. Qed.

(* the extreme selections: shelving everything leaves the target text and shelves the work text,
   shelving nothing leaves the work text; the text expected after unshelving is the work text *)
Theorem select_hunks_extremes a b ops n :
  valid_opcodes a b ops = true ->
  let hs := mk_hunks a b ops n in
  tree_text a hs (repeat true (length hs)) = a
  /\ shelf_text a hs (repeat true (length hs)) = b
  /\ tree_text a hs (repeat false (length hs)) = b
  /\ shelf_text a hs (repeat false (length hs)) = a
  /\ unshelved_text a hs = b.
Proof.
  intros V hs. destruct (render_all_generated a b ops n V) as [RA RN]. fold hs in RA, RN.
  unfold tree_text, shelf_text, unshelved_text.
  rewrite !kept_mask_false_pad, !pad_repeat, !map_negb_repeat. cbn [negb].
  destruct (segs_of hs a 0) as [ss tl]. cbn [fst snd] in *.
  assert (Z : forall k, render ss (repeat false k) tl = a).
  { intros k. rewrite render_none; [exact RN|]. clear. induction k; [reflexivity|exact IHk]. }
  rewrite !Z. auto.
Qed.

(* ------------------------------------------------------------------ the two text merges *)
Section Merge.
(* Merge3(base, a, b).merge_lines(); None = conflict regions *)
Variable merge3 : list line -> list line -> list line -> option (list line).

Fixpoint comb (mb ma mo : list bool) : list bool :=
  match mb, ma, mo with
  | x :: mb', y :: ma', z :: mo' => (if Bool.eqb y x then z else y) :: comb mb' ma' mo'
  | _, _, _ => []
  end.
Fixpoint compat (mb ma mo : list bool) : bool :=
  match mb, ma, mo with
  | [], [], [] => true
  | x :: mb', y :: ma', z :: mo' => (Bool.eqb y x || Bool.eqb z x) && compat mb' ma' mo'
  | _, _, _ => false
  end.

(* "merge3 merges edits of disjoint segments of THIS text cleanly": for the segment decomposition
   (ss, tl), whenever every segment is changed (w.r.t. base) by at most one side, the result takes
   each segment from the side that changed it.  This is a statement about merge3+patiencediff on the
   particular text; it is NOT proved (environment) -- the correspondence run compares the two
   merges below with the real Merge3 on every case. *)
Definition seg_correct (ss : list seg) (tl : list line) : Prop :=
  forall mb ma mo, length mb = length ss -> compat mb ma mo = true ->
    merge3 (render ss mb tl) (render ss ma tl) (render ss mo tl) = Some (render ss (comb mb ma mo) tl).

Lemma compat_inverse l : compat (map negb l) (repeat false (length l)) (repeat true (length l)) = true.
Proof. induction l as [|x l IH]; [reflexivity|]. cbn [map length repeat compat]. rewrite IH. destruct x; reflexivity. Qed.
Lemma comb_inverse l : comb (map negb l) (repeat false (length l)) (repeat true (length l)) = l.
Proof. induction l as [|x l IH]; [reflexivity|]. cbn [map length repeat comb]. rewrite IH. destruct x; reflexivity. Qed.
Lemma compat_unshelve l : compat (repeat false (length l)) (map negb l) l = true.
Proof. induction l as [|x l IH]; [reflexivity|]. cbn [map length repeat compat]. rewrite IH. destruct x; reflexivity. Qed.
Lemma comb_unshelve l : comb (repeat false (length l)) (map negb l) l = repeat true (length l).
Proof. induction l as [|x l IH]; [reflexivity|]. cbn [map length repeat comb]. rewrite IH. destruct x; reflexivity. Qed.

(* PARTIAL (conditional on seg_correct): _inverse_lines puts exactly the shelved hunks on the shelf,
   and merging the shelf text back into the tree text restores the work text *)
Theorem hunk_roundtrip a b ops n answers :
  valid_opcodes a b ops = true ->
  let hs := mk_hunks a b ops n in
  seg_correct (fst (segs_of hs a 0)) (snd (segs_of hs a 0)) ->
  merge3 (tree_text a hs answers) a b = Some (shelf_text a hs answers)
  /\ merge3 a (tree_text a hs answers) (shelf_text a hs answers) = Some b.
Proof.
  intros V hs SC. destruct (render_all_generated a b ops n V) as [RA RN]. fold hs in RA, RN.
  unfold tree_text, shelf_text. rewrite kept_mask_false_pad.
  pose proof (segs_of_length hs a 0) as LS.
  destruct (segs_of hs a 0) as [ss tl]. cbn [fst snd] in *.
  set (P := pad (length hs) answers).
  assert (LP : length P = length hs) by apply pad_length.
  assert (Z : render ss (repeat false (length P)) tl = a).
  { rewrite render_none; [exact RN|]. clear. induction (length P); [reflexivity|assumption]. }
  assert (T : render ss (repeat true (length P)) tl = b) by (rewrite LP; exact RA).
  split.
  - rewrite <- Z at 1. rewrite <- T at 1.
    rewrite (SC (map negb P) _ _); [|rewrite map_length; lia|apply compat_inverse].
    rewrite comb_inverse. reflexivity.
  - rewrite <- Z at 1.
    rewrite (SC (repeat false (length P)) (map negb P) P); [|rewrite repeat_length; lia|apply compat_unshelve].
    rewrite comb_unshelve, T. reflexivity.
Qed.
End Merge.
