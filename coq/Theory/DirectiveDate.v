(* Theory/DirectiveDate.v -- parse_patch_date (format_patch_date secs offset) (C40).
   Reuses the calendar lemmas of Theory/OsUtilsDate.v. *)
From Coq Require Import String Ascii ZArith NArith List Bool Lia.
From BV Require Import Lib.Bytes Lib.Obs Model.OsUtils Theory.OsUtilsDate Model.Directive.
Import ListNotations.
Open Scope Z_scope.

(* the accepted domain: whole minutes, below 24 h, local time in years 1970..9999, not the
   epoch itself (format_patch_date prints the epoch in UTC) *)
Definition date_ok (secs offset : Z) : bool :=
  (Z.rem offset 60 =? 0) && negb (secs =? 0) && (0 <=? secs + offset) && (secs + offset <=? TS_MAX)
  && (Z.abs offset <? 86400).

Lemma pad2_small z : 0 <= z < 100 -> pad2 z = d2 z.
Proof. intros H. unfold pad2. destruct (z <? 100) eqn:E; [reflexivity|lia]. Qed.

Lemma parse2_d2 z : 0 <= z < 100 ->
  parse2 (digit (z / 10)) (digit (z mod 10)) = Some z.
Proof.
  intros H. rewrite parse2_digits by (Z.div_mod_to_equations; lia).
  f_equal. Z.div_mod_to_equations; lia.
Qed.

Lemma offset_fields o :
  0 <= o < 86400 -> o mod 60 = 0 ->
  0 <= o / 3600 < 24 /\ 0 <= (o / 60) mod 60 < 60 /\ o / 3600 * 3600 + (o / 60) mod 60 * 60 = o.
Proof. intros. Z.div_mod_to_equations; lia. Qed.

Lemma offset_whole_hours o :
  0 <= o < 86400 -> o mod 3600 = 0 -> (o / 60) mod 60 = 0 /\ o / 3600 * 3600 = o.
Proof. intros. Z.div_mod_to_equations; lia. Qed.

Lemma mod_opp_0 o k : 0 < k -> o mod k = 0 -> (- o) mod k = 0.
Proof. intros Hk H. apply Z.mod_opp_l_z; lia. Qed.

Lemma date_roundtrip secs offset :
  date_ok secs offset = true ->
  exists s, format_patch_date secs offset = Some s /\ parse_patch_date s = Some (secs, offset).
Proof.
  unfold date_ok. intros H.
  repeat (apply andb_true_iff in H; destruct H as [H ?]).
  apply Z.eqb_eq in H. apply negb_true_iff in H3. apply Z.eqb_neq in H3.
  apply Z.leb_le in H2, H1. apply Z.ltb_lt in H0.
  rename H3 into H4.
  assert (Hoff_rem : offset mod 60 = 0) by (apply Z.rem_mod_eq_0; [lia|exact H]).
  unfold format_patch_date.
  replace (Z.rem offset 60 =? 0) with true by (symmetry; apply Z.eqb_eq; exact H).
  cbn [negb]. replace (secs =? 0) with false by (symmetry; apply Z.eqb_neq; exact H4).
  replace (secs + offset <? 0) with false by (symmetry; apply Z.ltb_ge; lia).
  assert (Hy : 0 <= year_of_ts (secs + offset) <= 9999) by (apply year_bounds; unfold TS_MIN; lia).
  assert (Hts : (secs + offset) / 86400 * 86400 + (secs + offset) mod 86400 = secs + offset)
    by (pose proof (Z.div_mod (secs + offset) 86400); lia).
  assert (Hsod : 0 <= (secs + offset) mod 86400 < 86400) by (apply Z.mod_pos_bound; lia).
  unfold year_of_ts in Hy.
  set (days := (secs + offset) / 86400) in *. set (sod := (secs + offset) mod 86400) in *.
  clearbody days sod.
  pose proof (civil_roundtrip days) as Hc.
  destruct (civil_from_days days) as [[y m] d]. cbn [fst] in Hy.
  destruct Hc as [Hdays [Hm Hd]].
  replace ((0 <=? y) && (y <=? 9999)) with true by (symmetry; apply andb_true_iff; split; lia).
  destruct (time_of_day sod Hsod) as [Hh [Hi [Hs Hsum]]].
  set (hh := sod / 3600) in *. set (mi := (sod / 60) mod 60) in *. set (ss := sod mod 60) in *.
  clearbody hh mi ss.
  assert (Habs : 0 <= Z.abs offset < 86400) by lia.
  assert (Habs60 : Z.abs offset mod 60 = 0).
  { destruct (Z.abs_spec offset) as [[_ ->]|[_ ->]]; [exact Hoff_rem|apply mod_opp_0; [lia|exact Hoff_rem]]. }
  destruct (offset_fields (Z.abs offset) Habs Habs60) as [Hhours [Hmin Hsplit]].
  set (hours := Z.abs offset / 3600) in *. set (minutes := (Z.abs offset / 60) mod 60) in *.
  eexists. split; [reflexivity|].
  unfold parse_patch_date.
  rewrite <- (fmt_fields_length y m d hh mi ss).
  rewrite firstn_app_exact, skipn_app_exact.
  rewrite !pad2_small by lia. unfold d2. cbn [app].
  rewrite N.eqb_refl. cbn [andb].
  rewrite !parse2_d2 by lia.
  rewrite parse_dt_fmt by lia.
  rewrite Hdays.
  destruct (0 <=? offset) eqn:Epos.
  - apply Z.leb_le in Epos.
    replace (PLUS =? PLUS)%N with true by reflexivity.
    replace (PLUS =? DASH)%N with false by reflexivity. cbn [orb].
    replace ((24 <=? Z.abs hours) || (60 <=? minutes)) with false
      by (symmetry; apply orb_false_iff; split; [apply Z.leb_gt|apply Z.leb_gt];
          clear - Hhours Hmin; lia).
    rewrite Z.abs_eq in Hsplit by lia. clearbody hours minutes.
    clear - Hts Hsum Hsplit. f_equal. f_equal; lia.
  - apply Z.leb_gt in Epos.
    replace (DASH =? PLUS)%N with false by reflexivity.
    replace (DASH =? DASH)%N with true by reflexivity. cbn [orb].
    replace ((24 <=? Z.abs (- hours)) || (60 <=? minutes)) with false
      by (symmetry; apply orb_false_iff; split; [apply Z.leb_gt|apply Z.leb_gt];
          clear - Hhours Hmin; lia).
    rewrite Z.abs_neq in Hsplit by lia. clearbody hours minutes.
    clear - Hts Hsum Hsplit. f_equal. f_equal; lia.
Qed.

(* regression: "-0330" (the minutes used to be added instead of subtracted) *)
Example date_negative_minutes :
  format_patch_date 1000000 (-12600) = Some (asc "1970-01-12 10:16:40 -0330") /\
  parse_patch_date (asc "1970-01-12 10:16:40 -0330") = Some (1000000, -12600).
Proof. split; vm_compute; reflexivity. Qed.

Example date_ok_example : date_ok 1700000000 19800 = true /\ date_ok 1700000000 (-12600) = true.
Proof. split; reflexivity. Qed.
