(* Theory/UploadFull.v -- C43, part 6: the canonical remote of a tree, valid
   trees, the full upload onto an empty remote, and the machine-checked
   counterexamples to the unguarded statements. *)
From Coq Require Import NArith List Bool Arith Lia.
From BV Require Import Lib.Bytes Lib.FS43 Model.Upload
  Theory.UploadMoves Theory.UploadPhases Theory.UploadRenames Theory.UploadItems Theory.UploadExact.
Import ListNotations.
Open Scope list_scope.

(* ---------- the remote that holds exactly a tree ---------- *)
Definition fs_of (t : tree) : fs :=
  fold_right (fun e f => fs_set (epath e) (enode e) f) fs_empty (ents t).

Lemma path_eqb_sym a b : path_eqb a b = path_eqb b a.
Proof.
  destruct (path_eqb_spec a b) as [->|N].
  - symmetry; apply path_eqb_refl.
  - symmetry; apply path_eqb_neq; congruence.
Qed.

Lemma fs_of_look t p : look (fs_of t) p = tlook t p.
Proof.
  destruct t as [es ig]. unfold fs_of, tlook, find_path. simpl.
  induction es as [|e es IH]; simpl; [reflexivity|].
  rewrite (path_eqb_sym p (epath e)). destruct (path_eqb (epath e) p); [reflexivity|exact IH].
Qed.

Lemma fs_of_dom t : dom_ok (fs_of t).
Proof.
  destruct t as [es ig]. unfold fs_of. simpl.
  induction es as [|e es IH]; simpl; [apply dom_ok_empty|apply dom_ok_set; exact IH].
Qed.

(* ---------- valid revision trees ---------- *)
Fixpoint nodupN (l : list N) : bool :=
  match l with [] => true | x :: r => negb (existsb (N.eqb x) r) && nodupN r end.

Definition valid_tree (t : tree) : bool :=
  nodupb (map epath (ents t)) && nodupN (map eid (ents t))
  && forallb (fun e => clean_hd (epath e)
                       && match parent (epath e) with
                          | [] => true
                          | q => is_dirb (tlook t q)
                          end) (ents t).

(* the upload ended without an exception and the remote holds exactly t *)
Definition exact_run (r : ust * option err) (t : tree) : Prop :=
  snd r = None /\ forall p, p <> [NMark] -> look (ufs (fst r)) p = tlook t p.

(* ---------- full upload onto an empty remote ---------- *)
Definition skipb (t : tree) (p : path) : bool := path_eqb p [NIgn] || is_ignored t p.

Definition robust_cmd (p : path) (n : node) : cmd :=
  match n with
  | File c x => UploadFileRobust p c x
  | Link tg => SymlinkRobust p tg
  | Dir => MakeDirRobust p
  end.

Definition uploaded (t : tree) (l : list entry) : list entry :=
  filter (fun e => negb (skipb t (epath e))) l.

Lemma cmds_full_eq t l :
  cmds_full t l = map (fun e => robust_cmd (epath e) (enode e)) (uploaded t l).
Proof.
  unfold cmds_full, uploaded, skipb. induction l as [|e l IH]; simpl; [reflexivity|].
  destruct (path_eqb (epath e) [NIgn]); simpl; [exact IH|].
  destruct (is_ignored t (epath e)); simpl; [exact IH|].
  rewrite IH. unfold robust_cmd. destruct (enode e); reflexivity.
Qed.

Lemma robust_sets p n u :
  dom_ok (ufs u) -> look (ufs u) p = None -> parent_ok (ufs u) p = true -> True ->
  sets [robust_cmd p n] p n u.
Proof.
  intros D L P _. unfold sets. destruct n as [c x| |t]; simpl.
  - unfold force_clear, t_stat. rewrite L. simpl. unfold t_put. rewrite P, L. simpl.
    eexists. split; [reflexivity|]. simpl. split; [apply dom_ok_set; exact D|]. repeat split; reflexivity.
  - unfold t_stat. rewrite L. simpl. unfold t_mkdir. rewrite P, L. simpl.
    eexists. split; [reflexivity|]. simpl. split; [apply dom_ok_set; exact D|]. repeat split; reflexivity.
  - unfold force_clear, t_stat. rewrite L. simpl. unfold t_symlink. rewrite under_app, P, L. simpl.
    eexists. split; [reflexivity|]. simpl. split; [apply dom_ok_set; exact D|]. repeat split; reflexivity.
Qed.

(* the executable side condition: iter_entries_by_dir (environment) lists every
   uploaded entry once, parents first *)
Definition full_ok (t : tree) : bool :=
  let l := uploaded t (full_order t) in
  pf_okb (map epath l)
  && forallb (fun e => onode_eqb (tlook t (epath e)) (Some (enode e))
                       && clean_hd (epath e)
                       && match parent (epath e) with
                          | [] => true
                          | q => existsb (fun e' => path_eqb (epath e') q && is_dir_entry e') l
                          end) l
  && forallb (fun e => skipb t (epath e) || mem (epath e) (map epath l)) (ents t).

Theorem full_exact t k f :
  full_ok t = true -> dom_ok f ->
  (forall p, p <> [NMark] -> look f p = None) -> look f [NMark] <> Some Dir ->
  exists u', run (upload_full t k) (ust0 f) = (u', None) /\
             (forall p, p <> [NMark] ->
                look (ufs u') p = if skipb t p then None else tlook t p) /\
             look (ufs u') [NMark] = Some (File [k] false).
Proof.
  intros G D E MK. unfold full_ok in G. cbv zeta in G.
  set (l := uploaded t (full_order t)) in *.
  apply andb_true_iff in G as [G G3]. apply andb_true_iff in G as [G1 G2].
  rewrite forallb_forall in G2, G3.
  assert (forall e, In e l -> tlook t (epath e) = Some (enode e) /\ clean_hd (epath e) = true) as LE.
  { intros e I. specialize (G2 e I). apply andb_true_iff in G2 as [G2 _].
    apply andb_true_iff in G2 as [A B]. split; [apply onode_eqb_eq; exact A|exact B]. }
  destruct (phase_add_gen robust_cmd (fun _ _ => True) robust_sets l (ust0 f) D G1)
    as (u1 & E1 & D1 & _ & _ & _ & L1).
  { intros e I. destruct (LE e I) as [_ C]. specialize (G2 e I).
    apply andb_true_iff in G2 as [_ PA].
    split; [apply E; apply clean_ne_mark; exact C|].
    split; [apply clean_ne_nil; exact C|]. split; [|exact Logic.I].
    unfold parent_ok. destruct (parent (epath e)) as [|y q] eqn:EP; [left; reflexivity|].
    right. apply existsb_exists in PA as (e' & I' & P). apply andb_true_iff in P as [P1 P2].
    exists e'. split; [exact I'|]. split.
    - destruct (path_eqb_spec (epath e') (y :: q)); [assumption|discriminate].
    - unfold is_dir_entry in P2. destruct (enode e'); congruence. }
  assert (forall q, In q (map fst (map add_item l)) -> clean_hd q = true) as CL.
  { intros q I. rewrite map_map in I. apply in_map_iff in I as (e & <- & I). apply LE; exact I. }
  assert (look (ufs u1) [NMark] = look f [NMark]) as M1.
  { rewrite L1. apply upd_all_notin. intros I. apply CL in I. discriminate. }
  assert (exists u2, exec_cmd (SetRevid k) u1 = (u2, None) /\
                     forall q, look (ufs u2) q = if path_eqb q [NMark] then Some (File [k] false)
                                                 else look (ufs u1) q) as (u2 & E2 & L2).
  { simpl. unfold t_put. simpl.
    destruct (look (ufs u1) [NMark]) as [[]|] eqn:EL; try (eexists; split; [reflexivity|]; simpl; auto).
    exfalso. apply MK. congruence. }
  exists u2. split.
  - unfold upload_full. rewrite cmds_full_eq. fold l.
    eapply run_app_ok; [exact E1|]. eapply run_cons_ok; [exact E2|reflexivity].
  - split; [|rewrite L2, path_eqb_refl; reflexivity].
    intros p NM. rewrite L2, path_eqb_neq by exact NM. rewrite L1. unfold upd_all.
    destruct (find (fun it => path_eqb (fst it) p) (map add_item l)) as [it|] eqn:F.
    + apply find_some in F as [I EQ]. apply in_map_iff in I as (e & <- & I). simpl in EQ.
      destruct (path_eqb_spec (epath e) p) as [<-|]; [|discriminate].
      destruct (LE e I) as [A _]. rewrite A. simpl.
      unfold l, uploaded in I. apply filter_In in I as [_ S]. apply negb_true_iff in S.
      rewrite S. reflexivity.
    + rewrite E by exact NM. destruct (skipb t p) eqn:S; [reflexivity|].
      destruct (tlook t p) eqn:T; [|reflexivity]. exfalso.
      unfold tlook, find_path in T. destruct (find _ (ents t)) as [e0|] eqn:F0; [|discriminate].
      apply find_some in F0 as [I0 EQ]. destruct (path_eqb_spec (epath e0) p) as [<-|]; [|discriminate].
      specialize (G3 e0 I0). rewrite S in G3. simpl in G3. apply mem_true in G3.
      apply in_map_iff in G3 as (e & EP & I).
      assert (path_eqb (fst (add_item e)) (epath e0) = true) as PE
        by (simpl; rewrite EP; apply path_eqb_refl).
      pose proof (find_none _ _ F (add_item e) (in_map _ _ _ I)) as C. simpl in C, PE. congruence.
Qed.

(* ---------- witnesses ---------- *)
Definition nA := Nm 1. Definition nB := Nm 2. Definition nC := Nm 3.
Definition nD := Nm 4. Definition nE := Nm 5. Definition nT := Nm 20. Definition nU := Nm 21.
Definition mkt (l : list entry) : tree := mktree l [].
Definition fileA := File [65]%N false.
Definition fileB := File [66]%N true.

Ltac refute_err :=
  intros k [E _]; vm_compute in E; discriminate.
Ltac refute_at q :=
  intros k [_ A]; assert (q <> [NMark]) as NM by discriminate;
  specialize (A q NM); vm_compute in A; discriminate.

(* swap, 3-cycle, directories swapped with their content: the guard holds *)
Example guard_swap :
  upload_guard (mkt [mkent 1 [nA] fileA; mkent 2 [nB] fileB])
               (mkt [mkent 1 [nB] fileA; mkent 2 [nA] fileB]) = true.
Proof. vm_compute. reflexivity. Qed.
Example guard_cycle_modify :
  upload_guard (mkt [mkent 1 [nA] fileA; mkent 2 [nB] fileB; mkent 3 [nC] fileA])
               (mkt [mkent 1 [nB] fileB; mkent 2 [nC] fileB; mkent 3 [nA] fileA]) = true.
Proof. vm_compute. reflexivity. Qed.
Example guard_dir_swap :
  upload_guard (mkt [mkent 1 [nA] Dir; mkent 2 [nA; nC] fileA; mkent 3 [nB] Dir; mkent 4 [nB; nD] fileB])
               (mkt [mkent 1 [nB] Dir; mkent 2 [nB; nC] fileA; mkent 3 [nA] Dir; mkent 4 [nA; nD] fileB]) = true.
Proof. vm_compute. reflexivity. Qed.
Example guard_deferred_deletions :
  upload_guard (mkt [mkent 1 [nD] Dir; mkent 2 [nD; nA] fileA; mkent 3 [nD; nE] Dir; mkent 4 [nD; nE; nC] fileA])
               (mkt []) = true.
Proof. vm_compute. reflexivity. Qed.
Example guard_kinds_and_adds :
  upload_guard (mkt [mkent 1 [nD] Dir; mkent 5 [nC] fileA; mkent 6 [nB] Dir; mkent 7 [nB; nA] fileB])
               (mkt [mkent 1 [nE] Dir; mkent 2 [nE; nA] fileB; mkent 3 [nE; nC] Dir;
                     mkent 4 [nE; nC; nA] fileB; mkent 5 [nC] (Link nT); mkent 6 [nB] fileA;
                     mkent 7 [nA] fileB]) = true.
Proof. vm_compute. reflexivity. Qed.
Example full_ok_example :
  full_ok (mktree [mkent 9 [NIgn] (File [99; 10]%N false); mkent 1 [nD] Dir; mkent 2 [nD; nA] fileA;
                   mkent 3 [nD; nE] (Link nT); mkent 4 [nC] fileB; mkent 5 [nD; nC] fileA] [nC]) = true.
Proof. vm_compute. reflexivity. Qed.

(* the witnesses of the defects repaired by c541353, e87df2d, 46295b6 (now
   covered by the guard: see [repaired_witnesses_guard]) *)
Definition w_exec_old := mkt [mkent 1 [nA] fileA].
Definition w_exec_new := mkt [mkent 1 [nB] (File [65]%N true)].          (* rename + chmod *)
Definition w_kind_new := mkt [mkent 1 [nE] Dir].                          (* rename + kind change *)
Definition w_retarget_old := mkt [mkent 1 [nA] (Link nT)].
Definition w_retarget_new := mkt [mkent 1 [nB] (Link nU)].                (* rename + new target *)
Definition w_onto_old := mkt [mkent 1 [nD] Dir; mkent 2 [nD; nA] fileA; mkent 3 [nE] Dir].
Definition w_onto_new := mkt [mkent 3 [nD] Dir].                          (* onto a removed directory *)
Definition w_nested_old := mkt [mkent 1 [nD] Dir; mkent 2 [nD; nA] fileA].
Definition w_kcsub_new := mkt [mkent 1 [nE] Dir; mkent 2 [nE; nA] (Link nT)].  (* kind change below a rename *)
Definition w_lnsub_old := mkt [mkent 1 [nD] Dir].
Definition w_lnsub_new := mkt [mkent 1 [nD] Dir; mkent 2 [nD; nA] (Link nT)].  (* symlink below the root *)
Definition w_lnmod_new := mkt [mkent 1 [nA] (Link nU)].                   (* symlink target modified *)

Theorem repaired_witnesses_guard :
  upload_guard w_exec_old w_exec_new = true /\
  upload_guard w_exec_old w_kind_new = true /\
  upload_guard w_retarget_old w_retarget_new = true /\
  upload_guard w_onto_old w_onto_new = true /\
  upload_guard w_nested_old w_kcsub_new = true /\
  upload_guard w_lnsub_old w_lnsub_new = true /\
  upload_guard w_retarget_old w_lnmod_new = true.
Proof. vm_compute. repeat split. Qed.

(* the residue of the rename ordering *)
(* a directory and a file in it renamed in one revision: NoSuchFile *)
Definition w_nested_new := mkt [mkent 1 [nE] Dir; mkent 2 [nE; nB] fileA].
(* a file moved into a directory created by the same revision: NoSuchFile *)
Definition w_newdir_new := mkt [mkent 1 [nE; nA] fileA; mkent 2 [nE] Dir].
(* removed non-empty directory below a renamed directory: NoSuchFile *)
Definition w_rmsub_old := mkt [mkent 1 [nD] Dir; mkent 2 [nD; nC] Dir; mkent 3 [nD; nC; nA] fileA].
Definition w_rmsub_new := mkt [mkent 1 [nE] Dir].
(* a renamed directory that becomes a file while a non-empty sub-directory of it
   is removed: the deferred rmdir of the directory comes before the one of the
   sub-directory: DirectoryNotEmpty *)
Definition w_recdir_new := mkt [mkent 1 [nE] fileB; mkent 3 [nA] fileA].

Definition incr_refuted (old new : tree) : Prop :=
  valid_tree old = true /\ valid_tree new = true /\
  forall k, ~ exact_run (run (upload_incremental old new k) (ust0 (fs_of old))) new.

Theorem refuted_nested_rename : incr_refuted w_nested_old w_nested_new.
Proof. split; [reflexivity|]. split; [reflexivity|]. refute_err. Qed.
Theorem refuted_rename_into_new_dir : incr_refuted w_exec_old w_newdir_new.
Proof. split; [reflexivity|]. split; [reflexivity|]. refute_err. Qed.
Theorem refuted_removed_subdir_under_rename : incr_refuted w_rmsub_old w_rmsub_new.
Proof. split; [reflexivity|]. split; [reflexivity|]. refute_err. Qed.
Theorem refuted_recreated_dir_deferred_subdir : incr_refuted w_rmsub_old w_recdir_new.
Proof. split; [reflexivity|]. split; [reflexivity|]. refute_err. Qed.

(* a full upload does not delete what an earlier upload left: it is exact only
   on an empty remote *)
Theorem refuted_full_keeps_stale :
  exists old new, valid_tree old = true /\ valid_tree new = true /\
    forall k, ~ exact_run (run (upload_full new k) (ust0 (fs_of old))) new.
Proof.
  exists w_exec_old, (mkt []). split; [reflexivity|]. split; [reflexivity|]. refute_at [nA].
Qed.
