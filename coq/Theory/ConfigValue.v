(* Theory/ConfigValue.v -- the value round trip Stack.set -> (save, load) -> Stack.get
   on the model of Model/ConfigLoc.v: breezy's IniFileStore.unquote composed with
   the modelled ConfigObj quoting (cobj_quote) and file layer (file_raw). *)
From Coq Require Import NArith Bool String Ascii PeanoNat List Lia.
From BV Require Import Lib.Bytes Lib.Obs Model.Fnmatch Model.ConfigLoc.
Import ListNotations.
Open Scope list_scope.
Open Scope N_scope.

Lemma last_cons_snoc : forall (x q d : N) v, last (x :: v ++ [q]) d = q.
Proof. intros. rewrite app_comm_cons. apply last_last. Qed.

(* unquote removes exactly one pair of matching quote characters *)
Theorem unquote_wrap : forall q v, q = cDQ \/ q = cSQ -> unquote (q :: v ++ [q]) = v.
Proof.
  intros q v Hq. unfold unquote. rewrite last_cons_snoc, N.eqb_refl.
  assert (E : (q =? 34) || (q =? 39) = true)
    by (destruct Hq as [-> | ->]; reflexivity).
  rewrite E. cbn [andb tl]. apply removelast_last.
Qed.

Theorem unquote_not_quoted : forall c v,
  (c =? 34) = false -> (c =? 39) = false -> unquote (c :: v) = c :: v.
Proof.
  intros c v H1 H2. unfold unquote. rewrite H1, H2. cbn [orb]. rewrite andb_false_r. reflexivity.
Qed.

Lemma length_removelast : forall (l : list N), length (removelast l) = pred (length l).
Proof.
  induction l as [|x l IH]; [reflexivity|].
  destruct l as [|y l]; [reflexivity|].
  change (removelast (x :: y :: l)) with (x :: removelast (y :: l)).
  cbn [length]. rewrite IH. reflexivity.
Qed.

Lemma unquote_length : forall r, (length r <= length (unquote r) + 2)%nat.
Proof.
  intros [|c r]; [cbn; lia|]. unfold unquote.
  destruct ((c =? last (c :: r) 0) && ((c =? 34) || (c =? 39))); [|lia].
  cbn [tl]. rewrite length_removelast. cbn [length]. lia.
Qed.

Lemma memb_wspace_plus_false : forall c,
  memb c wspace_plus = false -> (c =? 34) = false /\ (c =? 39) = false.
Proof.
  intros c H. unfold memb, wspace_plus in H. cbn [existsb] in H.
  repeat (apply orb_false_iff in H; destruct H as [? H]). split; assumption.
Qed.

(* the raw text stored by Stack.set when no triple quoting is needed: the value
   itself, or the value in one pair of quotes *)
Lemma cobj_quote_simple : forall v, need_triple v = false ->
  exists r, cobj_quote v = Some r /\ unquote r = v.
Proof.
  intros [|c v] H.
  - exists [cDQ; cDQ]. split; reflexivity.
  - unfold cobj_quote. rewrite H.
    destruct (negb (memb c wspace_plus) && negb (memb (last (c :: v) 0) wspace_plus)
              && negb (memb 44 (c :: v)) && negb (memb 35 (c :: v))) eqn:E.
    + exists (c :: v). split; [reflexivity|].
      repeat (apply andb_true_iff in E; destruct E as [E ?]).
      apply negb_true_iff in E. apply memb_wspace_plus_false in E. destruct E as [E1 E2].
      apply unquote_not_quoted; assumption.
    + exists ((if memb cDQ (c :: v) then cSQ else cDQ) :: (c :: v)
              ++ [if memb cDQ (c :: v) then cSQ else cDQ]).
      split; [reflexivity|]. apply unquote_wrap.
      destruct (memb cDQ (c :: v)); [right|left]; reflexivity.
Qed.

(* in memory (Stack.set then Stack.get on the same stack) the value survives
   EXACTLY when it contains no newline and not both kinds of quote *)
Theorem mem_roundtrip_iff : forall v, set_get_mem v = Some v <-> need_triple v = false.
Proof.
  intro v. split.
  - intro H. destruct (need_triple v) eqn:E; [|reflexivity]. exfalso.
    unfold set_get_mem, mem_raw, cobj_quote in H. destruct v as [|c v]; [discriminate|].
    rewrite E in H.
    assert (Hlen : forall q3, length q3 = 3%nat ->
                   Some (unquote (q3 ++ (c :: v) ++ q3)) = Some (c :: v) -> False).
    { intros q3 Hq Heq. injection Heq as Heq.
      pose proof (unquote_length (q3 ++ (c :: v) ++ q3)) as Hl.
      cbn [app] in Hl. rewrite Heq in Hl. rewrite app_length in Hl. cbn [length] in Hl.
      rewrite app_length, Hq in Hl. lia. }
    destruct (containsb q3d (c :: v) && containsb q3s (c :: v)); [discriminate|].
    destruct (containsb q3d (c :: v)); eapply Hlen; try exact H; reflexivity.
  - intro H. destruct (cobj_quote_simple v H) as (r & Hr & Hu).
    unfold set_get_mem, mem_raw. rewrite Hr, Hu. reflexivity.
Qed.

(* ... and then it also survives save + reload (as far as the file layer is modelled) *)
Theorem file_roundtrip_guarded : forall v, need_triple v = false -> set_save_get v = SOk v.
Proof.
  intros v H. destruct (cobj_quote_simple v H) as (r & Hr & Hu).
  unfold set_save_get, file_raw. rewrite Hr, H, Hu. reflexivity.
Qed.

(* the full statement "any text value is read back unchanged" is FALSE *)
Theorem roundtrip_refuted_newline :
  exists v, value_safe v = true /\
            set_get_mem v = Some ([34; 34] ++ v ++ [34; 34]) /\
            set_save_get v = SOk ([34; 34] ++ v ++ [34; 34]) /\
            set_get_mem v <> Some v /\ set_save_get v <> SOk v.
Proof.
  exists [97; 10; 98]. vm_compute. repeat split; discriminate.
Qed.

Theorem roundtrip_refuted_mixed_quotes :
  exists v, value_safe v = true /\ memb cNL v = false /\
            set_get_mem v = Some ([34; 34] ++ v ++ [34; 34]) /\
            set_save_get v = SOk (removelast (tl v)) /\
            set_get_mem v <> Some v /\ set_save_get v <> SOk v.
Proof.
  exists [34; 97; 39; 98; 34]. vm_compute. repeat split; discriminate.
Qed.

(* every value that needs triple quotes is damaged in memory *)
Theorem mem_roundtrip_fails : forall v, need_triple v = true -> set_get_mem v <> Some v.
Proof.
  intros v H Heq. apply mem_roundtrip_iff in Heq. congruence.
Qed.

(* non-trivial instances of the guarded theorems *)
Example roundtrip_example :
  let v := lit " a,b#c=d\e 'f' " in
  need_triple v = false /\ set_get_mem v = Some v /\ set_save_get v = SOk v /\
  mem_raw v <> Some v.
Proof. vm_compute. repeat split; discriminate. Qed.

(* ---- bool_from_string / Option.convert_from_unicode for booleans -------------------- *)
Theorem bool_from_string_cases : forall s b,
  bool_from_string s = Some b ->
  In (map lower_c s)
     (if b then map lit ["yes"; "y"; "on"; "true"; "1"]%string
      else map lit ["no"; "n"; "off"; "false"; "0"]%string).
Proof.
  intros s b H. unfold bool_from_string in H.
  assert (Hex : forall l (L : list str), existsb (str_eqb l) L = true -> In l L).
  { intros l L HL. apply existsb_exists in HL. destruct HL as (x & Hin & Hx).
    assert (l = x); [|subst; exact Hin].
    clear -Hx. revert x Hx. induction l as [|a l IH]; intros [|b x] Hx; try discriminate; auto.
    cbn in Hx. apply andb_true_iff in Hx. destruct Hx as [H1 H2].
    apply N.eqb_eq in H1. f_equal; auto. }
  destruct (existsb (str_eqb (map lower_c s)) (map lit ["yes"; "y"; "on"; "true"; "1"]%string)) eqn:E1.
  - injection H as <-. apply Hex; exact E1.
  - destruct (existsb (str_eqb (map lower_c s)) (map lit ["no"; "n"; "off"; "false"; "0"]%string)) eqn:E2;
      [|discriminate].
    injection H as <-. apply Hex; exact E2.
Qed.
