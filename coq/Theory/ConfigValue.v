(* Theory/ConfigValue.v -- the value round trip Stack.set -> (save, load) -> Stack.get
   on the model of Model/ConfigLoc.v: breezy's IniFileStore.unquote composed with
   the modelled ConfigObj quoting (cobj_quote) and file layer (file_raw). *)
From Coq Require Import NArith Bool String Ascii PeanoNat List Lia.
From BV Require Import Lib.Bytes Lib.Obs Model.Fnmatch Model.ConfigLoc.
Import ListNotations.
Open Scope list_scope.
Open Scope N_scope.

Lemma last_cons_snoc : forall (x q d : N) v, last (x :: v ++ [q]) d = q.
Proof. intros. rewrite app_comm_cons. apply last_last. Qed.

(* ---- ConfigObj._unquote alone (= IniFileStore.unquote before 4293772) ---------------- *)
Theorem unquote_old_wrap : forall q v, q = cDQ \/ q = cSQ -> unquote_old (q :: v ++ [q]) = v.
Proof.
  intros q v Hq. unfold unquote_old. rewrite last_cons_snoc, N.eqb_refl.
  assert (E : (q =? 34) || (q =? 39) = true)
    by (destruct Hq as [-> | ->]; reflexivity).
  rewrite E. cbn [andb tl]. apply removelast_last.
Qed.

Theorem unquote_old_not_quoted : forall c v,
  (c =? 34) = false -> (c =? 39) = false -> unquote_old (c :: v) = c :: v.
Proof.
  intros c v H1 H2. unfold unquote_old. rewrite H1, H2. cbn [orb]. rewrite andb_false_r. reflexivity.
Qed.

Lemma length_removelast : forall (l : list N), length (removelast l) = pred (length l).
Proof.
  induction l as [|x l IH]; [reflexivity|].
  destruct l as [|y l]; [reflexivity|].
  change (removelast (x :: y :: l)) with (x :: removelast (y :: l)).
  cbn [length]. rewrite IH. reflexivity.
Qed.

Lemma unquote_old_length : forall r, (length r <= length (unquote_old r) + 2)%nat.
Proof.
  intros [|c r]; [cbn; lia|]. unfold unquote_old.
  destruct ((c =? last (c :: r) 0) && ((c =? 34) || (c =? 39))); [|lia].
  cbn [tl]. rewrite length_removelast. cbn [length]. lia.
Qed.

Lemma memb_wspace_plus_false : forall c,
  memb c wspace_plus = false -> (c =? 34) = false /\ (c =? 39) = false.
Proof.
  intros c H. unfold memb, wspace_plus in H. cbn [existsb] in H.
  repeat (apply orb_false_iff in H; destruct H as [? H]). split; assumption.
Qed.

(* ---- IniFileStore.unquote (current) --------------------------------------------------- *)
Lemma prefixb_app : forall p s, prefixb p (p ++ s) = true.
Proof. induction p as [|x p IH]; intro s; cbn; [reflexivity|]. rewrite N.eqb_refl. apply IH. Qed.

Lemma suffixb_app : forall p s, suffixb p (s ++ p) = true.
Proof. intros. unfold suffixb. rewrite rev_app_distr. apply prefixb_app. Qed.

Lemma strip3_wrap : forall a b c d e f v, strip3 ([a; b; c] ++ v ++ [d; e; f]) = v.
Proof.
  intros. unfold strip3. cbn [app skipn]. rewrite rev_app_distr. cbn [rev app skipn].
  apply rev_involutive.
Qed.

(* a value wrapped in triple quotes (either kind) is unwrapped exactly *)
Theorem unquote_triple : forall q3 v, q3 = q3d \/ q3 = q3s -> unquote (q3 ++ v ++ q3) = v.
Proof.
  intros q3 v Hq. unfold unquote.
  assert (Hlen : (6 <=? length (q3 ++ v ++ q3))%nat = true).
  { apply Nat.leb_le. rewrite !app_length. destruct Hq as [-> | ->]; cbn; lia. }
  assert (Htw : triple_wrapped q3d (q3 ++ v ++ q3) || triple_wrapped q3s (q3 ++ v ++ q3) = true).
  { assert (H : triple_wrapped q3 (q3 ++ v ++ q3) = true).
    { unfold triple_wrapped. rewrite prefixb_app. rewrite app_assoc, suffixb_app. reflexivity. }
    destruct Hq as [-> | ->]; rewrite H; [reflexivity|apply orb_true_r]. }
  rewrite Hlen, Htw. cbn [andb]. destruct Hq as [-> | ->]; apply strip3_wrap.
Qed.

Lemma unquote_no_triple : forall v,
  prefixb q3d v = false -> prefixb q3s v = false -> unquote v = unquote_old v.
Proof.
  intros v H1 H2. unfold unquote, triple_wrapped. rewrite H1, H2. cbn [andb orb].
  rewrite andb_false_r. reflexivity.
Qed.

(* one pair of quotes around a text that does not contain that quote is removed *)
Theorem unquote_wrap : forall q v,
  q = cDQ \/ q = cSQ -> memb q v = false -> unquote (q :: v ++ [q]) = v.
Proof.
  intros q v Hq Hm. rewrite unquote_no_triple; [apply unquote_old_wrap; exact Hq| |].
  - destruct Hq as [-> | ->]; [|reflexivity].
    destruct v as [|c v]; [reflexivity|]. unfold memb in Hm. cbn [existsb] in Hm.
    apply orb_false_iff in Hm. destruct Hm as [Hc _].
    cbn [q3d prefixb app]. change cDQ with 34 in *. rewrite N.eqb_refl, Hc. reflexivity.
  - destruct Hq as [-> | ->]; [reflexivity|].
    destruct v as [|c v]; [reflexivity|]. unfold memb in Hm. cbn [existsb] in Hm.
    apply orb_false_iff in Hm. destruct Hm as [Hc _].
    cbn [q3s prefixb app]. change cSQ with 39 in *. rewrite N.eqb_refl, Hc. reflexivity.
Qed.

Theorem unquote_not_quoted : forall c v,
  (c =? 34) = false -> (c =? 39) = false -> unquote (c :: v) = c :: v.
Proof.
  intros c v H1 H2. rewrite unquote_no_triple; [apply unquote_old_not_quoted; assumption| |].
  - cbn [q3d prefixb]. rewrite N.eqb_sym, H1. reflexivity.
  - cbn [q3s prefixb]. rewrite N.eqb_sym, H2. reflexivity.
Qed.

Lemma need_triple_false : forall v, need_triple v = false ->
  memb cNL v = false /\ (memb cDQ v = true -> memb cSQ v = false).
Proof.
  intros v H. unfold need_triple in H. apply orb_false_iff in H. destruct H as [H1 H2].
  split; [exact H2|]. intro Hd. rewrite Hd, andb_true_r in H1. exact H1.
Qed.

(* the raw text stored by Stack.set when no triple quoting is needed: the value
   itself, or the value in one pair of quotes; both are undone by unquote (old and new) *)
Lemma cobj_quote_simple : forall v, need_triple v = false ->
  exists r, cobj_quote v = Some r /\ unquote r = v /\ unquote_old r = v.
Proof.
  intros [|c v] H.
  - exists [cDQ; cDQ]. repeat split; reflexivity.
  - unfold cobj_quote. rewrite H.
    destruct (negb (memb c wspace_plus) && negb (memb (last (c :: v) 0) wspace_plus)
              && negb (memb 44 (c :: v)) && negb (memb 35 (c :: v))) eqn:E.
    + exists (c :: v). split; [reflexivity|].
      repeat (apply andb_true_iff in E; destruct E as [E ?]).
      apply negb_true_iff in E. apply memb_wspace_plus_false in E. destruct E as [E1 E2].
      split; [apply unquote_not_quoted|apply unquote_old_not_quoted]; assumption.
    + exists ((if memb cDQ (c :: v) then cSQ else cDQ) :: (c :: v)
              ++ [if memb cDQ (c :: v) then cSQ else cDQ]).
      split; [reflexivity|]. destruct (need_triple_false _ H) as [_ Hq].
      destruct (memb cDQ (c :: v)) eqn:Ed.
      * split; [apply unquote_wrap; [right; reflexivity|apply Hq; reflexivity]
               |apply unquote_old_wrap; right; reflexivity].
      * split; [apply unquote_wrap; [left; reflexivity|exact Ed]
               |apply unquote_old_wrap; left; reflexivity].
Qed.

(* ... and when triple quoting is needed: the value in triple quotes *)
Lemma cobj_quote_triple : forall v r, need_triple v = true -> cobj_quote v = Some r ->
  exists q3, (q3 = q3d \/ q3 = q3s) /\ r = q3 ++ v ++ q3.
Proof.
  intros [|c v] r H Hr; [discriminate|]. unfold cobj_quote in Hr. rewrite H in Hr.
  destruct (containsb q3d (c :: v) && containsb q3s (c :: v)); [discriminate|].
  destruct (containsb q3d (c :: v)); injection Hr as <-; eauto.
Qed.

(* IN MEMORY (Stack.set then Stack.get on the same stack): every value that
   ConfigObj accepts comes back unchanged -- no guard *)
Theorem mem_roundtrip : forall v r, cobj_quote v = Some r -> unquote r = v.
Proof.
  intros v r Hr. destruct (need_triple v) eqn:E.
  - destruct (cobj_quote_triple v r E Hr) as (q3 & Hq & ->). apply unquote_triple; exact Hq.
  - destruct (cobj_quote_simple v E) as (r' & Hr' & Hu & _). congruence.
Qed.

Theorem set_get_mem_roundtrip : forall v, cobj_quote v <> None -> set_get_mem v = Some v.
Proof.
  intros v H. unfold set_get_mem, mem_raw. destruct (cobj_quote v) as [r|] eqn:E; [|congruence].
  rewrite (mem_roundtrip v r E). reflexivity.
Qed.

(* the only refusal: a value needing triple quotes that contains both triple quotes *)
Theorem cobj_quote_refuses_iff : forall v,
  cobj_quote v = None <->
  need_triple v = true /\ containsb q3d v = true /\ containsb q3s v = true.
Proof.
  intros [|c v]; [split; [discriminate|intros (H & _); discriminate]|].
  unfold cobj_quote. destruct (need_triple (c :: v)) eqn:E.
  - destruct (containsb q3d (c :: v)) eqn:E1, (containsb q3s (c :: v)) eqn:E2; cbn [andb];
      split; intro H; try discriminate; try (destruct H as (_ & H1 & H2); discriminate); auto.
  - destruct (negb (memb c wspace_plus) && negb (memb (last (c :: v) 0) wspace_plus)
              && negb (memb 44 (c :: v)) && negb (memb 35 (c :: v)));
      split; intro H; try discriminate; destruct H as (H & _); discriminate.
Qed.

(* THROUGH THE FILE (save + fresh stack), on the modelled ConfigObj file layer:
   unchanged unless the value is in the residue class *)
Lemma hd_rev_last : forall (v : str) d, hd d (rev v) = last v d.
Proof.
  intros v d. destruct v as [|x v] using rev_ind; [reflexivity|].
  rewrite rev_app_distr, last_last. reflexivity.
Qed.

Lemma triple_wrapped_ends : forall q v, triple_wrapped [q; q; q] v = true ->
  hd 0 v = q /\ last v 0 = q.
Proof.
  intros q v H. unfold triple_wrapped in H. apply andb_true_iff in H. destruct H as [H1 H2]. split.
  - destruct v as [|c v]; [discriminate|]. cbn [prefixb] in H1.
    apply andb_true_iff in H1. destruct H1 as [H1 _]. apply N.eqb_eq in H1. cbn. congruence.
  - unfold suffixb in H2. cbn [rev app] in H2. rewrite <- hd_rev_last.
    destruct (rev v) as [|c w]; [discriminate|]. cbn [prefixb] in H2.
    apply andb_true_iff in H2. destruct H2 as [H2 _]. apply N.eqb_eq in H2. cbn. congruence.
Qed.

Lemma unquote_bare : forall v,
  (hd 0 v =? last v 0) && ((hd 0 v =? 34) || (hd 0 v =? 39)) = false -> unquote v = v.
Proof.
  intros v H. unfold unquote.
  assert (Htw : triple_wrapped q3d v || triple_wrapped q3s v = false).
  { apply orb_false_iff. split.
    - destruct (triple_wrapped q3d v) eqn:E; [|reflexivity].
      apply triple_wrapped_ends in E. destruct E as [E1 E2]. rewrite E1, E2 in H. discriminate.
    - destruct (triple_wrapped q3s v) eqn:E; [|reflexivity].
      apply triple_wrapped_ends in E. destruct E as [E1 E2]. rewrite E1, E2 in H. discriminate. }
  rewrite Htw, andb_false_r. unfold unquote_old. destruct v as [|c v]; [reflexivity|].
  cbn [hd] in H. rewrite H. reflexivity.
Qed.

Theorem file_roundtrip_guarded : forall v r,
  file_raw v = SOk r -> quote_residue v = false -> set_save_get v = SOk v.
Proof.
  intros v r Hf Hres. unfold set_save_get. rewrite Hf. f_equal.
  unfold file_raw in Hf. destruct (cobj_quote v) as [q|] eqn:Eq; [|discriminate].
  destruct (need_triple v) eqn:En.
  - destruct (memb cNL v || memb 35 v) eqn:Ew.
    + destruct (containsb q3d q && containsb q3s q); [discriminate|].
      injection Hf as <-. apply (mem_roundtrip v q Eq).
    + injection Hf as <-. apply orb_false_iff in Ew. destruct Ew as [E1 E2].
      unfold quote_residue in Hres. rewrite En, E1, E2 in Hres. cbn [negb andb] in Hres.
      apply unquote_bare. exact Hres.
  - injection Hf as <-. apply (mem_roundtrip v q Eq).
Qed.

(* the residue really is damaged: the full statement is still FALSE through the file *)
Theorem file_roundtrip_refuted :
  exists v, value_safe v = true /\ quote_residue v = true /\
            set_get_mem v = Some v /\
            set_save_get v = SOk (removelast (tl v)) /\ set_save_get v <> SOk v.
Proof.
  exists [34; 97; 39; 98; 34]. vm_compute. repeat split; discriminate.
Qed.

(* regression witnesses of the repaired findings *)
Example roundtrip_repaired_examples :
  set_get_mem [97; 10; 98] = Some [97; 10; 98] /\ set_save_get [97; 10; 98] = SOk [97; 10; 98] /\
  set_get_mem [97; 34; 98; 39; 99] = Some [97; 34; 98; 39; 99] /\
  set_save_get [97; 34; 39; 35] = SOk [97; 34; 39; 35].
Proof. vm_compute. repeat split; reflexivity. Qed.

(* ---- the OLD code (before 4293772): in memory the value survived EXACTLY when it
   contained no newline and not both kinds of quote ------------------------------------- *)
Theorem mem_roundtrip_old_iff : forall v, set_get_mem_old v = Some v <-> need_triple v = false.
Proof.
  intro v. split.
  - intro H. destruct (need_triple v) eqn:E; [|reflexivity]. exfalso.
    unfold set_get_mem_old, mem_raw, cobj_quote in H. destruct v as [|c v]; [discriminate|].
    rewrite E in H.
    assert (Hlen : forall q3, length q3 = 3%nat ->
                   Some (unquote_old (q3 ++ (c :: v) ++ q3)) = Some (c :: v) -> False).
    { intros q3 Hq Heq. injection Heq as Heq.
      pose proof (unquote_old_length (q3 ++ (c :: v) ++ q3)) as Hl.
      cbn [app] in Hl. rewrite Heq in Hl. rewrite app_length in Hl. cbn [length] in Hl.
      rewrite app_length, Hq in Hl. lia. }
    destruct (containsb q3d (c :: v) && containsb q3s (c :: v)); [discriminate|].
    destruct (containsb q3d (c :: v)); eapply Hlen; try exact H; reflexivity.
  - intro H. destruct (cobj_quote_simple v H) as (r & Hr & _ & Hu).
    unfold set_get_mem_old, mem_raw. rewrite Hr, Hu. reflexivity.
Qed.

Theorem old_roundtrip_refuted_newline :
  exists v, value_safe v = true /\
            set_get_mem_old v = Some ([34; 34] ++ v ++ [34; 34]) /\ set_get_mem_old v <> Some v.
Proof.
  exists [97; 10; 98]. vm_compute. repeat split; discriminate.
Qed.

(* non-trivial instance *)
Example roundtrip_example :
  let v := lit " a,b#c=d\e 'f' " in
  quote_residue v = false /\ set_get_mem v = Some v /\ set_save_get v = SOk v /\
  mem_raw v <> Some v.
Proof. vm_compute. repeat split; discriminate. Qed.

(* ---- bool_from_string / Option.convert_from_unicode for booleans -------------------- *)
Theorem bool_from_string_cases : forall s b,
  bool_from_string s = Some b ->
  In (map lower_c s)
     (if b then map lit ["yes"; "y"; "on"; "true"; "1"]%string
      else map lit ["no"; "n"; "off"; "false"; "0"]%string).
Proof.
  intros s b H. unfold bool_from_string in H.
  assert (Hex : forall l (L : list str), existsb (str_eqb l) L = true -> In l L).
  { intros l L HL. apply existsb_exists in HL. destruct HL as (x & Hin & Hx).
    assert (l = x); [|subst; exact Hin].
    clear -Hx. revert x Hx. induction l as [|a l IH]; intros [|b x] Hx; try discriminate; auto.
    cbn in Hx. apply andb_true_iff in Hx. destruct Hx as [H1 H2].
    apply N.eqb_eq in H1. f_equal; auto. }
  destruct (existsb (str_eqb (map lower_c s)) (map lit ["yes"; "y"; "on"; "true"; "1"]%string)) eqn:E1.
  - injection H as <-. apply Hex; exact E1.
  - destruct (existsb (str_eqb (map lower_c s)) (map lit ["no"; "n"; "off"; "false"; "0"]%string)) eqn:E2;
      [|discriminate].
    injection H as <-. apply Hex; exact E2.
Qed.
