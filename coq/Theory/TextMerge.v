(* Theory/TextMerge.v -- lemmas for C19 (model: Model/TextMerge.v). *)
From Coq Require Import NArith List Bool String Ascii Lia.
From BV Require Import Lib.Bytes Lib.Obs Model.TextMerge.
Import ListNotations.
Open Scope N_scope.

(* ---------- small list / bytes facts ---------- *)
Lemma In_firstn {A} n (l : list A) x : In x (firstn n l) -> In x l.
Proof.
  revert l; induction n as [|n IH]; intros [|y l]; simpl; try tauto.
  intros [H|H]; [left; exact H|right; apply IH; exact H].
Qed.
Lemma In_skipn {A} n (l : list A) x : In x (skipn n l) -> In x l.
Proof.
  revert l; induction n as [|n IH]; intros [|y l]; simpl; try tauto.
  intros H. right. apply IH. exact H.
Qed.
Lemma In_slice {A} s e (l : list A) x : In x (slice s e l) -> In x l.
Proof. unfold slice. intros H. eapply In_skipn, In_firstn, H. Qed.

Lemma prefixb_self_app p t : prefixb p (p ++ t) = true.
Proof. induction p as [|x p IH]; simpl; [reflexivity|]. rewrite N.eqb_refl. exact IH. Qed.

Lemma tbeq_refl (x : bytes) : bytes_eqb x x = true.
Proof. induction x as [|a x IH]; simpl; [reflexivity|]. rewrite N.eqb_refl. exact IH. Qed.
Lemma tbeq_eq (x y : bytes) : bytes_eqb x y = true <-> x = y.
Proof.
  split; [|intros ->; apply tbeq_refl].
  revert y; induction x as [|a x IH]; intros [|b y] H; simpl in H; try discriminate; [reflexivity|].
  apply andb_true_iff in H as [H1 H2]. apply N.eqb_eq in H1. subst b. f_equal. apply IH. exact H2.
Qed.

(* ---------- the guard ---------- *)
Lemma no_sentinel_In ls : no_sentinel ls = true -> forall l, In l ls -> prefixb START l = false.
Proof.
  unfold no_sentinel. rewrite forallb_forall. intros H l Hl. apply negb_true_iff. apply H. exact Hl.
Qed.

Lemma post_line_id l : prefixb START l = false -> post_line l = l.
Proof. unfold post_line. intros ->. reflexivity. Qed.

Lemma map_post_id ls : (forall l, In l ls -> prefixb START l = false) -> map post_line ls = ls.
Proof.
  induction ls as [|l ls IH]; simpl; intros H; [reflexivity|].
  rewrite post_line_id by (apply H; left; reflexivity).
  rewrite IH; [reflexivity|]. intros l' Hl'. apply H. right. exact Hl'.
Qed.

(* ---------- merge3's newline ---------- *)
Lemma newline_of_cases a : newline_of a = [10] \/ newline_of a = [13; 10] \/ newline_of a = [13].
Proof.
  destruct a as [|l a]; simpl; [left; reflexivity|].
  destruct (suffixb [13; 10] l); [right; left; reflexivity|].
  destruct (suffixb [13] l); [right; right; reflexivity|left; reflexivity].
Qed.

Section Facts.
Variable show_base : bool.
Variables base this other : list line.
Local Notation user := (base ++ this ++ other).

Lemma In_user_base l : In l base -> In l user.
Proof. intros H. apply in_or_app. left. exact H. Qed.
Lemma In_user_this l : In l this -> In l user.
Proof. intros H. apply in_or_app. right. apply in_or_app. left. exact H. Qed.
Lemma In_user_other l : In l other -> In l user.
Proof. intros H. apply in_or_app. right. apply in_or_app. right. exact H. Qed.

(* clean regions only yield lines of BASE / THIS / OTHER, whatever the indices are *)
Lemma render_clean_user sm nl r l :
  is_conflict r = false -> In l (render sm show_base nl base this other r) -> In l user.
Proof.
  destruct r as [s e|s e|s e|s e|zs ze as_ ae bs be]; simpl; intros Hc H; try discriminate;
    apply In_slice in H; auto using In_user_base, In_user_this, In_user_other.
Qed.

Lemma render_clean_eq sm nl r :
  is_conflict r = false ->
  render sm show_base nl base this other r = clean_region base this other r.
Proof. destruct r; simpl; intros H; try discriminate; reflexivity. Qed.

Lemma merge_lines_clean sm nl rs :
  has_conflict rs = false ->
  merge_lines sm show_base nl base this other rs = clean_lines base this other rs.
Proof.
  unfold has_conflict, merge_lines, clean_lines.
  induction rs as [|r rs IH]; simpl; intros H; [reflexivity|].
  apply orb_false_iff in H as [Hr Hrs]. rewrite (render_clean_eq sm nl r Hr), (IH Hrs). reflexivity.
Qed.

(* a conflict region is always flagged: no guard needed *)
Lemma conflict_flagged nl rs :
  has_conflict rs = true ->
  existsb (prefixb START) (merge_lines START show_base nl base this other rs) = true.
Proof.
  unfold has_conflict. rewrite !existsb_exists. intros [r [Hr Hc]].
  destruct r as [s e|s e|s e|s e|zs ze as_ ae bs be]; try discriminate.
  exists (START ++ SP ++ b_ "TREE" ++ nl). split; [|apply prefixb_self_app].
  unfold merge_lines. apply in_flat_map. eexists. split; [exact Hr|]. simpl. left. reflexivity.
Qed.

(* ... and under the guard nothing else is *)
Lemma flagged_conflict nl rs :
  guard base this other = true ->
  existsb (prefixb START) (merge_lines START show_base nl base this other rs) = true ->
  has_conflict rs = true.
Proof.
  intros Hg. unfold has_conflict. rewrite !existsb_exists. intros [l [Hl Hp]].
  unfold merge_lines in Hl. apply in_flat_map in Hl as [r [Hr Hlr]].
  exists r. split; [exact Hr|].
  destruct (is_conflict r) eqn:E; [reflexivity|].
  apply (render_clean_user START nl r l E) in Hlr.
  rewrite (no_sentinel_In _ Hg l Hlr) in Hp. discriminate.
Qed.

Lemma flag_iff_conflict nl rs :
  guard base this other = true ->
  existsb (prefixb START) (merge_lines START show_base nl base this other rs) = has_conflict rs.
Proof.
  intros Hg. destruct (has_conflict rs) eqn:E.
  - apply conflict_flagged. exact E.
  - destruct (existsb _ _) eqn:F; [|reflexivity].
    apply (flagged_conflict nl rs Hg) in F. congruence.
Qed.

(* the line filter turns the sentinel rendering into the ordinary rendering *)
Lemma post_render nl r :
  (nl = [10] \/ nl = [13; 10] \/ nl = [13]) ->
  guard base this other = true ->
  map post_line (render START show_base nl base this other r) = render LT7 show_base nl base this other r.
Proof.
  intros Hnl Hg.
  assert (U : forall s e ls, (forall l, In l ls -> In l user) ->
                             map post_line (slice s e ls) = slice s e ls).
  { intros s e ls H. apply map_post_id. intros l Hl. apply (no_sentinel_In _ Hg).
    apply H. eapply In_slice, Hl. }
  destruct r as [s e|s e|s e|s e|zs ze as_ ae bs be]; simpl;
    try (apply U; auto using In_user_base, In_user_this, In_user_other).
  assert (Ua := U as_ ae this In_user_this). assert (Ub := U bs be other In_user_other).
  assert (Uz := U zs ze base In_user_base).
  unfold line, bytes in *.
  destruct show_base;
    repeat (rewrite ?map_app, ?map_cons); rewrite ?Ua, ?Ub, ?Uz;
    destruct Hnl as [ -> | [ -> | -> ] ]; reflexivity.
Qed.

Lemma post_merge_lines nl rs :
  (nl = [10] \/ nl = [13; 10] \/ nl = [13]) ->
  guard base this other = true ->
  map post_line (merge_lines START show_base nl base this other rs)
  = merge_lines LT7 show_base nl base this other rs.
Proof.
  intros Hnl Hg. unfold merge_lines. induction rs as [|r rs IH]; simpl; [reflexivity|].
  rewrite map_app, IH, (post_render nl r Hnl Hg). reflexivity.
Qed.
End Facts.

(* ---------- text_merge ---------- *)
Lemma text_merge_none o b t ot rs :
  text_merge o b t ot rs = None <-> o_show_base o && o_reprocess o = true.
Proof. unfold text_merge. destruct (o_show_base o && o_reprocess o); split; congruence. Qed.

Lemma text_merge_guarded o b t ot rs ls flag :
  guard b t ot = true -> text_merge o b t ot rs = Some (ls, flag) ->
  flag = has_conflict rs /\ ls = marked_lines o b t ot rs.
Proof.
  unfold text_merge, marked_lines. intros Hg. destruct (o_show_base o && o_reprocess o); [discriminate|].
  intros H. injection H as <- <-. split.
  - apply flag_iff_conflict. exact Hg.
  - apply post_merge_lines; [apply newline_of_cases|exact Hg].
Qed.

Lemma text_merge_conflict_flag o b t ot rs ls flag :
  text_merge o b t ot rs = Some (ls, flag) -> has_conflict rs = true -> flag = true.
Proof.
  unfold text_merge. destruct (o_show_base o && o_reprocess o); [discriminate|].
  intros H Hc. injection H as _ <-. apply conflict_flagged. exact Hc.
Qed.

(* ---------- merge_file ---------- *)
(* text_merge is reached: the three texts are pairwise different *)
Definition reached (b t ot : list line) : bool :=
  negb (bytes_eqb (text b) (text ot)) && negb (bytes_eqb (text t) (text ot))
  && negb (bytes_eqb (text b) (text t)).

Lemma reached_unfold b t ot :
  reached b t ot = true ->
  bytes_eqb (text b) (text ot) = false /\ bytes_eqb (text t) (text ot) = false
  /\ bytes_eqb (text b) (text t) = false.
Proof. unfold reached. rewrite !andb_true_iff, !negb_true_iff. tauto. Qed.

Lemma merge_file_shortcut o b t ot rs :
  reached b t ot = false ->
  merge_file o b t ot rs (wt0 t)
  = Some {| f_main := Some (if negb (bytes_eqb (text b) (text ot)) && negb (bytes_eqb (text t) (text ot))
                            then text ot else text t);
            f_base := None; f_this := None; f_other := None; f_alike := None; conflicted := false |}.
Proof.
  unfold reached, merge_file, wt0.
  destruct (bytes_eqb (text b) (text ot)); simpl; [reflexivity|].
  destruct (bytes_eqb (text t) (text ot)); simpl; [reflexivity|].
  destruct (bytes_eqb (text b) (text t)); simpl; [reflexivity|discriminate].
Qed.

Lemma merge_file_none o b t ot rs :
  merge_file o b t ot rs (wt0 t) = None <-> reached b t ot = true /\ o_show_base o && o_reprocess o = true.
Proof.
  destruct (reached b t ot) eqn:R.
  - apply reached_unfold in R as [R1 [R2 R3]]. unfold merge_file. rewrite R1, R2, R3.
    rewrite <- (text_merge_none o b t ot rs).
    destruct (text_merge o b t ot rs) as [[ls [|]]|]; split; try discriminate; try tauto;
      intros [_ H]; discriminate.
  - rewrite (merge_file_shortcut o b t ot rs R). split; [discriminate|]. intros [H _]. discriminate.
Qed.

Lemma merge_file_reached o b t ot rs w :
  reached b t ot = true -> merge_file o b t ot rs (wt0 t) = Some w ->
  exists ls flag, text_merge o b t ot rs = Some (ls, flag)
    /\ w = if flag
           then {| f_main := Some (text ls); f_base := Some (text b); f_this := Some (text t);
                   f_other := Some (text ot); f_alike := None; conflicted := true |}
           else {| f_main := Some (text ls); f_base := None; f_this := None; f_other := None; f_alike := None;
                   conflicted := false |}.
Proof.
  intros R. apply reached_unfold in R as [R1 [R2 R3]]. unfold merge_file. rewrite R1, R2, R3.
  destruct (text_merge o b t ot rs) as [[ls [|]]|]; intros H; try discriminate;
    injection H as <-; eexists; eexists; split; reflexivity.
Qed.

(* helpers exist exactly when the conflict is recorded and then hold exactly BASE / THIS / OTHER *)
Lemma helpers_exact o b t ot rs w :
  merge_file o b t ot rs (wt0 t) = Some w ->
  (conflicted w = true -> f_base w = Some (text b) /\ f_this w = Some (text t) /\ f_other w = Some (text ot))
  /\ (conflicted w = false -> f_base w = None /\ f_this w = None /\ f_other w = None).
Proof.
  destruct (reached b t ot) eqn:R.
  - intros H. destruct (merge_file_reached o b t ot rs w R H) as [ls [[|] [_ ->]]]; simpl;
      split; intros; try discriminate; auto.
  - rewrite (merge_file_shortcut o b t ot rs R). intros H. injection H as <-. simpl.
    split; intros; try discriminate; auto.
Qed.

Lemma conflict_recorded_iff_guarded o b t ot rs w :
  guard b t ot = true -> merge_file o b t ot rs (wt0 t) = Some w ->
  conflicted w = (reached b t ot && has_conflict rs).
Proof.
  intros Hg H. destruct (reached b t ot) eqn:R.
  - destruct (merge_file_reached o b t ot rs w R H) as [ls [flag [Htm ->]]].
    destruct (text_merge_guarded o b t ot rs ls flag Hg Htm) as [-> _].
    destruct (has_conflict rs); reflexivity.
  - rewrite (merge_file_shortcut o b t ot rs R) in H. injection H as <-. reflexivity.
Qed.

Lemma conflict_region_always_recorded o b t ot rs w :
  merge_file o b t ot rs (wt0 t) = Some w -> reached b t ot = true -> has_conflict rs = true ->
  conflicted w = true.
Proof.
  intros H R Hc. destruct (merge_file_reached o b t ot rs w R H) as [ls [flag [Htm ->]]].
  rewrite (text_merge_conflict_flag o b t ot rs ls flag Htm Hc). reflexivity.
Qed.

Lemma file_text_guarded o b t ot rs w :
  guard b t ot = true -> merge_file o b t ot rs (wt0 t) = Some w -> reached b t ot = true ->
  f_main w = Some (text (marked_lines o b t ot rs))
  /\ (has_conflict rs = false -> f_main w = Some (text (clean_lines b t ot rs))).
Proof.
  intros Hg H R. destruct (merge_file_reached o b t ot rs w R H) as [ls [flag [Htm ->]]].
  destruct (text_merge_guarded o b t ot rs ls flag Hg Htm) as [-> ->].
  assert (M : f_main (if has_conflict rs
           then {| f_main := Some (text (marked_lines o b t ot rs)); f_base := Some (text b);
                   f_this := Some (text t); f_other := Some (text ot); f_alike := None; conflicted := true |}
           else {| f_main := Some (text (marked_lines o b t ot rs)); f_base := None; f_this := None;
                   f_other := None; f_alike := None; conflicted := false |}) = Some (text (marked_lines o b t ot rs))).
  { destruct (has_conflict rs); reflexivity. }
  split; [exact M|]. intros Hc. rewrite M. unfold marked_lines. rewrite merge_lines_clean by exact Hc.
  reflexivity.
Qed.

(* resolution *)
Lemma merge_alike o b t ot rs w : merge_file o b t ot rs (wt0 t) = Some w -> f_alike w = None.
Proof.
  destruct (reached b t ot) eqn:R.
  - intros H. destruct (merge_file_reached o b t ot rs w R H) as [ls [[|] [_ ->]]]; reflexivity.
  - rewrite (merge_file_shortcut o b t ot rs R). intros H. injection H as <-. reflexivity.
Qed.

(* Conflict.cleanup removes every helper that is present, whatever subset is present,
   and touches nothing else *)
Lemma cleanup_all w :
  f_base (cleanup w) = None /\ f_this (cleanup w) = None /\ f_other (cleanup w) = None
  /\ f_main (cleanup w) = f_main w /\ f_alike (cleanup w) = f_alike w
  /\ conflicted (cleanup w) = conflicted w.
Proof. destruct w as [m [b|] [t|] [o|] a c]; repeat split; reflexivity. Qed.

(* resolve (done / take-this / take-other) on ANY tree state with a recorded conflict -- any
   subset of the helpers may already be gone: if it succeeds no helper remains, the record is
   gone, the look-alike is untouched and the file holds what the action says *)
Lemma resolve_removes_all_helpers act w w' :
  conflicted w = true -> act <> ANone -> resolve act w = Some w' ->
  f_base w' = None /\ f_this w' = None /\ f_other w' = None /\ conflicted w' = false
  /\ f_alike w' = f_alike w
  /\ f_main w' = match act with TakeThis => f_this w | TakeOther => f_other w | _ => f_main w end.
Proof.
  intros Hc Ha. unfold resolve. rewrite Hc. simpl.
  destruct act; try congruence;
    destruct w as [[m|] [b|] [t|] [o|] a c]; simpl; intros H; try discriminate;
    injection H as <-; repeat split; reflexivity.
Qed.

(* ... and it fails (MalformedTransform, tree unchanged) exactly when the winner helper is gone *)
Lemma resolve_fails_iff act w :
  conflicted w = true ->
  (resolve act w = None <-> (act = TakeThis /\ f_this w = None) \/ (act = TakeOther /\ f_other w = None)).
Proof.
  intros Hc. unfold resolve. rewrite Hc. simpl.
  destruct act; simpl; try (split; [discriminate|intros [[H _]|[H _]]; discriminate]).
  - destruct (f_this w); split; try discriminate; try tauto.
    + intros [[_ H]|[H _]]; discriminate.
  - destruct (f_other w); split; try discriminate; try tauto.
    + intros [[H _]|[_ H]]; discriminate.
Qed.

(* after a merge that recorded a conflict, with any helpers removed by hand except the winner *)
Lemma resolve_take o b t ot rs w rb rt ro alike :
  merge_file o b t ot rs (wt0 t) = Some w -> conflicted w = true ->
  (rt = false ->
   resolve TakeThis (user_edit rb rt ro alike w)
   = Some {| f_main := Some (text t); f_base := None; f_this := None; f_other := None; f_alike := alike;
             conflicted := false |})
  /\ (ro = false ->
   resolve TakeOther (user_edit rb rt ro alike w)
   = Some {| f_main := Some (text ot); f_base := None; f_this := None; f_other := None; f_alike := alike;
             conflicted := false |})
  /\ resolve ADone (user_edit rb rt ro alike w)
   = Some {| f_main := f_main w; f_base := None; f_this := None; f_other := None; f_alike := alike;
             conflicted := false |}.
Proof.
  intros H Hc. destruct (helpers_exact o b t ot rs w H) as [Hh _]. destruct (Hh Hc) as [Hb [Ht Ho]].
  pose proof (merge_alike o b t ot rs w H) as Ha.
  destruct w as [m wb wt_ wo wa c]; simpl in *. subst.
  split; [|split].
  - intros ->. destruct m, rb, ro, alike; reflexivity.
  - intros ->. destruct m, rb, rt, alike; reflexivity.
  - destruct rb, rt, ro, alike; reflexivity.
Qed.

Lemma resolve_unconflicted act w : conflicted w = false -> resolve act w = Some w.
Proof. unfold resolve. intros ->. reflexivity. Qed.

(* ---------- where the file, its helpers and the conflict record end up ---------- *)
Lemma three_way_pick_spec b o t :
  (b = o -> three_way_pick b o t = t) /\ (b = t -> three_way_pick b o t = o)
  /\ (o = t -> three_way_pick b o t = t).
Proof. destruct b, o, t; repeat split; intros; try discriminate; reflexivity. Qed.

Lemma final_place_spec pb po pt :
  (in_dst pb = in_dst po -> in_dst (final_place pb po pt) = in_dst pt)
  /\ (in_dst pb = in_dst pt -> in_dst (final_place pb po pt) = in_dst po)
  /\ (renamed pb = renamed po -> renamed (final_place pb po pt) = renamed pt)
  /\ (renamed pb = renamed pt -> renamed (final_place pb po pt) = renamed po).
Proof.
  unfold final_place; simpl.
  destruct (three_way_pick_spec (in_dst pb) (in_dst po) (in_dst pt)) as [A [B _]].
  destruct (three_way_pick_spec (renamed pb) (renamed po) (renamed pt)) as [C [D _]].
  repeat split; assumption.
Qed.

Lemma merge_placed_spec o pb po pt b t ot rs pl :
  merge_placed o pb po pt b t ot rs = Some pl ->
  merge_file o b t ot rs (wt0 t) = Some (p_wt pl) /\ p_at pl = final_place pb po pt.
Proof.
  unfold merge_placed. destruct (merge_file o b t ot rs (wt0 t)); [|discriminate].
  intros H. injection H as <-. split; reflexivity.
Qed.

Lemma cherrypick_flag_spec a b : cherrypick_flag a b = false <-> a = true /\ b = true.
Proof. destruct a, b; simpl; split; try discriminate; try tauto; intros [? ?]; discriminate. Qed.

(* ---------- the sentinel collision ---------- *)
Definition W_base : list line := [START ++ [10]; [97; 10]; [98; 10]; [99; 10]].
Definition W_this : list line := [START ++ [10]; [65; 10]; [98; 10]; [99; 10]].
Definition W_other : list line := [START ++ [10]; [97; 10]; [98; 10]; [67; 10]].
(* what merge3 yields for them (replayed in the correspondence corpus) *)
Definition W_regions : list iregion := [IUnchanged 0 1; IA 1 2; IUnchanged 2 3; IB 3 4].
Definition W_opts : opts := {| o_reprocess := false; o_show_base := false |}.

Lemma sentinel_refuted :
  exists o b t ot rs w,
    has_conflict rs = false /\ reached b t ot = true
    /\ merge_file o b t ot rs (wt0 t) = Some w
    /\ conflicted w = true
    /\ f_main w <> Some (text (clean_lines b t ot rs)).
Proof.
  exists W_opts, W_base, W_this, W_other, W_regions.
  eexists. split; [reflexivity|]. split; [vm_compute; reflexivity|].
  split; [vm_compute; reflexivity|]. split; [reflexivity|]. vm_compute. discriminate.
Qed.

(* ---------- non-vacuity ---------- *)
Example ex_guard_conflict :
  let b := [[97; 10]; [98; 10]; [99; 10]] in
  let t := [[97; 10]; [84; 10]; [99; 10]] in
  let ot := [[97; 10]; [79; 10]; [99; 10]] in
  let rs := [IUnchanged 0 1; IConflict 1 2 1 2 1 2; IUnchanged 2 3] in
  guard b t ot = true /\ reached b t ot = true /\ has_conflict rs = true /\
  exists w, merge_file W_opts b t ot rs (wt0 t) = Some w /\ conflicted w = true /\
            f_main w = Some (b_ "a" ++ [10] ++ b_ "<<<<<<< TREE" ++ [10] ++ b_ "T" ++ [10] ++ b_ "=======" ++ [10]
                             ++ b_ "O" ++ [10] ++ b_ ">>>>>>> MERGE-SOURCE" ++ [10] ++ b_ "c" ++ [10]).
Proof. repeat split; try reflexivity. eexists. repeat split; vm_compute; reflexivity. Qed.

Example ex_guard_clean :
  let b := [[97; 10]; [98; 10]; [99; 10]] in
  let t := [[65; 10]; [98; 10]; [99; 10]] in
  let ot := [[97; 10]; [98; 10]; [67; 10]] in
  let rs := [IA 0 1; IUnchanged 1 2; IB 2 3] in
  guard b t ot = true /\ reached b t ot = true /\ has_conflict rs = false /\
  merge_file W_opts b t ot rs (wt0 t)
  = Some {| f_main := Some [65; 10; 98; 10; 67; 10]; f_base := None; f_this := None; f_other := None; f_alike := None;
            conflicted := false |}.
Proof. repeat split; vm_compute; reflexivity. Qed.
