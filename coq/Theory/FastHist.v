(* Theory/FastHist.v -- facts about Model/FastHist.v (C44, history level). *)
From Coq Require Import ZArith NArith List Bool String Lia.
From BV Require Import Lib.Bytes Lib.Obs Lib.Dag Lib.DagMergeSort Model.FastIO Model.FastHist Theory.FastIO.
Import ListNotations.
Open Scope N_scope.

(* ------------------------------------------------------------------ *)
(* the importer's fold                                                 *)
(* ------------------------------------------------------------------ *)

Definition istep (rs : res ist) (x : xcommit) : res ist :=
  do s <- rs; import_one s x.

Lemma fold_istep_fail xs e : fold_left istep xs (Fail e) = Fail e.
Proof. induction xs as [|x xs IH]; simpl; [reflexivity|exact IH]. Qed.

(* what one imported revision must look like, given the commit command it came from *)
Definition meta_rel (x : xcommit) (d : drev) : Prop :=
  d_committer d = format_name_email (x_committer x) /\
  d_authors d = author_prop x /\
  d_ts4 d = (4 * x_secs x)%Z /\
  d_tz d = x_tz x /\
  d_msg d = x_msg x.

Definition ref_parents (s : ist) (x : xcommit) : list nat :=
  match x_from x with
  | Some k => [k]
  | None => match (if x_reset x then None else aget bytes_eqb (last_ids (i_rt s)) MASTER) with
            | Some l => [l] | None => [] end
  end ++ x_merges x.

Lemma import_one_spec s x s' :
  import_one s x = Ok s' ->
  exists d, i_revs s' = i_revs s ++ [(x_mark x, d)] /\ meta_rel x d /\ d_parents d = ref_parents s x
            /\ i_tags s' = i_tags s.
Proof.
  unfold import_one. fold (ref_parents s x).
  cbv beta iota zeta.
  destruct (import_commit _ (i_fresh s) (fst (x_cmds x) ++ snd (x_cmds x))) as [r|e]; simpl; [|discriminate].
  intros H. inversion H; subst; clear H. simpl.
  eexists. split; [reflexivity|]. split; [|split; reflexivity].
  unfold meta_rel; simpl. repeat split; reflexivity.
Qed.

Lemma fold_istep_spec xs : forall s0 s,
  fold_left (istep) xs (Ok s0) = Ok s ->
  exists ds, i_revs s = i_revs s0 ++ ds /\ map fst ds = map x_mark xs /\ Forall2 meta_rel xs (map snd ds)
             /\ i_tags s = i_tags s0.
Proof.
  induction xs as [|x xs IH]; cbn [fold_left]; intros s0 s H.
  - inversion H; subst. exists []. rewrite app_nil_r. repeat split; constructor.
  - change (istep (Ok s0) x) with (import_one s0 x) in H.
    destruct (import_one s0 x) as [s1|e] eqn:E.
    + destruct (import_one_spec s0 x s1 E) as [d [Hr [Hm [_ Ht]]]].
      destruct (IH s1 s H) as [ds [Hr' [Hk [Hf Ht']]]].
      exists ((x_mark x, d) :: ds). rewrite Hr', Hr, <- app_assoc. simpl.
      split; [reflexivity|]. split; [rewrite Hk; reflexivity|]. split; [constructor; assumption|].
      rewrite Ht', Ht. reflexivity.
    + rewrite fold_istep_fail in H. discriminate.
Qed.

Lemma import_tag_revs s t : i_revs (import_tag s t) = i_revs s.
Proof. unfold import_tag. destruct (prefixb REFS_TAGS (fst t)); reflexivity. Qed.

Lemma fold_import_tag_revs ts : forall s, i_revs (fold_left import_tag ts s) = i_revs s.
Proof. induction ts as [|t ts IH]; simpl; intros s; [reflexivity|]. rewrite IH. apply import_tag_revs. Qed.

(* same number of revisions, in mark order, each with the committer / authors / time / message of its
   commit command -- for every stream the importer accepts *)
Theorem import_preserves_count_and_meta (xs : list xcommit) (tags : list (bytes * nat)) (s : ist) :
  import_stream xs tags = Ok s ->
  map fst (i_revs s) = map x_mark xs /\ Forall2 meta_rel xs (map snd (i_revs s)).
Proof.
  unfold import_stream. fold (istep).
  destruct (fold_left (istep) xs (Ok (mkI [] (mkRT [] [] None) 1000 []))) as [s1|e] eqn:E; simpl; [|discriminate].
  intros H. inversion H; subst; clear H.
  rewrite fold_import_tag_revs.
  destruct (fold_istep_spec xs _ s1 E) as [ds [Hr [Hk [Hf _]]]]. simpl in Hr.
  rewrite Hr. split; assumption.
Qed.

(* ------------------------------------------------------------------ *)
(* parents                                                             *)
(* ------------------------------------------------------------------ *)

Lemma marks_flat_map order ps ms :
  Forall2 (fun p k => mark_of order p = Some k) ps ms ->
  flat_map (fun p => match mark_of order p with Some k => [k] | None => [] end) ps = ms.
Proof.
  induction 1 as [|p k ps ms H _ IH]; simpl; [reflexivity|]. rewrite H, IH. reflexivity.
Qed.

Definition pmarks (order : list nat) (sr : srev) : list nat :=
  flat_map (fun p => match mark_of order p with Some k => [k] | None => [] end) (s_parents sr).

Lemma export_commit_from plain h order r sr :
  x_from (export_commit plain h order r sr) = hd_error (pmarks order sr) /\
  x_merges (export_commit plain h order r sr) = tl (pmarks order sr).
Proof.
  unfold export_commit, pmarks.
  match goal with |- context [let '(a, m) := ?c in _] => destruct c end.
  split; reflexivity.
Qed.

Lemma export_commit_reset plain h order r sr :
  x_reset (export_commit plain h order r sr) = match s_parents sr with [] => true | _ => false end.
Proof.
  unfold export_commit.
  match goal with |- context [let '(a, m) := ?c in _] => destruct c end.
  reflexivity.
Qed.

(* every commit (roots included: the reset printed before a parentless commit clears the ref) is imported
   with exactly the marks of its parents, left-hand parent first, merge parents in order *)
Theorem commit_parents_preserved plain h order r sr s s' ms :
  Forall2 (fun p k => mark_of order p = Some k) (s_parents sr) ms ->
  import_one s (export_commit plain h order r sr) = Ok s' ->
  exists d, i_revs s' = i_revs s ++ [(x_mark (export_commit plain h order r sr), d)] /\ d_parents d = ms.
Proof.
  intros HF HI.
  destruct (import_one_spec _ _ _ HI) as [d [Hr [_ [Hp _]]]].
  exists d. split; [exact Hr|]. rewrite Hp. unfold ref_parents.
  destruct (export_commit_from plain h order r sr) as [Hf Hm]. rewrite Hf, Hm.
  rewrite export_commit_reset.
  unfold pmarks. rewrite (marks_flat_map order _ ms HF).
  destruct HF as [|p k ps ms' Hpk HF']; reflexivity.
Qed.

(* ------------------------------------------------------------------ *)
(* timestamps, time zones, identities                                  *)
(* ------------------------------------------------------------------ *)

Theorem timestamp_roundtrip (ts4 : Z) : (ts4 mod 4 = 0)%Z -> (4 * stream_secs ts4 = ts4)%Z.
Proof.
  intros H. unfold stream_secs.
  assert (ts4 = (ts4 / 4) * 4)%Z as E.
  { pose proof (Z_div_exact_full_2 ts4 4 ltac:(lia) H). lia. }
  assert (Z.quot ts4 4 = ts4 / 4)%Z as Q.
  { rewrite E at 1. apply Z.quot_mul. lia. }
  rewrite Q. lia.
Qed.

Theorem timestamp_subsecond_lost : (4 * stream_secs 4003 <> 4003)%Z.
Proof. vm_compute. discriminate. Qed.

Theorem timezone_roundtrip (tz : Z) : (tz mod 60 = 0)%Z -> stream_tz tz = tz.
Proof.
  intros H. unfold stream_tz.
  assert ((Z.abs tz) mod 60 = 0)%Z as HA.
  { apply Z.mod_divide; [lia|]. apply Z.divide_abs_r. apply Z.mod_divide; [lia|exact H]. }
  assert (Z.abs tz / 60 * 60 = Z.abs tz)%Z as E.
  { pose proof (Z_div_exact_full_2 (Z.abs tz) 60 ltac:(lia) HA). lia. }
  rewrite E. destruct tz; simpl; lia.
Qed.

Theorem timezone_seconds_lost : stream_tz (-90) <> (-90)%Z.
Proof. vm_compute. discriminate. Qed.

(* an identity survives when it has no "<" (it travels as the name, with an empty e-mail), or when it is
   literally what _format_name_email makes of the (name, email) that parseaddr returns, email non-empty:
   name ++ " <" ++ email ++ ">", or "<" ++ email ++ ">" for an empty name (08f41a9) *)
Definition ident_canonical (u : ident) (parsed : nm_em) : bool :=
  if Bytes.memb LT u then nonempty (snd parsed) && bytes_eqb u (format_name_email parsed)
  else true.

Lemma bytes_eqb_eq a b : bytes_eqb a b = true -> a = b.
Proof.
  unfold bytes_eqb. revert b. induction a as [|x a IH]; destruct b as [|y b]; simpl; try discriminate; auto.
  intros H. apply andb_prop in H. destruct H as [H1 H2]. apply N.eqb_eq in H1. subst. f_equal. auto.
Qed.

Theorem ident_roundtrip (u : ident) (parsed : nm_em) :
  ident_canonical u parsed = true -> format_name_email (name_email u parsed) = u.
Proof.
  unfold ident_canonical, name_email.
  destruct (Bytes.memb LT u); simpl; [|unfold format_name_email; reflexivity].
  intros H. apply andb_prop in H. destruct H as [H1 H2].
  symmetry. apply bytes_eqb_eq. exact H2.
Qed.

Definition JOE : bytes := [106; 111; 101; 64; 120; 46; 111; 114; 103].
(* repaired: "<joe@x.org>" (parseaddr gives ("", "joe@x.org")) comes back unchanged *)
Theorem ident_empty_name_roundtrip :
  format_name_email (name_email ([60] ++ JOE ++ [62]) ([], JOE)) = [60] ++ JOE ++ [62].
Proof. vm_compute. reflexivity. Qed.

(* residue: "Joe <>" (parseaddr gives ("Joe", "")) comes back as "Joe" *)
Theorem ident_empty_email_changed :
  format_name_email (name_email [74; 111; 101; 32; 60; 62] ([74; 111; 101], [])) <> [74; 111; 101; 32; 60; 62].
Proof. vm_compute. discriminate. Qed.

(* ------------------------------------------------------------------ *)
(* tags                                                                *)
(* ------------------------------------------------------------------ *)

Lemma skipn_refs_tags t : skipn 10 (REFS_TAGS ++ t) = t.
Proof. reflexivity. Qed.

Lemma prefixb_app p s : prefixb p (p ++ s) = true.
Proof.
  induction p as [|c p IH]; simpl; [destruct s; reflexivity|].
  rewrite N.eqb_refl. exact IH.
Qed.

(* a tag whose ref is a valid git ref, on an exported revision, is exported verbatim in every mode and
   recorded by the importer under its own name *)
Theorem valid_tag_exported plain rewrite order t r k :
  check_ref_format (REFS_TAGS ++ t) = true ->
  mark_of order r = Some k ->
  export_tags plain rewrite false order [(t, Some r)] = [(REFS_TAGS ++ t, k)].
Proof.
  intros HC HM. unfold export_tags. cbn [flat_map snd fst]. rewrite HM, HC.
  cbn [negb]. rewrite Bool.andb_false_r. apply app_nil_r.
Qed.

Theorem tag_reset_imported s t k :
  i_tags (import_tag s (REFS_TAGS ++ t, k)) = aset bytes_eqb (i_tags s) t k.
Proof.
  unfold import_tag. cbn [fst snd]. rewrite prefixb_app. cbn [i_tags]. rewrite skipn_refs_tags. reflexivity.
Qed.

(* every tag reset the exporter prints is below refs/tags/ (bbc24e3: only the tag name is rewritten), so
   the importer records it as a tag and never as a branch head *)
Theorem exported_tags_are_tags plain rewrite notags order tags t :
  In t (export_tags plain rewrite notags order tags) -> prefixb REFS_TAGS (fst t) = true.
Proof.
  unfold export_tags. destruct notags; [contradiction|].
  intros H. apply in_flat_map in H. destruct H as [[nm [r|]] [_ H]]; cbn [fst snd] in H; [|contradiction].
  destruct (mark_of order r) as [k|]; [|contradiction].
  destruct (plain && negb (check_ref_format (REFS_TAGS ++ nm))).
  - destruct rewrite; [|contradiction]. destruct H as [H|[]]. subst t. cbn [fst]. apply prefixb_app.
  - destruct H as [H|[]]. subst t. cbn [fst]. apply prefixb_app.
Qed.

(* ".hid": not a valid ref; dropped without --rewrite-tag-names, rewritten to "_hid" with it *)
Definition HID : bytes := [46; 104; 105; 100].
Theorem invalid_tag_dropped order r :
  export_tags true false false order [(HID, Some r)] = [].
Proof. unfold export_tags. simpl. destruct (mark_of order r); reflexivity. Qed.

Theorem invalid_tag_rewritten order r k :
  mark_of order r = Some k ->
  export_tags true true false order [(HID, Some r)] = [(REFS_TAGS ++ [95; 104; 105; 100], k)].
Proof. intros H. unfold export_tags. cbn [flat_map snd fst]. rewrite H. vm_compute. reflexivity. Qed.

(* ------------------------------------------------------------------ *)
(* history-level witnesses                                             *)
(* ------------------------------------------------------------------ *)

Definition JOEID : bytes := [74; 111; 101; 32; 60] ++ JOE ++ [62].     (* "Joe <joe@x.org>" *)
Definition srev0 (ps : list nat) (v : inv) : srev := mkS ps v JOEID ([74; 111; 101], JOE) [] 4000 0 [109] [] [].

(* imported revisions of a plain export of [h] with tip [tip]: (parents as marks, tree) *)
Definition imported (h : list srev) (tip : nat) : res (list (list nat * list titem)) :=
  match import_stream (export_commits true h tip) [] with
  | Ok s => Ok (map (fun md => (d_parents (snd md), tree_of (d_inv (snd md)))) (i_revs s))
  | Fail e => Fail e
  end.

(* two roots merged (repaired by 139a868): both roots stay roots, the merge has both as parents *)
Definition h_two_roots : list srev :=
  [srev0 [] [F 1 0 bA tA]; srev0 [] [F 2 0 bB tB]; srev0 [0%nat; 1%nat] [F 1 0 bA tA; F 2 0 bB tB]].

Theorem two_roots_preserved :
  imported h_two_roots 2 = Ok [([], tree_of [F 1 0 bA tA]); ([], tree_of [F 2 0 bB tB]);
                               ([1%nat; 2%nat], tree_of [F 1 0 bA tA; F 2 0 bB tB])].
Proof. vm_compute. reflexivity. Qed.

(* the tip of the imported branch after `--plain --rewrite-tag-names` with tag ".hid" on the first of two
   revisions (repaired by bbc24e3): the real tip, mark 2, and the tag "_hid" on mark 1 *)
Definition h_two : list srev := [srev0 [] [F 1 0 bA tA]; srev0 [0%nat] [F 1 0 bA tB]].
Theorem rewritten_tag_keeps_tip :
  match import_stream (export_commits true h_two 1)
                      (export_tags true true false (export_order h_two 1) [(HID, Some 0%nat)]) with
  | Ok s => final_tip s = Some 2%nat /\ i_tags s = [([95; 104; 105; 100], 1%nat)]
  | Fail _ => False
  end.
Proof. vm_compute. split; reflexivity. Qed.

(* the same history without the tag: tip = mark 2, both revisions, parents preserved *)
Theorem two_revisions_roundtrip :
  imported h_two 1 = Ok [([], tree_of [F 1 0 bA tA]); ([1%nat], tree_of [F 1 0 bA tB])].
Proof. vm_compute. reflexivity. Qed.

(* ------------------------------------------------------------------ *)
(* examples: the hypotheses of the general theorems are satisfiable    *)
(* ------------------------------------------------------------------ *)

(* the modified child of the renamed directory of [wit_dirrename]: its new content is emitted at e/a *)
Example emit_example :
  In (CM (pjoin bE bA) MFile tX) (snd (filecmds true (fst wit_dirrename) (snd wit_dirrename) [] [])).
Proof.
  change (pjoin bE bA) with (opath (snd wit_dirrename) (e_id (F 2 1 bA tX))).
  change MFile with (mode_of (F 2 1 bA tX)).
  change tX with (e_data (F 2 1 bA tX)) at 2.
  apply filecmds_emit_changed_content.
  - vm_compute; reflexivity.
  - vm_compute; auto.
  - reflexivity.
  - vm_compute; reflexivity.
  - intros o H1 H2. vm_compute in H1. inversion H1; subst. vm_compute in H2. discriminate H2.
Qed.

Example parents_example :
  exists s', import_one (mkI [(1%nat, mkD [] [] None 0 0 [] [])] (mkRT [] [] None) 1000 [])
                        (export_commit true h_two [0%nat; 1%nat] 1 (srev0 [0%nat] [F 1 0 bA tB])) = Ok s'.
Proof. eexists. vm_compute. reflexivity. Qed.

Example meta_example : ident_canonical JOEID ([74; 111; 101], JOE) = true /\ (4000 mod 4 = 0)%Z /\ (3600 mod 60 = 0)%Z
                       /\ check_ref_format (REFS_TAGS ++ [118; 49]) = true.
Proof. repeat split; vm_compute; reflexivity. Qed.

(* an empty directory is not even imported by the initial commit (plain streams have no directory commands) *)
Theorem empty_directory_lost :
  wf_inv (fst wit_emptydir) = true /\
  exists b fr, image true (fst wit_emptydir) = Ok (b, fr) /\ tree_of b <> tree_of (fst wit_emptydir).
Proof.
  split; [vm_compute; reflexivity|].
  remember (image true (fst wit_emptydir)) as r eqn:E. vm_compute in E. rewrite E.
  eexists. eexists. split; [reflexivity|]. vm_compute. intro H. discriminate H.
Qed.
