(* Theory/ShaMap.v -- proofs for C38 (model: Model/ShaMap.v). *)
From Coq Require Import NArith List Bool Lia.
From BV Require Import Lib.Bytes Lib.Obs Model.ShaMap.
Import ListNotations.
Open Scope N_scope.

Lemma beqb_true a b : bytes_eqb a b = true -> a = b.
Proof.
  unfold bytes_eqb. revert b; induction a as [|x a IH]; intros [|y b] H; try discriminate; auto.
  apply andb_true_iff in H. destruct H as [H1 H2]. apply N.eqb_eq in H1. subst. f_equal. auto.
Qed.
Lemma beqb_refl a : bytes_eqb a a = true.
Proof. unfold bytes_eqb. induction a as [|x a IH]; auto. rewrite N.eqb_refl. exact IH. Qed.
Lemma beqb_sym a b : bytes_eqb a b = bytes_eqb b a.
Proof.
  destruct (bytes_eqb a b) eqn:E1, (bytes_eqb b a) eqn:E2; auto.
  - apply beqb_true in E1. subst. rewrite beqb_refl in E2. discriminate.
  - apply beqb_true in E2. subst. rewrite beqb_refl in E1. discriminate.
Qed.
Lemma fkey_eqb_true a b : fkey_eqb a b = true -> a = b.
Proof.
  destruct a, b. unfold fkey_eqb; simpl. intros H. apply andb_true_iff in H. destruct H as [H1 H2].
  apply beqb_true in H1. apply beqb_true in H2. subst. reflexivity.
Qed.
Lemma fkey_eqb_refl a : fkey_eqb a a = true.
Proof. destruct a. unfold fkey_eqb; simpl. rewrite !beqb_refl. reflexivity. Qed.

Section AL.
  Context {K V : Type} (eqb : K -> K -> bool).
  Hypothesis eqb_true : forall a b, eqb a b = true -> a = b.
  Hypothesis eqb_refl : forall a, eqb a a = true.

  Lemma eqb_false a b : a <> b -> eqb a b = false.
  Proof. intros H. destruct (eqb a b) eqn:E; auto. apply eqb_true in E. contradiction. Qed.

  Lemma alookup_app k (t1 t2 : list (K * V)) :
    alookup eqb k (t1 ++ t2) = match alookup eqb k t1 with Some v => Some v | None => alookup eqb k t2 end.
  Proof. induction t1 as [|[k' v] r IH]; simpl; auto. destruct (eqb k' k); auto. Qed.

  Lemma alookup_aremove k k' (t : list (K * V)) :
    alookup eqb k (aremove eqb k' t) = if eqb k' k then None else alookup eqb k t.
  Proof.
    induction t as [|[k2 v] r IH]; simpl; [destruct (eqb k' k); reflexivity|].
    destruct (eqb k2 k') eqn:E2.
    - apply eqb_true in E2. subst k2. rewrite IH. destruct (eqb k' k); reflexivity.
    - simpl. destruct (eqb k2 k) eqn:E3; [|exact IH].
      apply eqb_true in E3. subst k2. rewrite eqb_false; [reflexivity|].
      intros ->. rewrite eqb_refl in E2. discriminate.
  Qed.

  Lemma alookup_aset k k' v (t : list (K * V)) :
    alookup eqb k (aset eqb k' v t) = if eqb k' k then Some v else alookup eqb k t.
  Proof.
    unfold aset. rewrite alookup_app, alookup_aremove. simpl.
    destruct (eqb k' k); [reflexivity|]. destruct (alookup eqb k t); reflexivity.
  Qed.

  Lemma alookup_aadd k k' v (t : list (K * V)) :
    alookup eqb k (aadd eqb k' v t) =
    match alookup eqb k t with Some x => Some x | None => if eqb k' k then Some v else None end.
  Proof.
    unfold aadd. destruct (alookup eqb k' t) as [x|] eqn:E.
    - destruct (alookup eqb k t) eqn:E2; [reflexivity|].
      destruct (eqb k' k) eqn:E3; [|reflexivity]. apply eqb_true in E3. subst. congruence.
    - rewrite alookup_app. simpl. destruct (alookup eqb k t); [reflexivity|]. destruct (eqb k' k); reflexivity.
  Qed.

  (* all bindings of one key carry the same value *)
  Definition consistent (bs : list (K * V)) : Prop :=
    forall k v v', In (k, v) bs -> In (k, v') bs -> v = v'.

  (* first-wins and last-wins tables answer every lookup identically on consistent bindings *)
  Lemma fold_first_last bs : forall t1 t2,
    consistent bs ->
    (forall k v v', In (k, v) bs -> alookup eqb k t1 = Some v' -> v' = v) ->
    (forall k, alookup eqb k t1 = alookup eqb k t2) ->
    forall k, alookup eqb k (fold_left (fun t kv => aput eqb true (fst kv) (snd kv) t) bs t1)
            = alookup eqb k (fold_left (fun t kv => aput eqb false (fst kv) (snd kv) t) bs t2).
  Proof.
    induction bs as [|[k0 v0] r IH]; intros t1 t2 Hc Ht Heq k; [apply Heq|].
    simpl. apply IH.
    - intros a b c H1 H2. eapply Hc; right; eassumption.
    - intros a b c Hin Hl. rewrite alookup_aadd in Hl.
      destruct (alookup eqb a t1) as [x|] eqn:E.
      + inversion Hl; subst. eapply Ht; [right; exact Hin|exact E].
      + destruct (eqb k0 a) eqn:E2; [|discriminate]. inversion Hl; subst.
        apply eqb_true in E2. subst. eapply Hc; [left; reflexivity|right; exact Hin].
    - intros a. rewrite alookup_aadd, alookup_aset, <- Heq.
      destruct (eqb k0 a) eqn:E2.
      + apply eqb_true in E2. subst a. destruct (alookup eqb k0 t1) as [x|] eqn:E; [|reflexivity].
        f_equal. eapply Ht; [left; reflexivity|exact E].
      + destruct (alookup eqb a t1); reflexivity.
  Qed.

  Theorem build_first_last bs :
    consistent bs -> forall k, alookup eqb k (build eqb true bs) = alookup eqb k (build eqb false bs).
  Proof.
    intros Hc k. unfold build. apply fold_first_last; auto. intros a b c _ H. discriminate.
  Qed.

  (* a last-wins lookup only depends on the bindings of the key asked for *)
  Lemma fold_last_filter (p : K * V -> bool) bs : forall t1 t2 k,
    (forall kv, In kv bs -> eqb (fst kv) k = true -> p kv = true) ->
    alookup eqb k t1 = alookup eqb k t2 ->
    alookup eqb k (fold_left (fun t kv => aput eqb false (fst kv) (snd kv) t) bs t1)
    = alookup eqb k (fold_left (fun t kv => aput eqb false (fst kv) (snd kv) t) (filter p bs) t2).
  Proof.
    induction bs as [|[k0 v0] r IH]; intros t1 t2 k Hp Heq; [exact Heq|].
    simpl. destruct (p (k0, v0)) eqn:Ep.
    - simpl. apply IH; [intros; apply Hp; [right|]; assumption|].
      rewrite !alookup_aset, Heq. reflexivity.
    - apply IH; [intros; apply Hp; [right|]; assumption|].
      rewrite alookup_aset. destruct (eqb k0 k) eqn:E; [|exact Heq].
      rewrite (Hp (k0, v0)) in Ep; [discriminate|left; reflexivity|exact E].
  Qed.

  Lemma alookup_keys k (t : list (K * V)) :
    existsb (fun x => eqb x k) (map fst t) = match alookup eqb k t with Some _ => true | None => false end.
  Proof. induction t as [|[k' v] r IH]; simpl; auto. destruct (eqb k' k); auto. Qed.
End AL.

Lemma alookup_map_values {K V W} (eqb : K -> K -> bool) (f : V -> W) k (t : list (K * V)) :
  alookup eqb k (map (fun kv => (fst kv, f (snd kv))) t) = option_map f (alookup eqb k t).
Proof. induction t as [|[k' v] r IH]; simpl; auto. destruct (eqb k' k); auto. Qed.

Lemma fold_map_values {K V W} (eqb : K -> K -> bool) (f : V -> W) (first : bool) bs : forall (t : list (K * V)),
  fold_left (fun t kv => aput eqb first (fst kv) (snd kv) t) (map (fun kv => (fst kv, f (snd kv))) bs)
            (map (fun kv => (fst kv, f (snd kv))) t)
  = map (fun kv => (fst kv, f (snd kv))) (fold_left (fun t kv => aput eqb first (fst kv) (snd kv) t) bs t).
Proof.
  induction bs as [|[k0 v0] r IH]; intros t; [reflexivity|]. simpl. rewrite <- IH. f_equal.
  destruct first; simpl.
  - unfold aadd. rewrite alookup_map_values. destruct (alookup eqb k0 t); simpl; [reflexivity|].
    rewrite map_app. reflexivity.
  - unfold aset. rewrite map_app. simpl. f_equal.
    induction t as [|[k' v] t' IHt]; simpl; [reflexivity|]. destruct (eqb k' k0); simpl; rewrite IHt; reflexivity.
Qed.

(* ---- spec laws --------------------------------------------------------------------------- *)
Theorem spec_commit_law l r s :
  s_lookup_commit l r = Some s ->
  exists t v, In (ECommit r t v) (s_lookup_git_sha l s).
Proof.
  unfold s_lookup_commit, s_lookup_git_sha. intros H.
  destruct (alookup bytes_eqb r (s_commits l)) as [[[s' t] v]|] eqn:E; [|discriminate].
  simpl in H. inversion H; subst s'. exists t, v. apply in_or_app. left.
  assert (Hin : In (r, (s, t, v)) (s_commits l)).
  { clear H. induction (s_commits l) as [|[k' x] rest IH]; simpl in *; [discriminate|].
    destruct (bytes_eqb k' r) eqn:Ek.
    - apply beqb_true in Ek. subst. inversion E; subst. left; reflexivity.
    - right; auto. }
  apply in_map_iff. exists (r, (s, t, v)). split; [reflexivity|].
  apply filter_In. split; [exact Hin|]. simpl. apply beqb_refl.
Qed.

Theorem spec_missing l rs r :
  In r (s_missing l rs) <-> In r rs /\ s_lookup_commit l r = None.
Proof.
  unfold s_missing, missing, s_lookup_commit, s_revids. rewrite filter_In.
  assert (Hm : memb_bytes r (map fst (s_commits l)) =
               match alookup bytes_eqb r (s_commits l) with Some _ => true | None => false end).
  { unfold memb_bytes. induction (s_commits l) as [|[x v] xs IH]; simpl; auto.
    rewrite IH. rewrite (beqb_sym r x). destruct (bytes_eqb x r); reflexivity. }
  rewrite Hm. destruct (alookup bytes_eqb r (s_commits l)); simpl; intuition discriminate.
Qed.

(* re-opening a persistent backend whose write groups are all committed changes nothing *)
Theorem reopen_committed b done q :
  answers b (step b (done, []) Reopen) q = answers b (done, []) q.
Proof. destruct b; reflexivity. Qed.

(* ---- agreement under the guard -------------------------------------------------------------- *)
Definition rev_bindings (l : list upd) := map (fun u => (u_revid u, u_sha u)) l.

Lemma s_lookup_commit_alt l r :
  s_lookup_commit l r = alookup bytes_eqb r (build bytes_eqb false (rev_bindings l)).
Proof.
  unfold s_lookup_commit, s_commits, build, rev_bindings, commit_bindings.
  assert (H : map (fun u => (u_revid u, u_sha u)) l =
              map (fun kv : bytes * (bytes * bytes * option bytes) => (fst kv, fst (fst (snd kv))))
                  (map (fun u => (u_revid u, (u_sha u, u_tree u, u_test u))) l)).
  { rewrite map_map. reflexivity. }
  rewrite H.
  rewrite (fold_map_values bytes_eqb (fun x : bytes * bytes * option bytes => fst (fst x)) false _ []).
  rewrite (alookup_map_values bytes_eqb (fun x : bytes * bytes * option bytes => fst (fst x))). reflexivity.
Qed.

Theorem commits_agree l r :
  consistent (rev_bindings l) ->
  d_lookup_commit l r = s_lookup_commit l r /\
  i_lookup_commit l r = s_lookup_commit l r /\
  t_lookup_commit l r = s_lookup_commit l r.
Proof.
  intros Hc. rewrite s_lookup_commit_alt. unfold d_lookup_commit, i_lookup_commit, t_lookup_commit,
    d_commits, i_commits, t_commits. fold (rev_bindings l). repeat split.
  apply build_first_last; auto using beqb_true, beqb_refl.
Qed.

Definition tree_keys (l : list upd) : list fkey := map fst (obj_bindings is_tree l).

Theorem blobs_agree l k :
  consistent (obj_bindings is_blob l) ->
  i_lookup_blob l k = s_lookup_blob l k /\ t_lookup_blob l k = s_lookup_blob l k.
Proof.
  intros Hc. unfold i_lookup_blob, t_lookup_blob, s_lookup_blob, i_blobs, t_blobs, s_blobs. split; [|reflexivity].
  apply build_first_last; auto using fkey_eqb_true, fkey_eqb_refl.
Qed.

(* Dict keeps blobs and trees in ONE table: it agrees with the spec on keys that name no tree *)
Theorem dict_blob_agree l k :
  (forall o u, In u l -> In o (u_objs u) -> o_tree o = true -> o_key o <> k) ->
  d_lookup_blob l k = s_lookup_blob l k.
Proof.
  intros Hk. unfold d_lookup_blob, s_lookup_blob, d_byfileid, s_blobs, build.
  assert (Hgen : forall t1 t2, alookup fkey_eqb k t1 = alookup fkey_eqb k t2 ->
    alookup fkey_eqb k (fold_left (fun t kv => aput fkey_eqb false (fst kv) (snd kv) t) (obj_bindings any_obj l) t1) =
    alookup fkey_eqb k (fold_left (fun t kv => aput fkey_eqb false (fst kv) (snd kv) t) (obj_bindings is_blob l) t2)).
  { induction l as [|u r IH]; intros t1 t2 Heq; [exact Heq|].
    unfold obj_bindings in *. simpl. rewrite !fold_left_app. apply IH.
    - intros o u' Hu. apply Hk. right; exact Hu.
    - assert (Hu : forall o, In o (u_objs u) -> o_tree o = true -> o_key o <> k).
      { intros o Ho. apply (Hk o u); [left; reflexivity|exact Ho]. }
      clear IH Hk. revert t1 t2 Heq. induction (u_objs u) as [|o os IHo]; intros t1 t2 Heq; [exact Heq|].
      simpl. unfold is_blob at 1. destruct (o_tree o) eqn:Et; simpl.
      + apply IHo; [intros; apply Hu; [right|]; assumption|].
        rewrite alookup_aset by auto using fkey_eqb_true, fkey_eqb_refl.
        destruct (fkey_eqb (o_key o) k) eqn:E; [|exact Heq].
        apply fkey_eqb_true in E. exfalso. eapply Hu; [left; reflexivity|exact Et|exact E].
      + apply IHo; [intros; apply Hu; [right|]; assumption|].
        rewrite !alookup_aset by auto using fkey_eqb_true, fkey_eqb_refl. rewrite Heq. reflexivity. }
  apply Hgen. reflexivity.
Qed.

(* ---- the unguarded statement is false: four machine-checked witnesses -------------------------- *)
Definition A := [97]. Definition B := [98]. Definition Cc := [99].
Definition o1 := {| o_tree := false; o_sha := A; o_key := ([102], [49]) |}.
Definition o2 := {| o_tree := false; o_sha := A; o_key := ([103], [49]) |}.        (* same blob, other file *)
Definition t1 := {| o_tree := true; o_sha := B; o_key := ([114], [49]) |}.
Definition t2 := {| o_tree := true; o_sha := B; o_key := ([114], [50]) |}.         (* same root tree, next revision *)
Definition u1 := {| u_revid := [49]; u_sha := Cc; u_tree := B; u_test := None; u_objs := [o1; o2; t1] |}.
Definition u2 := {| u_revid := [50]; u_sha := [100]; u_tree := B; u_test := None; u_objs := [t2] |}.
Definition u1' := {| u_revid := [49]; u_sha := [101]; u_tree := B; u_test := None; u_objs := [] |}.

(* one blob under two keys: Index answers with the first entry only *)
Lemma git_sha_refuted : i_lookup_git_sha [u1] A <> d_lookup_git_sha [u1] A.
Proof. vm_compute. discriminate. Qed.
(* the same tree in two revisions: Sqlite forgets the first key *)
Lemma tree_refuted : q_lookup_tree [u1; u2] ([114], [49]) <> d_lookup_tree [u1; u2] ([114], [49]).
Proof. vm_compute. discriminate. Qed.
(* a directory's key asked as a blob: Dict answers with the tree *)
Lemma dict_namespace_refuted : d_lookup_blob [u1] ([114], [49]) <> s_lookup_blob [u1] ([114], [49]).
Proof. vm_compute. discriminate. Qed.
(* a revision converted twice with different results: Index keeps the first, the others the last *)
Lemma overwrite_refuted : i_lookup_commit [u1; u1'] [49] <> d_lookup_commit [u1; u1'] [49].
Proof. vm_compute. discriminate. Qed.
