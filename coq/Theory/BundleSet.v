(* Theory/BundleSet.v -- installing a bundle = fetching, when the receiver has the base's
   ancestry (C40, P-spec over Lib/Dag). *)
From Coq Require Import List Bool Arith Lia.
From BV Require Import Lib.Obs Lib.Dag Theory.DagFacts Model.BundleSet.
Import ListNotations.

Section Bundle.
  Variable P : Type.
  Variable pay : revid -> P.

  Lemma has_lookup (s : store P) r : has s r = false <-> lookup s r = None.
  Proof.
    induction s as [|[k v] s IH]; cbn; [tauto|].
    destruct (k =? r); cbn; [split; discriminate|exact IH].
  Qed.

  Lemma lookup_app_one (s : store P) k v r :
    lookup (s ++ [(k, v)]) r =
    match lookup s r with Some x => Some x | None => if k =? r then Some v else None end.
  Proof.
    induction s as [|[k' v'] s IH]; cbn; [reflexivity|].
    destruct (k' =? r); [reflexivity|exact IH].
  Qed.

  Lemma lookup_install : forall (b s : store P) r,
    lookup (install b s) r = match lookup s r with Some x => Some x | None => lookup b r end.
  Proof.
    induction b as [|[k v] b IH]; intros s r.
    - cbn. destruct (lookup s r); reflexivity.
    - unfold install. cbn [fold_left fst]. fold (install b (if has s k then s else s ++ [(k, v)])).
      rewrite IH. cbn [lookup].
      destruct (has s k) eqn:Eh.
      + destruct (lookup s r) eqn:El; [reflexivity|].
        destruct (k =? r) eqn:Ek; [|reflexivity].
        apply Nat.eqb_eq in Ek. subst r. apply has_lookup in El. congruence.
      + rewrite lookup_app_one. destruct (lookup s r); [reflexivity|].
        destruct (k =? r); reflexivity.
  Qed.

  Lemma lookup_payloads l r :
    lookup (map (fun x => (x, pay x)) l) r = if memb r l then Some (pay r) else None.
  Proof.
    induction l as [|x l IH]; [reflexivity|].
    cbn [map lookup]. unfold memb. cbn [existsb]. fold (memb r l).
    rewrite Nat.eqb_sym. destruct (r =? x) eqn:E; [|exact IH].
    apply Nat.eqb_eq in E. subst x. reflexivity.
  Qed.

  Lemma memb_filter f l r : memb r (filter f l) = memb r l && f r.
  Proof.
    induction l as [|x l IH]; [reflexivity|].
    cbn [filter]. destruct (f x) eqn:Ef.
    - unfold memb in *. cbn [existsb]. rewrite IH.
      destruct (r =? x) eqn:E; [|reflexivity].
      apply Nat.eqb_eq in E. subst x. rewrite Ef. cbn. reflexivity.
    - rewrite IH. unfold memb. cbn [existsb].
      destruct (r =? x) eqn:E; [|reflexivity].
      apply Nat.eqb_eq in E. subst x. rewrite Ef. cbn. rewrite andb_false_r. reflexivity.
  Qed.

  (* installing the bundle gives exactly the repository a fetch of the target gives *)
  Theorem install_eq_fetch g base tgt (s : store P) :
    base_closed g base s ->
    forall r, lookup (install (bundle P pay g base tgt) s) r = lookup (fetch P pay g s tgt) r.
  Proof.
    intros Hclosed r. unfold fetch, bundle. rewrite !lookup_install.
    destruct (lookup s r) eqn:El; [reflexivity|].
    rewrite !lookup_payloads.
    unfold bundle_ids, fetch_ids, find_unique_ancestors. rewrite !memb_filter.
    apply has_lookup in El. rewrite El. cbn [negb]. rewrite andb_true_r.
    destruct (memb r (ancestors g [tgt])) eqn:Et; [|reflexivity]. cbn [andb].
    destruct (present g r) eqn:Ep; [|rewrite andb_false_r; reflexivity].
    rewrite andb_true_r.
    destruct (memb r (ancestors g (commons base))) eqn:Eb; [|reflexivity].
    apply memb_In in Eb. rewrite (Hclosed r Eb Ep) in El. discriminate.
  Qed.

  Lemma base_closedb_spec g base (s : store P) : base_closedb g base s = true -> base_closed g base s.
  Proof.
    unfold base_closedb, base_closed. intros H a Ha Hp.
    rewrite forallb_forall in H. specialize (H a Ha). rewrite Hp in H. exact H.
  Qed.

  (* afterwards every present ancestor of the target is there *)
  Theorem install_complete g base tgt (s : store P) :
    base_closed g base s ->
    forall a, In a (ancestors g [tgt]) -> present g a = true ->
              lookup (install (bundle P pay g base tgt) s) a <> None.
  Proof.
    intros Hclosed a Ha Hp. rewrite lookup_install.
    destruct (lookup s a) eqn:El; [discriminate|].
    unfold bundle. rewrite lookup_payloads.
    unfold bundle_ids, find_unique_ancestors. rewrite !memb_filter.
    apply memb_In in Ha. rewrite Ha, Hp. cbn [andb].
    destruct (memb a (ancestors g (commons base))) eqn:Eb; [|discriminate].
    apply memb_In in Eb. apply has_lookup in El. rewrite (Hclosed a Eb Hp) in El. discriminate.
  Qed.

  (* what was there stays as it was; what is added carries the source's payload *)
  Theorem install_payloads g base tgt (s : store P) r :
    lookup (install (bundle P pay g base tgt) s) r =
    match lookup s r with
    | Some x => Some x
    | None => if memb r (bundle_ids g base tgt) then Some (pay r) else None
    end.
  Proof. rewrite lookup_install. unfold bundle. rewrite lookup_payloads. reflexivity. Qed.
End Bundle.

(* the side condition is needed: a receiver without the base's ancestry ends up with a hole *)
Lemma install_without_base_refuted :
  exists g base tgt r,
    lookup (install (bundle nat (fun x => x) g base tgt) []) r = None /\
    lookup (fetch nat (fun x => x) g [] tgt) r = Some r.
Proof. exists [[]; [0]; [1]], (Some 1), 2, 0. split; reflexivity. Qed.

Example install_example :
  let g := [[]; [0]; [0]; [1; 2]; [3]] in
  let s := store_of [0; 2] in
  base_closedb g (Some 2) s = true /\
  sort_ids (map fst (install (bundle nat (fun x => x) g (Some 2) 4) s)) = [0; 1; 2; 3; 4].
Proof. split; reflexivity. Qed.
