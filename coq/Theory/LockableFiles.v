(* Theory/LockableFiles.v -- C28 for LockableFiles (Gen/LockableFiles.v is translated from
   breezy/bzr/lockable_files.py on every run).  Same plan as Theory/CountedLock.v.
   "_txn" is the translator's abstraction of self._transaction:
   None | "r" (ReadOnlyTransaction) | "w" (WriteTransaction). *)
From Coq Require Import ZArith List String Bool Lia.
From BV Require Import Lib.PyImp Gen.LockableFiles.
Import ListNotations.
Open Scope string_scope.
Open Scope Z_scope.

Definition lf_store (x m : val) (c : Z) (ot : option val) : store :=
  ([("_txn", x); ("_lock_mode", m); ("_lock_count", VInt c)] ++
   match ot with Some t => [("_token_from_lock", t)] | None => [] end)%list.

Definition lf_init : store := lf_store VNone VNone 0 None.   (* LockableFiles.__init__ *)

Definition swallow (e : string) : flow :=
  if existsb (String.eqb e) ["LockNotHeld"; "LockBroken"] then FRaise e else FReturn VNone.

Definition rw (x : val) : Prop := x = VStr "r" \/ x = VStr "w".

(* closed forms on the three shapes the object can be in: unlocked (txn None, mode None),
   read-locked ("r","r"), write-locked ("w","w").  Each is checked by conversion. *)

Lemma lf_lock_read_unlocked c ot env :
  run_method lf_lock_read [] (lf_store VNone VNone c ot) env =
  let '(rep, env') := pop_reply env in
  match rep with
  | RepOk _ => mkResult (lf_store (VStr "r") (VStr "r") 1 ot) [] [("lock_read", [])] env' (FReturn VNone)
  | RepRaise e => mkResult (lf_store VNone VNone c ot) [] [("lock_read", [])] env' (FRaise e)
  end.
Proof. destruct ot as [t|]; destruct env as [|[v|e] env]; timeout 60 reflexivity. Qed.

Lemma lf_lock_read_locked x c ot env :
  rw x ->
  run_method lf_lock_read [] (lf_store x x c ot) env =
  mkResult (lf_store x x (c + 1) ot) [] [] env (FReturn VNone).
Proof. intros [ -> | -> ]; destruct ot as [t|]; timeout 60 reflexivity. Qed.

Lemma lf_lock_write_unlocked c ot tok env :
  run_method lf_lock_write [("token", tok)] (lf_store VNone VNone c ot) env =
  let '(rep, env') := pop_reply env in
  match rep with
  | RepOk v => mkResult (lf_store (VStr "w") (VStr "w") 1 (Some v)) [("token_from_lock", v)]
                        [("lock_write", [tok])] env' (FReturn v)
  | RepRaise e => mkResult (lf_store VNone VNone c ot) [] [("lock_write", [tok])] env' (FRaise e)
  end.
Proof. destruct ot as [t|]; destruct env as [|[v|e] env]; timeout 60 reflexivity. Qed.

Lemma lf_lock_write_read c ot tok env :
  run_method lf_lock_write [("token", tok)] (lf_store (VStr "r") (VStr "r") c ot) env =
  mkResult (lf_store (VStr "r") (VStr "r") c ot) [] [] env (FRaise "ReadOnlyError").
Proof. destruct ot as [t|]; timeout 60 reflexivity. Qed.

Lemma lf_lock_write_write c t tok env :
  run_method lf_lock_write [("token", tok)] (lf_store (VStr "w") (VStr "w") c (Some t)) env =
  let '(rep, env') := pop_reply env in
  match rep with
  | RepOk _ => mkResult (lf_store (VStr "w") (VStr "w") (c + 1) (Some t)) [] [("validate_token", [tok])] env' (FReturn t)
  | RepRaise e => mkResult (lf_store (VStr "w") (VStr "w") c (Some t)) [] [("validate_token", [tok])] env' (FRaise e)
  end.
Proof. destruct env as [|[v|e] env]; timeout 60 reflexivity. Qed.

Lemma lf_unlock_unlocked c ot env :
  run_method lf_unlock [] (lf_store VNone VNone c ot) env =
  mkResult (lf_store VNone VNone c ot) [] [] env (FRaise "LockNotHeld").
Proof. destruct ot as [t|]; timeout 60 reflexivity. Qed.

Lemma lf_unlock_many x c ot env :
  rw x -> 1 < c ->
  run_method lf_unlock [] (lf_store x x c ot) env =
  mkResult (lf_store x x (c - 1) ot) [] [] env (FReturn VNone).
Proof.
  intros Hx Hc. destruct c as [|p|p]; try lia. destruct p as [q|q|]; try lia;
    destruct Hx as [ -> | -> ]; destruct ot as [t|]; timeout 60 reflexivity.
Qed.

Lemma lf_unlock_last_raise x ot e env :
  rw x ->
  run_method lf_unlock [] (lf_store x x 1 ot) (RepRaise e :: env) =
  let r := if existsb (String.eqb e) ["LockNotHeld"; "LockBroken"]
           then mkResult (lf_store VNone VNone 0 ot) [] [("unlock", [])] env (FRaise e)
           else mkResult (lf_store VNone VNone 0 ot) [] [("unlock", [])] env (FReturn VNone) in
  match r_flow r with
  | FNormal => mkResult (r_self r) (r_locals r) (r_events r) (r_env r) (FReturn VNone)
  | _ => r
  end.
Proof. intros [ -> | -> ]; destruct ot as [t|]; timeout 60 reflexivity. Qed.

Lemma lf_unlock_last x ot env :
  rw x ->
  run_method lf_unlock [] (lf_store x x 1 ot) env =
  let '(rep, env') := pop_reply env in
  mkResult (lf_store VNone VNone 0 ot) [] [("unlock", [])] env'
           match rep with RepOk _ => FReturn VNone | RepRaise e => swallow e end.
Proof.
  intros Hx. destruct env as [|[v|e] env].
  - destruct Hx as [ -> | -> ]; destruct ot as [t|]; timeout 60 reflexivity.
  - destruct Hx as [ -> | -> ]; destruct ot as [t|]; timeout 60 reflexivity.
  - rewrite lf_unlock_last_raise by exact Hx. cbn [pop_reply]. unfold swallow. cbv zeta.
    destruct (existsb (String.eqb e) ["LockNotHeld"; "LockBroken"]); reflexivity.
Qed.

(* ---- call sequences ---------------------------------------------------- *)

Inductive op := LockRead | LockWrite (tok : val) | Unlock.

Definition step (o : op) (s : store) (env : list reply) : result :=
  match o with
  | LockRead => run_method lf_lock_read [] s env
  | LockWrite tok => run_method lf_lock_write [("token", tok)] s env
  | Unlock => run_method lf_unlock [] s env
  end.

Fixpoint run (ops : list op) (s : store) (env : list reply) (evs : list event)
  : store * list reply * list event :=
  match ops with
  | [] => (s, env, evs)
  | o :: ops' => let r := step o s env in run ops' (r_self r) (r_env r) (evs ++ r_events r)%list
  end.

(* representation invariant: (transaction, mode) is one of (None,None) ("r","r") ("w","w") *)
Inductive shape : val -> val -> Z -> option val -> Prop :=
| ShUnlocked ot : shape VNone VNone 0 ot
| ShRead c ot : 1 <= c -> shape (VStr "r") (VStr "r") c ot
| ShWrite c t : 1 <= c -> shape (VStr "w") (VStr "w") c (Some t).

Definition Inv (s : store) : Prop := exists x m c ot, s = lf_store x m c ot /\ shape x m c ot.

Lemma Inv_init : Inv lf_init.
Proof. exists VNone, VNone, 0, None. split; [reflexivity|constructor]. Qed.

Ltac shape_goal := eexists _, _, _, _; split; [reflexivity|constructor; lia].

Lemma Inv_step o s env : Inv s -> Inv (r_self (step o s env)).
Proof.
  intros (x & m & c & ot & -> & Hs).
  destruct Hs as [ot|c ot Hc|c t Hc]; destruct o as [|tok|]; unfold step.
  - rewrite lf_lock_read_unlocked. destruct (pop_reply env) as [[v|e] env']; cbn [r_self]; shape_goal.
  - rewrite lf_lock_write_unlocked. destruct (pop_reply env) as [[v|e] env']; cbn [r_self]; shape_goal.
  - rewrite lf_unlock_unlocked. cbn [r_self]. shape_goal.
  - rewrite lf_lock_read_locked by (left; reflexivity). cbn [r_self]. shape_goal.
  - rewrite lf_lock_write_read. cbn [r_self]. shape_goal.
  - destruct (Z.lt_ge_cases 1 c).
    + rewrite lf_unlock_many by (try lia; left; reflexivity). cbn [r_self]. shape_goal.
    + assert (c = 1) as -> by lia. rewrite lf_unlock_last by (left; reflexivity).
      destruct (pop_reply env) as [rep env']; cbn [r_self]. shape_goal.
  - rewrite lf_lock_read_locked by (right; reflexivity). cbn [r_self]. shape_goal.
  - rewrite lf_lock_write_write. destruct (pop_reply env) as [[v|e] env']; cbn [r_self]; shape_goal.
  - destruct (Z.lt_ge_cases 1 c).
    + rewrite lf_unlock_many by (try lia; right; reflexivity). cbn [r_self]. shape_goal.
    + assert (c = 1) as -> by lia. rewrite lf_unlock_last by (right; reflexivity).
      destruct (pop_reply env) as [rep env']; cbn [r_self]. shape_goal.
Qed.

Lemma Inv_run ops : forall s env evs, Inv s -> Inv (fst (fst (run ops s env evs))).
Proof.
  induction ops as [|o ops IH]; intros s env evs H; cbn [run]; [exact H|].
  apply IH. apply Inv_step. exact H.
Qed.

(* ---- physical lock accounting ------------------------------------------ *)

Definition count_of (s : store) : Z :=
  match lookup "_lock_count" s with Some (VInt c) => c | _ => -1 end.

Definition is_acquire (e : event) : bool :=
  String.eqb (fst e) "lock_read" || String.eqb (fst e) "lock_write".
Definition is_release (e : event) : bool := String.eqb (fst e) "unlock".

Fixpoint balance (evs : list event) : Z :=
  match evs with
  | [] => 0
  | e :: evs' => (if is_acquire e then 1 else 0) - (if is_release e then 1 else 0) + balance evs'
  end.

Lemma balance_app a b : balance (a ++ b)%list = balance a + balance b.
Proof. induction a as [|e a IH]; cbn [balance app]; lia. Qed.

Definition all_ok (env : list reply) : Prop := forall r, In r env -> exists v, r = RepOk v.
Lemma all_ok_tail r env : all_ok (r :: env) -> all_ok env.
Proof. intros H x Hx. apply H. right. exact Hx. Qed.
Lemma all_ok_no_raise e env : all_ok (RepRaise e :: env) -> False.
Proof. intros H. destruct (H (RepRaise e)) as [v Hv]; [left; reflexivity|discriminate]. Qed.

Definition held01 (c : Z) : Z := if c =? 0 then 0 else 1.

Lemma count_of_store x m c ot : count_of (lf_store x m c ot) = c.
Proof. reflexivity. Qed.

Ltac bal :=
  rewrite ?count_of_store; unfold held01;
  repeat match goal with |- context[Z.eqb ?x ?y] => destruct (Z.eqb_spec x y) end;
  cbn; lia.

Ltac env_cases env Hok :=
  destruct env as [|[?v|?e] ?env']; cbn [pop_reply r_events r_self r_env];
  [ split; [bal|exact Hok]
  | split; [bal|eapply all_ok_tail; exact Hok]
  | exfalso; eapply all_ok_no_raise; exact Hok ].

Lemma step_balance o s env :
  Inv s -> all_ok env ->
  let r := step o s env in
  balance (r_events r) = held01 (count_of (r_self r)) - held01 (count_of s) /\ all_ok (r_env r).
Proof.
  intros (x & m & c & ot & -> & Hs) Hok.
  destruct Hs as [ot|c ot Hc|c t Hc]; destruct o as [|tok|]; unfold step; cbv zeta.
  - rewrite lf_lock_read_unlocked. env_cases env Hok.
  - rewrite lf_lock_write_unlocked. env_cases env Hok.
  - rewrite lf_unlock_unlocked. cbn [r_events r_self r_env]. split; [bal|exact Hok].
  - rewrite lf_lock_read_locked by (left; reflexivity). cbn [r_events r_self r_env]. split; [bal|exact Hok].
  - rewrite lf_lock_write_read. cbn [r_events r_self r_env]. split; [bal|exact Hok].
  - destruct (Z.lt_ge_cases 1 c).
    + rewrite lf_unlock_many by (try lia; left; reflexivity). cbn [r_events r_self r_env]. split; [bal|exact Hok].
    + assert (c = 1) as -> by lia. rewrite lf_unlock_last by (left; reflexivity). env_cases env Hok.
  - rewrite lf_lock_read_locked by (right; reflexivity). cbn [r_events r_self r_env]. split; [bal|exact Hok].
  - rewrite lf_lock_write_write. env_cases env Hok.
  - destruct (Z.lt_ge_cases 1 c).
    + rewrite lf_unlock_many by (try lia; right; reflexivity). cbn [r_events r_self r_env]. split; [bal|exact Hok].
    + assert (c = 1) as -> by lia. rewrite lf_unlock_last by (right; reflexivity). env_cases env Hok.
Qed.

Theorem physical_iff_counted ops : forall s env evs,
  Inv s -> all_ok env -> balance evs = held01 (count_of s) ->
  let '(s', _, evs') := run ops s env evs in
  balance evs' = held01 (count_of s').
Proof.
  induction ops as [|o ops IH]; intros s env evs HI Hok Hb; cbn [run]; [exact Hb|].
  pose proof (step_balance o s env HI Hok) as [H1 H2]. cbv zeta in H1, H2.
  apply IH; [apply Inv_step; exact HI|exact H2|].
  rewrite balance_app, H1, Hb. lia.
Qed.

Corollary acquire_release_once ops env :
  all_ok env ->
  let '(s', _, evs') := run ops lf_init env [] in
  (balance evs' = 0 \/ balance evs' = 1) /\ (balance evs' = 1 <-> 0 < count_of s').
Proof.
  intros Hok.
  pose proof (physical_iff_counted ops lf_init env [] Inv_init Hok eq_refl) as H.
  pose proof (Inv_run ops lf_init env [] Inv_init) as HI.
  destruct (run ops lf_init env []) as [[s' env'] evs']. cbn [fst] in HI.
  destruct HI as (x & m & c & ot & -> & Hs). rewrite count_of_store in *.
  assert (0 <= c) by (destruct Hs; lia).
  unfold held01 in H. destruct (Z.eqb_spec c 0); split; try lia.
Qed.

Lemma write_after_read_refused c ot tok env :
  step (LockWrite tok) (lf_store (VStr "r") (VStr "r") c ot) env =
  mkResult (lf_store (VStr "r") (VStr "r") c ot) [] [] env (FRaise "ReadOnlyError").
Proof. unfold step. apply lf_lock_write_read. Qed.

Lemma over_unlock_refused ot env :
  step Unlock (lf_store VNone VNone 0 ot) env =
  mkResult (lf_store VNone VNone 0 ot) [] [] env (FRaise "LockNotHeld").
Proof. unfold step. apply lf_unlock_unlocked. Qed.

Lemma reentrant_write_validates c t tok env :
  let r := step (LockWrite tok) (lf_store (VStr "w") (VStr "w") c (Some t)) env in
  r_events r = [("validate_token", [tok])] /\
  match fst (pop_reply env) with
  | RepOk _ => r_self r = lf_store (VStr "w") (VStr "w") (c + 1) (Some t) /\ r_flow r = FReturn t
  | RepRaise e => r_self r = lf_store (VStr "w") (VStr "w") c (Some t) /\ r_flow r = FRaise e
  end.
Proof.
  unfold step. cbv zeta. rewrite lf_lock_write_write.
  destruct env as [|[v|e] env']; cbn [pop_reply fst r_events r_self r_flow]; repeat split; reflexivity.
Qed.

(* a failing physical unlock still leaves the object unlocked; errors other than
   LockNotHeld/LockBroken are swallowed by @only_raises *)
Lemma failed_release_forgets x ot e env :
  rw x ->
  let r := step Unlock (lf_store x x 1 ot) (RepRaise e :: env) in
  r_self r = lf_store VNone VNone 0 ot /\ r_flow r = swallow e.
Proof.
  intros Hx. unfold step. cbv zeta. rewrite lf_unlock_last by exact Hx.
  cbn [pop_reply r_self r_flow]. split; reflexivity.
Qed.

Example nonvacuous :
  let '(s, _, evs) := run [LockWrite VNone; LockRead; Unlock; Unlock; Unlock] lf_init [RepOk (VTok 7)] [] in
  count_of s = 0 /\ evs = [("lock_write", [VNone]); ("unlock", [])].
Proof. vm_compute. split; reflexivity. Qed.
