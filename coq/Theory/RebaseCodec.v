(* Theory/RebaseCodec.v -- the rebase-plan file round-trips
   (Model/RebaseCodec.v: marshall_rebase_plan / unmarshall_rebase_plan).

   [roundtrip]: for every revno, every last revision id without newline and
   every replace map (any size, insertion order kept) whose ids contain no
   blank and no newline:  unmarshall (marshall info plan) = (info, plan).
   [roundtrip_needs_legal_ids]: the guard is needed. *)
From Coq Require Import NArith List Bool Lia.
From BV Require Import Lib.Bytes Lib.DecBytes Lib.PyDict Model.RebaseCodec.
Import ListNotations.
Open Scope N_scope.

(* ---- bytes helpers ------------------------------------------------------------ *)

Lemma bytes_eqb_eq (x y : bytes) : bytes_eqb x y = true <-> x = y.
Proof.
  unfold bytes_eqb. revert y. induction x as [|a x IH]; intros [|b y]; try (split; [discriminate|discriminate]).
  - split; reflexivity.
  - rewrite andb_true_iff, N.eqb_eq, IH. split; [intros [-> ->]; reflexivity|intros H; inversion H; auto].
Qed.

Lemma memb_app b (x y : bytes) : memb b (x ++ y) = memb b x || memb b y.
Proof. unfold memb. apply existsb_app. Qed.

Lemma split1_aux_end sep a : memb sep a = false -> forall cur, split1_aux sep cur a = [rev cur ++ a].
Proof.
  unfold memb. induction a as [|c a IH]; intros H cur; cbn [split1_aux existsb] in *.
  - rewrite app_nil_r. reflexivity.
  - apply orb_false_elim in H. destruct H as [H1 H2]. rewrite N.eqb_sym, H1.
    rewrite (IH H2). cbn [rev]. rewrite <- app_assoc. reflexivity.
Qed.

Lemma split1_aux_sep sep a rest : memb sep a = false ->
  forall cur, split1_aux sep cur (a ++ sep :: rest) = (rev cur ++ a) :: split1_aux sep [] rest.
Proof.
  unfold memb. induction a as [|c a IH]; intros H cur; cbn [split1_aux existsb app] in *.
  - rewrite N.eqb_refl, app_nil_r. reflexivity.
  - apply orb_false_elim in H. destruct H as [H1 H2]. rewrite N.eqb_sym, H1.
    rewrite (IH H2). cbn [rev]. rewrite <- app_assoc. reflexivity.
Qed.

Lemma split1_line sep a rest : memb sep a = false -> split1 sep (a ++ sep :: rest) = a :: split1 sep rest.
Proof. intros H. unfold split1. rewrite (split1_aux_sep sep a rest H []). reflexivity. Qed.

Lemma split1_join sep parts : parts <> [] -> forallb (fun a => negb (memb sep a)) parts = true ->
  split1 sep (join [sep] parts) = parts.
Proof.
  unfold split1. induction parts as [|a parts IH]; intros Hne H; [congruence|].
  cbn [forallb] in H. apply andb_prop in H. destruct H as [Ha Hps]. apply negb_true_iff in Ha.
  destruct parts as [|b parts].
  - cbn [join]. rewrite (split1_aux_end _ _ Ha). reflexivity.
  - change (join [sep] (a :: b :: parts)) with (a ++ [sep] ++ join [sep] (b :: parts)). cbn [app].
    rewrite (split1_aux_sep _ _ _ Ha). cbn [rev app]. f_equal. apply IH; [discriminate|exact Hps].
Qed.

Lemma memb_join b sep parts : b <> sep -> forallb (fun a => negb (memb b a)) parts = true ->
  memb b (join [sep] parts) = false.
Proof.
  intros Hb. induction parts as [|a parts IH]; intros H; [reflexivity|].
  cbn [forallb] in H. apply andb_prop in H. destruct H as [Ha Hps]. apply negb_true_iff in Ha.
  destruct parts as [|c parts]; [exact Ha|].
  change (join [sep] (a :: c :: parts)) with (a ++ [sep] ++ join [sep] (c :: parts)).
  rewrite !memb_app, Ha, (IH Hps). cbn [orb memb existsb]. rewrite !orb_false_r. apply N.eqb_neq. exact Hb.
Qed.

(* ---- the guard ------------------------------------------------------------------- *)

Definition id_ok (s : bytes) : bool := negb (memb SP s) && negb (memb NL s).
Definition entry_ids_ok (e : bytes * (bytes * list bytes)) : bool :=
  id_ok (fst e) && id_ok (fst (snd e)) && forallb id_ok (snd (snd e)).
Definition plan_ids_ok (m : bplan) : bool := forallb entry_ids_ok m.

Definition parts_of (e : bytes * (bytes * list bytes)) : list bytes :=
  fst e :: fst (snd e) :: snd (snd e).
Definition line_body (e : bytes * (bytes * list bytes)) : bytes := join [SP] (parts_of e).

Lemma entry_parts_ok e : entry_ids_ok e = true ->
  forallb (fun a => negb (memb SP a)) (parts_of e) = true /\
  forallb (fun a => negb (memb NL a)) (parts_of e) = true.
Proof.
  unfold entry_ids_ok, parts_of. intros H.
  apply andb_true_iff in H as [H H3]. apply andb_true_iff in H as [H1 H2].
  unfold id_ok in H1, H2. apply andb_true_iff in H1 as [A1 B1]. apply andb_true_iff in H2 as [A2 B2].
  cbn [forallb]. rewrite A1, A2, B1, B2. cbn [andb].
  split; apply forallb_forall; intros x Hx; rewrite forallb_forall in H3; specialize (H3 x Hx);
    unfold id_ok in H3; apply andb_true_iff in H3 as [A B]; assumption.
Qed.

Lemma tail_join (n : bytes) ps : n ++ concat (map (fun p => SP :: p) ps) = join [SP] (n :: ps).
Proof.
  revert n. induction ps as [|p ps IH]; intros n; cbn [map concat].
  - rewrite app_nil_r. reflexivity.
  - change (join [SP] (n :: p :: ps)) with (n ++ [SP] ++ join [SP] (p :: ps)).
    rewrite <- IH. cbn [app]. reflexivity.
Qed.

Lemma plan_line_join e : plan_line e = line_body e ++ [NL].
Proof.
  unfold plan_line, line_body, parts_of.
  change (join [SP] (fst e :: fst (snd e) :: snd (snd e)))
    with (fst e ++ [SP] ++ join [SP] (fst (snd e) :: snd (snd e))).
  rewrite <- tail_join, <- !app_assoc. reflexivity.
Qed.

Lemma line_body_nonempty e : line_body e <> [].
Proof.
  unfold line_body, parts_of.
  change (join [SP] (fst e :: fst (snd e) :: snd (snd e)))
    with (fst e ++ [SP] ++ join [SP] (fst (snd e) :: snd (snd e))).
  intros H. apply app_eq_nil in H as [_ H]. discriminate.
Qed.

Lemma split_body m : plan_ids_ok m = true ->
  split1 NL (concat (map plan_line m)) = map line_body m ++ [[]].
Proof.
  induction m as [|e m IH]; intros H; [reflexivity|].
  cbn [plan_ids_ok forallb] in H. apply andb_true_iff in H as [He Hm].
  cbn [map concat app]. rewrite plan_line_join, <- app_assoc. cbn [app].
  rewrite split1_line.
  - f_equal. apply IH. exact Hm.
  - apply memb_join; [discriminate|]. apply (entry_parts_ok e He).
Qed.

Lemma dict_set_absent (m : bplan) k v : ~ In k (map fst m) ->
  dict_set bytes_eqb m k v = m ++ [(k, v)].
Proof.
  induction m as [|[k' v'] m IH]; cbn [dict_set map fst In app]; intros H; [reflexivity|].
  destruct (bytes_eqb k k') eqn:E.
  - apply bytes_eqb_eq in E. subst k'. exfalso. apply H. left. reflexivity.
  - rewrite IH; [reflexivity|]. intros Hin. apply H. right. exact Hin.
Qed.

Lemma unmarshall_lines_ok : forall m acc,
  plan_ids_ok m = true -> NoDup (map fst acc ++ map fst m) ->
  unmarshall_lines (map line_body m ++ [[]]) acc = COk (acc ++ m).
Proof.
  induction m as [|e m IH]; intros acc H ND.
  - cbn [map app unmarshall_lines]. rewrite app_nil_r. reflexivity.
  - cbn [plan_ids_ok forallb] in H. apply andb_true_iff in H as [He Hm].
    cbn [map app unmarshall_lines].
    destruct (line_body e) as [|c l] eqn:L; [exfalso; exact (line_body_nonempty e L)|].
    rewrite <- L. unfold line_body at 1.
    rewrite split1_join; [|discriminate|apply (entry_parts_ok e He)].
    unfold parts_of. destruct e as [k [n ps]]. cbn [fst snd] in *.
    rewrite dict_set_absent.
    + rewrite IH; [rewrite <- app_assoc; reflexivity|exact Hm|].
      rewrite map_app, <- app_assoc. exact ND.
    + apply NoDup_remove_2 in ND. intros Hin. apply ND. apply in_or_app. left. exact Hin.
Qed.

Lemma header_no_nl : memb NL HEADER = false.
Proof. reflexivity. Qed.

(* ---- the round trip -------------------------------------------------------------------- *)

Theorem roundtrip revno revid m :
  memb NL revid = false -> plan_ids_ok m = true -> NoDup (map fst m) ->
  unmarshall (marshall revno revid m) = COk ((revno, revid), m).
Proof.
  intros Hr Hm ND. unfold unmarshall, marshall.
  rewrite <- !app_assoc. cbn [app].
  rewrite (split1_line NL HEADER _ header_no_nl).
  replace (print_dec revno ++ SP :: revid ++ NL :: concat (map plan_line m))
    with ((print_dec revno ++ SP :: revid) ++ NL :: concat (map plan_line m))
    by (rewrite <- app_assoc; reflexivity).
  rewrite split1_line.
  - rewrite (split_body m Hm).
    assert (E : bytes_eqb HEADER HEADER = true) by (apply bytes_eqb_eq; reflexivity).
    rewrite E. cbn [negb].
    rewrite find_byte_first by (apply print_dec_no; reflexivity).
    rewrite parse_print_dec.
    rewrite (unmarshall_lines_ok m [] Hm ND). reflexivity.
  - rewrite memb_app. rewrite print_dec_no by reflexivity. cbn [orb].
    unfold memb in *. cbn [existsb]. rewrite Hr. reflexivity.
Qed.

(* an id with a blank is read back as two fields *)
Theorem roundtrip_needs_legal_ids :
  exists revno revid m, plan_ids_ok m = false /\ NoDup (map fst m) /\
    unmarshall (marshall revno revid m) <> COk ((revno, revid), m).
Proof.
  exists 1, [120], [([97; 32; 98], ([99], []))].
  split; [reflexivity|]. split; [repeat constructor; intros []|].
  intros H. vm_compute in H. discriminate.
Qed.
