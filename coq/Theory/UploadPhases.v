(* Theory/UploadPhases.v -- C43, part 2: what each phase of
   BzrUploader.upload_tree does to the remote, as lemmas about [run]. *)
From Coq Require Import NArith List Bool Arith Lia.
From BV Require Import Lib.Bytes Lib.FS43 Model.Upload Theory.UploadMoves.
Import ListNotations.
Open Scope list_scope.

(* ---------- generalities ---------- *)
Lemma run_app a b u :
  run (a ++ b) u = match run a u with (u', None) => run b u' | r => r end.
Proof.
  revert u; induction a as [|c a IH]; intros u; simpl.
  - destruct (run b u) as [u' [e|]]; reflexivity.
  - destruct (exec_cmd c u) as [u1 [e|]]; [reflexivity|]. apply IH.
Qed.

Lemma run_app_ok a b u u1 r :
  run a u = (u1, None) -> run b u1 = r -> run (a ++ b) u = r.
Proof. intros H1 H2. rewrite run_app, H1. exact H2. Qed.

Lemma is_ignored_nil t p : tign t = [] -> is_ignored t p = false.
Proof.
  intros H. unfold is_ignored. rewrite H. induction p; simpl; auto.
Qed.

Lemma flat_map_single {A B} (g : A -> B) (c : A -> bool) l :
  (forall x, c x = false) ->
  flat_map (fun x => if c x then [] else [g x]) l = map g l.
Proof.
  intros H. induction l as [|x l IH]; simpl; [reflexivity|].
  rewrite H. simpl. rewrite IH. reflexivity.
Qed.

Lemma rmdirs_eq l f : rmdirs l f = rmdirs' l f.
Proof.
  revert f; induction l as [|p l IH]; intros f; simpl; [reflexivity|].
  destruct (t_rmdir p f); [apply IH|reflexivity].
Qed.

(* heads of tree paths: ordinary names or the ignore file, never a temporary
   or the marker *)
Definition clean_hd (p : path) : bool :=
  match p with (Nm _ | NIgn) :: _ => true | _ => false end.

Lemma clean_not_under_tmp a k s : clean_hd a = true -> prefixb a (Tmp k :: s) = false.
Proof. destruct a as [|[] a]; simpl; try discriminate; reflexivity. Qed.
Lemma tmp_not_under_clean a k s : clean_hd a = true -> prefixb (Tmp k :: s) a = false.
Proof. destruct a as [|[] a]; simpl; try discriminate; reflexivity. Qed.
Lemma clean_app_ne_mark a s : clean_hd a = true -> a ++ s <> [NMark].
Proof. destruct a as [|[] a]; simpl; try discriminate; congruence. Qed.
Lemma clean_ne_mark a : clean_hd a = true -> a <> [NMark].
Proof. destruct a as [|[] a]; simpl; try discriminate; congruence. Qed.
Lemma clean_parent a : clean_hd a = true -> parent a = [] \/ clean_hd (parent a) = true.
Proof.
  destruct a as [|x [|y a]]; simpl; try discriminate; auto.
  all: intros H; right; destruct x; try discriminate; reflexivity.
Qed.
Lemma clean_ne_nil a : clean_hd a = true -> a <> [].
Proof. destruct a; simpl; [discriminate|congruence]. Qed.

(* parents-first order: no later element is a prefix of an earlier one
   (includes: no duplicates) *)
Fixpoint pf_okb (l : list path) : bool :=
  match l with
  | [] => true
  | x :: r => forallb (fun y => negb (prefixb y x)) r && pf_okb r
  end.

Lemma pf_okb_remove a x b : pf_okb (a ++ x :: b) = true -> pf_okb (a ++ b) = true.
Proof.
  induction a as [|y a IH]; simpl.
  - intros H. apply andb_true_iff in H as [_ H]. exact H.
  - intros H. apply andb_true_iff in H as [H1 H2]. apply andb_true_iff. split; [|auto].
    rewrite forallb_app in *. apply andb_true_iff in H1 as [A B].
    simpl in B. apply andb_true_iff in B as [_ B]. rewrite A, B. reflexivity.
Qed.

Lemma pf_okb_app_l a b : pf_okb (a ++ b) = true -> pf_okb a = true.
Proof.
  induction a as [|y a IH]; simpl; [reflexivity|].
  intros H. apply andb_true_iff in H as [H1 H2]. rewrite forallb_app in H1.
  apply andb_true_iff in H1 as [A _]. rewrite A. simpl. auto.
Qed.

Lemma pf_okb_NoDup l : pf_okb l = true -> NoDup l.
Proof.
  induction l as [|x l IH]; simpl; intros H; constructor.
  - apply andb_true_iff in H as [H _]. intros I.
    rewrite forallb_forall in H. specialize (H x I). rewrite prefixb_refl in H. discriminate.
  - apply andb_true_iff in H as [_ H]. auto.
Qed.

(* in a parents-first list an element below d comes after d *)
Lemma pf_okb_later l1 d l2 q :
  pf_okb (l1 ++ d :: l2) = true -> In q (l1 ++ d :: l2) -> strictb d q = true -> In q l2.
Proof.
  intros H I S.
  assert (q <> d) as NE.
  { intros ->. apply strictb_true in S as (x & s & E).
    rewrite <- (app_nil_r d) in E at 1. apply app_inv_head in E. discriminate. }
  apply in_app_or in I as [I|[I|I]]; [|congruence|exact I].
  exfalso. apply in_split in I as (a & b & ->).
  rewrite <- app_assoc in H. simpl in H.
  clear - H S. induction a as [|y a IH]; simpl in H.
  - apply andb_true_iff in H as [H _]. rewrite forallb_app in H.
    apply andb_true_iff in H as [_ H]. simpl in H. apply andb_true_iff in H as [H _].
    rewrite (strictb_prefixb _ _ S) in H. discriminate.
  - apply andb_true_iff in H as [_ H]. auto.
Qed.

(* ---------- phase 1: the removed entries ---------- *)
Definition rm_cmd (e : entry) : cmd :=
  match enode e with
  | Dir => DeleteDirMaybe (epath e)
  | _ => DeleteFile (epath e)
  end.

Lemma cmds_removed_noign new l : tign new = [] -> cmds_removed new l = map rm_cmd l.
Proof.
  intros H. unfold cmds_removed.
  rewrite <- (flat_map_single rm_cmd (fun e => is_ignored new (epath e))).
  - apply flat_map_ext. intros e. unfold rm_cmd. destruct (is_ignored new (epath e)); [reflexivity|].
    destruct (enode e); reflexivity.
  - intros e. apply is_ignored_nil; exact H.
Qed.

Definition is_dir_entry (e : entry) : bool := match enode e with Dir => true | _ => false end.
Definition dir_paths (l : list entry) : list path := map epath (filter is_dir_entry l).

Record ph1 (f0 : fs) (done : list entry) (u : ust) : Prop := {
  p1_dom : dom_ok (ufs u);
  p1_pf : pf_okb (pdel u) = true;
  p1_incl : incl (pdel u) (dir_paths done);
  p1_same : forall p, ~ In p (map epath done) -> look (ufs u) p = look f0 p;
  p1_done : forall p, In p (map epath done) ->
              (look (ufs u) p = None /\ ~ In p (pdel u)) \/
              (look (ufs u) p = Some Dir /\ In p (pdel u))
}.

Lemma dir_paths_app a b : dir_paths (a ++ b) = dir_paths a ++ dir_paths b.
Proof. unfold dir_paths. rewrite filter_app, map_app. reflexivity. Qed.

Lemma dir_paths_incl l : incl (dir_paths l) (map epath l).
Proof.
  intros p I. unfold dir_paths in I. apply in_map_iff in I as (e & <- & I).
  apply filter_In in I as [I _]. apply in_map; exact I.
Qed.

Lemma phase1 f0 : forall todo done u,
  ph1 f0 done u ->
  pf_okb (pdel u ++ map epath todo) = true ->
  NoDup (map epath (done ++ todo)) ->
  (forall e, In e todo -> look f0 (epath e) = Some (enode e)) ->
  exists u', run (map rm_cmd todo) u = (u', None) /\ pren u' = pren u /\ ntmp u' = ntmp u /\
             ph1 f0 (done ++ todo) u'.
Proof.
  induction todo as [|e todo IH]; intros done u P PF ND HL.
  - exists u. rewrite app_nil_r. auto.
  - destruct P as [PD PP PI PS PDn].
    set (p := epath e).
    assert (~ In p (map epath done)) as NIn.
    { rewrite map_app in ND. simpl in ND. apply NoDup_remove_2 in ND.
      intros I. apply ND. apply in_or_app. left; exact I. }
    assert (look (ufs u) p = Some (enode e)) as Lp.
    { rewrite PS by exact NIn. apply HL. left; reflexivity. }
    assert (~ In p (pdel u)) as NPd.
    { intros I. apply NIn. apply dir_paths_incl. apply PI. exact I. }
    (* the state after this command *)
    assert (exists u1, exec_cmd (rm_cmd e) u = (u1, None) /\ pren u1 = pren u /\ ntmp u1 = ntmp u /\
                       ph1 f0 (done ++ [e]) u1 /\
                       pf_okb (pdel u1 ++ map epath todo) = true) as (u1 & E1 & R1 & N1 & P1 & PF1).
    { unfold rm_cmd. fold p.
      assert (forall q, In q (map epath (done ++ [e])) -> q = p \/ In q (map epath done)) as Split.
      { intros q I. rewrite map_app in I. apply in_app_or in I as [I|[I|[]]]; auto. }
      destruct (enode e) eqn:En.
      - (* file *)
        simpl. unfold t_delete. rewrite Lp. simpl.
        eexists. split; [reflexivity|]. split; [reflexivity|]. split; [reflexivity|]. simpl. split.
        + constructor; simpl.
          * apply dom_ok_del; exact PD.
          * exact PP.
          * rewrite dir_paths_app. apply incl_appl. exact PI.
          * intros q NI. rewrite map_app in NI. simpl in NI.
            rewrite path_eqb_neq.
            -- apply PS. intros I. apply NI. apply in_or_app; left; exact I.
            -- intros ->. apply NI. apply in_or_app; right; left; reflexivity.
          * intros q I. destruct (Split q I) as [->|I'].
            -- left. rewrite path_eqb_refl. auto.
            -- rewrite path_eqb_neq by (intros ->; contradiction). apply PDn; exact I'.
        + simpl in PF. fold p in PF. eapply pf_okb_remove. exact PF.
      - (* directory *)
        simpl. unfold t_rmdir. rewrite Lp.
        destruct (has_child (ufs u) p) eqn:HC; simpl.
        + eexists. split; [reflexivity|]. split; [reflexivity|]. split; [reflexivity|]. simpl. split.
          * constructor; simpl.
            -- exact PD.
            -- apply (pf_okb_app_l _ (map epath todo)). rewrite <- app_assoc. exact PF.
            -- rewrite dir_paths_app. intros q I. apply in_app_or in I as [I|[<-|[]]].
               ++ apply in_or_app; left. apply PI; exact I.
               ++ apply in_or_app; right. unfold dir_paths. simpl. unfold is_dir_entry.
                  rewrite En. left; reflexivity.
            -- intros q NI. apply PS. intros I. apply NI. rewrite map_app.
               apply in_or_app; left; exact I.
            -- intros q I. destruct (Split q I) as [->|I'].
               ++ right. split; [exact Lp|]. apply in_or_app; right; left; reflexivity.
               ++ destruct (PDn q I') as [[A B]|[A B]].
                  ** left. split; [exact A|]. intros I2. apply in_app_or in I2 as [I2|[<-|[]]];
                       [contradiction|contradiction].
                  ** right. split; [exact A|]. apply in_or_app; left; exact B.
          * rewrite <- app_assoc. simpl. exact PF.
        + eexists. split; [reflexivity|]. split; [reflexivity|]. split; [reflexivity|]. simpl. split.
          * constructor; simpl.
            -- apply dom_ok_del; exact PD.
            -- exact PP.
            -- rewrite dir_paths_app. apply incl_appl. exact PI.
            -- intros q NI. rewrite map_app in NI. simpl in NI.
               rewrite path_eqb_neq.
               ++ apply PS. intros I. apply NI. apply in_or_app; left; exact I.
               ++ intros ->. apply NI. apply in_or_app; right; left; reflexivity.
            -- intros q I. destruct (Split q I) as [->|I'].
               ++ left. rewrite path_eqb_refl. auto.
               ++ rewrite path_eqb_neq by (intros ->; contradiction). apply PDn; exact I'.
          * simpl in PF. fold p in PF. eapply pf_okb_remove. exact PF.
      - (* symlink *)
        simpl. unfold t_delete. rewrite Lp. simpl.
        eexists. split; [reflexivity|]. split; [reflexivity|]. split; [reflexivity|]. simpl. split.
        + constructor; simpl.
          * apply dom_ok_del; exact PD.
          * exact PP.
          * rewrite dir_paths_app. apply incl_appl. exact PI.
          * intros q NI. rewrite map_app in NI. simpl in NI.
            rewrite path_eqb_neq.
            -- apply PS. intros I. apply NI. apply in_or_app; left; exact I.
            -- intros ->. apply NI. apply in_or_app; right; left; reflexivity.
          * intros q I. destruct (Split q I) as [->|I'].
            -- left. rewrite path_eqb_refl. auto.
            -- rewrite path_eqb_neq by (intros ->; contradiction). apply PDn; exact I'.
        + simpl in PF. fold p in PF. eapply pf_okb_remove. exact PF. }
    destruct (IH (done ++ [e]) u1 P1 PF1) as (u' & E' & R' & N' & P').
    + rewrite <- app_assoc. exact ND.
    + intros e' I. apply HL. right; exact I.
    + exists u'. simpl. rewrite E1. split; [exact E'|].
      split; [congruence|]. split; [congruence|].
      rewrite <- app_assoc in P'. exact P'.
Qed.
