(* Theory/GitIdsCodec.v -- C36: file-id escaping and the UTF-8 codec (strict and
   surrogateescape) of Model/GitIds.v are inverse pairs; file ids. *)
From Coq Require Import ZArith NArith List Bool Lia ZifyBool String.
From BV Require Import Lib.Bytes Model.GitIds.
Import ListNotations.
Open Scope N_scope.

Ltac Zify.zify_post_hook ::= Z.to_euclidean_division_equations.

(* ------------------------------------------------------------------ *)
(* str.replace with a one-byte pattern is a per-byte map               *)
(* ------------------------------------------------------------------ *)

Lemma replace1_flat_map : forall a new s,
  replace [a] new s = flat_map (fun c => if a =? c then new else [c]) s.
Proof.
  intros a new s. unfold replace.
  induction s as [|c s IH]; [reflexivity|].
  cbn [replace_aux prefixb flat_map List.length Nat.sub].
  rewrite andb_true_r, IH.
  destruct (a =? c); reflexivity.
Qed.

Definition esc1 (c : N) : bytes :=
  if c =? 95 then [95; 95] else if c =? 32 then [95; 115] else if c =? 12 then [95; 99] else [c].

Lemma escape_file_id_flat_map : forall s, escape_file_id s = flat_map esc1 s.
Proof.
  intros s. unfold escape_file_id. rewrite !replace1_flat_map.
  induction s as [|c s IH]; [reflexivity|].
  cbn [flat_map]. rewrite !flat_map_app, IH. f_equal.
  unfold esc1.
  destruct (N.eqb_spec 95 c) as [E|E].
  - subst c. reflexivity.
  - rewrite (proj2 (N.eqb_neq c 95)) by congruence.
    cbn [flat_map app].
    destruct (N.eqb_spec 32 c) as [E2|E2].
    + subst c. reflexivity.
    + rewrite (proj2 (N.eqb_neq c 32)) by congruence.
      cbn [flat_map app].
      destruct (N.eqb_spec 12 c) as [E3|E3].
      * subst c. reflexivity.
      * rewrite (proj2 (N.eqb_neq c 12)) by congruence. reflexivity.
Qed.

Lemma unescape_esc1 : forall c rest,
  unescape_file_id (esc1 c ++ rest) = option_map (cons c) (unescape_file_id rest).
Proof.
  intros c rest. unfold esc1.
  destruct (N.eqb_spec c 95) as [E|E]; [subst; reflexivity|].
  destruct (N.eqb_spec c 32) as [E2|E2]; [subst; reflexivity|].
  destruct (N.eqb_spec c 12) as [E3|E3]; [subst; reflexivity|].
  cbn [app unescape_file_id].
  rewrite (proj2 (N.eqb_neq c 95)) by assumption. reflexivity.
Qed.

Theorem unescape_escape : forall b, unescape_file_id (escape_file_id b) = Some b.
Proof.
  intros b. rewrite escape_file_id_flat_map.
  induction b as [|c b IH]; [reflexivity|].
  cbn [flat_map]. rewrite unescape_esc1, IH. reflexivity.
Qed.

(* escape is injective (corollary) *)
Theorem escape_file_id_injective : forall a b, escape_file_id a = escape_file_id b -> a = b.
Proof.
  intros a b H. apply (f_equal unescape_file_id) in H.
  rewrite !unescape_escape in H. congruence.
Qed.

(* the reverse composition is NOT the identity: unescape accepts raw spaces *)
Theorem escape_unescape_refuted :
  exists e b, unescape_file_id e = Some b /\ escape_file_id b <> e.
Proof. exists [32], [32]. split; [reflexivity|]. vm_compute. discriminate. Qed.

(* ------------------------------------------------------------------ *)
(* UTF-8                                                              *)
(* ------------------------------------------------------------------ *)

Ltac break_if :=
  match goal with
  | H : context [if ?b then _ else _] |- _ => destruct b eqn:?
  | |- context [if ?b then _ else _] => destruct b eqn:?
  end.

(* a decoded sequence re-encodes to exactly the bytes it was read from *)
Lemma head_enc : forall se c r cp k,
  utf8_head (c :: r) = Some (cp, k) -> enc_cp se cp = Some (c :: firstn k r).
Proof.
  intros se c r cp k H. unfold utf8_head in H.
  destruct (c <? 128) eqn:E1.
  { inversion H; subst. unfold enc_cp. rewrite E1. reflexivity. }
  destruct (c <? 194) eqn:E2; [discriminate|].
  destruct (c <? 224) eqn:E3.
  { destruct r as [|c2 r]; [discriminate|].
    destruct (is_cont c2) eqn:C2; [|discriminate].
    inversion H; subst; clear H. unfold is_cont in C2. unfold enc_cp.
    repeat break_if; try lia. cbn [firstn].
    f_equal. f_equal; [lia|]. f_equal. lia. }
  destruct (c <? 240) eqn:E4.
  { destruct r as [|c2 [|c3 r]]; try discriminate.
    break_if; [|discriminate].
    inversion H; subst; clear H. unfold is_cont in *. unfold enc_cp.
    repeat break_if; try lia. cbn [firstn].
    f_equal. f_equal; [lia|]. f_equal; [lia|]. f_equal. lia. }
  destruct (c <? 245) eqn:E5; [|discriminate].
  destruct r as [|c2 [|c3 [|c4 r]]]; try discriminate.
  break_if; [|discriminate].
  inversion H; subst; clear H. unfold is_cont in *. unfold enc_cp.
  repeat break_if; try lia. cbn [firstn].
  f_equal. f_equal; [lia|]. f_equal; [lia|]. f_equal; [lia|]. f_equal. lia.
Qed.

Lemma head_len : forall s cp k, utf8_head s = Some (cp, k) -> (k < List.length s)%nat.
Proof.
  intros s cp k H. unfold utf8_head in H.
  destruct s as [|c r]; [discriminate|].
  repeat break_if; try discriminate;
    repeat match goal with
           | H : match ?r with [] => _ | _ :: _ => _ end = _ |- _ => destruct r; try discriminate
           | H : context [if ?b then _ else _] |- _ => destruct b; try discriminate
           end;
    inversion H; subst; cbn [List.length]; lia.
Qed.

Lemma head_none_high : forall c r, utf8_head (c :: r) = None -> 128 <= c.
Proof.
  intros c r H. unfold utf8_head in H.
  destruct (c <? 128) eqn:E; [discriminate|]. lia.
Qed.

Lemma utf8_encode_cons : forall se cp r,
  utf8_encode se (cp :: r) = match enc_cp se cp, utf8_encode se r with
                             | Some a, Some b => Some (a ++ b)
                             | _, _ => None
                             end.
Proof. reflexivity. Qed.

Lemma enc_surrogate : forall c, 128 <= c -> c < 256 -> enc_cp true (56320 + c) = Some [c].
Proof.
  intros c H1 H2. remember (56320 + c) as cp eqn:Hcp. unfold enc_cp.
  destruct (cp <? 128) eqn:E1; [lia|].
  destruct (cp <? 2048) eqn:E2; [lia|].
  destruct ((55296 <=? cp) && (cp <? 57344)) eqn:E3; [|lia].
  destruct (true && (56448 <=? cp) && (cp <? 56576)) eqn:E4; [|lia].
  f_equal. f_equal. lia.
Qed.

(* decode then encode: all bytes, both error modes *)
Lemma decode_encode_aux : forall se s k t,
  wf_bytes s = true ->
  utf8_decode_aux se k s = Some t -> utf8_encode se t = Some (skipn k s).
Proof.
  intros se s. induction s as [|c r IH]; intros k t Hwf H.
  - destruct k; cbn [utf8_decode_aux] in H; inversion H; subst; reflexivity.
  - cbn [wf_bytes forallb] in Hwf. apply andb_prop in Hwf. destruct Hwf as [Hc Hr].
    fold (wf_bytes r) in Hr. unfold wf_byte in Hc.
    cbn [utf8_decode_aux] in H. destruct k as [|k].
    + destruct (utf8_head (c :: r)) as [[cp k']|] eqn:Hh.
      * destruct (utf8_decode_aux se k' r) as [t'|] eqn:Hd; [|discriminate].
        cbn [option_map] in H. injection H as <-.
        cbn [utf8_encode]. rewrite (head_enc se _ _ _ _ Hh), (IH _ _ Hr Hd).
        cbn [skipn app]. f_equal. f_equal. apply firstn_skipn.
      * destruct (se && (128 <=? c)) eqn:Hse; [|discriminate].
        apply andb_prop in Hse. destruct Hse as [Hs Hge]. subst se.
        destruct (utf8_decode_aux true 0 r) as [t'|] eqn:Hd; [|discriminate].
        remember (56320 + c) as cp eqn:Hcp.
        cbn [option_map] in H. injection H as <-.
        rewrite utf8_encode_cons, (IH _ _ Hr Hd). subst cp.
        rewrite (enc_surrogate c) by lia. reflexivity.
    + cbn [skipn]. apply IH; assumption.
Qed.

Theorem utf8_decode_encode : forall se b t,
  wf_bytes b = true -> utf8_decode se b = Some t -> utf8_encode se t = Some b.
Proof. intros se b t Hwf H. exact (decode_encode_aux se b 0 t Hwf H). Qed.

(* surrogateescape decoding never fails *)
Lemma decode_se_total_aux : forall s k, exists t, utf8_decode_aux true k s = Some t.
Proof.
  induction s as [|c r IH]; intros k; [exists []; reflexivity|].
  cbn [utf8_decode_aux]. destruct k as [|k]; [|apply IH].
  destruct (utf8_head (c :: r)) as [[cp k']|] eqn:Hh.
  - destruct (IH k') as [t Ht]. rewrite Ht. eexists; reflexivity.
  - apply head_none_high in Hh.
    replace (128 <=? c) with true by (symmetry; apply N.leb_le; exact Hh).
    cbn [andb]. destruct (IH 0%nat) as [t Ht]. rewrite Ht. eexists; reflexivity.
Qed.

Theorem decode_git_path_total : forall b, exists t, decode_git_path b = Some t.
Proof. intros b. apply decode_se_total_aux. Qed.

Theorem git_path_roundtrip : forall b, wf_bytes b = true ->
  exists t, decode_git_path b = Some t /\ encode_git_path t = Some b.
Proof.
  intros b Hwf. destruct (decode_git_path_total b) as [t Ht].
  exists t. split; [exact Ht|]. exact (utf8_decode_encode true b t Hwf Ht).
Qed.

(* encode then decode (strict): every str without surrogates *)
Lemma enc_head : forall cp e rest,
  enc_cp false cp = Some e ->
  exists c r, e = c :: r /\ utf8_head (e ++ rest) = Some (cp, List.length r).
Proof.
  intros cp e rest H. unfold enc_cp in H.
  destruct (cp <? 128) eqn:E1.
  { injection H as <-. exists cp, []. split; [reflexivity|].
    change ([cp] ++ rest) with (cp :: rest). unfold utf8_head. rewrite E1. reflexivity. }
  destruct (cp <? 2048) eqn:E2.
  { remember (192 + cp / 64) as b1 eqn:Hb1. remember (128 + cp mod 64) as b2 eqn:Hb2.
    injection H as <-. exists b1, [b2]. split; [reflexivity|].
    change ([b1; b2] ++ rest) with (b1 :: b2 :: rest). unfold utf8_head, is_cont.
    repeat break_if; try lia. f_equal; f_equal; try reflexivity; lia. }
  destruct ((55296 <=? cp) && (cp <? 57344)) eqn:E3.
  { cbn [andb] in H. discriminate. }
  destruct (cp <? 65536) eqn:E4.
  { remember (224 + cp / 4096) as b1 eqn:Hb1. remember (128 + (cp / 64) mod 64) as b2 eqn:Hb2.
    remember (128 + cp mod 64) as b3 eqn:Hb3.
    injection H as <-. exists b1, [b2; b3]. split; [reflexivity|].
    change ([b1; b2; b3] ++ rest) with (b1 :: b2 :: b3 :: rest). unfold utf8_head, is_cont.
    repeat break_if; try lia. f_equal; f_equal; try reflexivity; lia. }
  destruct (cp <? 1114112) eqn:E5; [|discriminate].
  remember (240 + cp / 262144) as b1 eqn:Hb1. remember (128 + (cp / 4096) mod 64) as b2 eqn:Hb2.
  remember (128 + (cp / 64) mod 64) as b3 eqn:Hb3. remember (128 + cp mod 64) as b4 eqn:Hb4.
  injection H as <-. exists b1, [b2; b3; b4]. split; [reflexivity|].
  change ([b1; b2; b3; b4] ++ rest) with (b1 :: b2 :: b3 :: b4 :: rest). unfold utf8_head, is_cont.
  repeat break_if; try lia. f_equal; f_equal; try reflexivity; lia.
Qed.

Lemma decode_skip_app : forall se r rest,
  utf8_decode_aux se (List.length r) (r ++ rest) = utf8_decode_aux se 0 rest.
Proof.
  intros se r rest. induction r as [|x r IH]; [reflexivity|].
  cbn [List.length app utf8_decode_aux]. exact IH.
Qed.

Theorem utf8_encode_decode_strict : forall s b,
  utf8_encode false s = Some b -> utf8_decode false b = Some s.
Proof.
  induction s as [|cp s IH]; intros b H.
  - cbn in H. inversion H. reflexivity.
  - cbn [utf8_encode] in H.
    destruct (enc_cp false cp) as [e|] eqn:He; [|discriminate].
    destruct (utf8_encode false s) as [b'|] eqn:Hb; [|discriminate].
    inversion H; subst; clear H.
    destruct (enc_head cp e b' He) as [c [r [Ee Hh]]].
    unfold utf8_decode. subst e. cbn [app utf8_decode_aux].
    cbn [app] in Hh. rewrite Hh, decode_skip_app.
    fold (utf8_decode false b'). rewrite (IH b' eq_refl). reflexivity.
Qed.

Lemma forallb_cons : forall (f : N -> bool) x l, forallb f (x :: l) = f x && forallb f l.
Proof. reflexivity. Qed.

(* the encoder only produces bytes *)
Lemma enc_cp_wf_match : forall se cp,
  match enc_cp se cp with Some e => wf_bytes e = true | None => True end.
Proof.
  intros se cp. unfold enc_cp, wf_bytes.
  repeat break_if; try exact I;
    rewrite ?forallb_cons; unfold wf_byte; rewrite ?andb_true_iff;
    repeat split; try reflexivity; apply N.ltb_lt; lia.
Qed.

Lemma enc_cp_wf : forall se cp e, enc_cp se cp = Some e -> wf_bytes e = true.
Proof.
  intros se cp e H. pose proof (enc_cp_wf_match se cp) as M. rewrite H in M. exact M.
Qed.

Lemma wf_bytes_app : forall a b, wf_bytes (a ++ b) = wf_bytes a && wf_bytes b.
Proof. intros a b. unfold wf_bytes. apply forallb_app. Qed.

Lemma utf8_encode_wf : forall se s b, utf8_encode se s = Some b -> wf_bytes b = true.
Proof.
  induction s as [|cp s IH]; intros b H.
  - inversion H. reflexivity.
  - cbn [utf8_encode] in H.
    destruct (enc_cp se cp) as [e|] eqn:He; [|discriminate].
    destruct (utf8_encode se s) as [b'|] eqn:Hb; [|discriminate].
    inversion H; subst. rewrite wf_bytes_app, (enc_cp_wf _ _ _ He), (IH _ eq_refl). reflexivity.
Qed.

(* str -> bytes -> str under surrogateescape is NOT the identity for strs that
   are not decoded git paths *)
Theorem git_path_str_roundtrip_refuted :
  exists s b, encode_git_path s = Some b /\ decode_git_path b <> Some s.
Proof. exists [56515; 56489], [195; 169]. split; [reflexivity|]. vm_compute. discriminate. Qed.

(* ... but it is on every str that IS a decoded git path *)
Theorem git_path_str_roundtrip_guarded : forall b s,
  wf_bytes b = true -> decode_git_path b = Some s ->
  exists b', encode_git_path s = Some b' /\ decode_git_path b' = Some s.
Proof.
  intros b s Hwf H. exists b. split; [|exact H].
  exact (utf8_decode_encode true b s Hwf H).
Qed.

(* ------------------------------------------------------------------ *)
(* file ids                                                           *)
(* ------------------------------------------------------------------ *)

Lemma escape_nonempty : forall c p, exists d q, escape_file_id (c :: p) = d :: q.
Proof.
  intros c p. rewrite escape_file_id_flat_map. cbn [flat_map]. unfold esc1.
  repeat break_if; eexists; eexists; reflexivity.
Qed.

Theorem parse_generate_file_id : forall p,
  wf_bytes p = true ->
  exists s, parse_file_id (generate_file_id_bytes p) = Ok s /\
            decode_git_path p = Some s /\ encode_git_path s = Some p.
Proof.
  intros p Hwf. destruct (git_path_roundtrip p Hwf) as [s [Hd He]].
  exists s. split; [|split; assumption].
  destruct p as [|c p].
  - cbn in Hd. inversion Hd. reflexivity.
  - unfold generate_file_id_bytes, parse_file_id.
    replace (bytes_eqb (FILE_ID_PREFIX ++ escape_file_id (c :: p)) ROOT_ID) with false
      by reflexivity.
    replace (prefixb FILE_ID_PREFIX (FILE_ID_PREFIX ++ escape_file_id (c :: p))) with true
      by reflexivity.
    cbn [negb].
    replace (skipn (List.length FILE_ID_PREFIX) (FILE_ID_PREFIX ++ escape_file_id (c :: p)))
      with (escape_file_id (c :: p)) by reflexivity.
    rewrite unescape_escape, Hd. reflexivity.
Qed.

(* a str path that came from git (any decoded byte path) round-trips exactly *)
Theorem parse_generate_file_id_str : forall b s,
  wf_bytes b = true -> decode_git_path b = Some s ->
  exists f, generate_file_id_str s = Some f /\ parse_file_id f = Ok s.
Proof.
  intros b s Hwf Hd.
  pose proof (utf8_decode_encode true b s Hwf Hd) as He.
  unfold generate_file_id_str. unfold encode_git_path in *. rewrite He. cbn [option_map].
  eexists; split; [reflexivity|].
  destruct (parse_generate_file_id b Hwf) as [s' [Hp [Hd' _]]].
  rewrite Hd in Hd'. inversion Hd'; subst. exact Hp.
Qed.

Theorem parse_generate_file_id_str_refuted :
  exists s f, generate_file_id_str s = Some f /\ parse_file_id f <> Ok s.
Proof.
  exists [56515; 56489], (FILE_ID_PREFIX ++ [195; 169]). split; [reflexivity|].
  vm_compute. discriminate.
Qed.

(* generated ids of different paths differ *)
Theorem generate_file_id_injective : forall p q,
  generate_file_id_bytes p = generate_file_id_bytes q -> p = q.
Proof.
  intros p q H. destruct p as [|c p], q as [|d q]; try reflexivity.
  - unfold generate_file_id_bytes in H. destruct (escape_nonempty d q) as [x [y E]].
    rewrite E in H. vm_compute in H. discriminate.
  - unfold generate_file_id_bytes in H. destruct (escape_nonempty c p) as [x [y E]].
    rewrite E in H. vm_compute in H. discriminate.
  - unfold generate_file_id_bytes in H. apply app_inv_head in H.
    apply escape_file_id_injective. exact H.
Qed.
