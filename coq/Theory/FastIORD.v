(* Theory/FastIORD.v -- the exporter emits R for every renamed non-directory and D for every removed
   file or symlink (C44, exporter half; companion of Theory/FastIO.v). *)
From Coq Require Import ZArith NArith List Bool String Lia.
From BV Require Import Lib.Bytes Lib.Obs Model.FastIO Theory.FastIO.
Import ListNotations.
Open Scope N_scope.

Definition rn_cmds (s : rn_state) : list fcmd := fst (fst (fst (fst s))).
Definition rn_dels (s : rn_state) : list path := snd s.

Definition emits (plain : bool) (c : change) : bool :=
  negb (kind_eqb (kind_of (c_new c)) KDir) || negb plain.

Lemma rename_step_cmds_mono plain old s c x :
  In x (rn_cmds s) -> In x (rn_cmds (rename_step plain old s c)).
Proof.
  destruct s as [[[[cmds mods] o2n] must] dels]. unfold rn_cmds, rename_step. simpl.
  intros H.
  set (emit := negb (kind_eqb (kind_of (c_new c)) KDir) || negb plain).
  set (cmds1 := if pmem (c_np c) dels && emit then cmds ++ [CD (c_np c)] else cmds).
  assert (In x cmds1) as H1.
  { unfold cmds1. destruct (pmem (c_np c) dels && emit); [apply in_or_app; left|]; exact H. }
  destruct (is_empty_dir old (c_op c)); simpl; [exact H1|].
  destruct emit; simpl; [apply in_or_app; left|]; exact H1.
Qed.

Lemma fold_rename_cmds_mono plain old l : forall s x,
  In x (rn_cmds s) -> In x (rn_cmds (fold_left (rename_step plain old) l s)).
Proof.
  induction l as [|c l IH]; simpl; intros s x H; [exact H|].
  apply IH. apply rename_step_cmds_mono. exact H.
Qed.

Lemma rename_step_emits_R plain old s c :
  is_empty_dir old (c_op c) = false -> emits plain c = true ->
  In (CR (c_op c) (c_np c)) (rn_cmds (rename_step plain old s c)).
Proof.
  destruct s as [[[[cmds mods] o2n] must] dels]. unfold rn_cmds, rename_step, emits. simpl.
  intros HE HM. rewrite HE. rewrite HM. simpl. apply in_or_app. right. left. reflexivity.
Qed.

Lemma fold_rename_emits_R plain old l : forall s c,
  In c l -> is_empty_dir old (c_op c) = false -> emits plain c = true ->
  In (CR (c_op c) (c_np c)) (rn_cmds (fold_left (rename_step plain old) l s)).
Proof.
  induction l as [|d l IH]; simpl; intros s c HI HE HM; [contradiction|].
  destruct HI as [HI|HI].
  - subst. apply fold_rename_cmds_mono. apply rename_step_emits_R; assumption.
  - apply IH; assumption.
Qed.

Lemma process_cmds_split plain renames deletes old :
  exists s, s = fold_left (rename_step plain old) renames ([], [], [], [], map c_op deletes) /\
            forall x, In x (rn_cmds s) -> In x (fst (process_renames_and_deletes plain renames deletes old)).
Proof.
  eexists. split; [reflexivity|]. intros x H. unfold process_renames_and_deletes.
  destruct (fold_left (rename_step plain old) renames ([], [], [], [], map c_op deletes))
    as [[[[cmds mods] o2n] must] dels]. simpl in *. apply in_or_app. left. exact H.
Qed.

(* every rename of a file or symlink (rich mode: of anything) whose old path is not an empty directory
   is emitted as `R old new` *)
Theorem exporter_emits_renames (plain : bool) (old new : inv) (mpaths dpaths : list path) (o e : entry) :
  In o old -> find_entry new (e_id o) = Some e -> renamed_b o e = true ->
  negb (kind_eqb (e_kind e) KDir) || negb plain = true ->
  is_empty_dir old (opath old (e_id o)) = false ->
  In (CR (opath old (e_id o)) (opath new (e_id o))) (fst (filecmds plain old new mpaths dpaths)).
Proof.
  intros HI HF HR HM HE. unfold filecmds, mod_cmds.
  destruct (process_renames_and_deletes plain (d_renamed old new) (d_removed old new) old) as [cmds rd] eqn:EP.
  simpl. apply in_or_app. right.
  destruct (process_cmds_split plain (d_renamed old new) (d_removed old new) old) as [s [Hs Hin]].
  rewrite EP in Hin. simpl in Hin. apply Hin. rewrite Hs.
  apply (fold_rename_emits_R plain old (d_renamed old new) _
           (mkC (e_id o) (opath old (e_id o)) (opath new (e_id o)) (Some o) (Some e))).
  - unfold d_renamed. apply In_both; assumption.
  - exact HE.
  - unfold emits. simpl. exact HM.
Qed.

(* ---- deletions ---- *)

Lemma bytes_eqb_refl a : bytes_eqb a a = true.
Proof. unfold bytes_eqb. induction a as [|x a IH]; simpl; [reflexivity|]. rewrite N.eqb_refl. exact IH. Qed.

Lemma bytes_eqb_true a b : bytes_eqb a b = true -> a = b.
Proof.
  unfold bytes_eqb. revert b. induction a as [|x a IH]; destruct b as [|y b]; simpl; try discriminate; auto.
  intros H. apply andb_prop in H. destruct H as [H1 H2]. apply N.eqb_eq in H1. subst. f_equal. auto.
Qed.

Lemma pmem_In p s : pmem p s = true <-> In p s.
Proof.
  unfold pmem. rewrite existsb_exists. split.
  - intros [x [Hx He]]. apply bytes_eqb_true in He. subst. exact Hx.
  - intros H. exists p. split; [exact H|apply bytes_eqb_refl].
Qed.

Lemma pmem_sdel p q s : bytes_eqb p q = false -> pmem p s = true -> pmem p (sdel s q) = true.
Proof.
  intros Hne H. apply pmem_In. apply pmem_In in H. unfold sdel. apply filter_In. split; [exact H|].
  rewrite Hne. reflexivity.
Qed.

(* invariant of the rename loop: a path that is to be deleted is still pending or already deleted *)
Definition del_inv (D0 : list path) (s : rn_state) : Prop :=
  forall p, In p D0 -> pmem p (rn_dels s) = true \/ In (CD p) (rn_cmds s).

Lemma rename_step_del_inv plain old D0 s c :
  emits plain c = true -> del_inv D0 s -> del_inv D0 (rename_step plain old s c).
Proof.
  intros HM HI p Hp. specialize (HI p Hp).
  destruct s as [[[[cmds mods] o2n] must] dels].
  unfold rn_dels, rn_cmds in *. simpl in HI.
  unfold rename_step, emits in *. rewrite HM. rewrite Bool.andb_true_r.
  destruct (pmem (c_np c) dels) eqn:Hhit.
  - (* the new path is one of the pending deletes: D is emitted now *)
    destruct (bytes_eqb p (c_np c)) eqn:Heq.
    + apply bytes_eqb_true in Heq. subst p. right.
      destruct (is_empty_dir old (c_op c)); simpl.
      * apply in_or_app. right. left. reflexivity.
      * apply in_or_app. left. apply in_or_app. right. left. reflexivity.
    + destruct HI as [HI|HI].
      * left. destruct (is_empty_dir old (c_op c)); simpl; apply pmem_sdel; assumption.
      * right. destruct (is_empty_dir old (c_op c)); simpl.
        -- apply in_or_app. left. exact HI.
        -- apply in_or_app. left. apply in_or_app. left. exact HI.
  - destruct HI as [HI|HI].
    + left. destruct (is_empty_dir old (c_op c)); simpl; exact HI.
    + right. destruct (is_empty_dir old (c_op c)); simpl; [exact HI|]. apply in_or_app. left. exact HI.
Qed.

Lemma fold_rename_del_inv plain old D0 l : forall s,
  (forall c, In c l -> emits plain c = true) -> del_inv D0 s ->
  del_inv D0 (fold_left (rename_step plain old) l s).
Proof.
  induction l as [|c l IH]; simpl; intros s HM HI; [exact HI|].
  apply IH; [intros d Hd; apply HM; right; exact Hd|].
  apply rename_step_del_inv; [apply HM; left; reflexivity|exact HI].
Qed.

(* every removed file or symlink (rich mode: every removed entry) is deleted by a `D old-path`, provided no
   directory is renamed in plain mode (a directory renamed onto a removed path swallows its D) *)
Theorem exporter_emits_deletes (plain : bool) (old new : inv) (mpaths dpaths : list path) (o : entry) :
  In o old -> has_id new (e_id o) = false ->
  negb (kind_eqb (e_kind o) KDir) || negb plain = true ->
  (forall c, In c (d_renamed old new) -> emits plain c = true) ->
  In (CD (opath old (e_id o))) (fst (filecmds plain old new mpaths dpaths)).
Proof.
  intros HI HN HK HM. unfold filecmds, mod_cmds.
  destruct (process_renames_and_deletes plain (d_renamed old new) (d_removed old new) old) as [cmds rd] eqn:EP.
  simpl. apply in_or_app. right.
  set (ch := mkC (e_id o) (opath old (e_id o)) [] (Some o) None).
  assert (In ch (d_removed old new)) as HC.
  { unfold d_removed. apply In_sort_by. apply in_flat_map. exists o. split; [exact HI|]. rewrite HN. left. reflexivity. }
  assert (del_inv (map c_op (d_removed old new))
                  (fold_left (rename_step plain old) (d_renamed old new) ([], [], [], [], map c_op (d_removed old new)))) as HInv.
  { apply fold_rename_del_inv; [exact HM|].
    intros p Hp. left. unfold rn_dels. simpl. apply pmem_In. exact Hp. }
  specialize (HInv (opath old (e_id o)) (in_map c_op _ ch HC)).
  unfold process_renames_and_deletes in EP.
  destruct (fold_left (rename_step plain old) (d_renamed old new) ([], [], [], [], map c_op (d_removed old new)))
    as [[[[cmds0 mods0] o2n0] must0] dels0].
  unfold rn_dels, rn_cmds in HInv. simpl in HInv.
  inversion EP; subst; clear EP.
  destruct HInv as [Hp|Hc].
  - apply in_or_app. right. apply in_or_app. right. apply in_flat_map. exists ch. split; [exact HC|].
    simpl. rewrite Hp. simpl.
    destruct (kind_eqb (e_kind o) KDir) eqn:K; simpl in *.
    + destruct plain; simpl in *; [discriminate HK|left; reflexivity].
    + left. reflexivity.
  - apply in_or_app. left. exact Hc.
Qed.

(* a file or symlink that becomes a directory (same file id, same place) is deleted by a leading `D path` *)
Theorem exporter_deletes_before_kind_change (plain : bool) (old new : inv) (mpaths dpaths : list path) (o e : entry) :
  In o old -> find_entry new (e_id o) = Some e -> renamed_b o e = false ->
  kind_eqb (e_kind o) KDir = false -> kind_eqb (e_kind e) KDir = true ->
  In (CD (opath old (e_id o))) (fst (filecmds plain old new mpaths dpaths)).
Proof.
  intros HI HF HR HK HD. unfold filecmds.
  destruct (mod_cmds plain old new) as [cmds mods]. simpl.
  apply in_or_app. left. apply In_order_by. unfold kind_dels. apply in_flat_map.
  exists (mkC (e_id o) (opath old (e_id o)) (opath new (e_id o)) (Some o) (Some e)).
  split.
  - unfold d_kind_changed. apply In_both; try assumption.
    rewrite HR. simpl.
    destruct (e_kind o), (e_kind e); simpl in *; try discriminate; reflexivity.
  - simpl. rewrite HD. left. reflexivity.
Qed.
