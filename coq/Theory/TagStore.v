(* Theory/TagStore.v -- the tag file round trip (Model/TagStore.serialize /
   deserialize) for every finite map with pairwise different keys, and the
   master-branch handling of merge_inter on top of the generated kernel. *)
From Coq Require Import ZArith NArith List Bool Permutation Lia.
From BV Require Import Lib.Bytes Lib.PyDict Lib.DecBytes Gen.ReconcileTags Model.TagStore
                       Theory.PyDictFacts Theory.ReconcileTags.
Import ListNotations.
Open Scope N_scope.

(* ------------------------------------------------------------ byte strings *)

Lemma bytes_eqb_spec (a b : bytes) : bytes_eqb a b = true <-> a = b.
Proof.
  unfold bytes_eqb. revert b; induction a as [|x a IH]; intros [|y b]; split; intros H;
    try reflexivity; try discriminate.
  - apply andb_prop in H. destruct H as [H1 H2]. apply N.eqb_eq in H1. apply IH in H2. subst; reflexivity.
  - inversion H; subst. apply andb_true_intro; split; [apply N.eqb_refl|apply IH; reflexivity].
Qed.

Lemma bytes_ltb_total a : forall b, a <> b -> bytes_ltb a b = false -> bytes_ltb b a = true.
Proof.
  induction a as [|x a IH]; intros [|y b] Hne H; cbn [bytes_ltb] in *;
    try reflexivity; try discriminate; try (exfalso; apply Hne; reflexivity).
  destruct (x <? y) eqn:E1; [discriminate|].
  destruct (y <? x) eqn:E2; [reflexivity|].
  apply N.ltb_ge in E1. apply N.ltb_ge in E2.
  assert (x = y) by lia. subst y.
  apply IH; [|exact H]. intros ->. apply Hne; reflexivity.
Qed.

(* ----------------------------------------------------------------- sorting *)

Lemma insert_kv_perm x l : Permutation (insert_kv x l) (x :: l).
Proof.
  induction l as [|y l IH]; cbn [insert_kv]; [apply Permutation_refl|].
  destruct (bytes_ltb (fst x) (fst y)); [apply Permutation_refl|].
  apply perm_trans with (y :: x :: l); [apply perm_skip; exact IH|apply perm_swap].
Qed.

Lemma sort_kv_perm d : Permutation (sort_kv d) d.
Proof.
  unfold sort_kv. induction d as [|x d IH]; cbn [fold_right]; [apply perm_nil|].
  apply perm_trans with (x :: fold_right insert_kv [] d); [apply insert_kv_perm|apply perm_skip; exact IH].
Qed.

(* what the decoder checks: each key strictly above the previous one *)
Fixpoint chain (last : option bytes) (l : tagdict) : Prop :=
  match l with
  | [] => True
  | kv :: l' => key_ok last (fst kv) = true /\ chain (Some (fst kv)) l'
  end.

Lemma insert_kv_chain x : forall l last,
  chain last l -> key_ok last (fst x) = true -> ~ In (fst x) (map fst l) ->
  chain last (insert_kv x l).
Proof.
  induction l as [|y l IH]; intros last Hc Hk Hn; cbn [insert_kv chain] in *.
  - split; [exact Hk|exact I].
  - destruct Hc as [Hy Hc]. destruct (bytes_ltb (fst x) (fst y)) eqn:E; cbn [chain].
    + split; [exact Hk|]. split; [cbn [key_ok]; exact E|exact Hc].
    + split; [exact Hy|]. apply IH; [exact Hc| |intros Hin; apply Hn; right; exact Hin].
      cbn [key_ok]. apply bytes_ltb_total; [|exact E].
      intros Heq. apply Hn. left. symmetry; exact Heq.
Qed.

Lemma sort_kv_chain d : NoDup (map fst d) -> chain None (sort_kv d).
Proof.
  unfold sort_kv. induction d as [|x d IH]; intros Hnd; cbn [fold_right map] in *; [exact I|].
  inversion Hnd as [|? ? Hx Hnd']; subst.
  apply insert_kv_chain; [apply IH; exact Hnd'|reflexivity|].
  intros Hin. apply Hx.
  apply (Permutation_in _ (Permutation_map fst (sort_kv_perm d))). exact Hin.
Qed.

(* ----------------------------------------------------------------- strings *)

Lemma parse_bstr_bstr x rest : parse_bstr (bstr x ++ rest) = Some (x, rest).
Proof.
  unfold parse_bstr, bstr. rewrite <- app_assoc. cbn [app].
  rewrite find_byte_first by (apply print_dec_no; reflexivity).
  assert (Hlz : leading_zero (print_dec (N.of_nat (length x))) = false).
  { unfold leading_zero. destruct (print_dec (N.of_nat (length x))) as [|c [|c2 t]] eqn:E; try reflexivity.
    destruct (c =? 48) eqn:Ec; [|reflexivity].
    apply N.eqb_eq in Ec; subst c. exfalso. exact (print_dec_no_leading_zero _ _ _ E). }
  rewrite Hlz, parse_print_dec.
  assert (Hle : (N.of_nat (length x) <=? N.of_nat (length (x ++ rest))) = true).
  { apply N.leb_le. rewrite app_length. lia. }
  rewrite Hle, Nat2N.id.
  rewrite firstn_app, Nat.sub_diag, firstn_all, firstn_O, app_nil_r.
  rewrite skipn_app, Nat.sub_diag, skipn_all, skipn_O. reflexivity.
Qed.

Lemma bstr_head x rest : exists c t, bstr x ++ rest = c :: t /\ (c =? CH_e) = false.
Proof.
  unfold bstr. destruct (print_dec_head (N.of_nat (length x))) as [c [t [E Hc]]].
  rewrite E. exists c, (t ++ COLON :: x ++ rest). split.
  - rewrite <- app_assoc. reflexivity.
  - unfold is_dec_char in Hc. apply andb_prop in Hc. destruct Hc as [_ Hc]. apply N.leb_le in Hc.
    apply N.eqb_neq. unfold CH_e. lia.
Qed.

Lemma parse_items_enc : forall l fuel last,
  (length l < fuel)%nat -> chain last l ->
  parse_items fuel last (flat_map enc_item l ++ [CH_e]) = Some l.
Proof.
  induction l as [|[k v] l IH]; intros fuel last Hf Hc.
  - destruct fuel as [|f]; [cbn [length] in Hf; lia|].
    cbn [flat_map app parse_items]. rewrite N.eqb_refl. reflexivity.
  - destruct fuel as [|f]; [cbn [length] in Hf; lia|].
    cbn [flat_map chain fst] in *. destruct Hc as [Hk Hc].
    unfold enc_item at 1. cbn [fst snd]. rewrite <- !app_assoc.
    destruct (bstr_head k (bstr v ++ flat_map enc_item l ++ [CH_e])) as [c [t [E Hce]]].
    cbn [parse_items]. rewrite E, Hce, <- E.
    rewrite parse_bstr_bstr, Hk, parse_bstr_bstr.
    rewrite IH; [reflexivity|cbn [length] in Hf; lia|exact Hc].
Qed.

(* -------------------------------------------------------------- round trip *)

Theorem deserialize_serialize_sorted d :
  NoDup (map fst d) -> deserialize (serialize d) = Some (sort_kv d).
Proof.
  intros Hnd. unfold serialize, deserialize. rewrite N.eqb_refl.
  apply parse_items_enc; [|apply sort_kv_chain; exact Hnd].
  rewrite app_length. cbn [length].
  assert (H : forall l, (length l <= length (flat_map enc_item l))%nat).
  { induction l as [|kv l IHl]; cbn [flat_map length]; [lia|].
    rewrite app_length.
    assert (1 <= length (enc_item kv))%nat.
    { unfold enc_item, bstr. rewrite !app_length. cbn [length]. lia. }
    lia. }
  specialize (H (sort_kv d)). lia.
Qed.

(* the stored and re-read dict is the same finite map (Python dict equality):
   same entries, same lookup for every name *)
Theorem serialise_roundtrip d :
  NoDup (map fst d) ->
  exists d', deserialize (serialize d) = Some d'
             /\ Permutation d' d
             /\ (forall k, dict_get bytes_eqb d' k = dict_get bytes_eqb d k).
Proof.
  intros Hnd. exists (sort_kv d). split; [apply deserialize_serialize_sorted; exact Hnd|].
  split; [apply sort_kv_perm|].
  intros k. apply (get_perm bytes bytes bytes_eqb bytes_eqb_spec); [exact Hnd|apply sort_kv_perm].
Qed.

(* the empty tags file (branch initialisation) is the empty dict, and the empty dict is written as "de" *)
Lemma deserialize_empty_file : deserialize [] = Some [].
Proof. reflexivity. Qed.
Lemma serialize_empty : serialize [] = [CH_d; CH_e].
Proof. reflexivity. Qed.

(* ------------------------------------------------- bound destination (H) *)

(* InterTags.merge on a bound branch: the child and, unless ignore_master, the master each
   receive exactly reconcile(source, their own dict); the empty-source shortcut changes nothing *)
Theorem merge_inter_child src dst master ign ov sel :
  fst (fst (fst (merge_inter src dst master ign ov sel))) = res bytes bytes (reconcileB src dst ov sel).
Proof.
  unfold merge_inter, res. destruct src as [|kv src]; [reflexivity|].
  destruct (reconcileB (kv :: src) dst ov sel) as [[r1 u1] c1].
  destruct master as [m|]; [|reflexivity].
  destruct ign; [reflexivity|].
  destruct (reconcileB (kv :: src) m ov sel) as [[r2 u2] c2]. reflexivity.
Qed.

Theorem merge_inter_master src dst m ov sel :
  snd (fst (fst (merge_inter src dst (Some m) false ov sel))) = Some (res bytes bytes (reconcileB src m ov sel)).
Proof.
  unfold merge_inter, res. destruct src as [|kv src]; [reflexivity|].
  destruct (reconcileB (kv :: src) dst ov sel) as [[r1 u1] c1].
  destruct (reconcileB (kv :: src) m ov sel) as [[r2 u2] c2]. reflexivity.
Qed.

Theorem merge_inter_master_ignored src dst master ov sel :
  snd (fst (fst (merge_inter src dst master true ov sel))) = master.
Proof.
  unfold merge_inter. destruct src as [|kv src]; [reflexivity|].
  destruct (reconcileB (kv :: src) dst ov sel) as [[r1 u1] c1].
  destruct master as [m|]; reflexivity.
Qed.

(* --------------------------------------------- faithful store behaviour (known findings) *)

(* MemoryTags.merge_to (since b75814f): child and master each receive reconcile(source, own dict) *)
Theorem merge_memsrc_child src dst master ign ov sel :
  fst (fst (fst (merge_memsrc src dst master ign ov sel))) = res bytes bytes (reconcileB src dst ov sel).
Proof.
  unfold merge_memsrc, res. destruct (reconcileB src dst ov sel) as [[r1 u1] c1].
  destruct master as [m|]; [|reflexivity]. destruct ign; [reflexivity|].
  destruct (reconcileB src m ov sel) as [[r2 u2] c2]. reflexivity.
Qed.

Theorem merge_memsrc_master src dst m ov sel :
  snd (fst (fst (merge_memsrc src dst (Some m) false ov sel))) = Some (res bytes bytes (reconcileB src m ov sel)).
Proof.
  unfold merge_memsrc, res. destruct (reconcileB src dst ov sel) as [[r1 u1] c1].
  destruct (reconcileB src m ov sel) as [[r2 u2] c2]. reflexivity.
Qed.

Theorem merge_memsrc_master_ignored src dst master ov sel :
  snd (fst (fst (merge_memsrc src dst master true ov sel))) = master.
Proof.
  unfold merge_memsrc. destruct (reconcileB src dst ov sel) as [[r1 u1] c1].
  destruct master as [m|]; reflexivity.
Qed.

(* git destination: an entry whose revision is a commit is stored; otherwise the name keeps its old
   value (if it had one); nothing else appears *)
Theorem git_store_entries cs old d d' k v :
  stored (DGit cs) old d = Some d' ->
  (In (k, v) d' <->
   (In (k, v) d /\ git_keeps cs (k, v) = true)
   \/ (exists v', In (k, v') d /\ git_keeps cs (k, v') = false /\ dict_get bytes_eqb old k = Some v)).
Proof.
  cbn [stored]. intros H; inversion H; subst; clear H. unfold git_set. rewrite in_flat_map. split.
  - intros [[k' v'] [Hin Hs]]. unfold git_set_entry in Hs. cbn [fst] in Hs.
    destruct (git_keeps cs (k', v')) eqn:E.
    + destruct Hs as [Hs|[]]. inversion Hs; subst. left; split; assumption.
    + destruct (dict_get bytes_eqb old k') as [w|] eqn:G; [|contradiction].
      destruct Hs as [Hs|[]]. inversion Hs; subst. right. exists v'. repeat split; assumption.
  - intros [[Hin E]|[v' [Hin [E G]]]].
    + exists (k, v). split; [exact Hin|]. unfold git_set_entry. rewrite E. left; reflexivity.
    + exists (k, v'). split; [exact Hin|]. unfold git_set_entry. rewrite E. cbn [fst]. rewrite G. left; reflexivity.
Qed.

(* a name that the destination already had and that is in the dict handed over is never lost,
   whether or not its new revision can be stored *)
Theorem git_store_no_tag_lost cs old d d' k v w :
  stored (DGit cs) old d = Some d' -> In (k, v) d -> dict_get bytes_eqb old k = Some w ->
  exists x, In (k, x) d'.
Proof.
  intros H Hin G. destruct (git_keeps cs (k, v)) eqn:E.
  - exists v. apply (git_store_entries _ _ _ _ _ _ H). left; split; assumption.
  - exists w. apply (git_store_entries _ _ _ _ _ _ H). right. exists v. repeat split; assumption.
Qed.

Theorem git_store_guarded cs old d :
  forallb (git_keeps cs) d = true -> stored (DGit cs) old d = Some d.
Proof.
  cbn [stored]. intros H. f_equal. unfold git_set.
  induction d as [|kv d IH]; cbn [flat_map forallb] in *; [reflexivity|].
  apply andb_prop in H. destruct H as [H1 H2]. unfold git_set_entry at 1. rewrite H1, (IH H2). reflexivity.
Qed.
