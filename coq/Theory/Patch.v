(* Theory/Patch.v -- lemmas about Model/Patch.v (C39): slices, exact application, opcode chains,
   grouping, and the main theorem  apply a (mk_hunks a b ops n) = Ok b. *)
From Coq Require Import ZArith NArith Bool Arith Lia List.
From BV Require Import Lib.Bytes Model.Patch.
Import ListNotations.
Open Scope nat_scope.
Open Scope list_scope.

(* ------------------------------------------------------------------ equality tests *)
Lemma bytes_eqb_refl (x : bytes) : bytes_eqb x x = true.
Proof.
  unfold bytes_eqb. induction x as [|c x IH]; [reflexivity|].
  rewrite N.eqb_refl. exact IH.
Qed.

Lemma bytes_eqb_eq (x y : bytes) : bytes_eqb x y = true -> x = y.
Proof.
  unfold bytes_eqb. revert y. induction x as [|c x IH]; intros [|d y] H; try reflexivity; try discriminate.
  apply andb_true_iff in H as [H1 H2]. apply N.eqb_eq in H1. subst d. f_equal. apply IH. exact H2.
Qed.

Lemma lines_eqb_eq (x y : list bytes) : lines_eqb x y = true -> x = y.
Proof.
  revert y. induction x as [|c x IH]; intros [|d y] H; simpl in H; try reflexivity; try discriminate.
  apply andb_true_iff in H as [H1 H2]. apply bytes_eqb_eq in H1. subst d. f_equal. apply IH. exact H2.
Qed.

(* ------------------------------------------------------------------ firstn / skipn / slice *)
Section Slices.
Context {A : Type}.
Implicit Types l : list A.

Lemma skipn_add n m l : skipn (n + m) l = skipn m (skipn n l).
Proof. revert l. induction n as [|n IH]; intros [|x l]; simpl; auto. destruct m; reflexivity. Qed.

Lemma firstn_add n m l : firstn (n + m) l = firstn n l ++ firstn m (skipn n l).
Proof. revert l. induction n as [|n IH]; intros [|x l]; simpl; auto. - destruct m; reflexivity. - f_equal. apply IH. Qed.

Lemma skipn_firstn_add d k l : skipn d (firstn (d + k) l) = firstn k (skipn d l).
Proof. revert l. induction d as [|d IH]; intros [|x l]; simpl; auto. destruct k; reflexivity. Qed.

Lemma firstn_firstn_le k m l : k <= m -> firstn k (firstn m l) = firstn k l.
Proof.
  revert m l. induction k as [|k IH]; intros m l H; [reflexivity|].
  destruct m as [|m]; [lia|]. destruct l as [|x l]; [reflexivity|]. simpl. f_equal. apply IH. lia.
Qed.

Lemma slice_nil l i : slice l i i = [].
Proof. unfold slice. rewrite Nat.sub_diag. reflexivity. Qed.

Lemma slice_app l i j k : i <= j -> j <= k -> slice l i j ++ slice l j k = slice l i k.
Proof.
  intros H1 H2. unfold slice.
  replace (k - i) with ((j - i) + (k - j)) by lia.
  rewrite firstn_add. f_equal. f_equal.
  replace j with (i + (j - i)) at 1 by lia. apply skipn_add.
Qed.

Lemma skipn_slice l i j : i <= j -> skipn i l = slice l i j ++ skipn j l.
Proof.
  intros H. unfold slice.
  replace j with (i + (j - i)) at 2 by lia. rewrite skipn_add. symmetry. apply firstn_skipn.
Qed.

Lemma slice_length l i j : i <= j -> j <= length l -> length (slice l i j) = j - i.
Proof. intros H1 H2. unfold slice. rewrite firstn_length, skipn_length. lia. Qed.

(* a sub-slice is a function of the slice *)
Lemma slice_sub l i1 i2 d e : d <= e -> e <= i2 - i1 ->
  slice l (i1 + d) (i1 + e) = firstn (e - d) (skipn d (slice l i1 i2)).
Proof.
  intros H1 H2. unfold slice.
  replace (i1 + e - (i1 + d)) with (e - d) by lia.
  rewrite skipn_add.
  replace (i2 - i1) with (d + (i2 - i1 - d)) by lia.
  rewrite skipn_firstn_add. rewrite firstn_firstn_le by lia. reflexivity.
Qed.

Lemma firstn_skipn_slice l i k : firstn k (skipn i l) = slice l i (i + k).
Proof. unfold slice. replace (i + k - i) with k by lia. reflexivity. Qed.
End Slices.

Lemma eq_slices_sub (a b : list line) i1 i2 j1 j2 d e :
  slice a i1 i2 = slice b j1 j2 -> i2 - i1 = j2 - j1 -> d <= e -> e <= i2 - i1 ->
  slice a (i1 + d) (i1 + e) = slice b (j1 + d) (j1 + e).
Proof.
  intros H L H1 H2. rewrite (slice_sub a i1 i2) by lia. rewrite (slice_sub b j1 j2) by lia.
  rewrite H. reflexivity.
Qed.

(* ------------------------------------------------------------------ applying the lines of one hunk *)
Lemma apply_lines_app hl : forall rest ln,
  apply_lines hl (old_side hl ++ rest) ln = inr (new_side hl, rest, ln + length (old_side hl)).
Proof.
  induction hl as [|h hl IH]; intros rest ln; simpl.
  - f_equal. f_equal. lia.
  - destruct h as [c|c|c]; simpl.
    + rewrite bytes_eqb_refl. rewrite IH. f_equal. f_equal. lia.
    + rewrite IH. reflexivity.
    + rewrite bytes_eqb_refl. rewrite IH. f_equal. f_equal. lia.
Qed.

Lemma apply_lines_inv hl : forall r ln out rest ln',
  apply_lines hl r ln = inr (out, rest, ln') ->
  r = old_side hl ++ rest /\ out = new_side hl /\ ln' = ln + length (old_side hl).
Proof.
  induction hl as [|h hl IH]; intros r ln out rest ln' H; simpl in H.
  - inversion H; subst. simpl. repeat split; lia.
  - destruct h as [c|c|c].
    + destruct r as [|o r1]; [discriminate|].
      destruct (bytes_eqb o c) eqn:E; [|discriminate]. apply bytes_eqb_eq in E. subst o.
      destruct (apply_lines hl r1 (S ln)) as [e|[[out1 rest1] ln1]] eqn:E1; [discriminate|].
      inversion H; subst. apply IH in E1 as (-> & -> & ->). simpl. repeat split; lia.
    + destruct (apply_lines hl r ln) as [e|[[out1 rest1] ln1]] eqn:E1; [discriminate|].
      inversion H; subst. apply IH in E1 as (-> & -> & ->). simpl. repeat split; lia.
    + destruct r as [|o r1]; [discriminate|].
      destruct (bytes_eqb o c) eqn:E; [|discriminate]. apply bytes_eqb_eq in E. subst o.
      apply IH in H as (-> & -> & ->). simpl. repeat split; lia.
Qed.

(* the only error of the line loop is a conflict (a mismatching line, or the original text ran out) *)
Lemma apply_lines_err hl : forall r ln e,
  apply_lines hl r ln = inl e -> exists k, e = AConflict k.
Proof.
  induction hl as [|h hl IH]; intros r ln e H; simpl in H; [discriminate|].
  destruct h as [c|c|c].
  - destruct r as [|o r1]; [inversion H; eauto|].
    destruct (bytes_eqb o c); [|inversion H; eauto].
    destruct (apply_lines hl r1 (S ln)) as [e1|[[out1 rest1] ln1]] eqn:E1; [|discriminate].
    inversion H; subst. eapply IH; eauto.
  - destruct (apply_lines hl r ln) as [e1|[[out1 rest1] ln1]] eqn:E1; [|discriminate].
    inversion H; subst. eapply IH; eauto.
  - destruct r as [|o r1]; [inversion H; eauto|].
    destruct (bytes_eqb o c); [|inversion H; eauto]. eapply IH; eauto.
Qed.

(* ------------------------------------------------------------------ chains of opcodes *)
Section Chains.
Variables a b : list line.

(* a contiguous run of checked opcodes from (i,j) to (i',j') *)
Fixpoint chain (g : list opcode) (i j i' j' : nat) : Prop :=
  match g with
  | [] => i = i' /\ j = j'
  | o :: r => oi1 o = i /\ oj1 o = j /\ i <= oi2 o /\ oi2 o <= length a /\ j <= oj2 o /\ oj2 o <= length b
              /\ tag_ok a b o = true /\ chain r (oi2 o) (oj2 o) i' j'
  end.

Lemma chain_mono g : forall i j i' j', chain g i j i' j' -> i <= i' /\ j <= j'.
Proof.
  induction g as [|o r IH]; intros i j i' j' H; simpl in H.
  - lia.
  - destruct H as (? & ? & ? & ? & ? & ? & ? & H). apply IH in H. lia.
Qed.

Lemma chain_app g1 : forall g2 i j i1 j1 i2 j2,
  chain g1 i j i1 j1 -> chain g2 i1 j1 i2 j2 -> chain (g1 ++ g2) i j i2 j2.
Proof.
  induction g1 as [|o r IH]; intros g2 i j i1 j1 i2 j2 H1 H2; simpl in *.
  - destruct H1; subst. exact H2.
  - destruct H1 as (? & ? & ? & ? & ? & ? & ? & H1). repeat split; auto. eapply IH; eauto.
Qed.

Lemma valid_from_chain ops : forall i j,
  valid_from a b i j ops = true -> chain ops i j (length a) (length b).
Proof.
  induction ops as [|o r IH]; intros i j H; simpl in H.
  - apply andb_true_iff in H as [H1 H2]. apply Nat.eqb_eq in H1, H2. simpl. auto.
  - repeat (apply andb_true_iff in H as [H ?]).
    apply Nat.eqb_eq in H. repeat match goal with X : (_ =? _) = true |- _ => apply Nat.eqb_eq in X end.
    repeat match goal with X : (_ <=? _) = true |- _ => apply Nat.leb_le in X end.
    simpl. repeat split; auto.
Qed.

Lemma old_side_map_ctx (s : list line) : old_side (map Ctx s) = s.
Proof. unfold old_side, new_side. induction s as [|x s IH]; simpl; [reflexivity|]; try rewrite IH; reflexivity. Qed.
Lemma new_side_map_ctx (s : list line) : new_side (map Ctx s) = s.
Proof. unfold old_side, new_side. induction s as [|x s IH]; simpl; [reflexivity|]; try rewrite IH; reflexivity. Qed.
Lemma old_side_map_rem (s : list line) : old_side (map Rem s) = s.
Proof. unfold old_side, new_side. induction s as [|x s IH]; simpl; [reflexivity|]; try rewrite IH; reflexivity. Qed.
Lemma new_side_map_rem (s : list line) : new_side (map Rem s) = [].
Proof. unfold old_side, new_side. induction s as [|x s IH]; simpl; [reflexivity|]; try rewrite IH; reflexivity. Qed.
Lemma old_side_map_ins (s : list line) : old_side (map Ins s) = [].
Proof. unfold old_side, new_side. induction s as [|x s IH]; simpl; [reflexivity|]; try rewrite IH; reflexivity. Qed.
Lemma new_side_map_ins (s : list line) : new_side (map Ins s) = s.
Proof. unfold old_side, new_side. induction s as [|x s IH]; simpl; [reflexivity|]; try rewrite IH; reflexivity. Qed.
Lemma old_side_app x y : old_side (x ++ y) = old_side x ++ old_side y.
Proof. unfold old_side. apply flat_map_app. Qed.
Lemma new_side_app x y : new_side (x ++ y) = new_side x ++ new_side y.
Proof. unfold new_side. apply flat_map_app. Qed.

(* what one checked opcode contributes to the two sides of a hunk *)
Lemma op_sides o : tag_ok a b o = true ->
  old_side (op_hlines a b o) = slice a (oi1 o) (oi2 o) /\
  new_side (op_hlines a b o) = slice b (oj1 o) (oj2 o).
Proof.
  unfold tag_ok, op_hlines. destruct (otag o); intros H.
  - apply andb_true_iff in H as [H _]. apply lines_eqb_eq in H.
    rewrite old_side_map_ctx, new_side_map_ctx. auto.
  - rewrite old_side_app, new_side_app, old_side_map_rem, old_side_map_ins, new_side_map_rem, new_side_map_ins.
    rewrite app_nil_r. auto.
  - apply Nat.eqb_eq in H. rewrite old_side_map_rem, new_side_map_rem. rewrite H, slice_nil. auto.
  - apply Nat.eqb_eq in H. rewrite old_side_map_ins, new_side_map_ins. rewrite H, slice_nil. auto.
Qed.

(* the lines of a hunk built from a chain: its '-'/' ' lines are a[i:i'], its '+'/' ' lines b[j:j'] *)
Lemma chain_sides g : forall i j i' j', chain g i j i' j' ->
  old_side (flat_map (op_hlines a b) g) = slice a i i' /\
  new_side (flat_map (op_hlines a b) g) = slice b j j'.
Proof.
  induction g as [|o r IH]; intros i j i' j' H; simpl in H.
  - destruct H; subst. simpl. rewrite !slice_nil. auto.
  - destruct H as (Hi & Hj & ? & ? & ? & ? & Ht & H).
    pose proof (chain_mono _ _ _ _ _ H) as [M1 M2].
    apply IH in H as [Q1 Q2]. apply op_sides in Ht as [T1 T2].
    simpl. rewrite old_side_app, new_side_app, Q1, Q2, T1, T2, Hi, Hj.
    rewrite !slice_app by lia. auto.
Qed.

(* (i,j) .. (i1,j1) is an aligned stretch on which the two texts agree *)
Definition gap (i j i1 j1 : nat) : Prop :=
  i <= i1 /\ i1 <= length a /\ j <= j1 /\ j1 <= length b /\ i1 - i = j1 - j /\ slice a i i1 = slice b j j1.

Lemma gap_refl i j : i <= length a -> j <= length b -> gap i j i j.
Proof. intros. unfold gap. rewrite !slice_nil. repeat split; lia. Qed.

(* groups: each group is a non-empty chain; before each group and after the last the texts agree *)
Fixpoint gchain (gs : list (list opcode)) (p q : nat) : Prop :=
  match gs with
  | [] => skipn p a = skipn q b
  | g :: r => exists i0 j0 i' j', g <> [] /\ gap p q i0 j0 /\ chain g i0 j0 i' j' /\ gchain r i' j'
  end.

(* the relevant consequence of tag_ok for an 'equal' opcode *)
Lemma equal_ok o : is_equal o = true -> tag_ok a b o = true ->
  slice a (oi1 o) (oi2 o) = slice b (oj1 o) (oj2 o) /\ oi2 o - oi1 o = oj2 o - oj1 o.
Proof.
  unfold is_equal, tag_ok. destruct (otag o); try discriminate. intros _ H.
  apply andb_true_iff in H as [H1 H2]. apply lines_eqb_eq in H1. apply Nat.eqb_eq in H2. auto.
Qed.

Lemma equal_ok_mk i1 i2 j1 j2 :
  slice a i1 i2 = slice b j1 j2 -> i2 - i1 = j2 - j1 -> tag_ok a b (Op TEqual i1 i2 j1 j2) = true.
Proof.
  intros H L. unfold tag_ok. simpl. rewrite H, L, Nat.eqb_refl.
  rewrite andb_true_r. clear. induction (slice b j1 j2) as [|x l IH]; simpl; [reflexivity|].
  rewrite bytes_eqb_refl. exact IH.
Qed.

(* sub-block [i1+d, i1+e) of an equal block *)
Lemma equal_sub o d e : is_equal o = true -> tag_ok a b o = true -> oi1 o <= oi2 o -> oj1 o <= oj2 o ->
  d <= e -> e <= oi2 o - oi1 o ->
  slice a (oi1 o + d) (oi1 o + e) = slice b (oj1 o + d) (oj1 o + e).
Proof.
  intros E T H1 H2 H3 H4. destruct (equal_ok o E T) as [S L]. apply eq_slices_sub with (i2 := oi2 o) (j2 := oj2 o); auto.
Qed.

Lemma chain_bound g : forall i j i' j', chain g i j i' j' -> i <= length a -> j <= length b ->
  i' <= length a /\ j' <= length b.
Proof.
  induction g as [|o r IH]; intros i j i' j' H Ha Hb; simpl in H.
  - lia.
  - destruct H as (? & ? & ? & ? & ? & ? & ? & H). eapply IH; eauto.
Qed.

Lemma gap_skipn p q i0 j0 : gap p q i0 j0 -> skipn i0 a = skipn j0 b -> skipn p a = skipn q b.
Proof.
  intros (G1 & G2 & G3 & G4 & G5 & G6) T.
  rewrite (skipn_slice a p i0) by lia. rewrite (skipn_slice b q j0) by lia. rewrite G6, T. reflexivity.
Qed.

Lemma gchain_single g p q i0 j0 i j :
  g <> [] -> gap p q i0 j0 -> chain g i0 j0 i j -> skipn i a = skipn j b -> gchain [g] p q.
Proof. intros. simpl. exists i0, j0, i, j. auto. Qed.

(* ---- the loop of get_grouped_opcodes ---- *)
Lemma emit_group_gchain cur p q i0 j0 i j :
  gap p q i0 j0 -> chain (rev cur) i0 j0 i j -> skipn i a = skipn j b -> gchain (emit_group cur) p q.
Proof.
  intros G C T. destruct cur as [|o [|o2 r]].
  - simpl in *. destruct C; subst. eapply gap_skipn; eauto.
  - simpl in C. destruct C as (Hi & Hj & H1 & H2 & H3 & H4 & Ht & [<- <-]).
    simpl. destruct (is_equal o) eqn:E.
    + simpl. destruct (equal_ok o E Ht) as [S L].
      eapply gap_skipn; eauto.
      rewrite (skipn_slice a i0 (oi2 o)) by lia. rewrite (skipn_slice b j0 (oj2 o)) by lia.
      rewrite <- Hi, <- Hj, S, T. reflexivity.
    + eapply gchain_single; eauto; [discriminate|]. simpl. repeat split; auto.
  - unfold emit_group. eapply gchain_single; eauto.
    simpl. intros E. apply app_eq_nil in E as [_ E]. discriminate.
Qed.

Lemma group_loop_gchain n codes : forall cur p q i0 j0 i j i' j',
  gap p q i0 j0 -> chain (rev cur) i0 j0 i j -> chain codes i j i' j' -> skipn i' a = skipn j' b ->
  gchain (group_loop n codes cur) p q.
Proof.
  induction codes as [|o r IH]; intros cur p q i0 j0 i j i' j' G C K T.
  - simpl in K. destruct K; subst. simpl. eapply emit_group_gchain; eauto.
  - simpl in K. destruct K as (Hi & Hj & H1 & H2 & H3 & H4 & Ht & K).
    cbn [group_loop].
    destruct (is_equal o && (n + n <? oi2 o - oi1 o)) eqn:E.
    + apply andb_true_iff in E as [E1 E2]. apply Nat.ltb_lt in E2.
      destruct (equal_ok o E1 Ht) as [S L].
      rewrite (Nat.min_r (oi2 o)) by lia. rewrite (Nat.min_r (oj2 o)) by lia.
      rewrite (Nat.max_r (oi1 o)) by lia. rewrite (Nat.max_r (oj1 o)) by lia.
      assert (S1 : slice a (oi1 o + 0) (oi1 o + n) = slice b (oj1 o + 0) (oj1 o + n))
        by (apply equal_sub; auto; lia).
      rewrite !Nat.add_0_r in S1.
      assert (S2 : slice a (oi1 o + n) (oi1 o + (oi2 o - oi1 o - n)) = slice b (oj1 o + n) (oj1 o + (oi2 o - oi1 o - n)))
        by (apply equal_sub; auto; lia).
      replace (oi1 o + (oi2 o - oi1 o - n)) with (oi2 o - n) in S2 by lia.
      replace (oj1 o + (oi2 o - oi1 o - n)) with (oj2 o - n) in S2 by lia.
      assert (S3 : slice a (oi1 o + (oi2 o - oi1 o - n)) (oi1 o + (oi2 o - oi1 o))
                   = slice b (oj1 o + (oi2 o - oi1 o - n)) (oj1 o + (oi2 o - oi1 o)))
        by (apply equal_sub; auto; lia).
      replace (oi1 o + (oi2 o - oi1 o - n)) with (oi2 o - n) in S3 by lia.
      replace (oj1 o + (oi2 o - oi1 o - n)) with (oj2 o - n) in S3 by lia.
      replace (oi1 o + (oi2 o - oi1 o)) with (oi2 o) in S3 by lia.
      replace (oj1 o + (oi2 o - oi1 o)) with (oj2 o) in S3 by lia.
      cbn [gchain]. exists i0, j0, (oi1 o + n), (oj1 o + n). split; [|split; [exact G|split]].
      * simpl. intros X. apply app_eq_nil in X as [_ X]. discriminate.
      * simpl rev. eapply chain_app; [exact C|].
        simpl. repeat split; try lia. apply equal_ok_mk; [exact S1|lia].
      * eapply (IH [Op TEqual (oi2 o - n) (oi2 o) (oj2 o - n) (oj2 o)] _ _ (oi2 o - n) (oj2 o - n)); eauto.
        -- unfold gap. repeat split; try lia. exact S2.
        -- simpl. repeat split; try lia. apply equal_ok_mk; [exact S3|lia].
    + eapply (IH (o :: cur)); eauto.
      simpl rev. eapply chain_app; [exact C|]. simpl. repeat split; auto.
Qed.

Lemma fix_first_chain n codes i j i' j' :
  chain codes i j i' j' -> i <= length a -> j <= length b ->
  exists i1 j1, gap i j i1 j1 /\ chain (fix_first n codes) i1 j1 i' j'.
Proof.
  intros C Ha Hb. destruct codes as [|o r].
  - exists i, j. split; [apply gap_refl; auto|exact C].
  - simpl in C. destruct C as (Hi & Hj & H1 & H2 & H3 & H4 & Ht & K).
    unfold fix_first. destruct (is_equal o) eqn:E.
    + destruct (equal_ok o E Ht) as [S L].
      set (d := Nat.max (oi1 o) (oi2 o - n) - oi1 o).
      assert (D1 : Nat.max (oi1 o) (oi2 o - n) = oi1 o + d) by lia.
      assert (D2 : Nat.max (oj1 o) (oj2 o - n) = oj1 o + d) by lia.
      rewrite D1, D2.
      assert (S1 : slice a (oi1 o + 0) (oi1 o + d) = slice b (oj1 o + 0) (oj1 o + d))
        by (apply equal_sub; auto; lia).
      rewrite !Nat.add_0_r in S1.
      assert (S2 : slice a (oi1 o + d) (oi1 o + (oi2 o - oi1 o)) = slice b (oj1 o + d) (oj1 o + (oi2 o - oi1 o)))
        by (apply equal_sub; auto; lia).
      replace (oi1 o + (oi2 o - oi1 o)) with (oi2 o) in S2 by lia.
      replace (oj1 o + (oi2 o - oi1 o)) with (oj2 o) in S2 by lia.
      exists (oi1 o + d), (oj1 o + d). split.
      * unfold gap. rewrite <- Hi, <- Hj. repeat split; try lia. exact S1.
      * simpl. repeat split; try lia; auto. apply equal_ok_mk; [exact S2|lia].
    + exists i, j. split; [apply gap_refl; auto|]. simpl. repeat split; auto.
Qed.

Lemma fix_last_cons n o o2 r : fix_last n (o :: o2 :: r) = o :: fix_last n (o2 :: r).
Proof. reflexivity. Qed.

Lemma fix_last_chain n codes : forall i j i' j',
  chain codes i j i' j' -> skipn i' a = skipn j' b ->
  exists i2 j2, chain (fix_last n codes) i j i2 j2 /\ skipn i2 a = skipn j2 b.
Proof.
  induction codes as [|o r IH]; intros i j i' j' C T.
  - exists i', j'. auto.
  - destruct r as [|o2 r].
    + simpl in C. destruct C as (Hi & Hj & H1 & H2 & H3 & H4 & Ht & [<- <-]).
      cbn [fix_last]. destruct (is_equal o) eqn:E.
      * destruct (equal_ok o E Ht) as [S L].
        set (d := Nat.min (oi2 o) (oi1 o + n) - oi1 o).
        assert (D1 : Nat.min (oi2 o) (oi1 o + n) = oi1 o + d) by lia.
        assert (D2 : Nat.min (oj2 o) (oj1 o + n) = oj1 o + d) by lia.
        rewrite D1, D2.
        assert (S1 : slice a (oi1 o + 0) (oi1 o + d) = slice b (oj1 o + 0) (oj1 o + d))
          by (apply equal_sub; auto; lia).
        rewrite !Nat.add_0_r in S1.
        assert (S2 : slice a (oi1 o + d) (oi1 o + (oi2 o - oi1 o)) = slice b (oj1 o + d) (oj1 o + (oi2 o - oi1 o)))
          by (apply equal_sub; auto; lia).
        replace (oi1 o + (oi2 o - oi1 o)) with (oi2 o) in S2 by lia.
        replace (oj1 o + (oi2 o - oi1 o)) with (oj2 o) in S2 by lia.
        exists (oi1 o + d), (oj1 o + d). split.
        -- simpl. repeat split; try lia. apply equal_ok_mk; [exact S1|lia].
        -- rewrite (skipn_slice a (oi1 o + d) (oi2 o)) by lia.
           rewrite (skipn_slice b (oj1 o + d) (oj2 o)) by lia. rewrite S2, T. reflexivity.
      * exists (oi2 o), (oj2 o). split; [|exact T]. simpl. repeat split; auto.
    + rewrite fix_last_cons.
      change (chain (o :: o2 :: r) i j i' j') with
        (oi1 o = i /\ oj1 o = j /\ i <= oi2 o /\ oi2 o <= length a /\ j <= oj2 o /\ oj2 o <= length b
         /\ tag_ok a b o = true /\ chain (o2 :: r) (oi2 o) (oj2 o) i' j') in C.
      destruct C as (Hi & Hj & H1 & H2 & H3 & H4 & Ht & K).
      destruct (IH _ _ _ _ K T) as (i2 & j2 & K2 & T2).
      exists i2, j2. split; [|exact T2].
      change (chain (o :: fix_last n (o2 :: r)) i j i2 j2) with
        (oi1 o = i /\ oj1 o = j /\ i <= oi2 o /\ oi2 o <= length a /\ j <= oj2 o /\ oj2 o <= length b
         /\ tag_ok a b o = true /\ chain (fix_last n (o2 :: r)) (oi2 o) (oj2 o) i2 j2).
      repeat split; auto.
Qed.

Lemma group_opcodes_nil n : group_opcodes n [] = [].
Proof.
  unfold group_opcodes. destruct n as [|n]; [reflexivity|].
  cbn. destruct n; reflexivity.
Qed.

(* the grouping of checked opcodes yields checked groups, for every context size *)
Lemma groups_valid n ops : valid_opcodes a b ops = true -> gchain (group_opcodes n ops) 0 0.
Proof.
  unfold valid_opcodes. intros V. destruct ops as [|o r].
  - rewrite group_opcodes_nil. cbn [valid_from] in V. apply andb_true_iff in V as [V1 V2].
    apply Nat.eqb_eq in V1, V2. symmetry in V1, V2. apply length_zero_iff_nil in V1, V2.
    simpl. rewrite V1, V2. reflexivity.
  - apply valid_from_chain in V.
    destruct (fix_first_chain n _ _ _ _ _ V) as (i1 & j1 & G & C1); try lia.
    assert (T : skipn (length a) a = skipn (length b) b) by (rewrite !skipn_all; reflexivity).
    destruct (fix_last_chain n _ _ _ _ _ C1 T) as (i2 & j2 & C2 & T2).
    unfold group_opcodes. eapply (group_loop_gchain n _ [] 0 0 i1 j1 i1 j1); eauto.
    simpl. auto.
Qed.

(* ---- applying the hunks of checked groups ---- *)
Lemma apply_hunks_gchain gs : forall p q, gchain gs p q -> p <= length a -> q <= length b ->
  exists out rest ln, apply_hunks (map (group_hunk a b) gs) (skipn p a) (S p) = inr (out, rest, ln)
                      /\ out ++ rest = skipn q b.
Proof.
  induction gs as [|g r IH]; intros p q H Hp Hq.
  - simpl in H. simpl. exists [], (skipn p a), (S p). split; [reflexivity|]. simpl. exact H.
  - simpl in H. destruct H as (i0 & j0 & i' & j' & Hne & G & C & R).
    destruct G as (G1 & G2 & G3 & G4 & G5 & G6).
    pose proof (chain_mono _ _ _ _ _ C) as [M1 M2].
    destruct (chain_bound _ _ _ _ _ C) as [B1 B2]; try lia.
    destruct (chain_sides _ _ _ _ _ C) as [O N].
    assert (F : oi1 (first_op g) = i0).
    { destruct g as [|o g']; [congruence|]. simpl in C. unfold first_op. simpl. tauto. }
    destruct (IH i' j' R B1 B2) as (out2 & rest2 & ln2 & A2 & E2).
    assert (OP : orig_pos (group_hunk a b g) = S i0) by (unfold group_hunk; cbn [orig_pos]; rewrite F; reflexivity).
    assert (HL : hlines (group_hunk a b g) = flat_map (op_hlines a b) g) by reflexivity.
    cbn [map apply_hunks]. rewrite OP, HL.
    replace (S i0 - S p) with (i0 - p) by lia.
    assert (L : length (skipn p a) <? i0 - p = false).
    { apply Nat.ltb_ge. rewrite skipn_length. lia. }
    rewrite L.
    assert (K : skipn (i0 - p) (skipn p a) = slice a i0 i' ++ skipn i' a).
    { rewrite <- skipn_add. replace (p + (i0 - p)) with i0 by lia. apply skipn_slice. lia. }
    rewrite K, <- O, apply_lines_app, O.
    rewrite slice_length by lia.
    replace (S p + (i0 - p) + (i' - i0)) with (S i') by lia.
    rewrite A2. eexists _, _, _. split; [reflexivity|].
    rewrite N. change (firstn (i0 - p) (skipn p a)) with (slice a p i0). rewrite G6.
    rewrite <- !app_assoc. rewrite E2.
    rewrite <- (skipn_slice b j0 j') by lia. rewrite <- (skipn_slice b q j0) by lia. reflexivity.
Qed.

End Chains.

Lemma apply_hunks_fix_hdr a b h r rest :
  apply_hunks (fix_hdr a b h :: r) rest 1 = apply_hunks (h :: r) rest 1.
Proof.
  unfold fix_hdr. destruct a as [|x a'].
  - destruct (Nat.eqb (orig_pos h) 1 && Nat.eqb (orig_range h) 0) eqn:E; [|reflexivity].
    apply andb_true_iff in E as [E _]. apply Nat.eqb_eq in E.
    cbn [apply_hunks orig_pos hlines]. rewrite E. reflexivity.
  - destruct b as [|y b']; [|reflexivity].
    destruct (Nat.eqb (mod_pos h) 1 && Nat.eqb (mod_range h) 0); reflexivity.
Qed.

(* MAIN: for every old text, new text, context size and every opcode list the checker accepts,
   applying the hunks of breezy's diff to the old text gives exactly the new text *)
Theorem apply_generated a b ops n :
  valid_opcodes a b ops = true -> apply a (mk_hunks a b ops n) = inr b.
Proof.
  intros V. pose proof (groups_valid a b n ops V) as G.
  destruct (apply_hunks_gchain a b _ 0 0 G) as (out & rest & ln & A & E); try lia.
  simpl skipn in A, E. unfold apply, mk_hunks.
  destruct (map (group_hunk a b) (group_opcodes n ops)) as [|h r] eqn:M.
  - rewrite A, E. reflexivity.
  - rewrite apply_hunks_fix_hdr, A, E. reflexivity.
Qed.
