(* Theory/BranchUpdate.v -- proofs about Model/BranchUpdate.v (C21).
   Everything is for an arbitrary well-formed graph g (any size, any shape,
   ghosts allowed). *)
From Coq Require Import List Arith Bool Lia.
From BV Require Import Lib.Dag Theory.DagFacts Model.BranchUpdate.
Import ListNotations.

Section BranchUpdate.
Variable g : dag.
Hypothesis W : wf_dag g = true.

(* ---- the classification ------------------------------------------------- *)

Lemma In_heads2 a b x : a <> b ->
  (In x (heads g [a; b]) <->
   (x = a /\ is_ancestor g a b = false) \/ (x = b /\ is_ancestor g b a = false)).
Proof.
  intros Hab. rewrite heads_spec. split.
  - intros [Hin H]. destruct Hin as [<-|[<-|[]]].
    + left. split; [reflexivity|]. apply H; [right; left; reflexivity | congruence].
    + right. split; [reflexivity|]. apply H; [left; reflexivity | exact Hab].
  - intros [[-> H]|[-> H]].
    + split; [left; reflexivity|]. intros k' [<-|[<-|[]]] Hne; [congruence | exact H].
    + split; [right; left; reflexivity|]. intros k' [<-|[<-|[]]] Hne; [exact H | congruence].
Qed.

Lemma heads_same a : set_eqb (heads g [a; a]) [a] = true.
Proof.
  apply set_eqb_spec. intros x. rewrite heads_spec. split.
  - intros [[<-|[<-|[]]] _]; left; reflexivity.
  - intros [<-|[]]. split; [left; reflexivity|].
    intros k' [<-|[<-|[]]] Hne; congruence.
Qed.

(* _revision_relations in closed form *)
Lemma relations_closed a b :
  revision_relations g a (Some b) =
  if is_ancestor g a b then BDescendsFromA
  else if is_ancestor g b a then ADescendsFromB
  else RelDiverged.
Proof.
  unfold revision_relations, relation_of_heads.
  destruct (Nat.eq_dec a b) as [->|E].
  - rewrite heads_same, (is_ancestor_refl g b W). reflexivity.
  - destruct (is_ancestor g a b) eqn:Eab.
    + assert (Eba : is_ancestor g b a = false).
      { destruct (is_ancestor g b a) eqn:Eba; [|reflexivity].
        exfalso. apply E. apply (is_ancestor_antisym g a b W Eab Eba). }
      assert (H : set_eqb (heads g [a; b]) [b] = true).
      { apply set_eqb_spec. intros x. rewrite (In_heads2 a b x E), Eab, Eba. split.
        - intros [[_ X]|[-> _]]; [discriminate | left; reflexivity].
        - intros [<-|[]]. right. split; reflexivity. }
      rewrite H. reflexivity.
    + assert (Ha : In a (heads g [a; b])) by (apply In_heads2; [exact E | left; split; [reflexivity | exact Eab]]).
      assert (H1 : set_eqb (heads g [a; b]) [b] = false).
      { apply not_true_is_false. intros X. rewrite set_eqb_spec in X.
        apply X in Ha. destruct Ha as [Ha|[]]. congruence. }
      rewrite H1. destruct (is_ancestor g b a) eqn:Eba.
      * assert (H2 : set_eqb (heads g [a; b]) [a; b] = false).
        { apply not_true_is_false. intros X. rewrite set_eqb_spec in X.
          assert (Hb : In b (heads g [a; b])) by (apply X; right; left; reflexivity).
          apply In_heads2 in Hb; [|exact E].
          destruct Hb as [[Hb _]|[_ Hb]]; congruence. }
        assert (H3 : set_eqb (heads g [a; b]) [a] = true).
        { apply set_eqb_spec. intros x. rewrite (In_heads2 a b x E), Eab, Eba. split.
          - intros [[-> _]|[_ X]]; [left; reflexivity | discriminate].
          - intros [<-|[]]. left. split; reflexivity. }
        rewrite H2, H3. reflexivity.
      * assert (H2 : set_eqb (heads g [a; b]) [a; b] = true).
        { apply set_eqb_spec. intros x. rewrite (In_heads2 a b x E), Eab, Eba. split.
          - intros [[-> _]|[-> _]]; [left; reflexivity | right; left; reflexivity].
          - intros [<-|[<-|[]]]; [left | right]; split; reflexivity. }
        rewrite H2. reflexivity.
Qed.

Lemma check_closed s t :
  check_descendant g s (Some t) =
  if is_ancestor g s t then Ok true
  else if is_ancestor g t s then Ok false
  else Err DivergedBranches.
Proof.
  unfold check_descendant. rewrite relations_closed.
  destruct (is_ancestor g s t); [reflexivity|].
  destruct (is_ancestor g t s); reflexivity.
Qed.

(* _update_revisions in closed form *)
Lemma update_shape tgt ao src stop ow s :
  eff_stop src stop = Some s ->
  update_revisions g tgt ao src stop ow =
  if ow then proceed g tgt ao src stop s
  else match tip tgt with
       | None => proceed g tgt ao src stop s
       | Some t => if is_ancestor g s t then Ok tgt
                   else if is_ancestor g t s then proceed g tgt ao src stop s
                   else Err DivergedBranches
       end.
Proof.
  intros Hs. unfold update_revisions. rewrite Hs.
  destruct ow; [reflexivity|].
  destruct (tip tgt) as [t|]; [|reflexivity].
  rewrite check_closed.
  destruct (is_ancestor g s t); [reflexivity|].
  destruct (is_ancestor g t s); reflexivity.
Qed.

(* ---- revno computation --------------------------------------------------- *)

Definition known_ok (known : list (revid * nat)) : Prop :=
  forall r n, lookup r known = Some n -> distance_to_null g r = Some n.

Lemma distance_known_fuel_ok known : known_ok known -> forall f r,
  enough_fuel g f r -> distance_known_fuel g known f r = distance_fuel g f r.
Proof.
  intros K. induction f as [|f IH]; intros r H.
  - unfold enough_fuel in H. lia.
  - cbn [distance_known_fuel]. destruct (lookup r known) as [n|] eqn:L.
    + apply K in L. unfold distance_to_null in L. rewrite <- L.
      apply (distance_fuel_enough g _ _ r W); [apply enough_fuel_top | exact H].
    + cbn [distance_fuel]. destruct (present g r); [|reflexivity].
      destruct (parents g r) as [|p ps] eqn:E; [reflexivity|].
      rewrite IH; [reflexivity|].
      apply (enough_fuel_parent g f r p W H). rewrite E. left; reflexivity.
Qed.

Lemma distance_known_ok known r : known_ok known -> distance_known g known r = distance_to_null g r.
Proof.
  intros K. unfold distance_known, distance_to_null.
  apply (distance_known_fuel_ok known K). apply enough_fuel_top.
Qed.

Lemma known_of_ok src tgt : consistent g src -> consistent g tgt ->
  known_ok (known_of src ++ known_of tgt).
Proof.
  intros Cs Ct r n. unfold known_of, consistent, distance_opt in *.
  destruct (tip src) as [ts|]; destruct (tip tgt) as [tt|]; cbn [app lookup].
  - destruct (ts =? r) eqn:E1.
    + apply Nat.eqb_eq in E1. subst r. intros H; injection H as <-. exact Cs.
    + destruct (tt =? r) eqn:E2; [|discriminate].
      apply Nat.eqb_eq in E2. subst r. intros H; injection H as <-. exact Ct.
  - destruct (ts =? r) eqn:E1; [|discriminate].
    apply Nat.eqb_eq in E1. subst r. intros H; injection H as <-. exact Cs.
  - destruct (tt =? r) eqn:E2; [|discriminate].
    apply Nat.eqb_eq in E2. subst r. intros H; injection H as <-. exact Ct.
  - discriminate.
Qed.

Lemma stop_revno_eq tgt src stop s : consistent g src -> consistent g tgt ->
  eff_stop src stop = Some s -> stop_revno g tgt src stop s = distance_to_null g s.
Proof.
  intros Cs Ct Hs. unfold stop_revno. destruct stop as [s'|].
  - cbn in Hs. injection Hs as ->. apply distance_known_ok. apply known_of_ok; assumption.
  - cbn in Hs. unfold consistent in Cs. rewrite Hs in Cs. cbn [distance_opt] in Cs. symmetry. exact Cs.
Qed.

Lemma proceed_consistent tgt ao src stop s : consistent g src -> consistent g tgt ->
  eff_stop src stop = Some s ->
  proceed g tgt ao src stop s =
  match distance_to_null g s with
  | None => Err GhostRevisionsHaveNoRevno
  | Some n => set_last_revision_info g tgt ao n s
  end.
Proof. intros Cs Ct Hs. unfold proceed. rewrite (stop_revno_eq tgt src stop s Cs Ct Hs). reflexivity. Qed.

(* ---- append-only check --------------------------------------------------- *)

Lemma history_walk_ok l : forall lh, history_walk g l lh = Ok tt -> In l lh.
Proof.
  induction lh as [|x lh IH]; cbn [history_walk]; intros H; [discriminate|].
  destruct (ghost g x); [discriminate|].
  destruct (x =? l) eqn:E; [apply Nat.eqb_eq in E; left; exact E | right; apply IH; exact H].
Qed.

Lemma history_walk_complete l : forall lh, forallb (present g) lh = true -> In l lh ->
  history_walk g l lh = Ok tt.
Proof.
  induction lh as [|x lh IH]; cbn [history_walk forallb]; intros P H; [contradiction|].
  apply andb_true_iff in P as [P1 P2]. unfold ghost. rewrite P1. cbn [negb].
  destruct (x =? l) eqn:E; [reflexivity|].
  destruct H as [H|H]; [subst x; rewrite Nat.eqb_refl in E; discriminate | apply IH; assumption].
Qed.

Lemma set_info_ok tgt ao n s b' : set_last_revision_info g tgt ao n s = Ok b' ->
  b' = mkB (Some s) n /\
  (ao = true -> forall t, tip tgt = Some t -> In t (lefthand g s)).
Proof.
  unfold set_last_revision_info. destruct ao.
  - destruct (history_check g (tip tgt) s) as [u|e] eqn:H; [|discriminate].
    intros X; injection X as <-. split; [reflexivity|]. intros _ t Ht.
    rewrite Ht in H. cbn [history_check] in H. destruct u. apply (history_walk_ok t _ H).
  - intros X; injection X as <-. split; [reflexivity | discriminate].
Qed.

Lemma proceed_ok tgt ao src stop s b' : proceed g tgt ao src stop s = Ok b' ->
  tip b' = Some s /\ stop_revno g tgt src stop s = Some (revno b') /\
  (ao = true -> forall t, tip tgt = Some t -> In t (lefthand g s)).
Proof.
  unfold proceed. destruct (stop_revno g tgt src stop s) as [n|]; [|discriminate].
  intros H. apply set_info_ok in H as [-> H]. cbn. split; [reflexivity | split; [reflexivity | exact H]].
Qed.

(* ---- the property ------------------------------------------------------- *)

(* the requested revision descends from the tip: the tip moves there and the
   revno is the length of its left-hand history *)
Theorem descendant_moves tgt ao src stop t s :
  consistent g src -> consistent g tgt ->
  tip tgt = Some t -> eff_stop src stop = Some s ->
  is_ancestor g t s = true -> t <> s ->
  lefthand_present g s = true ->
  (ao = true -> In t (lefthand g s)) ->
  update_revisions g tgt ao src stop false = Ok (mkB (Some s) (length (lefthand g s))).
Proof.
  intros Cs Ct Ht Hs Hanc Hne Hp Hao.
  rewrite (update_shape tgt ao src stop false s Hs). rewrite Ht.
  assert (Hst : is_ancestor g s t = false).
  { destruct (is_ancestor g s t) eqn:E; [|reflexivity].
    exfalso. apply Hne. apply (is_ancestor_antisym g t s W Hanc E). }
  rewrite Hst, Hanc. rewrite (proceed_consistent tgt ao src stop s Cs Ct Hs).
  rewrite (distance_spec g s W), Hp.
  unfold set_last_revision_info. destruct ao; [|reflexivity].
  rewrite Ht. cbn [history_check].
  rewrite (history_walk_complete t (lefthand g s) Hp (Hao eq_refl)). reflexivity.
Qed.

(* an empty target: everything descends from null: *)
Theorem empty_target_moves tgt ao src stop s :
  consistent g src -> consistent g tgt ->
  tip tgt = None -> eff_stop src stop = Some s ->
  lefthand_present g s = true ->
  update_revisions g tgt ao src stop false = Ok (mkB (Some s) (length (lefthand g s))).
Proof.
  intros Cs Ct Ht Hs Hp.
  rewrite (update_shape tgt ao src stop false s Hs). rewrite Ht.
  rewrite (proceed_consistent tgt ao src stop s Cs Ct Hs).
  rewrite (distance_spec g s W), Hp.
  unfold set_last_revision_info. rewrite Ht. destruct ao; reflexivity.
Qed.

(* the target already contains the requested revision: nothing changes *)
Theorem contained_unchanged tgt ao src stop t s :
  tip tgt = Some t -> eff_stop src stop = Some s ->
  is_ancestor g s t = true ->
  update_revisions g tgt ao src stop false = Ok tgt.
Proof.
  intros Ht Hs Hanc. rewrite (update_shape tgt ao src stop false s Hs), Ht, Hanc. reflexivity.
Qed.

(* neither contains the other: DivergedBranches (and, the result being an
   error, no new branch state) *)
Theorem diverged_fails tgt ao src stop t s :
  tip tgt = Some t -> eff_stop src stop = Some s ->
  is_ancestor g s t = false -> is_ancestor g t s = false ->
  update_revisions g tgt ao src stop false = Err DivergedBranches.
Proof.
  intros Ht Hs H1 H2. rewrite (update_shape tgt ao src stop false s Hs), Ht, H1, H2. reflexivity.
Qed.

(* without overwrite the old tip is never dropped: it is an ancestor of (or
   equal to) the new tip, whatever the source, stop revision and settings *)
Theorem no_silent_drop tgt ao src stop t b' :
  tip tgt = Some t ->
  update_revisions g tgt ao src stop false = Ok b' ->
  exists t', tip b' = Some t' /\ is_ancestor g t t' = true.
Proof.
  intros Ht H. destruct (eff_stop src stop) as [s|] eqn:Hs.
  - rewrite (update_shape tgt ao src stop false s Hs), Ht in H.
    destruct (is_ancestor g s t) eqn:E1.
    + injection H as <-. exists t. split; [exact Ht | apply (is_ancestor_refl g t W)].
    + destruct (is_ancestor g t s) eqn:E2; [|discriminate].
      apply proceed_ok in H as [H _]. exists s. split; assumption.
  - unfold update_revisions in H. rewrite Hs in H. injection H as <-.
    exists t. split; [exact Ht | apply (is_ancestor_refl g t W)].
Qed.

(* invariant: revno = length of the tip's left-hand history, for every
   successful update (with or without overwrite / append-only / stop) *)
Theorem revno_is_lefthand_length tgt ao src stop ow b' :
  consistent g src -> consistent g tgt ->
  update_revisions g tgt ao src stop ow = Ok b' ->
  consistent g b' /\
  (forall t', tip b' = Some t' -> revno b' = length (lefthand g t') /\ lefthand_present g t' = true).
Proof.
  intros Cs Ct H.
  assert (C' : consistent g b').
  { destruct (eff_stop src stop) as [s|] eqn:Hs.
    - assert (P : proceed g tgt ao src stop s = Ok b' -> consistent g b').
      { intros X. apply proceed_ok in X as [X1 [X2 _]].
        rewrite (stop_revno_eq tgt src stop s Cs Ct Hs) in X2.
        unfold consistent. rewrite X1. exact X2. }
      rewrite (update_shape tgt ao src stop ow s Hs) in H.
      destruct ow; [apply P; exact H|].
      destruct (tip tgt) as [t|]; [|apply P; exact H].
      destruct (is_ancestor g s t); [injection H as <-; exact Ct|].
      destruct (is_ancestor g t s); [apply P; exact H | discriminate].
    - unfold update_revisions in H. rewrite Hs in H. injection H as <-. exact Ct. }
  split; [exact C'|]. intros t' Ht'. unfold consistent in C'. rewrite Ht' in C'. cbn [distance_opt] in C'.
  apply (distance_length g t' _ W) in C'. destruct C' as [C1 C2]. split; [symmetry; exact C1 | exact C2].
Qed.

(* append-only: no operation (overwrite included) moves the tip to a revision
   whose left-hand history lacks the previous tip *)
Theorem append_only_keeps_tip tgt src stop ow t b' :
  tip tgt = Some t ->
  update_revisions g tgt true src stop ow = Ok b' ->
  exists t', tip b' = Some t' /\ In t (lefthand g t').
Proof.
  intros Ht H.
  assert (Same : b' = tgt -> exists t', tip b' = Some t' /\ In t (lefthand g t')).
  { intros ->. exists t. split; [exact Ht | apply In_lefthand_self]. }
  destruct (eff_stop src stop) as [s|] eqn:Hs.
  - assert (P : proceed g tgt true src stop s = Ok b' ->
                exists t', tip b' = Some t' /\ In t (lefthand g t')).
    { intros X. apply proceed_ok in X as [X1 [_ X3]]. exists s. split; [exact X1|].
      apply (X3 eq_refl t Ht). }
    rewrite (update_shape tgt true src stop ow s Hs), Ht in H.
    destruct ow; [apply P; exact H|].
    destruct (is_ancestor g s t); [apply Same; injection H as <-; reflexivity|].
    destruct (is_ancestor g t s); [apply P; exact H | discriminate].
  - unfold update_revisions in H. rewrite Hs in H. apply Same. injection H as <-. reflexivity.
Qed.

(* and the violation is reported, not ignored *)
Theorem append_only_violation tgt src stop t s :
  consistent g src -> consistent g tgt ->
  tip tgt = Some t -> eff_stop src stop = Some s ->
  lefthand_present g s = true -> ~ In t (lefthand g s) ->
  update_revisions g tgt true src stop true = Err AppendRevisionsOnlyViolation.
Proof.
  intros Cs Ct Ht Hs Hp Hn.
  rewrite (update_shape tgt true src stop true s Hs).
  rewrite (proceed_consistent tgt true src stop s Cs Ct Hs).
  rewrite (distance_spec g s W), Hp.
  unfold set_last_revision_info. rewrite Ht. cbn [history_check].
  assert (X : forall lh, forallb (present g) lh = true -> ~ In t lh ->
              history_walk g t lh = Err AppendRevisionsOnlyViolation).
  { induction lh as [|x lh IH]; cbn [history_walk forallb]; intros P N; [reflexivity|].
    apply andb_true_iff in P as [P1 P2]. unfold ghost. rewrite P1. cbn [negb].
    destruct (x =? t) eqn:E.
    - apply Nat.eqb_eq in E. exfalso. apply N. left. exact E.
    - apply IH; [exact P2|]. intros X. apply N. right. exact X. }
  rewrite (X _ Hp Hn). reflexivity.
Qed.

(* overwrite (no append-only): the tip goes to the requested revision whatever
   the relation, again with the right revno *)
Theorem overwrite_moves tgt src stop s :
  consistent g src -> consistent g tgt ->
  eff_stop src stop = Some s -> lefthand_present g s = true ->
  update_revisions g tgt false src stop true = Ok (mkB (Some s) (length (lefthand g s))).
Proof.
  intros Cs Ct Hs Hp.
  rewrite (update_shape tgt false src stop true s Hs).
  rewrite (proceed_consistent tgt false src stop s Cs Ct Hs).
  rewrite (distance_spec g s W), Hp. reflexivity.
Qed.

(* a ghost on the left-hand history of the stop revision: no revno is made up;
   the only successful outcome is "unchanged" *)
Theorem ghost_no_wrong_revno tgt ao src s ow b' :
  consistent g src -> consistent g tgt ->
  lefthand_present g s = false ->
  update_revisions g tgt ao src (Some s) ow = Ok b' -> b' = tgt /\ ow = false.
Proof.
  intros Cs Ct Hp H.
  assert (Hs : eff_stop src (Some s) = Some s) by reflexivity.
  assert (P : proceed g tgt ao src (Some s) s = Err GhostRevisionsHaveNoRevno).
  { rewrite (proceed_consistent tgt ao src (Some s) s Cs Ct Hs).
    rewrite (distance_spec g s W), Hp. reflexivity. }
  rewrite (update_shape tgt ao src (Some s) ow s Hs), P in H.
  destruct ow; [discriminate|].
  destruct (tip tgt) as [t|]; [|discriminate].
  destruct (is_ancestor g s t); [injection H as <-; split; reflexivity|].
  destruct (is_ancestor g t s); discriminate.
Qed.

(* push's shortcut changes nothing (without overwrite) *)
Lemma basic_push_update tgt ao src stop :
  basic_push g tgt ao src stop false = update_revisions g tgt ao src stop false.
Proof.
  unfold basic_push. destruct stop as [s|]; [|reflexivity].
  destruct (opt_eqb (tip tgt) (Some s)) eqn:E; [|reflexivity].
  destruct (tip tgt) as [t|] eqn:Ht; cbn in E; [|discriminate].
  apply Nat.eqb_eq in E. subst t. symmetry.
  apply (contained_unchanged tgt ao src (Some s) s s Ht eq_refl). apply (is_ancestor_refl g s W).
Qed.

Lemma step_no_overwrite o tgt ao src stop :
  step o g tgt ao src stop false = update_revisions g tgt ao src stop false.
Proof. destruct o; [reflexivity | apply basic_push_update]. Qed.

(* whole operation, bound or not: an error leaves the target branch as it was;
   success means target and master were each updated by [step] *)
Theorem run_op_error_unchanged o w src stop ow e w' :
  run_op o g w src stop ow = (Some e, w') -> local w' = local w.
Proof.
  unfold run_op. destruct (master w) as [[m mao]|].
  - destruct (step o g m mao src stop ow); [|intros H; injection H as _ <-; reflexivity].
    destruct (step o g (local w) (local_ao w) src stop ow); intros H; [discriminate|].
    injection H as _ <-. reflexivity.
  - destruct (step o g (local w) (local_ao w) src stop ow); intros H; [discriminate|].
    injection H as _ <-. reflexivity.
Qed.

Theorem run_op_ok o w src stop ow w' :
  run_op o g w src stop ow = (None, w') ->
  step o g (local w) (local_ao w) src stop ow = Ok (local w') /\
  match master w with
  | None => master w' = None
  | Some (m, mao) => exists m', master w' = Some (m', mao) /\ step o g m mao src stop ow = Ok m'
  end.
Proof.
  unfold run_op. destruct (master w) as [[m mao]|].
  - destruct (step o g m mao src stop ow) as [m'|]; [|discriminate].
    destruct (step o g (local w) (local_ao w) src stop ow) as [l'|]; [|discriminate].
    intros H. injection H as <-. cbn. split; [reflexivity|]. exists m'. split; reflexivity.
  - destruct (step o g (local w) (local_ao w) src stop ow) as [l'|]; [|discriminate].
    intros H. injection H as <-. cbn. split; reflexivity.
Qed.

(* ---- every overwrite shape, null: as stop/new revision -------------------------- *)

Lemma ow_history_spec ow :
  ow_history ow = true <-> ow = OwTrue \/ exists t, ow = OwSet true t.
Proof.
  destruct ow as [| |h t]; cbn; split; intros H; try discriminate; try reflexivity.
  - destruct H as [H|[t H]]; discriminate.
  - left; reflexivity.
  - subst h. right. exists t. reflexivity.
  - destruct H as [H|[t' H]]; [discriminate | injection H as -> _; reflexivity].
Qed.

(* what a successful step can have been *)
Lemma step_x_cases o tgt ao src stop ow b' :
  step_x o g tgt ao src stop ow = Ok b' ->
  b' = tgt \/
  (exists st, update_revisions g tgt ao src st (ow_history ow) = Ok b') \/
  (stop = StopNull /\ ow_history ow = true /\ set_null tgt ao = Ok b').
Proof.
  assert (BP : forall st, basic_push g tgt ao src st (ow_history ow) = Ok b' ->
               b' = tgt \/ exists st', update_revisions g tgt ao src st' (ow_history ow) = Ok b').
  { intros st H. unfold basic_push in H. destruct st as [s|].
    - destruct (opt_eqb (tip tgt) (Some s)); [left; injection H as <-; reflexivity | right; exists (Some s); exact H].
    - right. exists None. exact H. }
  assert (UX : update_revisions_x g tgt ao src stop (ow_history ow) = Ok b' ->
               b' = tgt \/ (exists st, update_revisions g tgt ao src st (ow_history ow) = Ok b') \/
               (stop = StopNull /\ ow_history ow = true /\ set_null tgt ao = Ok b')).
  { unfold update_revisions_x. destruct stop as [| |r]; intros H.
    - right; left. exists None. exact H.
    - destruct (ow_history ow) eqn:E; [right; right; repeat split; exact H | left; injection H as <-; reflexivity].
    - right; left. exists (Some r). exact H. }
  destruct o; cbn [step_x]; [exact UX|].
  unfold basic_push_x. destruct stop as [| |r]; intros H.
  - destruct (BP None H) as [X|X]; [left; exact X | right; left; exact X].
  - destruct (tip tgt); [apply UX; exact H | left; injection H as <-; reflexivity].
  - destruct (BP (Some r) H) as [X|X]; [left; exact X | right; left; exact X].
Qed.

(* without "history" in the overwrite argument -- False, set(), {"tags"} -- no
   pull and no push, whatever the stop revision (null: included), drops the old tip *)
Theorem no_silent_drop_x o tgt ao src stop ow t b' :
  ow_history ow = false -> tip tgt = Some t ->
  step_x o g tgt ao src stop ow = Ok b' ->
  exists t', tip b' = Some t' /\ is_ancestor g t t' = true.
Proof.
  intros E Ht H. apply step_x_cases in H as [->|[[st H]|[_ [X _]]]].
  - exists t. split; [exact Ht | apply (is_ancestor_refl g t W)].
  - rewrite E in H. apply (no_silent_drop tgt ao src st t b' Ht H).
  - congruence.
Qed.

(* append-only, every shape: a successful pull/push keeps the old tip on the new
   left-hand history -- in particular the tip never becomes null: *)
Theorem append_only_keeps_tip_x o tgt src stop ow t b' :
  tip tgt = Some t ->
  step_x o g tgt true src stop ow = Ok b' ->
  exists t', tip b' = Some t' /\ In t (lefthand g t').
Proof.
  intros Ht H. apply step_x_cases in H as [->|[[st H]|[_ [_ X]]]].
  - exists t. split; [exact Ht | apply In_lefthand_self].
  - apply (append_only_keeps_tip tgt src st (ow_history ow) t b' Ht H).
  - unfold set_null in X. rewrite Ht in X. discriminate.
Qed.

(* null: as the new revision of a non-empty append-only branch is refused, by
   set_last_revision_info, generate_revision_history and overwriting pull/push alike *)
Theorem append_only_null_refused tgt t :
  tip tgt = Some t ->
  set_null tgt true = Err AppendRevisionsOnlyViolation /\
  (forall n, direct_set g tgt true n None = Err AppendRevisionsOnlyViolation) /\
  generate_history g tgt true None = Err AppendRevisionsOnlyViolation /\
  (forall o src ow, ow_history ow = true ->
     step_x o g tgt true src StopNull ow = Err AppendRevisionsOnlyViolation).
Proof.
  intros Ht.
  assert (X : set_null tgt true = Err AppendRevisionsOnlyViolation) by (unfold set_null; rewrite Ht; reflexivity).
  split; [exact X|]. split; [intros n; exact X|]. split; [exact X|].
  intros o src ow E. destruct o; cbn [step_x]; unfold basic_push_x, update_revisions_x; rewrite ?Ht, E; exact X.
Qed.

(* direct setters on an append-only branch: success keeps the old tip on the left-hand history *)
Theorem direct_append_only tgt t b' :
  tip tgt = Some t ->
  ((exists n new, direct_set g tgt true n new = Ok b') \/ (exists new, generate_history g tgt true new = Ok b')) ->
  exists t', tip b' = Some t' /\ In t (lefthand g t').
Proof.
  intros Ht H.
  assert (S : forall n s, set_last_revision_info g tgt true n s = Ok b' ->
              exists t', tip b' = Some t' /\ In t (lefthand g t')).
  { intros n s X. apply set_info_ok in X as [-> X]. exists s. split; [reflexivity | apply (X eq_refl t Ht)]. }
  assert (N : set_null tgt true = Ok b' -> exists t', tip b' = Some t' /\ In t (lefthand g t')).
  { unfold set_null. rewrite Ht. discriminate. }
  destruct H as [[n [new H]]|[new H]].
  - destruct new as [s|]; cbn in H; [apply (S n s H) | apply N; exact H].
  - destruct new as [s|]; cbn [generate_history] in H; [|apply N; exact H].
    destruct (distance_known g (known_of tgt) s) as [n|]; [apply (S n s H) | discriminate].
Qed.

(* null: as stop revision without "history": nothing happens *)
Theorem null_stop_unchanged o tgt ao src ow :
  ow_history ow = false -> step_x o g tgt ao src StopNull ow = Ok tgt.
Proof.
  intros E. destruct o; cbn [step_x]; unfold basic_push_x, update_revisions_x; rewrite E;
    [reflexivity | destruct (tip tgt); reflexivity].
Qed.

(* master first, for any step *)
Theorem run_gen_error_unchanged f w e w' :
  run_gen f w = (Some e, w') -> local w' = local w.
Proof.
  unfold run_gen. destruct (master w) as [[m mao]|].
  - destruct (f m mao); [|intros H; injection H as _ <-; reflexivity].
    destruct (f (local w) (local_ao w)); intros H; [discriminate|].
    injection H as _ <-. reflexivity.
  - destruct (f (local w) (local_ao w)); intros H; [discriminate|].
    injection H as _ <-. reflexivity.
Qed.

Theorem run_gen_ok f w w' :
  run_gen f w = (None, w') ->
  f (local w) (local_ao w) = Ok (local w') /\
  match master w with
  | None => master w' = None
  | Some (m, mao) => exists m', master w' = Some (m', mao) /\ f m mao = Ok m'
  end.
Proof.
  unfold run_gen. destruct (master w) as [[m mao]|].
  - destruct (f m mao) as [m'|]; [|discriminate].
    destruct (f (local w) (local_ao w)) as [l'|]; [|discriminate].
    intros H. injection H as <-. cbn. split; [reflexivity|]. exists m'. split; reflexivity.
  - destruct (f (local w) (local_ao w)) as [l'|]; [|discriminate].
    intros H. injection H as <-. cbn. split; reflexivity.
Qed.

End BranchUpdate.
