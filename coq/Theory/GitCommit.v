(* Theory/GitCommit.v -- proofs about Model/GitCommit.v (C34). *)
From Coq Require Import ZArith NArith List Bool String Ascii Lia.
From BV Require Import Lib.Bytes Lib.Obs Model.GitCommit.
Import ListNotations.
Open Scope N_scope.

(* ------------------------------------------------------------------ basics *)
Lemma beqb_refl (a : bytes) : bytes_eqb a a = true.
Proof.
  unfold bytes_eqb. induction a as [|x a IH]; [reflexivity|].
  rewrite N.eqb_refl. exact IH.
Qed.

Lemma beqb_true (a b : bytes) : bytes_eqb a b = true -> a = b.
Proof.
  unfold bytes_eqb. revert b.
  induction a as [|x a IH]; intros [|y b] H; try discriminate; [reflexivity|].
  apply andb_prop in H. destruct H as [Hx Hr].
  apply N.eqb_eq in Hx. subst y. f_equal. apply IH. exact Hr.
Qed.

Lemma neqb_of_lt (x k m : N) : x <? k = true -> k <= m -> x =? m = false.
Proof.
  intros Hx Hk. apply N.ltb_lt in Hx. apply N.eqb_neq. lia.
Qed.

(* ------------------------------------------------------------------ Latin-1 *)
Lemma latin1_roundtrip (b : bytes) : wf_bytes b = true -> latin1_enc (latin1_dec b) = Some b.
Proof.
  unfold wf_bytes.
  induction b as [|x b IH]; intros Hwf; [reflexivity|].
  cbn [forallb] in Hwf. apply andb_prop in Hwf. destruct Hwf as [Hx Hb].
  specialize (IH Hb). unfold wf_byte in Hx. apply N.ltb_lt in Hx.
  cbn [latin1_dec].
  destruct (x <? 128) eqn:Hlo.
  - cbn [latin1_enc]. rewrite Hlo, IH. reflexivity.
  - apply N.ltb_ge in Hlo.
    cbn [latin1_enc].
    assert (Hd : x = 64 * (x / 64) + x mod 64) by (apply N.div_mod; lia).
    assert (Hm : x mod 64 < 64) by (apply N.mod_lt; lia).
    remember (x / 64) as q eqn:Heqq. remember (x mod 64) as r eqn:Heqr. clear Heqq Heqr.
    assert (Hq : q = 2 \/ q = 3) by lia.
    replace (192 + q <? 128) with false by (symmetry; apply N.ltb_ge; lia).
    replace (((192 + q =? 194) || (192 + q =? 195)) && cont (128 + r)) with true.
    + rewrite IH. cbn [option_map]. f_equal. f_equal. lia.
    + symmetry. apply andb_true_intro. split.
      * destruct Hq as [Hq|Hq]; rewrite Hq; reflexivity.
      * unfold cont, inr. apply andb_true_intro. split; apply N.leb_le; lia.
Qed.

Lemma latin1_memb (c : N) (b : bytes) :
  c <? 128 = true -> memb c (latin1_dec b) = memb c b.
Proof.
  intros Hc. unfold memb.
  induction b as [|x b IH]; [reflexivity|].
  cbn [latin1_dec].
  destruct (x <? 128) eqn:Hlo.
  - cbn [existsb]. rewrite IH. reflexivity.
  - cbn [existsb]. rewrite IH.
    apply N.ltb_lt in Hc. apply N.ltb_ge in Hlo.
    remember (x / 64) as q eqn:Heqq. remember (x mod 64) as r eqn:Heqr. clear Heqq Heqr.
    replace (c =? 192 + q) with false by (symmetry; apply N.eqb_neq; lia).
    replace (c =? 128 + r) with false by (symmetry; apply N.eqb_neq; lia).
    replace (c =? x) with false by (symmetry; apply N.eqb_neq; lia).
    reflexivity.
Qed.

Lemma latin1_count (c : N) (b : bytes) :
  c <? 128 = true -> count c (latin1_dec b) = count c b.
Proof.
  intros Hc. unfold count.
  induction b as [|x b IH]; [reflexivity|].
  cbn [latin1_dec].
  destruct (x <? 128) eqn:Hlo.
  - cbn [filter]. destruct (c =? x); cbn [List.length]; rewrite IH; reflexivity.
  - cbn [filter].
    apply N.ltb_lt in Hc. apply N.ltb_ge in Hlo.
    remember (x / 64) as q eqn:Heqq. remember (x mod 64) as r eqn:Heqr. clear Heqq Heqr.
    replace (c =? 192 + q) with false by (symmetry; apply N.eqb_neq; lia).
    replace (c =? 128 + r) with false by (symmetry; apply N.eqb_neq; lia).
    replace (c =? x) with false by (symmetry; apply N.eqb_neq; lia).
    exact IH.
Qed.

Lemma latin1_nil (b : bytes) : latin1_dec b = [] -> b = [].
Proof.
  destruct b as [|x b]; [reflexivity|]. cbn [latin1_dec].
  destruct (x <? 128); discriminate.
Qed.

(* ------------------------------------------------------------------ codecs *)
(* [t] is a str that encodes back to [b] and has the same ASCII characters *)
Definition repr (cd : codec) (t : text) (b : bytes) : Prop :=
  encode cd t = Ok b
  /\ (forall c, c <? 128 = true -> memb c t = memb c b /\ count c t = count c b)
  /\ (t = [] -> b = []).

Definition modelled (cd : codec) : Prop := cd = CUtf8 \/ cd = CLatin1.

Lemma ltce_ok {A} (r : res A) (x : A) : lookup_to_commit_encoding r = Ok x -> r = Ok x.
Proof.
  destruct r as [a|e|]; cbn [lookup_to_commit_encoding]; intros H; try discriminate; [exact H|].
  destruct (String.eqb e "LookupError"); discriminate.
Qed.

Lemma ltce_Ok {A} (x : A) : lookup_to_commit_encoding (Ok x) = Ok x.
Proof. reflexivity. Qed.

Lemma ltce_ude {A} :
  lookup_to_commit_encoding (@Err A "UnicodeDecodeError") = Err "UnicodeDecodeError".
Proof. reflexivity. Qed.

Lemma decode_repr (cd : codec) (b : bytes) (t : text) :
  modelled cd -> wf_bytes b = true -> decode cd b = Ok t -> repr cd t b.
Proof.
  intros Hm Hwf Hd. destruct Hm as [-> | ->]; cbn [decode] in Hd.
  - destruct (valid_utf8 b) eqn:Hv; [|discriminate].
    injection Hd as <-. unfold repr. cbn [encode]. rewrite Hv.
    repeat split; auto.
  - injection Hd as <-. unfold repr. cbn [encode].
    rewrite (latin1_roundtrip b Hwf).
    split; [reflexivity|]. split.
    + intros c Hc. split; [apply latin1_memb|apply latin1_count]; exact Hc.
    + apply latin1_nil.
Qed.

Lemma decode_using_spec (cd : codec) (c : commit) tc ta tm :
  modelled cd ->
  decode_using cd c = Ok (tc, ta, tm) ->
  wf_bytes (c_committer c) = true -> wf_bytes (c_author c) = true ->
  match c_message c with Some m => wf_bytes m = true | None => True end ->
  repr cd tc (c_committer c)
  /\ match ta with
     | None => c_author c = c_committer c
     | Some a => repr cd a (c_author c)
     end
  /\ match tm, c_message c with
     | None, None => True
     | Some t, Some m => repr cd t m
     | _, _ => False
     end.
Proof.
  intros Hmd H Hwc Hwa Hwm. unfold decode_using in H.
  destruct (lookup_to_commit_encoding (decode cd (c_committer c))) as [tc'| |] eqn:Hc;
    cbn [bind] in H; try discriminate.
  apply ltce_ok in Hc.
  destruct (bytes_eqb (c_committer c) (c_author c)) eqn:Heq.
  - cbn [bind] in H.
    destruct (c_message c) as [m|] eqn:Hm.
    + destruct (decode cd m) as [tm'| |] eqn:Hdm; cbn [bind] in H; try discriminate.
      injection H as <- <- <-.
      split; [apply decode_repr; assumption|].
      split; [symmetry; apply beqb_true; exact Heq|].
      apply decode_repr; assumption.
    + cbn [bind] in H. injection H as <- <- <-.
      split; [apply decode_repr; assumption|].
      split; [symmetry; apply beqb_true; exact Heq|exact I].
  - destruct (lookup_to_commit_encoding (decode cd (c_author c))) as [ta'| |] eqn:Ha;
      cbn [bind] in H; try discriminate.
    apply ltce_ok in Ha.
    destruct (c_message c) as [m|] eqn:Hm.
    + destruct (decode cd m) as [tm'| |] eqn:Hdm; cbn [bind] in H; try discriminate.
      injection H as <- <- <-.
      split; [apply decode_repr; assumption|].
      split; apply decode_repr; assumption.
    + cbn [bind] in H. injection H as <- <- <-.
      split; [apply decode_repr; assumption|].
      split; [apply decode_repr; assumption|exact I].
Qed.

(* decoding as UTF-8 either succeeds or raises UnicodeDecodeError *)
Lemma decode_using_utf8_cases (c : commit) :
  (exists d, decode_using CUtf8 c = Ok d) \/ decode_using CUtf8 c = Err "UnicodeDecodeError".
Proof.
  unfold decode_using. cbn [decode].
  destruct (valid_utf8 (c_committer c)); rewrite ?ltce_Ok, ?ltce_ude; cbn [bind];
    [|right; reflexivity].
  destruct (bytes_eqb (c_committer c) (c_author c)); cbn [bind].
  - destruct (c_message c) as [m|]; cbn [bind]; [|left; eexists; reflexivity].
    destruct (valid_utf8 m); cbn [bind]; [left; eexists; reflexivity|right; reflexivity].
  - destruct (valid_utf8 (c_author c)); rewrite ?ltce_Ok, ?ltce_ude; cbn [bind];
      [|right; reflexivity].
    destruct (c_message c) as [m|]; cbn [bind]; [|left; eexists; reflexivity].
    destruct (valid_utf8 m); cbn [bind]; [left; eexists; reflexivity|right; reflexivity].
Qed.

Lemma decode_using_latin1_ok (c : commit) : exists d, decode_using CLatin1 c = Ok d.
Proof.
  unfold decode_using. cbn [decode bind lookup_to_commit_encoding].
  destruct (bytes_eqb (c_committer c) (c_author c)); cbn [bind];
    destruct (c_message c); cbn [bind]; eexists; reflexivity.
Qed.

Lemma decode_using_utf8_valid (c : commit) :
  texts_valid c = true -> exists d, decode_using CUtf8 c = Ok d.
Proof.
  unfold texts_valid. intros H.
  apply andb_prop in H. destruct H as [H Hm]. apply andb_prop in H. destruct H as [Hc Ha].
  unfold decode_using. cbn [decode]. rewrite Hc, Ha. cbn [bind lookup_to_commit_encoding].
  destruct (bytes_eqb (c_committer c) (c_author c)); cbn [bind];
    destruct (c_message c) as [m|]; cbn [bind]; try rewrite Hm; cbn [bind]; eexists; reflexivity.
Qed.

Lemma lookup_latin1 env : lookup env (bs "latin1") = CLatin1.
Proof. reflexivity. Qed.

(* the text part: import succeeds, and the codec export will choose encodes everything back *)
Lemma import_texts_ok env (c : commit) :
  encoding_ok env c = true ->
  wf_bytes (c_committer c) = true -> wf_bytes (c_author c) = true ->
  match c_message c with Some m => wf_bytes m = true | None => True end ->
  exists im tc ta tm,
    import_texts env c = Ok (c_encoding c, im, (tc, ta, tm))
    /\ match c_encoding c with Some e => is_ascii e = true | None => True end
    /\ let cd := export_codec env (c_encoding c) im in
       repr cd tc (c_committer c)
       /\ match ta with
          | None => c_author c = c_committer c
          | Some a => repr cd a (c_author c)
          end
       /\ match tm, c_message c with
          | None, None => True
          | Some t, Some m => repr cd t m
          | _, _ => False
          end.
Proof.
  intros Henc Hwc Hwa Hwm. unfold encoding_ok in Henc. unfold import_texts.
  assert (Himplicit :
    exists im d, decode_implicit c = Ok (d, im)
      /\ decode_using (implicit_codec env im) c = Ok d
      /\ modelled (implicit_codec env im)).
  { unfold decode_implicit.
    destruct (decode_using_utf8_cases c) as [[d Hd]|He].
    - rewrite Hd. cbn [is_ude bind]. exists None, d.
      split; [reflexivity|]. split; [exact Hd|left; reflexivity].
    - rewrite He. cbn [is_ude]. cbn [String.eqb Ascii.eqb Bool.eqb].
      destruct (decode_using_latin1_ok c) as [d Hd]. rewrite Hd. cbn [bind].
      exists (Some (bs "latin1")), d. split; [reflexivity|].
      cbn [implicit_codec]. rewrite lookup_latin1. split; [exact Hd|right; reflexivity]. }
  destruct (c_encoding c) as [e|] eqn:Hce.
  - apply andb_prop in Henc. destruct Henc as [Hasc Hcd].
    rewrite Hasc. cbn [bind].
    cbn [export_codec].
    destruct (bytes_eqb e (bs "false")) eqn:Hnf.
    + (* "encoding false": import and export both use the implicit codec *)
      destruct Himplicit as (im & [[tc ta] tm] & Hdi & Hdu & Hmd).
      rewrite Hdi. cbn [bind fst snd].
      exists im, tc, ta, tm. split; [reflexivity|]. split; [reflexivity|].
      apply decode_using_spec; assumption.
    + cbn [orb] in Hcd.
      assert (Hd : (exists d, decode_using (lookup env e) c = Ok d) /\ modelled (lookup env e)).
      { destruct (lookup env e); try discriminate.
        - split; [apply decode_using_utf8_valid; exact Hcd|left; reflexivity].
        - split; [apply decode_using_latin1_ok|right; reflexivity]. }
      destruct Hd as [[[[tc ta] tm] Hd] Hmd].
      rewrite Hd. cbn [bind fst snd].
      exists None, tc, ta, tm. split; [reflexivity|]. split; [reflexivity|].
      apply decode_using_spec; assumption.
  - cbn [bind].
    destruct Himplicit as (im & [[tc ta] tm] & Hdi & Hdu & Hmd).
    rewrite Hdi. cbn [bind fst snd].
    exists im, tc, ta, tm. split; [reflexivity|]. split; [exact I|].
    cbn [export_codec].
    apply decode_using_spec; assumption.
Qed.

(* ------------------------------------------------------------------ person identifiers *)
Lemma ident_ok_spec (t : bytes) :
  ident_ok t = true ->
  fix_person t = Ok t /\ (memb COMMA t && Nat.ltb 1 (count GT t)) = false /\ t <> [].
Proof.
  unfold ident_ok. intros H. apply andb_prop in H. destruct H as [Hf Hc].
  split; [|split].
  - destruct (fix_person t) as [t'| |]; try discriminate.
    apply beqb_true in Hf. subst t'. reflexivity.
  - apply negb_true_iff in Hc. exact Hc.
  - intros ->. vm_compute in Hf. discriminate.
Qed.

Lemma export_ident (cd : codec) (t : text) (b : bytes) :
  repr cd t b -> ident_ok b = true ->
  bind (encode cd t) fix_person = Ok b
  /\ cut_author t = t
  /\ t <> [].
Proof.
  intros (Henc & Hascii & Hnil) Hok.
  destruct (ident_ok_spec b Hok) as (Hfix & Hcut & Hne).
  split; [|split].
  - rewrite Henc. cbn [bind]. exact Hfix.
  - unfold cut_author.
    destruct (Hascii COMMA eq_refl) as [Hm _].
    destruct (Hascii GT eq_refl) as [_ Hc].
    rewrite Hm, Hc, Hcut. reflexivity.
  - intros Ht. apply Hne. apply Hnil. exact Ht.
Qed.

Lemma nonnil_match (t : text) :
  t <> [] -> match t with [] => @Err (list N) "IndexError" | n :: l => Ok (n :: l) end = Ok t.
Proof. destruct t; [congruence|reflexivity]. Qed.

(* ------------------------------------------------------------------ extras *)
Lemma split1_aux_line (l rest cur : bytes) :
  memb NL l = false ->
  split1_aux NL cur (l ++ NL :: rest) = (rev cur ++ l) :: split1_aux NL [] rest.
Proof.
  unfold memb. revert cur. induction l as [|b l IH]; intros cur H.
  - cbn [app split1_aux]. rewrite N.eqb_refl, app_nil_r. reflexivity.
  - cbn [existsb] in H. apply orb_false_iff in H. destruct H as [Hb Hl].
    cbn [app split1_aux]. rewrite N.eqb_sym, Hb.
    rewrite (IH (b :: cur) Hl). cbn [rev]. rewrite <- app_assoc. reflexivity.
Qed.

Lemma split1_aux_last (l cur : bytes) :
  memb NL l = false -> split1_aux NL cur l = [rev cur ++ l].
Proof.
  unfold memb. revert cur. induction l as [|b l IH]; intros cur H.
  - cbn [split1_aux]. rewrite app_nil_r. reflexivity.
  - cbn [existsb] in H. apply orb_false_iff in H. destruct H as [Hb Hl].
    cbn [split1_aux]. rewrite N.eqb_sym, Hb.
    rewrite (IH (b :: cur) Hl). cbn [rev]. rewrite <- app_assoc. reflexivity.
Qed.

Lemma remove_suffix_nl_app (body : bytes) : remove_suffix_nl (body ++ [NL]) = body.
Proof.
  unfold remove_suffix_nl. rewrite rev_app_distr. cbn [rev app].
  rewrite N.eqb_refl. apply rev_involutive.
Qed.

Lemma break_at_app (c : N) (k v : bytes) :
  memb c k = false -> break_at c (k ++ c :: v) = Some (k, v).
Proof.
  unfold memb. induction k as [|b k IH]; intros H.
  - cbn [app break_at]. rewrite N.eqb_refl. reflexivity.
  - cbn [existsb] in H. apply orb_false_iff in H. destruct H as [Hb Hk].
    cbn [app break_at]. rewrite N.eqb_sym, Hb. rewrite (IH Hk). reflexivity.
Qed.

Definition lines_of (ex : list (bytes * bytes)) : text :=
  flat_map (fun kv => extra_line (fst kv) (snd kv)) ex.

Lemma lines_of_cons (k v : bytes) (ex : list (bytes * bytes)) :
  lines_of ((k, v) :: ex) = (k ++ SP :: v) ++ NL :: lines_of ex.
Proof.
  unfold lines_of. cbn [flat_map fst snd]. unfold extra_line.
  rewrite <- !app_assoc. cbn [app]. rewrite <- app_assoc. reflexivity.
Qed.

Lemma extra_ok_key (k v : bytes) :
  extra_ok (k, v) = true ->
  (k = HG_RENAME_SOURCE \/ k = HG_EXTRA) /\ memb NL v = false.
Proof.
  unfold extra_ok. intros H. apply andb_prop in H. destruct H as [Hk Hv].
  split; [|apply negb_true_iff; exact Hv].
  apply orb_prop in Hk. destruct Hk as [Hk|Hk].
  - left. apply beqb_true. exact Hk.
  - right. apply andb_prop in Hk. destruct Hk as [Hk _]. apply beqb_true. exact Hk.
Qed.

Lemma import_extra_ok (ex : list (bytes * bytes)) :
  forallb extra_ok ex = true -> import_extra ex = Ok (lines_of ex, false).
Proof.
  induction ex as [|[k v] ex IH]; intros H; [reflexivity|].
  cbn [forallb] in H. apply andb_prop in H. destruct H as [Hkv Hex].
  specialize (IH Hex). cbn [import_extra lines_of flat_map fst snd].
  unfold extra_ok in Hkv. apply andb_prop in Hkv. destruct Hkv as [Hk _].
  destruct (bytes_eqb k HG_RENAME_SOURCE) eqn:Hr.
  - rewrite IH. reflexivity.
  - cbn [orb] in Hk. apply andb_prop in Hk. destruct Hk as [He Hhg].
    rewrite He. destruct (break_at 58 v) as [[hgk tl]|]; [|discriminate].
    rewrite Hhg, IH. reflexivity.
Qed.

Definition line_of (kv : bytes * bytes) : text := fst kv ++ SP :: snd kv.

Lemma line_of_no_nl (k v : bytes) : extra_ok (k, v) = true -> memb NL (line_of (k, v)) = false.
Proof.
  intros H. destruct (extra_ok_key k v H) as [Hk Hv].
  unfold line_of, memb. cbn [fst snd]. rewrite existsb_app. cbn [existsb].
  fold (memb NL v). rewrite Hv.
  destruct Hk as [-> | ->]; reflexivity.
Qed.

(* the text written by import ends with "\n"; without it, splitting at "\n" gives the lines back *)
Lemma lines_of_split (ex : list (bytes * bytes)) :
  ex <> [] -> forallb extra_ok ex = true ->
  exists body, lines_of ex = body ++ [NL] /\ split1 NL body = map line_of ex.
Proof.
  induction ex as [|[k v] ex IH]; intros Hne H; [congruence|].
  cbn [forallb] in H. apply andb_prop in H. destruct H as [Hkv Hex].
  pose proof (line_of_no_nl k v Hkv) as Hnl. unfold line_of in Hnl. cbn [fst snd] in Hnl.
  rewrite lines_of_cons.
  destruct ex as [|kv' ex'].
  - exists (k ++ SP :: v). split; [reflexivity|].
    unfold split1. rewrite (split1_aux_last _ [] Hnl). reflexivity.
  - destruct (IH ltac:(discriminate) Hex) as (body' & Hb & Hs).
    exists ((k ++ SP :: v) ++ NL :: body'). split.
    + rewrite Hb. symmetry. rewrite <- app_assoc. reflexivity.
    + unfold split1 in *. rewrite (split1_aux_line _ _ [] Hnl). rewrite Hs. reflexivity.
Qed.

Lemma export_extra_lines (ex : list (bytes * bytes)) :
  forallb extra_ok ex = true -> export_extra (map line_of ex) = Ok ex.
Proof.
  induction ex as [|[k v] ex IH]; intros H; [reflexivity|].
  cbn [forallb] in H. apply andb_prop in H. destruct H as [Hkv Hex].
  destruct (extra_ok_key k v Hkv) as [Hk _].
  cbn [map export_extra]. unfold line_of at 1. cbn [fst snd].
  rewrite break_at_app by (destruct Hk as [-> | ->]; reflexivity).
  rewrite (IH Hex). reflexivity.
Qed.

Lemma export_extra_ok (ex : list (bytes * bytes)) :
  forallb extra_ok ex = true ->
  export_extra (match (match lines_of ex with [] => None | n :: l => Some (n :: l) end) with
                | Some t => extra_lines t
                | None => []
                end) = Ok ex.
Proof.
  intros H. destruct ex as [|kv ex'] eqn:E; [reflexivity|].
  rewrite <- E in *.
  destruct (lines_of_split ex ltac:(subst; discriminate) H) as (body & Hb & Hs).
  assert (Hl : lines_of ex = body ++ [NL]) by exact Hb.
  destruct (lines_of ex) as [|n l] eqn:El.
  - destruct body; discriminate.
  - rewrite Hl. unfold extra_lines. rewrite remove_suffix_nl_app, Hs.
    apply export_extra_lines. exact H.
Qed.

(* ------------------------------------------------------------------ parents and revision ids *)
Lemma parent_lookup_revid (p : bytes) : parent_lookup (revid_foreign_to_bzr p) = Ok p.
Proof.
  unfold parent_lookup, revid_foreign_to_bzr.
  destruct (bytes_eqb p ZERO_SHA) eqn:E.
  - apply beqb_true in E. subst p. reflexivity.
  - reflexivity.
Qed.

Lemma export_parents_ok (ps : list bytes) :
  forallb (fun p => Nat.eqb (List.length p) 40) ps = true ->
  export_parents (map revid_foreign_to_bzr ps) = Ok ps.
Proof.
  induction ps as [|p ps IH]; intros H; [reflexivity|].
  cbn [forallb] in H. apply andb_prop in H. destruct H as [Hp Hps].
  cbn [map export_parents]. rewrite parent_lookup_revid. cbn [bind].
  rewrite Hp. cbn [negb]. rewrite (IH Hps). reflexivity.
Qed.

(* ------------------------------------------------------------------ serialisation *)
Lemma format_timezone_some (tz : Z) (neg : bool) :
  (tz mod 60 =? 0)%Z = true -> exists z, format_timezone tz neg = Some z.
Proof.
  intros H. unfold format_timezone. rewrite H. cbn [negb].
  destruct ((tz <? 0)%Z || neg); eexists; reflexivity.
Qed.

Lemma serialise_some (c : commit) :
  (c_author_tz c mod 60 =? 0)%Z = true -> (c_commit_tz c mod 60 =? 0)%Z = true ->
  exists s, serialise c = Some s.
Proof.
  intros Ha Hc. unfold serialise, time_entry.
  destruct (format_timezone_some _ (c_author_neg c) Ha) as [za ->].
  destruct (format_timezone_some _ (c_commit_neg c) Hc) as [zc ->].
  eexists. reflexivity.
Qed.

Lemma truthy_idem (o : option bytes) : truthy (truthy o) = truthy o.
Proof. destruct o as [[|x l]|]; reflexivity. Qed.

Lemma serialise_norm (c : commit) : serialise (norm c) = serialise c.
Proof.
  unfold serialise, norm. cbn [c_tree c_parents c_author c_author_time c_author_tz c_author_neg
    c_committer c_commit_time c_commit_tz c_commit_neg c_encoding c_mergetag c_extra c_gpgsig c_message].
  rewrite truthy_idem. reflexivity.
Qed.

(* ------------------------------------------------------------------ the round trip *)
Theorem export_import_id env (c : commit) :
  rt_guard env c = true ->
  exists r, import_commit env c = Ok r /\ export_commit env r (c_tree c) = Ok (norm c).
Proof.
  intros G. unfold rt_guard in G.
  apply andb_prop in G. destruct G as [G Hex].
  apply andb_prop in G. destruct G as [G Hida].
  apply andb_prop in G. destruct G as [G Hidc].
  apply andb_prop in G. destruct G as [Hwf Henc].
  unfold wf_commit in Hwf.
  apply andb_prop in Hwf. destruct Hwf as [Hwf Hwm].
  apply andb_prop in Hwf. destruct Hwf as [Hwf Hwa].
  apply andb_prop in Hwf. destruct Hwf as [Hwf Hwc].
  apply andb_prop in Hwf. destruct Hwf as [Hwf Htzc].
  apply andb_prop in Hwf. destruct Hwf as [Hpar Htza].
  assert (Hwm' : match c_message c with Some m => wf_bytes m = true | None => True end).
  { destruct (c_message c); [exact Hwm|exact I]. }
  destruct (import_texts_ok env c Henc Hwc Hwa Hwm')
    as (im & tc & ta & tm & Htexts & Hasc & Hrc & Hra & Hrm).
  pose proof (import_extra_ok _ Hex) as Hie.
  destruct (serialise_some c Htza Htzc) as [s Hs].
  set (cd := export_codec env (c_encoding c) im) in *.
  set (fa := match ta with Some a => a | None => tc end).
  assert (Hfa : repr cd fa (c_author c)).
  { subst fa. destruct ta as [a|]; [exact Hra|]. rewrite Hra. exact Hrc. }
  destruct (export_ident cd tc _ Hrc Hidc) as (Hec & _ & _).
  destruct (export_ident cd fa _ Hfa Hida) as (Hea & Hcut & Hne).
  eexists. split.
  - unfold import_commit. rewrite Htexts. cbn [bind fst snd].
    rewrite Hie. cbn [bind fst snd]. rewrite Hs. reflexivity.
  - unfold export_commit.
    cbn [r_props r_parents r_committer r_message r_timestamp r_timezone
         p_explicit_enc p_implicit_enc p_author p_author_ts p_author_tz p_author_neg p_commit_neg
         p_gpgsig p_mergetags p_extra p_missing_msg].
    rewrite (export_parents_ok _ Hpar). cbn [bind].
    fold cd. fold fa.
    match goal with |- bind ?X _ = _ => assert (Henc' : X = Ok (c_encoding c)) end.
    { destruct (c_encoding c) as [e|]; [rewrite Hasc|]; reflexivity. }
    rewrite Henc'. cbn [bind].
    rewrite Hec. cbn [bind].
    rewrite (nonnil_match fa Hne). cbn [bind].
    rewrite Hcut, Hea. cbn [bind].
    match goal with |- bind ?X _ = _ => assert (Hmsg : X = Ok (c_message c)) end.
    { destruct tm as [t|], (c_message c) as [m|]; try contradiction.
      - destruct Hrm as (Hem & _ & _). cbn [bind]. rewrite Hem. reflexivity.
      - reflexivity. }
    rewrite Hmsg. cbn [bind].
    match goal with |- bind ?X _ = _ =>
      assert (Hx : X = Ok (c_extra c)) by (exact (export_extra_ok _ Hex)) end.
    rewrite Hx. cbn [bind].
    f_equal. unfold norm, opt_nonempty.
    f_equal.
    + destruct (Z.eqb_spec (c_commit_time c) (c_author_time c)) as [E|E]; [exact E|reflexivity].
    + destruct (Z.eqb_spec (c_commit_tz c) (c_author_tz c)) as [E|E]; [exact E|reflexivity].
Qed.

(* byte-identical serialisation (hence identical SHA-1, whatever the hash function) *)
Theorem export_import_bytes env (c : commit) :
  rt_guard env c = true ->
  exists r c' s, import_commit env c = Ok r /\ export_commit env r (c_tree c) = Ok c'
                 /\ serialise c = Some s /\ serialise c' = Some s.
Proof.
  intros G. destruct (export_import_id env c G) as (r & Hi & He).
  assert (Hs : exists s, serialise c = Some s).
  { unfold rt_guard, wf_commit in G.
    do 7 (apply andb_prop in G; destruct G as [G _]).
    apply andb_prop in G. destruct G as [G Htzc].
    apply andb_prop in G. destruct G as [_ Htza].
    apply serialise_some; assumption. }
  destruct Hs as [s Hs].
  exists r, (norm c), s. repeat split; try assumption.
  rewrite serialise_norm. exact Hs.
Qed.

(* ------------------------------------------------------------------ accepted but not reproduced *)
Definition obytes_eqb (a b : option bytes) : bool :=
  match a, b with
  | Some x, Some y => bytes_eqb x y
  | None, None => true
  | _, _ => false
  end.

(* import accepts [c], but export(import c) raises or serialises differently *)
Definition not_roundtrip (env : bytes -> codec) (c : commit) : bool :=
  match import_commit env c with
  | Ok r => match export_commit env r (c_tree c) with
            | Ok c' => negb (obytes_eqb (serialise c') (serialise c))
            | _ => true
            end
  | _ => false
  end.

Definition export_error (env : bytes -> codec) (c : commit) : option string :=
  match import_commit env c with
  | Ok r => match export_commit env r (c_tree c) with Err e => Some e | _ => None end
  | _ => None
  end.

Lemma not_roundtrip_sound env c :
  not_roundtrip env c = true ->
  accepted env c = true
  /\ forall r c', import_commit env c = Ok r -> export_commit env r (c_tree c) = Ok c' ->
                  serialise c' <> serialise c.
Proof.
  unfold not_roundtrip, accepted. intros H.
  destruct (import_commit env c) as [r| |]; try discriminate.
  split; [reflexivity|]. intros r0 c' Hr Hc'. injection Hr as <-.
  rewrite Hc' in H. intros Heq. rewrite Heq in H.
  destruct (serialise c) as [s|]; cbn [obytes_eqb negb] in H; [|discriminate].
  rewrite beqb_refl in H. discriminate.
Qed.

Definition wit (author committer : bytes) (enc : option bytes) (extra : list (bytes * bytes))
           (msg : option bytes) : commit :=
  {| c_tree := repeat 97 40; c_parents := [];
     c_author := author; c_author_time := 5; c_author_tz := 7200; c_author_neg := false;
     c_committer := committer; c_commit_time := 4; c_commit_tz := (-10800); c_commit_neg := false;
     c_encoding := enc; c_mergetag := []; c_extra := extra; c_gpgsig := None; c_message := msg |}.

Definition w_missing_message := wit (bs "A <a>") (bs "C <c>") None [] None.
Definition w_encoding_false := wit (bs "A <a>") (bs "C <c>") (Some (bs "false")) [] (Some (bs "m")).
Definition w_ident_nospace := wit (bs "A<a>") (bs "C <c>") None [] (Some (bs "m")).
Definition w_two_authors := wit (bs "A <a>, B <b>") (bs "C <c>") None [] (Some (bs "m")).
Definition w_ident_no_lt := wit (bs "Joe>") (bs "C <c>") None [] (Some (bs "m")).
Definition w_extra_cr :=
  wit (bs "A <a>") (bs "C <c>") None [(bs "HG:extra", bs "source:a" ++ [13] ++ bs "b")] (Some (bs "m")).
Definition w_extra_nl :=
  wit (bs "A <a>") (bs "C <c>") None [(bs "HG:extra", bs "topic:a" ++ [10] ++ bs "b")] (Some (bs "m")).

(* the witnesses of the three repaired findings now satisfy the guard *)
Lemma missing_message_guard env : rt_guard env w_missing_message = true.
Proof. vm_compute. reflexivity. Qed.
Lemma encoding_false_guard env : rt_guard env w_encoding_false = true.
Proof. vm_compute. reflexivity. Qed.
Lemma extra_cr_guard env : rt_guard env w_extra_cr = true.
Proof. vm_compute. reflexivity. Qed.

Lemma ident_nospace_refuted env :
  not_roundtrip env w_ident_nospace = true /\ export_error env w_ident_nospace = None.
Proof. split; vm_compute; reflexivity. Qed.

Lemma two_authors_refuted env :
  not_roundtrip env w_two_authors = true /\ export_error env w_two_authors = None.
Proof. split; vm_compute; reflexivity. Qed.

Lemma ident_no_lt_refuted env :
  not_roundtrip env w_ident_no_lt = true
  /\ export_error env w_ident_no_lt = Some "ValueError"%string.
Proof. split; vm_compute; reflexivity. Qed.

Lemma extra_nl_refuted env :
  not_roundtrip env w_extra_nl = true
  /\ export_error env w_extra_nl = Some "ValueError"%string.
Proof. split; vm_compute; reflexivity. Qed.

(* ------------------------------------------------------------------ which commits are rejected *)
Definition extra_key_known (kv : bytes * bytes) : bool :=
  bytes_eqb (fst kv) HG_RENAME_SOURCE || bytes_eqb (fst kv) HG_EXTRA.

Lemma import_extra_unknown (ex : list (bytes * bytes)) :
  existsb (fun kv => negb (extra_key_known kv)) ex = true ->
  forall l u, import_extra ex = Ok (l, u) -> u = true.
Proof.
  induction ex as [|[k v] ex IH]; intros H l u Hi; [discriminate|].
  cbn [existsb] in H. cbn [import_extra] in Hi.
  unfold extra_key_known in H. cbn [fst] in H.
  destruct (bytes_eqb k HG_RENAME_SOURCE) eqn:Hr.
  - cbn [orb negb] in H.
    destruct (import_extra ex) as [[l' u']| |]; cbn [bind] in Hi; try discriminate.
    injection Hi as _ <-. cbn [snd]. eapply IH; [exact H|reflexivity].
  - destruct (bytes_eqb k HG_EXTRA) eqn:He.
    + cbn [orb negb] in H.
      destruct (break_at 58 v) as [[hgk tl]|]; [|discriminate].
      destruct (hg_known hgk); [|discriminate].
      destruct (import_extra ex) as [[l' u']| |]; cbn [bind] in Hi; try discriminate.
      injection Hi as _ <-. cbn [snd]. eapply IH; [exact H|reflexivity].
    + destruct (import_extra ex) as [[l' u']| |]; cbn [bind] in Hi; try discriminate.
      injection Hi as _ <-. reflexivity.
Qed.

Theorem unknown_extra_rejected env (c : commit) :
  existsb (fun kv => negb (extra_key_known kv)) (c_extra c) = true -> accepted env c = false.
Proof.
  intros H. unfold accepted, import_commit.
  destruct (import_texts env c) as [eit| |]; cbn [bind]; try reflexivity.
  destruct (import_extra (c_extra c)) as [[l u]| |] eqn:Hi; cbn [bind]; try reflexivity.
  rewrite (import_extra_unknown _ H l u Hi). reflexivity.
Qed.

Theorem unknown_encoding_rejected env (c : commit) (e : bytes) :
  c_encoding c = Some e -> bytes_eqb e (bs "false") = false ->
  lookup env e = CUnknown -> c_committer c <> [] -> accepted env c = false.
Proof.
  intros He Hf Hl Hne. unfold accepted, import_commit, import_texts. rewrite He, Hf, Hl.
  destruct (is_ascii e); cbn [bind]; [|reflexivity].
  unfold decode_using. cbn [decode].
  destruct (c_committer c) as [|x l]; [congruence|].
  cbn [bind lookup_to_commit_encoding String.eqb Ascii.eqb Bool.eqb].
  reflexivity.
Qed.

Lemma decode_using_utf8_ok_valid (c : commit) d :
  decode_using CUtf8 c = Ok d -> texts_valid c = true.
Proof.
  unfold decode_using, texts_valid. cbn [decode]. intros Hd.
  destruct (valid_utf8 (c_committer c)) eqn:Hc; cbn [bind] in Hd; [|discriminate].
  destruct (bytes_eqb (c_committer c) (c_author c)) eqn:Heq; cbn [bind] in Hd.
  - apply beqb_true in Heq. rewrite <- Heq, Hc. cbn [andb].
    destruct (c_message c) as [m|]; [|reflexivity].
    destruct (valid_utf8 m); [reflexivity|discriminate].
  - destruct (valid_utf8 (c_author c)); cbn [bind andb] in Hd |- *; [|discriminate].
    destruct (c_message c) as [m|]; [|reflexivity].
    destruct (valid_utf8 m); [reflexivity|discriminate].
Qed.

Theorem undecodable_utf8_rejected env (c : commit) (e : bytes) :
  c_encoding c = Some e -> bytes_eqb e (bs "false") = false ->
  lookup env e = CUtf8 -> texts_valid c = false -> accepted env c = false.
Proof.
  intros He Hf Hl Hv. unfold accepted, import_commit, import_texts. rewrite He, Hf, Hl.
  destruct (is_ascii e); cbn [bind]; [|reflexivity].
  assert (Hd : decode_using CUtf8 c = Err "UnicodeDecodeError").
  { destruct (decode_using_utf8_cases c) as [[d Hd]|Hd]; [|exact Hd].
    apply decode_using_utf8_ok_valid in Hd. rewrite Hd in Hv. discriminate. }
  rewrite Hd. reflexivity.
Qed.

(* ------------------------------------------------------------------ identifiers in canonical form *)
Lemma memb_app (c : N) (a b : bytes) : memb c (a ++ b) = memb c a || memb c b.
Proof. unfold memb. apply existsb_app. Qed.

Lemma break_at_none (c : N) (s : bytes) : memb c s = false -> break_at c s = None.
Proof.
  unfold memb. induction s as [|b s IH]; intros H; [reflexivity|].
  cbn [existsb] in H. apply orb_false_iff in H. destruct H as [Hb Hs].
  cbn [break_at]. rewrite N.eqb_sym, Hb, (IH Hs). reflexivity.
Qed.

Lemma rindex_bound (c : N) (s : bytes) (i : nat) :
  rindex c s = Some i -> (i < List.length s)%nat.
Proof.
  revert i. induction s as [|b s IH]; intros i H; [discriminate|].
  cbn [rindex] in H. cbn [List.length].
  destruct (rindex c s) as [j|].
  - injection H as <-. specialize (IH j eq_refl). lia.
  - destruct (b =? c); [|discriminate]. injection H as <-. lia.
Qed.

Lemma rindex_last (c : N) (x : bytes) : rindex c (x ++ [c]) = Some (List.length x).
Proof.
  induction x as [|b x IH].
  - cbn [app rindex]. rewrite N.eqb_refl. reflexivity.
  - cbn [app rindex List.length]. rewrite IH. reflexivity.
Qed.

Lemma rindex_memb (c : N) (s : bytes) : memb c s = true -> exists i, rindex c s = Some i.
Proof.
  unfold memb. induction s as [|b s IH]; intros H; [discriminate|].
  cbn [existsb] in H. cbn [rindex].
  destruct (rindex c s) as [j|]; [eexists; reflexivity|].
  apply orb_prop in H. destruct H as [H|H].
  - rewrite N.eqb_sym, H. eexists; reflexivity.
  - destruct (IH H) as [i Hi]. discriminate.
Qed.

Lemma strip_last_space_app (u : bytes) : strip_last_space (u ++ [SP]) = u.
Proof.
  unfold strip_last_space. rewrite rev_app_distr. cbn [rev app].
  rewrite N.eqb_refl. apply rev_involutive.
Qed.

Lemma count_app (c : N) (a b : bytes) : count c (a ++ b) = (count c a + count c b)%nat.
Proof. unfold count. rewrite filter_app, app_length. reflexivity. Qed.

Lemma count_absent (c : N) (s : bytes) : memb c s = false -> count c s = O.
Proof.
  unfold memb, count. induction s as [|b s IH]; intros H; [reflexivity|].
  cbn [existsb] in H. apply orb_false_iff in H. destruct H as [Hb Hs].
  cbn [filter]. rewrite Hb. exact (IH Hs).
Qed.

(* every identifier of the form  name ++ " <" ++ email ++ ">"  with no '<' in the name
   and neither '<' nor '>' in the email is left alone by fix_person_identifier *)
Theorem fix_person_canonical (u e : bytes) :
  memb LT u = false -> memb LT e = false -> memb GT e = false ->
  fix_person (u ++ bs " <" ++ e ++ [GT]) = Ok (u ++ bs " <" ++ e ++ [GT]).
Proof.
  intros Hu Hel Heg.
  change (bs " <") with [SP; LT].
  set (t := u ++ [SP; LT] ++ e ++ [GT]).
  assert (Hlt : memb LT t = true).
  { subst t. rewrite !memb_app. cbn. rewrite orb_true_r. reflexivity. }
  assert (Hgt : memb GT t = true).
  { subst t. rewrite !memb_app. cbn. rewrite !orb_true_r. reflexivity. }
  unfold fix_person. rewrite Hlt, Hgt. cbn [negb andb].
  assert (Hg : rindex GT t = Some (List.length (u ++ [SP; LT] ++ e))).
  { subst t. replace (u ++ [SP; LT] ++ e ++ [GT]) with ((u ++ [SP; LT] ++ e) ++ [GT])
      by (rewrite <- !app_assoc; reflexivity).
    apply rindex_last. }
  destruct (rindex_memb LT t Hlt) as [l Hl].
  rewrite Hg, Hl.
  assert (Hb : (l < List.length t)%nat) by (apply rindex_bound with (c := LT); exact Hl).
  assert (Hlen : List.length t = S (List.length (u ++ [SP; LT] ++ e))).
  { subst t. rewrite !app_length. cbn [List.length]. lia. }
  replace (Nat.ltb (List.length (u ++ [SP; LT] ++ e)) l) with false
    by (symmetry; apply Nat.ltb_ge; lia).
  assert (Hbr : break_at LT t = Some (u ++ [SP], e ++ [GT])).
  { subst t. replace (u ++ [SP; LT] ++ e ++ [GT]) with ((u ++ [SP]) ++ LT :: (e ++ [GT]))
      by (rewrite <- !app_assoc; reflexivity).
    apply break_at_app. rewrite memb_app, Hu. reflexivity. }
  rewrite Hbr.
  rewrite (break_at_none LT (e ++ [GT])) by (rewrite memb_app, Hel; reflexivity).
  replace (e ++ [GT]) with (e ++ GT :: []) by reflexivity.
  rewrite (break_at_app GT e [] Heg).
  rewrite strip_last_space_app. subst t. reflexivity.
Qed.

Theorem ident_ok_canonical (u e : bytes) :
  memb LT u = false -> memb GT u = false -> memb LT e = false -> memb GT e = false ->
  ident_ok (u ++ bs " <" ++ e ++ [GT]) = true.
Proof.
  intros Hul Hug Hel Heg. unfold ident_ok.
  rewrite (fix_person_canonical u e Hul Hel Heg). rewrite beqb_refl. cbn [andb].
  change (bs " <") with [SP; LT].
  rewrite !count_app, (count_absent GT u Hug), (count_absent GT e Heg).
  cbn. rewrite andb_false_r. reflexivity.
Qed.

(* ------------------------------------------------------------------ revision ids *)
Theorem revid_injective (a b : bytes) :
  revid_foreign_to_bzr a = revid_foreign_to_bzr b -> a = b.
Proof.
  intros H. pose proof (parent_lookup_revid a) as Ha. rewrite H, parent_lookup_revid in Ha.
  injection Ha as ->. reflexivity.
Qed.

Section RevId.
  (* the hash of the serialisation; SHA-1 in reality, any function here *)
  Variable sha : bytes -> bytes.

  (* rev.revision_id = mapping.revision_id_foreign_to_bzr(commit.id) *)
  Definition revid_of (c : commit) : option bytes :=
    option_map (fun s => revid_foreign_to_bzr (sha s)) (serialise c).

  Theorem revid_stable (c1 c2 : commit) :
    serialise c1 = serialise c2 -> revid_of c1 = revid_of c2.
  Proof. unfold revid_of. intros ->. reflexivity. Qed.

  Theorem revid_roundtrip env (c : commit) :
    rt_guard env c = true ->
    exists r c' id, import_commit env c = Ok r /\ export_commit env r (c_tree c) = Ok c'
                    /\ revid_of c = Some id /\ revid_of c' = Some id
                    /\ parent_lookup id = Ok (sha match serialise c with Some s => s | None => [] end).
  Proof.
    intros G. destruct (export_import_bytes env c G) as (r & c' & s & Hi & He & Hs & Hs').
    exists r, c', (revid_foreign_to_bzr (sha s)).
    unfold revid_of. rewrite Hs, Hs'. cbn [option_map].
    repeat split; try assumption. apply parent_lookup_revid.
  Qed.
End RevId.

(* ------------------------------------------------------------------ the guard is satisfiable *)
Definition ex_env : bytes -> codec := env1 (bs "iso-8859-1") CLatin1.
Definition ex_commit : commit :=
  {| c_tree := repeat 97 40; c_parents := [repeat 98 40; ZERO_SHA];
     c_author := bs "J" ++ [246] ++ bs "rg <j@x>"; c_author_time := 1234567891;
     c_author_tz := 20700; c_author_neg := false;
     c_committer := bs "C <c@x>"; c_commit_time := 1234567890; c_commit_tz := 0; c_commit_neg := true;
     c_encoding := Some (bs "iso-8859-1");
     c_mergetag := [bs "object x" ++ [10] ++ bs "tag v1" ++ [10; 10] ++ bs "m" ++ [255; 10]];
     c_extra := [(bs "HG:extra", bs "source:abc"); (bs "HG:rename-source", [255])];
     c_gpgsig := Some (bs "-----BEGIN PGP SIGNATURE-----" ++ [10; 10] ++ bs "iQ" ++ [10] ++ bs "-----END");
     c_message := Some ([233] ++ bs "t" ++ [233; 10]) |}.

Example ex_commit_guard : rt_guard ex_env ex_commit = true.
Proof. vm_compute. reflexivity. Qed.

Example ex_commit_implicit_latin1_guard :
  rt_guard (fun _ => CUnknown)
    (wit (bs "A <a>") (bs "C <c>") None [] (Some [233])) = true.
Proof. vm_compute. reflexivity. Qed.

(* ------------------------------------------------------------------ the limit of the model *)
Theorem other_codec_unmodelled env (c : commit) (e : bytes) :
  c_encoding c = Some e -> is_ascii e = true -> bytes_eqb e (bs "false") = false ->
  lookup env e = COther -> import_commit env c = Unmodelled.
Proof.
  intros He Ha Hf Hl. unfold import_commit, import_texts. rewrite He, Ha, Hf, Hl.
  reflexivity.
Qed.

(* ------------------------------------------------------------------ roundtrip.py *)
(* a message without the "\n--BZR--\n" marker passes extract_bzr_metadata unchanged *)
Theorem no_marker_transparent (m : bytes) :
  containsb BZR_MARK m = false -> extract_msg m = (m, false).
Proof.
  unfold extract_msg. intros H.
  assert (Hs : bzr_split m = None).
  { induction m as [|b m IH].
    - reflexivity.
    - cbn [containsb] in H. apply orb_false_iff in H. destruct H as [Hp Hc].
      cbn [bzr_split]. rewrite Hp. rewrite (IH Hc). reflexivity. }
  rewrite Hs. reflexivity.
Qed.
