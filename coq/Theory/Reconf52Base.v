(* Theory/Reconf52Base.v -- C52: infrastructure for reasoning about Model/Reconf52.apply:
   the chain-of-steps invariant rule, what each step leaves untouched (frames), and the
   well-formedness of the plans the factories produce. *)
From Coq Require Import List Bool Arith String Lia.
Import ListNotations.
From BV Require Import Lib.Obs Lib.Dag Theory.DagFacts Model.Reconf52.
Open Scope string_scope.
Open Scope nat_scope.
Open Scope list_scope.

(* ---- the invariant rule for a chain of steps ------------------------------------------- *)

Lemma run_steps_inv (I : nat -> world -> Prop) : forall ss k w,
  I k w ->
  (forall j s w1, nth_error ss j = Some s -> I (k + j) w1 -> I (S (k + j)) (world_of (s w1))) ->
  exists j, j <= List.length ss /\ I (k + j) (world_of (run_steps ss w))
            /\ (forall w', run_steps ss w = Ok w' -> j = List.length ss).
Proof.
  induction ss as [|s ss IH]; intros k w HI Hstep.
  - exists 0. cbn. rewrite Nat.add_0_r. auto.
  - cbn [run_steps]. pose proof (Hstep 0 s w eq_refl) as H0. rewrite Nat.add_0_r in H0.
    specialize (H0 HI). destruct (s w) as [w1|e w1] eqn:Hs; cbn [rbind world_of] in *.
    + destruct (IH (S k) w1 H0) as (j & Hj & HIj & Hok).
      { intros j s' w2 Hn Hw2. specialize (Hstep (S j) s' w2 Hn).
        rewrite <- plus_n_Sm in Hstep. apply Hstep. exact Hw2. }
      exists (S j). cbn [List.length]. rewrite <- plus_n_Sm. split; [lia|]. split; [exact HIj|].
      intros w' Hw'. rewrite (Hok w' Hw'). reflexivity.
    + exists 1. cbn [List.length]. split; [lia|]. rewrite Nat.add_1_r. split; [exact H0|].
      intros w' Hw'. discriminate Hw'.
Qed.

(* specialised to apply: stage j <= 13 is the number of steps that ran *)
Lemma apply_inv (I : nat -> world -> Prop) force nb p w0 :
  I 0 w0 ->
  (forall j s w1, nth_error (steps nb p w0) j = Some s -> I j w1 -> I (S j) (world_of (s w1))) ->
  exists j, j <= 13 /\ I j (world_of (apply force nb p w0))
            /\ (forall w', apply force nb p w0 = Ok w' -> j = 13).
Proof.
  intros H0 Hstep. unfold apply.
  destruct (if force then None else check p w0 nb) as [e|].
  - exists 0. cbn. split; [lia|]. split; [exact H0|]. intros w' Hw'. discriminate Hw'.
  - destruct (pre_bind p w0 nb) as [e|].
    { exists 0. cbn. split; [lia|]. split; [exact H0|]. intros w' Hw'. discriminate Hw'. }
    destruct (run_steps_inv I (steps nb p w0) 0 w0 H0) as (j & Hj & HIj & Hok).
    { intros j s w1 Hn Hw1. cbn in *. apply (Hstep j s w1 Hn Hw1). }
    exists j. cbn in Hj. cbn [plus] in HIj. auto.
Qed.

(* a property that holds at every stage holds of every outcome *)
Lemma apply_inv_all (I : nat -> world -> Prop) (Q : world -> Prop) force nb p w0 :
  I 0 w0 ->
  (forall j s w1, nth_error (steps nb p w0) j = Some s -> I j w1 -> I (S j) (world_of (s w1))) ->
  (forall j w, I j w -> Q w) ->
  Q (world_of (apply force nb p w0)).
Proof.
  intros H0 Hs HQ. destruct (apply_inv I force nb p w0 H0 Hs) as (j & _ & Hj & _). exact (HQ j _ Hj).
Qed.

(* split "nth_error (steps ..) j = Some s" into the thirteen concrete steps *)
Lemma steps_cases nb p w0 j s : nth_error (steps nb p w0) j = Some s ->
  (j = 0 /\ s = step_create_repository p w0) \/ (j = 1 /\ s = step_fetch_referenced p w0)
  \/ (j = 2 /\ s = step_open_reference p w0 nb) \/ (j = 3 /\ s = step_destroy_repository_fetch p w0 nb)
  \/ (j = 4 /\ s = step_destroy_reference p) \/ (j = 5 /\ s = step_destroy_branch p w0 nb)
  \/ (j = 6 /\ s = step_create_branch p w0) \/ (j = 7 /\ s = step_create_reference p w0 nb)
  \/ (j = 8 /\ s = step_trees p) \/ (j = 9 /\ s = step_unbind p) \/ (j = 10 /\ s = step_bind p w0 nb)
  \/ (j = 11 /\ s = step_destroy_repository p) \/ (j = 12 /\ s = step_repository_trees p).
Proof.
  intros H. unfold steps in H.
  repeat (destruct j as [|j]; [cbn [nth_error] in H; injection H as <-; tauto | ]).
  destruct j; discriminate H.
Qed.

(* ---- get_other / set_other ----------------------------------------------------------------- *)

Lemma get_set_other_same w l o : l < 3 -> get_other (set_other w l o) l = Some o.
Proof. destruct l as [|[|[|l]]]; intros; try reflexivity; lia. Qed.

Lemma get_set_other_neq w l l' o : l <> l' -> get_other (set_other w l o) l' = get_other w l'.
Proof.
  destruct l as [|[|[|l]]], l' as [|[|[|l']]]; intros; try reflexivity; congruence.
Qed.

Lemma get_other_lt w l o : get_other w l = Some o -> l < 3.
Proof. destruct l as [|[|[|l]]]; cbn; intros; try lia; discriminate. Qed.

Lemma get_set_other w l l' o :
  get_other (set_other w l o) l' = if (l =? l') && (l <? 3) then Some o else get_other w l'.
Proof.
  destruct l as [|[|[|l]]], l' as [|[|[|l']]]; try reflexivity.
  cbn [set_other get_other]. destruct (S (S (S l)) =? S (S (S l'))); reflexivity.
Qed.

Definition otip (o : option obranch) : option (option revid) := option_map o_tip o.
Definition otags (o : option obranch) : option tagd := option_map o_tags o.

(* ---- frames: what each step leaves untouched ----------------------------------------------- *)

Ltac brk :=
  repeat match goal with
         | |- context [match ?x with _ => _ end] => destruct x eqn:?
         | |- context [if ?x then _ else _] => destruct x eqn:?
         end.

Lemma s1_frame p w0 w : let w' := world_of (step_create_repository p w0 w) in
  w_g w' = w_g w /\ w_outer w' = w_outer w /\ w_branch w' = w_branch w /\ w_tree w' = w_tree w
  /\ w_inner w' = w_inner w /\ w_sib w' = w_sib w /\ w_far w' = w_far w.
Proof. unfold step_create_repository; brk; cbn; auto 10. Qed.

Lemma loc_repo_add_frame w rs w' : loc_repo_add w rs = Some w' ->
  w_g w' = w_g w /\ w_branch w' = w_branch w /\ w_tree w' = w_tree w
  /\ w_inner w' = w_inner w /\ w_sib w' = w_sib w /\ w_far w' = w_far w.
Proof. unfold loc_repo_add; brk; intros H; inversion H; subst; cbn; auto 10. Qed.

Lemma s2_frame p w0 w : let w' := world_of (step_fetch_referenced p w0 w) in
  w_g w' = w_g w /\ w_branch w' = w_branch w /\ w_tree w' = w_tree w
  /\ w_inner w' = w_inner w /\ w_sib w' = w_sib w /\ w_far w' = w_far w.
Proof.
  unfold step_fetch_referenced; brk; cbn; auto 10.
  match goal with H : loc_repo_add _ _ = Some _ |- _ => apply loc_repo_add_frame in H end. tauto.
Qed.

Lemma s3_frame p w0 nb w : world_of (step_open_reference p w0 nb w) = w.
Proof. unfold step_open_reference; brk; reflexivity. Qed.

Lemma place_repo_add_frame w l o rs w' : place_repo_add w l o rs = Some w' -> get_other w l = Some o ->
  w_g w' = w_g w /\ w_branch w' = w_branch w /\ w_tree w' = w_tree w
  /\ (forall l', otip (get_other w' l') = otip (get_other w l'))
  /\ (forall l', otags (get_other w' l') = otags (get_other w l')).
Proof.
  unfold place_repo_add; brk; intros H Hg; inversion H; subst; cbn; auto 10.
  all: assert (Hl := get_other_lt _ _ _ Hg).
  all: repeat split; try (destruct l as [|[|[|l]]]; reflexivity).
  all: intros l'; rewrite get_set_other; destruct ((l =? l') && (l <? 3)) eqn:E; [|reflexivity];
       apply andb_prop in E as [E _]; apply Nat.eqb_eq in E; subst l'; rewrite Hg; reflexivity.
Qed.

Lemma s4_frame p w0 nb w : let w' := world_of (step_destroy_repository_fetch p w0 nb w) in
  w_g w' = w_g w /\ w_branch w' = w_branch w /\ w_tree w' = w_tree w
  /\ (forall l', otip (get_other w' l') = otip (get_other w l'))
  /\ (forall l', otags (get_other w' l') = otags (get_other w l')).
Proof.
  unfold step_destroy_repository_fetch; brk; cbn; auto 10.
  all: match goal with H : place_repo_add _ _ _ _ = Some _, G : get_other _ _ = Some _ |- _ =>
    apply (place_repo_add_frame _ _ _ _ _ H) in G end; tauto.
Qed.

Lemma s5a_frame p w : let w' := world_of (step_destroy_reference p w) in
  w_g w' = w_g w /\ w_repo w' = w_repo w /\ w_outer w' = w_outer w /\ w_tree w' = w_tree w
  /\ w_inner w' = w_inner w /\ w_sib w' = w_sib w /\ w_far w' = w_far w.
Proof. unfold step_destroy_reference; brk; cbn; auto 10. Qed.

Definition oown (o : option obranch) : option (option (list revid)) := option_map o_own o.

Lemma s5b_frame p w0 nb w : let w' := world_of (step_destroy_branch p w0 nb w) in
  w_g w' = w_g w /\ w_repo w' = w_repo w /\ w_outer w' = w_outer w /\ w_tree w' = w_tree w
  /\ (forall l', otip (get_other w' l') = otip (get_other w l'))
  /\ (forall l', oown (get_other w' l') = oown (get_other w l')).
Proof.
  unfold step_destroy_branch; brk; cbn; auto 10.
  all: try (repeat split; intros [|[|[|l']]]; reflexivity).
  all: match goal with G : get_other _ ?l = Some ?o |- _ => assert (Hl := get_other_lt _ _ _ G); rename G into Hg end.
  all: repeat split; try (destruct l as [|[|[|l]]]; reflexivity).
  all: intros l';
       match goal with |- context [get_other (set_branch ?x BNone) l'] =>
         replace (get_other (set_branch x BNone) l') with (get_other x l') by (destruct l' as [|[|[|l']]]; reflexivity) end;
       rewrite get_set_other; destruct ((l =? l') && (l <? 3)) eqn:E; [|reflexivity];
       apply andb_prop in E as [E _]; apply Nat.eqb_eq in E; subst l'; rewrite Hg; reflexivity.
Qed.

Lemma s5c_frame p w0 w : let w' := world_of (step_create_branch p w0 w) in
  w_g w' = w_g w /\ w_repo w' = w_repo w /\ w_outer w' = w_outer w /\ w_tree w' = w_tree w
  /\ w_inner w' = w_inner w /\ w_sib w' = w_sib w /\ w_far w' = w_far w.
Proof. unfold step_create_branch; brk; cbn; auto 10. Qed.

Lemma s5d_frame p w0 nb w : let w' := world_of (step_create_reference p w0 nb w) in
  w_g w' = w_g w /\ w_repo w' = w_repo w /\ w_outer w' = w_outer w /\ w_tree w' = w_tree w
  /\ w_inner w' = w_inner w /\ w_sib w' = w_sib w /\ w_far w' = w_far w.
Proof. unfold step_create_reference; brk; cbn; auto 10. Qed.

Lemma s6_frame p w : let w' := world_of (step_trees p w) in
  w_g w' = w_g w /\ w_repo w' = w_repo w /\ w_outer w' = w_outer w /\ w_branch w' = w_branch w
  /\ w_inner w' = w_inner w /\ w_sib w' = w_sib w /\ w_far w' = w_far w.
Proof. unfold step_trees; brk; cbn; auto 10. Qed.

Lemma s7_frame p w : let w' := world_of (step_unbind p w) in
  w_g w' = w_g w /\ w_repo w' = w_repo w /\ w_outer w' = w_outer w /\ w_tree w' = w_tree w
  /\ w_inner w' = w_inner w /\ w_sib w' = w_sib w /\ w_far w' = w_far w.
Proof. unfold step_unbind; brk; cbn; auto 10. Qed.

Lemma s8_frame p w0 nb w : let w' := world_of (step_bind p w0 nb w) in
  w_g w' = w_g w /\ w_repo w' = w_repo w /\ w_outer w' = w_outer w /\ w_tree w' = w_tree w
  /\ w_inner w' = w_inner w /\ w_sib w' = w_sib w /\ w_far w' = w_far w.
Proof. unfold step_bind; brk; cbn; auto 10. Qed.

Lemma s9_frame p w : let w' := world_of (step_destroy_repository p w) in
  w_g w' = w_g w /\ w_outer w' = w_outer w /\ w_branch w' = w_branch w /\ w_tree w' = w_tree w
  /\ w_inner w' = w_inner w /\ w_sib w' = w_sib w /\ w_far w' = w_far w.
Proof. unfold step_destroy_repository; brk; cbn; auto 10. Qed.

Lemma s10_frame p w : let w' := world_of (step_repository_trees p w) in
  w_g w' = w_g w /\ w_branch w' = w_branch w /\ w_tree w' = w_tree w
  /\ w_inner w' = w_inner w /\ w_sib w' = w_sib w /\ w_far w' = w_far w
  /\ orevs (w_repo w') = orevs (w_repo w) /\ orevs (w_outer w') = orevs (w_outer w)
  /\ is_some (w_repo w') = is_some (w_repo w).
Proof.
  unfold step_repository_trees, orevs, is_some.
  destruct (p_repository_trees p); destruct (w_repo w) eqn:E1; destruct (w_outer w) eqn:E2; cbn;
    rewrite ?E1, ?E2; auto 12.
Qed.

(* the branch after the unbind/bind steps: same kind, same tip, same tags *)
Definition same_branch_payload (a b : branch_st) : Prop :=
  match a, b with
  | BNone, BNone => True
  | BLocal x, BLocal y => b_tip x = b_tip y /\ b_tags x = b_tags y
  | BRef l, BRef l' => l = l'
  | _, _ => False
  end.
Lemma same_branch_payload_refl a : same_branch_payload a a.
Proof. destruct a; cbn; auto. Qed.

Lemma s7_branch p w : same_branch_payload (w_branch w) (w_branch (world_of (step_unbind p w))).
Proof.
  unfold step_unbind. destruct (p_unbind p); cbn; [|apply same_branch_payload_refl].
  destruct (w_branch w) eqn:E; cbn; rewrite ?E; cbn; auto.
Qed.

Lemma s8_branch p w0 nb w : same_branch_payload (w_branch w) (w_branch (world_of (step_bind p w0 nb w))).
Proof.
  unfold step_bind. destruct (p_bind p); cbn; [|apply same_branch_payload_refl].
  destruct (select_bind w0 nb); cbn; [|apply same_branch_payload_refl].
  destruct (w_branch w) eqn:E; cbn; rewrite ?E; cbn; auto.
Qed.

Lemma get_other_ext w w' :
  w_inner w' = w_inner w -> w_sib w' = w_sib w -> w_far w' = w_far w -> forall l, get_other w' l = get_other w l.
Proof. intros H1 H2 H3 [|[|[|l]]]; cbn; auto. Qed.

(* ---- the rule for completed applications: only successful transitions matter ---------------- *)

Lemma run_steps_ok_inv (I : nat -> world -> Prop) : forall ss k w,
  I k w ->
  (forall j s w1 w2, nth_error ss j = Some s -> I (k + j) w1 -> s w1 = Ok w2 -> I (S (k + j)) w2) ->
  forall w', run_steps ss w = Ok w' -> I (k + List.length ss) w'.
Proof.
  induction ss as [|s ss IH]; intros k w HI Hstep w' Hrun.
  - cbn in *. injection Hrun as <-. rewrite Nat.add_0_r. exact HI.
  - cbn [run_steps] in Hrun. destruct (s w) as [w1|e w1] eqn:Hs; cbn [rbind] in Hrun; [|discriminate Hrun].
    pose proof (Hstep 0 s w w1 eq_refl) as H0. rewrite Nat.add_0_r in H0. specialize (H0 HI Hs).
    cbn [List.length]. rewrite <- plus_n_Sm. change (S (k + List.length ss)) with (S k + List.length ss).
    apply (IH (S k) w1 H0); [|exact Hrun].
    intros j s' w2 w3 Hn Hw2 Hs'. specialize (Hstep (S j) s' w2 w3 Hn).
    rewrite <- plus_n_Sm in Hstep. apply Hstep; assumption.
Qed.

Lemma apply_ok_inv (I : nat -> world -> Prop) force nb p w0 w' :
  I 0 w0 ->
  (forall j s w1 w2, nth_error (steps nb p w0) j = Some s -> I j w1 -> s w1 = Ok w2 -> I (S j) w2) ->
  apply force nb p w0 = Ok w' -> I 13 w'.
Proof.
  intros H0 Hstep Hap. unfold apply in Hap.
  destruct (if force then None else check p w0 nb) as [e|]; [discriminate Hap|].
  destruct (pre_bind p w0 nb) as [e|]; [discriminate Hap|].
  apply (run_steps_ok_inv I (steps nb p w0) 0 w0 H0); [|exact Hap].
  intros j s w1 w2 Hn Hw1 Hs. cbn in *. apply (Hstep j s w1 w2 Hn Hw1 Hs).
Qed.

(* every step that fails returns the world it was given *)
Lemma ok_world (s : world -> res) w w2 : s w = Ok w2 -> world_of (s w) = w2.
Proof. intros ->. reflexivity. Qed.
