(* Theory/DagSearch.v -- the breadth-first searcher of Lib/DagSearch.v computes
   exactly the revisions reachable from the start keys through revisions that
   are present and not stopped; the fuel [bfs_fuel] always suffices. *)
From Coq Require Import Arith List Bool Lia.
From BV Require Import Lib.DagSearch.
Import ListNotations.

(* ---------- sets as lists ---------- *)
Lemma memb_In x l : memb x l = true <-> In x l.
Proof.
  unfold memb. rewrite existsb_exists. split.
  - intros (y & Hy & E). apply Nat.eqb_eq in E. subst. exact Hy.
  - intros H. exists x. split; [exact H|apply Nat.eqb_refl].
Qed.
Lemma memb_false x l : memb x l = false <-> ~ In x l.
Proof.
  rewrite <- memb_In. destruct (memb x l); split; intros H; congruence.
Qed.
Lemma diff_In x a b : In x (diff a b) <-> In x a /\ ~ In x b.
Proof.
  unfold diff. rewrite filter_In, negb_true_iff, memb_false. reflexivity.
Qed.
Lemma inter_In x a b : In x (inter a b) <-> In x a /\ In x b.
Proof. unfold inter. rewrite filter_In, memb_In. reflexivity. Qed.
Lemma dedup_In x l : In x (dedup l) <-> In x l.
Proof. unfold dedup. apply nodup_In. Qed.
Lemma NoDup_dedup l : NoDup (dedup l).
Proof. unfold dedup. apply NoDup_nodup. Qed.
Lemma NoDup_app_disj (a b : list nat) :
  NoDup a -> NoDup b -> (forall x, In x a -> ~ In x b) -> NoDup (a ++ b).
Proof.
  induction a as [|x a IH]; intros Ha Hb Hd; simpl; [exact Hb|].
  inversion Ha as [|? ? Hx Ha']; subst. constructor.
  - intros Hin. apply in_app_or in Hin. destruct Hin as [Hin|Hin]; [contradiction|].
    exact (Hd x (or_introl eq_refl) Hin).
  - apply IH; [exact Ha'|exact Hb|]. intros y Hy. apply Hd. right. exact Hy.
Qed.
Lemma NoDup_filter_nat (f : nat -> bool) l : NoDup l -> NoDup (filter f l).
Proof.
  induction 1 as [|x l Hx Hl IH]; simpl; [constructor|].
  destruct (f x); [constructor|]; try exact IH.
  intros Hin. apply filter_In in Hin. destruct Hin as [Hin _]. contradiction.
Qed.
Lemma canon_In bound s x : In x (canon bound s) <-> x < bound /\ In x s.
Proof.
  unfold canon. rewrite filter_In, in_seq, memb_In. split; intros [A B]; split; try assumption; lia.
Qed.

(* ---------- graphs ---------- *)
Lemma lookup_In g k ps : lookup g k = Some ps -> In (k, ps) g.
Proof.
  induction g as [|[k' ps'] g IH]; simpl; [discriminate|].
  destruct (Nat.eqb k k') eqn:E.
  - intros H. inversion H. subst. apply Nat.eqb_eq in E. subst. left. reflexivity.
  - intros H. right. apply IH. exact H.
Qed.
Lemma In_lookup g k ps : NoDup (keys g) -> In (k, ps) g -> lookup g k = Some ps.
Proof.
  induction g as [|[k' ps'] g IH]; simpl; intros Hnd Hin; [contradiction|].
  inversion Hnd as [|? ? Hk Hnd']; subst.
  destruct Hin as [Hin|Hin].
  - inversion Hin. subst. rewrite Nat.eqb_refl. reflexivity.
  - destruct (Nat.eqb k k') eqn:E.
    + apply Nat.eqb_eq in E. subst. exfalso. apply Hk.
      unfold keys. apply in_map_iff. exists (k', ps). split; [reflexivity|exact Hin].
    + apply IH; assumption.
Qed.
Lemma in_dom_keys g k : in_dom g k = true <-> In k (keys g).
Proof.
  unfold in_dom, keys. induction g as [|[k' ps'] g IH]; simpl.
  - split; [discriminate|contradiction].
  - destruct (Nat.eqb k k') eqn:E.
    + apply Nat.eqb_eq in E. subst. split; [intros _; left; reflexivity|reflexivity].
    + rewrite IH. apply Nat.eqb_neq in E. split; [intros H; right; exact H|].
      intros [H|H]; [congruence|exact H].
Qed.
Lemma parents_all g c p : In p (parents g c) -> In p (all_parents g).
Proof.
  unfold parents, all_parents. destruct (lookup g c) as [ps|] eqn:E; [|contradiction].
  intros H. apply in_flat_map. exists (c, ps). split; [apply lookup_In; exact E|exact H].
Qed.
Lemma parents_in_dom g c p : In p (parents g c) -> in_dom g c = true.
Proof. unfold parents, in_dom. destruct (lookup g c); [reflexivity|contradiction]. Qed.

(* ---------- specification of the search ---------- *)
Section Spec.
  Variables (g : graph) (start excl : list nat).

  (* a revision whose parents the search follows: present and not stopped *)
  Definition okb (r : nat) : bool := negb (memb r excl) && in_dom g r.

  Inductive Vis : nat -> Prop :=
  | Vis_start r : In r start -> Vis r
  | Vis_step c p : Vis c -> okb c = true -> In p (parents g c) -> Vis p.

  Lemma Vis_universe r : Vis r -> In r (universe g start).
  Proof.
    unfold universe. induction 1 as [r H|c p _ _ _ Hp]; apply in_or_app.
    - left. exact H.
    - right. apply parents_all with c. exact Hp.
  Qed.

  Record Inv (nq seen stopped refs : list nat) : Prop := {
    inv_nd_nq : NoDup nq;
    inv_nd_seen : NoDup seen;
    inv_disj : forall r, In r nq -> ~ In r seen;
    inv_vis : forall r, In r (nq ++ seen) -> Vis r;
    inv_start : forall r, In r start -> In r (nq ++ seen);
    inv_closed : forall c p, In c seen -> okb c = true -> In p (parents g c) -> In p (nq ++ seen);
    inv_stopped : forall r, In r stopped <-> In r seen /\ okb r = false;
    inv_refs : forall r, In r refs <-> exists c, In c seen /\ okb c = true /\ In r (parents g c) }.

  Lemma found_In nq c :
    In c (filter (in_dom g) (diff nq excl)) <-> In c nq /\ okb c = true.
  Proof.
    unfold okb. rewrite filter_In, diff_In, andb_true_iff, negb_true_iff, memb_false. tauto.
  Qed.

  Lemma Inv_step nq seen stopped refs :
    Inv nq seen stopped refs ->
    let seen1 := nq ++ seen in
    let nq1 := diff nq excl in
    let found := filter (in_dom g) nq1 in
    let par := flat_map (parents g) found in
    Inv (dedup (filter (fun p => negb (memb p seen1)) par)) seen1
        (filter (fun r => negb (in_dom g r)) nq1 ++ inter nq excl ++ stopped) (par ++ refs).
  Proof.
    intros I seen1 nq1 found par.
    assert (Hpar : forall p, In p par <-> exists c, In c nq /\ okb c = true /\ In p (parents g c)).
    { intros p. unfold par. rewrite in_flat_map. split.
      - intros (c & Hc & Hp). apply found_In in Hc. exists c. tauto.
      - intros (c & Hc & Ho & Hp). exists c. split; [apply found_In; tauto|exact Hp]. }
    assert (Hnq2 : forall p, In p (dedup (filter (fun p => negb (memb p seen1)) par))
                             <-> In p par /\ ~ In p seen1).
    { intros p. rewrite dedup_In, filter_In, negb_true_iff, memb_false. reflexivity. }
    constructor.
    - apply NoDup_dedup.
    - unfold seen1. apply NoDup_app_disj; [apply (inv_nd_nq _ _ _ _ I)|apply (inv_nd_seen _ _ _ _ I)|apply (inv_disj _ _ _ _ I)].
    - intros r Hr. apply Hnq2 in Hr. tauto.
    - intros r Hr. apply in_app_or in Hr. destruct Hr as [Hr|Hr].
      + apply Hnq2 in Hr. destruct Hr as [Hr _]. apply Hpar in Hr.
        destruct Hr as (c & Hc & Ho & Hp). apply Vis_step with c; [|exact Ho|exact Hp].
        apply (inv_vis _ _ _ _ I). apply in_or_app. left. exact Hc.
      + apply (inv_vis _ _ _ _ I). exact Hr.
    - intros r Hr. apply in_or_app. right. apply (inv_start _ _ _ _ I). exact Hr.
    - intros c p Hc Ho Hp. apply in_or_app.
      destruct (in_dec Nat.eq_dec p seen1) as [Hin|Hnin]; [right; exact Hin|].
      unfold seen1 in Hc. apply in_app_or in Hc. destruct Hc as [Hc|Hc].
      + left. apply Hnq2. split; [|exact Hnin]. apply Hpar. exists c. tauto.
      + exfalso. apply Hnin. apply (inv_closed _ _ _ _ I) with c; assumption.
    - intros r. rewrite !in_app_iff, filter_In, inter_In, negb_true_iff.
      unfold nq1, seen1. rewrite diff_In, in_app_iff, (inv_stopped _ _ _ _ I r).
      unfold okb. split.
      + intros [((Hn & Hx) & Hd)|[(Hn & Hx)|(Hs & Ho)]].
        * split; [left; exact Hn|]. rewrite Hd. apply andb_false_r.
        * split; [left; exact Hn|]. apply memb_In in Hx. rewrite Hx. reflexivity.
        * split; [right; exact Hs|exact Ho].
      + intros ([Hn|Hs] & Ho).
        * destruct (memb r excl) eqn:Em.
          -- right. left. split; [exact Hn|apply memb_In; exact Em].
          -- left. simpl in Ho. split; [split; [exact Hn|apply memb_false; exact Em]|exact Ho].
        * right. right. split; assumption.
    - intros r. rewrite in_app_iff, Hpar, (inv_refs _ _ _ _ I r). unfold seen1. split.
      + intros [(c & Hc & Ho & Hp)|(c & Hc & Ho & Hp)]; exists c; rewrite in_app_iff; tauto.
      + intros (c & Hc & Ho & Hp). apply in_app_or in Hc. destruct Hc as [Hc|Hc]; [left|right]; exists c; tauto.
  Qed.

  Lemma Inv_final seen stopped refs :
    Inv [] seen stopped refs -> forall r, Vis r -> In r seen.
  Proof.
    intros I r Hv. induction Hv as [r Hr|c p _ IH Ho Hp].
    - apply (inv_start _ _ _ _ I) in Hr. exact Hr.
    - exact (inv_closed _ _ _ _ I c p IH Ho Hp).
  Qed.

  Lemma loop_spec : forall fuel nq seen stopped refs,
    Inv nq seen stopped refs ->
    length (universe g start) < fuel + length seen ->
    exists seen' stopped' refs',
      bfs_loop fuel g excl nq seen stopped refs = Some (seen', stopped', refs') /\
      Inv [] seen' stopped' refs'.
  Proof.
    induction fuel as [|f IH]; intros nq seen stopped refs I Hm.
    - destruct nq as [|n nq].
      + simpl. eauto.
      + exfalso.
        assert (Hnd : NoDup ((n :: nq) ++ seen)).
        { apply NoDup_app_disj; [apply (inv_nd_nq _ _ _ _ I)|apply (inv_nd_seen _ _ _ _ I)|apply (inv_disj _ _ _ _ I)]. }
        assert (Hincl : incl ((n :: nq) ++ seen) (universe g start)).
        { intros r Hr. apply Vis_universe. apply (inv_vis _ _ _ _ I). exact Hr. }
        pose proof (NoDup_incl_length Hnd Hincl) as Hl.
        rewrite app_length in Hl. simpl in Hl, Hm. lia.
    - destruct nq as [|n nq].
      + simpl. eauto.
      + cbn [bfs_loop]. apply IH.
        * apply (Inv_step _ _ _ _ I).
        * rewrite app_length. simpl. simpl in Hm. lia.
  Qed.

  Theorem bfs_spec :
    exists seen stopped refs,
      bfs g start excl = Some (seen, stopped, refs) /\
      NoDup seen /\
      (forall r, In r seen <-> Vis r) /\
      (forall r, In r stopped <-> Vis r /\ okb r = false) /\
      (forall r, In r refs <-> exists c, Vis c /\ okb c = true /\ In r (parents g c)).
  Proof.
    unfold bfs, bfs_fuel.
    destruct (loop_spec (S (length (universe g start))) (dedup start) [] [] []) as (seen & stopped & refs & E & I).
    - constructor.
      + apply NoDup_dedup.
      + constructor.
      + intros r _ H. exact H.
      + intros r Hr. rewrite app_nil_r, dedup_In in Hr. apply Vis_start. exact Hr.
      + intros r Hr. rewrite app_nil_r, dedup_In. exact Hr.
      + intros c p H. contradiction.
      + intros r. simpl. tauto.
      + intros r. simpl. split; [contradiction|]. intros (c & H & _). exact H.
    - simpl. lia.
    - exists seen, stopped, refs.
      assert (Hseen : forall r, In r seen <-> Vis r).
      { intros r. split; [|apply (Inv_final _ _ _ I)].
        intros Hr. apply (inv_vis _ _ _ _ I). exact Hr. }
      split; [exact E|]. split; [apply (inv_nd_seen _ _ _ _ I)|]. split; [exact Hseen|]. split.
      + intros r. rewrite (inv_stopped _ _ _ _ I r), Hseen. reflexivity.
      + intros r. rewrite (inv_refs _ _ _ _ I r). split; intros (c & Hc & R); exists c; (split; [apply Hseen; exact Hc|exact R]).
  Qed.

  (* what get_state() reports as the included keys *)
  Corollary bfs_included :
    exists seen stopped refs,
      bfs g start excl = Some (seen, stopped, refs) /\
      NoDup (included_of seen stopped) /\
      (forall r, In r (included_of seen stopped) <-> Vis r /\ okb r = true) /\
      (forall r, In r stopped <-> Vis r /\ okb r = false) /\
      (forall r, In r refs <-> exists c, Vis c /\ okb c = true /\ In r (parents g c)).
  Proof.
    destruct bfs_spec as (seen & stopped & refs & E & Hnd & Hs & Hst & Hr).
    exists seen, stopped, refs. split; [exact E|]. split.
    - unfold included_of, diff. apply NoDup_filter_nat. exact Hnd.
    - split; [|split; assumption].
      intros r. unfold included_of. rewrite diff_In, Hs, Hst.
      destruct (okb r); split; intros [A B]; split; try assumption; try reflexivity; try discriminate.
      + intros [_ C]. discriminate.
      + exfalso. apply B. split; [exact A|reflexivity].
  Qed.
End Spec.
