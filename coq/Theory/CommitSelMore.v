(* Theory/CommitSelMore.v -- C01: guarded post-state theorem, the failure half, concrete witnesses. *)
From Coq Require Import List NArith Bool Lia String.
From BV Require Import Lib.Obs Lib.Tree01 Model.CommitSel Theory.CommitSel.
Import ListNotations.
Open Scope list_scope.

(* ------------------------------------------------------------------ *)
(* under the guard the ids that reach the builder are the changed selected ids *)

Lemma closed_has_cid : forall basis wt S excl cs i,
  selection_closed basis wt S excl = true ->
  selected_changes basis wt (option_map min_sel S) (min_sel excl) = Some cs ->
  has_cid i cs = changed basis wt i && selected basis wt S excl i.
Proof.
  intros basis wt S excl cs i Hc Hs. unfold selected_changes in Hs.
  destruct (iter_changes basis wt (option_map min_sel S)) as [l|] eqn:Ei; [|discriminate].
  injection Hs as <-.
  unfold selection_closed in Hc. apply andb_true_iff in Hc as [Hg1 Hg2].
  rewrite forallb_forall in Hg1. rewrite forallb_forall in Hg2.
  assert (HP : match option_map min_sel S with Some x => x | None => [[]] end = sel_paths S)
    by (destruct S; reflexivity).
  rewrite (emitted_has basis wt (sel_paths S) (min_sel excl)) with (S := option_map min_sel S); try assumption.
  - unfold fsel. change (c_changed (mk_change basis wt i)) with (changed basis wt i).
    change (c_oldp (mk_change basis wt i)) with (tpath basis i).
    change (c_newp (mk_change basis wt i)) with (tpath wt i).
    assert (Hsel : selected basis wt S excl i =
                   hit (sel_paths S) (mk_change basis wt i) &&
                   negb (oinside (min_sel excl) (tpath basis i) || oinside (min_sel excl) (tpath wt i)))
      by reflexivity.
    rewrite Hsel. destruct (changed basis wt i) eqn:Ech.
    + rewrite (changed_in_ids basis wt i Ech). reflexivity.
    + rewrite andb_false_r. reflexivity.
  - intros c Hin. specialize (Hg1 c Hin). apply andb_true_iff in Hg1 as [Hg1 _]. assumption.
  - intros c n Hin Hch Hh Hnp. specialize (Hg2 c Hin). rewrite Hch, Hh, Hnp in Hg2. assumption.
Qed.

Theorem commit_post_guarded : forall basis wt S excl t wt',
  selection_closed basis wt S excl = true ->
  commit basis wt S excl = COk t wt' ->
  forall i, (selected basis wt S excl i = true -> changed t wt' i = false) /\
            (selected basis wt S excl i = false -> changed t wt' i = changed basis wt i).
Proof.
  intros basis wt S excl t wt' Hc H i.
  destruct (commit_post basis wt S excl t wt' H) as [cs [Hs Hp]].
  pose proof (closed_has_cid basis wt S excl cs i Hc Hs) as Hh.
  destruct (Hp i) as [Hp1 Hp2]. split; intros Hsel; rewrite Hsel in Hh.
  - destruct (changed basis wt i) eqn:Ech; simpl in Hh.
    + apply Hp1; assumption.
    + rewrite (Hp2 Hh). first [assumption | reflexivity].
  - rewrite andb_false_r in Hh. apply Hp2; assumption.
Qed.

(* ------------------------------------------------------------------ *)
(* the failure half *)

(* the run raised, and the state it left satisfies Q *)
Definition raised_and (r : pstate * bool) (Q : pstate -> Prop) : Prop := snd r = true /\ Q (fst r).

Lemma idx_builder_commit : forall b, index_of PBuilderCommit b = 6%nat.
Proof. destruct b; reflexivity. Qed.
Lemma idx_set_tip : forall b, index_of PSetTip b = (if b then 9 else 8)%nat.
Proof. destruct b; reflexivity. Qed.
Lemma pipeline_length : forall b, List.length (pipeline b) = (if b then 14 else 13)%nat.
Proof. destruct b; reflexivity. Qed.

(* an exception raised by any step up to and including builder.commit: abort handler, nothing visible *)
Theorem fault_before_commit_invisible : forall bound new k s,
  (k <= index_of PBuilderCommit bound)%nat ->
  raised_and (run_fault new k (pipeline bound) s)
    (fun s' => p_revs s' = p_revs s /\ p_tip s' = p_tip s /\ p_master_tip s' = p_master_tip s /\
               p_wbasis s' = p_wbasis s /\ (k <> 0%nat -> p_wg s' = false) /\ (k = 0%nat -> p_wg s' = p_wg s)).
Proof.
  intros bound new k s H. rewrite idx_builder_commit in H. unfold raised_and.
  destruct bound;
    do 7 (destruct k as [|k]; [simpl; repeat split; try reflexivity; intros; congruence|]); lia.
Qed.

(* an exception after builder.commit and before the local tip is set: the revision stays *)
Theorem fault_after_commit_visible : forall bound new k s,
  (index_of PBuilderCommit bound < k <= index_of PSetTip bound)%nat ->
  raised_and (run_fault new k (pipeline bound) s)
    (fun s' => p_revs s' = new :: p_revs s /\ p_tip s' = p_tip s /\ p_wbasis s' = p_wbasis s /\ p_wg s' = false).
Proof.
  intros bound new k s H. rewrite idx_builder_commit, idx_set_tip in H. unfold raised_and.
  destruct bound; do 7 (destruct k as [|k]; [lia|]).
  - do 3 (destruct k as [|k]; [simpl; repeat split; reflexivity|]). lia.
  - do 2 (destruct k as [|k]; [simpl; repeat split; reflexivity|]). lia.
Qed.

(* an exception after the tip update: the commit raises although the tip has moved *)
Theorem fault_after_tip_visible : forall bound new k s,
  (index_of PSetTip bound < k < List.length (pipeline bound))%nat ->
  raised_and (run_fault new k (pipeline bound) s)
    (fun s' => p_revs s' = new :: p_revs s /\ p_tip s' = new /\ p_wg s' = false).
Proof.
  intros bound new k s H. rewrite idx_set_tip, pipeline_length in H. unfold raised_and.
  destruct bound.
  - do 10 (destruct k as [|k]; [lia|]).
    do 4 (destruct k as [|k]; [simpl; repeat split; reflexivity|]). lia.
  - do 9 (destruct k as [|k]; [lia|]).
    do 4 (destruct k as [|k]; [simpl; repeat split; reflexivity|]). lia.
Qed.

(* no exception: everything advanced *)
Theorem no_fault_complete : forall bound new k s,
  (List.length (pipeline bound) <= k)%nat ->
  run_fault new k (pipeline bound) s =
    (mkP (new :: p_revs s) new (if bound then new else p_master_tip s) new false [], false).
Proof.
  intros bound new k s H. rewrite pipeline_length in H.
  destruct bound.
  - do 14 (destruct k as [|k]; [lia|]). destruct k; reflexivity.
  - do 13 (destruct k as [|k]; [lia|]). destruct k; reflexivity.
Qed.

(* ------------------------------------------------------------------ *)
(* concrete trees for the examples and refutations *)

Definition ex_ops0 : list op :=
  [OMkdir [97] 1; OMkdir [98] 2; OMkdir [99] 3; OMkdir [97; 100] 4;
   OAddFile [97; 100; 120] 5 1 false; OAddFile [97; 100; 121] 6 1 true; OAddFile [99; 122] 7 1 false]%N.
Definition ex_wt0 : tree := fold_left apply_op ex_ops0 (h_wt h_init).
Definition ex_basis : tree := match commit [] ex_wt0 None [] with COk t _ => t | CErr _ => [] end.

(* c/z renamed to b/z ; exclude = [c] *)
Definition ex_wt_cross : tree := fold_left apply_op [ORename [99; 122] [98; 122]]%N ex_wt0.
(* a/d/y moved out to c/y, then a/d moved to b/d ; specific_files = [b] *)
Definition ex_wt_closure : tree :=
  fold_left apply_op [ORename [97; 100; 121] [99; 121]; ORename [97; 100] [98; 100]]%N ex_wt0.
(* a/d/x modified, c/z modified ; specific_files = [a] *)
Definition ex_wt_plain : tree :=
  fold_left apply_op [OModify [97; 100; 120] 2; OModify [99; 122] 2; OAddFile [97; 103] 8 1 false]%N ex_wt0.

Lemma ex_basis_ok : valid_rev_tree ex_basis = true /\ rev_normal ex_basis = true /\ List.length ex_basis = 8%nat.
Proof. vm_compute. repeat split; reflexivity. Qed.
