(* Theory/Reconf52Refute.v -- C52: the clause of the property that is still FALSE of the faithful model of
   Reconfigure.apply (tags; witness in the corpus of harness/props/c52.py, reproduces on the real code),
   the former witnesses of repaired defects as regression examples, and what a refusal leaves behind. *)
From Coq Require Import List Bool Arith String Lia.
Import ListNotations.
From BV Require Import Lib.Obs Lib.Dag Theory.DagFacts Model.Reconf52 Theory.Reconf52Wf Theory.Reconf52Pres
     Theory.Reconf52Revs.
Open Scope string_scope.
Open Scope nat_scope.
Open Scope list_scope.

Definition g0 : dag := [[]; [0]; [1]; [1]; [2; 3]; [4]].
Definition all0 : list revid := [0; 1; 2; 3; 4; 5].

(* W1 (regression, repaired by 300cbf1): a tree with a pending merge (r3) inside a shared repository is
   made standalone: the pending merge is fetched together with the tip's ancestry *)
Definition w1 : world :=
  mkW g0 None (Some (mkRepo true true all0)) (BLocal (mkLB (Some 2) [] None None None))
      (Some (mkTree [2; 3] [])) None None None.

Example pending_merge_witness_now_kept :
  exists w', reconfigure TStandalone false None w1 = Ok w' /\ w_tree w' = Some (mkTree [2; 3] [])
             /\ memb 3 (eff_revs w') = true /\ memb 5 (eff_revs w') = false.
Proof. eexists. vm_compute. repeat split. Qed.

(* W2 (regression, repaired by ea08d31): a branch reference at the root of a shared repository that holds
   the referenced branch's revisions, nothing above: to_use_shared is refused before anything is destroyed *)
Definition w2 : world :=
  mkW g0 (Some (mkRepo true true all0)) None (BRef 0) None (Some (mkOB (Some 5) [(0, 1)] None)) None None.

Example use_shared_witness_now_refused :
  reconfigure TUseShared false None w2 = Fail "NotBranchError" w2.
Proof. vm_compute. reflexivity. Qed.

(* W3: the location's tag 0 -> r2 clashes with the new reference's tag 0 -> r1: the reference wins *)
Definition w3 : world :=
  mkW g0 (Some (mkRepo false true all0)) None (BLocal (mkLB (Some 4) [(0, 2); (1, 4)] None None None))
      (Some (mkTree [4] [1])) None None (Some (mkOB (Some 4) [(0, 1)] (Some [0; 1; 2; 3; 4]))).

Theorem preserves_tags_refuted :
  exists w w', reconfigure TLightweight false (Some 2) w = Ok w'
               /\ no_tag_clash TLightweight (Some 2) w = false
               /\ tag_lookup 0 (eff_tags w) = Some 2 /\ tag_lookup 0 (eff_tags w') = Some 1.
Proof. exists w3. eexists. vm_compute. repeat split. Qed.

(* W4 (regression, repaired by 00bc7de): to_checkout with nothing to bind to is refused before the
   working tree is created *)
Definition w4 : world :=
  mkW g0 (Some (mkRepo false true [0; 1; 2; 3; 4])) None (BLocal (mkLB (Some 4) [(2, 0)] None None None))
      None None None (Some (mkOB (Some 1) [] (Some [0; 1]))).

Example bind_witness_now_refused_early :
  reconfigure TCheckout false None w4 = Fail "NoBindLocation" w4
  /\ reconfigure TCheckout true None w4 = Fail "NoBindLocation" w4.
Proof. vm_compute. split; reflexivity. Qed.

(* refusals by a factory or by _check change nothing *)
Theorem refusal_by_factory_unchanged t force nb w e :
  factory w t = inr e -> reconfigure t force nb w = Fail e w.
Proof. intros H. unfold reconfigure. rewrite H. reflexivity. Qed.

Theorem refusal_by_check_unchanged t nb w p e :
  factory w t = inl p -> check p w nb = Some e -> reconfigure t false nb w = Fail e w.
Proof. intros Hf Hc. unfold reconfigure, apply. rewrite Hf, Hc. reflexivity. Qed.

(* the branch to bind to is looked for before anything is changed (with or without force) *)
Theorem refusal_by_bind_unchanged t nb w p e :
  factory w t = inl p -> check p w nb = None -> pre_bind p w nb = Some e ->
  forall force, reconfigure t force nb w = Fail e w.
Proof.
  intros Hf Hc Hb force. unfold reconfigure, apply. rewrite Hf, Hb.
  destruct force; [reflexivity|]. rewrite Hc. reflexivity.
Qed.

(* ... and binding itself cannot fail afterwards *)
Theorem bind_step_cannot_refuse p w0 nb w b :
  pre_bind p w0 nb = None -> w_branch w = BLocal b -> exists w', step_bind p w0 nb w = Ok w'.
Proof.
  unfold pre_bind, step_bind. intros Hp Hb. destruct (p_bind p); [|eauto].
  destruct (select_bind w0 nb); [|discriminate Hp]. rewrite Hb. eauto.
Qed.

(* uncommitted changes are never destroyed without force *)
Theorem uncommitted_changes_refused t nb w p tr :
  factory w t = inl p -> p_destroy_tree p = true -> w_tree w = Some tr -> tree_has_changes tr = true ->
  reconfigure t false nb w = Fail "UncommittedChanges" w.
Proof.
  intros Hf Hd Ht Hc. apply (refusal_by_check_unchanged t nb w p); [exact Hf|].
  unfold check. rewrite Hd, Ht, Hc. reflexivity.
Qed.

(* with force=True the tip is not protected: the UnsyncedBranches test is skipped *)
Definition w5 : world :=
  mkW g0 (Some (mkRepo false true all0)) None (BLocal (mkLB (Some 4) [] None None None))
      None None None (Some (mkOB (Some 1) [] (Some [0; 1]))).
Theorem preserves_tip_forced_refuted :
  exists w w', reconfigure TLightweight true (Some 2) w = Ok w'
               /\ eff_tip w = Some (Some 4) /\ eff_tip w' = Some (Some 1)
               /\ reconfigure TLightweight false (Some 2) w = Fail "UnsyncedBranches" w.
Proof. exists w5. eexists. vm_compute. repeat split. Qed.

(* hypotheses of the positive theorems are satisfiable by non-trivial values *)
Example tip_example :
  exists w', reconfigure TLightweight false (Some 2) w3 = Ok w' /\ eff_tip w3 = Some (Some 4) /\ eff_tip w' = Some (Some 4).
Proof. eexists. vm_compute. repeat split. Qed.
Example no_loss_example :
  exists p w', factory w3 TLightweight = inl p
               /\ reconfigure TLightweight false (Some 2) w3 = Ok w' /\ p_destroy_repository p = true
               /\ subsetb (all_revs w3) (all_revs w') = true.
Proof. eexists. eexists. vm_compute. repeat split. Qed.
